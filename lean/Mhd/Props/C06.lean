/-
  C06 — Progress: no lost wake-up, every request is answered or closed.

  Statements only; proofs are in Mhd.Proofs.Loop*.  The event-loop model is
  Mhd.Model.Loop / LoopRounds (connection lists in pointer order, flags,
  call_handlers, the three traversals following `prev` / `prevE`, get_fdset,
  get_timeout).  What a handler does to its own connection is the parameter
  `ops : Ops W`; the theorems hold for EVERY `ops` that satisfies the law record
  `Laws ops needs` (Mhd.Proofs.LoopCH), every daemon state satisfying the
  invariant, every readiness set, every history — no bound on the number of
  connections, rounds or handler calls.

  `needs l` = "the connection has work that can proceed without new network input
  or an explicit resume".
-/
import Mhd.Proofs.LoopProgress
import Mhd.Proofs.LoopEpoll
import Mhd.Proofs.LoopTpc
import Mhd.Proofs.LoopConnSM
import Mhd.Proofs.LoopReset
import Mhd.Proofs.LoopConnSMLaws

namespace Mhd.C06
open Mhd.Loop Mhd.Gen.Loop Mhd.Gen.ConnState

variable {W : Type}

/-! ## the tie to the source text: all three loops read the next pointer before the call -/

/-- `internal_run_from_select` saves `pos->prev` before `call_handlers` (regenerated from
    daemon.c; false on a tree without the F10 fix, and then this file does not compile). -/
theorem code_select_saves_prev : selectSavesPrev = true := by decide
theorem code_poll_saves_prev : pollSavesPrev = true := by decide
theorem code_epoll_saves_prev : epollSavesPrev = true := by decide

/-- hence the round functions of the model that follow /repo are the ones the theorems are about -/
theorem runFromSelect_is_saved (ops : Ops W) (d : Daemon W) (rdy : Ready) :
    runFromSelect ops d rdy = runFromSelectWith ops true d rdy := by
  unfold runFromSelect; rw [code_select_saves_prev]
theorem pollAll_is_saved (ops : Ops W) (d : Daemon W) (rdy : Ready) :
    pollAll ops d rdy = pollAllWith ops true d rdy := by
  unfold pollAll; rw [code_poll_saves_prev]

theorem epollRound_is_saved (ops : Ops W) (d : Daemon W) (evs : List EpEv) :
    epollRound ops d evs = epollRoundWith ops true d evs := by
  unfold epollRound; rw [code_epoll_saves_prev]

/-- the bit tests of the loops on `event_loop_info` (values regenerated from internal.h) -/
theorem eli_bits : ∀ e : Eli,
    (e.hasRead = true ↔ (e = .read ∨ e = .processRead)) ∧
    (e.hasProcess = true ↔ (e = .process ∨ e = .processRead)) ∧
    (e.isWrite = true ↔ e = .write) := by
  intro e; cases e <;> decide

/-! ## call_handlers -/

/-- call_handlers always ends with MHD_connection_handle_idle on that connection … -/
theorem call_handlers_idles (ops : Ops W) (ep : Bool) (c : Conn W) (wh : Wh) (rr wr fc : Bool) :
    Ev.idle c.id ∈ (chLocal ops ep c wh rr wr fc).evs :=
  chLocal_idled ops ep c wh rr wr fc

/-- … so a connection it leaves in the active list is in sync (work pending ⇒ PROCESS state),
    and the `data_already_pending` block was reached for it. -/
theorem call_handlers_sync {ops : Ops W} {needs : Local W → Bool} (L : Laws ops needs) (ep : Bool) (c : Conn W)
    (rr wr fc : Bool) (h : (chLocal ops ep c .active rr wr fc).wh = .active) :
    Sync needs (chLocal ops ep c .active rr wr fc).c ∧ (chLocal ops ep c .active rr wr fc).dapCheck = true :=
  ⟨chLocal_sync L ep c .active rr wr fc h, chLocal_dapCheck L ep c rr wr fc h⟩

/-! ## round post-condition -/

/-- **select.**  For every daemon state satisfying the invariant, every readiness set and every
    lawful `ops`: after `MHD_run_from_select2` the invariant holds again — in particular every
    active connection is in sync and `data_already_pending` is set if one of them is in a PROCESS
    state — and every connection that is active afterwards was passed through handle_idle in
    this round (including connections resumed or added in this round). -/
theorem select_round_post {ops : Ops W} {needs : Local W → Bool} (L : Laws ops needs) {d : Daemon W}
    (h : InvSP needs d) (rdy : Ready) :
    InvSP needs (runFromSelect ops d rdy) ∧
    ∃ pre, (runFromSelect ops d rdy).log = pre ++ d.log ∧
      ∀ c ∈ (runFromSelect ops d rdy).conns, Ev.idle c.id ∈ pre := by
  rw [runFromSelect_is_saved]; exact select_round L h rdy

/-- **poll.**  Same, except that connections added during the round (they are not in the array
    poll() was called with) are not visited; they are fresh. -/
theorem poll_round_post {ops : Ops W} {needs : Local W → Bool} (L : Laws ops needs) {d : Daemon W}
    (h : InvSP needs d) (rdy : Ready) :
    InvSP needs (pollAll ops d rdy) ∧
    ∃ pre, (pollAll ops d rdy).log = pre ++ d.log ∧
      ∀ c ∈ (pollAll ops d rdy).conns, c.id ∈ ids d.newc ∨ Ev.idle c.id ∈ pre := by
  rw [pollAll_is_saved]; exact poll_round L h rdy

/-- the pending-work flag, spelled out: after a round, some active connection in a PROCESS state
    ⇒ `data_already_pending` -/
theorem pending_flag {needs : Local W → Bool} {d : Daemon W} (h : InvSP needs d) :
    (∃ c ∈ d.conns, c.loc.eli.hasProcess = true) → d.dap = true :=
  fun ⟨c, hc, hp⟩ => h.flag c hc hp

/-- **No closed connection is left waiting.**  If handle_idle never leaves a connection in the active list
    in the CLOSED state (`LawOpen`: true of the code with the F22 fix, false without it — there a connection
    closed while its wait state is computed stays active, unwatched, with "no timeout"), then after every
    round of either loop no active connection is closed-but-not-cleaned-up. -/
theorem round_leaves_no_closed {ops : Ops W} {needs : Local W → Bool} (LO : LawOpen ops) {d : Daemon W}
    (h : InvSP needs d) (rdy : Ready) (poll : Bool) (hnew : ∀ c ∈ d.newc, c.loc.st ≠ stClosed) :
    ∀ c ∈ (roundOf ops poll d rdy).conns, c.loc.st ≠ stClosed :=
  round_no_closed LO h rdy poll hnew

/-- non-vacuity: the witness instance satisfies `LawOpen` -/
example : LawOpen Witness.ops := ⟨by
  intro id k wh l hw
  simp only [Witness.ops] at hw ⊢
  split at hw
  · cases hw
  · rename_i h; simp only [h, if_false]; exact h⟩

/-- **Every active connection waits for what its state calls for.**  Under `LawTable` (handle_idle ends with the
    regenerated state → event_loop_info table of MHD_connection_update_event_loop_info) every connection a round
    of either loop leaves active — except those added during the round — is in the wait class of its state; in
    particular a connection with a reply to send is watched for writability. -/
theorem round_wait_class {ops : Ops W} {needs : Local W → Bool} (LT : LawTable ops) {d : Daemon W}
    (h : InvSP needs d) (rdy : Ready) (poll : Bool) :
    ∀ c ∈ (roundOf ops poll d rdy).conns, c.id ∈ ids d.newc ∨ TableOK c.loc :=
  round_table LT h rdy poll

/-- the regenerated table puts the states `call_handlers` writes in into the WRITE class, the "unready" and
    full-request states into PROCESS, the line/header receiving states into READ (fails to `decide` if a case of
    MHD_connection_update_event_loop_info is given another wait class) -/
theorem wait_table_sane :
    stHeadersSending ∈ writeStates ∧ stNormalBodyReady ∈ writeStates ∧ stChunkedBodyReady ∈ writeStates ∧
    stInit ∈ readStates ∧ stClosed ∉ writeStates ++ processStates ++ readStates ∧
    (∀ s ∈ writeStates, s ∉ processStates ∧ s ∉ readStates) ∧ writeStates.length = 5 ∧ processStates.length = 3 ∧
    readStates.length = 4 := by decide

/-- non-vacuity of `round_wait_class`: a step whose idle sets the wait class from the table is lawful -/
def fixEli (l : Local Unit) : Local Unit :=
  if l.st ∈ writeStates then { l with eli := .write }
  else if l.st ∈ processStates then { l with eli := .process }
  else if l.st ∈ readStates then { l with eli := .read } else l
def tblOps : Ops Unit := { read := fun _ _ _ l => l, write := fun _ _ l => l, close := fun _ _ l => l,
                           idle := fun _ _ wh l => (fixEli l, wh) }
theorem wait_classes_disjoint : ∀ s, (s ∈ writeStates → s ∉ processStates ∧ s ∉ readStates) ∧ (s ∈ processStates → s ∉ readStates) := by
  intro s
  simp only [writeStates, processStates, readStates, List.mem_cons, List.not_mem_nil, or_false]
  omega
example : LawTable tblOps := ⟨by
  intro id k wh l _
  show TableOK (fixEli l)
  unfold TableOK fixEli
  have := wait_classes_disjoint l.st
  by_cases h1 : l.st ∈ writeStates
  · simp [h1, (this.1 h1).1, (this.1 h1).2]
  · by_cases h2 : l.st ∈ processStates
    · simp [h1, h2, this.2 h2]
    · by_cases h3 : l.st ∈ readStates <;> simp [h1, h2, h3]⟩

/-- the eready drop test of MHD_epoll is the exact one -/
theorem code_eready_drop_exact : ereadyDropExactRead = true := by decide

/-! ## every history -/

/-- The invariant holds in every state reachable from an empty daemon by any sequence of
    MHD_add_connection (fresh connection), MHD_resume_connection and event-loop rounds with
    arbitrary readiness, for the select loop (`poll = false`) and the poll loop. -/
theorem invariant_reachable {ops : Ops W} {needs : Local W → Bool} (L : Laws ops needs) {poll : Bool} {d : Daemon W}
    (h : Reach ops needs poll d) : InvSP needs d :=
  reach_inv L h

/-! ## no lost wake-up -/

/-- **No lost wake-up.**  In every reachable state: if MHD_get_timeout64 answers "no timeout" and none
    of the descriptors MHD_get_fdset2 asked to watch is ready, then no active connection has work that
    could proceed — none needs processing, none waits for readability with a readable descriptor, none
    waits for writability with a writable descriptor. -/
theorem no_lost_wakeup {ops : Ops W} {needs : Local W → Bool} (L : Laws ops needs) {poll : Bool} {d : Daemon W}
    (h : Reach ops needs poll d) (rdy : Ready) (q : Quiescent d rdy) :
    ∀ c ∈ d.conns, needs c.loc = false ∧ ¬ (c.loc.eli.hasRead = true ∧ rdyR rdy c.id = true) ∧
      ¬ (c.loc.eli.isWrite = true ∧ rdyW rdy c.id = true) :=
  no_lost_wakeup_sp (reach_inv L h) rdy q

/-! ## epoll -/

/-- **epoll, round post-condition.**  MHD_epoll does not pass every connection through handle_idle.
    What every round keeps (`InvEP`), for every state satisfying it, every list of delivered epoll
    events and every `ops` satisfying `LawsEp`: every active connection is in sync; every active
    connection that is in a PROCESS state, or waits for an event that is cached as ready, is in the
    eready list; the IN_EREADY bits agree with the list; no fault. -/
theorem epoll_round_post {ops : Ops W} {needs : Local W → Bool} (L : LawsEp ops needs) {d : Daemon W}
    (h : InvEP needs d) (evs : List EpEv) : InvEP needs (epollRound ops d evs) := by
  rw [epollRound_is_saved]; exact epoll_round L h evs

/-- … in every state reachable by MHD_add_connection / MHD_resume_connection / rounds with arbitrary events. -/
theorem invariant_reachable_epoll {ops : Ops W} {needs : Local W → Bool} (L : LawsEp ops needs) {d : Daemon W}
    (h : ReachEp ops needs d) : InvEP needs d :=
  reachEp_inv L h

/-- **No lost wake-up, epoll.**  In every reachable state in which MHD_get_timeout64 answers "no timeout"
    (so the eready list is empty): no active connection needs processing, none waits for readability
    while the daemon already knows the descriptor is readable, none waits for writability while the
    daemon already knows it is writable.  (New kernel events are outside the model: they make the epoll
    descriptor the application watches readable.) -/
theorem no_lost_wakeup_epoll {ops : Ops W} {needs : Local W → Bool} (L : LawsEp ops needs) {d : Daemon W}
    (h : ReachEp ops needs d) (q : getTimeout d = .none) :
    ∀ c ∈ d.conns, needs c.loc = false ∧ ¬ (c.loc.eli.hasRead = true ∧ c.loc.rdReady = true) ∧
      ¬ (c.loc.eli.isWrite = true ∧ c.loc.wrReady = true) :=
  no_lost_wakeup_ep (reachEp_inv L h) q

/-- the pending-work memory of the epoll loop, spelled out -/
theorem pending_flag_epoll {needs : Local W → Bool} {d : Daemon W} (h : InvEP needs d) :
    (∃ c ∈ d.conns, c.loc.eli.hasProcess = true) → d.eready ≠ [] := by
  rintro ⟨c, hc, hp⟩ he
  have hb : c.inEready = false := by
    cases hh : c.inEready with
    | false => rfl
    | true => have := (h.ei.bitA c hc).mp hh; rw [he] at this; simp at this
  have := (h.ei.quiet c hc hb).2.1
  rw [hp] at this; cases this

/-- Non-vacuity for epoll: `Witness.ops` satisfies `LawsEp`; an epoll daemon after one
    MHD_add_connection, a round, an EPOLLIN event and another round is reachable, and the
    connection (closed by the read in this instance) is gone. -/
theorem witness_lawsEp : LawsEp Witness.ops Witness.needs where
  toLaws := Witness.laws
  needs_ready := by intro l r w; rfl
  idle_quiet := by
    intro id k l _ hb hw _
    simp only [Witness.ops] at hw ⊢
    split at hw
    · cases hw
    · rename_i h; simp only [h, if_false]; exact hb
  idle_cleanup := by
    intro id k l
    simp only [Witness.ops]
    split <;> rfl

example : ∃ d, ReachEp Witness.ops Witness.needs d ∧ d.conns.length = 0 ∧ d.log = [.idle 7, .read 7, .idle 7, .idle 7] := by
  refine ⟨_, ReachEp.round [⟨7, true, false, false⟩] (ReachEp.round [] (ReachEp.add { id := 7, loc := Witness.mkLoc stInit .read }
    (ReachEp.init true) ⟨by simp, by simp, by simp, by simp, rfl, rfl, rfl, rfl, rfl⟩)), ?_, ?_⟩ <;> decide

/-! ## progress -/

/-- **One fair round.**  A connection that awaits its reply and is in a PROCESS or WRITE state, in a round
    in which it is reported writable if it waits for writability and no socket error is reported
    for it: after the round it is no longer active (closed, or suspended by its own handler), or its
    reply is complete, or its measure `rank` is strictly smaller — for every state satisfying the
    invariant, every readiness of the other connections, every lawful `ops`, both loops. -/
theorem progress_one_round {ops : Ops W} {needs awaiting : Local W → Bool} {replies rank : Local W → Nat}
    (L : Laws ops needs) (PL : ProgLaws ops awaiting replies rank) {d : Daemon W} (h : InvSP needs d)
    (rdy : Ready) (poll : Bool) {c : Conn W} (hc : c ∈ d.conns) (ha : awaiting c.loc = true)
    (hs : c.loc.eli = .process ∨ c.loc.eli = .write) (hfair : c.loc.eli = .write → rdyW rdy c.id = true)
    (hne : rdyE rdy c.id = false) :
    ∀ c' ∈ (roundOf ops poll d rdy).conns, c'.id = c.id → replies c'.loc ≤ replies c.loc →
      awaiting c'.loc = true ∧ replies c'.loc = replies c.loc ∧ rank c'.loc < rank c.loc ∧
        (c'.loc.eli = .process ∨ c'.loc.eli = .write) :=
  progress_round L PL h rdy poll hc ha hs hfair hne

/-- **Progress.**  For every history `H` of MHD_add_connection / MHD_resume_connection / event-loop
    rounds that is fair for connection `p` (see `FairFor`: nothing is assumed about the other
    connections) and contains more than `rank` rounds: at some point of `H` connection `p` has its
    reply completely sent (`replies` grew) or is no longer in the active list (closed, or
    suspended by its own handler). -/
theorem progress {ops : Ops W} {needs awaiting : Local W → Bool} {replies rank : Local W → Nat}
    (L : Laws ops needs) (PL : ProgLaws ops awaiting replies rank) (poll : Bool) (p : CId)
    (H : List (Step W)) (d : Daemon W) (c : Conn W) (hinv : InvSP needs d) (hc : c ∈ d.conns) (hid : c.id = p)
    (ha : awaiting c.loc = true) (hs : c.loc.eli = .process ∨ c.loc.eli = .write)
    (hfair : FairFor ops needs poll p d H) (hr : rank c.loc < nRounds H) :
    ∃ H1 H2, H = H1 ++ H2 ∧ ∀ c' ∈ (runSteps ops poll d H1).conns, c'.id = p → replies c.loc < replies c'.loc :=
  progress_history L PL poll p H d c hinv hc hid ha hs hfair hr

/-- Non-vacuity of the progress theorems: a lawful instance (`Demo`), a state satisfying the
    invariant in which connection 0 still needs two idle calls, a fair history of three rounds
    (connection 1 is readable in the second one): after two rounds the reply is complete. -/
example :
    Laws Demo.ops Demo.needs ∧ ProgLaws Demo.ops Demo.awaiting Demo.replies Demo.rank ∧ InvSP Demo.needs Demo.d0 ∧
    FairFor Demo.ops Demo.needs false 0 Demo.d0 [.round {}, .round { r := [1] }, .round {}] ∧
    (∀ c' ∈ (runSteps Demo.ops false Demo.d0 [.round {}, .round { r := [1] }]).conns, c'.id = 0 → 0 < Demo.replies c'.loc) := by
  refine ⟨Demo.laws, Demo.progLaws, Demo.d0_inv, ?_, ?_⟩
  · simp only [FairFor]
    decide
  · decide

/-! ## the loop that reads `pos->prev` after the call (F10) violates all of this -/

/-- Two connections, lawful `ops`, a state satisfying the invariant: the older connection's client
    closes while the newer one waits for its content callback.  With the pointer read after the
    call the round handles only connection 0 (log), leaves connection 1 in a PROCESS state with
    `data_already_pending = false`, answers "no timeout" and watches connection 1 for errors only:
    quiescent while work is pending. -/
theorem select_unsaved_prev_loses_wakeup :
    Laws Witness.ops Witness.needs ∧ InvSP Witness.needs Witness.d0 ∧
    (runFromSelectWith Witness.ops false Witness.d0 Witness.rdy).log = [.idle 0, .read 0] ∧
    Quiescent (runFromSelectWith Witness.ops false Witness.d0 Witness.rdy) {} ∧
    ∃ c ∈ (runFromSelectWith Witness.ops false Witness.d0 Witness.rdy).conns, Witness.needs c.loc = true := by
  refine ⟨Witness.laws, Witness.d0_inv, Witness.after_log, ⟨Witness.after_hint, ?_, ?_⟩, ?_⟩
  · rw [show getFdset (runFromSelectWith Witness.ops false Witness.d0 Witness.rdy) = _ from Witness.after_fdset]
    intro id h; simp at h
  · rw [show getFdset (runFromSelectWith Witness.ops false Witness.d0 Witness.rdy) = _ from Witness.after_fdset]
    intro id h; simp at h
  · decide

/-- … and therefore breaks the invariant the other loops keep. -/
theorem select_unsaved_prev_breaks_invariant :
    ¬ InvSP Witness.needs (runFromSelectWith Witness.ops false Witness.d0 Witness.rdy) := by
  intro h
  obtain ⟨_, _, _, _, ⟨c, hc, hn⟩⟩ := select_unsaved_prev_loses_wakeup
  have := h.flag c hc (h.sync c hc hn)
  have hd : (runFromSelectWith Witness.ops false Witness.d0 Witness.rdy).dap = false := Witness.after_flags.1
  rw [hd] at this; cases this

/-- Non-vacuity of the round theorems: the same state and readiness under the loop of /repo —
    both connections are handled, connection 1 stays active in a PROCESS state and the flag is set. -/
example :
    (runFromSelect Witness.ops Witness.d0 Witness.rdy).log = [.idle 1, .idle 0, .read 0] ∧
    (runFromSelect Witness.ops Witness.d0 Witness.rdy).dap = true ∧
    getTimeout (runFromSelect Witness.ops Witness.d0 Witness.rdy) = .zero := by decide

/-- Non-vacuity of `no_lost_wakeup`: a reachable state with an active connection (one
    MHD_add_connection, one round) that is quiescent as long as the client sends nothing. -/
example : ∃ d, Reach Witness.ops Witness.needs false d ∧ d.conns.length = 1 ∧ Quiescent d {} := by
  refine ⟨_, Reach.round {} (Reach.add { id := 7, loc := Witness.mkLoc stInit .read } (Reach.init true)
    ⟨by simp, by simp, by simp, by simp, rfl, rfl, rfl⟩), ?_, ?_⟩
  · decide
  · refine ⟨by decide, ?_, ?_⟩ <;> intro id _ <;> rfl

/-! ## thread-per-connection (thread_main_handle_connection)

  One thread per connection; model `Mhd.Model.LoopTpc`.  The thread blocks in select()/poll() on its own socket,
  or — while the connection is suspended — on the daemon's inter-thread channel for at most 250 ms.  The daemon
  thread clears `suspended` when it processes a resume (`tpcResumed`).  Same laws of the abstract step as above. -/

/-- the post-resume idle call is followed by a second look at `con->suspended` (regenerated from daemon.c;
    false on a tree without the F29 fix, and then this file does not compile) -/
theorem code_tpc_rechecks_suspend : tpcRechecksSuspend = true := by decide

/-- the thread remembers a suspension made by its own handler in `con->suspend_seen`, set in
    internal_suspend_connection_ and tested next to `was_suspended` (regenerated from daemon.c; false on a tree
    without the F30 fix, and then this file does not compile) -/
theorem code_tpc_marks_suspend : tpcMarksSuspend = true := by decide

/-- hence the daemon thread may process a resume at any moment (`Noticed` is no restriction for the loop of /repo):
    the histories of `TReach … tpcMarksSuspend` contain resumes at arbitrary points between iterations -/
theorem tpc_resume_any_time (t : TState W) : Noticed tpcMarksSuspend t := Or.inl code_tpc_marks_suspend

/-- hence the loop of /repo is the re-checking, early-marking one -/
theorem tpcHead_is_rechecking (ops : Ops W) (t : TState W) : tpcHead ops t = tpcHeadWith ops true tpcMarksSuspend t := by
  unfold tpcHead; rw [code_tpc_rechecks_suspend]
theorem tpcIter_is_rechecking (ops : Ops W) (t : TState W) (rr wr er : Bool) :
    tpcIter ops t rr wr er = tpcIterWith ops true tpcMarksSuspend t rr wr er := by
  unfold tpcIter; rw [code_tpc_rechecks_suspend]

/-- The invariant of a connection's thread (an active connection that is past the post-resume idle call is in sync;
    a loop that marks early knows every suspension) holds in every state reachable from the creation of the thread by
    iterations with arbitrary socket readiness and by resumes — resumes at any moment if the loop marks a
    suspension when its handler suspends (it does: `code_tpc_marks_suspend`, `tpc_resume_any_time`), otherwise
    (`Noticed`) only after the thread has seen `con->suspended`. -/
theorem tpc_invariant_reachable {ops : Ops W} {needs : Local W → Bool} (L : Laws ops needs) {t : TState W}
    (h : TReach ops needs tpcMarksSuspend t) : TInv needs tpcMarksSuspend t :=
  treach_inv L h

/-- **No lost wake-up, thread-per-connection.**  In every reachable state, when the thread reaches its blocking call:
    * the connection is suspended ⇒ the call waits on the inter-thread channel, for a bounded time (a resume wakes
      it; a consumed signal only delays it);
    * the connection is active ⇒ the call is on the socket, with zero timeout if the connection has work that needs
      no network input, watching readability / writability when the connection waits for them;
    * the call has no timeout ⇒ the connection is not suspended, and if active it has no work that could proceed
      without new network input. -/
theorem tpc_no_lost_wakeup {ops : Ops W} {needs : Local W → Bool} (L : Laws ops needs) {t : TState W}
    (h : TReach ops needs tpcMarksSuspend t) {t1 : TState W} {b : TBlock} (hb : tpcHead ops t = (t1, some b)) :
    (t1.wh = .susp → b = suspendedWait) ∧
    (t1.wh = .active → b.onItc = false ∧ (needs t1.c.loc = true → b.wait = .zero) ∧
        (t1.c.loc.eli.hasRead = true → b.r = true) ∧ (t1.c.loc.eli.isWrite = true → b.w = true)) ∧
    (b.wait = .forever → t1.wh ≠ .susp ∧ (t1.wh = .active → needs t1.c.loc = false)) := by
  rw [tpcHead_is_rechecking] at hb
  exact tpc_nlw L tpcMarksSuspend (treach_inv L h) hb

/-- the wait of a suspended connection's thread: the inter-thread channel is in the wait set and the wait is bounded -/
theorem tpc_suspended_wait : suspendedWait.onItc = true ∧ suspendedWait.wait = .bounded250 := ⟨rfl, rfl⟩

/-- **A resume is served.**  A thread that has noticed the suspension and whose connection the daemon thread
    resumed passes the connection through handle_idle before it blocks again (whatever the two source-text facts). -/
theorem tpc_resume_is_served (ops : Ops W) (recheck early : Bool) {t : TState W} (hc : t.c.loc.st ≠ stClosed)
    (hs : t.wh = .susp) (hw : t.wasSuspended = true) :
    ∃ evs, (tpcHeadWith ops recheck early (tpcResumed t)).1.log = evs ++ t.log ∧ Ev.idle t.c.id ∈ evs := by
  have e : tpcResumed t = { t with wh := .active } := by unfold tpcResumed; rw [if_pos hs]
  rw [e]
  exact tpc_resumed_idles (ops := ops) recheck early (t := { t with wh := .active }) hc (fun h => by cases h) hw

/-- a loop that marks a suspension when the handler suspends needs no discipline of the daemon thread -/
theorem tpc_marking_resume_any_time (t : TState W) : Noticed true t := Or.inl rfl

/-- … and in every reachable state of such a loop a suspended connection is known to be suspended -/
theorem tpc_marking_knows {ops : Ops W} {needs : Local W → Bool} (L : Laws ops needs) {t : TState W}
    (h : TReach ops needs true t) (hs : t.wh = .susp) : t.wasSuspended = true :=
  (treach_inv L h).marked rfl hs

/-- **One fair iteration.**  A connection that awaits its reply (PROCESS or WRITE state), whose thread's blocking
    call returns with the socket writable if it waits for writability and without socket error: the thread leaves
    the loop (connection closed), or the connection left the active list (closed, or suspended by its own handler),
    or its reply is complete, or its measure `rank` is strictly smaller. -/
theorem tpc_progress_one_iteration {ops : Ops W} {needs awaiting : Local W → Bool} {replies rank : Local W → Nat}
    (L : Laws ops needs) (PL : ProgLaws ops awaiting replies rank) {t : TState W}
    (hw : t.wh = .active) (hs : t.wasSuspended = false) (ha : awaiting t.c.loc = true)
    (he : t.c.loc.eli = .process ∨ t.c.loc.eli = .write) (rr wr : Bool) (hfair : t.c.loc.eli = .write → wr = true) :
    match tpcIter ops t rr wr false with
    | none => True
    | some t' => t'.wh ≠ .active ∨ replies t.c.loc < replies t'.c.loc ∨
        (awaiting t'.c.loc = true ∧ replies t'.c.loc = replies t.c.loc ∧ rank t'.c.loc < rank t.c.loc ∧
          (t'.c.loc.eli = .process ∨ t'.c.loc.eli = .write) ∧ t'.wasSuspended = false) :=
  tpc_progress_iter L PL tpcRechecksSuspend tpcMarksSuspend hw hs ha he rr wr hfair

/-- **Progress, thread-per-connection.**  For every history `H` of returns of the thread's blocking call and resumes
    that is fair for the connection (`TFair`) and contains more than `rank` iterations: at some point of `H` the thread
    has left the loop (connection closed), or the connection is no longer active (closed, or suspended by its own
    handler), or its reply is completely sent. -/
theorem tpc_progress {ops : Ops W} {needs awaiting : Local W → Bool} {replies rank : Local W → Nat}
    (L : Laws ops needs) (PL : ProgLaws ops awaiting replies rank) (H : List TStep) (t : TState W)
    (hw : t.wh = .active) (hs : t.wasSuspended = false) (ha : awaiting t.c.loc = true)
    (he : t.c.loc.eli = .process ∨ t.c.loc.eli = .write)
    (hfair : TFair ops tpcRechecksSuspend tpcMarksSuspend t H) (hr : rank t.c.loc < nIters H) :
    ∃ H1 H2, H = H1 ++ H2 ∧
      match tpcRun ops tpcRechecksSuspend tpcMarksSuspend t H1 with
      | none => True
      | some t' => t'.wh ≠ .active ∨ replies t.c.loc < replies t'.c.loc :=
  tpc_progress_run L PL tpcRechecksSuspend tpcMarksSuspend H t hw hs ha he hfair hr

/-- Non-vacuity (progress): the lawful instance `Demo`, a thread whose connection needs two more idle calls, three
    fair iterations: after two of them the reply is complete. -/
example :
    TFair Demo.ops tpcRechecksSuspend tpcMarksSuspend { c := { id := 0, loc := Demo.mkLoc 2 .process }, wh := .active }
      [.iter false false false, .resumed, .iter false false false, .iter false false false] ∧
    (tpcRun Demo.ops tpcRechecksSuspend tpcMarksSuspend { c := { id := 0, loc := Demo.mkLoc 2 .process }, wh := .active }
      [.iter false false false, .resumed, .iter false false false]).map (fun t => (t.wh, Demo.replies t.c.loc)) = some (.active, 1) := by
  refine ⟨?_, by decide⟩
  simp only [TFair]
  decide

/-! ### the two source-text facts are what makes it hold -/

/-- **Without the re-check (the loop before the F29 fix) a resume wakes nobody.**  Lawful `ops`; the handler suspends,
    the thread notices, the daemon resumes, the post-resume idle call suspends again: the loop with the re-check waits
    on the inter-thread channel; the loop without it blocks on the client socket with no timeout while the connection
    is suspended — the next resume finds nobody waiting for it. -/
theorem tpc_no_recheck_loses_wakeup :
    Laws (TpcWitness.ops true) TpcWitness.needs ∧
    (∀ rc, ∃ t, tpcRun (TpcWitness.ops true) rc false TpcWitness.t0 [.iter true false false, .iter false false false, .resumed] = some t ∧
        t.wh = .active ∧ t.wasSuspended = true ∧
        (tpcHeadWith (TpcWitness.ops true) true false t).2 = some suspendedWait ∧
        (tpcHeadWith (TpcWitness.ops true) false false t).1.wh = .susp ∧
        (tpcHeadWith (TpcWitness.ops true) false false t).2 =
          some { wait := .forever, onItc := false, r := true, w := false, e := false }) := by
  refine ⟨TpcWitness.laws true, fun rc => ?_⟩
  cases rc <;> exact ⟨_, rfl, by decide⟩

/-- **A resume processed before the thread has noticed the suspension is lost unless the loop marks early.**
    Lawful `ops`; the request arrives, the handler suspends the connection and the application has the reply ready;
    the daemon thread processes the resume before the connection's thread is back at the loop head (`¬ Noticed`).
    The loop that only looks at `con->suspended` blocks on the socket for readability with no timeout although the
    connection has work that needs no input; the loop that marks the suspension runs handle_idle and waits for
    writability. -/
theorem tpc_unnoticed_resume_loses_wakeup :
    Laws (TpcWitness.ops false) TpcWitness.needs ∧
    (∃ t ts, tpcRun (TpcWitness.ops false) true false TpcWitness.t0 [.iter true false false] = some ts ∧ ¬ Noticed false ts ∧
        tpcRun (TpcWitness.ops false) true false TpcWitness.t0 [.iter true false false, .resumed] = some t ∧
        (tpcHeadWith (TpcWitness.ops false) true false t).1.wh = .active ∧
        TpcWitness.needs (tpcHeadWith (TpcWitness.ops false) true false t).1.c.loc = true ∧
        (tpcHeadWith (TpcWitness.ops false) true false t).2 =
          some { wait := .forever, onItc := false, r := true, w := false, e := false }) ∧
    (∃ t, tpcRun (TpcWitness.ops false) true true TpcWitness.t0 [.iter true false false, .resumed] = some t ∧
        TpcWitness.needs (tpcHeadWith (TpcWitness.ops false) true true t).1.c.loc = false ∧
        (tpcHeadWith (TpcWitness.ops false) true true t).2 =
          some { wait := .forever, onItc := false, r := false, w := true, e := false }) := by
  refine ⟨TpcWitness.laws false, ⟨_, _, rfl, ?_, rfl, by decide⟩, ⟨_, rfl, by decide⟩⟩
  intro h
  rcases h with h | h
  · cases h
  · exact absurd (h (by decide)) (by decide)

/-- … so without the discipline the invariant of `tpc_invariant_reachable` is not kept by that loop. -/
theorem tpc_unnoticed_resume_breaks_invariant :
    ∃ t, tpcRun (TpcWitness.ops false) true false TpcWitness.t0 [.iter true false false, .resumed] = some t ∧
      ¬ TInv TpcWitness.needs false t := by
  refine ⟨_, rfl, fun h => ?_⟩
  have := h.sync (by decide) (by decide) (by decide)
  revert this; decide

/-- Non-vacuity with the resume at the critical moment: the loop of /repo, the handler suspends, the daemon thread
    processes the resume at once (`tpc_resume_any_time`): the state is reachable, the thread runs handle_idle and then
    waits for writability. -/
example : ∃ t, TReach (TpcWitness.ops false) TpcWitness.needs tpcMarksSuspend t ∧ t.wh = .active ∧
    (tpcHead (TpcWitness.ops false) t).1.log = [.idle 0, .idle 0, .read 0] ∧
    (tpcHead (TpcWitness.ops false) t).2 = some { wait := .forever, onItc := false, r := false, w := true, e := false } := by
  have h0 : TReach (TpcWitness.ops false) TpcWitness.needs tpcMarksSuspend TpcWitness.t0 :=
    TReach.init TpcWitness.c0 (fun h => by revert h; decide)
  have h1 := TReach.iter (t' := _) true false false h0 rfl
  have h2 := TReach.resumed h1 (tpc_resume_any_time _)
  exact ⟨_, h2, by decide, by decide, by decide⟩

/-- Non-vacuity of `tpc_no_lost_wakeup` / `tpc_invariant_reachable`: a reachable state of the loop of /repo in which
    the handler suspended, the thread noticed, the daemon resumed — and the next blocking call is on the socket for
    writability (the reply queued by the post-resume idle call). -/
example : ∃ t, TReach (TpcWitness.ops false) TpcWitness.needs tpcMarksSuspend t ∧ t.wh = .active ∧ t.wasSuspended = true ∧
    (tpcHead (TpcWitness.ops false) t).2 = some { wait := .forever, onItc := false, r := false, w := true, e := false } := by
  have h0 : TReach (TpcWitness.ops false) TpcWitness.needs tpcMarksSuspend TpcWitness.t0 :=
    TReach.init TpcWitness.c0 (fun h => by revert h; decide)
  have h1 := TReach.iter (t' := _) true false false h0 rfl
  have h2 := TReach.iter (t' := _) false false false h1 rfl
  have h3 := TReach.resumed h2 (Or.inr (fun _ => by decide))
  exact ⟨_, h3, by decide, by decide, by decide⟩

/-! ### the daemon thread processes resumes (every back-end, every threading mode) -/

/-- MHD_select, MHD_poll_all, MHD_poll_listen_socket and MHD_epoll call resume_suspended_connections() in every cycle before
    they block, whatever the threading mode: a top-level statement of the function, before the blocking call, with no operand
    that depends on thread-per-connection evaluated before it (regenerated from daemon.c; false — and this file does not
    compile — e.g. when the call is moved behind `! MHD_D_IS_USING_THREAD_PER_CONN_ (daemon) &&`, seeded change C06_7) -/
theorem code_backends_resume_every_cycle :
    selectResumesEveryCycle = true ∧ pollAllResumesEveryCycle = true ∧ pollListenResumesEveryCycle = true ∧
    epollResumesEveryCycle = true := by decide

/-- **The daemon thread's cycle processes resumes.**  Thread-per-connection, select() or poll() back-end: after
    MHD_resume_connection on a suspended connection, the next cycle of the daemon thread has made the connection active
    again and cleared the mark … -/
theorem daemon_cycle_processes_resumes (b : TBackend) {ths : List (TThread W)} {th : TThread W} (hm : th ∈ ths)
    (hr : th.resuming = true) (hs : th.t.wh = .susp) :
    ∃ th' ∈ tpcDaemonCycle b ths, th'.t = tpcResumed th.t ∧ th'.t.wh = .active ∧ th'.resuming = false := by
  have hb : daemonResumes b = true := by cases b <;> decide
  unfold tpcDaemonCycle; rw [hb]
  exact ⟨_, tpcDaemonCycle_resumes hm hr, rfl, tpcResumed_active hs, rfl⟩

/-- … and (with `tpc_resume_is_served`) its thread, which has noticed the suspension, passes it through handle_idle before
    it blocks again: **a resume request is served**. -/
theorem tpc_resume_request_is_served (ops : Ops W) (b : TBackend) {ths : List (TThread W)} {th : TThread W} (hm : th ∈ ths)
    (hr : th.resuming = true) (hs : th.t.wh = .susp) (hc : th.t.c.loc.st ≠ stClosed) (hw : th.t.wasSuspended = true) :
    ∃ th' ∈ tpcDaemonCycle b ths, th'.t.wh = .active ∧
      ∃ evs, (tpcHead ops th'.t).1.log = evs ++ th.t.log ∧ Ev.idle th.t.c.id ∈ evs := by
  obtain ⟨th', hm', e, ha, _⟩ := daemon_cycle_processes_resumes b hm hr hs
  refine ⟨th', hm', ha, ?_⟩
  rw [e]
  exact tpc_resume_is_served ops tpcRechecksSuspend tpcMarksSuspend hc hs hw

/-- **A daemon thread that does not call resume_suspended_connections leaves the connection suspended for ever**: its thread
    wakes from the bounded wait, finds `suspended` still set and waits again, for every number of rounds — no reply, no close. -/
theorem deaf_daemon_never_resumes (ops : Ops W) (recheck early : Bool) (n : Nat) (th : TThread W) (hs : th.t.wh = .susp)
    (hc : th.t.c.loc.st ≠ stClosed) :
    (tpcDeafRounds ops recheck early n th).t.wh = .susp ∧ (tpcDeafRounds ops recheck early n th).resuming = th.resuming :=
  tpc_never_resumed ops recheck early n th hs hc

/-- Non-vacuity: the suspended, noticed thread of the witness instance with a resume request: one daemon cycle (either
    back-end) and the thread's next loop head run handle_idle; 100 rounds of a deaf daemon leave it suspended. -/
example : ∃ t, tpcRun (TpcWitness.ops false) true true TpcWitness.t0 [.iter true false false, .iter false false false] = some t ∧
    t.wh = .susp ∧ t.wasSuspended = true ∧
    (∀ b, ((tpcDaemonCycle b [{ t := t, resuming := true }]).map (fun th => (th.t.wh, th.resuming))) = [(.active, false)]) ∧
    (tpcDeafRounds (TpcWitness.ops false) true true 100 { t := t, resuming := true }).t.wh = .susp := by
  refine ⟨_, rfl, by decide, by decide, fun b => by cases b <;> decide, ?_⟩
  exact (tpc_never_resumed _ true true 100 _ (by decide) (by decide)).1

/-! ## pipelined requests: buffered input is work

  After a completely sent reply on a kept-alive connection the read buffer may already hold the next request.
  Model `Mhd.Model.LoopReset` (`w` = "bytes the parser has not looked at yet"); `needsBuf l = l.w || PROCESS`. -/

/-- case FULL_REPLY_SENT of MHD_connection_handle_idle goes on with the state loop after connection_reset() (regenerated from
    connection.c; false on a tree where the loop is left there — seeded change C06_4 — and then this file does not compile) -/
theorem code_reply_sent_continues : replySentContinues = true := by decide

/-- hence the step of /repo is the continuing one -/
theorem replySentIdle_is_continuing (parse : Local Bool → Nat) (l : Local Bool) :
    replySentIdle parse l = replySentIdleWith true parse l := by
  unfold replySentIdle; rw [code_reply_sent_continues]

/-- **Buffered input is not left behind.**  Whatever is buffered and wherever the parser gets with it: after handle_idle
    no unexamined input remains, so the step is in sync for `needsBuf` (instance of `Laws.idle_sync` for this path; monitored on
    the real code as law `idle_buffered`: state INIT after handle_idle ⇒ read_buffer_offset = 0). -/
theorem reply_sent_leaves_no_unexamined_input (parse : Local Bool → Nat) (l : Local Bool) :
    (replySentIdle parse l).w = false ∧
    (needsBuf (replySentIdle parse l) = true → (replySentIdle parse l).eli.hasProcess = true) := by
  rw [replySentIdle_is_continuing]
  exact ⟨replySent_examined parse l, replySent_sync parse l⟩

/-- witness: reply just sent (FULL_REPLY_SENT), a complete pipelined request buffered; the parser would get to HEADERS_PROCESSED -/
def pipeLoc : Local Bool := { st := 21, eli := .write, rdReady := false, wrReady := false, bufSpace := true, w := true }
def pipeDaemon (continues : Bool) : Daemon Bool :=
  { conns := [{ id := 0, loc := replySentIdleWith continues (fun _ => 11) pipeLoc }] }

/-- **Leaving the loop there loses the buffered request.**  connection_reset() sets PROCESS for the buffered bytes, but
    MHD_connection_update_event_loop_info recomputes the wait class from the state alone (INIT: READ, regenerated table): the
    daemon is quiescent — "no timeout", only readability watched — while a complete request waits in the buffer.  With the
    `continue` the same connection ends in sync.  (Also non-vacuity of the theorem above.) -/
theorem reply_sent_break_loses_wakeup :
    getTimeout (pipeDaemon false) = .none ∧ Quiescent (pipeDaemon false) {} ∧
    (∃ c ∈ (pipeDaemon false).conns, needsBuf c.loc = true ∧ c.loc.st = stInit ∧ c.loc.eli = .read) ∧
    (∀ c ∈ (pipeDaemon true).conns, needsBuf c.loc = true → c.loc.eli.hasProcess = true) := by
  refine ⟨by decide, ⟨by decide, ?_, ?_⟩, ⟨_, List.mem_cons_self, by decide⟩, ?_⟩
  · intro id _; rfl
  · intro id _; rfl
  · intro c hc; simp only [pipeDaemon, List.mem_cons, List.not_mem_nil, or_false] at hc; subst hc; decide

/-! ## tie to the C05 connection model -/

/-- **The concrete connection step waits for what the table says.**  `Mhd.Model.ConnSM.eventLoopInfo` (C05's
    hand-written model of MHD_connection_update_event_loop_info) gives, for every connection state and every value of
    the other fields, the wait class of the regenerated table that `LawTable` / `round_wait_class` use: sending states
    WRITE, unready / full-request states PROCESS, line / header / footer receiving states READ, CLOSED → CLEANUP.
    (The remaining laws — `Laws`, `ProgLaws` — are not yet proved for ConnSM's step: they stay assumptions monitored on
    every logged handler call.) -/
theorem connsm_wait_class_in_table {σ : Type} (c : Mhd.ConnSM.Conn σ) :
    (c.state.toNat ∈ writeStates → connsmEliCode (Mhd.ConnSM.eventLoopInfo c) = eliWrite) ∧
    (c.state.toNat ∈ processStates → connsmEliCode (Mhd.ConnSM.eventLoopInfo c) = eliProcess) ∧
    (c.state.toNat ∈ readStates → connsmEliCode (Mhd.ConnSM.eventLoopInfo c) = eliRead) ∧
    (c.state.toNat = stClosed → connsmEliCode (Mhd.ConnSM.eventLoopInfo c) = eliCleanup) :=
  connsm_eli_in_table c

/-- non-vacuity: every class of the table is inhabited by a state of the C05 model -/
example : Mhd.Gen.ConnState.CState.headersSending.toNat ∈ writeStates ∧ Mhd.Gen.ConnState.CState.init.toNat ∈ readStates ∧
    Mhd.Gen.ConnState.CState.fullReqReceived.toNat ∈ processStates ∧ Mhd.Gen.ConnState.CState.closed.toNat = stClosed := by decide

/-! ## the concrete connection step: C05's state machine satisfies the laws

  `connsmOps S` (Mhd.Model.LoopConnSM) is the `Ops` built from C05's model of MHD_connection_handle_read / _write / _idle /
  _close_ (Mhd.Model.ConnSM, its unbounded handle_idle loop); `S` scripts everything the environment decides.
  `needsSM` reads "work that needs no network input" off the connection record. -/

/-- **The safety laws hold for the concrete step** — for every application, configuration and environment script:
    after handle_idle an active connection with pending work (a complete element buffered where one is awaited — in
    particular a pipelined next request —, upload data the handler is working through, or a state in which MHD calls the
    application) is in a PROCESS wait class; a closed connection is moved to the cleanup list; handle_read with a socket
    error closes; a handler never puts a connection back into the active list. -/
theorem connsm_satisfies_laws (S : SMScript σ) : Laws (connsmOps S) connsmNeeds := connsm_laws S

/-- … and so do the wait-class table law and (without connection time-outs) "no closed connection stays active" -/
theorem connsm_satisfies_law_table (S : SMScript σ) : LawTable (connsmOps S) := connsm_law_table S
theorem connsm_satisfies_law_open (S : SMScript σ) (hto : ∀ id k, (S.idleEnv id k).timedOut = false) :
    LawOpen (connsmOps S) := connsm_law_open S hto

/-- **No lost wake-up, select / poll loop, with C05's connection state machine as the step** (no assumption left about
    the step): in every reachable quiescent state no active connection has work that needs no input … -/
theorem no_lost_wakeup_connsm (S : SMScript σ) {poll : Bool} {d : Daemon (SMConn σ)}
    (h : Reach (connsmOps S) connsmNeeds poll d) (rdy : Ready) (q : Quiescent d rdy) :
    ∀ c ∈ d.conns, needsSM c.loc.w = false ∧ ¬ (c.loc.eli.hasRead = true ∧ rdyR rdy c.id = true) ∧
      ¬ (c.loc.eli.isWrite = true ∧ rdyW rdy c.id = true) :=
  no_lost_wakeup (connsm_laws S) h rdy q

/-- … spelled out for the receiving states: no active connection waits for the client while a complete request line,
    header block or trailer (e.g. of a pipelined request) sits in its read buffer. -/
theorem no_unexamined_input_when_quiescent (S : SMScript σ) {poll : Bool} {d : Daemon (SMConn σ)}
    (h : Reach (connsmOps S) connsmNeeds poll d) (rdy : Ready) (q : Quiescent d rdy) :
    ∀ c ∈ d.conns, c.loc.w.fault = false → Mhd.ConnSM.ReadState c.loc.w.state → Mhd.ConnSM.dropJunk c.loc.w.buf = [] := by
  intro c hc hf hr
  have hn := (no_lost_wakeup_connsm S h rdy q c hc).1
  unfold needsSM at hn
  rw [hf] at hn
  rcases hr with e | e | e | e <;> simp [e] at hn <;> exact hn

/-- the same for the thread-per-connection loop -/
theorem tpc_no_lost_wakeup_connsm (S : SMScript σ) {t : TState (SMConn σ)}
    (h : TReach (connsmOps S) connsmNeeds tpcMarksSuspend t) {t1 : TState (SMConn σ)} {b : TBlock}
    (hb : tpcHead (connsmOps S) t = (t1, some b)) :
    (t1.wh = .susp → b = suspendedWait) ∧
    (t1.wh = .active → b.onItc = false ∧ (needsSM t1.c.loc.w = true → b.wait = .zero) ∧
        (t1.c.loc.eli.hasRead = true → b.r = true) ∧ (t1.c.loc.eli.isWrite = true → b.w = true)) ∧
    (b.wait = .forever → t1.wh ≠ .susp ∧ (t1.wh = .active → needsSM t1.c.loc.w = false)) :=
  tpc_no_lost_wakeup (connsm_laws S) h hb

/-- round post-conditions for the concrete step: wait class of every surviving connection from the table; no closed
    connection left active (no time-outs) -/
theorem round_wait_class_connsm (S : SMScript σ) {d : Daemon (SMConn σ)} (h : InvSP connsmNeeds d) (rdy : Ready) (poll : Bool) :
    ∀ c ∈ (roundOf (connsmOps S) poll d rdy).conns, c.id ∈ ids d.newc ∨ TableOK c.loc :=
  round_wait_class (connsm_law_table S) h rdy poll

/-- **Progress with the concrete step**: `Laws` is discharged; the reply-side laws `ProgLaws` (monotone reply count, a
    measure that every fair write / idle call decreases) remain the hypothesis — Mhd.Model.ConnSM has no reply counter and
    its "not ready" answers are environment choices, so they are not yet derivable from it. -/
theorem progress_connsm (S : SMScript σ) {awaiting : Local (SMConn σ) → Bool} {replies rank : Local (SMConn σ) → Nat}
    (PL : ProgLaws (connsmOps S) awaiting replies rank) (poll : Bool) (p : CId)
    (H : List (Step (SMConn σ))) (d : Daemon (SMConn σ)) (c : Conn (SMConn σ)) (hinv : InvSP connsmNeeds d) (hc : c ∈ d.conns)
    (hid : c.id = p) (ha : awaiting c.loc = true) (hs : c.loc.eli = .process ∨ c.loc.eli = .write)
    (hfair : FairFor (connsmOps S) connsmNeeds poll p d H) (hr : rank c.loc < nRounds H) :
    ∃ H1 H2, H = H1 ++ H2 ∧ ∀ c' ∈ (runSteps (connsmOps S) poll d H1).conns, c'.id = p → replies c.loc < replies c'.loc :=
  progress (connsm_laws S) PL poll p H d c hinv hc hid ha hs hfair hr

/-- Non-vacuity: an application that replies at the final call; a connection with a complete GET buffered: handle_idle
    runs it to HEADERS_SENDING / WRITE (nothing pending); with only the request line buffered it stays READ and nothing
    is pending; a reachable daemon (one MHD_add_connection, one round in which the request is read) is quiescent
    afterwards: the fast track of call_handlers has sent the whole reply (6 handler calls) and the kept-alive connection waits
    for the next request. -/
def demoApp : Mhd.ConnSM.App Unit :=
  { uriLog := fun s => (s, none),
    handle := fun s ci => (s, { take := ci.offered, act := if ci.site = .final then .reply { rid := 1 } true else .cont }) }
def demoScript : SMScript Unit :=
  { cfg := {}, app := demoApp, idleEnv := fun _ _ => {}, recv := fun _ _ => .recv [.line .ok, .headers .none true false], wr := fun _ _ => .done }
def demoLoc (buf : List Mhd.ConnSM.Tok) : Local (SMConn Unit) :=
  { st := stInit, eli := .read, rdReady := false, wrReady := false, bufSpace := true, w := { app := (), started := true, buf := buf } }

example :
    ((connsmOps demoScript).idle 0 0 .active (demoLoc [.line .ok, .headers .none true false])).1.st = stHeadersSending ∧
    ((connsmOps demoScript).idle 0 0 .active (demoLoc [.line .ok, .headers .none true false])).1.eli = .write ∧
    connsmNeeds ((connsmOps demoScript).idle 0 0 .active (demoLoc [.line .ok, .headers .none true false])).1 = false ∧
    ((connsmOps demoScript).idle 0 0 .active (demoLoc [.line .ok])).1.eli = .read ∧
    connsmNeeds ((connsmOps demoScript).idle 0 0 .active (demoLoc [.line .ok])).1 = false ∧
    connsmNeeds (demoLoc [.line .ok]) = true := by decide

example : ∃ d, Reach (connsmOps demoScript) connsmNeeds false d ∧ d.conns.length = 1 ∧ Quiescent d {} ∧
    d.conns.map (fun c => (c.loc.st, c.loc.eli)) = [(stInit, .read)] ∧ d.log.length = 6 := by
  refine ⟨_, Reach.round { r := [7] } (Reach.add { id := 7, loc := demoLoc [] } (Reach.init true)
    ⟨by simp, by simp, by simp, by simp, rfl, rfl, rfl⟩), ?_, ?_, ?_⟩
  · decide
  · refine ⟨by decide, ?_, ?_⟩ <;> intro id hid
    · rfl
    · rfl
  · decide

end Mhd.C06
