import Mhd.Model.LoopRounds
namespace Mhd.C06
end Mhd.C06
