/-
  C18 — Threaded modes: no harmful data race, no deadlock, clean stop under load.

  Claimed as PARTIAL by design (DESIGN.md §3 C18).  A theorem cannot exhibit a data race in
  compiled C.  What *is* logic is stated and proved here:

  * over `Mhd.Gen.Locks.table` — regenerated from daemon.c / connection.c / response.c /
    digestauth.c by `tools/locktable.py` on every run — by `decide +kernel` over the WHOLE
    table (a proof, not a sample: the domain is the table), lifted to ∀-statements by the
    lemmas of `Mhd.Proofs.Locks`;
  * over an abstract small-step model of threads taking mutexes according to the table's
    permitted (held, requested) pairs (`Mhd.Locks.Sys`): acyclic order ⇒ no cycle of waiting
    threads, for every number of threads and every interleaving;
  * over the shutdown state machine `Mhd.Stop`: for every number of workers and connections,
    every scheduler and every network behaviour;
  * over the join loop of thread-per-connection mode `Mhd.StopJoin`, whose iteration discipline
    (how the loop finds its next list position after it released the mutex for a join) is the
    regenerated fact `Mhd.Gen.Locks.unlockLoops`: for every number of connections and every
    interleaving of thread exits.

  Not carried by any theorem (validated dynamically by the ThreadSanitizer stress run of
  `tools/props/C18.py`, and labelled so in the evidence): that the table is a sound abstraction
  of what the compiled code does (held-lock sets, thread roles), memory-order effects on the
  benign flags, races inside libc/GnuTLS, scheduler-dependent liveness.
-/
import Mhd.Proofs.Locks
import Mhd.Proofs.LocksStop
import Mhd.Proofs.LocksJoin

namespace Mhd.C18
open Mhd.Gen.Locks Mhd.Locks

/-! ## A. the regenerated table -/

/-- The extractor's certificates are consistent with the table itself: `id`s are positions,
    and for every call site the callee's entry context (locks certainly / possibly held at entry,
    thread-per-connection guard, inherited role) is implied by the call site; roots (public API,
    address-taken, referenced from other files) assume no lock at entry. -/
theorem context_certificate : idsOk table = true ∧ contextOk table = true := by
  constructor <;> decide +kernel

/-- Every lock-order edge of the table — mutex `p.2` requested at a point where `p.1` may be
    held, through any depth of calls — goes strictly upwards in `lockRank`.  Hence the order
    graph is acyclic and no mutex is requested while it may already be held. -/
theorem lock_order_ranked : ∀ p ∈ lockEdges table, lockRank p.1 < lockRank p.2 :=
  (rankOk_iff table lockRank).mp (by decide +kernel)

/-- what an edge is -/
theorem lock_order_edge_iff (h l : Lock) :
    (h, l) ∈ lockEdges table ↔
      ∃ en ∈ table, ∃ e ∈ en.events, e.kind = Kind.lock l ∧ h ∈ effMay en e :=
  mem_lockEdges table h l

-- non-vacuity: the table does contain a nested acquisition (close_all_connections holds the
-- new-connections mutex while new_connection_close_ → MHD_ip_limit_del takes the per-IP mutex)
example : (Lock.new_connections_mutex, Lock.per_ip_connection_mutex) ∈ lockEdges table := by
  decide +kernel

/-- **No deadlock by lock ordering.**  Any number of threads (`T` arbitrary), any interleaving:
    in every state reachable by threads that request a mutex only in a context the table
    permits, there is no cycle of threads each waiting for a mutex owned by the next. -/
theorem no_deadlock_by_lock_order {T : Type} [DecidableEq T] (s : Sys T)
    (h : Sys.Reachable (lockEdges table) s) (t : T) : ¬ Sys.WaitPlus s t t :=
  Sys.no_wait_cycle (Sys.disciplined_of_reachable h) lock_order_ranked t

/-- … and some blocked thread is always blocked on a mutex that is free or owned by a thread
    that is not itself blocked on a mutex. -/
theorem some_blocked_thread_can_proceed {T : Type} [DecidableEq T] (s : Sys T)
    (h : Sys.Reachable (lockEdges table) s) (threads : List T) (t0 : T) (l0 : Lock)
    (h0 : t0 ∈ threads) (hw : s.want t0 = some l0) :
    ∃ t ∈ threads, ∃ l, s.want t = some l ∧
      (s.owner l = none ∨ ∃ t', s.owner l = some t' ∧ (s.want t' = none ∨ t' ∉ threads)) :=
  Sys.exists_unblocked (Sys.disciplined_of_reachable h) lock_order_ranked threads t0 l0 h0 hw

-- non-vacuity: a reachable state of the abstract system in which the hypotheses hold with a
-- thread that owns one mutex and waits for another one
example : ∃ s : Sys Nat, Sys.Reachable (lockEdges table) s ∧
    s.owner Lock.new_connections_mutex = some 0 ∧ s.want 0 = some Lock.per_ip_connection_mutex := by
  refine ⟨((((Sys.init : Sys Nat).setWant 0 (some Lock.new_connections_mutex)).setOwner
      Lock.new_connections_mutex (some 0)).setWant 0 none).setWant 0 (some Lock.per_ip_connection_mutex), ?_, ?_, ?_⟩
  · refine Sys.Reachable.step (Sys.Reachable.step (Sys.Reachable.step Sys.Reachable.init
      (Sys.Step.request _ 0 Lock.new_connections_mutex rfl ?_)) (Sys.Step.grant _ 0 _ ?_ ?_))
      (Sys.Step.request _ 0 Lock.per_ip_connection_mutex ?_ ?_)
    · intro h hh; simp [Sys.init] at hh
    · simp [Sys.setWant]
    · simp [Sys.setWant, Sys.init]
    · simp [Sys.setWant]
    · intro h hh
      simp only [Sys.setWant, Sys.setOwner, Sys.init] at hh
      by_cases hl : h = Lock.new_connections_mutex
      · subst hl; decide +kernel
      · simp [hl] at hh
  · simp [Sys.setWant, Sys.setOwner]
  · simp [Sys.setWant]

/-- No thread joins another thread or blocks in select/poll/epoll_wait while it may hold a
    mutex (so a thread that owns a mutex is never itself waiting for anything but a mutex). -/
theorem no_lock_held_while_blocking :
    ∀ en ∈ table, ∀ e ∈ en.events, (e.kind = Kind.join ∨ e.kind = Kind.wait) → effMay en e = [] :=
  (blockingOk_iff table).mp (by decide +kernel)

/-- **Every path from a lock to a function exit releases the lock.**  Over the structured control flow
    of the clang AST of all four files (early `return`s, `break` / `continue` / `goto` out of a locked
    region, the end of the body; a callee that leaves a mutex held leaves it held in its caller):
    the only exits reached with a mutex taken by the function (or a callee) possibly still held are
    those of the *lock wrappers* — functions whose whole body is the one lock call
    (`MHD_ip_count_lock`), confirmed as such by the table; their callers fall under the same rule.
    Together with `no_lock_held_while_blocking` this discharges what `no_deadlock_by_lock_order` /
    `some_blocked_thread_can_proceed` leave open: a thread that owns a mutex and is not itself waiting
    for one reaches an unlock before it leaves the code that took the mutex, so no mutex stays owned
    for ever (the next digest operation / `MHD_stop_daemon` would otherwise block on it). -/
theorem locks_released_on_every_path :
    (∀ x ∈ exitsHoldingLock, (x.1, x.2.1) ∈ lockWrappers) ∧ (∀ w ∈ lockWrappers, wrapperOk table w = true) :=
  (exitsOk_iff table exitsHoldingLock lockWrappers).mp (by decide +kernel)

-- non-vacuity: the wrapper is there (so the extraction does see exits with a lock held), and the nonce
-- table functions take and release their mutex
example : ("MHD_ip_count_lock", Lock.per_ip_connection_mutex) ∈ lockWrappers ∧ exitsHoldingLock ≠ [] := by decide +kernel
example : ∃ en ∈ table, en.name = "check_nonce_nc" ∧
    (∃ e ∈ en.events, e.kind = Kind.lock Lock.nnc_lock) ∧ (∃ e ∈ en.events, e.kind = Kind.unlock Lock.nnc_lock) := by
  decide +kernel

/-
  Full statement (does NOT hold on the unchanged tree, see `lockset_witness`):
    ∀ en ∈ table, ∀ e ∈ en.events, ∀ f w, e.kind = .acc f w → protectedAcc en e f = true
-/
/-- **Lockset discipline (partial).**  Every access to a field of the shared set is
    (i) under the mutex designated for that field (held at the access on every path, counting
    what every caller holds), or (ii) confined to the single daemon-thread role (or made while
    no other thread can reach the object), or (iii) to one of the documented benign flags /
    the connection counter — *except* reads of `connection->suspended` and accesses to
    `urh->was_closed`, which the unchanged tree performs without their mutex (finding F18b;
    ThreadSanitizer confirms the first one in thread-per-connection mode). -/
theorem lockset_partial :
    ∀ en ∈ table, ∀ e ∈ en.events, ∀ f w, e.kind = Kind.acc f w →
      (protectedAcc en e f = true ∨ knownUnprotected f w = true) :=
  locksetOk_acc table (by decide +kernel)

/-- kernel-checked witness that the full statement fails on the table of the unchanged tree -/
theorem lockset_witness :
    ¬ (∀ en ∈ table, ∀ e ∈ en.events, ∀ f w, e.kind = Kind.acc f w → protectedAcc en e f = true) :=
  locksetStrict_false table (by decide +kernel)

/-- **Writes need the mutex itself.**  Every write of a shared field is made under the mutex
    designated for the field — the daemon-thread role alone is not accepted for the lists that
    connection threads also touch in thread-per-connection mode — except: benign fields, the
    daemon-only fields (epoll ready list, `thread_joined`) written by the confined daemon thread,
    fresh objects, the detached local hand-over list, start-up code, and `urh->was_closed`
    (known finding F18b).  The known-unprotected accesses of `connection->suspended` are reads. -/
theorem writes_under_mutex :
    ∀ en ∈ table, ∀ e ∈ en.events, ∀ f, e.kind = Kind.acc f true → writeOk en e f = true :=
  (writesOk_iff table).mp (by decide +kernel)

-- non-vacuity: the table contains protected writes of each kind
example : ∃ en ∈ table, ∃ e ∈ en.events, e.kind = Kind.acc Field.conn_list true ∧
    underDesignated en e Field.conn_list = true := by decide +kernel
example : ∃ en ∈ table, ∃ e ∈ en.events, e.kind = Kind.acc Field.nnc true ∧
    underDesignated en e Field.nnc = true := by decide +kernel
example : ∃ en ∈ table, ∃ e ∈ en.events, e.kind = Kind.acc Field.reference_count true ∧
    underDesignated en e Field.reference_count = true := by decide +kernel
example : ∃ en ∈ table, ∃ e ∈ en.events, e.kind = Kind.acc Field.eready_list true ∧
    underDesignated en e Field.eready_list = false ∧ confined en e Field.eready_list = true := by decide +kernel

example : ∃ en ∈ table, ∃ e ∈ en.events, e.kind = Kind.acc Field.per_ip_count true ∧
    underDesignated en e Field.per_ip_count = true := by decide +kernel

/-- **The per-address tree and the nonce table are touched under their mutex only.**  Every access —
    read or write, in any thread role — to the per-IP connection accounting (the search tree
    `daemon->per_ip_connection_count` handed to tsearch/tfind/tdelete and the `count` of its nodes)
    and to the digest-auth nonce table (`daemon->nnc[]`: `nonce`, `nc`, `nmask`) is made with
    `per_ip_connection_mutex` resp. `nnc_lock` certainly held (held on every path, counting what
    every caller holds); the only other accesses are in start-up code.  No daemon-thread
    confinement, no benign exception is accepted for these two objects. -/
theorem per_ip_and_nonce_under_mutex :
    ∀ en ∈ table, ∀ e ∈ en.events, ∀ f w, e.kind = Kind.acc f w → f ∈ strictFields →
      strictAccOk en e f = true :=
  (strictOk_iff table).mp (by decide +kernel)

-- non-vacuity: the table has reads and writes of both objects; a lookup moved in front of the lock
-- (the accesses of MHD_ip_limit_del lose their mutex) breaks the check
example : ∃ en ∈ table, ∃ e ∈ en.events, e.kind = Kind.acc Field.per_ip_count false ∧ en.name = "MHD_ip_limit_del" := by
  decide +kernel
example : ∃ en ∈ table, ∃ e ∈ en.events, e.kind = Kind.acc Field.nnc false ∧
    underDesignated en e Field.nnc = true := by decide +kernel

/-- **Flag and list change together.**  Every write of `daemon->have_new` is made while
    `new_connections_mutex` is held (and such writes exist), i.e. inside the critical section that
    inserts into / detaches the hand-over list: no `MHD_add_connection` from another thread can
    land between the detach and the clearing of the flag. -/
theorem have_new_paired : haveNewPairedOk table = true := by decide +kernel

/-- **A resume shortens the wait.**  In each of the three event loops (select, poll, epoll) the
    result of `resume_suspended_connections` reaches, by data / control flow in the AST, the
    timeout argument of the following select / poll / epoll_wait as a forced zero; only the loop
    that runs exclusively in thread-per-connection mode discards it. -/
theorem resume_forces_zero_timeout : resumeTimeoutOk resumeWaitSites = true := by decide +kernel

/-- Application callbacks run with no library mutex held, except the content reader (under the
    response mutex, documented) and the completion notification issued by
    `resume_suspended_connections` for an upgraded connection. -/
theorem callbacks_unlocked :
    ∀ en ∈ table, ∀ e ∈ en.events, e.kind = Kind.callback → ∀ l ∈ effMay en e,
      (l = Lock.response_mutex ∨
        (l = Lock.cleanup_connection_mutex ∧ en.name = "resume_suspended_connections")) :=
  (callbackOk_iff table).mp (by decide +kernel)

/-- Shutdown sequencing as written in the source: `MHD_stop_daemon` writes the shutdown flag
    before it joins the daemon thread and calls `close_all_connections` itself only on the
    no-internal-thread branch; `MHD_polling_thread` calls `close_all_connections` after its last
    test of the flag; `close_all_connections` joins, closes via `close_connection` and ends with
    `MHD_cleanup_connections`. -/
theorem stop_sequence : stopSequenceOk table = true := by decide +kernel

/-! ### the whole-table checks are sensitive (kernel-checked mutations of the regenerated table)

  These are *tests of the checks*, not part of the property: each mutates the generated table the
  way a change of the C source would and shows that the corresponding `decide` would fail. -/

/-- rewrite the events of one function of the table -/
def mutFn (name : String) (f : List Ev → List Ev) (t : List Entry) : List Entry :=
  t.map (fun en => if en.name == name then { en with events := f en.events } else en)

-- the accesses of MHD_resume_connection lose their mutex
example : locksetOk (mutFn "MHD_resume_connection" (fun es => es.map (fun e => { e with must := [] })) table) = false := by
  decide +kernel
example : writesOk (mutFn "new_connection_process_" (fun es => es.map (fun e => { e with must := [] })) table) = false := by
  decide +kernel
-- a function takes the new-connections mutex while holding the per-IP mutex (inverse of the existing edge)
example : rankOk (mutFn "MHD_ip_count_lock" (fun es => es ++
    [⟨.lock .new_connections_mutex, 0, [.per_ip_connection_mutex], [.per_ip_connection_mutex], [], [], .any⟩]) table)
    lockRank = false := by decide +kernel
-- MHD_stop_daemon joins with a mutex held / joins before it sets the flag
example : blockingOk (mutFn "MHD_stop_daemon" (fun es => es.map (fun e => { e with may := [.cleanup_connection_mutex] })) table) = false := by
  decide +kernel
example : stopSequenceOk (mutFn "MHD_stop_daemon" List.reverse table) = false := by decide +kernel
-- the flag is cleared outside the critical section / the poll loop discards the resume result
example : haveNewPairedOk (mutFn "new_connections_list_process_" (fun es => es.map (fun e => { e with must := [] })) table) = false := by
  decide +kernel
example : resumeTimeoutOk (resumeWaitSites.map (fun s => if s.1 == "MHD_poll_all" then (s.1, s.2.1, s.2.2.1, false) else s)) = false := by
  decide +kernel
-- the response mutex is released before the shared data block is read
example : locksetOk (mutFn "MHD_connection_handle_write" (fun es => es.map (fun e => { e with may := [], must := [] })) table) = false := by
  decide +kernel
-- a callee assumes a lock that a call site does not hold
example : contextOk (table.map (fun en =>
    if en.name == "close_connection" then { en with entryMust := [.cleanup_connection_mutex] } else en)) = false := by
  decide +kernel
-- an application callback under the cleanup mutex
example : callbackOk (mutFn "MHD_connection_close_" (fun es => es.map (fun e => { e with may := [.cleanup_connection_mutex] })) table) = false := by
  decide +kernel

-- check_nonce_nc gets an early return between the lock and the unlock of the nonce-table mutex
example : exitsOk table (("check_nonce_nc", Lock.nnc_lock, 864, true) :: exitsHoldingLock) lockWrappers = false := by
  decide +kernel
-- the per-IP lookup is moved in front of MHD_ip_count_lock()
example : strictOk (mutFn "MHD_ip_limit_del" (fun es => es.map (fun e => { e with must := [] })) table) = false := by
  decide +kernel
-- the join loop of close_all_connections carries a saved link across the join
example : Mhd.StopJoin.cursorRuleOk (unlockLoops.map (fun x =>
    if x.1 == "close_all_connections" && x.2.2.2.1 == Field.conn_list then (x.1, x.2.1, x.2.2.1, x.2.2.2.1, CursorKind.carriedValue) else x)) = false := by
  decide +kernel

/-! ## B. shutdown state machine -/

open Mhd.Stop

/-- every state reachable from daemons in normal operation satisfies the invariant -/
theorem stop_invariant (ws ws' : List Worker) (sched : List (Nat × Act))
    (hinit : ∀ w ∈ ws, InitW w) (h : run ws sched = some ws') : Good ws' :=
  good_run sched (fun w hw => goodW_of_init (hinit w hw)) h

/-- **No deadlock, no lost wake-up.**  In every reachable state, for every worker that is not yet
    joined, either the next statement of `MHD_stop_daemon` is enabled, or the worker has been
    signalled and its own thread can move *without any network event*. -/
theorem stop_progress (ws ws' : List Worker) (sched : List (Nat × Act))
    (hinit : ∀ w ∈ ws, InitW w) (h : run ws sched = some ws') :
    ∀ w ∈ ws', w.stage ≠ .joined →
      (∃ w', wstep w .stop = some w') ∨
      (w.stage = .signalled ∧ ∃ w', wstep w (.run false []) = some w') :=
  fun w hw hj => worker_progress (stop_invariant ws ws' sched hinit h w hw) hj

/-- **Bounded stop.**  In any run, under any scheduler and any network behaviour, the number of
    steps that belong to the shutdown protocol (statements of `MHD_stop_daemon` and steps of
    workers whose flag is set) is at most `phi ws` = Σ (number of active connections + 9). -/
theorem stop_bounded (ws ws' : List Worker) (sched : List (Nat × Act))
    (hinit : ∀ w ∈ ws, InitW w) (h : run ws sched = some ws') :
    countProtocol ws sched ≤ phi ws := by
  have := countProtocol_le sched ws (fun w hw => goodW_of_init (hinit w hw)) ws' h
  omega

/-- **Clean stop.**  When every worker is joined, every polling thread has exited, every list is
    empty (all connections freed) and every connection was notified exactly once. -/
theorem stop_final (ws ws' : List Worker) (sched : List (Nat × Act))
    (hinit : ∀ w ∈ ws, InitW w) (h : run ws sched = some ws') :
    ∀ w ∈ ws', w.stage = .joined →
      w.pc = .exited ∧ ∀ c ∈ w.conns, c.st = .freed ∧ c.notified = 1 :=
  fun w hw hj => joined_final (stop_invariant ws ws' sched hinit h w hw) hj

/-- at no time has any connection been notified more than once -/
theorem notified_at_most_once (ws ws' : List Worker) (sched : List (Nat × Act))
    (hinit : ∀ w ∈ ws, InitW w) (h : run ws sched = some ws') :
    ∀ w ∈ ws', ∀ c ∈ w.conns, c.notified ≤ 1 :=
  fun w hw => notified_le_one (stop_invariant ws ws' sched hinit h w hw)

-- non-vacuity: two workers (one blocked in poll with two live connections, one in the middle of
-- a handling round), stopped while a client closes a connection; the run ends with both joined
def exWs : List Worker :=
  [⟨.running, .polling, false, false, [⟨.active, 0⟩, ⟨.active, 0⟩]⟩,
   ⟨.running, .handling, false, true, [⟨.active, 0⟩, ⟨.cleanup, 1⟩]⟩]

def exSched : List (Nat × Act) :=
  [(1, .run false [true]), (0, .stop), (1, .stop), (0, .stop), (1, .stop), (1, .run false []),
   (0, .run false []), (0, .run false [false, true]), (0, .run false []), (0, .run false []),
   (0, .run false []), (0, .run false []), (0, .stop),
   (1, .run false []), (1, .run false []), (1, .stop)]

example : ∀ w ∈ exWs, InitW w := by decide
example : (run exWs exSched).map (fun ws => ws.all (fun w => w.stage == .joined)) = some true := by decide
example : countProtocol exWs exSched ≤ phi exWs := by decide

/-! ## C. thread-per-connection mode: joining the connection threads (fix F18a) -/

open Mhd.StopTpc in
/-- **Stop terminates in thread-per-connection mode** (repaired thread exit path): for any number
    of connections, each either in the normal list or resumed-but-not-yet-processed in the
    suspended list, and for *every* choice of which connection threads observe the shutdown before
    the daemon thread processes the resumes, the daemon's final loop finds the connection list
    empty; every connection ends freed, its thread exited, notified exactly once. -/
theorem tpc_stop_terminates (cs : List (StopTpc.TC × Bool)) (h : ∀ p ∈ cs, StopTpc.InitC p.1) :
    ∃ r, StopTpc.stopTpc true cs = some r ∧ r.length = cs.length ∧
      ∀ c ∈ r, c.place = .freed ∧ c.notified = 1 ∧ c.exited = true :=
  StopTpc.stop_fixed cs h

/-- kernel-checked witness of the violation in the code *before* fix F18a: one resumed connection
    whose thread observes the shutdown before the daemon thread has processed the resume makes the
    final loop of `close_all_connections` spin forever (observed as the watchdog expiry of the
    stress harness on the unrepaired tree). -/
theorem tpc_stop_unfixed_witness :
    StopTpc.InitC ⟨.susp, 0, false⟩ ∧ StopTpc.stopTpc false [(⟨.susp, 0, false⟩, true)] = none := by
  constructor <;> decide

-- non-vacuity: three connections, mixed placement and timing
example : (StopTpc.stopTpc true [(⟨.conn, 0, false⟩, true), (⟨.susp, 0, false⟩, true), (⟨.susp, 0, false⟩, false)]).isSome = true := by
  decide

/-! ## D. loops that release the mutex in their body (regenerated iteration discipline) -/

open Mhd.StopJoin

/-- **No list cursor is carried across an unlock … lock window.**  For every loop of the four source
    files whose body releases and re-takes a mutex while it walks one of the daemon's lists
    (`unlockLoops`, regenerated from the clang AST: MHD_cleanup_connections, and the two join loops of
    close_all_connections), the position used after the window is read again from the list head /
    tail under the mutex — except the walk over the suspended list (upgraded TLS connections), which
    keeps its *node* and re-reads the link under the mutex (`pinnedNodeLoop`, trusted exception).
    The join loop over `connections` and the clean-up loop over `cleanup` are both present. -/
theorem cursor_not_carried_across_unlock :
    cursorRuleOk unlockLoops = true ∧
    (cursorOf unlockLoops "close_all_connections" Field.conn_list).isSome = true ∧
    cursorOf unlockLoops "MHD_cleanup_connections" Field.cleanup_list = some CursorKind.rereadHead := by
  decide +kernel

/-- **The stop procedure joins every connection thread** (thread-per-connection mode), with the
    iteration discipline *as found in the source*: for any number of connections (distinct ids, tail
    first) and any interleaving of thread exits (`sched`: which other connection threads run their
    exit path — move their connection from the `connections` list to the `cleanup` list — while the
    mutex is released around each join, in which order), the join loop followed by the test of the
    "now that we're alone" loop does not panic, leaves the `connections` list empty, every connection
    is in the cleanup list, and every thread is joined exactly once (in the loop, or — flag
    `thread_joined` unset — by MHD_cleanup_connections).  Fails to build when the regenerated
    discipline of the loop is anything but `rereadHead`. -/
theorem tpc_join_every_thread (conns : List Nat) (hnd : conns.Nodup) (sched : List (List Nat)) :
    ∃ s, closeAllTpc (joinLoopCursor unlockLoops) conns sched = Outcome.ok s ∧ s.conn = [] ∧
      (∀ x, x ∈ s.cleanup ↔ x ∈ conns) ∧
      (∀ x ∈ conns, (s.joined ++ joinedInCleanup s).count x = 1) ∧
      (∀ x ∈ s.joined ++ joinedInCleanup s, x ∈ conns) := by
  rw [cursor_of_rule unlockLoops cursor_not_carried_across_unlock.1 cursor_not_carried_across_unlock.2.1]
  exact closeAll_reread conns hnd sched

-- non-vacuity: five connections, exits of 4 and 2 during the first join and of 5 during the second
example : closeAllTpc (joinLoopCursor unlockLoops) [1, 2, 3, 4, 5] [[4, 2], [5]] =
    Outcome.ok ⟨[], [4, 2, 1, 5, 3], [3, 1]⟩ := by decide +kernel
example : [1, 2, 3, 4, 5].Nodup := by decide

/-- kernel-checked witness histories for the two carried-cursor variants.  (1) three connections
    (1 = tail = oldest), the link `prev = pos->prev` saved before the unlock: while the daemon thread
    waits for thread 1, thread 2 ends and moves its connection to the cleanup list; the saved pointer
    continues the walk in the cleanup list; connection 3 is never visited and the following loop
    panics ("Failed to join a thread") with thread 3 unjoined.  (2) the node itself carried and
    `pos = pos->prev` read after the re-lock: already two connections and no concurrent exit at all
    suffice (the joined connection has moved itself to the cleanup list). -/
theorem tpc_join_carried_cursor_witness :
    closeAllTpc CursorKind.carriedValue [1, 2, 3] [[2]] = Outcome.panic 3 ∧
    closeAllTpc CursorKind.freshLinkOfCarriedNode [1, 2] [] = Outcome.panic 2 := by
  decide +kernel

-- … while without concurrent exits the carried link goes unnoticed (why the test suite passes)
example : closeAllTpc CursorKind.carriedValue [1, 2, 3] [] = Outcome.ok ⟨[], [1, 2, 3], [3, 2, 1]⟩ := by decide +kernel

end Mhd.C18
