/-
  C02 — the application sees exactly the request the client sent.

  Statements only; the proofs are in `Mhd.Proofs.Scanner`, `Mhd.Proofs.ReqLine`,
  `Mhd.Proofs.ReqField`.  The models are `Mhd.Model.ReqLine` (get_request_line_inner),
  `Mhd.Model.ReqField` (get_req_header / get_req_headers incl. the shift-back block);
  every strictness flag comes from the regenerated `Mhd.Gen.Discipline`.

  All theorems quantify over every strictness level (in fact over every combination of
  flags), every initial buffer content, every position of the read buffer in the arena
  and every segmentation of the input (lists of chunks of any length, including empty
  chunks); there is no bound on any size.
-/
import Mhd.Proofs.ReqLine
import Mhd.Proofs.ReqField

namespace Mhd.C02
open Mhd.Req

/-! ## (1) fault freedom -/

/-- `get_request_line_inner` never reads or writes outside the received bytes and never
    dereferences NULL: for every level, every arena prefix `buf` with the read buffer at any
    offset `rb`, and every segmentation `chunks` of whatever arrives later, feeding the
    chunks one by one (calling the parser after each) never faults. -/
theorem reqline_no_fault (lvl : Int) (buf : Bytes) (rb : Nat) (h : rb ≤ buf.size) (chunks : List Bytes)
    (f : Fault) :
    let sc := rlScanner (RLFlags.ofLevel lvl)
    sc.feedAll (sc.run (RL.init buf rb)) chunks ≠ .fault f := by
  intro sc
  rw [Scanner.feedAll_flatten (rlLaws _) chunks _ (RLInv.init buf rb h)]
  exact Scanner.run_no_fault (rlLaws _) _ ((RLInv.init buf rb h).ext _) f

/-- the same for arbitrary flag combinations (not only the seven levels) -/
theorem reqline_no_fault_flags (F : RLFlags) (s : RL) (hs : RLInv s) (chunks : List Bytes) (f : Fault) :
    (rlScanner F).feedAll ((rlScanner F).run s) chunks ≠ .fault f := by
  rw [Scanner.feedAll_flatten (rlLaws F) chunks s hs]
  exact Scanner.run_no_fault (rlLaws F) _ (hs.ext _) f

/-- `get_req_headers` (field lines, folding, in-place termination, element list and the
    shift-back block at the end of the header section) never faults: for every level, every
    state satisfying the representation invariant `HSP.Inv` (which holds after any processed
    request line, see `field_inv_after_line`) and every segmentation. -/
theorem field_no_fault (lvl : Int) (fieldStart : Nat) (s : HS) (hs : HSP.Inv s) (chunks : List Bytes) (f : Fault) :
    let sc := hsScanner (FLFlags.ofLevel lvl) fieldStart
    sc.feedAll (sc.run s) chunks ≠ .fault f := by
  intro sc
  rw [Scanner.feedAll_flatten (HSP.hsLaws _ fieldStart) chunks s hs]
  exact Scanner.run_no_fault (HSP.hsLaws _ fieldStart) _ (hs.ext _) f

/-- the invariant needed by `field_no_fault` holds in the state in which header parsing
    starts, provided the version string (8 bytes + NUL) lies before the read buffer and no
    element of the list so far is a field line (after the request line the list holds the
    query arguments only) -/
theorem field_inv_start (buf : Bytes) (rb rbSize method version : Nat) (elems : List Elem)
    (h1 : rb ≤ buf.size) (h2 : version + Mhd.Gen.Discipline.httpVerLen + 1 ≤ rb)
    (h3 : ∀ el ∈ elems, el.kind ≠ Mhd.Gen.Http.kindHeader) :
    HSP.Inv { buf := buf, rb := rb, rbSize := rbSize, elems := elems, method := method, version := version } :=
  ⟨by simpa using h1, by show 1 ≤ rb; omega, Nat.le_refl _, Nat.le_refl _,
   Nat.le_refl _, h2, fun el hm hk => absurd hk (h3 el hm)⟩

/-! ## (2) split independence -/

/-- feeding any segmentation to `get_request_line_inner` equals feeding the concatenation -/
theorem reqline_split_independent (lvl : Int) (buf : Bytes) (rb : Nat) (h : rb ≤ buf.size) (chunks : List Bytes) :
    let sc := rlScanner (RLFlags.ofLevel lvl)
    sc.feedAll (sc.run (RL.init buf rb)) chunks = sc.run (RL.init (buf ++ Scanner.flatten chunks) rb) :=
  Scanner.feedAll_flatten (rlLaws _) chunks _ (RLInv.init buf rb h)

/-- two segmentations of the same bytes: same outcome (same result, same buffer contents,
    same positions) -/
theorem reqline_any_two_segmentations (lvl : Int) (buf : Bytes) (rb : Nat) (h : rb ≤ buf.size)
    (c₁ c₂ : List Bytes) (hc : Scanner.flatten c₁ = Scanner.flatten c₂) :
    let sc := rlScanner (RLFlags.ofLevel lvl)
    sc.feedAll (sc.run (RL.init buf rb)) c₁ = sc.feedAll (sc.run (RL.init buf rb)) c₂ :=
  Scanner.feedAll_eq_of_flatten_eq (rlLaws _) _ (RLInv.init buf rb h) c₁ c₂ hc

/-- feeding any segmentation to `get_req_headers` equals feeding the concatenation -/
theorem field_split_independent (lvl : Int) (fieldStart : Nat) (s : HS) (hs : HSP.Inv s) (chunks : List Bytes) :
    let sc := hsScanner (FLFlags.ofLevel lvl) fieldStart
    sc.feedAll (sc.run s) chunks = sc.run (hsExtend s (Scanner.flatten chunks)) :=
  Scanner.feedAll_flatten (HSP.hsLaws _ fieldStart) chunks s hs

theorem field_any_two_segmentations (lvl : Int) (fieldStart : Nat) (s : HS) (hs : HSP.Inv s)
    (c₁ c₂ : List Bytes) (hc : Scanner.flatten c₁ = Scanner.flatten c₂) :
    let sc := hsScanner (FLFlags.ofLevel lvl) fieldStart
    sc.feedAll (sc.run s) c₁ = sc.feedAll (sc.run s) c₂ :=
  Scanner.feedAll_eq_of_flatten_eq (HSP.hsLaws _ fieldStart) s hs c₁ c₂ hc

end Mhd.C02
