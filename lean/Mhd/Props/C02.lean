/-
  C02 — the application sees exactly the request the client sent.

  Statements only; the proofs are in `Mhd.Proofs.Scanner`, `Mhd.Proofs.ReqLine` (+ `ReqLinePost`),
  `Mhd.Proofs.ReqField`, `ReqStable`, `ReqRoundtrip`, `ReqLineRoundtrip` (+ `NC`), `ReqTarget`
  (+ `RT`, `NC`, `Enc`), `ReqCookie`.  The models are `Mhd.Model.ReqLine` (get_request_line_inner),
  `Mhd.Model.ReqTarget` (get_request_line, process_request_target, MHD_parse_arguments_,
  MHD_unescape_plus, the strict / lenient in-place percent decoders), `Mhd.Model.ReqField`
  (get_req_header / get_req_headers incl. the shift-back block), `Mhd.Model.ReqCookie`
  (parse_cookies_string, parse_cookie_header); every strictness flag comes from the
  regenerated `Mhd.Gen.Discipline`.

  Sections: (1) fault freedom of the incremental scanners, (2) split independence, (4) stability
  of the strings, (3) round trips of request line and field lines, (5) target / argument
  decoding: fault freedom, exactness, decode ∘ render = id, (6) what the line parser hands over
  and fault freedom of `get_request_line` as a whole, (7) cookies, (8) the look-up API.

  All theorems quantify over every strictness level (in fact over every combination of
  flags) unless they say "level ≥ 0", every initial buffer content, every position of the read
  buffer in the arena and every segmentation of the input (lists of chunks of any length,
  including empty chunks); there is no bound on any size.
-/
import Mhd.Proofs.ReqLine
import Mhd.Proofs.ReqField
import Mhd.Proofs.ReqStable
import Mhd.Proofs.ReqRoundtrip
import Mhd.Proofs.ReqRoundtripNC
import Mhd.Proofs.ReqLineRoundtrip
import Mhd.Proofs.ReqLineRoundtripNC
import Mhd.Proofs.ReqTargetRT
import Mhd.Proofs.ReqTargetNC
import Mhd.Proofs.ReqTargetEnc
import Mhd.Proofs.ReqTargetAfter
import Mhd.Proofs.ReqLineRoundtripBlk
import Mhd.Proofs.ReqLinePost
import Mhd.Proofs.ReqCookie
import Mhd.Proofs.ReqLookup
import Mhd.Proofs.ReqTargetExt

namespace Mhd.C02
open Mhd.Req

/-! ## (1) fault freedom -/

/-- `get_request_line_inner` never reads or writes outside the received bytes and never
    dereferences NULL: for every level, every arena prefix `buf` with the read buffer at any
    offset `rb`, and every segmentation `chunks` of whatever arrives later, feeding the
    chunks one by one (calling the parser after each) never faults. -/
theorem reqline_no_fault (lvl : Int) (buf : Bytes) (rb : Nat) (h : rb ≤ buf.size) (chunks : List Bytes)
    (f : Fault) :
    let sc := rlScanner (RLFlags.ofLevel lvl)
    sc.feedAll (sc.run (RL.init buf rb)) chunks ≠ .fault f := by
  intro sc
  rw [Scanner.feedAll_flatten (rlLaws _) chunks _ (RLInv.init buf rb h)]
  exact Scanner.run_no_fault (rlLaws _) _ ((RLInv.init buf rb h).ext _) f

/-- the same for arbitrary flag combinations (not only the seven levels) -/
theorem reqline_no_fault_flags (F : RLFlags) (s : RL) (hs : RLInv s) (chunks : List Bytes) (f : Fault) :
    (rlScanner F).feedAll ((rlScanner F).run s) chunks ≠ .fault f := by
  rw [Scanner.feedAll_flatten (rlLaws F) chunks s hs]
  exact Scanner.run_no_fault (rlLaws F) _ (hs.ext _) f

/-- `get_req_headers` (field lines, folding, in-place termination, element list and the
    shift-back block at the end of the header section) never faults: for every level, every
    state satisfying the representation invariant `HSP.Inv` (which holds after any processed
    request line, see `field_inv_start`) and every segmentation. -/
theorem field_no_fault (lvl : Int) (fieldStart : Nat) (s : HS) (hs : HSP.Inv s) (chunks : List Bytes) (f : Fault) :
    let sc := hsScanner (FLFlags.ofLevel lvl) fieldStart
    sc.feedAll (sc.run s) chunks ≠ .fault f := by
  intro sc
  rw [Scanner.feedAll_flatten (HSP.hsLaws _ fieldStart) chunks s hs]
  exact Scanner.run_no_fault (HSP.hsLaws _ fieldStart) _ (hs.ext _) f

/-- the invariant needed by `field_no_fault` holds in the state in which header parsing
    starts, provided the version string (8 bytes + NUL) lies before the read buffer and no
    element of the list so far is a field line (after the request line the list holds the
    query arguments only) -/
theorem field_inv_start (buf : Bytes) (rb rbSize method version : Nat) (elems : List Elem)
    (h1 : rb ≤ buf.size) (h2 : version + Mhd.Gen.Discipline.httpVerLen + 1 ≤ rb)
    (h3 : ∀ el ∈ elems, el.kind ≠ Mhd.Gen.Http.kindHeader) :
    HSP.Inv { buf := buf, rb := rb, rbSize := rbSize, elems := elems, method := method, version := version } :=
  ⟨by simpa using h1, by show 1 ≤ rb; omega, Nat.le_refl _, Nat.le_refl _,
   Nat.le_refl _, h2, fun el hm hk => absurd hk (h3 el hm)⟩

/-! ## (2) split independence -/

/-- feeding any segmentation to `get_request_line_inner` equals feeding the concatenation -/
theorem reqline_split_independent (lvl : Int) (buf : Bytes) (rb : Nat) (h : rb ≤ buf.size) (chunks : List Bytes) :
    let sc := rlScanner (RLFlags.ofLevel lvl)
    sc.feedAll (sc.run (RL.init buf rb)) chunks = sc.run (RL.init (buf ++ Scanner.flatten chunks) rb) :=
  Scanner.feedAll_flatten (rlLaws _) chunks _ (RLInv.init buf rb h)

/-- two segmentations of the same bytes: same outcome (same result, same buffer contents,
    same positions) -/
theorem reqline_any_two_segmentations (lvl : Int) (buf : Bytes) (rb : Nat) (h : rb ≤ buf.size)
    (c₁ c₂ : List Bytes) (hc : Scanner.flatten c₁ = Scanner.flatten c₂) :
    let sc := rlScanner (RLFlags.ofLevel lvl)
    sc.feedAll (sc.run (RL.init buf rb)) c₁ = sc.feedAll (sc.run (RL.init buf rb)) c₂ :=
  Scanner.feedAll_eq_of_flatten_eq (rlLaws _) _ (RLInv.init buf rb h) c₁ c₂ hc

/-- feeding any segmentation to `get_req_headers` equals feeding the concatenation -/
theorem field_split_independent (lvl : Int) (fieldStart : Nat) (s : HS) (hs : HSP.Inv s) (chunks : List Bytes) :
    let sc := hsScanner (FLFlags.ofLevel lvl) fieldStart
    sc.feedAll (sc.run s) chunks = sc.run (hsExtend s (Scanner.flatten chunks)) :=
  Scanner.feedAll_flatten (HSP.hsLaws _ fieldStart) chunks s hs

theorem field_any_two_segmentations (lvl : Int) (fieldStart : Nat) (s : HS) (hs : HSP.Inv s)
    (c₁ c₂ : List Bytes) (hc : Scanner.flatten c₁ = Scanner.flatten c₂) :
    let sc := hsScanner (FLFlags.ofLevel lvl) fieldStart
    sc.feedAll (sc.run s) c₁ = sc.feedAll (sc.run s) c₂ :=
  Scanner.feedAll_eq_of_flatten_eq (HSP.hsLaws _ fieldStart) s hs c₁ c₂ hc


/-! ## (4) stability of the strings shown to the application -/

/-- second half of the start invariant: in the state in which header parsing starts, no
    element is a field line and all strings handed out so far (the query arguments, inside
    the request target) end before the end of the version string -/
theorem field_inv2_start (buf : Bytes) (rb rbSize method version : Nat) (elems : List Elem)
    (h3 : ∀ el ∈ elems, el.kind ≠ Mhd.Gen.Http.kindHeader)
    (h4 : ∀ el ∈ elems, ∀ sl ∈ HSP.Elem.slices el, sl.region = 0 →
      sl.off + sl.len ≤ version + Mhd.Gen.Discipline.httpVerLen) :
    HSP.Inv2 { buf := buf, rb := rb, rbSize := rbSize, elems := elems, method := method, version := version } := by
  have hL : lastElemEnd ({ buf := buf, rb := rb, rbSize := rbSize, elems := elems, method := method, version := version } : HS)
      = version + Mhd.Gen.Discipline.httpVerLen := by
    unfold lastElemEnd
    dsimp only
    split
    next e he =>
      have hk := h3 e (List.mem_of_getLast? he)
      rw [if_neg (by simpa using hk)]
    next => rfl
  exact ⟨fun _ => rfl, fun _ _ => rfl, fun h => absurd rfl h, by rw [hL]; exact Nat.le_refl _,
    by rw [hL]; exact h4⟩

/-- **Strings shown to the application stay valid and unchanged** (this is what the
    shift-back defect F1 violated).  Header parsing starts in any state satisfying the
    invariants (`field_inv_start`, `field_inv2_start`: true after every request line), the
    header section arrives in *any* segmentation, parsing finishes with header set `h`.
    Then, at every level:
    * every string of every element (query arguments, field names, field values — each with
      its terminating NUL) and the HTTP version string lie strictly below `read_buffer`,
      also after the header tail has been re-used: whatever is received later (body,
      pipelined requests) is stored at or above `read_buffer` and cannot overwrite them;
    * the elements present at the start are the first elements of the final list (nothing
      dropped or reordered), and their bytes are unchanged. -/
theorem strings_stable (lvl : Int) (fieldStart : Nat) (s : HS) (hs : HSP.Inv s) (hs2 : HSP.Inv2 s)
    (chunks : List Bytes) (h : Headers)
    (hr : let sc := hsScanner (FLFlags.ofLevel lvl) fieldStart
          sc.feedAll (sc.run s) chunks = .done (.ok h)) :
    HSP.Below h s.version ∧ (∃ t, h.elems = s.elems ++ t) ∧
      (∀ i, i < s.rb → i < h.rb → h.buf[i]? = s.buf[i]?) := by
  dsimp only at hr
  rw [Scanner.feedAll_flatten (HSP.hsLaws _ fieldStart) chunks s hs] at hr
  have := HSP.run_stable (FLFlags.ofLevel lvl) fieldStart (hsExtend s (Scanner.flatten chunks))
    (hs.ext _) (hs2.ext _) h hr
  refine ⟨this.1, this.2.1, fun i h1 h2 => ?_⟩
  rw [this.2.2 i h1 h2]
  exact Array.getElem?_append_left (by have := hs.hp; omega)

/-! ## (3) round trip

  Full statement (DESIGN.md Appendix B `Req.roundtrip`): for every level, every request `r` and
  every rendering `ρ` admissible at that level, `appView (parse (render r lvl ρ)) = r`.
  Proved here, for **every segmentation**:
  * `reqline_roundtrip_partial` — the request line in its canonical rendering
    (`method SP target SP version CRLF`) at every level ≥ 0;
  * `fields_roundtrip_partial` — the header section in its canonical rendering
    (`name ": " value CRLF`) at **every** level, any number of fields.
  * `reqline_roundtrip_nc_partial`, `reqline_target_roundtrip_partial` (section 5) — the request
    line in **every** rendering admitted at levels ≥ 0 (leading empty lines, HT separator, bare
    LF) with percent/plus decoding of the target in every admissible encoding;
  * `reqline_target_roundtrip_all_levels_partial` — the same at **every** level, with whitespace
    blocks (SP / HT / VT / FF) as separators at levels < 0.
  * `fields_roundtrip_nc_partial` — field lines in every non-canonical rendering the levels accept
    (whitespace around the value and before the colon, obs-folds, bare LF, empty section).
  Missing for the full statement (carried by the correspondence run only — bounded-exhaustive
  white-box differential + the daemon engine with rendered requests and the semantic oracle),
  all at lenient levels: request line at levels < 0 with whitespace inside the URI or a bare
  CR (kept / replaced by a space); field lines with whitespace / NUL / CR inside or an empty
  name, without colon, or starting with whitespace (levels ≤ −1 / −2: kept, skipped or
  discarded — not renderings of a well-formed field); the lenient cookie renderings (`okLax`). -/

/-- a request-line token character: not CR, LF, SP, HT, VT, FF, NUL -/
abbrev TokenChar := RLP.rplain

/-- **Request line: the application is given exactly the method, target and version sent.**
    Level ≥ 0, canonical rendering, any segmentation.  The bytes `m SP t SP v CRLF` (method `m`
    and version `v` of token characters without '?', target `t` of token characters, `v`
    a supported `HTTP/1.x`) arrive in any chunks at the read position `rb` of a fresh
    connection buffer.  Then the parser finishes with the request line `r`: its three strings
    read back as `m`, `t`, `v`, each NUL-terminated; the method enum is that of `m`; the
    position of the first '?' of `t` is remembered (where the arguments start); no whitespace
    is counted in the URI; exactly the line is consumed. -/
theorem reqline_roundtrip_partial (lvl : Int) (hl : 0 ≤ lvl) (buf : Bytes) (rb : Nat) (chunks : List Bytes)
    (m t v : List UInt8) (hv : Int) (hrb : rb ≤ buf.size) (hm0 : m ≠ []) (ht0 : t ≠ [])
    (hm : ∀ c ∈ m, TokenChar c ∧ c ≠ 63) (ht : ∀ c ∈ t, TokenChar c) (hvl : v.length = 8)
    (hvc : ∀ c ∈ v, TokenChar c ∧ c ≠ 63) (hpv : parseHttpVersion v = .ok hv)
    (hbuf : RLP.BufIs (buf ++ Scanner.flatten chunks) rb (m ++ [cSP] ++ t ++ ([cSP] ++ v ++ [cCR, cLF]))) :
    let sc := rlScanner (RLFlags.ofLevel lvl)
    ∃ r, sc.feedAll (sc.run (RL.init buf rb)) chunks = .done (.ok r) ∧
      RLP.BufIs r.buf r.method (m ++ [0]) ∧ RLP.BufIs r.buf r.tgt (t ++ [0]) ∧ RLP.BufIs r.buf r.version (v ++ [0]) ∧
      r.method = rb ∧ r.methodLen = m.length ∧ r.mthd = stdMethodOf m ∧ r.tgtLen = t.length ∧
      r.qmark = (RLP.firstQ t).map (r.tgt + ·) ∧ r.httpVer = hv ∧ r.numWs = 0 ∧
      r.rb = rb + (m.length + t.length + 12) := by
  intro sc
  have hB : (RLFlags.ofLevel lvl).wspBlocks = false := by
    simp only [RLFlags.ofLevel, Mhd.Gen.Discipline.rl_wsp_blocks, decide_eq_false_iff_not]; omega
  have hrb' : rb ≤ (buf ++ Scanner.flatten chunks).size := by rw [Array.size_append]; omega
  obtain ⟨r, hr, ok⟩ := RLP.reqline_roundtrip (RLFlags.ofLevel lvl) hB _ rb m t v hv hrb' hm0 ht0 hm ht hvl hvc hpv hbuf
  have vw := ok.views rfl rfl hvl hbuf
  refine ⟨r, ?_, vw.1, vw.2.1, vw.2.2, ok.e_method, ok.e_ml, ok.e_mt, ok.e_tl, ?_, ok.e_hv, ok.e_nw, ok.e_rb⟩
  · rw [reqline_split_independent lvl buf rb hrb chunks]; exact hr
  · rw [ok.e_q, ok.e_tgt]

/-- **Field lines: the application sees exactly the fields the client sent.**  For every
    level, any list of well-formed fields (`HSP.FieldWF`: non-empty name of token-like
    characters, value without CR / LF / NUL and without leading or trailing whitespace —
    interior whitespace, any other byte incl. ≥ 0x80 allowed), rendered canonically as
    `name ": " value CRLF … CRLF` at the read position of any state satisfying the
    invariants, arriving in **any segmentation**: header parsing finishes, the element list
    grows by exactly one element per field — in order, with multiplicity, nothing added,
    dropped, merged or truncated — whose name and value read back from the final buffer
    are the bytes sent; `header_size` counts exactly the bytes of the head; the unconsumed
    bytes (body / next request) follow at `read_buffer`. -/
theorem fields_roundtrip_partial (lvl : Int) (fieldStart : Nat) (fields : List HSP.Field) (s : HS) (chunks : List Bytes)
    (hs : HSP.Inv s) (hs2 : HSP.Inv2 s) (hfresh : HSP.Fresh s) (hwf : ∀ f ∈ fields, HSP.FieldWF f)
    (hbuf : HSP.BufIs (s.buf ++ Scanner.flatten chunks) s.rb (HSP.renderFields fields ++ [cCR, cLF])) :
    let sc := hsScanner (FLFlags.ofLevel lvl) fieldStart
    ∃ h : Headers, sc.feedAll (sc.run s) chunks = .done (.ok h) ∧ HSP.Below h s.version ∧
      (∃ els, h.elems = s.elems ++ els ∧
        els.map (HSP.elemView h.buf) = fields.map (fun f => (Mhd.Gen.Http.kindHeader, f.1, some f.2))) ∧
      h.headerSize = s.rb + (HSP.renderFields fields).length + 2 - s.method := by
  intro sc
  have hx := HSP.fields_roundtrip (FLFlags.ofLevel lvl) fieldStart fields (hsExtend s (Scanner.flatten chunks))
    ⟨hs.ext _, hs2.ext _⟩ ⟨hfresh.p, hfresh.f1, hfresh.f2, hfresh.f3, hfresh.f4⟩ hwf hbuf
  obtain ⟨h, h1, h2, h3, h4, _⟩ := hx
  exact ⟨h, by rw [Scanner.feedAll_flatten (HSP.hsLaws _ fieldStart) chunks s hs]; exact h1, h2, h3, h4⟩


/-- **Field lines in every non-canonical rendering the level accepts: the application sees
    exactly the fields sent.**  Every level, any segmentation, any number of fields (none:
    the empty header section).  A rendering `HSP.FieldR` of a field chooses
    * whitespace (SP / HT) between name and colon — levels ≤ −3 (`allowWspBeforeColon`); it is
      removed from the name;
    * the value part as a list of tokens `HSP.VTok`: value bytes (anything but CR LF SP HT NUL),
      whitespace bytes anywhere — after the colon, inside, before the line end —, and obs-folds
      (a line end followed by SP / HT) anywhere — levels ≤ 0 (`allowFolded`); a NUL (levels ≤ −1,
      the code overwrites it with a space: `VTok.nul`) and a bare CR not followed by LF (levels
      −1, −2: overwritten with a space, `VTok.crSp`; level −3: kept as a value byte, `VTok.crKeep`);
    * the line end: CR LF, or a bare LF at levels ≤ 0 (`HSP.FEol`); likewise for the empty line
      `endEol` that ends the section.
    `HSP.FieldR.ok` is the (decidable) side condition.  The value the application must see is
    `HSP.FieldR.semValue`: in the token bytes **every byte of the line end of an obs-fold is
    replaced by a space** (CR LF → two spaces, bare LF → one; the whitespace that starts the
    continuation line is kept), a NUL and a replaced bare CR are a space, then whitespace is
    trimmed on both sides.  Then header parsing
    finishes, the element list grows by exactly one element per field — in order, with
    multiplicity —, name and value read back from the final buffer as `name` / `semValue`;
    all strings lie below `read_buffer`; `header_size` counts exactly the bytes of the head.
    Missing for the full statement (correspondence only), all at lenient levels and none of
    them a rendering of a well-formed field: NUL / bare CR / obs-fold inside the field *name*;
    lines starting with whitespace (discarded, ≤ −1); whitespace inside or an empty field
    name, lines without colon (skipped) at levels ≤ −2. -/
theorem fields_roundtrip_nc_partial (lvl : Int) (fieldStart : Nat) (fields : List HSP.FieldR) (endEol : List UInt8) (s : HS)
    (chunks : List Bytes) (hs : HSP.Inv s) (hs2 : HSP.Inv2 s) (hfresh : HSP.Fresh s)
    (hok : ∀ f ∈ fields, f.ok (FLFlags.ofLevel lvl)) (hend : HSP.FEol (FLFlags.ofLevel lvl) endEol)
    (hbuf : HSP.BufIs (s.buf ++ Scanner.flatten chunks) s.rb (HSP.renderFieldsR fields ++ endEol)) :
    let sc := hsScanner (FLFlags.ofLevel lvl) fieldStart
    ∃ h : Headers, sc.feedAll (sc.run s) chunks = .done (.ok h) ∧ HSP.Below h s.version ∧
      (∃ els, h.elems = s.elems ++ els ∧
        els.map (HSP.elemView h.buf) = fields.map (fun f => (Mhd.Gen.Http.kindHeader, f.name, some f.semValue))) ∧
      h.headerSize = s.rb + (HSP.renderFieldsR fields).length + endEol.length - s.method := by
  intro sc
  have hx := HSP.fields_roundtrip_nc (FLFlags.ofLevel lvl) fieldStart fields endEol (hsExtend s (Scanner.flatten chunks))
    ⟨hs.ext _, hs2.ext _⟩ ⟨hfresh.p, hfresh.f1, hfresh.f2, hfresh.f3, hfresh.f4⟩ hok hend hbuf
  obtain ⟨h, h1, h2, h3, h4, _⟩ := hx
  exact ⟨h, by rw [Scanner.feedAll_flatten (HSP.hsLaws _ fieldStart) chunks s hs]; exact h1, h2, h3, h4⟩

/-! ## (5) request target and arguments: `process_request_target`, `MHD_parse_arguments_`,
   `MHD_unescape_plus`, the strict / lenient in-place percent decoders

  The reference decoding of a raw request target `t` (a byte string) is
  * path  = the bytes before the first '?' (all of `t` if there is none), percent-decoded;
  * query = the bytes after the first '?', split at every '&' (a trailing '&' adds nothing,
    an empty segment is an argument with empty name and no value); each segment split at
    its first '=' into name and value (no '=': the argument has **no value**); name and value
    '+' → space first, then percent-decoded.
  Percent-decoding is `TGT.decS` (strict: `%` must be followed by two hex digits, otherwise the
  string is truncated to the empty string, as `MHD_str_pct_decode_in_place_strict_` documents)
  at levels ≥ 0 and `TGT.decL` (lenient: a `%` that does not start a valid escape stands for
  itself) below; the theorems hold for either decoder with any flag (`strict : Bool`). -/

/-- reference: the decoded path of a raw request target -/
abbrev refPath (strict : Bool) (t : List UInt8) : List UInt8 := TGT.decView strict (TGT.pathOf t)

/-- reference: the (name, value-or-none) list of a raw request target -/
abbrev refArgs (strict : Bool) (t : List UInt8) : List (List UInt8 × Option (List UInt8)) :=
  TGT.specArgs (TGT.argView strict) (TGT.queryOf t)

/-- **`MHD_parse_arguments_` never faults** and never writes outside the string: for every
    buffer with a NUL at some index `hi ≥ args` — nothing else is assumed about the bytes
    (stray or truncated escapes, any number of '&' / '=') — every decoder, every element list
    so far.  The buffer keeps its size, bytes outside `[args, hi]` are unchanged, the new
    elements have the requested kind and their strings lie inside `[args, hi)`. -/
theorem args_no_fault (strict : Bool) (kind : Nat) (buf : Bytes) (args hi : Nat) (acc : List Elem) (fuel : Nat)
    (h1 : args ≤ hi) (h2 : hi < buf.size) (h0 : buf[hi]? = some 0) (hf : hi - args < fuel) :
    ∃ buf' els, parseArgs strict kind fuel buf args acc = .ok (buf', acc ++ els) ∧ buf'.size = buf.size ∧
      (∀ j, j < args ∨ hi < j → buf'[j]? = buf[j]?) ∧ ∀ el ∈ els, HSP.ElemIn el args hi ∧ el.kind = kind :=
  TGT.parseArgs_no_fault strict kind buf args hi acc h1 h2 h0 fuel hf

/-- **`process_request_target` never faults** and never writes outside the target: for every
    request-line record whose target `[tgt, tgt + tgtLen)` is followed by a NUL inside the
    buffer and whose recorded '?' position (if any) lies inside the target.  Nothing is
    assumed about the bytes of the target (interior NUL, stray '%', …).  All strings handed
    to the application (decoded URL, argument names and values) lie inside the target, hence
    below the version string. -/
theorem target_no_fault (strict : Bool) (r : ReqLine) (hlen : r.tgt + r.tgtLen < r.buf.size)
    (hnul : r.buf[r.tgt + r.tgtLen]? = some 0)
    (hq : ∀ q, r.qmark = some q → r.tgt ≤ q ∧ q < r.tgt + r.tgtLen) :
    ∃ T, processRequestTarget strict r = .ok T ∧ T.buf.size = r.buf.size ∧
      (∀ j, j < r.tgt ∨ r.tgt + r.tgtLen < j → T.buf[j]? = r.buf[j]?) ∧ T.url = r.tgt ∧ T.urlLen ≤ r.tgtLen ∧
      (∀ el ∈ T.elems, HSP.ElemIn el r.tgt (r.tgt + r.tgtLen) ∧ el.kind = Mhd.Gen.Http.kindGetArgument) ∧
      T.rb = r.rb ∧ T.method = r.method ∧ T.version = r.version :=
  TGT.processRequestTarget_no_fault strict r hlen hnul hq

/-- **Exact decoding of every request target.**  For every request-line record whose target
    is the C string `t` (no interior NUL — the line parser refuses NUL — with the first '?'
    recorded, `TGT.TargetWF`): the URI logger is shown `t` itself, the URL handed to the
    application is the reference path, and the argument elements are the reference argument
    list — in order, with multiplicity, name-only arguments with `value = NULL`. -/
theorem target_decoding_exact (strict : Bool) (r : ReqLine) (t : List UInt8) (h : TGT.TargetWF r t) :
    ∃ T, processRequestTarget strict r = .ok T ∧ T.rawTarget = t ∧
      sliceBytes T.buf ⟨0, T.url, T.urlLen⟩ = refPath strict t ∧
      T.elems.map (HSP.elemView T.buf) = (refArgs strict t).map (fun kv => (Mhd.Gen.Http.kindGetArgument, kv.1, kv.2)) := by
  obtain ⟨T, h1, h2, _, h4, _, h6, _⟩ := TGT.processRequestTarget_spec strict r t h
  exact ⟨T, h1, h2, h4, h6⟩

/-- **decode (render x) = x.**  `TGT.TargetR` is a rendering of a semantic (path, argument
    list): per byte the choice literal / `%HL` with either hex-digit case / '+' for a space in
    arguments, and the choice of a trailing '&'.  `TGT.TargetR.ok` (a decidable `Bool`) is the
    encoder's side condition: literals are request-line characters other than the delimiters
    of their position ('%', and '?' in the path; '%' '+' '&' '=' in names; '%' '+' '&' in values),
    non-empty path, trailing '&' present after an empty last argument and absent without
    arguments.  For every admissible rendering the reference decoding — hence by
    `target_decoding_exact` the code — gives back exactly the path and the arguments. -/
theorem target_render_decode (strict : Bool) (R : TGT.TargetR) (h : R.ok = true) :
    refPath strict R.render = R.semPath ∧ refArgs strict R.render = R.semArgs :=
  TGT.target_decode_render strict R h

/-- **Every semantic request target has an admissible rendering**: the round trips
    (`target_render_decode`, `reqline_target_roundtrip_partial`) quantify over renderings; this
    says they reach every non-empty path and every argument list of arbitrary bytes (NUL, '&',
    '=', '%', ≥ 0x80 … included; name-only and empty-named arguments included). -/
theorem every_target_has_rendering (path : List UInt8) (hp : path ≠ []) (args : List (List UInt8 × Option (List UInt8))) :
    ∃ R : TGT.TargetR, R.ok = true ∧ R.semPath = path ∧ R.semArgs = args :=
  TGT.exists_rendering path hp args

/-- **Round trip of the request line including target decoding** — level ≥ 0, **every rendering
    of the request line the level admits**, **any segmentation**, **any admissible rendering `R`
    of the target**:
    `els` empty lines first (each `CR LF` or, where admitted, a bare `LF`; their number within the
    level's limit: `RLP.SkipOK`), separators `w1`, `w2` any byte the level treats as whitespace
    (SP; HT at level 0), the line end `CR LF` or (level 0) a bare `LF` (`RLP.LineEnd`).
    `get_request_line` succeeds; the application is given the method, the path `R.semPath`, the
    arguments `R.semArgs` (in order, with multiplicity, name-only arguments without value) and
    the version; the URI logger sees the target as sent; exactly the bytes up to the line end are
    consumed.  Holds for both decoders (`strict` arbitrary, in particular
    `Mhd.Gen.Discipline.unesc_strict lvl`) and any pool size.
    Missing for the full statement: levels < 0 (merged whitespace blocks, whitespace kept in
    the URI, bare CR) — by correspondence only. -/
theorem reqline_target_roundtrip_partial (lvl : Int) (hl : 0 ≤ lvl) (strict : Bool) (pool : Nat) (buf : Bytes) (rb : Nat)
    (chunks : List Bytes) (els : List (List UInt8)) (m v eol : List UInt8) (w1 w2 : UInt8) (R : TGT.TargetR) (hv : Int)
    (hrb : rb ≤ buf.size) (hels : ∀ e ∈ els, RLP.LineEnd (RLFlags.ofLevel lvl) e)
    (hk : RLP.SkipOK (RLFlags.ofLevel lvl) els.length)
    (hw1 : rlIsWsp (RLFlags.ofLevel lvl) w1 = true) (hw2 : rlIsWsp (RLFlags.ofLevel lvl) w2 = true)
    (heol : RLP.LineEnd (RLFlags.ofLevel lvl) eol) (hm0 : m ≠ [])
    (hm : ∀ c ∈ m, TokenChar c ∧ c ≠ 63) (hR : R.ok = true) (hvl : v.length = 8)
    (hvc : ∀ c ∈ v, TokenChar c ∧ c ≠ 63) (hpv : parseHttpVersion v = .ok hv)
    (hbuf : RLP.BufIs (buf ++ Scanner.flatten chunks) rb
      (els.flatten ++ (m ++ [w1] ++ R.render ++ ([w2] ++ v ++ eol)))) :
    let sc := rlScanner (RLFlags.ofLevel lvl)
    ∃ T, getRequestLineOuter (RLFlags.ofLevel lvl) strict pool (sc.feedAll (sc.run (RL.init buf rb)) chunks) = .ok T ∧
      T.rawTarget = R.render ∧
      sliceBytes T.buf ⟨0, T.url, T.urlLen⟩ = R.semPath ∧
      T.elems.map (HSP.elemView T.buf) = R.semArgs.map (fun kv => (Mhd.Gen.Http.kindGetArgument, kv.1, kv.2)) ∧
      RLP.BufIs T.buf T.method (m ++ [0]) ∧ T.methodLen = m.length ∧ T.mthd = stdMethodOf m ∧
      RLP.BufIs T.buf T.version (v ++ [0]) ∧ T.httpVer = hv ∧
      T.rb = rb + els.flatten.length + m.length + R.render.length + 10 + eol.length := by
  intro sc
  have hB : (RLFlags.ofLevel lvl).wspBlocks = false := by
    simp only [RLFlags.ofLevel, Mhd.Gen.Discipline.rl_wsp_blocks, decide_eq_false_iff_not]; omega
  have hrb' : rb ≤ (buf ++ Scanner.flatten chunks).size := by rw [Array.size_append]; omega
  rw [reqline_split_independent lvl buf rb hrb chunks]
  exact TGT.reqline_target_roundtrip_nc (RLFlags.ofLevel lvl) hB strict pool _ rb els m v eol w1 w2 R hv hrb' hels hk
    hw1 hw2 heol hm0 hm hR hvl hvc hpv hbuf

/-- **Round trip of the request line including target decoding at every level** (−3 … 3 and
    beyond), any segmentation, any admissible rendering `R` of the target: `els` empty lines
    (each CRLF or, where admitted, bare LF; number within the level's limit), the separators
    `ws1`, `ws2` non-empty blocks of bytes the level treats as whitespace (SP; HT at levels ≤ 0;
    VT, FF at levels ≤ −1) — of length one at levels ≥ 0, where blocks are not merged —, line end
    CRLF or (levels ≤ 0) bare LF.  `get_request_line` succeeds and the application is given the
    method, the path, the arguments (in order, with multiplicity, name-only arguments without
    value) and the version; the URI logger sees the target as sent; exactly the line is consumed.
    Still missing for the full statement (correspondence only): at levels < 0 the renderings
    with whitespace *inside* the target (kept at levels ≤ −2) and with a bare CR in the line
    (treated as a space at −1, −2, kept at −3). -/
theorem reqline_target_roundtrip_all_levels_partial (lvl : Int) (strict : Bool) (pool : Nat) (buf : Bytes) (rb : Nat)
    (chunks : List Bytes) (els : List (List UInt8)) (m v eol ws1 ws2 : List UInt8) (R : TGT.TargetR) (hv : Int)
    (hrb : rb ≤ buf.size) (hels : ∀ e ∈ els, RLP.LineEnd (RLFlags.ofLevel lvl) e)
    (hk : RLP.SkipOK (RLFlags.ofLevel lvl) els.length)
    (hws1 : ws1 ≠ [] ∧ ∀ w ∈ ws1, rlIsWsp (RLFlags.ofLevel lvl) w = true)
    (hws2 : ws2 ≠ [] ∧ ∀ w ∈ ws2, rlIsWsp (RLFlags.ofLevel lvl) w = true)
    (hsingle : 0 ≤ lvl → ws1.length = 1 ∧ ws2.length = 1)
    (heol : RLP.LineEnd (RLFlags.ofLevel lvl) eol) (hm0 : m ≠ [])
    (hm : ∀ c ∈ m, TokenChar c ∧ c ≠ 63) (hR : R.ok = true) (hvl : v.length = 8)
    (hvc : ∀ c ∈ v, TokenChar c ∧ c ≠ 63) (hpv : parseHttpVersion v = .ok hv)
    (hbuf : RLP.BufIs (buf ++ Scanner.flatten chunks) rb
      (els.flatten ++ (m ++ ws1 ++ R.render ++ (ws2 ++ v ++ eol)))) :
    let sc := rlScanner (RLFlags.ofLevel lvl)
    ∃ T, getRequestLineOuter (RLFlags.ofLevel lvl) strict pool (sc.feedAll (sc.run (RL.init buf rb)) chunks) = .ok T ∧
      T.rawTarget = R.render ∧
      sliceBytes T.buf ⟨0, T.url, T.urlLen⟩ = R.semPath ∧
      T.elems.map (HSP.elemView T.buf) = R.semArgs.map (fun kv => (Mhd.Gen.Http.kindGetArgument, kv.1, kv.2)) ∧
      RLP.BufIs T.buf T.method (m ++ [0]) ∧ T.methodLen = m.length ∧ T.mthd = stdMethodOf m ∧
      RLP.BufIs T.buf T.version (v ++ [0]) ∧ T.httpVer = hv ∧
      T.rb = rb + els.flatten.length + m.length + ws1.length + R.render.length + ws2.length + 8 + eol.length := by
  intro sc
  by_cases hl : 0 ≤ lvl
  · obtain ⟨l1, l2⟩ := hsingle hl
    obtain ⟨w1, rfl⟩ := List.length_eq_one_iff.mp l1
    obtain ⟨w2, rfl⟩ := List.length_eq_one_iff.mp l2
    obtain ⟨T, h1, h2, h3, h4, h5, h6, h7, h8, h9, h10⟩ := reqline_target_roundtrip_partial lvl hl strict pool buf rb chunks
      els m v eol w1 w2 R hv hrb hels hk (hws1.2 w1 (by simp)) (hws2.2 w2 (by simp)) heol hm0 hm hR hvl hvc hpv hbuf
    exact ⟨T, h1, h2, h3, h4, h5, h6, h7, h8, h9, by rw [h10]; simp only [List.length_cons, List.length_nil]; omega⟩
  · have hB : (RLFlags.ofLevel lvl).wspBlocks = true := by
      simp only [RLFlags.ofLevel, Mhd.Gen.Discipline.rl_wsp_blocks, decide_eq_true_eq]; omega
    have hU : (RLFlags.ofLevel lvl).wspInUri = true := by
      simp only [RLFlags.ofLevel, Mhd.Gen.Discipline.rl_wsp_in_uri, decide_eq_true_eq]; omega
    have hrb' : rb ≤ (buf ++ Scanner.flatten chunks).size := by rw [Array.size_append]; omega
    obtain ⟨ht0, ht⟩ := TGT.TargetR.render_bytes hR
    rw [reqline_split_independent lvl buf rb hrb chunks]
    obtain ⟨r, hr, ok⟩ := RLP.reqline_roundtrip_blk (RLFlags.ofLevel lvl) hB hU _ rb els m R.render v eol ws1 ws2 hv hrb'
      hels hk hws1 hws2 heol hm0 ht0 hm ht hvl hvc hpv hbuf
    have a1 : 1 ≤ ws1.length := by
      cases ws1 with
      | nil => exact absurd rfl hws1.1
      | cons _ _ => simp
    have a2 : 1 ≤ ws2.length := by
      cases ws2 with
      | nil => exact absurd rfl hws2.1
      | cons _ _ => simp
    rw [hr]
    obtain ⟨T, h1, h2, h3, h4, h5, h6, h7, h8, h9, h10⟩ := TGT.target_after_line (RLFlags.ofLevel lvl) strict pool r R m v hR
      ok.numWs ok.vTgt ok.tgtLen ok.qmark ok.vMethod ok.vVersion (by rw [ok.method, ok.tgt]; omega)
      (by rw [ok.tgt, ok.version]; omega)
    exact ⟨T, h1, h2, h3, h4, h5, by rw [h6, ok.methodLen], by rw [h7, ok.mthd], h8, by rw [h9, ok.httpVer],
      by rw [h10, ok.rb]⟩

/-- the raw request line (no target decoding) in **every rendering admitted at level ≥ 0**
    (see `reqline_target_roundtrip_partial` for the renderings): the three strings read back
    NUL-terminated as sent, the first '?' is recorded, `skipped` counts the empty lines. -/
theorem reqline_roundtrip_nc_partial (lvl : Int) (hl : 0 ≤ lvl) (buf : Bytes) (rb : Nat) (chunks : List Bytes)
    (els : List (List UInt8)) (m t v eol : List UInt8) (w1 w2 : UInt8) (hv : Int) (hrb : rb ≤ buf.size)
    (hels : ∀ e ∈ els, RLP.LineEnd (RLFlags.ofLevel lvl) e) (hk : RLP.SkipOK (RLFlags.ofLevel lvl) els.length)
    (hw1 : rlIsWsp (RLFlags.ofLevel lvl) w1 = true) (hw2 : rlIsWsp (RLFlags.ofLevel lvl) w2 = true)
    (heol : RLP.LineEnd (RLFlags.ofLevel lvl) eol) (hm0 : m ≠ []) (ht0 : t ≠ [])
    (hm : ∀ c ∈ m, TokenChar c ∧ c ≠ 63) (ht : ∀ c ∈ t, TokenChar c) (hvl : v.length = 8)
    (hvc : ∀ c ∈ v, TokenChar c ∧ c ≠ 63) (hpv : parseHttpVersion v = .ok hv)
    (hbuf : RLP.BufIs (buf ++ Scanner.flatten chunks) rb (els.flatten ++ (m ++ [w1] ++ t ++ ([w2] ++ v ++ eol)))) :
    let sc := rlScanner (RLFlags.ofLevel lvl)
    ∃ r, sc.feedAll (sc.run (RL.init buf rb)) chunks = .done (.ok r) ∧
      RLP.LineNC r (buf ++ Scanner.flatten chunks) (rb + els.flatten.length) m t v hv els.length eol.length := by
  intro sc
  have hB : (RLFlags.ofLevel lvl).wspBlocks = false := by
    simp only [RLFlags.ofLevel, Mhd.Gen.Discipline.rl_wsp_blocks, decide_eq_false_iff_not]; omega
  have hrb' : rb ≤ (buf ++ Scanner.flatten chunks).size := by rw [Array.size_append]; omega
  rw [reqline_split_independent lvl buf rb hrb chunks]
  exact RLP.reqline_roundtrip_nc (RLFlags.ofLevel lvl) hB _ rb els m t v eol w1 w2 hv hrb' hels hk hw1 hw2 heol hm0 ht0
    hm ht hvl hvc hpv hbuf

/-! ## (6) what the line parser hands over; `get_request_line` as a whole -/

/-- **Every successfully parsed request line is well-shaped** — every combination of flags
    (hence every level), every buffer, every segmentation, every input: the target
    `[tgt, tgt + tgtLen)` lies between the method and the version string, is followed by a NUL,
    the recorded '?' lies inside the target, the version string with its NUL ends before
    `read_buffer`, which is inside the buffer. -/
theorem reqline_post (F : RLFlags) (buf : Bytes) (rb : Nat) (h : rb ≤ buf.size) (chunks : List Bytes) (r : ReqLine)
    (hr : (rlScanner F).feedAll ((rlScanner F).run (RL.init buf rb)) chunks = .done (.ok r)) : RLPost r := by
  rw [Scanner.feedAll_flatten (rlLaws F) chunks _ (RLInv.init buf rb h)] at hr
  exact (rl_run_done F ((RLInvX.init F buf rb h).ext _) hr).1

/-- **`get_request_line` never faults** (inner scanner, whitespace check and
    `process_request_target` with `MHD_parse_arguments_` and the decoders together): every
    combination of flags, either decoder, every pool size, every buffer, every segmentation,
    every input. -/
theorem get_request_line_no_fault (F : RLFlags) (strict : Bool) (pool : Nat) (buf : Bytes) (rb : Nat) (h : rb ≤ buf.size)
    (chunks : List Bytes) (f : Fault) :
    getRequestLineOuter F strict pool ((rlScanner F).feedAll ((rlScanner F).run (RL.init buf rb)) chunks) ≠ .fault f := by
  cases hr : (rlScanner F).feedAll ((rlScanner F).run (RL.init buf rb)) chunks with
  | more s => simp only [getRequestLineOuter]; split <;> (intro h'; cases h')
  | fault f' => exact absurd hr (reqline_no_fault_flags F _ (RLInv.init buf rb h) chunks f')
  | done d =>
    cases d with
    | err e => intro h'; cases h'
    | ok r =>
      have post := reqline_post F buf rb h chunks r hr
      have hv : Mhd.Gen.Discipline.httpVerLen = 8 := rfl
      obtain ⟨T, hT, _⟩ := TGT.processRequestTarget_no_fault strict r
        (by have := post.htl; have := post.hv; have := post.hrb; omega) post.hnul post.hq
      simp only [getRequestLineOuter, hT]
      cases lineWspCheck F pool r <;> (intro h'; cases h')

/-- **`process_request_target` does not depend on what has been received behind the request
    line**: success on `r.buf` gives the identical record on `r.buf ++ e` (same URL, same
    argument slices, same raw target), the result buffer being the old one followed by `e`
    untouched — although the loop fuel of the model is a function of the buffer size. -/
theorem target_buffer_extension (strict : Bool) (r : ReqLine) (e : Bytes) (T : Target)
    (h : processRequestTarget strict r = .ok T) :
    processRequestTarget strict { r with buf := r.buf ++ e } = .ok { T with buf := T.buf ++ e } :=
  TGT.processRequestTarget_buffer_extension strict r e T h

/-! ## (7) cookies: `parse_cookies_string`, `parse_cookie_header` -/

/-- **`parse_cookies_string` never faults**: every flag combination, every byte array with the
    end position `n` inside it (nothing assumed about the bytes — quotes, separators,
    whitespace anywhere, not even the terminating NUL), every start index; the loop terminates
    within the fuel `parse_cookie_header` gives it, the in-place NUL writes stay inside. -/
theorem cookie_string_no_fault (F : CKFlags) (n fuel : Nat) (str : Bytes) (i : Nat) (ns : Bool) (acc : List Elem)
    (hn : n < str.size) (hf : n - i + 1 ≤ fuel) :
    ∃ out, parseCookiesString F n fuel str i ns acc = .ok out ∧ out.str.size = str.size :=
  CK.parseCookiesString_no_fault F n fuel str i ns acc hn hf

/-- **`parse_cookie_header` never faults**: every level (every flag combination), every
    buffer, every element list whose value strings lie inside the buffer (true for every
    list the field-line parser produces) — whatever the `Cookie` field contains. -/
theorem cookie_no_fault (F : CKFlags) (buf : Bytes) (elems : List Elem)
    (h : ∀ e ∈ elems, ∀ v, e.value = some v → v.off + v.len ≤ buf.size) :
    ∃ c, parseCookieHeader F buf elems = .ok c :=
  CK.parseCookieHeader_ok_of_inBounds F buf elems h

/-- **Cookies: the application sees exactly the cookies sent** — every level (every flag
    combination), the canonical rendering `n1=v1; n2=v2; …` with each value optionally in
    double quotes (`CK.render`; names non-empty without `= SP HT " , ; NUL`, values without
    `; " , \ SP HT NUL`: `CK.CookieSpec.Valid`): `parse_cookies_string` returns the strict
    result `ok` and exactly one element per cookie, in order, with multiplicity, kind cookie,
    whose name and value read back NUL-terminated from the pool copy (an empty value is the
    static empty string) — `CK.CookiesAre`.
    Missing for the full statement (correspondence only): the non-canonical renderings admitted
    at levels ≤ 0 (no space or a tab after ';', empty cookies `;;`, whitespace around '=' and
    inside quoted values, leading/trailing whitespace), which give `okLax`, and the exact
    characterisation of the refused strings. -/
theorem cookies_roundtrip_partial (F : CKFlags) (cs : List CK.CookieSpec) (hval : ∀ c ∈ cs, c.Valid)
    (fuel : Nat) (hf : (CK.render cs).length + 1 ≤ fuel) :
    ∃ out, parseCookiesString F (CK.render cs).length fuel (CK.render cs ++ [0]).toArray 0 false [] = .ok out ∧
      out.res = .ok ∧ out.str.size = (CK.render cs).length + 1 ∧ CK.CookiesAre out.str out.elems cs :=
  CK.cookies_roundtrip F cs hval fuel hf

/-- the same through `parse_cookie_header`: the first `Cookie` field of the element list
    holds the rendering; the cookie elements are appended to the list, result `ok` -/
theorem cookie_header_roundtrip_partial (F : CKFlags) (buf : Bytes) (elems : List Elem) (e : Elem) (v : Slice)
    (cs : List CK.CookieSpec) (hval : ∀ c ∈ cs, c.Valid)
    (hl : lookupElem buf elems Mhd.Gen.Http.kindHeader Mhd.Gen.Http.hdrCookieBytes = some e) (hv : e.value = some v)
    (hr : rdRange buf v.off v.len = some (CK.render cs)) :
    ∃ cpy els, parseCookieHeader F buf elems = .ok ⟨.ok, cpy, elems ++ els⟩ ∧ CK.CookiesAre cpy els cs :=
  CK.cookieHeader_roundtrip F buf elems e v cs hval hl hv hr

/-! ## (8) the look-up API: `MHD_lookup_connection_value_n` (and MHD's own look-ups of Cookie …) -/

/-- **The look-up returns the first element whose name is the key — exactly, never a prefix.**
    `lookupElem` (= `MHD_lookup_connection_value_n` for a non-NULL key) answers `e` iff `e` is
    of one of the requested kinds, its name has the **same length** as the key and equals it
    ignoring ASCII case (`NameMatches`), and no earlier element of the list does; it answers
    "not found" iff no element matches.  (An element whose name merely starts with the key, or
    of which the key is an extension, is never returned.) -/
theorem lookup_exact (buf : Bytes) (elems : List Elem) (kind : Nat) (key : List UInt8) :
    (∀ e, lookupElem buf elems kind key = some e ↔
      NameMatches buf kind key e ∧ ∃ pre post, elems = pre ++ e :: post ∧ ∀ x ∈ pre, ¬ NameMatches buf kind key x) ∧
    (lookupElem buf elems kind key = none ↔ ∀ x ∈ elems, ¬ NameMatches buf kind key x) :=
  ⟨lookupElem_some buf elems kind key, lookupElem_none buf elems kind key⟩

/-- cookies come from a field named exactly `Cookie` only: without such a field (e.g. only
    `Cookie2: …`) `parse_cookie_header` adds nothing -/
theorem cookies_only_from_cookie_field (F : CKFlags) (buf : Bytes) (elems : List Elem)
    (h : ∀ x ∈ elems, ¬ NameMatches buf Mhd.Gen.Http.kindHeader Mhd.Gen.Http.hdrCookieBytes x) :
    parseCookieHeader F buf elems = .ok ⟨.ok, #[], elems⟩ := by
  unfold parseCookieHeader
  rw [(lookupElem_none buf elems _ _).mpr h]
  rfl

/-! ## non-vacuity: the hypotheses are satisfiable by concrete, non-trivial values
   (byte arrays written out: `decide` evaluates the model in the kernel) -/

/-- a request line arriving in three pieces at level 0 ("GET /a?", "x=1 HT", "TP/1.1\r\nHost: h\r\n"):
    parsed with method at 0, target at 4 (6 bytes, '?' at 6), version at 11, line consumed up to 21.
    (`decide +kernel`: the model is evaluated by the kernel — a test of the example, not a proof step
    of any theorem) -/
example :
    (match (rlScanner (RLFlags.ofLevel 0)).feedAll ((rlScanner (RLFlags.ofLevel 0)).run (RL.init #[] 0))
        [#[71, 69, 84, 32, 47, 97, 63], #[120, 61, 49, 32, 72, 84], #[84, 80, 47, 49, 46, 49, 13, 10, 72, 111, 115, 116, 58, 32, 104, 13, 10]] with
     | .done (.ok r) => some (r.method, r.tgt, r.tgtLen, r.qmark, r.version, r.rb)
     | _ => none) = some (0, 4, 6, some 6, 11, 21) := by decide +kernel

/-- the state after the request line `GET /?a HTTP/1.0`: it satisfies both invariants; the
    read buffer is small (30 < 1500), so the header tail is re-used when the header ends -/
def exHS : HS :=
  { buf := #[71, 69, 84, 0, 47, 0, 97, 0, 72, 84, 84, 80, 47, 49, 46, 48, 0, 10], rb := 18, rbSize := 30,
    elems := [⟨8, ⟨0, 6, 1⟩, none⟩], method := 0, version := 8 }

example : HSP.Inv exHS :=
  field_inv_start _ 18 30 0 8 _ (by decide) (by decide) (by intro el hm; simp at hm; subst hm; decide)

example : HSP.Inv2 exHS :=
  field_inv2_start _ 18 30 0 8 _ (by intro el hm; simp at hm; subst hm; decide)
    (by intro el hm sl hsl _; simp at hm; subst hm; simp [HSP.Elem.slices] at hsl; subst hsl; decide)

/-- the header section "A: b\r\n\r\nXY" arriving as "A: ", "b\r", "\n\r\nXY": one element is appended,
    `read_buffer` ends at 23 (moved back by 3), `header_size` = 26 -/
example :
    (match (hsScanner (FLFlags.ofLevel 0) 18).feedAll ((hsScanner (FLFlags.ofLevel 0) 18).run exHS)
        [#[65, 58, 32], #[98, 13], #[10, 13, 10, 88, 89]] with
     | .done (.ok h) => (h.rb, h.shifted, h.headerSize) == (23, 3, 26) &&
                        (h.elems.map (HSP.elemView h.buf)).drop 1 == [(1, [65], some [98])]
     | _ => false) = true := by decide +kernel

/-- a well-formed field with interior whitespace: `Ab: x y` -/
example : HSP.FieldWF ([65, 98], [120, 32, 121]) := by
  refine ⟨by decide, ?_, ?_, ?_, ?_⟩
  · intro c hc; simp at hc; rcases hc with rfl | rfl <;> (unfold HSP.plain; decide)
  · intro c hc; simp at hc; rcases hc with rfl | rfl | rfl <;> first | (left; unfold HSP.plain; decide) | (right; left; decide)
  · intro c hc; simp at hc; subst hc; unfold HSP.plain; decide
  · intro hne; simp [cSP, cHT]


/-- the hypotheses of `reqline_roundtrip_partial` for `GET /a?x HTTP/1.1` -/
example : parseHttpVersion [72, 84, 84, 80, 47, 49, 46, 49] = .ok Mhd.Gen.Http.ver11 := by rfl

example : (∀ c ∈ [71, 69, 84], TokenChar c ∧ c ≠ 63) ∧ (∀ c ∈ [47, 97, 63, 120], TokenChar c) ∧
    RLP.firstQ [47, 97, 63, 120] = some 2 := by
  refine ⟨?_, ?_, by decide⟩
  · intro c hc; simp at hc; rcases hc with rfl | rfl | rfl <;> (unfold TokenChar RLP.rplain; decide)
  · intro c hc; simp at hc; rcases hc with rfl | rfl | rfl | rfl <;> (unfold TokenChar RLP.rplain; decide)

/-- an admissible rendering with every kind of choice: path `/a%20+%C3`, arguments
    `x=1+%2b=`, `%79` (no value), `=` (empty name, empty value), `` (empty name, no value; needs
    the trailing '&'):  "/a%20+%C3?x=1+%2b=&%79&=&&" -/
def exR : TGT.TargetR :=
  { path := [.lit 47, .lit 97, .esc 2 0 false true, .lit 43, .esc 12 3 true false],
    query := some ([⟨[.lit 120], some [.lit 49, .plus, .esc 2 11 false false, .lit 61]⟩, ⟨[.esc 7 9 true true], none⟩,
                    ⟨[], some []⟩, ⟨[], none⟩], true) }

example : exR.ok = true ∧
    exR.render = [47, 97, 37, 50, 48, 43, 37, 67, 51, 63, 120, 61, 49, 43, 37, 50, 98, 61, 38, 37, 55, 57, 38, 61, 38, 38] ∧
    exR.semPath = [47, 97, 32, 43, 195] ∧
    exR.semArgs = [([120], some [49, 32, 43, 61]), ([121], none), ([], some []), ([], none)] := by decide

/-- the whole way on concrete bytes: "GET /a%20+%C3?x=1+%2b=&%79&=&& HTTP/1.1\r\n" in two pieces at
    level 1 (strict decoder) and level 0 (lenient decoder): decoded URL and arguments as `exR` says
    (`decide +kernel` evaluates the model: a test of the example, not a proof step) -/
example : ∀ lvl ∈ [(0 : Int), 1],
    (match getRequestLineOuter (RLFlags.ofLevel lvl) (Mhd.Gen.Discipline.unesc_strict lvl) 1500
        ((rlScanner (RLFlags.ofLevel lvl)).feedAll ((rlScanner (RLFlags.ofLevel lvl)).run (RL.init #[] 0))
          [#[71, 69, 84, 32, 47, 97, 37, 50, 48, 43, 37, 67, 51, 63, 120, 61, 49, 43, 37],
           #[50, 98, 61, 38, 37, 55, 57, 38, 61, 38, 38, 32, 72, 84, 84, 80, 47, 49, 46, 49, 13, 10]]) with
     | .ok T => (sliceBytes T.buf ⟨0, T.url, T.urlLen⟩, T.elems.map (HSP.elemView T.buf)) ==
         (exR.semPath, exR.semArgs.map (fun kv => (Mhd.Gen.Http.kindGetArgument, kv.1, kv.2)))
     | _ => false) = true := by decide +kernel

/-- a target the hypotheses of `target_no_fault` allow although it is no proper rendering
    (interior NUL, truncated escape, '?' recorded at the second '?'): no fault, the URL is
    cut at the NUL -/
def exOdd : ReqLine :=
  { buf := #[71, 0, 47, 0, 63, 37, 63, 37, 52, 0, 72, 0], rb := 12, method := 0, methodLen := 1, mthd := 1, tgt := 2,
    tgtLen := 7, qmark := some 6, version := 10, httpVer := 1, numWs := 0, crSp := 0, skipped := 0 }

example :
    (match processRequestTarget true exOdd with
     | .ok T => some (T.urlLen, T.elems.length)
     | .error _ => none) = some (1, 1) := by decide +kernel


/-- the rendering side conditions of `reqline_target_roundtrip_partial` at level 0: one empty line
    ended by a bare LF, HT as separator, bare LF as line end are admitted (and 1024 empty lines
    are, 1025 are not); at level 1 only one CRLF empty line, SP, CRLF -/
example : RLP.LineEnd (RLFlags.ofLevel 0) [cLF] ∧ RLP.SkipOK (RLFlags.ofLevel 0) 1024 ∧ ¬ RLP.SkipOK (RLFlags.ofLevel 0) 1025 ∧
    rlIsWsp (RLFlags.ofLevel 0) cHT = true ∧ RLP.SkipOK (RLFlags.ofLevel 1) 1 ∧ ¬ RLP.SkipOK (RLFlags.ofLevel 1) 2 ∧
    rlIsWsp (RLFlags.ofLevel 1) cHT = false ∧ ¬ RLP.LineEnd (RLFlags.ofLevel 1) [cLF] := by decide

/-- a non-canonical line with an encoded target, evaluated: "\nGET\t/a%20b?x=+1\tHTTP/1.0\n" at level 0 -/
example :
    (match getRequestLineOuter (RLFlags.ofLevel 0) (Mhd.Gen.Discipline.unesc_strict 0) 1500
        ((rlScanner (RLFlags.ofLevel 0)).feedAll ((rlScanner (RLFlags.ofLevel 0)).run (RL.init #[] 0))
          [#[10, 71, 69, 84, 9, 47, 97, 37, 50], #[48, 98, 63, 120, 61, 43, 49, 9, 72, 84, 84, 80, 47, 49, 46, 48, 10]]) with
     | .ok T => (sliceBytes T.buf ⟨0, T.url, T.urlLen⟩, T.elems.map (HSP.elemView T.buf), T.rb) ==
         ([47, 97, 32, 98], [(Mhd.Gen.Http.kindGetArgument, [120], some [32, 49])], 26)
     | _ => false) = true := by decide +kernel

/-- `get_request_line_no_fault` on garbage: NULs, stray '%', lone CR, many '?' (level -3 keeps bare CR) -/
example : ∀ lvl ∈ [(-3 : Int), 0, 3],
    (match getRequestLineOuter (RLFlags.ofLevel lvl) (Mhd.Gen.Discipline.unesc_strict lvl) 1500
        ((rlScanner (RLFlags.ofLevel lvl)).feedAll ((rlScanner (RLFlags.ofLevel lvl)).run (RL.init #[] 0))
          [#[71, 32, 63, 37, 63, 13, 37, 52, 32, 32], #[72, 84, 84, 80, 47, 49, 46, 49, 13, 10]]) with
     | .fault _ => false
     | _ => true) = true := by decide +kernel

/-- the hypothesis of `cookie_no_fault` for a header list with one `Cookie` field whose value
    `a="b c" ;;x` is not a valid cookie string at any level: no fault, result `malformed` at level 1 -/
example :
    (match parseCookieHeader (CKFlags.ofLevel 1)
        #[67, 111, 111, 107, 105, 101, 0, 97, 61, 34, 98, 32, 99, 34, 32, 59, 59, 120, 0]
        [⟨Mhd.Gen.Http.kindHeader, ⟨0, 0, 6⟩, some ⟨0, 7, 11⟩⟩] with
     | .ok c => c.res == CKRes.malformed
     | .error _ => false) = true := by decide +kernel

/-- valid cookies: `a=b`, `c=""` (empty quoted value), `de="f g"`‑like values are excluded (space), `de="fg"` -/
example : ∀ c ∈ [CK.CookieSpec.mk [97] [98] false, ⟨[99], [], true⟩, ⟨[100, 101], [102, 103], true⟩], c.Valid := by
  unfold CK.CookieSpec.Valid; decide

example : CK.render [⟨[97], [98], false⟩, ⟨[99], [], true⟩, ⟨[100, 101], [102, 103], true⟩] =
    [97, 61, 98, 59, 32, 99, 61, 34, 34, 59, 32, 100, 101, 61, 34, 102, 103, 34] := by decide

/-- `every_target_has_rendering` on a path and arguments with NUL, '&', '=', '%' bytes -/
example : ∃ R : TGT.TargetR, R.ok = true ∧ R.semPath = [47, 0, 63, 37] ∧ R.semArgs = [([38, 61], some [0]), ([], none)] :=
  every_target_has_rendering _ (by decide) _

/-- the rendering side conditions of `reqline_target_roundtrip_all_levels_partial` at level −3: VT and FF
    are separators, any number of empty lines may precede -/
example : rlIsWsp (RLFlags.ofLevel (-3)) cVT = true ∧ rlIsWsp (RLFlags.ofLevel (-3)) cFF = true ∧
    RLP.SkipOK (RLFlags.ofLevel (-3)) 100000 ∧ RLP.LineEnd (RLFlags.ofLevel (-3)) [cLF] := by decide

/-- evaluated at level −2: "\r\n\nGET \t/a%2Fb?k\x0b HTTP/1.1\n" -/
example :
    (match getRequestLineOuter (RLFlags.ofLevel (-2)) (Mhd.Gen.Discipline.unesc_strict (-2)) 1500
        ((rlScanner (RLFlags.ofLevel (-2))).feedAll ((rlScanner (RLFlags.ofLevel (-2))).run (RL.init #[] 0))
          [#[13, 10, 10, 71, 69, 84, 32, 9, 47, 97, 37, 50, 70, 98, 63, 107, 11, 32, 72, 84, 84, 80, 47], #[49, 46, 49, 10]]) with
     | .ok T => (sliceBytes T.buf ⟨0, T.url, T.urlLen⟩, T.elems.map (HSP.elemView T.buf), T.rb) ==
         ([47, 97, 47, 98], [(Mhd.Gen.Http.kindGetArgument, [107], none)], 27)
     | _ => false) = true := by decide +kernel

/-- look-up on `Accept-Encoding: gz`, `accept: t` (buffer "Accept-Encoding\0gz\0accept\0t\0"): the key `Accept`
    finds the second element (value at 26), the keys `Accep` and `Acceptx` find nothing -/
example :
    let buf : Bytes := #[65, 99, 99, 101, 112, 116, 45, 69, 110, 99, 111, 100, 105, 110, 103, 0, 103, 122, 0, 97, 99, 99, 101, 112, 116, 0, 116, 0]
    let els : List Elem := [⟨1, ⟨0, 0, 15⟩, some ⟨0, 16, 2⟩⟩, ⟨1, ⟨0, 19, 6⟩, some ⟨0, 26, 1⟩⟩]
    (lookupElem buf els 1 [65, 99, 99, 101, 112, 116]).map (·.value) = some (some ⟨0, 26, 1⟩) ∧
    lookupElem buf els 1 [65, 99, 99, 101, 112] = none ∧ lookupElem buf els 1 [65, 99, 99, 101, 112, 116, 120] = none := by
  decide

/-- a field in a non-canonical rendering accepted at level 0: "X-A:\tva\r\n l  \n" (HT after the colon, one obs-fold,
    trailing spaces, bare LF): the application must see "va   l"; the same rendering is refused at level 1; whitespace
    before the colon is accepted at level −3 only -/
example : HSP.exFieldR.ok (FLFlags.ofLevel 0) ∧ ¬ HSP.exFieldR.ok (FLFlags.ofLevel 1) ∧
    HSP.exFieldR.semValue = [118, 97, 32, 32, 32, 108] := by decide

/-- NUL and bare CR inside a value: "A:b\0c\rd\r\n" is accepted at level −1 (both become spaces: the application sees
    "b c d") and, with the CR kept, at level −3 ("b c\rd"); refused at level 0 -/
example : HSP.exFieldCr.ok (FLFlags.ofLevel (-1)) ∧ ¬ HSP.exFieldCr.ok (FLFlags.ofLevel 0) ∧
    HSP.exFieldCr.semValue = [98, 32, 99, 32, 100] ∧ HSP.exFieldCrKeep.ok (FLFlags.ofLevel (-3)) ∧
    HSP.exFieldCrKeep.semValue = [98, 32, 99, 13, 100] := by decide

end Mhd.C02
