/-
  C02 — the application sees exactly the request the client sent.

  Statements only; the proofs are in `Mhd.Proofs.Scanner`, `Mhd.Proofs.ReqLine`,
  `Mhd.Proofs.ReqField`.  The models are `Mhd.Model.ReqLine` (get_request_line_inner),
  `Mhd.Model.ReqField` (get_req_header / get_req_headers incl. the shift-back block);
  every strictness flag comes from the regenerated `Mhd.Gen.Discipline`.

  All theorems quantify over every strictness level (in fact over every combination of
  flags), every initial buffer content, every position of the read buffer in the arena
  and every segmentation of the input (lists of chunks of any length, including empty
  chunks); there is no bound on any size.
-/
import Mhd.Proofs.ReqLine
import Mhd.Proofs.ReqField
import Mhd.Proofs.ReqStable
import Mhd.Proofs.ReqRoundtrip
import Mhd.Proofs.ReqLineRoundtrip

namespace Mhd.C02
open Mhd.Req

/-! ## (1) fault freedom -/

/-- `get_request_line_inner` never reads or writes outside the received bytes and never
    dereferences NULL: for every level, every arena prefix `buf` with the read buffer at any
    offset `rb`, and every segmentation `chunks` of whatever arrives later, feeding the
    chunks one by one (calling the parser after each) never faults. -/
theorem reqline_no_fault (lvl : Int) (buf : Bytes) (rb : Nat) (h : rb ≤ buf.size) (chunks : List Bytes)
    (f : Fault) :
    let sc := rlScanner (RLFlags.ofLevel lvl)
    sc.feedAll (sc.run (RL.init buf rb)) chunks ≠ .fault f := by
  intro sc
  rw [Scanner.feedAll_flatten (rlLaws _) chunks _ (RLInv.init buf rb h)]
  exact Scanner.run_no_fault (rlLaws _) _ ((RLInv.init buf rb h).ext _) f

/-- the same for arbitrary flag combinations (not only the seven levels) -/
theorem reqline_no_fault_flags (F : RLFlags) (s : RL) (hs : RLInv s) (chunks : List Bytes) (f : Fault) :
    (rlScanner F).feedAll ((rlScanner F).run s) chunks ≠ .fault f := by
  rw [Scanner.feedAll_flatten (rlLaws F) chunks s hs]
  exact Scanner.run_no_fault (rlLaws F) _ (hs.ext _) f

/-- `get_req_headers` (field lines, folding, in-place termination, element list and the
    shift-back block at the end of the header section) never faults: for every level, every
    state satisfying the representation invariant `HSP.Inv` (which holds after any processed
    request line, see `field_inv_after_line`) and every segmentation. -/
theorem field_no_fault (lvl : Int) (fieldStart : Nat) (s : HS) (hs : HSP.Inv s) (chunks : List Bytes) (f : Fault) :
    let sc := hsScanner (FLFlags.ofLevel lvl) fieldStart
    sc.feedAll (sc.run s) chunks ≠ .fault f := by
  intro sc
  rw [Scanner.feedAll_flatten (HSP.hsLaws _ fieldStart) chunks s hs]
  exact Scanner.run_no_fault (HSP.hsLaws _ fieldStart) _ (hs.ext _) f

/-- the invariant needed by `field_no_fault` holds in the state in which header parsing
    starts, provided the version string (8 bytes + NUL) lies before the read buffer and no
    element of the list so far is a field line (after the request line the list holds the
    query arguments only) -/
theorem field_inv_start (buf : Bytes) (rb rbSize method version : Nat) (elems : List Elem)
    (h1 : rb ≤ buf.size) (h2 : version + Mhd.Gen.Discipline.httpVerLen + 1 ≤ rb)
    (h3 : ∀ el ∈ elems, el.kind ≠ Mhd.Gen.Http.kindHeader) :
    HSP.Inv { buf := buf, rb := rb, rbSize := rbSize, elems := elems, method := method, version := version } :=
  ⟨by simpa using h1, by show 1 ≤ rb; omega, Nat.le_refl _, Nat.le_refl _,
   Nat.le_refl _, h2, fun el hm hk => absurd hk (h3 el hm)⟩

/-! ## (2) split independence -/

/-- feeding any segmentation to `get_request_line_inner` equals feeding the concatenation -/
theorem reqline_split_independent (lvl : Int) (buf : Bytes) (rb : Nat) (h : rb ≤ buf.size) (chunks : List Bytes) :
    let sc := rlScanner (RLFlags.ofLevel lvl)
    sc.feedAll (sc.run (RL.init buf rb)) chunks = sc.run (RL.init (buf ++ Scanner.flatten chunks) rb) :=
  Scanner.feedAll_flatten (rlLaws _) chunks _ (RLInv.init buf rb h)

/-- two segmentations of the same bytes: same outcome (same result, same buffer contents,
    same positions) -/
theorem reqline_any_two_segmentations (lvl : Int) (buf : Bytes) (rb : Nat) (h : rb ≤ buf.size)
    (c₁ c₂ : List Bytes) (hc : Scanner.flatten c₁ = Scanner.flatten c₂) :
    let sc := rlScanner (RLFlags.ofLevel lvl)
    sc.feedAll (sc.run (RL.init buf rb)) c₁ = sc.feedAll (sc.run (RL.init buf rb)) c₂ :=
  Scanner.feedAll_eq_of_flatten_eq (rlLaws _) _ (RLInv.init buf rb h) c₁ c₂ hc

/-- feeding any segmentation to `get_req_headers` equals feeding the concatenation -/
theorem field_split_independent (lvl : Int) (fieldStart : Nat) (s : HS) (hs : HSP.Inv s) (chunks : List Bytes) :
    let sc := hsScanner (FLFlags.ofLevel lvl) fieldStart
    sc.feedAll (sc.run s) chunks = sc.run (hsExtend s (Scanner.flatten chunks)) :=
  Scanner.feedAll_flatten (HSP.hsLaws _ fieldStart) chunks s hs

theorem field_any_two_segmentations (lvl : Int) (fieldStart : Nat) (s : HS) (hs : HSP.Inv s)
    (c₁ c₂ : List Bytes) (hc : Scanner.flatten c₁ = Scanner.flatten c₂) :
    let sc := hsScanner (FLFlags.ofLevel lvl) fieldStart
    sc.feedAll (sc.run s) c₁ = sc.feedAll (sc.run s) c₂ :=
  Scanner.feedAll_eq_of_flatten_eq (HSP.hsLaws _ fieldStart) s hs c₁ c₂ hc


/-! ## (4) stability of the strings shown to the application -/

/-- second half of the start invariant: in the state in which header parsing starts, no
    element is a field line and all strings handed out so far (the query arguments, inside
    the request target) end before the end of the version string -/
theorem field_inv2_start (buf : Bytes) (rb rbSize method version : Nat) (elems : List Elem)
    (h3 : ∀ el ∈ elems, el.kind ≠ Mhd.Gen.Http.kindHeader)
    (h4 : ∀ el ∈ elems, ∀ sl ∈ HSP.Elem.slices el, sl.region = 0 →
      sl.off + sl.len ≤ version + Mhd.Gen.Discipline.httpVerLen) :
    HSP.Inv2 { buf := buf, rb := rb, rbSize := rbSize, elems := elems, method := method, version := version } := by
  have hL : lastElemEnd ({ buf := buf, rb := rb, rbSize := rbSize, elems := elems, method := method, version := version } : HS)
      = version + Mhd.Gen.Discipline.httpVerLen := by
    unfold lastElemEnd
    dsimp only
    split
    next e he =>
      have hk := h3 e (List.mem_of_getLast? he)
      rw [if_neg (by simpa using hk)]
    next => rfl
  exact ⟨fun _ => rfl, fun _ _ => rfl, fun h => absurd rfl h, by rw [hL]; exact Nat.le_refl _,
    by rw [hL]; exact h4⟩

/-- **Strings shown to the application stay valid and unchanged** (this is what the
    shift-back defect F1 violated).  Header parsing starts in any state satisfying the
    invariants (`field_inv_start`, `field_inv2_start`: true after every request line), the
    header section arrives in *any* segmentation, parsing finishes with header set `h`.
    Then, at every level:
    * every string of every element (query arguments, field names, field values — each with
      its terminating NUL) and the HTTP version string lie strictly below `read_buffer`,
      also after the header tail has been re-used: whatever is received later (body,
      pipelined requests) is stored at or above `read_buffer` and cannot overwrite them;
    * the elements present at the start are the first elements of the final list (nothing
      dropped or reordered), and their bytes are unchanged. -/
theorem strings_stable (lvl : Int) (fieldStart : Nat) (s : HS) (hs : HSP.Inv s) (hs2 : HSP.Inv2 s)
    (chunks : List Bytes) (h : Headers)
    (hr : let sc := hsScanner (FLFlags.ofLevel lvl) fieldStart
          sc.feedAll (sc.run s) chunks = .done (.ok h)) :
    HSP.Below h s.version ∧ (∃ t, h.elems = s.elems ++ t) ∧
      (∀ i, i < s.rb → i < h.rb → h.buf[i]? = s.buf[i]?) := by
  dsimp only at hr
  rw [Scanner.feedAll_flatten (HSP.hsLaws _ fieldStart) chunks s hs] at hr
  have := HSP.run_stable (FLFlags.ofLevel lvl) fieldStart (hsExtend s (Scanner.flatten chunks))
    (hs.ext _) (hs2.ext _) h hr
  refine ⟨this.1, this.2.1, fun i h1 h2 => ?_⟩
  rw [this.2.2 i h1 h2]
  exact Array.getElem?_append_left (by have := hs.hp; omega)

/-! ## (3) round trip

  Full statement (DESIGN.md Appendix B `Req.roundtrip`): for every level, every request `r` and
  every rendering `ρ` admissible at that level, `appView (parse (render r lvl ρ)) = r`.
  Proved here, for **every segmentation**:
  * `reqline_roundtrip_partial` — the request line in its canonical rendering
    (`method SP target SP version CRLF`) at every level ≥ 0;
  * `fields_roundtrip_partial` — the header section in its canonical rendering
    (`name ": " value CRLF`) at **every** level, any number of fields.
  Missing for the full statement (carried by the correspondence run only — bounded-exhaustive
  white-box differential + the daemon engine with rendered requests and the semantic oracle):
  levels < 0 for the request line (merged whitespace blocks); the non-canonical renderings
  (HT / multiple separators, bare LF, leading empty lines, optional whitespace around field
  values, folding, bare CR / NUL replacement); percent/plus decoding of target and arguments;
  cookies. -/

/-- a request-line token character: not CR, LF, SP, HT, VT, FF, NUL -/
abbrev TokenChar := RLP.rplain

/-- **Request line: the application is given exactly the method, target and version sent.**
    Level ≥ 0, canonical rendering, any segmentation.  The bytes `m SP t SP v CRLF` (method `m`
    and version `v` of token characters without '?', target `t` of token characters, `v`
    a supported `HTTP/1.x`) arrive in any chunks at the read position `rb` of a fresh
    connection buffer.  Then the parser finishes with the request line `r`: its three strings
    read back as `m`, `t`, `v`, each NUL-terminated; the method enum is that of `m`; the
    position of the first '?' of `t` is remembered (where the arguments start); no whitespace
    is counted in the URI; exactly the line is consumed. -/
theorem reqline_roundtrip_partial (lvl : Int) (hl : 0 ≤ lvl) (buf : Bytes) (rb : Nat) (chunks : List Bytes)
    (m t v : List UInt8) (hv : Int) (hrb : rb ≤ buf.size) (hm0 : m ≠ []) (ht0 : t ≠ [])
    (hm : ∀ c ∈ m, TokenChar c ∧ c ≠ 63) (ht : ∀ c ∈ t, TokenChar c) (hvl : v.length = 8)
    (hvc : ∀ c ∈ v, TokenChar c ∧ c ≠ 63) (hpv : parseHttpVersion v = .ok hv)
    (hbuf : RLP.BufIs (buf ++ Scanner.flatten chunks) rb (m ++ [cSP] ++ t ++ ([cSP] ++ v ++ [cCR, cLF]))) :
    let sc := rlScanner (RLFlags.ofLevel lvl)
    ∃ r, sc.feedAll (sc.run (RL.init buf rb)) chunks = .done (.ok r) ∧
      RLP.BufIs r.buf r.method (m ++ [0]) ∧ RLP.BufIs r.buf r.tgt (t ++ [0]) ∧ RLP.BufIs r.buf r.version (v ++ [0]) ∧
      r.method = rb ∧ r.methodLen = m.length ∧ r.mthd = stdMethodOf m ∧ r.tgtLen = t.length ∧
      r.qmark = (RLP.firstQ t).map (r.tgt + ·) ∧ r.httpVer = hv ∧ r.numWs = 0 ∧
      r.rb = rb + (m.length + t.length + 12) := by
  intro sc
  have hB : (RLFlags.ofLevel lvl).wspBlocks = false := by
    simp only [RLFlags.ofLevel, Mhd.Gen.Discipline.rl_wsp_blocks, decide_eq_false_iff_not]; omega
  have hrb' : rb ≤ (buf ++ Scanner.flatten chunks).size := by rw [Array.size_append]; omega
  obtain ⟨r, hr, ok⟩ := RLP.reqline_roundtrip (RLFlags.ofLevel lvl) hB _ rb m t v hv hrb' hm0 ht0 hm ht hvl hvc hpv hbuf
  have vw := ok.views rfl rfl hvl hbuf
  refine ⟨r, ?_, vw.1, vw.2.1, vw.2.2, ok.e_method, ok.e_ml, ok.e_mt, ok.e_tl, ?_, ok.e_hv, ok.e_nw, ok.e_rb⟩
  · rw [reqline_split_independent lvl buf rb hrb chunks]; exact hr
  · rw [ok.e_q, ok.e_tgt]

/-- **Field lines: the application sees exactly the fields the client sent.**  For every
    level, any list of well-formed fields (`HSP.FieldWF`: non-empty name of token-like
    characters, value without CR / LF / NUL and without leading or trailing whitespace —
    interior whitespace, any other byte incl. ≥ 0x80 allowed), rendered canonically as
    `name ": " value CRLF … CRLF` at the read position of any state satisfying the
    invariants, arriving in **any segmentation**: header parsing finishes, the element list
    grows by exactly one element per field — in order, with multiplicity, nothing added,
    dropped, merged or truncated — whose name and value read back from the final buffer
    are the bytes sent; `header_size` counts exactly the bytes of the head; the unconsumed
    bytes (body / next request) follow at `read_buffer`. -/
theorem fields_roundtrip_partial (lvl : Int) (fieldStart : Nat) (fields : List HSP.Field) (s : HS) (chunks : List Bytes)
    (hs : HSP.Inv s) (hs2 : HSP.Inv2 s) (hfresh : HSP.Fresh s) (hwf : ∀ f ∈ fields, HSP.FieldWF f)
    (hbuf : HSP.BufIs (s.buf ++ Scanner.flatten chunks) s.rb (HSP.renderFields fields ++ [cCR, cLF])) :
    let sc := hsScanner (FLFlags.ofLevel lvl) fieldStart
    ∃ h : Headers, sc.feedAll (sc.run s) chunks = .done (.ok h) ∧ HSP.Below h s.version ∧
      (∃ els, h.elems = s.elems ++ els ∧
        els.map (HSP.elemView h.buf) = fields.map (fun f => (Mhd.Gen.Http.kindHeader, f.1, some f.2))) ∧
      h.headerSize = s.rb + (HSP.renderFields fields).length + 2 - s.method := by
  intro sc
  have hx := HSP.fields_roundtrip (FLFlags.ofLevel lvl) fieldStart fields (hsExtend s (Scanner.flatten chunks))
    ⟨hs.ext _, hs2.ext _⟩ ⟨hfresh.p, hfresh.f1, hfresh.f2, hfresh.f3, hfresh.f4⟩ hwf hbuf
  obtain ⟨h, h1, h2, h3, h4, _⟩ := hx
  exact ⟨h, by rw [Scanner.feedAll_flatten (HSP.hsLaws _ fieldStart) chunks s hs]; exact h1, h2, h3, h4⟩

/-! ## non-vacuity: the hypotheses are satisfiable by concrete, non-trivial values
   (byte arrays written out: `decide` evaluates the model in the kernel) -/

/-- a request line arriving in three pieces at level 0 ("GET /a?", "x=1 HT", "TP/1.1\r\nHost: h\r\n"):
    parsed with method at 0, target at 4 (6 bytes, '?' at 6), version at 11, line consumed up to 21.
    (`decide +kernel`: the model is evaluated by the kernel — a test of the example, not a proof step
    of any theorem) -/
example :
    (match (rlScanner (RLFlags.ofLevel 0)).feedAll ((rlScanner (RLFlags.ofLevel 0)).run (RL.init #[] 0))
        [#[71, 69, 84, 32, 47, 97, 63], #[120, 61, 49, 32, 72, 84], #[84, 80, 47, 49, 46, 49, 13, 10, 72, 111, 115, 116, 58, 32, 104, 13, 10]] with
     | .done (.ok r) => some (r.method, r.tgt, r.tgtLen, r.qmark, r.version, r.rb)
     | _ => none) = some (0, 4, 6, some 6, 11, 21) := by decide +kernel

/-- the state after the request line `GET /?a HTTP/1.0`: it satisfies both invariants; the
    read buffer is small (30 < 1500), so the header tail is re-used when the header ends -/
def exHS : HS :=
  { buf := #[71, 69, 84, 0, 47, 0, 97, 0, 72, 84, 84, 80, 47, 49, 46, 48, 0, 10], rb := 18, rbSize := 30,
    elems := [⟨8, ⟨0, 6, 1⟩, none⟩], method := 0, version := 8 }

example : HSP.Inv exHS :=
  field_inv_start _ 18 30 0 8 _ (by decide) (by decide) (by intro el hm; simp at hm; subst hm; decide)

example : HSP.Inv2 exHS :=
  field_inv2_start _ 18 30 0 8 _ (by intro el hm; simp at hm; subst hm; decide)
    (by intro el hm sl hsl _; simp at hm; subst hm; simp [HSP.Elem.slices] at hsl; subst hsl; decide)

/-- the header section "A: b\r\n\r\nXY" arriving as "A: ", "b\r", "\n\r\nXY": one element is appended,
    `read_buffer` ends at 23 (moved back by 3), `header_size` = 26 -/
example :
    (match (hsScanner (FLFlags.ofLevel 0) 18).feedAll ((hsScanner (FLFlags.ofLevel 0) 18).run exHS)
        [#[65, 58, 32], #[98, 13], #[10, 13, 10, 88, 89]] with
     | .done (.ok h) => (h.rb, h.shifted, h.headerSize) == (23, 3, 26) &&
                        (h.elems.map (HSP.elemView h.buf)).drop 1 == [(1, [65], some [98])]
     | _ => false) = true := by decide +kernel

/-- a well-formed field with interior whitespace: `Ab: x y` -/
example : HSP.FieldWF ([65, 98], [120, 32, 121]) := by
  refine ⟨by decide, ?_, ?_, ?_, ?_⟩
  · intro c hc; simp at hc; rcases hc with rfl | rfl <;> (unfold HSP.plain; decide)
  · intro c hc; simp at hc; rcases hc with rfl | rfl | rfl <;> first | (left; unfold HSP.plain; decide) | (right; left; decide)
  · intro c hc; simp at hc; subst hc; unfold HSP.plain; decide
  · intro hne; simp [cSP, cHT]


/-- the hypotheses of `reqline_roundtrip_partial` for `GET /a?x HTTP/1.1` -/
example : parseHttpVersion [72, 84, 84, 80, 47, 49, 46, 49] = .ok Mhd.Gen.Http.ver11 := by rfl

example : (∀ c ∈ [71, 69, 84], TokenChar c ∧ c ≠ 63) ∧ (∀ c ∈ [47, 97, 63, 120], TokenChar c) ∧
    RLP.firstQ [47, 97, 63, 120] = some 2 := by
  refine ⟨?_, ?_, by decide⟩
  · intro c hc; simp at hc; rcases hc with rfl | rfl | rfl <;> (unfold TokenChar RLP.rplain; decide)
  · intro c hc; simp at hc; rcases hc with rfl | rfl | rfl | rfl <;> (unfold TokenChar RLP.rplain; decide)

end Mhd.C02
