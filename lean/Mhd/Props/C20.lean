/-
  C20 — Protocol upgrade hands the byte stream over losslessly and cleans up once.

  Statements over the executable model `Mhd.Model.Upg` / `Mhd.Model.UpgDaemon` (non-TLS daemon,
  not thread-per-connection).  All theorems quantify over every history `ops : List Op` of the
  daemon: any number of connections, any client writes, event-loop rounds with ANY schedule
  (which connections are processed, how many bytes each recv / send moves), application actions
  on handed-over sockets, and MHD_stop_daemon at any point.  No bound on lengths or counts.

  The request-head parser and the bytes of ordinary replies are parameters (C02/C03/C04); the
  parser is only assumed prefix-stable where stated.

  The 101 head is not a fixed text: `head101` is C04's model of `build_header_response`
  (`Mhd.Reply.headSegs` after `setup_reply_properties`) applied to the response object the
  application built (`MHD_create_response_for_upgrade` + any legal sequence of
  MHD_add_response_header / MHD_del_response_header / MHD_set_response_options), see
  `head101_is_reply_builder`, `upgrade_head_connection_tokens`, `head101_explicit`.

  Thread-per-connection: the model has no thread identity; that the handle is released only after the connection's
  thread has left the upgrade handler and was joined (MHD_cleanup_connections) is covered by the tie only (gated
  upgrade handler in harness/h_upg.c, ASan), not by a theorem.

  TLS-upgraded connections: the forwarding layer (`process_urh`, the "finished forwarding" test,
  `clean_ready`, the close action, shutdown) is modelled in `Mhd.Model.UpgTls` as far as it is
  logic — buffers, fill levels, stop flags, readiness bits — with the record layer (GnuTLS) and the
  socketpair as environment: section (5), theorems `tls_*`.
-/
import Mhd.Proofs.UpgWire
import Mhd.Proofs.UpgHead101
import Mhd.Proofs.UpgTlsClose

namespace Mhd.C20
open Mhd.Upg

/-- the daemon after any history of operations (connections arriving, client bytes, event-loop
    rounds with any schedule, application actions on handed-over sockets, stop) -/
def reach (base : Cfg) (behs : Nat → Nat → Beh) (ops : List Op) : Daemon :=
  run (Daemon.init base behs) ops

/-- one connection of it -/
def connOf (base : Cfg) (behs : Nat → Nat → Beh) (ops : List Op) (c : Nat) : Conn := (reach base behs ops).conn c

theorem reach_inv (base behs ops) : DInv (reach base behs ops) :=
  dinv_run _ ops (dinv_init base behs)

theorem step_base (d : Daemon) (op : Op) : (step d op).base = d.base ∧ (step d op).behs = d.behs := by
  cases op <;> simp only [step] <;> (try split) <;> (try split) <;> simp

theorem run_base (d : Daemon) (ops : List Op) : (run d ops).base = d.base ∧ (run d ops).behs = d.behs := by
  induction ops generalizing d with
  | nil => exact ⟨rfl, rfl⟩
  | cons op ops ih =>
    have a := ih (step d op)
    have b := step_base d op
    exact ⟨a.1.trans b.1, a.2.trans b.2⟩


/-! ## (1) The byte stream is handed over losslessly -/

/-- **Conservation, for every history and every partition into reads.**  At any time the bytes the
    client has written are exactly: the request heads the parser consumed, then what was handed
    to the application (the `extra` argument of the upgrade handler followed by the application's
    own reads from the socket, in log order), then the read window, then what is still in the
    socket — nothing lost, nothing duplicated, order kept.  After the hand-over the read window is
    empty (`read_buffer_offset = 0`), so every byte after the heads is either with the application
    or still in the socket. -/
theorem lossless_handover (base : Cfg) (behs : Nat → Nat → Beh) (ops : List Op) (c : Nat) :
    (connOf base behs ops c).heads.flatten ++ handedOf (connOf base behs ops c).log ++ (connOf base behs ops c).rbuf
      ++ (connOf base behs ops c).sockIn = (connOf base behs ops c).sent ∧
    (hasUpg (connOf base behs ops c).log = true → (connOf base behs ops c).rbuf = []) := by
  have h := ((reach_inv base behs ops).conns c).ci.logi
  refine ⟨?_, h.upg_rbuf⟩
  have := h.cons
  rw [h.handed_log] at this
  exact this

/-- **The head is found at the same place whatever the split.**  For a prefix-stable parser
    (C02) and a stream that starts with the request head `head`, the first head consumed on the
    connection is `head` itself — for every history, i.e. any number of reads at any positions. -/
theorem head_found_for_every_split (base : Cfg) (behs : Nat → Nat → Beh) (ops : List Op) (c : Nat)
    (head s : Bytes) (hs : PStable base.parser) (hh : IsHead base.parser head)
    (h1 : head <+: s) (h2 : (connOf base behs ops c).sent <+: s) :
    ∀ h0, (connOf base behs ops c).heads.head? = some h0 → h0 = head := by
  have hb := run_base (Daemon.init base behs) ops
  have hd := hd_run (Daemon.init base behs) ops (dinv_init base behs) (fun k => hdI_init _) c
  have hp : ((run (Daemon.init base behs) ops).cfg c).parser = base.parser := by
    show (run (Daemon.init base behs) ops).base.parser = base.parser
    rw [hb.1]; rfl
  intro h0 hh0
  exact hd.first head s (by rw [hp]; exact hh) (by rw [hp]; exact hs) h1 h2 h0 hh0

/-- **Every byte after the head reaches the application exactly once and in order.**  When the
    upgraded request is the first one on the connection (one head consumed), then after the
    hand-over: `extra ++ (application reads) ++ (bytes still in the socket)` is exactly what the
    client sent after the head. -/
theorem following_bytes_reach_application (base : Cfg) (behs : Nat → Nat → Beh) (ops : List Op) (c : Nat)
    (head : Bytes) (hs : PStable base.parser) (hh : IsHead base.parser head) :
    head <+: (connOf base behs ops c).sent → hasUpg (connOf base behs ops c).log = true →
    (connOf base behs ops c).heads.length = 1 →
    handedOf (connOf base behs ops c).log ++ (connOf base behs ops c).sockIn
      = (connOf base behs ops c).sent.drop head.length := by
  intro h1 hu hl
  obtain ⟨hc, hr⟩ := lossless_handover base behs ops c
  generalize hxdef : connOf base behs ops c = x at *
  have hr' : x.rbuf = [] := hr hu
  cases hx : x.heads with
  | nil => rw [hx] at hl; cases hl
  | cons h0 t =>
    have ht : t = [] := by
      rw [hx] at hl; simp at hl; exact hl
    have h0e : h0 = head :=
      head_found_for_every_split base behs ops c head x.sent hs hh h1 (by rw [hxdef]; exact List.prefix_refl _) h0 (by
        rw [hxdef, hx]; rfl)
    have hc' : x.heads.flatten ++ handedOf x.log ++ x.rbuf ++ x.sockIn = x.sent := hc
    rw [hx, ht, hr', h0e] at hc'
    simp at hc'
    rw [← hc']; simp

/-- **Wire accounting.**  Everything the daemon ever sent on the socket, plus what is still in its
    write buffer, is the concatenation of the replies it built; after the hand-over the write
    buffer is empty (the 101 head was sent completely before the upgrade handler ran). -/
theorem wire_accounting (base : Cfg) (behs : Nat → Nat → Beh) (ops : List Op) (c : Nat) :
    daemonWire (connOf base behs ops c).log ++ (connOf base behs ops c).wbuf = (connOf base behs ops c).outq.flatten ∧
    (hasUpg (connOf base behs ops c).log = true → (connOf base behs ops c).wbuf = []) := by
  have h := ((reach_inv base behs ops).conns c).ci.logi
  exact ⟨h.wire, h.upg_wbuf⟩

theorem hasUpg_of_mem {rid : Nat} {extra : Bytes} {l : List Ev} (h : Ev.upgrade rid extra ∈ l) : hasUpg l = true := by
  simp only [hasUpg, List.any_eq_true]
  exact ⟨_, h, rfl⟩

/-- **The client receives exactly the 101 reply head.**  For every history: once the upgrade handler
    has been called for response `rid`, all bytes the daemon has ever written to this client are
    the replies to the earlier requests of the connection (`pre`, empty when the upgraded request
    is the first) followed by exactly `head101` of that response — complete, nothing after it
    (`no_daemon_io_after_handover` excludes later writes, so this stays true for ever).
    `head101` is the reply builder of C04 applied to the response object with whatever flags and
    headers the application gave it (`head101_is_reply_builder`); what that is, byte for byte, for
    every object an application can build: `head101_explicit`, `upgrade_head_connection_tokens`. -/
theorem wire_is_head101 (base : Cfg) (behs : Nat → Nat → Beh) (ops : List Op) (c : Nat) (rid : Nat) (extra : Bytes)
    (h : Ev.upgrade rid extra ∈ (connOf base behs ops c).log) :
    ∃ pre : List Bytes, daemonWire (connOf base behs ops c).log = pre.flatten ++ head101 base (base.resp rid) := by
  have hb := run_base (Daemon.init base behs) ops
  have hw := wi_run (Daemon.init base behs) ops (dinv_init base behs) (fun k => wi_init _) c
  have hl := ((reach_inv base behs ops).conns c).ci.logi
  obtain ⟨pre, hpre⟩ := hw.c rid (mem_upgRids_of_mem h)
  have hu := hasUpg_of_mem h
  have hwb : (connOf base behs ops c).wbuf = [] := hl.upg_wbuf hu
  have hwire : daemonWire (connOf base behs ops c).log ++ (connOf base behs ops c).wbuf
      = (connOf base behs ops c).outq.flatten := hl.wire
  have hcfg : head101 ((run (Daemon.init base behs) ops).cfg c) (((run (Daemon.init base behs) ops).cfg c).resp rid)
      = head101 base (base.resp rid) := by
    show head101 { (run (Daemon.init base behs) ops).base with beh := _ } ((run (Daemon.init base behs) ops).base.resp rid) = _
    rw [hb.1]; rfl
  refine ⟨pre, ?_⟩
  rw [hwb, List.append_nil] at hwire
  rw [hwire]
  have : (connOf base behs ops c).outq = pre ++ [head101 base (base.resp rid)] := by
    rw [← hcfg]; exact hpre
  rw [this]; simp

/-! ### what the 101 head is: the reply builder applied to the application's response object -/

open Mhd.Resp Mhd.Reply in
/-- **`head101` is `build_header_response`** (C04's model, `icy = false`, the connection as the upgrade
    path leaves it): whenever the builder does not refuse for lack of write-buffer space its output
    is `head101`, and its keep-alive decision is the one of `setup_reply_properties`. -/
theorem head101_is_reply_builder (cfg : Cfg) (rs : Mhd.Upg.Resp) (bufSize : Nat) (out : Bytes)
    (h : (buildHeaderResponse (replyConn cfg) rs.obj rs.code false (some cfg.date) bufSize).2.2 = some out) :
    out = head101 cfg rs :=
  (headBytes_is_buildHeaderResponse (replyConn cfg) rs.obj rs.code cfg.date bufSize out h).1

open Mhd.Resp Mhd.Reply in
/-- **No automatic "Connection" tokens on an upgrade reply — for all response flags and all header
    call sequences.**  Let `r` be ANY response object obtained from `MHD_create_response_for_upgrade`
    by legal API calls (`cs`: add / delete headers incl. several "Connection" values in any case and
    order, footers, `MHD_set_response_options` with any flags except the insanity flag), queued with a
    1xx status on ANY connection (any HTTP version, method, early or late reply, any "Connection" tokens
    in the request, also a connection already forced to MUST_CLOSE by the request's framing: fix F37,
    cf. `Mhd.C04.upgrade_reply_no_close`).  Then
    * `setup_reply_properties` decides MUST_UPGRADE, no body, no body headers,
    * no automatic "Connection" field is written,
    * `add_user_headers` writes exactly the application's stored headers, verbatim and in order
      (`appFields`: every header-kind entry except "Transfer-Encoding" / "Content-Length"), so the
      stored "Connection" header — which is first in the list — goes out with NOTHING prefixed
      (no `close, `, no `Keep-Alive, `),
    * no automatic "Content-Length" / "Transfer-Encoding" is written,
    * and no Connection field of the whole block carries a `close` token. -/
theorem upgrade_head_connection_tokens (cs : List Call) (hl : ∀ c ∈ cs, c.Legal) (c : Mhd.Reply.Conn)
    (code : Nat) (hc : code ≤ 199) (date : Option Bytes) :
    (setupReplyProperties c (runCalls Resp.createUpgrade cs) code) = (.mustUpgrade, ⟨false, false, false⟩) ∧
    connFields c (runCalls Resp.createUpgrade cs) .mustUpgrade = [] ∧
    userFields c (runCalls Resp.createUpgrade cs) .mustUpgrade ⟨false, false, false⟩
      = appFields (runCalls Resp.createUpgrade cs) ∧
    (∀ v rest, (runCalls Resp.createUpgrade cs).hdrs = ⟨.header, sConnection, v⟩ :: rest →
      (userFields c (runCalls Resp.createUpgrade cs) .mustUpgrade ⟨false, false, false⟩).head? = some ⟨sConnection, v⟩) ∧
    bodyHdrSegs (runCalls Resp.createUpgrade cs) ⟨false, false, false⟩ = [] ∧
    Mhd.Http.announcesClose (((allFields c (runCalls Resp.createUpgrade cs) date .mustUpgrade
        ⟨false, false, false⟩).map toHttp).map Mhd.Http.normField) = false := by
  obtain ⟨hi, ht, hu, hcc⟩ := upgradeObj_facts cs hl
  refine ⟨setup_upgrade c _ code hu hc, connFields_upgrade c _, userFields_upgrade c _ hi, ?_, by simp [bodyHdrSegs],
    Mhd.Tok.no_close_in_fields' c _ date .mustUpgrade _ hi ht hcc rfl⟩
  intro v rest hh
  rw [userFields_upgrade c _ hi]
  unfold appFields
  rw [hh]
  have : keep101 ⟨.header, sConnection, v⟩ = true := by
    simp [keep101, Mhd.Resp.nameIs_conn_te, Mhd.Resp.nameIs_conn_cl]
  simp [this, toField]

open Mhd.Resp Mhd.Reply in
/-- **The 101 head, byte for byte**, for every response object an application can build from
    `MHD_create_response_for_upgrade` (without the HTTP/1.0 flags, with which the response is refused:
    `unmet_precondition_refused` / `oneXXresp10`): the status line `HTTP/1.1 101 Switching Protocols`
    (constants regenerated independently for C20), the automatic Date unless suppressed or supplied by
    the application, then exactly the application's headers verbatim in order, then the empty line. -/
theorem head101_explicit (cfg : Cfg) (cs : List Call) (hl : ∀ c ∈ cs, c.Legal) (cih : Bool)
    (h10 : (runCalls Resp.createUpgrade cs).flags.http10Server = false) :
    head101 cfg { obj := runCalls Resp.createUpgrade cs, closeInHandler := cih, code := Mhd.Gen.Upg.switchingProtocols } =
      [72, 84, 84, 80, 47, 49, 46, 49, 32, 49, 48, 49, 32] ++ Mhd.Gen.Upg.reason101 ++ [13, 10]
        ++ ((fields101 (replyConn cfg) (runCalls Resp.createUpgrade cs) cfg.date).map fieldLine).flatten ++ [13, 10] := by
  obtain ⟨hi, _, hu, _⟩ := upgradeObj_facts cs hl
  unfold head101
  rw [headBytes_upgrade (replyConn cfg) _ _ cfg.date hi hu (by show Mhd.Gen.Upg.switchingProtocols ≤ 199; decide)]
  have e1 : versionStr (runCalls Resp.createUpgrade cs) false = [72, 84, 84, 80, 47, 49, 46, 49] := by
    simp only [versionStr, h10]; decide
  have e2 : codeDigits Mhd.Gen.Upg.switchingProtocols = [49, 48, 49] := by decide
  have e3 : reasonPhrase Mhd.Gen.Upg.switchingProtocols = Mhd.Gen.Upg.reason101 := by decide
  simp only [e1, e2, e3, Mhd.Reply.crlf]
  simp [List.append_assoc]

open Mhd.Resp Mhd.Reply in
/-- **The head does not depend on the request**: HTTP/1.1 or 1.2+, any method, reply queued at the
    first or the final handler call, request with `Connection: keep-alive, upgrade` or
    `Connection: close, upgrade`, client half-closed, connection already forced to MUST_CLOSE (request with both
    Content-Length and chunked Transfer-Encoding; fix F37) — the same bytes. -/
theorem upgrade_head_indep_of_request (cs : List Call) (hl : ∀ c ∈ cs, c.Legal) (c c' : Mhd.Reply.Conn)
    (hs : c.suppressDate = c'.suppressDate)
    (code : Nat) (hc : code ≤ 199) (date : Bytes) :
    headBytes c (runCalls Resp.createUpgrade cs) code date = headBytes c' (runCalls Resp.createUpgrade cs) code date := by
  obtain ⟨hi, _, hu, _⟩ := upgradeObj_facts cs hl
  exact headBytes_indep_of_request c c' _ code date hi hu hs hc

open Mhd.Resp Mhd.Reply in
/-- **…in particular not on the request method**: GET, HEAD, POST, PUT, DELETE, OPTIONS, CONNECT, TRACE, an unknown
    method — a 1xx reply gets no body headers whatever the method (`is_reply_body_needed` looks at the status class
    first), so a HEAD request answered with 101 receives the same head, without `Content-Length`. -/
theorem upgrade_head_any_method (cs : List Call) (hl : ∀ c ∈ cs, c.Legal) (c : Mhd.Reply.Conn) (m : Mthd)
    (code : Nat) (hc : code ≤ 199) (date : Bytes) :
    headBytes { c with mthd := m } (runCalls Resp.createUpgrade cs) code date = headBytes c (runCalls Resp.createUpgrade cs) code date ∧
    (setupReplyProperties { c with mthd := m } (runCalls Resp.createUpgrade cs) code).2.useReplyBodyHeaders = false :=
  ⟨upgrade_head_indep_of_request cs hl { c with mthd := m } c rfl code hc date,
   by rw [setup_upgrade _ _ code (upgradeObj_facts cs hl).2.2.1 hc]⟩

/-- an accepted upgrade response has status 101 and none of the HTTP/1.0 response flags -/
theorem accepted_upgrade_is_101_http11 (cfg : Cfg) (shutdown : Bool) (x : Conn) (rs : Mhd.Upg.Resp)
    (h : queueCheck cfg shutdown x rs = none) (hu : rs.upgrade = true) :
    rs.code = Mhd.Gen.Upg.switchingProtocols ∧ rs.flags10 = false := by
  unfold queueCheck at h
  split at h
  · simp at h
  · have hsw : Mhd.Gen.Upg.switchingProtocols = 101 := rfl
    by_cases a : rs.code = Mhd.Gen.Upg.switchingProtocols
    · refine ⟨a, ?_⟩
      cases hf : rs.flags10 with
      | false => rfl
      | true =>
        have a' : rs.code = 101 := a.trans hsw
        simp [hu, a', hf, hsw] at h
        repeat (split at h <;> try simp at h)
    · simp [hu, a] at h
      repeat (split at h <;> try simp at h)

/-- the reply built for an accepted upgrade response is exactly the 101 head -/
theorem upgrade_reply_is_head101 (cfg : Cfg) (x : Conn) (rid : Nat) (h : x.rp = some rid)
    (hu : (cfg.resp rid).upgrade = true) :
    (startReply cfg x).wbuf = x.wbuf ++ head101 cfg (cfg.resp rid) ∧
    (startReply cfg x).outq = x.outq ++ [head101 cfg (cfg.resp rid)] := by
  simp [startReply, replyBytes, h, hu]

/-! ## (2) After the hand-over the daemon does not touch the socket -/

theorem okLog_true_noIo : ∀ (l : List Ev), okLog true l = true → ∀ e ∈ l, e.isIo = false := by
  intro l
  induction l with
  | nil => intro _ e he; cases he
  | cons a l ih =>
    intro h e he
    simp only [okLog, Bool.true_and, Bool.true_or] at h
    by_cases ha : a.isIo = true
    · simp [ha] at h
    · have ha' : a.isIo = false := by simpa using ha
      simp only [ha'] at h
      rcases List.mem_cons.mp he with rfl | h'
      · exact ha'
      · exact ih h e h'

/-- **No recv / send / shutdown by the daemon on the socket after the upgrade handler was called**
    — in any later round with any schedule, whatever the other connections do, including the
    shutdown path: in the event log of every connection, after every history, no daemon I/O event
    follows an `upgrade` event. -/
theorem no_daemon_io_after_handover (base : Cfg) (behs : Nat → Nat → Beh) (ops : List Op) (c : Nat)
    (l1 l2 : List Ev) (e : Ev) (hl : (connOf base behs ops c).log = l1 ++ e :: l2)
    (he : e.isUpgrade = true) : ∀ e' ∈ l2, e'.isIo = false := by
  have h : okLog false (connOf base behs ops c).log = true := ((reach_inv base behs ops).conns c).ci.logi.ok
  rw [hl, okLog_append] at h
  have h2 : okLog (false || hasUpg l1) (e :: l2) = true := by
    cases h1 : okLog false l1 <;> simp_all
  have hio : e.isIo = false := by cases e <;> simp_all [Ev.isUpgrade, Ev.isIo]
  simp only [okLog, hio, he, Bool.and_false, Bool.or_true] at h2
  exact okLog_true_noIo l2 (by simpa using h2)

/-! ## (3) Released exactly once -/

theorem stop_sets_shutdown (d : Daemon) : (step d .stop).shutdown = true := by
  simp only [step]; split
  · assumption
  · rfl

/-- **After MHD_stop_daemon — at whatever point of whatever history it comes: close action
    issued inside the handler, later, or never — every connection is released exactly once**:
    as many connection-closed notifications as connection-started ones (at most one), the socket
    closed exactly once if the connection was ever added, and exactly one completion notification
    for every request whose handler was called. -/
theorem released_exactly_once_at_stop (base : Cfg) (behs : Nat → Nat → Beh) (ops : List Op) (c : Nat)
    (hs : (reach base behs ops).shutdown = true) :
    ((connOf base behs ops c).loc = .freed ∨ (connOf base behs ops c).loc = .none) ∧
    cnt Ev.isConnClose (connOf base behs ops c).log = cnt Ev.isStart (connOf base behs ops c).log ∧
    cnt Ev.isStart (connOf base behs ops c).log ≤ 1 ∧
    cnt Ev.isSockClose (connOf base behs ops c).log = (if (connOf base behs ops c).loc = .freed then 1 else 0) ∧
    ∀ r, 0 < cnt (Ev.isHandler r) (connOf base behs ops c).log → cnt (Ev.isCompleted r) (connOf base behs ops c).log = 1 := by
  have hi := reach_inv base behs ops
  have hloc : (connOf base behs ops c).loc = .freed ∨ (connOf base behs ops c).loc = .none := hi.stopped hs c
  have hf : FI ((reach base behs ops).cfg c) (connOf base behs ops c) := hi.conns c
  generalize connOf base behs ops c = x at *
  have haw : x.clientAware = false := by
    cases ha : x.clientAware with
    | false => rfl
    | true =>
      have := hf.ci.life.aware_loc ha
      rcases hloc with h1 | h1 <;> rcases this with h2 | h2 <;> (rw [h1] at h2; cases h2)
  refine ⟨hloc, ?_, hf.cn.startle, hf.cn.sockc, ?_⟩
  · rw [hf.cn.close]
    rcases hloc with h1 | h1
    · simp [h1]
    · have := hf.cn.start0 (Or.inl h1)
      simp [h1, this]
  · intro r hr
    rcases hf.cn.handler r hr with h1 | h1
    · rw [hf.cn.completed r]; simp [h1]
    · rw [haw] at h1; cases h1.2

/-- the same for a history that ends with stop -/
theorem released_exactly_once_after_stop (base : Cfg) (behs : Nat → Nat → Beh) (ops : List Op) (c : Nat) :
    cnt Ev.isConnClose (connOf base behs (ops ++ [.stop]) c).log = cnt Ev.isStart (connOf base behs (ops ++ [.stop]) c).log ∧
    cnt Ev.isStart (connOf base behs (ops ++ [.stop]) c).log ≤ 1 ∧
    cnt Ev.isSockClose (connOf base behs (ops ++ [.stop]) c).log
      = (if (connOf base behs (ops ++ [.stop]) c).loc = .freed then 1 else 0) ∧
    ∀ r, 0 < cnt (Ev.isHandler r) (connOf base behs (ops ++ [.stop]) c).log →
      cnt (Ev.isCompleted r) (connOf base behs (ops ++ [.stop]) c).log = 1 := by
  have hs : (reach base behs (ops ++ [.stop])).shutdown = true := by
    unfold reach run
    rw [List.foldl_append]
    exact stop_sets_shutdown _
  exact (released_exactly_once_at_stop base behs (ops ++ [.stop]) c hs).2

/-- **Never twice, at any time**: in every reachable state each of the three notifications and
    the socket close has happened at most once per connection / request. -/
theorem never_twice (base : Cfg) (behs : Nat → Nat → Beh) (ops : List Op) (c : Nat) :
    cnt Ev.isConnClose (connOf base behs ops c).log ≤ 1 ∧ cnt Ev.isSockClose (connOf base behs ops c).log ≤ 1 ∧
    ∀ r, cnt (Ev.isCompleted r) (connOf base behs ops c).log ≤ 1 := by
  have hf : FI ((reach base behs ops).cfg c) (connOf base behs ops c) := (reach_inv base behs ops).conns c
  generalize connOf base behs ops c = x at *
  refine ⟨?_, ?_, ?_⟩
  · rw [hf.cn.close]; split
    · exact hf.cn.startle
    · exact Nat.zero_le _
  · rw [hf.cn.sockc]; split <;> simp
  · intro r; rw [hf.cn.completed r]; split <;> simp

/-- **The close action releases the connection in the very next round** — no lost wake-up: for
    every reachable daemon, every connection whose socket the application still owns and every
    schedule of the following round, after `MHD_upgrade_action (CLOSE)` and one round the
    connection has left all lists (completion notified, connection-closed notified, socket
    closed: the counters of `never_twice` then read exactly one). -/
theorem close_action_releases_in_next_round (base : Cfg) (behs : Nat → Nat → Beh) (ops : List Op) (c : Nat)
    (sched : Nat → Option IoAct)
    (hns : (reach base behs ops).shutdown = false) (ho : (connOf base behs ops c).appOwns = true) :
    ((step (step (reach base behs ops) (.upClose c)) (.round sched)).conn c).loc = .freed := by
  have hi := reach_inv base behs ops
  unfold connOf at ho
  generalize reach base behs ops = d at *
  have hu := Conn.appOwns_urh ho
  have hl := (hi.conns c).ci.life
  have hsusp : (d.conn c).loc = .suspended := by
    rcases hl.urh_loc hu with h1 | h1
    · exact h1
    · exact absurd h1 (hi.settled c)
  have hal : d.base.allowUpgrade = true := hl.upg_allowed hu
  cases hx : (d.conn c).urh with
  | none => rw [hx] at hu; cases hu
  | some u =>
    have hwc : u.wasClosed = false := by
      unfold Conn.appOwns at ho; rw [hx] at ho; simpa using ho
    have hrd := hl.urh_ready u hx
    simp only [step, hns, Bool.false_eq_true, if_false, upgradeActionClose, hx, hwc]
    simp [setConn_same, roundConn, Daemon.allowUpgrade, hal, resumeOne, markAppClosed, Conn.emit, hsusp, hx, hrd,
          notifyCompleted, newToActive, cleanupOne, callHandlers]
    split <;> (try split) <;> simp

/-! ## (4) Unmet preconditions: refused, connection untouched, still answerable -/

/-- a refused `MHD_queue_response` returns the connection exactly as it was -/
theorem refused_unchanged (cfg : Cfg) (shutdown : Bool) (x : Conn) (rid : Nat)
    (h : (queueResponse cfg shutdown x rid).2 = false) : (queueResponse cfg shutdown x rid).1 = x := by
  unfold queueResponse at *
  split
  · rfl
  · rename_i hq; simp [hq] at h

/-- what an accepted response satisfies -/
theorem queueCheck_none {cfg : Cfg} {sh : Bool} {x : Conn} {rs : Resp} (h : queueCheck cfg sh x rs = none) :
    ∃ hd, x.req = some hd ∧
      (rs.upgrade = true → cfg.allowUpgrade = true ∧ rs.code = Mhd.Gen.Upg.switchingProtocols ∧ rs.connHdr ≠ none ∧
        hasToken (rs.connHdr.getD []) Mhd.Gen.Upg.upgradeToken = true ∧ hd.ver.compat11 = true) ∧
      (rs.code = Mhd.Gen.Upg.switchingProtocols → rs.upgrade = true) := by
  unfold queueCheck at h
  split at h
  · simp at h
  · rename_i hd hreq
    refine ⟨hd, hreq, ?_, ?_⟩
    · intro hu
      refine ⟨?_, ?_, ?_, ?_, ?_⟩
      · by_cases a : cfg.allowUpgrade = true
        · exact a
        · simp [hu, a] at h
          repeat (split at h <;> try simp at h)
      · by_cases a : rs.code = Mhd.Gen.Upg.switchingProtocols
        · exact a
        · simp [hu, a] at h
          repeat (split at h <;> try simp at h)
      · by_cases a : rs.connHdr = none
        · simp [hu, a] at h
          repeat (split at h <;> try simp at h)
        · exact a
      · by_cases a : hasToken (rs.connHdr.getD []) Mhd.Gen.Upg.upgradeToken = true
        · exact a
        · simp [hu, a] at h
          repeat (split at h <;> try simp at h)
      · by_cases a : hd.ver.compat11 = true
        · exact a
        · simp [hu, a] at h
          repeat (split at h <;> try simp at h)
    · intro hc
      by_cases a : rs.upgrade = true
      · exact a
      · simp [hc, a] at h
        repeat (split at h <;> try simp at h)

/-- **Each unmet precondition alone makes the daemon refuse an upgrade response**: daemon started
    without MHD_ALLOW_UPGRADE, status other than 101, no Connection header, Connection header
    without the `upgrade` token, request not HTTP/1.1-compatible; and status 101 with a response
    that was not created for upgrade. -/
theorem unmet_precondition_refused (cfg : Cfg) (shutdown : Bool) (x : Conn) (rs : Resp)
    (h : (rs.upgrade = true ∧
            (cfg.allowUpgrade = false ∨ rs.code ≠ Mhd.Gen.Upg.switchingProtocols ∨ rs.connHdr = none ∨
             hasToken (rs.connHdr.getD []) Mhd.Gen.Upg.upgradeToken = false ∨
             ∀ hd, x.req = some hd → hd.ver.compat11 = false)) ∨
         (rs.upgrade = false ∧ rs.code = Mhd.Gen.Upg.switchingProtocols)) :
    queueCheck cfg shutdown x rs ≠ none := by
  intro hq
  obtain ⟨hd, hreq, h1, h2⟩ := queueCheck_none hq
  rcases h with ⟨hu, h⟩ | ⟨hu, h⟩
  · obtain ⟨a1, a2, a3, a4, a5⟩ := h1 hu
    rcases h with h | h | h | h | h
    · rw [a1] at h; cases h
    · exact h a2
    · exact a3 h
    · rw [a4] at h; cases h
    · have := h hd hreq; rw [a5] at this; cases this
  · have := h2 h; rw [hu] at this; cases this

theorem tryQueue_cons (cfg : Cfg) (sh : Bool) (x : Conn) (rid : Nat) (rest : List Nat) :
    tryQueue cfg sh x (rid :: rest) =
      if (queueResponse cfg sh x rid).2 = true then (queueResponse cfg sh x rid).1.emit (.queued x.reqNo rid true)
      else tryQueue cfg sh ((queueResponse cfg sh x rid).1.emit (.queued x.reqNo rid false)) rest := rfl

theorem tryQueue_cons_refused (cfg : Cfg) (sh : Bool) (x : Conn) (rid : Nat) (rest : List Nat)
    (h : (queueResponse cfg sh x rid).2 = false) :
    tryQueue cfg sh x (rid :: rest) = tryQueue cfg sh (x.emit (.queued x.reqNo rid false)) rest := by
  have e := refused_unchanged cfg sh x rid h
  rw [tryQueue_cons, h, e]; rfl

theorem tryQueue_cons_accepted (cfg : Cfg) (sh : Bool) (x : Conn) (rid : Nat) (rest : List Nat)
    (h : (queueResponse cfg sh x rid).2 = true) :
    tryQueue cfg sh x (rid :: rest) = (queueResponse cfg sh x rid).1.emit (.queued x.reqNo rid true) := by
  rw [tryQueue_cons, h]; rfl

/-- **…and the connection is still answerable**: in the state the refusal left behind, an ordinary
    response (not for upgrade, status 200..999, not a 2xx answer to CONNECT) is accepted, and the
    scripted handler that tries the refused response first and the ordinary one second ends with
    the ordinary one queued. -/
theorem ordinary_response_after_refusal_accepted (cfg : Cfg) (x : Conn) (bad good : Nat) (hd : Head)
    (hreq : x.req = some hd) (hrp : x.rp = none) (hst : x.st = .headersProcessed ∨ x.st = .fullReq)
    (hbad : (queueResponse cfg false x bad).2 = false)
    (hg : (cfg.resp good).upgrade = false) (hc : 200 ≤ (cfg.resp good).code ∧ (cfg.resp good).code ≤ 999)
    (hcon : ¬ (hd.connect = true ∧ (cfg.resp good).code / 100 = 2)) :
    queueCheck cfg false x (cfg.resp good) = none ∧
    (tryQueue cfg false x [bad, good]).rp = some good ∧
    (tryQueue cfg false x [bad, good]).log = x.log ++ [.queued x.reqNo bad false, .queued x.reqNo good true] := by
  have hsw : Mhd.Gen.Upg.switchingProtocols = 101 := rfl
  have hne : (cfg.resp good).code ≠ 101 := by omega
  have c2 : ¬ (x.st ≠ .headersProcessed ∧ x.st ≠ .fullReq) := by rcases hst with h | h <;> simp [h]
  have h100 : ¬ ((cfg.resp good).code < 100 ∨ 999 < (cfg.resp good).code) := by omega
  have h200 : ¬ (cfg.resp good).code < 200 := by omega
  have hq : queueCheck cfg false x (cfg.resp good) = none := by
    simp [queueCheck, hreq, hrp, hg, hsw, hne, c2, h100, h200, hcon]
  have hq' : queueCheck cfg false (x.emit (.queued x.reqNo bad false)) (cfg.resp good) = none := hq
  have e2 : (queueResponse cfg false (x.emit (.queued x.reqNo bad false)) good).2 = true := by
    simp only [queueResponse, hq']
  have e3 : (queueResponse cfg false (x.emit (.queued x.reqNo bad false)) good).1.rp = some good := by
    simp only [queueResponse, hq']
  have e4 : (queueResponse cfg false (x.emit (.queued x.reqNo bad false)) good).1.log = x.log ++ [.queued x.reqNo bad false] := by
    simp only [queueResponse, hq']; rfl
  rw [tryQueue_cons_refused cfg false x bad [good] hbad, tryQueue_cons_accepted cfg false _ good [] e2]
  refine ⟨hq, e3, ?_⟩
  show (queueResponse cfg false (x.emit (.queued x.reqNo bad false)) good).1.log ++ [_] = _
  rw [e4]; simp [Conn.emit]


/-! ## Non-vacuity: a concrete history that satisfies the hypotheses used above -/

namespace Ex

/-- a toy parser: the head is the three bytes `G \n \n` -/
def parser : Parser := ⟨fun bs => if ([71, 10, 10] : Bytes).isPrefixOf bs then some ⟨3, .v11, false, false⟩ else none⟩

/-- flags = MHD_RF_SEND_KEEP_ALIVE_HEADER -/
def kaFlags : Mhd.Resp.RFlags := { sendKeepAlive := true }
/-- an upgrade response the application decorated: Connection edited twice (the `upgrade` token ends
    up in the middle, a keep-alive token is dropped by the response API), several protocols offered,
    the keep-alive response flag set -/
def upCalls : List Mhd.Resp.Call :=
  [.opt kaFlags, .del Mhd.Resp.sConnection [85, 112, 103, 114, 97, 100, 101],
   .add Mhd.Resp.sConnection [88, 45, 65, 44, 32, 117, 112, 71, 82, 65, 68, 69, 44, 32, 75, 101, 101, 112, 45, 65, 108, 105, 118, 101],
   .add [85, 112, 103, 114, 97, 100, 101] [119, 115, 44, 32, 104, 50, 99],
   .add Mhd.Resp.sConnection [88, 45, 66]]
def upResp : Resp := { obj := Mhd.Resp.runCalls Mhd.Resp.Resp.createUpgrade upCalls, closeInHandler := false, code := 101 }
def okResp : Resp := { obj := Mhd.Resp.Resp.create 5, closeInHandler := false, code := 200 }

def base : Cfg := { allowUpgrade := true, parser := parser, resp := fun rid => if rid = 1 then upResp else okResp,
                    beh := fun _ => { early := false, tries := [] }, date := [68], render := fun _ => [82] }
def behs : Nat → Nat → Beh := fun _ _ => { early := false, tries := [1] }
def all : Nat → Option IoAct := fun _ => some { rdReady := true, rdMax := 100, wrReady := true, wrMax := 100 }

/-- head split over two reads, two bytes of read-ahead, one more byte after the hand-over, the
    application reads, closes; a second connection arrives and is still open at stop -/
def ops : List Op :=
  [.arrive 0, .round all, .clientSend 0 [71, 10], .round all, .clientSend 0 [10, 1, 2], .round all, .round all,
   .arrive 1, .clientSend 0 [3], .round all, .upRecv 0 10, .upClose 0, .round all, .stop]

theorem parser_stable : PStable parser := by
  intro a b h hp
  simp only [parser] at *
  split at hp
  · rename_i hpre
    have : ([71, 10, 10] : Bytes).isPrefixOf (a ++ b) = true := by
      rw [List.isPrefixOf_iff_prefix] at *
      exact hpre.trans (List.prefix_append a b)
    simp [this]; simpa using hp
  · cases hp

theorem head_ok : IsHead parser [71, 10, 10] := by
  refine ⟨⟨⟨3, .v11, false, false⟩, by simp [parser], rfl⟩, ?_⟩
  intro p hp hne
  have hlen : p.length < 3 := by
    have h1 := hp.length_le
    have : p.length ≠ 3 := by
      intro h3
      exact hne (List.IsPrefix.eq_of_length hp (by simpa using h3))
    simp at h1; omega
  simp only [parser]
  split
  · rename_i h
    rw [List.isPrefixOf_iff_prefix] at h
    have := h.length_le
    simp at this; omega
  · rfl

end Ex

set_option maxRecDepth 200000 in
/-- the example history really hands over: extra data `[1,2]`, one more byte read by the
    application, everything accounted for, released exactly once -/
example : hasUpg (connOf Ex.base Ex.behs Ex.ops 0).log = true ∧
    handedOf (connOf Ex.base Ex.behs Ex.ops 0).log = [1, 2, 3] ∧
    (connOf Ex.base Ex.behs Ex.ops 0).heads = [[71, 10, 10]] ∧
    (connOf Ex.base Ex.behs Ex.ops 0).sent = [71, 10, 10, 1, 2, 3] ∧
    (connOf Ex.base Ex.behs Ex.ops 0).loc = .freed ∧
    cnt Ev.isConnClose (connOf Ex.base Ex.behs Ex.ops 0).log = 1 ∧
    cnt (Ev.isCompleted 0) (connOf Ex.base Ex.behs Ex.ops 0).log = 1 ∧
    cnt Ev.isSockClose (connOf Ex.base Ex.behs Ex.ops 1).log = 1 ∧
    (reach Ex.base Ex.behs Ex.ops).shutdown = true ∧
    Ev.upgrade 1 [1, 2] ∈ (connOf Ex.base Ex.behs Ex.ops 0).log ∧
    daemonWire (connOf Ex.base Ex.behs Ex.ops 0).log = head101 Ex.base Ex.upResp := by decide

set_option maxRecDepth 200000 in
/-- hypotheses of `close_action_releases_in_next_round` are satisfiable: before the close action
    the application owns the socket of connection 0 and the daemon is running -/
example : (connOf Ex.base Ex.behs (Ex.ops.take 11) 0).appOwns = true ∧
    (reach Ex.base Ex.behs (Ex.ops.take 11)).shutdown = false := by decide

/-- the decorated example response: the calls are legal, the object keeps the upgrade handler and the
    keep-alive response flag, its "Connection" value has the `upgrade` token in the middle
    (hypotheses of `upgrade_head_connection_tokens` / `head101_explicit` are satisfiable, non-trivially) -/
example : (∀ c ∈ Ex.upCalls, c.Legal) ∧ Ex.upResp.obj.flags.sendKeepAlive = true ∧ Ex.upResp.upgrade = true ∧
    Ex.upResp.obj.flags.http10Server = false ∧
    Ex.upResp.connHdr = some [88, 45, 65, 44, 32, 117, 112, 71, 82, 65, 68, 69, 44, 32, 88, 45, 66] := by
  refine ⟨?_, by decide, by decide, by decide, by decide⟩
  intro c hc
  simp only [Ex.upCalls, List.mem_cons, List.not_mem_nil, or_false] at hc
  rcases hc with rfl | rfl | rfl | rfl | rfl
  · rfl
  · trivial
  · exact ⟨by decide, fun h => absurd h (by decide)⟩
  · exact ⟨by decide, fun h => absurd h (by decide)⟩
  · exact ⟨by decide, fun h => absurd h (by decide)⟩

/-- the theorems hold in particular on a connection that the request's framing already forced to MUST_CLOSE
    (Content-Length together with chunked Transfer-Encoding): still MUST_UPGRADE, still the same head (fix F37) -/
example : (Mhd.Reply.setupReplyProperties { keepalive := .mustClose } Ex.upResp.obj 101).1 = .mustUpgrade ∧
    headBytes { keepalive := .mustClose } Ex.upResp.obj 101 Ex.base.date = head101 Ex.base Ex.upResp := by decide

/-- … and on a HEAD request (the model's `head101` is computed for GET): same head, no body headers -/
example : headBytes { mthd := .head } Ex.upResp.obj 101 Ex.base.date = head101 Ex.base Ex.upResp ∧
    Mhd.Reply.isReplyBodyNeeded .head 101 = .none := by decide

set_option maxRecDepth 200000 in
/-- … and its 101 head, computed by the reply builder: `HTTP/1.1 101 Switching Protocols`, `Date: D`,
    `Connection: X-A, upGRADE, X-B` (no `Keep-Alive, ` although MHD_RF_SEND_KEEP_ALIVE_HEADER is set),
    `Upgrade: ws, h2c`, empty line; the builder with a 200-byte buffer returns the same bytes, with
    a 60-byte buffer it refuses -/
example : head101 Ex.base Ex.upResp = ([72, 84, 84, 80, 47, 49, 46, 49, 32, 49, 48, 49, 32, 83, 119, 105, 116, 99, 104, 105, 110, 103, 32, 80, 114, 111, 116, 111, 99, 111, 108, 115, 13, 10, 68, 97, 116, 101, 58, 32, 68, 13, 10, 67, 111, 110, 110, 101, 99, 116, 105, 111, 110, 58, 32, 88, 45, 65, 44, 32, 117, 112, 71, 82, 65, 68, 69, 44, 32, 88, 45, 66, 13, 10, 85, 112, 103, 114, 97, 100, 101, 58, 32, 119, 115, 44, 32, 104, 50, 99, 13, 10, 13, 10] : Bytes) ∧
    (Mhd.Reply.buildHeaderResponse (replyConn Ex.base) Ex.upResp.obj 101 false (some Ex.base.date) 200).2.2 = some ([72, 84, 84, 80, 47, 49, 46, 49, 32, 49, 48, 49, 32, 83, 119, 105, 116, 99, 104, 105, 110, 103, 32, 80, 114, 111, 116, 111, 99, 111, 108, 115, 13, 10, 68, 97, 116, 101, 58, 32, 68, 13, 10, 67, 111, 110, 110, 101, 99, 116, 105, 111, 110, 58, 32, 88, 45, 65, 44, 32, 117, 112, 71, 82, 65, 68, 69, 44, 32, 88, 45, 66, 13, 10, 85, 112, 103, 114, 97, 100, 101, 58, 32, 119, 115, 44, 32, 104, 50, 99, 13, 10, 13, 10] : Bytes) ∧
    (Mhd.Reply.buildHeaderResponse (replyConn Ex.base) Ex.upResp.obj 101 false (some Ex.base.date) 60).2.2 = none := by
  decide

/-- hypotheses of the refusal theorems are satisfiable: an upgrade response with status 200 is
    refused in a state where a plain 200 response is accepted -/
example : let x : Conn := { loc := .active, st := .fullReq, req := some ⟨3, .v11, false, false⟩ }
    let cfg : Cfg := { Ex.base with resp := fun rid => if rid = 1 then { Ex.upResp with code := 200 } else Ex.okResp }
    (queueResponse cfg false x 1).2 = false ∧ queueCheck cfg false x (cfg.resp 0) = none := by decide

end Mhd.C20

namespace Mhd.C20
open Mhd.UpgTls

/-! ## (5) TLS-upgraded connections: the forwarding layer (`process_urh`) -/


/-- a forwarding handle after any history: client writes, application writes, visits by the event loop
    with ANY readiness pattern and ANY outcome of the four I/O calls (short counts, EAGAIN, EINTR, end of
    stream, hard errors), the close action, resume scans, cleanup, shutdown visits — in any order -/
def tlsReach (cap ssizeMax sendMax : Nat) (tpc : Bool) (ops : List Mhd.UpgTls.Op) : St :=
  Mhd.UpgTls.run (St.init cap ssizeMax sendMax tpc) ops

/-- **Both directions are prefix-preserving FIFOs, for every interleaving.**  At any time, what the client
    sent is exactly: what was forwarded to the application, then what was discarded, then the forwarding
    buffer, then what is still unread — in this order; and symmetrically for the application's bytes.
    Hence the forwarded bytes are a prefix of the sent ones: no duplication, no reordering, and the only
    loss is `dropIn` / `dropOut`, which are contiguous and (see `tls_no_loss_*`) empty while both sides are
    open.  Once something was discarded that direction is stopped for good (`in/out_buffer_size = 0`). -/
theorem tls_forwarding_fifo (cap ssizeMax sendMax : Nat) (tpc : Bool) (ops : List Mhd.UpgTls.Op) :
    let s := tlsReach cap ssizeMax sendMax tpc ops
    s.toApp ++ s.dropIn ++ s.inBuf ++ s.remoteIn = s.clientSent ∧
    s.toClient ++ s.dropOut ++ s.outBuf ++ s.pairIn = s.appSent ∧
    (s.dropIn = [] ∨ (s.inBuf = [] ∧ s.inSize = 0)) ∧ (s.dropOut = [] ∨ (s.outBuf = [] ∧ s.outSize = 0)) := by
  have h := inv_run _ ops (inv_init cap ssizeMax sendMax tpc)
  exact ⟨h.i.eq, h.o.eq, h.i.drop, h.o.drop⟩

/-- **The forwarding buffers are never overrun**: every receive writes inside `[used, size)`, fill levels
    and sizes never exceed the allocation, for every history -/
theorem tls_buffers_never_overrun (cap ssizeMax sendMax : Nat) (tpc : Bool) (ops : List Mhd.UpgTls.Op) :
    let s := tlsReach cap ssizeMax sendMax tpc ops
    s.fault = none ∧ s.inBuf.length ≤ s.cap ∧ s.outBuf.length ≤ s.cap ∧ s.inSize ≤ s.cap ∧ s.outSize ≤ s.cap := by
  have h := inv_run _ ops (inv_init cap ssizeMax sendMax tpc)
  exact ⟨h.nf, h.i.len, h.o.len, h.i.size, h.o.size⟩

/-- **No loss client → application** as long as the application has not issued the close action, the
    daemon is not shutting down and no write to the application's socket failed hard -/
theorem tls_no_loss_client_to_app (cap ssizeMax sendMax : Nat) (tpc : Bool) (ops : List Mhd.UpgTls.Op)
    (h : ∀ op ∈ ops, op.noInDrop) :
    let s := tlsReach cap ssizeMax sendMax tpc ops
    s.toApp ++ s.inBuf ++ s.remoteIn = s.clientSent := by
  have hi := (inv_run _ ops (inv_init cap ssizeMax sendMax tpc)).i.eq
  have hd := (run_noInDrop ops (St.init cap ssizeMax sendMax tpc) rfl rfl h).1
  simp only [tlsReach]
  rw [hd] at hi; simpa using hi

/-- **No loss application → client** as long as the daemon is not shutting down and no TLS write failed
    hard — also across the application's close action: what it wrote before closing is still delivered -/
theorem tls_no_loss_app_to_client (cap ssizeMax sendMax : Nat) (tpc : Bool) (ops : List Mhd.UpgTls.Op)
    (h : ∀ op ∈ ops, op.noOutDrop) :
    let s := tlsReach cap ssizeMax sendMax tpc ops
    s.toClient ++ s.outBuf ++ s.pairIn = s.appSent := by
  have hi := (inv_run _ ops (inv_init cap ssizeMax sendMax tpc)).o.eq
  have hd := run_noOutDrop ops (St.init cap ssizeMax sendMax tpc) rfl h
  simp only [tlsReach]
  rw [hd] at hi; simpa using hi

/-- **Released exactly once**: the completion notification / move to the cleanup list happens at most once
    in every history, and has happened exactly when the connection has left the suspended list;
    `clean_ready` is only ever set with both directions stopped and empty and the socketpair shut down -/
theorem tls_released_exactly_once (cap ssizeMax sendMax : Nat) (tpc : Bool) (ops : List Mhd.UpgTls.Op) :
    let s := tlsReach cap ssizeMax sendMax tpc ops
    s.released ≤ 1 ∧ (s.released = 1 ↔ s.loc ≠ .suspended) ∧
    (s.cleanReady = true → finished s = true ∧ s.pairShut = true) := by
  have h := inv_run _ ops (inv_init cap ssizeMax sendMax tpc)
  simp only [tlsReach]
  refine ⟨?_, ?_, h.clean⟩
  · rw [h.rel]; split <;> simp
  · rw [h.rel]; split <;> simp_all

/-- **The application's close is propagated and completes** (one-step form, any reachable or unreachable
    state): after the close action, with nothing more in flight from the application, the next visit stops
    both directions, shuts down the socketpair, sets `clean_ready`; the following resume scan releases the
    connection with exactly one more completion -/
theorem tls_app_close_completes (lv : Bool) (rdy : Celi × Celi) (e : Env) (s : St) (hl : s.loc = .suspended) (hc : s.cleanReady = false)
    (hw : s.wasClosed = true) (hp : s.pairIn = []) (ho : s.outBuf = []) (hi : e.pairRecv ≠ .intr) :
    finished (visit false lv rdy e s) = true ∧ (visit false lv rdy e s).cleanReady = true ∧ (visit false lv rdy e s).pairShut = true ∧
    (resumeScan (visit false lv rdy e s)).loc = .cleanup ∧ (resumeScan (visit false lv rdy e s)).released = s.released + 1 :=
  app_close_visit_finishes lv rdy e s hl hc hw hp ho hi

/-- **MHD_stop_daemon completes the forwarding in one visit**, whatever is buffered and whatever the I/O
    calls return -/
theorem tls_stop_completes (lv : Bool) (rdy : Celi × Celi) (e : Env) (s : St) (hl : s.loc = .suspended) (hc : s.cleanReady = false) :
    finished (visit true lv rdy e s) = true ∧ (visit true lv rdy e s).cleanReady = true ∧ (visit true lv rdy e s).pairShut = true ∧
    (visit true lv rdy e s).resuming = true ∧ (visit true lv rdy e s).wasClosed = true :=
  stop_visit_finishes lv rdy e s hl hc

/-- **The client's close is propagated**: end of stream or a hard error from the record layer stops reading
    from the client for good (no further `gnutls_record_recv`), what was received before stays in the
    buffer for the application; the application sees end of stream when the forwarding is finished
    (`tls_released_exactly_once`: `clean_ready → pairShut`) -/
theorem tls_client_close_stops_reading (e : Env) (s : St) (hr : (s.remote.rd || s.remote.err || s.tlsReadReady) = true)
    (hroom : s.inBuf.length < s.inSize) (he : e.tlsRecv = .eof ∨ e.tlsRecv = .fatal) :
    (stageTlsRecv e s).inSize = 0 ∧ (stageTlsRecv e s).inBuf = s.inBuf ∧
    ∀ e', stageTlsRecv e' (stageTlsRecv e s) = stageTlsRecv e s :=
  remote_close_stops_reading e s hr hroom he

namespace ExTls
def rdyAll : Celi × Celi := (⟨true, true, false⟩, ⟨true, true, false⟩)
def env (a b c d : IoRes) : Env := { tlsRecv := a, pairRecv := b, tlsSend := c, pairSend := d }
/-- 8-byte buffers; the client sends 11 bytes, the application 3; short reads and writes, an EAGAIN, an EINTR;
    then the application writes 2 more bytes and closes; everything is flushed; resume scan; cleanup -/
def ops : List Mhd.UpgTls.Op :=
  [.clientSend [1, 2, 3, 4, 5, 6, 7, 8, 9, 10, 11], .appSend [101, 102, 103],
   .visit true rdyAll (env (.ok 5) (.ok 2) (.ok 1) (.ok 3)),
   .visit false rdyAll (env (.ok 100) .intr .again (.ok 1)),
   .visit true rdyAll (env (.ok 100) (.ok 100) (.ok 100) (.ok 100)),
   .visit true rdyAll (env .again .again .again (.ok 100)),
   .appSend [104, 105], .appClose,
   .visit true rdyAll (env (.ok 100) (.ok 100) (.ok 100) .again),
   .visit true rdyAll (env .again .again .again .again),
   .resumeScan, .cleanup]
end ExTls

/-- the example history: all 11 client bytes reach the application in order before it closes, all 5
    application bytes reach the client (the last two after the close action), nothing is discarded,
    released once; its prefix before the close satisfies the hypotheses of both no-loss theorems -/
example : let s := tlsReach 8 1000 1000 false ExTls.ops
    s.toApp = [1, 2, 3, 4, 5, 6, 7, 8, 9, 10, 11] ∧ s.toClient = [101, 102, 103, 104, 105] ∧ s.dropIn = [] ∧ s.dropOut = [] ∧
    s.released = 1 ∧ s.loc = .freed ∧ s.pairShut = true ∧ s.fault = none := by decide

example : (∀ op ∈ ExTls.ops.take 7, op.noInDrop) ∧ (∀ op ∈ ExTls.ops, op.noOutDrop) := by
  constructor
  · intro op h
    simp only [ExTls.ops, List.take, List.mem_cons, List.not_mem_nil, or_false] at h
    rcases h with rfl | rfl | rfl | rfl | rfl | rfl | rfl <;> simp [Mhd.UpgTls.Op.noInDrop, ExTls.env]
  · intro op h
    simp only [ExTls.ops, List.mem_cons, List.not_mem_nil, or_false] at h
    rcases h with rfl | rfl | rfl | rfl | rfl | rfl | rfl | rfl | rfl | rfl | rfl | rfl <;> simp [Mhd.UpgTls.Op.noOutDrop, ExTls.env]

/-- hypotheses of the one-step theorems are satisfiable: the state before the ninth operation of the example
    (closed by the application, nothing in flight, nothing buffered for the client) -/
example : let s := tlsReach 8 1000 1000 false (ExTls.ops.take 9)
    s.loc = .suspended ∧ s.cleanReady = false ∧ s.wasClosed = true ∧ s.pairIn = [] ∧ s.outBuf = [] := by decide

end Mhd.C20
