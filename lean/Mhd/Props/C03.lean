/-
  C03 — Request framing is unambiguous; no desynchronisation.

  Statements only; proofs delegate to `Mhd.Proofs.Framing*`.  The model
  (`Mhd.Model.Framing`, `Chunked`, `FramingConn`, `FramingTake`) mirrors `parse_connection_headers`,
  `process_request_body`, `transmit_error_response_len`, `MHD_queue_response`,
  `keepalive_possible`, `connection_reset` and the receive side of
  `MHD_connection_handle_idle` of connection.c *with the fixes F2, F3, F9, F16 applied*.

  The request-head parser is a **parameter** (`HeadParser`): all theorems about the connection
  automaton hold for every head parser that is an incremental scanner (`LawfulHeadParser`: its
  verdict on a buffer is not changed by bytes arriving behind it; a head is never empty) and for
  every `Head` such a parser delivers — any method and target, **any list of (name, value)
  fields**: any letter case, order, multiplicity, list values.  The framing decision
  `decideBody` is characterised on every field list (`decideBody_agrees_reference`).
  Which bytes make up a head, and which fields they denote, is C02's subject; the strict
  splitter `parseHead` (CRLF only, token names, OWS around values) is one lawful instance
  (`strict_parser_lawful`) and the one the executable driver runs — there, input it does not
  accept drives the model into `outOfDomain` (no prediction), never into a silent default.
  (`Expect: 100-continue` is inside the domain: `need100Continue` / `continueSending`.)
-/
import Mhd.Proofs.FramingRefAgree
import Mhd.Proofs.FramingTotal
import Mhd.Proofs.FramingTake
import Mhd.Proofs.FramingReqHead
import Mhd.Proofs.FramingReplyBridge

namespace Mhd.C03
open Mhd.Framing Mhd.Gen.Framing Mhd.Framing.Framer

/-! ## (1) the body decision agrees with RFC 9112 §6.3 on every field list that satisfies it -/

/-- ∀ strictness level, ∀ HTTP version, ∀ field list on which the Host rule does not fire:
    no Transfer-Encoding and no Content-Length ⇒ no body; exactly one valid Content-Length ⇒ that
    length; exactly one Transfer-Encoding equal to `chunked` (any case) and no Content-Length ⇒
    chunked (and, for HTTP/1.0, the connection is marked must-close). -/
theorem decideBody_valid (lvl : Int) (http11 : Bool) (fs : List Field) (hh : HostOK lvl http11 fs) :
    (fieldValues fs hdrTransferEncoding = [] → fieldValues fs hdrContentLength = [] →
        decideBody lvl http11 fs = .none) ∧
    (∀ v, fieldValues fs hdrTransferEncoding = [] → fieldValues fs hdrContentLength = [v] → ValidDec v →
        decideBody lvl http11 fs = .len (decValue v)) ∧
    (∀ te, fieldValues fs hdrTransferEncoding = [te] → eqCI te tokChunked = true →
        fieldValues fs hdrContentLength = [] → decideBody lvl http11 fs = .chunked (! http11)) :=
  ⟨decideBody_none lvl http11 fs hh, fun v => decideBody_len lvl http11 fs hh v,
   fun te => decideBody_chunked lvl http11 fs hh te⟩

example : decideBody 1 true [⟨hdrHost, [104]⟩, ⟨[99, 111, 110, 116, 101, 110, 116, 45, 76, 69, 78, 71, 84, 72], [52, 50]⟩]
    = .len 42 := by decide

/-- ∀ levels, ∀ versions, ∀ field lists: every curated framing defect is refused —
    several Content-Length fields (equal or not), several Transfer-Encoding fields, a
    Transfer-Encoding whose first value is not exactly `chunked`, Transfer-Encoding together with
    Content-Length at level ≥ 1, a malformed or unrepresentable single Content-Length,
    a missing Host on HTTP/1.1 above level −3. -/
theorem decideBody_rejects_defects (lvl : Int) (http11 : Bool) (fs : List Field) :
    (2 ≤ (fieldValues fs hdrContentLength).length → decideBody lvl http11 fs = .reject httpBadRequest) ∧
    (2 ≤ (fieldValues fs hdrTransferEncoding).length → decideBody lvl http11 fs = .reject httpBadRequest) ∧
    (∀ te rest, fieldValues fs hdrTransferEncoding = te :: rest → eqCI te tokChunked = false →
        decideBody lvl http11 fs = .reject httpBadRequest) ∧
    (fieldValues fs hdrTransferEncoding ≠ [] → fieldValues fs hdrContentLength ≠ [] → teClRejectFromLvl ≤ lvl →
        decideBody lvl http11 fs = .reject httpBadRequest) ∧
    (∀ v, fieldValues fs hdrTransferEncoding = [] → fieldValues fs hdrContentLength = [v] → ¬ ValidDec v →
        decideBody lvl http11 fs = .reject httpBadRequest ∨ decideBody lvl http11 fs = .reject httpContentTooLarge) ∧
    (hostAboveLvl < lvl → http11 = true → lookup fs hdrHost = none →
        decideBody lvl http11 fs = .reject httpBadRequest) :=
  ⟨decideBody_multi_cl lvl http11 fs, decideBody_multi_te lvl http11 fs,
   fun te rest => decideBody_te_not_chunked lvl http11 fs te rest,
   decideBody_te_cl lvl http11 fs, fun v => decideBody_bad_cl lvl http11 fs v,
   fun hl h11 hn => by subst h11; exact decideBody_no_host lvl fs hl hn⟩

example : decideBody 0 true [⟨hdrHost, [104]⟩, ⟨hdrContentLength, [48]⟩, ⟨hdrContentLength, [51, 54]⟩]
    = .reject 400 := by decide

/-- Below the strict threshold Transfer-Encoding + Content-Length is tolerated (chunked wins),
    but the connection is marked must-close (see `no_reparse`). -/
theorem decideBody_te_cl_tolerated (lvl : Int) (http11 : Bool) (fs : List Field) (hh : HostOK lvl http11 fs)
    (te v : Bytes) (hte : fieldValues fs hdrTransferEncoding = [te]) (hc : eqCI te tokChunked = true)
    (hcl : fieldValues fs hdrContentLength = [v]) (hl : ¬ teClRejectFromLvl ≤ lvl) :
    decideBody lvl http11 fs = .chunked true :=
  decideBody_te_cl_lenient lvl http11 fs hh te v hte hc hcl hl

/-- **`decideBody` = the strict RFC 9112 §6.3 reference on EVERY field list.**  ∀ level, ∀ HTTP
    version, ∀ list of (name, value) fields whatsoever — no canonicity, names in any case, any
    order, duplicates, several Content-Length / Transfer-Encoding fields, list values, empty values —
    on which the Host rule does not fire: where the reference `Framer.bodyKind` (20 lines, counts
    *all* fields of a name) says no body / length n / chunked, `decideBody` says the same (chunked on
    HTTP/1.0 additionally marks the connection must-close); where the reference says *invalid*,
    `decideBody` refuses with 400 or 413 — the single exception being exactly one
    `Transfer-Encoding: chunked` plus exactly one Content-Length below the strict threshold, which is
    read as chunked with the connection marked must-close.  `bodyKind` has no fifth outcome, so this
    is a total characterisation. -/
theorem decideBody_agrees_reference (lvl : Int) (http11 : Bool) (fs : List Field) (hh : HostOK lvl http11 fs) :
    match bodyKind fs with
    | .none => decideBody lvl http11 fs = .none
    | .len n => decideBody lvl http11 fs = .len n
    | .chunked => decideBody lvl http11 fs = .chunked (! http11)
    | .invalid =>
      (TeClPair fs ∧ ¬ teClRejectFromLvl ≤ lvl ∧ decideBody lvl http11 fs = .chunked true) ∨
      decideBody lvl http11 fs = .reject httpBadRequest ∨ decideBody lvl http11 fs = .reject httpContentTooLarge :=
  decideBody_agrees lvl http11 fs hh

/-- … and when the Host rule fires, the request is refused whatever the framing fields are. -/
theorem host_rule_refuses (lvl : Int) (http11 : Bool) (fs : List Field) (hh : ¬ HostOK lvl http11 fs) :
    decideBody lvl http11 fs = .reject httpBadRequest :=
  decideBody_host_rule lvl http11 fs hh

/-- Non-vacuity / the defect classes on non-canonical field lists: mixed-case names, a list-valued
    Transfer-Encoding (`gzip, chunked`), `chunked` not final, two Transfer-Encoding fields, two equal
    Content-Length fields, a list-valued Content-Length, TE + CL at level 1 and at level 0, HTTP/1.0 + TE. -/
example : bodyKind [⟨[104, 79, 115, 84], [104]⟩, ⟨[116, 82, 65, 78, 83, 70, 69, 82, 45, 101, 110, 99, 111, 100, 105, 110, 103], [103, 122, 105, 112, 44, 32, 99, 104, 117, 110, 107, 101, 100]⟩] = .invalid ∧
    decideBody 0 true [⟨[104, 79, 115, 84], [104]⟩, ⟨[116, 82, 65, 78, 83, 70, 69, 82, 45, 101, 110, 99, 111, 100, 105, 110, 103], [103, 122, 105, 112, 44, 32, 99, 104, 117, 110, 107, 101, 100]⟩] = .reject 400 := by decide
example : bodyKind [⟨hdrTransferEncoding, [99, 104, 117, 110, 107, 101, 100, 44, 103, 122, 105, 112]⟩] = .invalid ∧
    decideBody (-3) false [⟨hdrTransferEncoding, [99, 104, 117, 110, 107, 101, 100, 44, 103, 122, 105, 112]⟩] = .reject 400 := by decide
example : bodyKind [⟨hdrTransferEncoding, tokChunked⟩, ⟨[84, 82, 65, 78, 83, 70, 69, 82, 45, 69, 78, 67, 79, 68, 73, 78, 71], tokChunked⟩] = .invalid ∧
    decideBody (-3) false [⟨hdrTransferEncoding, tokChunked⟩, ⟨[84, 82, 65, 78, 83, 70, 69, 82, 45, 69, 78, 67, 79, 68, 73, 78, 71], tokChunked⟩] = .reject 400 := by decide
example : bodyKind [⟨hdrContentLength, [53]⟩, ⟨[99, 111, 110, 116, 101, 110, 116, 45, 108, 101, 110, 103, 116, 104], [53]⟩] = .invalid ∧
    decideBody (-3) false [⟨hdrContentLength, [53]⟩, ⟨[99, 111, 110, 116, 101, 110, 116, 45, 108, 101, 110, 103, 116, 104], [53]⟩] = .reject 400 := by decide
example : bodyKind [⟨hdrContentLength, [53, 44, 32, 53]⟩] = .invalid ∧
    decideBody (-3) false [⟨hdrContentLength, [53, 44, 32, 53]⟩] = .reject 400 := by decide
example : bodyKind [⟨hdrContentLength, [53]⟩, ⟨hdrTransferEncoding, [67, 104, 117, 110, 107, 101, 100]⟩] = .invalid ∧
    decideBody 1 false [⟨hdrContentLength, [53]⟩, ⟨hdrTransferEncoding, [67, 104, 117, 110, 107, 101, 100]⟩] = .reject 400 ∧
    decideBody 0 false [⟨hdrContentLength, [53]⟩, ⟨hdrTransferEncoding, [67, 104, 117, 110, 107, 101, 100]⟩] = .chunked true := by decide
example : bodyKind [⟨hdrTransferEncoding, tokChunked⟩] = .chunked ∧
    decideBody 3 false [⟨hdrTransferEncoding, tokChunked⟩] = .chunked true := by decide

/-- **every refused head ⇒ error reply + close, no resync**, whatever head parser delivered the
    field list: in `headersReceived` a `reject st` decision queues the error reply, drops the read
    buffer and leaves the connection in a state from which, by `no_reparse`, no byte is ever parsed
    as a request again.  With `decideBody_agrees_reference` / `decideBody_rejects_defects` /
    `host_rule_refuses` this covers each head-level defect class on arbitrary field lists. -/
theorem framing_defect_no_resync [HeadParser] (lvl : Int) (app : App) (s : St) (st : Nat)
    (hs : s.state = .headersReceived) (wf : FlagsWF s)
    (hd : decideBody lvl s.head.http11 s.head.fields = .reject st) :
    idleStep lvl app s = some (errorReply s st) ∧ NoReparse (errorReply s st) ∧ (errorReply s st).buf = [] :=
  reject_no_resync lvl app s st hs wf hd

/-! ## (2) the chunk decoder -/

/-- **decode ∘ encode = id, consumed length = encoding length.**  ∀ level, ∀ body split into any
    chunks (any sizes ≥ 1, any hex rendering of the size incl. leading zeros / either case, any
    chunk extension, BWS where the level admits it, CRLF or — where the level admits it — bare-LF
    line ends), ∀ bytes `rest` that follow: from the start of the body the automaton (i) hands the
    application exactly the chunk data, in order (`uploadAll`, which is one coalesced upload event
    carrying `cs.flatMap data`, see `chunked_upload_is_body`), (ii) consumes exactly
    `encodeChunked cs last` — `rest` is left in the buffer untouched, so the trailer section / next
    request starts at the right byte — and (iii) arrives at `bodyReceived`.  `Steps` = finitely many
    iterations of the idle loop. -/
theorem chunked_decode_encode [HeadParser] [LawfulHeadParser] (lvl : Int) (app : App) (cs : List Chunk) (hcs : ∀ c ∈ cs, ChunkOK lvl c)
    (last : Chunk) (hl : LastOK lvl last) (rest : Bytes)
    (s : St) (hs : s.state = .bodyReceiving) (hch : s.chunked = true) (hrem : s.remaining ≠ 0)
    (hcur : s.cur = 0) (hoff : s.off = 0) (hbuf : s.buf = encodeChunked cs last ++ rest) :
    Steps lvl app s { s with buf := rest, out := uploadAll cs s.out, state := .bodyReceived, remaining := 0 } :=
  steps_chunked_body lvl app cs hcs last hl rest s hs hch hrem hcur hoff hbuf

theorem chunked_upload_is_body (cs : List Chunk) (out : List Ev) (hne : cs ≠ []) :
    uploadAll cs out = emitUpload (cs.flatMap Chunk.data) out :=
  uploadAll_eq cs out hne

/-- Non-vacuity: a lenient-level chunking with an extension, upper-case hex with a leading zero and a
    bare-LF line end satisfies `ChunkOK`, and `Steps` really is about `idle`. -/
example : ChunkOK 0 ⟨[48, 65], [], [59, 120], .lf, [1, 2, 3, 4, 5, 6, 7, 8, 9, 10], .crlf⟩ :=
  { digitsNonempty := by decide, digitsHex := by decide, noOverflow := by decide, bwsWs := by decide,
    bwsLevel := by decide, ext := Or.inr ⟨[120], rfl, by decide⟩, eol := Or.inr (by decide),
    size := by decide, nonEmpty := by decide, dataEolOK := Or.inl rfl }

/-- `Steps` is what the executable `idle` does. -/
theorem steps_idle [HeadParser] [LawfulHeadParser] (lvl : Int) (app : App) (s t : St) (h : Steps lvl app s t) (wf : ChunkWF s) :
    idle lvl app s = idle lvl app t :=
  (idle_of_steps lvl app s t h wf).1

/-- **split independence.**  ∀ level, ∀ application script, ∀ list of segments: feeding the segments
    one by one leaves the connection in the same state — same handler calls with the same (coalesced)
    upload bytes, same replies, same close decision, same bytes left in the buffer — as feeding their
    concatenation in one piece.  Covers head, body (identity and chunked), trailers and pipelining. -/
theorem split_independence [HeadParser] [LawfulHeadParser] (lvl : Int) (app : App) (segs : List Bytes) :
    runSegs lvl app segs = runSegs lvl app [segs.flatten] :=
  runSegs_flatten lvl app segs

/-- … in its incremental form, from any state with ordered chunk counters. -/
theorem feed_feed [HeadParser] [LawfulHeadParser] (lvl : Int) (app : App) (s : St) (wf : ChunkWF s) (a b : Bytes) :
    feed lvl app (feed lvl app s a) b = feed lvl app s (a ++ b) :=
  feed_append lvl app s wf a b

example : @runSegs strictParser 1 (fun _ => .cont 200 false) [[71, 69, 84], [32, 47, 32, 72, 84, 84, 80, 47, 49, 46, 48, 13], [10, 13, 10]]
    = @runSegs strictParser 1 (fun _ => .cont 200 false) [[71, 69, 84, 32, 47, 32, 72, 84, 84, 80, 47, 49, 46, 48, 13, 10, 13, 10]] :=
  @split_independence strictParser strictLawful _ _ _

/-- **malformed chunk syntax ⇒ error.**  ∀ level: a chunk-size line that does not start with a hex
    digit (400); a chunk size that does not fit 64 bits (413); junk between size and line end (400);
    chunk data not followed by CRLF — or a bare LF where the level forbids it (400). -/
theorem malformed_chunk_rejected (lvl : Int) :
    (∀ c rest, isHex c = false → chunkAct lvl 0 0 (c :: rest) = .err httpBadRequest) ∧
    (∀ ds x, ds ≠ [] → (∀ d ∈ ds, isHex d = true) → uint64Max < hexValue ds →
        chunkAct lvl 0 0 (ds ++ x) = .err httpContentTooLarge) ∧
    (∀ ds c d r, ds ≠ [] → (∀ x ∈ ds, isHex x = true) → hexValue ds ≤ uint64Max → isHex c = false →
        c ≠ SEMI → ¬ (bwsAboveLvl < lvl ∧ (c = SP ∨ c = HT)) → ¬ (c = CR ∧ d = LF) →
        ¬ (lvl ≤ bareLfMaxLvl ∧ c = LF) → chunkAct lvl 0 0 (ds ++ c :: d :: r) = .err httpBadRequest) ∧
    (∀ n c d r, n ≠ 0 → ¬ (c = CR ∧ d = LF) → ¬ (lvl ≤ bareLfMaxLvl ∧ c = LF) →
        chunkAct lvl n n (c :: d :: r) = .err httpBadRequest) :=
  ⟨fun c rest => chunkAct_nonhex lvl c rest,
   fun ds x => chunkAct_overflow lvl ds x,
   fun ds c d r => chunkAct_junk_after_size lvl ds c d r,
   fun n c d r hn => chunkAct_missing_crlf lvl n hn c d r⟩

/-- … and never a silent resync: the error reply drops the read buffer and leaves the connection in a
    state from which, by `no_reparse`, no byte is ever parsed as a request again. -/
theorem chunk_error_no_resync [HeadParser] (lvl : Int) (s : St) (st : Nat) (hc : s.chunked = true) (wf : FlagsWF s)
    (ha : chunkAct lvl s.cur s.off s.buf = .err st) :
    bodyStep lvl s = some (errorReply s st) ∧ NoReparse (errorReply s st) ∧ (errorReply s st).buf = [] :=
  bodyStep_err_noReparse lvl s st hc wf ha

example : chunkAct 1 5 5 [10, 48, 13, 10] = .err 400 := by decide

/-- chunk-size line edge cases, per level (tests of the model by kernel evaluation; the ∀-statements
    are `chunked_decode_encode` — every hex rendering incl. leading zeros beyond 16 digits, extensions,
    BWS / bare LF where the level admits them — and `malformed_chunk_rejected`):
    17 significant hex digits ⇒ 413; 18 leading zeros are fine; BWS before `;` only above level 2;
    BWS without extension ⇒ 400; bare LF only up to level 0; an extension may contain anything but LF. -/
example : chunkAct 1 0 0 ([49] ++ List.replicate 16 48 ++ [13, 10]) = .err 413 := by decide
example : chunkAct 1 0 0 (List.replicate 18 48 ++ [53, 13, 10]) = .line 21 5 := by decide
example : chunkAct 3 0 0 [53, 32, 59, 120, 13, 10] = .line 6 5 ∧ chunkAct 2 0 0 [53, 32, 59, 120, 13, 10] = .err 400 := by decide
example : chunkAct 3 0 0 [53, 32, 13, 10] = .err 400 := by decide
example : chunkAct 0 0 0 [53, 10, 97] = .line 2 5 ∧ chunkAct 1 0 0 [53, 10, 97] = .err 400 := by decide
example : chunkAct 1 0 0 [53, 59, 34, 13, 34, 61, 13, 10] = .line 8 5 ∧ chunkAct 1 0 0 [53, 59, 97, 10, 98, 13, 10] = .err 400 := by decide

/-! ## (3) pipelined streams -/

/-- **No desynchronisation on valid streams.**  ∀ level, ∀ list of valid generated requests
    (`MsgOK`: head bytes which the head parser — any lawful one — accepts, delivering any `Head`
    whatsoever (any field list); framing fields for which `decideBody` gives
    the body kind that was rendered — see `decideBody_valid` —, identity body of the announced length
    or any admissible chunking plus a canonical trailer section, no `close`), ∀ application that reads
    every body and replies at the final call, ∀ segmentation of the concatenated stream: the handler is
    presented exactly these requests — methods, targets, body bytes, in order — the connection ends
    in `init` with an empty buffer, ready for request number `ms.length`. -/
theorem pipeline_no_desync [HeadParser] [LawfulHeadParser] (lvl : Int) (app : App) (ms : List Msg) (segs : List Bytes)
    (hok : ∀ m ∈ ms, MsgOK lvl m) (happ : ∀ j, j < ms.length → ∃ st, app j = .cont st false)
    (hsegs : segs.flatten = ms.flatMap Msg.bytes) :
    framesOf (runSegs lvl app segs) = ms.map Msg.seen ∧
    (runSegs lvl app segs).state = .init ∧ (runSegs lvl app segs).buf = [] ∧
    (runSegs lvl app segs).nreq = ms.length := by
  have h := pipeline_frames lvl app ms segs hok happ hsegs
  refine ⟨h.1, ?_, ?_, ?_⟩ <;> rw [h.2] <;> rfl

/-- **`frames (impl stream) = Framer.frames stream`.**  ∀ level, ∀ list of requests whose framing
    fields satisfy RFC 9112 §6.3 (`MsgStrict`: no TE and no CL, or one valid CL of the body's length,
    or TE exactly `chunked` on HTTP/1.1 with no CL — the three valid outcomes of `bodyKind` —; head
    bytes accepted by the (arbitrary lawful) head parser; strict chunk rendering: CRLF only,
    no BWS, any chunk sizes / extensions free of CR and LF), on which the Host rule does not fire,
    ∀ segmentation: the requests the model presents to the handler are exactly the frames of the
    strict reference framer `Framer.frames` (≈ 40 lines in `Mhd.Model.FramingRef`; it delimits heads
    with the same head parser and bodies by RFC 9112 §6.3 / §7.1), which consumes the whole stream. -/
theorem frames_agree_reference [HeadParser] [LawfulHeadParser] (lvl : Int) (app : App) (ms : List Msg) (segs : List Bytes)
    (hms : ∀ m ∈ ms, MsgStrict m) (hh : ∀ m ∈ ms, HostOK lvl m.head.http11 m.head.fields)
    (happ : ∀ j, j < ms.length → ∃ st, app j = .cont st false)
    (hsegs : segs.flatten = ms.flatMap Msg.bytes) :
    framesOf (runSegs lvl app segs) = (Framer.frames lvl segs.flatten).1.map Frame.seen ∧
    (Framer.frames lvl segs.flatten).2 = .incomplete 0 :=
  frames_agree lvl app ms segs hms hh happ hsegs

/-- Non-vacuity of `MsgStrict`: a chunked POST with one 3-byte chunk carrying an extension. -/
example : @MsgStrict strictParser ⟨[80, 79, 83, 84, 32, 47, 32, 72, 84, 84, 80, 47, 49, 46, 49, 13, 10, 72, 111, 115, 116, 58, 32, 104, 13, 10,
                      84, 114, 97, 110, 115, 102, 101, 114, 45, 69, 110, 99, 111, 100, 105, 110, 103, 58, 32, 67, 72, 85, 78, 75, 69, 68, 13, 10, 13, 10],
    ⟨[80, 79, 83, 84], [47], true, [⟨[72, 111, 115, 116], [104]⟩, ⟨hdrTransferEncoding, [67, 72, 85, 78, 75, 69, 68]⟩]⟩,
    .chunked [⟨[51], [], [59, 120], .crlf, [97, 98, 99], .crlf⟩] ⟨[48], [], [], .crlf, [], .crlf⟩ [13, 10]⟩ :=
  @MsgStrict.mk strictParser _ (by decide)
    (⟨⟨[67, 72, 85, 78, 75, 69, 68], by decide, by decide⟩, by decide, rfl,
      fun c hc => by
        simp only [List.mem_singleton] at hc; subst hc
        exact { digitsNonempty := by decide, digitsHex := by decide, noOverflow := by decide, noBws := rfl,
                ext := Or.inr ⟨[120], rfl, by decide⟩, eol := rfl, size := by decide, nonEmpty := by decide, dataEol := rfl },
      { digitsNonempty := by decide, digitsHex := by decide, noOverflow := by decide, noBws := rfl,
        ext := Or.inl rfl, eol := rfl, zero := by decide },
      ⟨[], by decide⟩⟩)
    (by decide) (Or.inl rfl)

/-- What the strict instance accepts is decidable. -/
example : CanonicalHead [71, 69, 84, 32, 47, 32, 72, 84, 84, 80, 47, 49, 46, 48, 13, 10, 13, 10] := by decide

/-- Non-vacuity of `MsgOK`: `GET / HTTP/1.1` + `Host: h`, no body. -/
example : @MsgOK strictParser 3 ⟨[71, 69, 84, 32, 47, 32, 72, 84, 84, 80, 47, 49, 46, 49, 13, 10, 72, 111, 115, 116, 58, 32, 104, 13, 10, 13, 10],
                  ⟨[71, 69, 84], [47], true, [⟨[72, 111, 115, 116], [104]⟩]⟩, .none⟩ :=
  @MsgOK.mk strictParser _ _ (by decide) (Or.inl (by decide)) (by decide) (Or.inl rfl)

/-- The strict splitter is a lawful head parser (non-vacuity of `LawfulHeadParser`; it is the
    instance the correspondence run executes). -/
theorem strict_parser_lawful : @LawfulHeadParser strictParser := strictLawful

/-- Non-vacuity of `MsgOK` on a head that is far from canonical *as a field list*: names in mixed
    case, optional whitespace around values, the same name twice (`x-a`), a list-valued field, a
    `cOnTeNt-LeNgTh` of `003`; identity body `abc`. -/
example : @MsgOK strictParser 1
    ⟨[80, 85, 84, 32, 47, 120, 32, 72, 84, 84, 80, 47, 49, 46, 49, 13, 10, 104, 79, 115, 84, 58, 9, 32, 104, 32, 13, 10,
      120, 45, 97, 58, 49, 13, 10, 88, 45, 65, 58, 32, 97, 44, 32, 98, 32, 44, 99, 13, 10,
      99, 79, 110, 84, 101, 78, 116, 45, 76, 101, 78, 103, 84, 104, 58, 32, 32, 48, 48, 51, 9, 13, 10, 13, 10],
     ⟨[80, 85, 84], [47, 120], true,
      [⟨[104, 79, 115, 84], [104]⟩, ⟨[120, 45, 97], [49]⟩, ⟨[88, 45, 65], [97, 44, 32, 98, 32, 44, 99]⟩,
       ⟨[99, 79, 110, 84, 101, 78, 116, 45, 76, 101, 78, 103, 84, 104], [48, 48, 51]⟩]⟩,
     .identity [97, 98, 99]⟩ :=
  @MsgOK.mk strictParser _ _ (by decide) ⟨by decide, by decide⟩ (by decide) (Or.inl rfl)

/-! ## (3b) a handler that takes only part of the upload data it is offered -/

/-- **A partial take is absorbed.**  ∀ level, ∀ state with ordered chunk counters, ∀ `k`: if the
    body loop offers the handler `n` bytes and the handler takes only `min k n` of them
    (`takeStep`: exactly those bytes are appended to the upload, removed from the front of the read
    buffer — the `memmove` —, and `current_chunk_offset` / `remaining_upload_size` advance by exactly
    that number), then the take-all automaton has a step `s → s'` from the state before, and the
    state after the partial take either is `s'` or reaches `s'` in one step: the bytes left are
    presented again and nothing else — no chunk boundary, no counter — has moved. -/
theorem take_absorbed [HeadParser] [LawfulHeadParser] (lvl : Int) (app : App) (k : Nat) (s s1 : St)
    (h : takeStep lvl k s = some s1) (wf : ChunkWF s) :
    ∃ s', idleStep lvl app s = some s' ∧ ChunkWF s1 ∧ (s1 = s' ∨ idleStep lvl app s1 = some s') :=
  take_confluent lvl app k s s1 h wf

/-- **No desynchronisation under any take pattern.**  ∀ level, ∀ application, ∀ schedule — any
    interleaving of bytes arriving (`bytes b`), idle-loop cases in which the handler takes all it is
    offered (`step`) and body-loop iterations in which it takes at most `k` bytes (`take k`, every
    `k`, 0 included): once the loop has then run to quiescence, the connection is in exactly the
    state that feeding all the arrived bytes in one piece to the take-all automaton produces — the
    same handler calls with the same coalesced upload bytes (concatenation of the bytes taken = the
    body), same chunk position, same replies, same bytes left for the next request. -/
theorem partial_takes_no_desync [HeadParser] [LawfulHeadParser] (lvl : Int) (app : App) (is : List Inp) :
    idle lvl app (runSched lvl app is {}) = runSegs lvl app [is.flatMap Inp.arrived] :=
  sched_eq_runSegs lvl app is

/-- … hence `pipeline_no_desync` for every take pattern: the handler is presented exactly the
    generated requests with exactly their bodies, and the next request starts at the right byte. -/
theorem pipeline_no_desync_takes [HeadParser] [LawfulHeadParser] (lvl : Int) (app : App) (ms : List Msg) (is : List Inp)
    (hok : ∀ m ∈ ms, MsgOK lvl m) (happ : ∀ j, j < ms.length → ∃ st, app j = .cont st false)
    (hbytes : is.flatMap Inp.arrived = ms.flatMap Msg.bytes) :
    framesOf (idle lvl app (runSched lvl app is {})) = ms.map Msg.seen ∧
    (idle lvl app (runSched lvl app is {})).state = .init ∧ (idle lvl app (runSched lvl app is {})).buf = [] ∧
    (idle lvl app (runSched lvl app is {})).nreq = ms.length := by
  rw [partial_takes_no_desync lvl app is]
  exact pipeline_no_desync lvl app ms [is.flatMap Inp.arrived] hok happ (by simpa using hbytes)

/-- Non-vacuity: `POST` with a 5-byte chunk arriving in two pieces; the handler takes 2, then 0,
    then (after the rest has arrived) 1 byte, then all: 3 partial takes really happen (the state
    changes at each), and the upload seen is `hello`. -/
example :
    let s0 : St := { state := .bodyReceiving, chunked := true, remaining := sizeUnknown, buf := [53, 13, 10, 104, 101, 108] }
    let s1 := @runSched strictParser 1 (fun _ => .cont 200 false) [.step, .take 2] s0
    let s2 := @runSched strictParser 1 (fun _ => .cont 200 false) [.take 0, .bytes [108, 111, 13, 10, 48, 13, 10], .take 1] s1
    s1.buf = [108] ∧ s1.off = 2 ∧ s1.out = [.upload [104, 101]] ∧
    s2.buf = [108, 111, 13, 10, 48, 13, 10] ∧ s2.off = 3 ∧ s2.out = [.upload [104, 101, 108]] ∧
    (@idle strictParser 1 (fun _ => .cont 200 false) s2).out.getLast? = some (.upload [104, 101, 108, 108, 111]) := by decide

/-! ## (3c) the composition "C02 parser model + C03 framing model"

  `reqParser lvl rbSize` (`Mhd.Model.FramingReqHead`) runs C02's model of `get_request_line_inner`
  and then C02's model of `get_req_headers` (field lines, folding, bare CR / LF / NUL policy,
  whitespace rules, in-place termination, shift-back) on the bytes of the read buffer and reads C03's
  `Head` off the result: method, raw target, version class, and the field list = the elements of
  kind `MHD_HEADER_KIND` in list order, names and values as they stand in the final buffer.  The
  theorems below are therefore no longer about an abstract parser.

  `_partial`: the composition leaves out `process_request_target` (the target is the raw one —
  no influence on framing), the two checks of the outer `get_request_line` (whitespace in the URI,
  over-long version string ⇒ refusal) and `parse_cookie_header`; trailers are scanned by the
  field-line scanner of the header section.  A head the scanners refuse is `refuse` with the
  scanner's reply (400 / 505 / … or close without reply) ⇒ `head_refusal_no_resync`.  The full
  statement would use `Req.getRequestLineOuter` + `Req.parseCookieHeader`; missing for it: the fact
  that `processRequestTarget` commutes with bytes arriving behind the request line (not exported by
  C02). -/

/-- **A head the parser refuses ⇒ error reply (or close), nothing re-parsed** — every head parser:
    in `init`, a `refuse x` verdict (forbidden bare CR / LF at that level, obs-fold where not
    admitted, whitespace before the colon, bad version, NUL …) makes the automaton queue the error
    reply `x = some code` — connection tainted, `no_reparse` applies — or close without reply
    (`x = none`); the read buffer is dropped in either case. -/
theorem head_refusal_no_resync [HeadParser] (lvl : Int) (app : App) (s : St) (x : Option Nat) (hs : s.state = .init)
    (wf : FlagsWF s) (hp : HeadParser.head s.buf = .refuse x) :
    idleStep lvl app s = some (refuseWith s x) ∧ (refuseWith s x).buf = [] ∧
    (∀ st, x = some st → NoReparse (refuseWith s x)) ∧ (x = none → (refuseWith s x).state = .closed) :=
  refuse_no_resync lvl app s x hs wf hp

/-- **C02's scanners form a lawful head parser**, every level, every read-buffer size: from
    `Req.rlLaws` / `Req.HSP.hsLaws` (a finished run is unchanged by bytes arriving behind it — C02's
    split independence), `Req.rl_run_done` (`RLPost`: shape of every accepted request line) and
    `Req.HSP.run_stable` (every string handed out lies below `read_buffer`). -/
theorem real_parser_lawful (lvl : Int) (rbSize : Nat) : @LawfulHeadParser (reqParser lvl rbSize) :=
  reqParser_lawful lvl rbSize

/-- **No desynchronisation, real head parser.**  `pipeline_no_desync` with the head parser
    instantiated: ∀ level, ∀ read-buffer size, ∀ list of requests whose head bytes C02's scanners
    accept *at that level* (incl. — where the level admits them — bare LF line ends, folded lines,
    whitespace before the colon, bare CR / NUL replaced by SP, leading empty lines) and whose field
    list, as delivered by the scanners, makes `decideBody` announce the body that was rendered,
    ∀ segmentation: the handler is presented exactly these requests, the connection ends in `init`
    with an empty buffer. -/
theorem pipeline_no_desync_real_parser_partial (lvl : Int) (rbSize : Nat) (app : App) (ms : List Msg) (segs : List Bytes)
    (hok : ∀ m ∈ ms, @MsgOK (reqParser lvl rbSize) lvl m) (happ : ∀ j, j < ms.length → ∃ st, app j = .cont st false)
    (hsegs : segs.flatten = ms.flatMap Msg.bytes) :
    framesOf (@runSegs (reqParser lvl rbSize) lvl app segs) = ms.map Msg.seen ∧
    (@runSegs (reqParser lvl rbSize) lvl app segs).state = .init ∧ (@runSegs (reqParser lvl rbSize) lvl app segs).buf = [] ∧
    (@runSegs (reqParser lvl rbSize) lvl app segs).nreq = ms.length :=
  @pipeline_no_desync (reqParser lvl rbSize) (reqParser_lawful lvl rbSize) lvl app ms segs hok happ hsegs

/-- **Agreement with the reference framer, real head parser.**  ∀ level, ∀ read-buffer size: on
    streams of requests whose heads C02's scanners accept and whose *delivered field list* satisfies
    RFC 9112 §6.3 (`MsgStrict`), the requests the model presents are exactly the frames of the
    reference framer.  Where the level lets the real parser accept heads a strict HTTP grammar would
    not (bare LF, obs-fold, whitespace before the colon …), the reference framer is applied to the
    **normalised head** — the field list after the parser's unfolding / replacement / trimming, and
    the head end where the parser found it — and RFC 9112 §6.3 / §7.1 strictly from there on. -/
theorem frames_agree_reference_real_parser_partial (lvl : Int) (rbSize : Nat) (app : App) (ms : List Msg) (segs : List Bytes)
    (hms : ∀ m ∈ ms, @MsgStrict (reqParser lvl rbSize) m) (hh : ∀ m ∈ ms, HostOK lvl m.head.http11 m.head.fields)
    (happ : ∀ j, j < ms.length → ∃ st, app j = .cont st false)
    (hsegs : segs.flatten = ms.flatMap Msg.bytes) :
    framesOf (@runSegs (reqParser lvl rbSize) lvl app segs) = (@Framer.frames (reqParser lvl rbSize) lvl segs.flatten).1.map Frame.seen ∧
    (@Framer.frames (reqParser lvl rbSize) lvl segs.flatten).2 = .incomplete 0 :=
  @frames_agree_reference (reqParser lvl rbSize) (reqParser_lawful lvl rbSize) lvl app ms segs hms hh happ hsegs

/-- … and split independence / take-pattern independence of the composition, for the record. -/
theorem split_independence_real_parser_partial (lvl : Int) (rbSize : Nat) (app : App) (segs : List Bytes) :
    @runSegs (reqParser lvl rbSize) lvl app segs = @runSegs (reqParser lvl rbSize) lvl app [segs.flatten] :=
  @split_independence (reqParser lvl rbSize) (reqParser_lawful lvl rbSize) lvl app segs

/-- Non-vacuity (kernel evaluation of C02's scanners — a test of the example, not a proof step): at
    level 0 the head `PUT /x HTTP/1.1 LF  hOsT: HT SP h SP CRLF  Fold: a CRLF SP SP b LF
    content-LENGTH: 3 CRLF  LF` — bare LF line ends, a folded line, mixed-case names, OWS — is
    accepted and delivers three fields; with the body `abc` it is a `MsgOK`; at level 1 the same
    bytes are refused with 400 (bare LF). -/
example : @MsgOK (reqParser 0 4096) 0
    ⟨[80, 85, 84, 32, 47, 120, 32, 72, 84, 84, 80, 47, 49, 46, 49, 10, 104, 79, 115, 84, 58, 9, 32, 104, 32, 13, 10,
      70, 111, 108, 100, 58, 32, 97, 13, 10, 32, 32, 98, 10,
      99, 111, 110, 116, 101, 110, 116, 45, 76, 69, 78, 71, 84, 72, 58, 32, 51, 13, 10, 10],
     ⟨[80, 85, 84], [47, 120], true,
      [⟨[104, 79, 115, 84], [104]⟩, ⟨[70, 111, 108, 100], [97, 32, 32, 32, 32, 98]⟩,
       ⟨[99, 111, 110, 116, 101, 110, 116, 45, 76, 69, 78, 71, 84, 72], [51]⟩]⟩,
     .identity [97, 98, 99]⟩ :=
  @MsgOK.mk (reqParser 0 4096) _ _ (by decide +kernel) ⟨by decide, by decide⟩ (by decide) (Or.inl rfl)

example : reqHead 1 4096 [80, 85, 84, 32, 47, 120, 32, 72, 84, 84, 80, 47, 49, 46, 49, 10, 104, 79, 115, 84, 58, 9, 32, 104, 32, 13, 10,
      70, 111, 108, 100, 58, 32, 97, 13, 10, 32, 32, 98, 10,
      99, 111, 110, 116, 101, 110, 116, 45, 76, 69, 78, 71, 84, 72, 58, 32, 51, 13, 10, 10] = .refuse (some 400) := by decide +kernel

/-- … and the connection answers 400 with close and drops the pipelined request behind it -/
example : (@runSegs (reqParser 1 4096) 1 (fun _ => .cont 200 false)
    [[80, 85, 84, 32, 47, 120, 32, 72, 84, 84, 80, 47, 49, 46, 49, 10, 104, 58, 49, 13, 10, 13, 10,
      71, 69, 84, 32, 47, 32, 72, 84, 84, 80, 47, 49, 46, 48, 13, 10, 13, 10]]).out = [.close, .reply 400 true] := by decide +kernel

/-- the whole connection with the real parser on that lenient stream followed by a pipelined
    `GET / HTTP/1.0` (kernel evaluation): two requests, the first with body `abc` -/
example : framesOf (@runSegs (reqParser 0 4096) 0 (fun _ => .cont 200 false)
    [[80, 85, 84, 32, 47, 120, 32, 72, 84, 84, 80, 47, 49, 46, 49, 10, 104, 79, 115, 84, 58, 9, 32, 104, 32, 13, 10,
      70, 111, 108, 100, 58, 32, 97, 13, 10, 32, 32, 98, 10,
      99, 111, 110, 116, 101, 110, 116, 45, 76, 69, 78, 71, 84, 72, 58, 32, 51, 13, 10, 10, 97, 98],
     [99, 71, 69, 84, 32, 47, 32, 72, 84, 84, 80, 47, 49, 46, 48, 13, 10, 13, 10]])
    = [⟨[80, 85, 84], [47, 120], [97, 98, 99]⟩, ⟨[71, 69, 84], [47], []⟩] := by decide +kernel

/-! ## (4) the key safety theorem on the connection automaton -/

/-- Once `discard_request ∨ stop_with_error ∨ keepalive = MUST_CLOSE` ("reply carries close")
    holds in a state other than `init`, then after **any** sequence of transitions — idle-loop
    cases under any application behaviour, interleaved with any bytes from the client — the
    automaton is never in `init` again: no later byte reaches the request-line parser
    (`parseHead` is only evaluated in `init`). -/
theorem no_reparse [HeadParser] (lvl : Int) (s s' : St) (hr : Reach lvl s s') (hwf : FlagsWF s)
    (ht : Tainted s) (hs : s.state ≠ .init) : s'.state ≠ .init ∧ Tainted s' :=
  let j := reach_noReparse lvl s s' hr ⟨hwf, ht, hs⟩
  ⟨j.2.2, j.2.1⟩

/-- … and once the current request is past its first handler call, the handler is never shown
    another request: the number of `first` events stays what it is, forever. -/
theorem no_further_request [HeadParser] (lvl : Int) (s s' : St) (hr : Reach lvl s s') (hwf : FlagsWF s)
    (ht : Tainted s) (hp : PastFirst s) : countFirst s'.out = countFirst s.out :=
  (reach_past lvl s s' hr ⟨hwf, ht, hp.1⟩ hp).2.2

/-- The hypothesis `FlagsWF` holds in every state the model can reach from a fresh connection. -/
theorem flagsWF_reachable [HeadParser] (lvl : Int) (s : St) (hr : Reach lvl {} s) : FlagsWF s :=
  reach_flagsWF lvl {} s hr flagsWF_init

/-- Where the taint comes from (i): an error reply (`transmit_error_response_len`). -/
theorem error_reply_taints [HeadParser] (s : St) (status : Nat) (hwf : FlagsWF s) :
    Tainted (errorReply s status) ∧ (errorReply s status).state ≠ .init :=
  (errorReply_props s status hwf).2

/-- **A reply that announces close ON THE WIRE is the last thing the connection serves.**  In
    `no_reparse` "reply carries close" is a flag of the reply.  Here it is the bytes: for every
    response object reachable by any legal sequence of `MHD_add_response_header` /
    `MHD_del_response_header` / footer / option calls from any constructor (C04's model of response.c)
    that stays inside C03's assumptions (`PlainResp`: no upgrade, no HTTP/1.0 response flags, known
    size), queued for the request of framing state `s` (`connOf s` = that connection as the reply
    builder sees it): the complete reply parses, and **if its head has a Connection field with a
    `close` token** (C04's grammar-level `announcesClose`) then the framing automaton's reply step
    leaves the connection tainted, and after **any** further transitions and bytes it is never in
    `init` again and the handler is never shown another request.  Proof: `Mhd.C04.close_announced_iff`
    (wire ⇔ MUST_CLOSE in the reply builder) + agreement of the two models of `keepalive_possible`
    (`ka_bridge`) + `no_reparse` / `no_further_request`. -/
theorem announced_close_no_further_request [HeadParser] (r0 : Mhd.Resp.Resp) (cs : List Mhd.Resp.Call)
    (h0 : (∃ size, r0 = Mhd.Resp.Resp.create size) ∨ (∃ f, f.insanity = false ∧ r0 = Mhd.Resp.Resp.createEmpty f) ∨
      r0 = Mhd.Resp.Resp.createUpgrade)
    (hl : ∀ c ∈ cs, c.Legal) (hplain : PlainResp (Mhd.Resp.runCalls r0 cs))
    (lvl : Int) (app : App) (s : St) (status : Nat) (hs : s.state = .startReply) (wf : FlagsWF s)
    (hresp : s.resp = some (status, (Mhd.Resp.runCalls r0 cs).fa.connClose))
    (st : Mhd.Reply.CState) (allow : Bool) (code0 : Nat) (q : Mhd.Reply.Queued) (src : Mhd.Reply.BodySrc)
    (date : Option Mhd.ReplyStr.Bytes) (wb : Nat)
    (hq : Mhd.Reply.queueResponse (connOf s) st false false allow code0 (Mhd.Resp.runCalls r0 cs) = some q)
    (hdate : ∀ d, date = some d → Mhd.Http.NoCRLF d) (hsz : (Mhd.Resp.runCalls r0 cs).totalSize < 2 ^ 64)
    (hsrc : Mhd.Reply.SrcLegal (Mhd.Resp.runCalls r0 cs) wb src) (hwb : 128 ≤ wb)
    (hcomp : (Mhd.Reply.sendReply (connOf s) (Mhd.Resp.runCalls r0 cs) q src date wb
      (Mhd.Reply.startPosAfterQueue q (Mhd.Resp.runCalls r0 cs) 0)).complete = true) :
    ∃ p, Mhd.Http.parseReply (Mhd.Reply.reqOf (connOf s)) (Mhd.Reply.sendReply (connOf s) (Mhd.Resp.runCalls r0 cs) q src date wb
        (Mhd.Reply.startPosAfterQueue q (Mhd.Resp.runCalls r0 cs) 0)).wire = some p ∧
      (Mhd.Http.announcesClose p.fields = true →
        ∃ s1, idleStep lvl app s = some s1 ∧ NoReparse s1 ∧ PastFirst s1 ∧
          ∀ s', Reach lvl s1 s' → s'.state ≠ .init ∧ countFirst s'.out = countFirst s1.out) :=
  announced_close_taints r0 cs h0 hl hplain lvl app s status hs wf hresp st allow code0 q src date wb hq hdate hsz hsrc hwb hcomp

/-- Non-vacuity, the call sequence of seed C03_7: add `Connection: close`, add `Connection: Foo`
    (value `close, Foo`), delete `Foo` — the response object still carries the close flag, is plain,
    and the calls are legal (kernel evaluation of C04's response model). -/
example :
    let cs : List Mhd.Resp.Call := [.add Mhd.Resp.sConnection [99, 108, 111, 115, 101], .add Mhd.Resp.sConnection [70, 111, 111],
                                    .del Mhd.Resp.sConnection [70, 111, 111]]
    (Mhd.Resp.runCalls (Mhd.Resp.Resp.create 5) cs).fa.connClose = true ∧
    (Mhd.Resp.runCalls (Mhd.Resp.Resp.create 5) cs).upgrade = false ∧
    (Mhd.Resp.runCalls (Mhd.Resp.Resp.create 5) cs).totalSize = 5 := by decide +kernel

/-- For whole runs: whatever was fed before (`segs₁`), if the connection is then tainted and not
    in `init`, no continuation `segs₂` of the stream brings it back to `init` or shows the handler a new request. -/
theorem no_reparse_run [HeadParser] (lvl : Int) (app : App) (segs₁ segs₂ : List Bytes)
    (ht : Tainted (runSegs lvl app segs₁)) (hs : (runSegs lvl app segs₁).state ≠ .init) :
    (runSegs lvl app (segs₁ ++ segs₂)).state ≠ .init := by
  have h1 : Reach lvl {} (runSegs lvl app segs₁) := reach_foldl_feed lvl app segs₁ {}
  have h2 : Reach lvl (runSegs lvl app segs₁) (runSegs lvl app (segs₁ ++ segs₂)) := by
    unfold runSegs; rw [List.foldl_append]; exact reach_foldl_feed lvl app segs₂ _
  exact (no_reparse lvl _ _ h2 (flagsWF_reachable lvl _ h1) ht hs).1

/-- Non-vacuity: Transfer-Encoding + Content-Length at a lenient level leaves the connection, in the
    middle of the body, in a tainted state other than `init` (the hypotheses of `no_reparse`), and an
    early reply ends in `closed`. -/
example :
    (@runSegs strictParser 0 (fun _ => .cont 200 false) [[80, 79, 83, 84, 32, 47, 32, 72, 84, 84, 80, 47, 49, 46, 49, 13, 10, 72, 111, 115, 116, 58, 32, 104, 13, 10, 84, 114, 97, 110, 115, 102, 101, 114, 45, 69, 110, 99, 111, 100, 105, 110, 103, 58, 32, 99, 104, 117, 110, 107, 101, 100, 13, 10, 67, 111, 110, 116, 101, 110, 116, 45, 76, 101, 110, 103, 116, 104, 58, 32, 51, 13, 10, 13, 10, 53, 13, 10, 97, 98]]).keepalive = .mustClose ∧
    (@runSegs strictParser 0 (fun _ => .cont 200 false) [[80, 79, 83, 84, 32, 47, 32, 72, 84, 84, 80, 47, 49, 46, 49, 13, 10, 72, 111, 115, 116, 58, 32, 104, 13, 10, 84, 114, 97, 110, 115, 102, 101, 114, 45, 69, 110, 99, 111, 100, 105, 110, 103, 58, 32, 99, 104, 117, 110, 107, 101, 100, 13, 10, 67, 111, 110, 116, 101, 110, 116, 45, 76, 101, 110, 103, 116, 104, 58, 32, 51, 13, 10, 13, 10, 53, 13, 10, 97, 98]]).state = .bodyReceiving := by decide

example :
    (@runSegs strictParser 0 (fun _ => .early 200 false)
      [[71, 69, 84, 32, 47, 32, 72, 84, 84, 80, 47, 49, 46, 48, 13, 10, 13, 10]]).discard = true ∧
    (@runSegs strictParser 0 (fun _ => .early 200 false)
      [[71, 69, 84, 32, 47, 32, 72, 84, 84, 80, 47, 49, 46, 48, 13, 10, 13, 10]]).state = .closed := by decide

end Mhd.C03
