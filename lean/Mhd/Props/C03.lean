/-
  C03 — Request framing is unambiguous; no desynchronisation.

  Statements only; proofs delegate to `Mhd.Proofs.Framing*`.  The model
  (`Mhd.Model.Framing`, `Chunked`, `FramingConn`) mirrors `parse_connection_headers`,
  `process_request_body`, `transmit_error_response_len`, `MHD_queue_response`,
  `keepalive_possible`, `connection_reset` and the receive side of
  `MHD_connection_handle_idle` of connection.c *with the fixes F2, F3, F9, F16 applied*.

  Domain restriction (explicit): request heads are split by the strict splitter
  `parseHead`; it is the real parser only on canonical heads (`CanonicalHead`, decidable).
  Non-canonical input drives the model into `outOfDomain` (no prediction) — never into a
  silent default.
-/
import Mhd.Proofs.FramingDecide
import Mhd.Proofs.FramingConn

namespace Mhd.C03
open Mhd.Framing Mhd.Gen.Framing Mhd.Framing.Framer

/-! ## (1) the body decision agrees with RFC 9112 §6.3 on every field list that satisfies it -/

/-- ∀ strictness level, ∀ HTTP version, ∀ field list on which the Host rule does not fire:
    no Transfer-Encoding and no Content-Length ⇒ no body; exactly one valid Content-Length ⇒ that
    length; exactly one Transfer-Encoding equal to `chunked` (any case) and no Content-Length ⇒
    chunked (and, for HTTP/1.0, the connection is marked must-close). -/
theorem decideBody_valid (lvl : Int) (http11 : Bool) (fs : List Field) (hh : HostOK lvl http11 fs) :
    (fieldValues fs hdrTransferEncoding = [] → fieldValues fs hdrContentLength = [] →
        decideBody lvl http11 fs = .none) ∧
    (∀ v, fieldValues fs hdrTransferEncoding = [] → fieldValues fs hdrContentLength = [v] → ValidDec v →
        decideBody lvl http11 fs = .len (decValue v)) ∧
    (∀ te, fieldValues fs hdrTransferEncoding = [te] → eqCI te tokChunked = true →
        fieldValues fs hdrContentLength = [] → decideBody lvl http11 fs = .chunked (! http11)) :=
  ⟨decideBody_none lvl http11 fs hh, fun v => decideBody_len lvl http11 fs hh v,
   fun te => decideBody_chunked lvl http11 fs hh te⟩

example : decideBody 1 true [⟨hdrHost, [104]⟩, ⟨[99, 111, 110, 116, 101, 110, 116, 45, 76, 69, 78, 71, 84, 72], [52, 50]⟩]
    = .len 42 := by decide

/-- ∀ levels, ∀ versions, ∀ field lists: every curated framing defect is refused —
    several Content-Length fields (equal or not), several Transfer-Encoding fields, a
    Transfer-Encoding whose first value is not exactly `chunked`, Transfer-Encoding together with
    Content-Length at level ≥ 1, a malformed or unrepresentable single Content-Length,
    a missing Host on HTTP/1.1 above level −3. -/
theorem decideBody_rejects_defects (lvl : Int) (http11 : Bool) (fs : List Field) :
    (2 ≤ (fieldValues fs hdrContentLength).length → decideBody lvl http11 fs = .reject httpBadRequest) ∧
    (2 ≤ (fieldValues fs hdrTransferEncoding).length → decideBody lvl http11 fs = .reject httpBadRequest) ∧
    (∀ te rest, fieldValues fs hdrTransferEncoding = te :: rest → eqCI te tokChunked = false →
        decideBody lvl http11 fs = .reject httpBadRequest) ∧
    (fieldValues fs hdrTransferEncoding ≠ [] → fieldValues fs hdrContentLength ≠ [] → teClRejectFromLvl ≤ lvl →
        decideBody lvl http11 fs = .reject httpBadRequest) ∧
    (∀ v, fieldValues fs hdrTransferEncoding = [] → fieldValues fs hdrContentLength = [v] → ¬ ValidDec v →
        decideBody lvl http11 fs = .reject httpBadRequest ∨ decideBody lvl http11 fs = .reject httpContentTooLarge) ∧
    (hostAboveLvl < lvl → http11 = true → lookup fs hdrHost = none →
        decideBody lvl http11 fs = .reject httpBadRequest) :=
  ⟨decideBody_multi_cl lvl http11 fs, decideBody_multi_te lvl http11 fs,
   fun te rest => decideBody_te_not_chunked lvl http11 fs te rest,
   decideBody_te_cl lvl http11 fs, fun v => decideBody_bad_cl lvl http11 fs v,
   fun hl h11 hn => by subst h11; exact decideBody_no_host lvl fs hl hn⟩

example : decideBody 0 true [⟨hdrHost, [104]⟩, ⟨hdrContentLength, [48]⟩, ⟨hdrContentLength, [51, 54]⟩]
    = .reject 400 := by decide

/-- Below the strict threshold Transfer-Encoding + Content-Length is tolerated (chunked wins),
    but the connection is marked must-close (see `no_reparse`). -/
theorem decideBody_te_cl_tolerated (lvl : Int) (http11 : Bool) (fs : List Field) (hh : HostOK lvl http11 fs)
    (te v : Bytes) (hte : fieldValues fs hdrTransferEncoding = [te]) (hc : eqCI te tokChunked = true)
    (hcl : fieldValues fs hdrContentLength = [v]) (hl : ¬ teClRejectFromLvl ≤ lvl) :
    decideBody lvl http11 fs = .chunked true :=
  decideBody_te_cl_lenient lvl http11 fs hh te v hte hc hcl hl

/-! ## (4) the key safety theorem on the connection automaton -/

/-- Once `discard_request ∨ stop_with_error ∨ keepalive = MUST_CLOSE` ("reply carries close")
    holds in a state other than `init`, then after **any** sequence of transitions — idle-loop
    cases under any application behaviour, interleaved with any bytes from the client — the
    automaton is never in `init` again: no later byte reaches the request-line parser
    (`parseHead` is only evaluated in `init`). -/
theorem no_reparse (lvl : Int) (s s' : St) (hr : Reach lvl s s') (hwf : FlagsWF s)
    (ht : Tainted s) (hs : s.state ≠ .init) : s'.state ≠ .init ∧ Tainted s' :=
  let j := reach_noReparse lvl s s' hr ⟨hwf, ht, hs⟩
  ⟨j.2.2, j.2.1⟩

/-- … and once the current request is past its first handler call, the handler is never shown
    another request: the number of `first` events stays what it is, forever. -/
theorem no_further_request (lvl : Int) (s s' : St) (hr : Reach lvl s s') (hwf : FlagsWF s)
    (ht : Tainted s) (hp : PastFirst s) : countFirst s'.out = countFirst s.out :=
  (reach_past lvl s s' hr ⟨hwf, ht, hp.1⟩ hp).2.2

/-- The hypothesis `FlagsWF` holds in every state the model can reach from a fresh connection. -/
theorem flagsWF_reachable (lvl : Int) (s : St) (hr : Reach lvl {} s) : FlagsWF s :=
  reach_flagsWF lvl {} s hr flagsWF_init

/-- Where the taint comes from (i): an error reply (`transmit_error_response_len`). -/
theorem error_reply_taints (s : St) (status : Nat) (hwf : FlagsWF s) :
    Tainted (errorReply s status) ∧ (errorReply s status).state ≠ .init :=
  (errorReply_props s status hwf).2

/-- For whole runs: whatever was fed before (`segs₁`), if the connection is then tainted and not
    in `init`, no continuation `segs₂` of the stream brings it back to `init` or shows the handler a new request. -/
theorem no_reparse_run (lvl : Int) (app : App) (segs₁ segs₂ : List Bytes)
    (ht : Tainted (runSegs lvl app segs₁)) (hs : (runSegs lvl app segs₁).state ≠ .init) :
    (runSegs lvl app (segs₁ ++ segs₂)).state ≠ .init := by
  have h1 : Reach lvl {} (runSegs lvl app segs₁) := reach_foldl_feed lvl app segs₁ {}
  have h2 : Reach lvl (runSegs lvl app segs₁) (runSegs lvl app (segs₁ ++ segs₂)) := by
    unfold runSegs; rw [List.foldl_append]; exact reach_foldl_feed lvl app segs₂ _
  exact (no_reparse lvl _ _ h2 (flagsWF_reachable lvl _ h1) ht hs).1

/-- Non-vacuity: an early reply really produces a tainted non-`init` state from which bytes keep coming. -/
example :
    (runSegs 0 (fun _ => .early 200 false)
      [[71, 69, 84, 32, 47, 32, 72, 84, 84, 80, 47, 49, 46, 48, 13, 10, 13, 10]]).discard = true ∧
    (runSegs 0 (fun _ => .early 200 false)
      [[71, 69, 84, 32, 47, 32, 72, 84, 84, 80, 47, 49, 46, 48, 13, 10, 13, 10]]).state = .closed := by decide

end Mhd.C03
