/-
  C15 — POST processor returns the encoded fields for every split of the body.

  Statements only; the proofs are in `Mhd.Proofs.PP*`.  The model (`Mhd.Model.PP*`) mirrors
  src/microhttpd/postprocessor.c; `run n ctype chunks` is the complete life of a post processor:
  `MHD_create_post_processor` with buffer size `n` for a request whose Content-Type is `ctype`,
  one `MHD_post_process` call per element of `chunks`, `MHD_destroy_post_processor`.
  `pp.evs` is the list of iterator calls, `pp.fault` an access outside an object.

  `Delivers evs fields` (Mhd.Proofs.PPSpec): the calls deliver exactly `fields`, in order — per
  field at least one call, every call with the field's key / file name / type / encoding,
  offsets contiguous from 0, data concatenating to the value.
-/
import Mhd.Proofs.PPUrl
import Mhd.Proofs.PPMulti
import Mhd.Proofs.PPUrlSafe
import Mhd.Proofs.PPMxSyn

namespace Mhd.C15
open Mhd.PP

/-! ## application/x-www-form-urlencoded -/

/-- Round trip for **every conforming rendering**: `fields` are lists of tokens (a literal byte
    other than NUL `% & = CR LF` — `+` standing for a space — or `%XY` with two hex digits of either
    case), keys non-empty and shorter than the key buffer (`n + 4` bytes); the text
    `k1=v1&k2=v2…` may be followed by any number of CR/LF.  For **every** buffer size `n`, and
    **every** split of the text into chunks (any number, empty ones included): the life of the post
    processor ends with `MHD_YES`, no access leaves an object, and the iterator calls deliver exactly
    the decoded fields in order (keys as C strings). -/
theorem url_roundtrip_tokens (n : Nat) (fields : List FieldT) (nl : Bytes) (chunks : List Bytes)
    (hok : ∀ f ∈ fields, f.Ok (n + Mhd.Gen.PP.bufferSlack)) (hnl : IsNl nl)
    (hc : chunks.flatten = encF fields ++ nl) :
    ∃ pp, run n Mhd.Gen.PP.encUrl chunks = some (pp, true) ∧ pp.fault = none ∧
      Delivers pp.evs (fields.map fld) :=
  url_roundtrip_tok n fields nl chunks hok hnl hc

/-- … and every single `MHD_post_process` call on the way returns `MHD_YES`. -/
theorem url_every_call_accepts (n : Nat) (fields : List FieldT) (nl : Bytes) (chunks : List Bytes)
    (hok : ∀ f ∈ fields, f.Ok (n + Mhd.Gen.PP.bufferSlack)) (hnl : IsNl nl)
    (hc : chunks.flatten = encF fields ++ nl)
    (pre : List Bytes) (c : Bytes) (post : List Bytes) (hs : chunks = pre ++ c :: post) :
    (feed (feedAll { isUrl := true, bufferSize := n + Mhd.Gen.PP.bufferSlack } pre) c).2 = true :=
  feedAll_rets hok hnl chunks [] _ (by rw [List.append_nil, hc]; exact good_init n fields nl) pre c post hs

/-- Round trip for the reference encoder `encodeUrl` (unreserved bytes literal, space as `+`,
    everything else `%XX`): binary values, empty values, percent signs, `&`, `=`, CR, LF, NUL in
    values are all covered; keys are non-empty C strings whose encoding fits the key buffer. -/
theorem url_roundtrip (n : Nat) (fields : List (Bytes × Bytes)) (chunks : List Bytes)
    (hk : ∀ kv ∈ fields, kv.1 ≠ [] ∧ (∀ c ∈ kv.1, c ≠ 0) ∧ (encStr kv.1).length < n + Mhd.Gen.PP.bufferSlack)
    (hc : chunks.flatten = encodeUrl fields) :
    ∃ pp, run n Mhd.Gen.PP.encUrl chunks = some (pp, true) ∧ pp.fault = none ∧
      Delivers pp.evs (fields.map fun kv => (urlMeta kv.1, kv.2)) := by
  have hok : ∀ f ∈ fields.map tokField, f.Ok (n + Mhd.Gen.PP.bufferSlack) := by
    intro f hf
    simp only [List.mem_map] at hf
    obtain ⟨kv, hkv, rfl⟩ := hf
    obtain ⟨h1, _, h3⟩ := hk kv hkv
    refine ⟨?_, allOk_map_tokOf _, allOk_map_tokOf _, by simpa [tokField, rawOf_map_tokOf] using h3⟩
    simpa [tokField] using h1
  obtain ⟨pp, h1, h2, h3⟩ := url_roundtrip_tok n (fields.map tokField) [] chunks hok (by intro c h; cases h)
    (by rw [hc, encodeUrl_eq]; simp)
  refine ⟨pp, h1, h2, ?_⟩
  have : (fields.map tokField).map fld = fields.map fun kv => (urlMeta kv.1, kv.2) := by
    rw [List.map_map]
    apply List.map_congr_left
    intro kv hkv
    simp [fld, tokField, decOf_map_tokOf, cstr_of_no_zero kv.1 (hk kv hkv).2.1]
  rw [← this]; exact h3

/-- Split independence: two arbitrary splits of the same well-formed text deliver the same fields. -/
theorem url_split_independent (n : Nat) (fields : List FieldT) (nl : Bytes) (chunks₁ chunks₂ : List Bytes)
    (hok : ∀ f ∈ fields, f.Ok (n + Mhd.Gen.PP.bufferSlack)) (hnl : IsNl nl)
    (h₁ : chunks₁.flatten = encF fields ++ nl) (h₂ : chunks₂.flatten = chunks₁.flatten) :
    ∃ pp₁ pp₂, run n Mhd.Gen.PP.encUrl chunks₁ = some (pp₁, true) ∧ run n Mhd.Gen.PP.encUrl chunks₂ = some (pp₂, true) ∧
      Delivers pp₁.evs (fields.map fld) ∧ Delivers pp₂.evs (fields.map fld) := by
  obtain ⟨p1, a1, _, a3⟩ := url_roundtrip_tok n fields nl chunks₁ hok hnl h₁
  obtain ⟨p2, b1, _, b3⟩ := url_roundtrip_tok n fields nl chunks₂ hok hnl (h₂.trans h₁)
  exact ⟨p1, p2, a1, b1, a3, b3⟩

/-- Memory safety for **every input** (well-formed or not), every split, every buffer size and every
    Content-Type that selects the urlencoded parser: no access leaves an object (key buffer, `pp->xbuf`,
    the on-stack `xbuf[XBUF_SIZE + 1]`, the caller's `post_data`), `abort ()`/`MHD_PANIC` are never
    reached, and both loops of the model end within their fuel (i.e. they terminate). -/
theorem url_no_fault (n : Nat) (ctype : Bytes) (pp0 : PP) (chunks : List Bytes)
    (hc : create n ctype = some pp0) (hu : pp0.isUrl = true) :
    (destroy (feedAll pp0 chunks)).1.fault = none :=
  Mhd.PP.url_no_fault n ctype pp0 chunks hc hu

/-- Non-vacuity of `url_no_fault`: the standard content type creates an urlencoded post processor. -/
example : ∃ pp0, create 256 Mhd.Gen.PP.encUrl = some pp0 ∧ pp0.isUrl = true :=
  ⟨_, create_url 256, rfl⟩

/-- Non-vacuity: two fields (`a A` with value `%&`, `b` with the empty value), rendered
    `a+%41=%25%26&b=` and split inside an escape, inside a key, and with an empty chunk;
    smallest legal buffer. -/
example : ∃ pp, run 256 Mhd.Gen.PP.encUrl
      [[0x61, 0x2B, 0x25, 0x34], [0x31, 0x3D, 0x25, 0x32, 0x35, 0x25, 0x32], [], [0x36, 0x26], [0x62, 0x3D]] = some (pp, true)
    ∧ pp.fault = none ∧
    Delivers pp.evs (List.map fld
      [⟨[.lit 0x61, .lit 0x2B, .esc 0x34 0x31], [.esc 0x32 0x35, .esc 0x32 0x36]⟩, ⟨[.lit 0x62], []⟩]) :=
  url_roundtrip_tokens 256
    [⟨[.lit 0x61, .lit 0x2B, .esc 0x34 0x31], [.esc 0x32 0x35, .esc 0x32 0x36]⟩, ⟨[.lit 0x62], []⟩] [] _
    (by decide) (by intro c h; cases h) (by decide)

/-- Non-vacuity for the reference encoder: key `k y`, binary value `00 25 ff`; key `z`, empty value. -/
example : ∃ pp, run 300 Mhd.Gen.PP.encUrl [encodeUrl [([0x6B, 0x20, 0x79], [0, 0x25, 0xff]), ([0x7A], [])]] = some (pp, true)
    ∧ pp.fault = none ∧
    Delivers pp.evs [(urlMeta [0x6B, 0x20, 0x79], [0, 0x25, 0xff]), (urlMeta [0x7A], [])] :=
  url_roundtrip 300 [([0x6B, 0x20, 0x79], [0, 0x25, 0xff]), ([0x7A], [])] _ (by decide) (by simp)

/-! ## multipart/form-data -/

/-- Multipart, **every input (well-formed or not), every split, every buffer size and boundary**:
    no access leaves an object (`fault = none` — in particular the window `buf[0 .. buffer_pos)` is
    never read beyond `buffer_pos`, `memmove` never gets a negative size, the nested boundary is never
    NULL where it is used, `MHD_PANIC` is never reached) and the `while` loop of
    `post_process_multipart` terminates (a potential that every iteration lowers: `Mhd.PP.phi`);
    **no fabricated data**: every delivered value byte is a byte of the input; and if every
    `MHD_post_process` call returned `MHD_YES`, every delivered piece is a contiguous piece of the input. -/
theorem multipart_all_inputs (n : Nat) (ctype : Bytes) (pp0 : PP) (chunks : List Bytes)
    (hc : create n ctype = some pp0) (hu : pp0.isUrl = false) :
    (destroy (feedAll pp0 chunks)).1.fault = none ∧
      (∀ e ∈ (destroy (feedAll pp0 chunks)).1.evs, ∀ b ∈ e.data, b ∈ chunks.flatten) ∧
      ((feedAllYes pp0 chunks).2 = true →
        ∀ e ∈ (destroy (feedAll pp0 chunks)).1.evs, e.data <:+: chunks.flatten) :=
  Mhd.PP.multipart_all_inputs n ctype pp0 chunks hc hu

/-- Non-vacuity: `multipart/form-data; boundary=AaB03x` with the smallest buffer creates a multipart
    post processor, so the hypotheses above are satisfiable (for every chunk list). -/
example : ∃ pp0, create 256 (Mhd.Gen.PP.encMultipart ++
      [0x3B, 0x20, 0x62, 0x6F, 0x75, 0x6E, 0x64, 0x61, 0x72, 0x79, 0x3D, 0x41, 0x61, 0x42, 0x30, 0x33, 0x78]) = some pp0
    ∧ pp0.isUrl = false ∧ pp0.boundary = [0x41, 0x61, 0x42, 0x30, 0x33, 0x78] := by
  have h : (create 256 (Mhd.Gen.PP.encMultipart ++
      [0x3B, 0x20, 0x62, 0x6F, 0x75, 0x6E, 0x64, 0x61, 0x72, 0x79, 0x3D, 0x41, 0x61, 0x42, 0x30, 0x33, 0x78])).map
      (fun p => (p.isUrl, p.boundary)) = some (false, [0x41, 0x61, 0x42, 0x30, 0x33, 0x78]) := by decide +kernel
  cases hc : create 256 (Mhd.Gen.PP.encMultipart ++
      [0x3B, 0x20, 0x62, 0x6F, 0x75, 0x6E, 0x64, 0x61, 0x72, 0x79, 0x3D, 0x41, 0x61, 0x42, 0x30, 0x33, 0x78]) with
  | none => rw [hc] at h; cases h
  | some p =>
    rw [hc] at h
    simp only [Option.map_some, Option.some.injEq, Prod.mk.injEq] at h
    exact ⟨p, rfl, h.1, h.2⟩

/-- **Round trip, single-level multipart/form-data, EVERY split, every buffer size and boundary.**
    `parts` is any list of fields (name, optional file name / content type / transfer encoding, value:
    arbitrary bytes — CR, LF, NUL, `--`, boundary look-alikes included); `encodeMultipart` is the standard
    rendering `--B CRLF headers CRLF CRLF value CRLF … --B-- CRLF`.  Side conditions:
    * `boundaryFresh`: the delimiter `CRLF--B` does not occur in a value (nor across the end of a value
      and the delimiter that follows it) — decidable;
    * `PartOk (n+4) p`: every header line of `p` is shorter than the buffer (`n + 4` bytes) and free of
      CR/LF, is read back to the intended four strings by the line parser of `process_multipart_headers`
      (`hdrM` folds `try_get_value`/`try_match_header` over the lines — decidable; it fails e.g. for a
      name containing ` filename=` or a content type containing `Content-Transfer-Encoding: `), and the
      content type is not `multipart/mixed` (nested containers: `multipart_nested_roundtrip`);
    * the boundary is not empty (`create` already guarantees `2·|B|+2 ≤ n`).
    Then for **every** list of chunks whose concatenation is the body: every `MHD_post_process` call returns
    `MHD_YES`, `MHD_destroy_post_processor` returns `MHD_YES`, no access leaves an object, and the iterator
    calls deliver exactly the fields, in order, each with its key / file name / content type / encoding,
    offsets contiguous from 0, data concatenating to the value (`Delivers`). -/
theorem multipart_roundtrip (n : Nat) (ctype : Bytes) (pp0 : PP) (parts : List Part) (chunks : List Bytes)
    (hc : create n ctype = some pp0) (hu : pp0.isUrl = false) (hB : 1 ≤ pp0.boundary.length)
    (hfresh : boundaryFresh pp0.boundary parts = true) (hp : ∀ p ∈ parts, PartOk (n + 4) p)
    (hch : chunks.flatten = encodeMultipart pp0.boundary parts) :
    ∃ pp, run n ctype chunks = some (pp, true) ∧ pp.fault = none ∧ Delivers pp.evs (parts.map fieldOf) ∧
      ∀ pre ch post, chunks = pre ++ ch :: post → (feed (feedAll pp0 pre) ch).2 = true :=
  Mhd.PP.multipart_roundtrip n ctype pp0 parts chunks hc hu hB hfresh hp hch

/-- Split independence for multipart: two arbitrary splits of the same well-formed body deliver the same
    fields (the pieces may be cut differently, their concatenation per field is the same). -/
theorem multipart_split_independent (n : Nat) (ctype : Bytes) (pp0 : PP) (parts : List Part)
    (chunks₁ chunks₂ : List Bytes)
    (hc : create n ctype = some pp0) (hu : pp0.isUrl = false) (hB : 1 ≤ pp0.boundary.length)
    (hfresh : boundaryFresh pp0.boundary parts = true) (hp : ∀ p ∈ parts, PartOk (n + 4) p)
    (h₁ : chunks₁.flatten = encodeMultipart pp0.boundary parts) (h₂ : chunks₂.flatten = chunks₁.flatten) :
    ∃ pp₁ pp₂, run n ctype chunks₁ = some (pp₁, true) ∧ run n ctype chunks₂ = some (pp₂, true) ∧
      Delivers pp₁.evs (parts.map fieldOf) ∧ Delivers pp₂.evs (parts.map fieldOf) := by
  obtain ⟨p1, a1, _, a3, _⟩ := Mhd.PP.multipart_roundtrip n ctype pp0 parts chunks₁ hc hu hB hfresh hp h₁
  obtain ⟨p2, b1, _, b3, _⟩ := Mhd.PP.multipart_roundtrip n ctype pp0 parts chunks₂ hc hu hB hfresh hp (h₂.trans h₁)
  exact ⟨p1, p2, a1, b1, a3, b3⟩

/-! Non-vacuity: boundary `AaB03x`, smallest buffer; field `k1` with the binary value
    `a CR LF - - A a B 0 3 00 ff` (a boundary look-alike: the delimiter minus its last byte), and a file
    field `f` (`a.txt`, `text/plain`, `binary`) with the empty value; the body is cut inside the first
    value, then a 1-byte piece, an empty piece, and the rest. -/

def exCtype : Bytes := Mhd.Gen.PP.encMultipart ++ ofStr "; boundary=AaB03x"
def exParts : List Part :=
  [{ name := ofStr "k1", value := [0x61, 0x0D, 0x0A, 0x2D, 0x2D, 0x41, 0x61, 0x42, 0x30, 0x33, 0x00, 0xFF] },
   { name := ofStr "f", filename := some (ofStr "a.txt"), ctype := some (ofStr "text/plain"),
     enc := some (ofStr "binary"), value := [] }]

theorem exCreate : ∃ pp0, create 256 exCtype = some pp0 ∧ pp0.isUrl = false ∧ pp0.boundary = ofStr "AaB03x" := by
  have h : (create 256 exCtype).map (fun p => (p.isUrl, p.boundary)) = some (false, ofStr "AaB03x") := by decide +kernel
  cases hc : create 256 exCtype with
  | none => rw [hc] at h; cases h
  | some p =>
    rw [hc] at h
    simp only [Option.map_some, Option.some.injEq, Prod.mk.injEq] at h
    exact ⟨p, rfl, h.1, h.2⟩

theorem exPartOk : ∀ p ∈ exParts, PartOk (256 + 4) p := by
  intro p hp
  simp only [exParts, List.mem_cons, List.mem_nil_iff, or_false] at hp
  rcases hp with rfl | rfl
  · refine ⟨?_, by decide +kernel, by intro ct h; cases h⟩
    intro ln hln
    simp only [hdrLines, List.mem_cons, List.append_nil, List.mem_nil_iff, or_false] at hln
    subst hln
    unfold LineOk
    decide +kernel
  · refine ⟨?_, by decide +kernel, by intro ct h; cases h; decide +kernel⟩
    intro ln hln
    simp only [hdrLines, List.mem_cons, List.cons_append, List.nil_append, List.mem_nil_iff, or_false] at hln
    unfold LineOk
    rcases hln with rfl | rfl | rfl <;> decide +kernel

theorem exSplit (E : Bytes) : [E.take 70, (E.drop 70).take 1, [], E.drop 71].flatten = E := by
  have : E.drop 71 = (E.drop 70).drop 1 := by rw [List.drop_drop]
  simp only [List.flatten_cons, List.flatten_nil, List.nil_append, List.append_nil, this, List.take_append_drop]

example : ∃ pp, run 256 exCtype [(encodeMultipart (ofStr "AaB03x") exParts).take 70,
      ((encodeMultipart (ofStr "AaB03x") exParts).drop 70).take 1, [],
      (encodeMultipart (ofStr "AaB03x") exParts).drop 71] = some (pp, true) ∧ pp.fault = none ∧
    Delivers pp.evs (exParts.map fieldOf) := by
  obtain ⟨pp0, h1, h2, h3⟩ := exCreate
  obtain ⟨pp, r1, r2, r3, _⟩ := multipart_roundtrip 256 exCtype pp0 exParts _ h1 h2 (by rw [h3]; decide +kernel)
    (by rw [h3]; decide +kernel) exPartOk (by rw [h3]; exact exSplit _)
  exact ⟨pp, r1, r2, r3⟩

/-- **Round trip with nested multipart/mixed and arbitrary header spelling, EVERY split.**
    `items` is a list of rendered body parts (`Mhd.PP.Item`): a form field (`.field`: any header lines,
    the metadata they stand for, the value), or a `multipart/mixed` container (`.mixed`: its header
    lines, field name, Content-Type value ending in `boundary=nb`, the files with their own header
    lines and values); `encodeItems` writes `--B CRLF lines CRLF CRLF value CRLF …`, a container as
    `--nb CRLF lines CRLF CRLF value CRLF … --nb-- CRLF`, and `--B-- CRLF` at the end.
    `ItemOk`: header lines shorter than the buffer and free of CR/LF; the line parser of
    `process_multipart_headers` reads the intended strings from them (for a file inside a container:
    started with the container's name — so header names in any letter case, extra parameters etc. are
    all covered as long as the parser reads them right: decidable); the delimiter of the level does
    not occur in a value; `2 ≤ |nb|+…` fits the buffer.  Then for every split: every call returns
    `MHD_YES`, no fault, and the iterator calls deliver exactly `flat items` in order: every file of a
    container under the container's name with its own file name / type / encoding, and **every field
    after a container under its own key, file name, content type and encoding** (the `have` marks and
    `free_unmarked` after `PP_PerformCleanup` are part of the invariant: `MMain.hdr` demands that the
    cleanup state leaves all four strings NULL). -/
theorem multipart_nested_roundtrip (n : Nat) (ctype : Bytes) (pp0 : PP) (items : List Item) (chunks : List Bytes)
    (hc : create n ctype = some pp0) (hu : pp0.isUrl = false) (hB : 1 ≤ pp0.boundary.length)
    (hit : ∀ it ∈ items, ItemOk (n + 4) pp0.boundary it)
    (hch : chunks.flatten = encodeItems pp0.boundary items) :
    ∃ pp, run n ctype chunks = some (pp, true) ∧ pp.fault = none ∧ Delivers pp.evs (flat items) ∧
      ∀ pre ch post, chunks = pre ++ ch :: post → (feed (feedAll pp0 pre) ch).2 = true :=
  Mhd.PP.multipart_items_roundtrip n ctype pp0 items chunks hc hu hB hit hch

/-! Non-vacuity: a container `files` (nested boundary `BbC04y`) with one file `f1.txt` (`text/plain`,
    value `abc`), FOLLOWED by a plain field `after` whose header is written in lower case; cut as above. -/

def exItems : List Item :=
  [.mixed [ofStr "Content-Disposition: form-data; name=\"files\"", ofStr "Content-Type: multipart/mixed; boundary=BbC04y"]
      (ofStr "files") (ofStr "multipart/mixed; boundary=BbC04y") (ofStr "BbC04y")
      [⟨[ofStr "Content-Disposition: attachment; filename=\"f1.txt\"", ofStr "Content-Type: text/plain"],
        ⟨some (ofStr "files"), some (ofStr "f1.txt"), some (ofStr "text/plain"), none⟩, ofStr "abc"⟩],
   .field ⟨[ofStr "content-disposition: form-data; name=\"after\""], ⟨some (ofStr "after"), none, none, none⟩, ofStr "x"⟩]

theorem exItemsOk : ∀ it ∈ exItems, ItemOk (256 + 4) (ofStr "AaB03x") it := by
  intro it hit
  simp only [exItems, List.mem_cons, List.mem_nil_iff, or_false] at hit
  rcases hit with rfl | rfl
  · refine .mixed _ _ _ _ _ ?_ (by decide +kernel) (by decide +kernel) (by decide +kernel) (by decide +kernel)
      (by decide +kernel) ?_
    · intro ln hln
      simp only [List.mem_cons, List.mem_nil_iff, or_false] at hln
      unfold LineOk
      rcases hln with rfl | rfl <;> decide +kernel
    · intro q hq
      simp only [List.mem_cons, List.mem_nil_iff, or_false] at hq
      subst hq
      refine ⟨?_, by decide +kernel, by unfold FreshFor; decide +kernel⟩
      intro ln hln
      simp only [List.mem_cons, List.mem_nil_iff, or_false] at hln
      unfold LineOk
      rcases hln with rfl | rfl <;> decide +kernel
  · refine .field _ ⟨?_, by decide +kernel, by unfold FreshFor; decide +kernel⟩ (by intro ct h; cases h)
    intro ln hln
    simp only [List.mem_cons, List.mem_nil_iff, or_false] at hln
    subst hln
    unfold LineOk
    decide +kernel

example : ∃ pp, run 256 exCtype [(encodeItems (ofStr "AaB03x") exItems).take 70,
      ((encodeItems (ofStr "AaB03x") exItems).drop 70).take 1, [],
      (encodeItems (ofStr "AaB03x") exItems).drop 71] = some (pp, true) ∧ pp.fault = none ∧
    Delivers pp.evs (flat exItems) := by
  obtain ⟨pp0, h1, h2, h3⟩ := exCreate
  obtain ⟨pp, r1, r2, r3, _⟩ := multipart_nested_roundtrip 256 exCtype pp0 exItems _ h1 h2 (by rw [h3]; decide +kernel)
    (by rw [h3]; exact exItemsOk) (by rw [h3]; exact exSplit _)
  exact ⟨pp, r1, r2, r3⟩

/-- **… with a preamble.**  The body may start with arbitrary text before the first delimiter (RFC 2046
    §5.1.1 allows a preamble and tells implementations to ignore it), as long as `"--" ++ B` does not start
    inside it (`PreOk`, decidable): `PP_Init` skips it — up to the next `-` each time — and the rest is as
    above. -/
theorem multipart_preamble_roundtrip (n : Nat) (ctype : Bytes) (pp0 : PP) (items : List Item) (chunks : List Bytes)
    (pre : Bytes) (hc : create n ctype = some pp0) (hu : pp0.isUrl = false) (hB : 1 ≤ pp0.boundary.length)
    (hit : ∀ it ∈ items, ItemOk (n + 4) pp0.boundary it) (hpre : PreOk pp0.boundary pre)
    (hch : chunks.flatten = pre ++ encodeItems pp0.boundary items) :
    ∃ pp, run n ctype chunks = some (pp, true) ∧ pp.fault = none ∧ Delivers pp.evs (flat items) ∧
      ∀ pre ch post, chunks = pre ++ ch :: post → (feed (feedAll pp0 pre) ch).2 = true :=
  Mhd.PP.multipart_items_roundtrip_pre n ctype pp0 items chunks pre hc hu hB hit hpre hch

/-- Non-vacuity: the items above after the preamble `This is a multi-part message.-\r\n`. -/
example : ∃ pp, run 256 exCtype [ofStr "This is a multi-part message.-\r\n" ++ encodeItems (ofStr "AaB03x") exItems]
      = some (pp, true) ∧ pp.fault = none ∧ Delivers pp.evs (flat exItems) := by
  obtain ⟨pp0, h1, h2, h3⟩ := exCreate
  obtain ⟨pp, r1, r2, r3, _⟩ := multipart_preamble_roundtrip 256 exCtype pp0 exItems _
    (ofStr "This is a multi-part message.-\r\n") h1 h2 (by rw [h3]; decide +kernel)
    (by rw [h3]; exact exItemsOk) (by rw [h3]; unfold PreOk; decide +kernel)
    (by rw [h3, List.flatten_cons, List.flatten_nil, List.append_nil])
  exact ⟨pp, r1, r2, r3⟩

/-- **Round trip in the reference encoding under purely syntactic side conditions** (`PartPlain`): name and
    file name without NUL, `"`, CR, LF; content type and transfer encoding without NUL, CR, LF; content
    type not `multipart/mixed`; every header line shorter than the buffer; plus `boundaryFresh`.  (After
    fix F34 the line parser reads every such header back exactly: `Mhd.PP.hdr_of_plain`.) -/
theorem multipart_roundtrip_syntactic (n : Nat) (ctype : Bytes) (pp0 : PP) (parts : List Part) (chunks : List Bytes)
    (hc : create n ctype = some pp0) (hu : pp0.isUrl = false) (hB : 1 ≤ pp0.boundary.length)
    (hfresh : boundaryFresh pp0.boundary parts = true) (hp : ∀ p ∈ parts, PartPlain (n + 4) p)
    (hch : chunks.flatten = encodeMultipart pp0.boundary parts) :
    ∃ pp, run n ctype chunks = some (pp, true) ∧ pp.fault = none ∧ Delivers pp.evs (parts.map fieldOf) ∧
      ∀ pre ch post, chunks = pre ++ ch :: post → (feed (feedAll pp0 pre) ch).2 = true :=
  Mhd.PP.multipart_roundtrip_syntactic n ctype pp0 parts chunks hc hu hB hfresh hp hch

/-- Non-vacuity of `PartPlain`: the file field of `exParts` and a name that used to trip the parser. -/
def exQuirk : Part :=
  { name := ofStr "a filename=", filename := some (ofStr "y.txt"), ctype := some (ofStr "text/plain; x=\"y\""), enc := some (ofStr "binary"), value := [] }

example : PartPlain (256 + 4) exQuirk := by
  refine ⟨by unfold Plain; decide +kernel, ?_, ?_, ?_, ?_⟩
  · intro f hf; cases hf; unfold Plain; decide +kernel
  · intro t ht; cases ht; exact ⟨by unfold NoCtl; decide +kernel, by decide +kernel⟩
  · intro e he; cases he; unfold NoCtl; decide +kernel
  · decide +kernel

/-- **Epilogue.**  What the code does with bytes after the closing delimiter line `--B-- CRLF`: they are
    NOT ignored — `PP_Done` with more data makes `MHD_post_process` return `MHD_NO` (state `PP_Error`) and
    `MHD_destroy_post_processor` return `MHD_NO`; the fields have all been delivered before.  Kernel-checked
    on the body of `exParts` followed by the epilogue `x` (one call): both results `MHD_NO`, 2 iterator
    calls.  (RFC 2046 §5.1.1 says an epilogue is to be ignored; the property text does not cover it.  A
    trailing CRLF-less end `--B--` is accepted: `PP_Done` with `skip_rn = RN_Full`.) -/
example : ((create 256 exCtype).map fun pp0 =>
      let r := feed pp0 (encodeMultipart (ofStr "AaB03x") exParts ++ ofStr "x")
      (r.2, (destroy r.1).2, r.1.evs.length, r.1.fault)) = some (false, false, 2, none) := by decide +kernel

/-! Finding F34 (fixed in /repo 3c7e4de, model follows the fixed code): before the fix `try_get_value`
    matched ` filename=` inside the quoted name and `try_match_header` matched a header name anywhere in a
    line.  Kernel-checked: with the fixed parser the `hdr` clause of `PartOk` holds for these conforming
    parts (on the unfixed code the first reported the file name `; filename=`, the second the
    transfer encoding `foo"`). -/
example : (hdrLines { name := ofStr "a filename=", filename := some (ofStr "y.txt"), value := [] }).foldl hdrM none4
    = metaP { name := ofStr "a filename=", filename := some (ofStr "y.txt"), value := [] } := by decide +kernel
example : (hdrLines { name := ofStr "k", ctype := some (ofStr "text/plain; x=\"Content-Transfer-Encoding: foo\""), value := [] }).foldl hdrM none4
    = metaP { name := ofStr "k", ctype := some (ofStr "text/plain; x=\"Content-Transfer-Encoding: foo\""), value := [] } := by decide +kernel

/-
  Still not proved: the syntactic condition is proved for the reference rendering of top-level fields
  (`PartPlain`); for arbitrary renderings / nested containers the `hdr` clauses of `RPartOk` / `ItemOk` stay
  decidable predicates stated with the line parser `hdrM`.  The epilogue behaviour (rejected) is shown on
  a witness only, not as a theorem over all bodies and splits.
-/

end Mhd.C15
