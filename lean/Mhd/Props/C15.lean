/-
  C15 — POST processor returns the encoded fields for every split of the body.
  (theorems are added below as they are proved)
-/
import Mhd.Model.PP

namespace Mhd.C15
open Mhd.PP

end Mhd.C15
