/-
  C01 — Memory safety for every client byte stream (model-level part).

  What is proved here: the *buffer layer* of connection.c — the functions that
  place and move the read and write windows inside the connection arena
  (MHD_connection_alloc_memory_, try_grow_read_buffer, connection_shrink_read_buffer,
  connection_maximize_write_buffer, the parsers' consume step, the end-of-headers
  shift-back, the receive step, connection_reset's pool reset and the two buffer
  releases of the error path) — keeps both windows inside the arena, below the
  back-allocated region, with ordered cursors and without overlap, for EVERY
  sequence of these operations with EVERY argument (illegal uses are refused by
  the model exactly where the state machine never performs them; the harness
  follows the same discipline).  The receive step may only write
  `[rb + rbOff, rb + rbOff + k)` with `k ≤ rbSize − rbOff`, hence inside the window.

  What this composes with: C08 (the pool hands out in-bounds, disjoint blocks),
  C02/C03 (the parsers index only inside the window they are given).  What a
  theorem about the model cannot exhibit — a wild pointer in the C that the model
  does not have — is covered by the correspondence runs under ASan/UBSan
  (tools/props/C01.py), evaluated on every case.
-/
import Mhd.Proofs.ConnMem
import Mhd.Props.C02
import Mhd.Props.C08

namespace Mhd.C01
open Mhd.ConnMem
open Mhd.Pool (A W)

/-- every operation preserves the buffer-layer invariant … -/
theorem step_wf (c : CM) (o : Op) (h : CMInv c) (ho : o.Valid) : CMInv (step c o).1 :=
  Mhd.ConnMem.step_inv c o h ho

/-- … so it holds after every operation sequence from the initial connection state
    (any arena size, any configured pool size ≤ arena, any increment) -/
theorem run_wf (allocSize poolSize inc : Nat) (ha : allocSize % A = 0) (hs : allocSize < 2 ^ 62)
    (hp : poolSize ≤ allocSize) (ops : List Op) (ho : ∀ o ∈ ops, o.Valid) :
    CMInv (run (init allocSize poolSize inc) ops) :=
  Mhd.ConnMem.run_inv _ ops (Mhd.ConnMem.init_inv allocSize poolSize inc ha hs hp) ho

/-- In every reachable state both windows lie inside the arena (below `pos ≤ end_ ≤ size`),
    fills are within sizes, and the read and write windows do not overlap. -/
theorem windows_inside_arena (allocSize poolSize inc : Nat) (ha : allocSize % A = 0)
    (hs : allocSize < 2 ^ 62) (hp : poolSize ≤ allocSize) (ops : List Op) (ho : ∀ o ∈ ops, o.Valid) :
    WindowsInside (run (init allocSize poolSize inc) ops) :=
  Mhd.ConnMem.windows_of_inv _ (run_wf allocSize poolSize inc ha hs hp ops ho)

/-- The bytes a receive step writes are inside the read window, hence inside the arena. -/
theorem recv_writes_inside (c : CM) (k : Nat) (h : CMInv c) (r : Nat) (hb : c.rb = some r)
    (hok : (step c (.recv k)).2 = .ok) :
    r + c.rbOff + k ≤ r + c.rbSize ∧ r + c.rbSize ≤ c.p.pos ∧ c.p.pos ≤ c.p.size := by
  have w := Mhd.ConnMem.windows_of_inv c h
  have hk : k ≤ c.rbSize - c.rbOff := by
    simp only [step] at hok
    split at hok
    · rename_i hc; exact hc.2.2
    · simp at hok
  have := w.2.2.2.2.2.1 r hb
  exact ⟨by have := w.2.2.1; omega, this, by have := w.1; have := w.2.1; omega⟩

/-! ### Composition with the request-head parsers (C02) and the pool (C08)

The buffer layer above hands the parsers a window `[rb, rb + rbSize)` that lies inside the arena; the
parsers — byte-accurate models with *checked* access, where every out-of-window index is an explicit
`fault` — never fault inside the window they are given, for every strictness level, every buffer
content, every read position and every segmentation of the client's bytes (C02); and the blocks the
pool hands out are in bounds and pairwise disjoint (C08).  The three statements together are the
model-level content of "no out-of-bounds access for any client byte stream"; they are collected here
so that C01's audit depends on all of them. -/

/-- request-line parser: no access outside the received bytes, any level, any segmentation -/
theorem reqline_parser_no_fault (lvl : Int) (buf : Mhd.Req.Bytes) (rb : Nat) (h : rb ≤ buf.size)
    (chunks : List Mhd.Req.Bytes) (f : Mhd.Req.Fault) :
    let sc := Mhd.Req.rlScanner (Mhd.Req.RLFlags.ofLevel lvl)
    sc.feedAll (sc.run (Mhd.Req.RL.init buf rb)) chunks ≠ .fault f :=
  Mhd.C02.reqline_no_fault lvl buf rb h chunks f

/-- header-section parser incl. the end-of-headers shift-back: no fault, any level, any segmentation -/
theorem field_parser_no_fault (lvl : Int) (fieldStart : Nat) (s : Mhd.Req.HS) (hs : Mhd.Req.HSP.Inv s)
    (chunks : List Mhd.Req.Bytes) (f : Mhd.Req.Fault) :
    let sc := Mhd.Req.hsScanner (Mhd.Req.FLFlags.ofLevel lvl) fieldStart
    sc.feedAll (sc.run s) chunks ≠ .fault f :=
  Mhd.C02.field_no_fault lvl fieldStart s hs chunks f

/-- pool: every reachable pool state is well-formed (blocks in bounds, aligned, pairwise disjoint) -/
theorem pool_blocks_wf (allocSize : Nat) (ha : allocSize % A = 0) (hs : allocSize < 2 ^ 62)
    (ops : List Mhd.Pool.Op) (ho : ∀ o ∈ ops, o.Valid) :
    Mhd.Pool.WF (Mhd.Pool.run (Mhd.Pool.St.init allocSize) ops) :=
  Mhd.C08.run_wf allocSize ha hs ops ho

/-- Non-vacuity: a concrete history (receive, consume a line, shift back, steal for an
    allocation, switch to sending, build the write buffer, reset for the next request)
    satisfies the hypotheses and ends in a state with both buffers in use earlier. -/
example : WindowsInside (run (init 1024 1024 64)
    [.recv 300, .consume 120, .shiftBack 4, .grow true, .alloc 40, .shrinkRead, .maxWrite, .wAppend 90,
     .wSend 90, .resetConn, .recv 10]) := by
  apply windows_inside_arena <;> simp [A, Mhd.Gen.Pool.alignSize, Op.Valid, W]

end Mhd.C01
