/-
  C01 — Memory safety for every client byte stream (model-level part).

  What is proved here: the *buffer layer* of connection.c — the functions that
  place and move the read and write windows inside the connection arena
  (MHD_connection_alloc_memory_, try_grow_read_buffer, connection_shrink_read_buffer,
  connection_maximize_write_buffer, the parsers' consume step, the end-of-headers
  shift-back, the receive step, connection_reset's pool reset and the two buffer
  releases of the error path) — keeps both windows inside the arena, below the
  back-allocated region, with ordered cursors and without overlap, for EVERY
  sequence of these operations with EVERY argument (illegal uses are refused by
  the model exactly where the state machine never performs them; the harness
  follows the same discipline).  The receive step may only write
  `[rb + rbOff, rb + rbOff + k)` with `k ≤ rbSize − rbOff`, hence inside the window.

  What this composes with: C08 (the pool hands out in-bounds, disjoint blocks),
  C02/C03 (the parsers index only inside the window they are given).  What a
  theorem about the model cannot exhibit — a wild pointer in the C that the model
  does not have — is covered by the correspondence runs under ASan/UBSan
  (tools/props/C01.py), evaluated on every case.
-/
import Mhd.Proofs.ConnMem
import Mhd.Proofs.ConnRead
import Mhd.Proofs.ConnReadCfg
import Mhd.Proofs.ConnReadSync
import Mhd.Props.C02
import Mhd.Props.C08

namespace Mhd.C01
open Mhd.ConnMem
open Mhd.Pool (A W)

/-- every operation preserves the buffer-layer invariant … -/
theorem step_wf (c : CM) (o : Op) (h : CMInv c) (ho : o.Valid) : CMInv (step c o).1 :=
  Mhd.ConnMem.step_inv c o h ho

/-- … so it holds after every operation sequence from the initial connection state
    (any arena size, any configured pool size ≤ arena, any increment) -/
theorem run_wf (allocSize poolSize inc : Nat) (ha : allocSize % A = 0) (hs : allocSize < 2 ^ 62)
    (hp : poolSize ≤ allocSize) (ops : List Op) (ho : ∀ o ∈ ops, o.Valid) :
    CMInv (run (init allocSize poolSize inc) ops) :=
  Mhd.ConnMem.run_inv _ ops (Mhd.ConnMem.init_inv allocSize poolSize inc ha hs hp) ho

/-- In every reachable state both windows lie inside the arena (below `pos ≤ end_ ≤ size`),
    fills are within sizes, and the read and write windows do not overlap. -/
theorem windows_inside_arena (allocSize poolSize inc : Nat) (ha : allocSize % A = 0)
    (hs : allocSize < 2 ^ 62) (hp : poolSize ≤ allocSize) (ops : List Op) (ho : ∀ o ∈ ops, o.Valid) :
    WindowsInside (run (init allocSize poolSize inc) ops) :=
  Mhd.ConnMem.windows_of_inv _ (run_wf allocSize poolSize inc ha hs hp ops ho)

/-- The bytes a receive step writes are inside the read window, hence inside the arena. -/
theorem recv_writes_inside (c : CM) (k : Nat) (h : CMInv c) (r : Nat) (hb : c.rb = some r)
    (hok : (step c (.recv k)).2 = .ok) :
    r + c.rbOff + k ≤ r + c.rbSize ∧ r + c.rbSize ≤ c.p.pos ∧ c.p.pos ≤ c.p.size := by
  have w := Mhd.ConnMem.windows_of_inv c h
  have hk : k ≤ c.rbSize - c.rbOff := by
    simp only [step] at hok
    split at hok
    · rename_i hc; exact hc.2.2
    · simp at hok
  have := w.2.2.2.2.2.1 r hb
  exact ⟨by have := w.2.2.1; omega, this, by have := w.1; have := w.2.1; omega⟩

/-! ### Composition with the request-head parsers (C02) and the pool (C08)

The buffer layer above hands the parsers a window `[rb, rb + rbSize)` that lies inside the arena; the
parsers — byte-accurate models with *checked* access, where every out-of-window index is an explicit
`fault` — never fault inside the window they are given, for every strictness level, every buffer
content, every read position and every segmentation of the client's bytes (C02); and the blocks the
pool hands out are in bounds and pairwise disjoint (C08).  The three statements together are the
model-level content of "no out-of-bounds access for any client byte stream"; they are collected here
so that C01's audit depends on all of them. -/

/-- request-line parser: no access outside the received bytes, any level, any segmentation -/
theorem reqline_parser_no_fault (lvl : Int) (buf : Mhd.Req.Bytes) (rb : Nat) (h : rb ≤ buf.size)
    (chunks : List Mhd.Req.Bytes) (f : Mhd.Req.Fault) :
    let sc := Mhd.Req.rlScanner (Mhd.Req.RLFlags.ofLevel lvl)
    sc.feedAll (sc.run (Mhd.Req.RL.init buf rb)) chunks ≠ .fault f :=
  Mhd.C02.reqline_no_fault lvl buf rb h chunks f

/-- header-section parser incl. the end-of-headers shift-back: no fault, any level, any segmentation -/
theorem field_parser_no_fault (lvl : Int) (fieldStart : Nat) (s : Mhd.Req.HS) (hs : Mhd.Req.HSP.Inv s)
    (chunks : List Mhd.Req.Bytes) (f : Mhd.Req.Fault) :
    let sc := Mhd.Req.hsScanner (Mhd.Req.FLFlags.ofLevel lvl) fieldStart
    sc.feedAll (sc.run s) chunks ≠ .fault f :=
  Mhd.C02.field_no_fault lvl fieldStart s hs chunks f

/-- pool: every reachable pool state is well-formed (blocks in bounds, aligned, pairwise disjoint) -/
theorem pool_blocks_wf (allocSize : Nat) (ha : allocSize % A = 0) (hs : allocSize < 2 ^ 62)
    (ops : List Mhd.Pool.Op) (ho : ∀ o ∈ ops, o.Valid) :
    Mhd.Pool.WF (Mhd.Pool.run (Mhd.Pool.St.init allocSize) ops) :=
  Mhd.C08.run_wf allocSize ha hs ops ho

/-- Non-vacuity: a concrete history (receive, consume a line, shift back, steal for an
    allocation, switch to sending, build the write buffer, reset for the next request)
    satisfies the hypotheses and ends in a state with both buffers in use earlier. -/
example : WindowsInside (run (init 1024 1024 64)
    [.recv 300, .consume 120, .shiftBack 4, .grow true, .alloc 40, .shrinkRead, .maxWrite, .wAppend 90,
     .wSend 90, .resetConn, .recv 10]) := by
  apply windows_inside_arena <;> simp [A, Mhd.Gen.Pool.alignSize, Op.Valid, W]

/-! ## Composition: the request-receiving half of a connection on ONE arena (`Mhd.ConnRead`)

`ConnRead` runs the buffer layer above, the request-head parsers of C02 and the chunk decoder of C03 on
the same arena (`cm.p.mem`): received bytes are stored at `read_buffer + read_buffer_offset`, the idle loop
runs `get_request_line` (`rlScanner`, `processRequestTarget`), `get_req_headers` (`hsStep`, incl. the
shift-back), `process_request_body` (identity and chunked: `chunkAct` on the window contents, the
application takes what the take pattern says, the rest is moved to the window start), the footers
through the same header scanner, `check_and_grow_read_buffer_space`, and — the reply taken as sent —
`connection_reset` with keep-alive (pool reset keeping the read-ahead), after which the next pipelined
request is parsed from the arena base.  Every change of the window is an operation of the buffer layer
(`consume`, `alloc` per request element, `shiftBack`, `bodyDrop`, `grow`, `shrinkRead`, `resetConn`,
`errRelease`).  A parser access outside the buffer it is given is the phase `fault`, an operation the
buffer layer refuses is the phase `refused`.  The theorems hold for every arena size, every pool
size / increment, every strictness level, every list of chunks (every byte stream × every segmentation,
the empty chunk being an idle round without data) and every `Cfg`: every framing decision of
`parse_connection_headers`, every keep-alive decision, and every behaviour of the access handler the API
permits as far as the buffers are concerned — first call: go on / early reply / MHD_NO; every upload call:
any number of bytes taken or MHD_NO; final call: reply / MHD_NO; `Expect: 100-continue`. -/

open Mhd.ConnRead in
/-- **(1) no fault, no refused operation, windows inside the arena — for every client byte stream,
    over whole pipelined request sequences.**
    The proof establishes, state by state, the precondition of the parser that runs next
    (`RLInvX` for the request line — also for the request line that starts in the read-ahead after a
    reset —, `RLPost` ⇒ `processRequestTarget_no_fault`, `HSP.Inv`/`Inv2` at the start of and during
    the header section, `HSP.Inv` for the footers, the chunk decoder's "at most the available bytes"),
    and that each operation the parsers trigger is accepted by the buffer layer (`Mhd.ConnRead.Safe`). -/
theorem connread_no_fault (cfg : Mhd.ConnRead.Cfg) (allocSize poolSize inc : Nat) (lvl : Int) (ha : allocSize % A = 0)
    (hs : allocSize < 2 ^ 62) (hp : poolSize ≤ allocSize) (chunks : List (List UInt8)) :
    let x := Mhd.ConnRead.run cfg (Mhd.ConnRead.init allocSize poolSize inc lvl) chunks
    (∀ f, x.phase ≠ .fault f) ∧ (∀ n, x.phase ≠ .refused n) ∧ WindowsInside x.cm := by
  intro x
  have h := run_safe inc cfg chunks _ (init_safe allocSize poolSize inc lvl ha hs hp)
  exact ⟨(safe_not_faulty h).1, (safe_not_faulty h).2, Mhd.ConnMem.windows_of_inv _ (safe_cminv h)⟩

open Mhd.ConnRead in
/-- **(2) the bytes the parsers may touch.**  In every phase that carries a buffer (request line,
    headers, body, footers, …) that buffer is exactly the arena prefix `[0, read_buffer +
    read_buffer_offset)`: it ends at the end of the received data, inside the read window
    `[read_buffer, read_buffer + read_buffer_size)`, which lies below `pos ≤ size`; the read block
    starts at the arena base (`rbBase = 0`).  The parsers' accessors fault on every index `≥ buf.size`
    (the chunk decoder is handed exactly the window contents) and by (1) no fault occurs, so every
    index read or written is `< read_buffer + read_buffer_offset ≤ size`. -/
theorem connread_parser_view_inside (cfg : Mhd.ConnRead.Cfg) (allocSize poolSize inc : Nat) (lvl : Int)
    (ha : allocSize % A = 0) (hs : allocSize < 2 ^ 62) (hp : poolSize ≤ allocSize) (chunks : List (List UInt8)) :
    let x := Mhd.ConnRead.run cfg (Mhd.ConnRead.init allocSize poolSize inc lvl) chunks
    ∀ buf r, x.phase.view? = some (buf, r) →
      x.cm.rb = some r ∧ x.cm.rbBase = 0 ∧ buf.size = r + x.cm.rbOff ∧ x.cm.rbOff ≤ x.cm.rbSize ∧
      r + x.cm.rbSize ≤ x.cm.p.pos ∧ x.cm.p.pos ≤ x.cm.p.size := by
  intro x buf r hv
  exact safe_view (run_safe inc cfg chunks _ (init_safe allocSize poolSize inc lvl ha hs hp)) buf r hv

open Mhd.ConnRead in
/-- **(3) never stuck with a full buffer.**  After every chunk, a connection that is going to read
    (MHD_EVENT_LOOP_INFO_READ) has free space in its read window: when the window is full and nothing
    could be processed, `check_and_grow_read_buffer_space` either really enlarged it, or handed the
    turn to the application (body data it has not taken yet: PROCESS only), or moved the connection
    to the error phase (reply 413/414/431 + close).  Rests on the guard `if (0 == small_inc)
    small_inc = 1` of `try_grow_read_buffer` (fix F32), whose presence is the regenerated behaviour
    probe `Mhd.Gen.ConnMem.growMinOne`: without it the proof obligation fails
    (see `grow_stuck_without_guard`). -/
theorem connread_full_buffer_is_error (cfg : Mhd.ConnRead.Cfg) (allocSize poolSize inc : Nat) (lvl : Int)
    (ha : allocSize % A = 0) (hs : allocSize < 2 ^ 62) (hp : poolSize ≤ allocSize) (hp2 : 2 ≤ poolSize)
    (chunks : List (List UInt8)) :
    let x := Mhd.ConnRead.run cfg (Mhd.ConnRead.init allocSize poolSize inc lvl) chunks
    x.wantsRead = true → x.cm.rbOff < x.cm.rbSize := by
  intro x
  have f := Mhd.ConnMem.init_fields allocSize poolSize inc ha hs hp
  exact run_live inc cfg chunks _ (init_safe allocSize poolSize inc lvl ha hs hp)
    (fun _ => by
      show (Mhd.ConnMem.init allocSize poolSize inc).rbOff < (Mhd.ConnMem.init allocSize poolSize inc).rbSize
      rw [f.2.1, f.2.2.2.2.1]; omega)

/-- a configuration for the examples: Content-Length 5 / chunked by a marker byte in the buffer is not
    needed — the framing is given directly; the application takes at most 2 bytes per call -/
def exCfg (fr : Mhd.ConnRead.Framing) : Mhd.ConnRead.Cfg :=
  { frame := fun _ _ => fr, keepAlive := fun _ _ => true, take := fun _ _ => 2 }

/-- Non-vacuity, stage 1: a complete head at level 0 on a 1024-byte arena, in three chunks
    (`GET /a?x=1 HTT`, `P/1.1\r\nHost: h\r\nA: `, `b\r\n\r\nXY`), framing decision "stop": the run ends in
    HEADERS_RECEIVED with three elements, the window moved back by 3 bytes over the header tail, two
    unread bytes in it.  (`decide +kernel`: the composed model is evaluated by the kernel — a test of the
    example, not a proof step of any theorem.) -/
example :
    (let x := Mhd.ConnRead.run (exCfg .stop) (Mhd.ConnRead.init 1024 1024 64 0)
        [[71, 69, 84, 32, 47, 97, 63, 120, 61, 49, 32, 72, 84, 84],
         [80, 47, 49, 46, 49, 13, 10, 72, 111, 115, 116, 58, 32, 104, 13, 10, 65, 58, 32],
         [98, 13, 10, 13, 10, 88, 89]]
     match x.phase with
     | .headersDone h _ => (h.elems.length, h.shifted, x.cm.rb, x.cm.rbOff) == (3, 3, some 35, 2)
     | _ => false) = true := by decide +kernel

/-- Non-vacuity, stage 2 (identity body): `P / HTTP/1.1\r\n\r\n` + `abcde` + `XY`, Content-Length 5, the
    application takes 2 bytes per call: after the first chunk (head + `abc`) one byte waits in the
    window; two idle rounds and the rest later the request is complete and — keep-alive — the
    connection is reset with the read-ahead `XY` at the arena base as the start of the next request. -/
example :
    (let x := Mhd.ConnRead.run (exCfg (.len 5)) (Mhd.ConnRead.init 256 256 16 0)
        [[80, 32, 47, 32, 72, 84, 84, 80, 47, 49, 46, 49, 13, 10, 13, 10, 97, 98, 99], [], [100, 101, 88, 89], [], []]
     match x.phase with
     | .reqLine s => (s.buf.toList, x.cm.rb, x.cm.rbOff, x.cm.rbSize) == ([88, 89], some 0, 2, 128)
     | _ => false) = true := by decide +kernel

/-- Non-vacuity, stage 2 (chunked body + trailer): `3\r\nabc\r\n0\r\nT: v\r\n\r\n` after the head, then a second
    pipelined request line start `GET`: the chunks are decoded inside the window, the footer line goes
    through the header scanner, the connection is reset and `GET` is the read-ahead. -/
example :
    (let x := Mhd.ConnRead.run (exCfg .chunked) (Mhd.ConnRead.init 256 256 16 0)
        [[80, 32, 47, 32, 72, 84, 84, 80, 47, 49, 46, 49, 13, 10, 13, 10, 51, 13, 10, 97, 98],
         [99, 13, 10, 48, 13, 10, 84, 58, 32, 118, 13, 10, 13, 10, 71, 69, 84], [], []]
     match x.phase with
     | .reqLine s => (s.buf.toList, x.cm.rbOff) == ([71, 69, 84], 3)
     | _ => false) = true := by decide +kernel

/-- Non-vacuity, handler outcomes: (a) MHD_NO from the second upload call in the middle of a body: the connection
    is closed at once, no buffer operation follows; (b) a reply queued by the first call: the body is never
    read, closed after the reply; (c) `Expect: 100-continue` with an empty read buffer: CONTINUE_SENDING, then
    the body is received. -/
example :
    (let head : List UInt8 := [80, 32, 47, 32, 72, 84, 84, 80, 47, 49, 46, 49, 13, 10, 13, 10]
     let cfgNo : Mhd.ConnRead.Cfg := { exCfg (.len 9) with refuse := fun k => k != 1 }
     let cfgEarly : Mhd.ConnRead.Cfg := { exCfg (.len 9) with first := fun _ _ => .reply }
     let cfg100 : Mhd.ConnRead.Cfg := { exCfg (.len 3) with expect100 := fun _ _ => true }
     let a := Mhd.ConnRead.run cfgNo (Mhd.ConnRead.init 256 256 16 0) [head ++ [97, 98, 99, 100], []]
     let b := Mhd.ConnRead.run cfgEarly (Mhd.ConnRead.init 256 256 16 0) [head ++ [97, 98, 99, 100]]
     let c1 := Mhd.ConnRead.run cfg100 (Mhd.ConnRead.init 256 256 16 0) [head]
     let c2 := Mhd.ConnRead.run cfg100 (Mhd.ConnRead.init 256 256 16 0) [head, [], [97, 98]]
     (match a.phase with | .error .closed => true | _ => false) &&
     (match b.phase with | .error .closed => true | _ => false) &&
     (match c1.phase with | .cont100 _ => !c1.wantsRead | _ => false) &&
     (match c2.phase with | .body bd => bd.remaining == 1 | _ => false)) = true := by decide +kernel

/-- Non-vacuity of the error outcome: a request line longer than anything the 64-byte arena can
    hold ends in the error phase `noSpace` (reply + close), not in a stuck state. -/
example :
    (let x := Mhd.ConnRead.run (exCfg .none) (Mhd.ConnRead.init 64 64 16 0) [List.replicate 200 65]
     match x.phase with
     | .error .noSpace => true
     | _ => false) = true := by decide +kernel

open Mhd.ConnRead in
/-- **(2b) one arena.**  In every state of every run (whole pipelined sequences, every handler behaviour) the
    buffer the phase carries — what the parsers of C02 and the chunk decoder of C03 work on — is exactly the
    arena prefix `mem[0, read_buffer + read_buffer_offset)`, and the arena has the size of the pool: the
    parsers and the buffer layer really work on the same bytes. -/
theorem connread_one_arena (cfg : Mhd.ConnRead.Cfg) (allocSize poolSize inc : Nat) (lvl : Int) (ha : allocSize % A = 0)
    (hs : allocSize < 2 ^ 62) (hp : poolSize ≤ allocSize) (chunks : List (List UInt8)) :
    let x := Mhd.ConnRead.run cfg (Mhd.ConnRead.init allocSize poolSize inc lvl) chunks
    ∀ b r, x.phase.view? = some (b, r) →
      x.cm.p.mem.length = x.cm.p.size ∧ x.cm.p.mem.take b.size = b.toList := by
  intro x
  exact run_sync inc cfg chunks _ (init_safe allocSize poolSize inc lvl ha hs hp) (init_sync allocSize poolSize inc lvl)

/-- Non-vacuity of (2b): after a complete request with a 5-byte body and the reset, the read-ahead `XY` is at the
    arena base. -/
example :
    (let x := Mhd.ConnRead.run (exCfg (.len 5)) (Mhd.ConnRead.init 256 256 16 0)
        [[80, 32, 47, 32, 72, 84, 84, 80, 47, 49, 46, 49, 13, 10, 13, 10, 97, 98, 99], [], [100, 101, 88, 89], [], []]
     x.cm.p.mem.take 2 == [88, 89] && (x.phase.view?.map (·.1.toList)) == some [88, 89]) = true := by decide +kernel

open Mhd.ConnRead in
/-- **(2c) the body / chunk decoder reads below the fill level only.**  In every state of every run in the
    body phase, what `process_request_body`'s decoder is handed (`Body.window`) is exactly the received bytes
    `[read_buffer, read_buffer + read_buffer_offset)` of the arena prefix: its length is `read_buffer_offset`,
    its `k`-th byte is the arena byte `read_buffer + k`, and the arena prefix ends there — no byte behind the
    fill level (stale remnants of earlier payload) is visible to it.  `body_decoder_within_window` adds that
    no decision of the decoder loop advances beyond the window. -/
theorem connread_reads_below_fill (cfg : Mhd.ConnRead.Cfg) (allocSize poolSize inc : Nat) (lvl : Int)
    (ha : allocSize % A = 0) (hs : allocSize < 2 ^ 62) (hp : poolSize ≤ allocSize) (chunks : List (List UInt8)) :
    let x := Mhd.ConnRead.run cfg (Mhd.ConnRead.init allocSize poolSize inc lvl) chunks
    ∀ b, x.phase = .body b →
      b.window.length = x.cm.rbOff ∧ b.buf.size = b.rb + x.cm.rbOff ∧
      ∀ k, k < x.cm.rbOff → b.window[k]? = b.buf[b.rb + k]? := by
  intro x b hb
  exact body_window (run_safe inc cfg chunks _ (init_safe allocSize poolSize inc lvl ha hs hp)) b hb

open Mhd.ConnRead in
/-- the decoder loop on a window `w`: whatever the chunk decoder decides (chunk terminator, size line,
    payload), `buffer_head` stays inside the window — the explicit `overrun` result is unreachable and the
    final `buffer_head − read_buffer` is at most `|w|` (so `available` never wraps) -/
theorem body_decoder_within_window (lvl : Int) (take : Nat → Nat → Option Nat) (chunked : Bool) (w : List UInt8)
    (fuel : Nat) (s : BL) (h : s.head ≤ w.length) :
    (∀ n, bodyLoop lvl take chunked w fuel s ≠ .overrun n) ∧
    (∀ s', bodyLoop lvl take chunked w fuel s = .ok s' → s'.head ≤ w.length) :=
  bodyLoop_ok lvl take chunked w fuel s h

/-- Non-vacuity of (2c) and of the split chunk terminator: `3 CRLF abc CR` | `LF 0 CRLF CRLF`, the first read
    ends between CR and LF of the chunk terminator: the decoder waits with the CR in the window (1 byte), the
    next read completes the request. -/
example :
    (let x := Mhd.ConnRead.run (exCfg .chunked) (Mhd.ConnRead.init 256 256 16 0)
        [[80, 32, 47, 32, 72, 84, 84, 80, 47, 49, 46, 49, 13, 10, 13, 10, 51, 13, 10, 97, 98, 99, 13], [], []]
     match x.phase with
     | .body b => (b.window, b.cur, b.off) == ([13], 3, 3)
     | _ => false) = true := by decide +kernel

open Mhd.ConnRead in
/-- **internal look-ups consult header-kind elements only.**  The keep-alive decision (`keepalive_possible`:
    tokens `close` / `Keep-Alive` of the request's `Connection` field) and the framing decision
    (`parse_connection_headers`: Host, Transfer-Encoding, Content-Length, Cookie) and `need_100_continue`
    (Expect) of the standard configuration are functions of the elements of kind MHD_HEADER_KIND alone: query arguments (with or
    without value), cookies or trailers named like these fields cannot influence them. -/
theorem internal_lookups_header_kind_only (lvl : Int) (pat : List (Option Nat)) (f : HRes) (l : Bool)
    (buf : Mhd.Req.Bytes) (rq : Rq) :
    let hdrOnly : Rq := { rq with elems := rq.elems.filter (fun e => e.kind == Mhd.Gen.Http.kindHeader) }
    (mkCfg lvl pat f l).keepAlive buf rq = (mkCfg lvl pat f l).keepAlive buf hdrOnly ∧
    (mkCfg lvl pat f l).frame buf rq = (mkCfg lvl pat f l).frame buf hdrOnly ∧
    (mkCfg lvl pat f l).expect100 buf rq = (mkCfg lvl pat f l).expect100 buf hdrOnly :=
  ⟨keepAlive_header_kind_only lvl pat f l buf rq, frame_header_kind_only lvl pat f l buf rq,
   expect100_header_kind_only lvl pat f l buf rq⟩

/-- Non-vacuity: `GET /?Connection HTTP/1.1` + `Connection: close`: the valueless query argument named
    `Connection` is in the element list (kind GET_ARGUMENT, value NULL) but the decision comes from the
    header field: the connection is closed after the reply. -/
example :
    (let x := Mhd.ConnRead.run (Mhd.ConnRead.mkCfg 0 []) (Mhd.ConnRead.init 512 512 16 0)
        [[71, 69, 84, 32, 47, 63, 67, 111, 110, 110, 101, 99, 116, 105, 111, 110, 32, 72, 84, 84, 80, 47, 49, 46, 49, 13, 10,
          72, 111, 115, 116, 58, 32, 104, 13, 10,
          67, 111, 110, 110, 101, 99, 116, 105, 111, 110, 58, 32, 99, 108, 111, 115, 101, 13, 10, 13, 10]]
     match x.phase with
     | .error .closed => true
     | _ => false) = true := by decide +kernel

/-- **Witness for the guard (3) rests on** (defect F32 in `try_grow_read_buffer`, liveness only): in the variant
    of the code WITHOUT `if (0 == small_inc) small_inc = 1` (`growSizeG false`), with `pool_increment = 7` on a
    64-byte arena and a full 32-byte window (32 bytes of the pool still free), the mandatory grow computes a
    "new" size equal to the old one — `small_inc = 7 / 8 = 0` — and reports success; the connection then waits
    for data with a full buffer until it times out.  With the guard the new size is 33. -/
theorem grow_stuck_without_guard :
    (let c := (step (init 64 64 7) (.recv 32)).1
     (c.rbOff, c.rbSize, growSizeG false c true, growSizeG true c true)) = (32, 32, some 32, some 33) := by decide +kernel

/-- the same 32 bytes through the composed model of the code as it is: the window grows, the connection keeps
    reading with one free byte -/
example :
    (let x := Mhd.ConnRead.run (exCfg .none) (Mhd.ConnRead.init 64 64 7 0) [List.replicate 32 65]
     (x.reading, x.cm.rbOff, x.cm.rbSize)) = (true, 32, 33) := by decide +kernel

end Mhd.C01
