/-
  C16 — "Hash functions equal the standards for every message and update pattern".

  For each algorithm X ∈ {MD5, SHA-1 (two copies), SHA-256, SHA-512/256}:  whatever context is
  handed in (fresh from malloc, wiped by an earlier finish, or abandoned in the middle of another
  message), `init`, then *any* list of chunks (every split, including empty chunks) at *any*
  addresses (alignment only selects which unrolled block of the transform runs), then `finish`
  returns — without leaving the bounds of any buffer — the standard's digest of the
  concatenation and leaves the wiped context, from which the same holds again (context re-use).

  `Spec.X.hash` is the transcription of RFC 1321 / FIPS 180-4 in `Model/Hash/SpecX.lean`
  (trusted; validated below on the published vectors, and against hashlib in every run).
  The models `Mhd.Hash.X.alg` are tied to the C code by the regenerated step tables / IVs /
  sizes in `Mhd.Gen.Hash` — the `…_table_is_standard` theorems (and with them the `…_chunks`
  theorems) stop checking when a constant, a register name, a shift amount or the order of the
  steps changes in the C source — and by the correspondence run of tools/props/C16.py.

  No message-length hypothesis is needed: `count << 3` (uint64) loses exactly the bits that the
  64-bit length field of the standards cannot hold (the standards define SHA-1/SHA-256 for
  < 2^61 bytes only; the specifications here use the low 64 bits beyond that, as RFC 1321
  prescribes for MD5).  SHA-512/256 keeps the high bits in `count_bits_hi`; its theorem needs
  each single chunk to be shorter than 2^64 bytes (what a `size_t length` can express).
-/
import Mhd.Proofs.Hash.Sha256
import Mhd.Proofs.Hash.Md5
import Mhd.Proofs.Hash.Sha512
import Mhd.Proofs.Hash.Sha1
import Mhd.Proofs.Hash.Casts
import Mhd.Proofs.Hash.LenField

namespace Mhd.C16
open Mhd.Hash

/-- the bytes fed to the hash by a list of `(address, chunk)` update calls -/
def message (chunks : List (Nat × List UInt8)) : List UInt8 := (chunks.map (·.2)).flatten

/-! ### SHA-256 (sha256.c) -/

/-- every context, every chunk list, every alignment -/
theorem sha256_chunks (c : Ctx (R8 UInt32)) (hc : c.buffer.length = 64)
    (chunks : List (Nat × List UInt8)) :
    run Sha256.alg c chunks = .ok (Spec.Sha256.hash (message chunks), wiped Sha256.alg) :=
  run_correct Sha256.refines c hc chunks (fun _ _ => trivial)

/-- non-vacuity: a context with junk everywhere, three chunks (one empty, one misaligned) -/
example : run Sha256.alg ⟨⟨1, 2, 3, 4, 5, 6, 7, 8⟩, List.replicate 64 0xAA, 99, 0⟩
    [(0, [0x61]), (5, []), (3, [0x62, 0x63])] =
    .ok (Spec.Sha256.hash [0x61, 0x62, 0x63], wiped Sha256.alg) :=
  sha256_chunks _ rfl _

/-- context re-use: the context left by `finish` is again a legal starting point -/
theorem sha256_reuse (c : Ctx (R8 UInt32)) (hc : c.buffer.length = 64)
    (m1 m2 : List (Nat × List UInt8)) :
    ∃ d1 c1, run Sha256.alg c m1 = .ok (d1, c1) ∧
      run Sha256.alg c1 m2 = .ok (Spec.Sha256.hash (message m2), wiped Sha256.alg) :=
  ⟨_, _, sha256_chunks c hc m1, sha256_chunks _ (by simp [wiped]; rfl) m2⟩

example : ∃ d1 c1, run Sha256.alg ⟨⟨0, 0, 0, 0, 0, 0, 0, 0⟩, List.replicate 64 0, 0, 0⟩ [(0, [1, 2, 3])] = .ok (d1, c1) ∧
    run Sha256.alg c1 [(1, [4])] = .ok (Spec.Sha256.hash [4], wiped Sha256.alg) :=
  sha256_reuse _ rfl _ _

/-- what breaks when sha256.c changes a constant, a register name, the order of the steps or
    the initial value -/
theorem sha256_table_is_standard :
    Mhd.Gen.Hash.sha256Steps = (List.range 64).map Sha256.closedRow ∧
    Mhd.Gen.Hash.sha256StepsMis = (List.range 64).map Sha256.closedRow ∧
    Sha256.ivOf Mhd.Gen.Hash.sha256IV = Spec.Sha256.H0 ∧
    Mhd.Gen.Hash.sha256Block = 64 ∧ Mhd.Gen.Hash.sha256LenAdd = 8 :=
  ⟨Sha256.steps_closed, Sha256.stepsMis_closed, Sha256.iv_eq, by decide, by decide⟩

/-! ### MD5 (md5.c) -/

theorem md5_chunks (c : Ctx (R4 UInt32)) (hc : c.buffer.length = 64)
    (chunks : List (Nat × List UInt8)) :
    run Md5.alg c chunks = .ok (Spec.Md5.hash (message chunks), wiped Md5.alg) :=
  run_correct Md5.refines c hc chunks (fun _ _ => trivial)

example : run Md5.alg ⟨⟨9, 9, 9, 9⟩, List.replicate 64 0x55, 7, 0⟩
    [(1, [0x61]), (0, []), (2, [0x62, 0x63])] =
    .ok (Spec.Md5.hash [0x61, 0x62, 0x63], wiped Md5.alg) :=
  md5_chunks _ rfl _

theorem md5_reuse (c : Ctx (R4 UInt32)) (hc : c.buffer.length = 64)
    (m1 m2 : List (Nat × List UInt8)) :
    ∃ d1 c1, run Md5.alg c m1 = .ok (d1, c1) ∧
      run Md5.alg c1 m2 = .ok (Spec.Md5.hash (message m2), wiped Md5.alg) :=
  ⟨_, _, md5_chunks c hc m1, md5_chunks _ (by simp [wiped]; rfl) m2⟩

example : ∃ d1 c1, run Md5.alg ⟨⟨0, 0, 0, 0⟩, List.replicate 64 0, 0, 0⟩ [(0, [1, 2, 3])] = .ok (d1, c1) ∧
    run Md5.alg c1 [(1, [4])] = .ok (Spec.Md5.hash [4], wiped Md5.alg) :=
  md5_reuse _ rfl _ _

/-- md5.c: both recorded paths (aligned input; misaligned input copied to `X[]` first) carry the
    RFC's k, s, T in the RFC's order with the RFC's register cycling and round functions -/
theorem md5_table_is_standard :
    Mhd.Gen.Hash.md5Steps = (List.range 64).map (Md5.closedRow false) ∧
    Mhd.Gen.Hash.md5StepsMis = (List.range 64).map (Md5.closedRow true) ∧
    Md5.ivOf Mhd.Gen.Hash.md5IV = Spec.Md5.IV ∧
    Mhd.Gen.Hash.md5Block = 64 ∧ Mhd.Gen.Hash.md5LenAdd = 8 :=
  ⟨Md5.steps_closed, Md5.stepsMis_closed, Md5.iv_eq, by decide, by decide⟩

/-! ### SHA-512/256 (sha512_256.c) -/

/-- every chunk is something a `size_t length` can describe -/
def sizeT (chunks : List (Nat × List UInt8)) : Prop := ∀ ch ∈ chunks, ch.2.length < 18446744073709551616

theorem sha512_256_chunks (c : Ctx (R8 UInt64)) (hc : c.buffer.length = 128)
    (chunks : List (Nat × List UInt8)) (hl : sizeT chunks) :
    run Sha512.alg c chunks = .ok (Spec.Sha512.hash (message chunks), wiped Sha512.alg) :=
  run_correct Sha512.refines c hc chunks hl

example : run Sha512.alg ⟨⟨1, 2, 3, 4, 5, 6, 7, 8⟩, List.replicate 128 0xAA, 99, 5⟩
    [(0, [0x61]), (5, []), (3, [0x62, 0x63])] =
    .ok (Spec.Sha512.hash [0x61, 0x62, 0x63], wiped Sha512.alg) :=
  sha512_256_chunks _ rfl _ (by intro ch h; simp at h; rcases h with rfl | rfl | rfl <;> decide)

theorem sha512_256_reuse (c : Ctx (R8 UInt64)) (hc : c.buffer.length = 128)
    (m1 m2 : List (Nat × List UInt8)) (h1 : sizeT m1) (h2 : sizeT m2) :
    ∃ d1 c1, run Sha512.alg c m1 = .ok (d1, c1) ∧
      run Sha512.alg c1 m2 = .ok (Spec.Sha512.hash (message m2), wiped Sha512.alg) :=
  ⟨_, _, sha512_256_chunks c hc m1 h1, sha512_256_chunks _ (by simp [wiped]; rfl) m2 h2⟩

/-- the split bit counter of sha512_256.c is exact: after any number of bytes `n` (fed in
    `size_t`-sized pieces) `count_bits_hi · 2^64 + count · 8 ≡ 8 n (mod 2^128)` — stated on the
    abstract counter that the invariant of `sha512_256_chunks` maintains -/
theorem sha512_256_counter (n len : Nat) (hl : len < 18446744073709551616) :
    Sha512.bump512 (Sha512.cnt512 n).1 (Sha512.cnt512 n).2 len = Sha512.cnt512 (n + len) ∧
    ((Sha512.cnt512 n).2 * 18446744073709551616 + (Sha512.cnt512 n).1 * 8)
      = (8 * n) % (18446744073709551616 * 18446744073709551616) :=
  ⟨Sha512.bump_eq n len hl, by simp only [Sha512.cnt512]; omega⟩

example : Sha512.bump512 (Sha512.cnt512 (2 ^ 61 - 1)).1 (Sha512.cnt512 (2 ^ 61 - 1)).2 5 = (4, 1) := by decide

theorem sha512_256_table_is_standard :
    Mhd.Gen.Hash.sha512Steps = (List.range 80).map Sha512.closedRow ∧
    Mhd.Gen.Hash.sha512StepsMis = (List.range 80).map Sha512.closedRow ∧
    Sha512.ivOf Mhd.Gen.Hash.sha512IV = Spec.Sha512.H0 ∧
    Mhd.Gen.Hash.sha512Block = 128 ∧ Mhd.Gen.Hash.sha512LenAdd = 16 :=
  ⟨Sha512.steps_closed, Sha512.stepsMis_closed, Sha512.iv_eq, by decide, by decide⟩

/-! ### SHA-1 (src/microhttpd/sha1.c and src/microhttpd_ws/sha1.c) -/

theorem sha1_chunks (c : Ctx (R5 UInt32)) (hc : c.buffer.length = 64)
    (chunks : List (Nat × List UInt8)) :
    run Sha1.alg c chunks = .ok (Spec.Sha1.hash (message chunks), wiped Sha1.alg) :=
  run_correct Sha1.refines c hc chunks (fun _ _ => trivial)

example : run Sha1.alg ⟨⟨1, 2, 3, 4, 5⟩, List.replicate 64 0xAA, 99, 0⟩
    [(0, [0x61]), (5, []), (3, [0x62, 0x63])] =
    .ok (Spec.Sha1.hash [0x61, 0x62, 0x63], wiped Sha1.alg) :=
  sha1_chunks _ rfl _

theorem sha1_reuse (c : Ctx (R5 UInt32)) (hc : c.buffer.length = 64)
    (m1 m2 : List (Nat × List UInt8)) :
    ∃ d1 c1, run Sha1.alg c m1 = .ok (d1, c1) ∧
      run Sha1.alg c1 m2 = .ok (Spec.Sha1.hash (message m2), wiped Sha1.alg) :=
  ⟨_, _, sha1_chunks c hc m1, sha1_chunks _ (by simp [wiped]; rfl) m2⟩

/-- the WebSocket copy -/
theorem ws_sha1_chunks (c : Ctx (R5 UInt32)) (hc : c.buffer.length = 64)
    (chunks : List (Nat × List UInt8)) :
    run Sha1.wsAlg c chunks = .ok (Spec.Sha1.hash (message chunks), wiped Sha1.wsAlg) :=
  run_correct Sha1.wsRefines c hc chunks (fun _ _ => trivial)

example : run Sha1.wsAlg ⟨⟨1, 2, 3, 4, 5⟩, List.replicate 64 0xAA, 99, 0⟩
    [(0, [0x61]), (5, []), (3, [0x62, 0x63])] =
    .ok (Spec.Sha1.hash [0x61, 0x62, 0x63], wiped Sha1.wsAlg) :=
  ws_sha1_chunks _ rfl _

theorem ws_sha1_reuse (c : Ctx (R5 UInt32)) (hc : c.buffer.length = 64)
    (m1 m2 : List (Nat × List UInt8)) :
    ∃ d1 c1, run Sha1.wsAlg c m1 = .ok (d1, c1) ∧
      run Sha1.wsAlg c1 m2 = .ok (Spec.Sha1.hash (message m2), wiped Sha1.wsAlg) :=
  ⟨_, _, ws_sha1_chunks c hc m1, ws_sha1_chunks _ (by simp [wiped]; rfl) m2⟩

/-- both copies execute the same steps, which are the standard's -/
theorem sha1_table_is_standard :
    Mhd.Gen.Hash.sha1Steps = (List.range 80).map Sha1.closedRow ∧
    Mhd.Gen.Hash.sha1StepsMis = (List.range 80).map Sha1.closedRow ∧
    Mhd.Gen.Hash.wsSha1Steps = (List.range 80).map Sha1.closedRow ∧
    Mhd.Gen.Hash.wsSha1StepsMis = (List.range 80).map Sha1.closedRow ∧
    Sha1.ivOf Mhd.Gen.Hash.sha1IV = Spec.Sha1.H0 ∧ Sha1.ivOf Mhd.Gen.Hash.wsSha1IV = Spec.Sha1.H0 ∧
    Mhd.Gen.Hash.sha1Block = 64 ∧ Mhd.Gen.Hash.sha1LenAdd = 8 ∧
    Mhd.Gen.Hash.wsSha1Block = 64 ∧ Mhd.Gen.Hash.wsSha1LenAdd = 8 :=
  ⟨Sha1.steps_closed, Sha1.stepsMis_closed, Sha1.wsSteps_closed, Sha1.wsStepsMis_closed,
   Sha1.iv_eq, Sha1.wsIv_eq, by decide, by decide, by decide, by decide⟩

/-! ### Integer widths in the control flow of update/finish

  The models above take `length`, `count`, `bytes_have` as natural numbers (with the `uint64_t`
  wrap of `count` and the `unsigned int` subtraction written out).  The C functions mix `size_t`,
  `uint64_t` and `unsigned int`.  Widening conversions keep the value; a *narrowing* one —
  `if (((unsigned int) length) >= bytes_left)` — does not, and no message below 4 GiB shows it.
  `Mhd.Gen.Hash.narrowingCasts` (regenerated from clang's AST each run) lists every conversion
  from a 64-bit to a narrower integer type in the ten update/finish functions, written or
  implicit; the unchanged tree has exactly one per function,
  `bytes_have = (unsigned int) (ctx->count & (BLOCK_SIZE - 1))`. -/

/-- every narrowing conversion that can reach a comparison, a loop bound, a size or a local
    variable of the update/finish functions is the identity on every value its operand can take
    (for all values of the variables occurring in it), and the `length` parameter of every update
    function is 64 bits wide: the natural-number `length`/`count % B` of the models is what the
    C code computes with.  (Conversions of values that a finish function only stores — the length
    field — are data: `…_chunks` + the byte-counter cases of the run speak about those.) -/
theorem no_narrowing_in_control_flow :
    (∀ c ∈ Mhd.Gen.Hash.narrowingCasts, c.dataPath = false →
      ∀ env : String → Nat, c.operand.eval env % 2 ^ c.dstBits = c.operand.eval env) ∧
    (∀ u ∈ Mhd.Gen.Hash.updateLengthBits, u.2.2 = 64) ∧
    (∀ count : Nat, (count &&& 63) % 2 ^ 32 = count % 64 ∧ (count &&& 127) % 2 ^ 32 = count % 128) :=
  ⟨fun c hc hd env => c.harmless_keeps_value (casts_harmless c hc hd) env, length_params_64,
   fun count => ⟨bytes_have_64 count, bytes_have_128 count⟩⟩

/-- non-vacuity: the list is not empty and speaks about the update functions … -/
example : ("MHD_SHA512_256_update", "(ctx->count & (SHA512_256_BLOCK_SIZE - 1))") ∈
    Mhd.Gen.Hash.narrowingCastsInUpdate.map (fun t => (t.1, t.2.1)) := by decide
/-- … and the criterion rejects the conversion `(unsigned int) length`: it is not harmless, and a
    length of 2^32 + 5 is changed by it (to 5, which is less than the free space of the buffer) -/
example : (⟨"MHD_SHA512_256_update", "length", 34, true, true, false, 64, 32, .other "length" 64⟩ : NarrowCast).harmless = false
    ∧ (CExpr.other "length" 64).eval (fun _ => 2 ^ 32 + 5) % 2 ^ 32 = 5 := by decide

/-! ### No state outside the arguments

  The models' `transform`, `update`, `finish` are functions of their arguments: the digest depends
  on the context and the data only.  That abstracts the C functions correctly only if these keep
  nothing in objects that outlive a call — a `static uint64_t W[16]` schedule buffer in a transform
  gives the right digest in every single-threaded run and wrong ones when two connections' threads
  check Digest Auth at the same time.  `Mhd.Gen.Hash.mutableStatics` (regenerated each run from
  the symbol tables of the five translation units compiled with the configured flags) lists every
  object with static storage duration that lives in a writable section: static locals, file-scope
  objects, thread-local ones.  Constant tables (`.rodata`, `constStatics`) are not state. -/

/-- the five hash translation units define no writable object with static storage duration, and
    the scan did look at all five (it saw their init/update/finish functions): the purity of the
    model functions is a checked abstraction (the run adds 4–8 threads hashing concurrently) -/
theorem hash_functions_have_no_mutable_static_state :
    Mhd.Gen.Hash.mutableStatics = [] ∧
    Mhd.Gen.Hash.staticsScanned.map (·.1) =
      ["src/microhttpd/md5.c", "src/microhttpd/sha1.c", "src/microhttpd/sha256.c",
       "src/microhttpd/sha512_256.c", "src/microhttpd_ws/sha1.c"] ∧
    (∀ u ∈ Mhd.Gen.Hash.staticsScanned, 3 ≤ u.2) := by decide

/-- non-vacuity: the statement is about a list that a `static` buffer would make non-empty
    (the translator checks on a probe file each run that it sees such objects and tells them from
    const tables) -/
example : [("src/microhttpd/sha512_256.c", "W", 89)] ≠ ([] : List (String × String × Nat)) := by decide

/-! ### The length field written by finish

  `…_chunks` compare the digest with the specification, and the specifications pad with the
  full-width bit length (`Spec.X.lenField n` = the 64-bit, for SHA-512/256 the 128-bit, encoding of
  `8·n`).  The statement about the field itself is a direct corollary of the invariant behind
  `…_chunks` (`Mhd.Hash.lengthField_eq`: byte counter = bytes fed, `putLen` = `lenField`):
  whatever was fed since `init`, in whatever pieces, `finish` stores `8·total` — all 64 (128) bits
  of it, not only the low word.  `lengthField A c` is by definition the byte string `finish` writes
  at offset `B - L` of the last block (`finish_uses_lengthField`).  -/
/-- SHA-256: the 8 bytes stored at offset 56 of the last block are the big-endian `8·total`: modulo 2^64 in
    general (`count << 3`), exactly for every total below 2^61 bytes (the standard's own limit) -/
theorem finish_length_encoding_sha256 (c : Ctx (R8 UInt32)) (hc : c.buffer.length = 64)
    (chunks : List (Nat × List UInt8)) :
    ∃ c', feed Sha256.alg (init Sha256.alg c) chunks = .ok c' ∧
      beVal (lengthField Sha256.alg c') = (8 * (message chunks).length) % 2 ^ 64 ∧
      ((message chunks).length < 2 ^ 61 → beVal (lengthField Sha256.alg c') = 8 * (message chunks).length) := by
  obtain ⟨c', hf, h⟩ := lengthField_eq Sha256.refines c hc chunks (fun _ _ => trivial)
  refine ⟨c', hf, ?_, ?_⟩
  · rw [h, sha256_lenField_val]; rfl
  · intro hlt; rw [h, sha256_lenField_val]
    exact Nat.mod_eq_of_lt (by simp only [message] at hlt ⊢; omega)

/-- SHA-1 (src/microhttpd/sha1.c) -/
theorem finish_length_encoding_sha1 (c : Ctx (R5 UInt32)) (hc : c.buffer.length = 64)
    (chunks : List (Nat × List UInt8)) :
    ∃ c', feed Sha1.alg (init Sha1.alg c) chunks = .ok c' ∧
      beVal (lengthField Sha1.alg c') = (8 * (message chunks).length) % 2 ^ 64 ∧
      ((message chunks).length < 2 ^ 61 → beVal (lengthField Sha1.alg c') = 8 * (message chunks).length) := by
  obtain ⟨c', hf, h⟩ := lengthField_eq Sha1.refines c hc chunks (fun _ _ => trivial)
  refine ⟨c', hf, ?_, ?_⟩
  · rw [h, sha1_lenField_val]; rfl
  · intro hlt; rw [h, sha1_lenField_val]
    exact Nat.mod_eq_of_lt (by simp only [message] at hlt ⊢; omega)

/-- SHA-1 (src/microhttpd_ws/sha1.c) -/
theorem finish_length_encoding_ws_sha1 (c : Ctx (R5 UInt32)) (hc : c.buffer.length = 64)
    (chunks : List (Nat × List UInt8)) :
    ∃ c', feed Sha1.wsAlg (init Sha1.wsAlg c) chunks = .ok c' ∧
      beVal (lengthField Sha1.wsAlg c') = (8 * (message chunks).length) % 2 ^ 64 ∧
      ((message chunks).length < 2 ^ 61 → beVal (lengthField Sha1.wsAlg c') = 8 * (message chunks).length) := by
  obtain ⟨c', hf, h⟩ := lengthField_eq Sha1.wsRefines c hc chunks (fun _ _ => trivial)
  refine ⟨c', hf, ?_, ?_⟩
  · rw [h, sha1_lenField_val]; rfl
  · intro hlt; rw [h, sha1_lenField_val]
    exact Nat.mod_eq_of_lt (by simp only [message] at hlt ⊢; omega)

/-- MD5: little-endian, and modulo 2^64 by definition (RFC 1321 §3.2) -/
theorem finish_length_encoding_md5 (c : Ctx (R4 UInt32)) (hc : c.buffer.length = 64)
    (chunks : List (Nat × List UInt8)) :
    ∃ c', feed Md5.alg (init Md5.alg c) chunks = .ok c' ∧
      leVal (lengthField Md5.alg c') = (8 * (message chunks).length) % 2 ^ 64 ∧
      ((message chunks).length < 2 ^ 61 → leVal (lengthField Md5.alg c') = 8 * (message chunks).length) := by
  obtain ⟨c', hf, h⟩ := lengthField_eq Md5.refines c hc chunks (fun _ _ => trivial)
  refine ⟨c', hf, ?_, ?_⟩
  · rw [h, md5_lenField_val]; rfl
  · intro hlt; rw [h, md5_lenField_val]
    exact Nat.mod_eq_of_lt (by simp only [message] at hlt ⊢; omega)

/-- SHA-512/256: 16 bytes at offset 112 (`count_bits_hi` then `count << 3`), exact below 2^125 bytes -/
theorem finish_length_encoding_sha512_256 (c : Ctx (R8 UInt64)) (hc : c.buffer.length = 128)
    (chunks : List (Nat × List UInt8)) (hl : sizeT chunks) :
    ∃ c', feed Sha512.alg (init Sha512.alg c) chunks = .ok c' ∧
      beVal (lengthField Sha512.alg c') = (8 * (message chunks).length) % 2 ^ 128 ∧
      ((message chunks).length < 2 ^ 125 → beVal (lengthField Sha512.alg c') = 8 * (message chunks).length) := by
  obtain ⟨c', hf, h⟩ := lengthField_eq Sha512.refines c hc chunks hl
  refine ⟨c', hf, ?_, ?_⟩
  · rw [h, sha512_lenField_val]; rfl
  · intro hlt; rw [h, sha512_lenField_val]
    exact Nat.mod_eq_of_lt (by simp only [message] at hlt ⊢; omega)

/-- at 2^29 bytes the bit length leaves the low 32-bit word (the field is 00 00 00 01 00 00 00 00),
    at 2^32 bytes it is 2^35 — for every way of feeding that many bytes; nothing is evaluated on
    a list of that length -/
example (c : Ctx (R5 UInt32)) (hc : c.buffer.length = 64) (chunks : List (Nat × List UInt8))
    (h : (message chunks).length = 2 ^ 29) :
    ∃ c', feed Sha1.alg (init Sha1.alg c) chunks = .ok c' ∧ beVal (lengthField Sha1.alg c') = 2 ^ 32 := by
  obtain ⟨c', hf, _, hx⟩ := finish_length_encoding_sha1 c hc chunks
  exact ⟨c', hf, by rw [hx (by rw [h]; decide), h]⟩

example (c : Ctx (R8 UInt32)) (hc : c.buffer.length = 64) (chunks : List (Nat × List UInt8))
    (h : (message chunks).length = 2 ^ 32) :
    ∃ c', feed Sha256.alg (init Sha256.alg c) chunks = .ok c' ∧ beVal (lengthField Sha256.alg c') = 2 ^ 35 := by
  obtain ⟨c', hf, _, hx⟩ := finish_length_encoding_sha256 c hc chunks
  exact ⟨c', hf, by rw [hx (by rw [h]; decide), h]⟩

/-- such chunk lists exist (one call of 2^29 bytes; 2^32 bytes as 2^12 calls of 2^20) … -/
example : (message [(0, List.replicate (2 ^ 29) 0)]).length = 2 ^ 29 := by
  simp only [message, List.map_cons, List.map_nil, List.flatten_cons, List.flatten_nil, List.append_nil,
    List.length_replicate]
/-- … and the bytes of the field at 2^29: the upper word is 1 -/
example : Spec.Sha1.spec.lenField (2 ^ 29) = [0, 0, 0, 1, 0, 0, 0, 0] ∧
    beVal [0, 0, 0, 1, 0, 0, 0, 0] = 8 * 2 ^ 29 := by decide

/-! ### Tests (not proofs): the specifications on published vectors -/

def hex (bs : List UInt8) : String :=
  String.ofList (bs.foldr (fun b acc =>
    let d := fun (n : Nat) => if n < 10 then Char.ofNat (48 + n) else Char.ofNat (87 + n)
    d (b.toNat / 16) :: d (b.toNat % 16) :: acc) [])

def ascii (s : String) : List UInt8 := s.toUTF8.toList
def msg448 : List UInt8 := ascii "abcdbcdecdefdefgefghfghighijhijkijkljklmklmnlmnomnopnopq"
def msg896 : List UInt8 :=
  ascii "abcdefghbcdefghicdefghijdefghijkefghijklfghijklmghijklmnhijklmnoijklmnopjklmnopqklmnopqrlmnopqrsmnopqrstnopqrstu"

-- FIPS 180-4 / NIST CSRC example vectors
#guard hex (Spec.Sha256.hash (ascii "abc")) = "ba7816bf8f01cfea414140de5dae2223b00361a396177a9cb410ff61f20015ad"
#guard hex (Spec.Sha256.hash []) = "e3b0c44298fc1c149afbf4c8996fb92427ae41e4649b934ca495991b7852b855"
#guard hex (Spec.Sha256.hash msg448) = "248d6a61d20638b8e5c026930c3e6039a33ce45964ff2167f6ecedd419db06c1"
#guard hex (Spec.Sha1.hash (ascii "abc")) = "a9993e364706816aba3e25717850c26c9cd0d89d"
#guard hex (Spec.Sha1.hash []) = "da39a3ee5e6b4b0d3255bfef95601890afd80709"
#guard hex (Spec.Sha1.hash msg448) = "84983e441c3bd26ebaae4aa1f95129e5e54670f1"
#guard hex (Spec.Sha512.hash (ascii "abc")) = "53048e2681941ef99b2e29b76b4c7dabe4c2d0c634fc6d46e0e2f13107e7af23"
#guard hex (Spec.Sha512.hash []) = "c672b8d1ef56ed28ab87c3622c5114069bdd3ad7b8f9737498d0c01ecef0967a"
#guard hex (Spec.Sha512.hash msg896) = "3928e184fb8690f840da3988121d31be65cb9d3ef83ee6146feac861e19b563a"
-- RFC 1321 appendix A.5 test suite
#guard hex (Spec.Md5.hash []) = "d41d8cd98f00b204e9800998ecf8427e"
#guard hex (Spec.Md5.hash (ascii "a")) = "0cc175b9c0f1b6a831c399e269772661"
#guard hex (Spec.Md5.hash (ascii "abc")) = "900150983cd24fb0d6963f7d28e17f72"
#guard hex (Spec.Md5.hash (ascii "message digest")) = "f96b697d7cb7938d525a2f31aaf161d0"
#guard hex (Spec.Md5.hash (ascii "abcdefghijklmnopqrstuvwxyz")) = "c3fcd3d76192e4007dfb496cca67e13b"
#guard hex (Spec.Md5.hash (ascii "ABCDEFGHIJKLMNOPQRSTUVWXYZabcdefghijklmnopqrstuvwxyz0123456789")) =
  "d174ab98d277d9f5a5611c2c9f419d9f"
#guard hex (Spec.Md5.hash (ascii "12345678901234567890123456789012345678901234567890123456789012345678901234567890")) =
  "57edf4a22be3c955ac49da2e2107b67a"

end Mhd.C16
