/-
  C12 — Digest authentication succeeds iff the credentials are RFC-valid.
  (work in progress: statements are added below)
-/
import Mhd.Model.Dauth

namespace Mhd.C12
open Mhd.Dauth

theorem legacy_yes_iff (r : Res) : Legacy.ofRes r = .yes ↔ r = .ok := by
  cases r <;> simp [Legacy.ofRes]

end Mhd.C12
