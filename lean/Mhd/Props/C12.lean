/-
  C12 — Digest authentication succeeds iff the credentials are RFC-valid.

  Statements only; proofs delegate to `Mhd.Proofs.Dauth*`.

  Model (`Mhd.Model.Dauth`, `Mhd.Model.DauthArgs`): `digestCheck cfg tbl now r call` mirrors
  `MHD_digest_auth_check3` / `MHD_digest_auth_check_digest3` → `digest_auth_check_all` →
  `digest_auth_check_all_inner` of digestauth.c (after the repairs F6, F24, F25, F26) and composes the
  models of C14 (`findAuthHeader`, `parseDigest`), C13 (`checkNonceNc`, `getNonceTimestamp`) and the hash
  specifications of C16.  `checkInner … (some d)` is `digest_auth_check_all_inner` on parsed parameters `d`.

  Specification (`Mhd.Proofs.DauthSpec`): `Cred` = the semantic credential (meaning of every parameter,
  independent of quoting / case / order / white space: C14's `view`), `expectedClass` = the result class as a
  function of the meaning (clauses in the order of the code), `RFCValid` = RFC 7616 / 2617 / 2069 validity
  of a semantic credential for a request, an application call, a clock value and a nonce table,
  `WithinLimits` = the documented size limits on the parameters as sent.

  Quantification: every theorem is for all byte strings (user, realm, password or userdigest, method, url,
  argument lists, header lists, every parameter value of any length), all three algorithms, qop none / auth,
  the three user-name notations, every nonce table, clock value, binding option and application mask.
  No unforgeability claim is made: the statements say "equals the RFC computation".
-/
import Mhd.Proofs.DauthNoPanic
import Mhd.Proofs.DauthEx
import Mhd.Proofs.DauthAlloc
import Mhd.Props.C16

namespace Mhd.C12
open Mhd.Dauth Mhd.Auth Mhd.Gen.Auth Mhd.Gen.Dauth

/-! ## 1. The result class is a function of the meaning of the credential -/

/-- `digest_auth_check_all_inner` on parsed parameters `d` answers (and leaves the nonce table) exactly as
    `expectedClass` says for the *meaning* of `d` (`semOf d`: every value after unquoting) and the lengths of
    the values as sent (`lenView d`, used for the size limits only): the raw slices, `quoted` flags, the two
    unquoting buffers, `MHD_str_equal_quoted_bin_n`, `MHD_str_equal_caseless_quoted_bin_n` do not matter.
    `WQ`, `QopParsed` are what `parse_dauth_params` guarantees (see `parsed_header`).  For a credential that
    is not accepted `expectedClass` is the class of the first failing clause in the order of the code. -/
theorem class_is_expected (cfg : Cfg) (tbl : Mhd.Nonce.Table) (now : Nat) (r : Req) (call : Call) (timeout maxNc : Nat)
    (d : DAuth) (hwq : WQ d) (hqp : QopParsed d) :
    checkInner cfg tbl now r call timeout maxNc (some d) =
      expectedClass cfg tbl now r call timeout maxNc (semOf d) (lenView d) :=
  checkInner_sem cfg tbl now r call timeout maxNc d hwq hqp

/-- a missing or unparsable `Authorization: Digest` header is `MHD_DAUTH_WRONG_HEADER`; the table is not touched -/
theorem no_header (cfg : Cfg) (tbl : Mhd.Nonce.Table) (now : Nat) (r : Req) (call : Call) (timeout maxNc : Nat) :
    checkInner cfg tbl now r call timeout maxNc none = (tbl, .wrongHeader) := rfl

/-! ## 2. Success iff RFC-valid -/

/-- `MHD_DAUTH_OK` iff the meaning of the credential is RFC-valid and the parameters are within the size
    limits.  `a`, `nci`, `nonce`, `t` are the algorithm, the count, the nonce and its time stamp that validity
    speaks about (they are determined by the credential). -/
theorem ok_iff_rfc_valid (cfg : Cfg) (tbl : Mhd.Nonce.Table) (now : Nat) (r : Req) (call : Call) (timeout maxNc : Nat)
    (d : DAuth) (hwq : WQ d) (hqp : QopParsed d) (hr : QopRange (semOf d)) :
    (checkInner cfg tbl now r call timeout maxNc (some d)).2 = .ok ↔
      ∃ a nci nonce t, WithinLimits a call (semOf d) (lenView d) ∧
        RFCValid cfg tbl now r call timeout maxNc (semOf d) a nci nonce t := by
  rw [checkInner_sem cfg tbl now r call timeout maxNc d hwq hqp]
  exact expected_ok_iff cfg tbl now r call timeout maxNc (semOf d) (lenView d) (lenSem_semOf d hwq) hr

/-- the same at the level of meanings, for any lengths-as-sent that are coherent with the meaning -/
theorem expected_ok_iff_valid (cfg : Cfg) (tbl : Mhd.Nonce.Table) (now : Nat) (r : Req) (call : Call) (timeout maxNc : Nat)
    (c : Cred) (lv : LenView) (hls : LenSem c lv) (hr : QopRange c) :
    (expectedClass cfg tbl now r call timeout maxNc c lv).2 = .ok ↔
      ∃ a nci nonce t, WithinLimits a call c lv ∧ RFCValid cfg tbl now r call timeout maxNc c a nci nonce t :=
  expected_ok_iff cfg tbl now r call timeout maxNc c lv hls hr

/-- Non-vacuity: the credential of `Mhd.Proofs.DauthEx` (user `us\er`, realm `r"lm`, `GET /a%20b?k=v+w&e=`,
    qop=auth, nc=0000000A, MD5) is valid, within the limits, and accepted. -/
example : RFCValid Ex.cfg Ex.tbl 6000 Ex.req Ex.call 90 1000 Ex.cred .md5 10 Ex.nonce 5000 := Ex.valid
example : (expectedClass Ex.cfg Ex.tbl 6000 Ex.req Ex.call 90 1000 Ex.cred (canonLv Ex.cred)).2 = .ok := Ex.accepted

/-! ## 3. The public functions on a real header; rendering independence (composition with C14) -/

/-- What `MHD_get_rq_dauth_params_` delivers for a request that carries a well-formed rendering `es` of a
    credential (any order, letter case of names and scheme, optional white space, token or quoted-string, any
    set of quoted-pairs; `username*` written as an ext-value): parameters with the guaranteed properties whose
    meaning is `Cred.ofView (view es)` and whose lengths as sent are those of the rendering. -/
theorem parsed_header (r : Req) (lead : (List UInt8)) (es : List Elem) (hc : CarriesDigest r lead es)
    (hwf : WF lead es = true) (hext : ExtPlain es) :
    ∃ d, getParams r = .ok (some d) ∧ WQ d ∧ QopParsed d ∧ QopRange (semOf d) ∧
      semOf d = Cred.ofView (view es) ∧ lenView d = rawLenView es :=
  getParams_rendered r lead es hc hwf hext

/-- `MHD_digest_auth_check3` / `MHD_digest_auth_check_digest3` on such a request: the class is
    `expectedClass` of the meaning of the credential; zero `nonce_timeout` / `max_nc` mean the daemon defaults. -/
theorem digest_check_class (cfg : Cfg) (tbl : Mhd.Nonce.Table) (now : Nat) (r : Req) (call : Call) (hcall : CallOk call)
    (lead : (List UInt8)) (es : List Elem) (hc : CarriesDigest r lead es) (hwf : WF lead es = true) (hext : ExtPlain es) :
    digestCheck cfg tbl now r call =
      expectedClass cfg tbl now r call (effTimeout cfg call) (effMaxNc cfg call) (Cred.ofView (view es)) (rawLenView es) := by
  obtain ⟨d, hp, hwq, hqp, _, hsem, hlen⟩ := getParams_rendered r lead es hc hwf hext
  rw [digestCheck_eq cfg tbl now r call hcall (some d) hp, checkInner_sem _ _ _ _ _ _ _ d hwq hqp, hsem, hlen]

/-- … and it is `MHD_DAUTH_OK` iff that credential is RFC-valid (within the size limits) -/
theorem digest_check_ok_iff (cfg : Cfg) (tbl : Mhd.Nonce.Table) (now : Nat) (r : Req) (call : Call) (hcall : CallOk call)
    (lead : (List UInt8)) (es : List Elem) (hc : CarriesDigest r lead es) (hwf : WF lead es = true) (hext : ExtPlain es) :
    (digestCheck cfg tbl now r call).2 = .ok ↔
      ∃ a nci nonce t, WithinLimits a call (Cred.ofView (view es)) (rawLenView es) ∧
        RFCValid cfg tbl now r call (effTimeout cfg call) (effMaxNc cfg call) (Cred.ofView (view es)) a nci nonce t := by
  obtain ⟨d, hp, hwq, hqp, hr, hsem, hlen⟩ := getParams_rendered r lead es hc hwf hext
  rw [digestCheck_eq cfg tbl now r call hcall (some d) hp, checkInner_sem _ _ _ _ _ _ _ d hwq hqp]
  have := expected_ok_iff cfg tbl now r call (effTimeout cfg call) (effMaxNc cfg call) (semOf d) (lenView d)
    (lenSem_semOf d hwq) hr
  rw [hsem, hlen] at this ⊢
  exact this

/-- Rendering independence: two requests that differ only in how the same credential (the same parameters in
    the same order of occurrence; everything else chosen independently) is written in the Authorization field
    get the same answer and leave the same nonce table, provided both renderings respect the size limits. -/
theorem rendering_independent (cfg : Cfg) (tbl : Mhd.Nonce.Table) (now : Nat) (r : Req) (hdrs' : List Hdr) (call : Call)
    (hcall : CallOk call) (lead lead' : (List UInt8)) (es es' : List Elem)
    (hc : CarriesDigest r lead es) (hc' : CarriesDigest { r with hdrs := hdrs' } lead' es')
    (hwf : WF lead es = true) (hwf' : WF lead' es' = true) (hext : ExtPlain es) (hext' : ExtPlain es')
    (hsame : es.map (·.item) = es'.map (·.item))
    (hl : RawOk call (Cred.ofView (view es)) (rawLenView es)) (hl' : RawOk call (Cred.ofView (view es')) (rawLenView es')) :
    digestCheck cfg tbl now { r with hdrs := hdrs' } call = digestCheck cfg tbl now r call := by
  have hv : view es' = view es := by
    funext k
    have : ∀ (l : List Elem), view l k =
        (l.map (·.item)).foldl (fun acc i => if i.slot = k then some i.value else acc) none := by
      intro l; simp [view, List.foldl_map]
    rw [this es, this es', hsame]
  obtain ⟨d, _, hwq, _, _, hsem, hlen⟩ := getParams_rendered r lead es hc hwf hext
  obtain ⟨d', _, hwq', _, _, hsem', hlen'⟩ := getParams_rendered _ lead' es' hc' hwf' hext'
  rw [digest_check_class cfg tbl now r call hcall lead es hc hwf hext,
    digest_check_class cfg tbl now _ call hcall lead' es' hc' hwf' hext', hv]
  have hs := lenSem_semOf d hwq
  have hs' := lenSem_semOf d' hwq'
  rw [hsem, hlen] at hs
  rw [hsem', hlen', hv] at hs'
  rw [hv] at hl'
  -- the request enters `expectedClass` only through method, url, arguments and address
  show expectedClass cfg tbl now { r with hdrs := hdrs' } call _ _ _ _ = _
  have : ∀ lv, expectedClass cfg tbl now { r with hdrs := hdrs' } call (effTimeout cfg call) (effMaxNc cfg call)
      (Cred.ofView (view es)) lv =
      expectedClass cfg tbl now r call (effTimeout cfg call) (effMaxNc cfg call) (Cred.ofView (view es)) lv := fun _ => rfl
  rw [this]
  exact expectedClass_congr cfg tbl now r call _ _ _ _ _ hs' hs hl' hl

/-- The hypotheses of §1, §2 and §4 hold for *every* header `parse_dauth_params` accepts — not only for
    grammar-conforming renderings: whatever bytes the client sends as Authorization field, if
    `MHD_get_rq_dauth_params_` delivers parameters `d` then every quoted parameter unquotes, the qop constant
    is that of the stored qop parameter and lies in its range. -/
theorem parser_guarantees (r : Req) (d : DAuth) (h : getParams r = .ok (some d)) :
    WQ d ∧ QopParsed d ∧ QopRange (semOf d) :=
  getParams_props r d h

/-- Hence, for every request whatsoever (any header list, any bytes in the Authorization field) and every
    API-conforming call: `MHD_DAUTH_OK` iff the header parses to parameters whose meaning is RFC-valid
    within the size limits — "every failing case is reported with a failure class and never as success". -/
theorem digest_check_ok_iff_any_request (cfg : Cfg) (tbl : Mhd.Nonce.Table) (now : Nat) (r : Req) (call : Call)
    (hcall : CallOk call) :
    (digestCheck cfg tbl now r call).2 = .ok ↔
      ∃ d, getParams r = .ok (some d) ∧ ∃ a nci nonce t, WithinLimits a call (semOf d) (lenView d) ∧
        RFCValid cfg tbl now r call (effTimeout cfg call) (effMaxNc cfg call) (semOf d) a nci nonce t := by
  cases hp : getParams r with
  | error e =>
    have : (digestCheck cfg tbl now r call).2 = e := by
      unfold digestCheck CallOk at *
      cases hs : call.secret with
      | password pw => simp [checkAll, hp]
      | userdigest dg => rw [hs] at hcall; simp only at hcall; simp [checkAll, hp, hcall.1, hcall.2]
    rw [this]
    constructor
    · intro he; subst he
      unfold getParams at hp
      split at hp
      · cases hp
      · split at hp <;> cases hp
    · rintro ⟨d, hd, _⟩; cases hd
  | ok p =>
    rw [digestCheck_eq cfg tbl now r call hcall p hp]
    cases p with
    | none =>
      constructor
      · intro h; cases h
      · rintro ⟨d, hd, _⟩; cases hd
    | some d =>
      obtain ⟨hwq, hqp, hr⟩ := getParams_props r d hp
      rw [checkInner_sem _ _ _ _ _ _ _ d hwq hqp]
      constructor
      · intro h
        exact ⟨d, rfl, (expected_ok_iff _ _ _ _ _ _ _ _ _ (lenSem_semOf d hwq) hr).mp h⟩
      · rintro ⟨d', hd', hv⟩
        injection hd' with hd'; injection hd' with hd'; subst hd'
        exact (expected_ok_iff _ _ _ _ _ _ _ _ _ (lenSem_semOf d hwq) hr).mpr hv

/-- A client cannot make the library abort: for every request and every API-conforming call the result is
    never `MHD_PANIC` (before fix F25 `algorithm=foo` reached `MHD_PANIC ("Wrong 'malgo3' value")`). -/
theorem no_client_panic (cfg : Cfg) (tbl : Mhd.Nonce.Table) (now : Nat) (r : Req) (call : Call) (hcall : CallOk call) :
    (digestCheck cfg tbl now r call).2 ≠ .panic := by
  cases hp : getParams r with
  | error e =>
    have : (digestCheck cfg tbl now r call).2 = e := by
      unfold digestCheck CallOk at *
      cases hs : call.secret with
      | password pw => simp [checkAll, hp]
      | userdigest dg => rw [hs] at hcall; simp only at hcall; simp [checkAll, hp, hcall.1, hcall.2]
    rw [this]
    unfold getParams at hp
    split at hp
    · cases hp
    · split at hp <;> cases hp
      exact fun h => Res.noConfusion h
  | ok p =>
    rw [digestCheck_eq cfg tbl now r call hcall p hp]
    cases p with
    | none => simp [checkInner]
    | some d =>
      obtain ⟨hwq, hqp, _⟩ := getParams_props r d hp
      rw [checkInner_sem _ _ _ _ _ _ _ d hwq hqp]
      apply expectedClass_no_panic
      -- `algo3` of a parsed header is `get_rq_dauth_algo` of the algorithm parameter
      unfold getParams at hp
      split at hp
      · cases hp
      · split at hp
        · rename_i d' hpd
          injection hp with hp; injection hp with hp; subst hp
          unfold parseDigest at hpd
          rw [Res.map_eq_ok] at hpd
          obtain ⟨st, _, rfl⟩ := hpd
          exact algoOf_range _
        · cases hp
        · cases hp

/-! ## 4. Single-field mutations are rejected (corollaries of §2) -/

section mutations
variable (cfg : Cfg) (tbl : Mhd.Nonce.Table) (now : Nat) (r : Req) (call : Call) (timeout maxNc : Nat)
  (d : DAuth) (hwq : WQ d) (hqp : QopParsed d) (hr : QopRange (semOf d))
include hwq hqp hr

/-- what an accepted credential tells: use `.algo`, `.realm`, `.response` … of the validity -/
theorem accepted_is_valid (hok : (checkInner cfg tbl now r call timeout maxNc (some d)).2 = .ok) :
    ∃ a nci nonce t, WithinLimits a call (semOf d) (lenView d) ∧
      RFCValid cfg tbl now r call timeout maxNc (semOf d) a nci nonce t :=
  (ok_iff_rfc_valid cfg tbl now r call timeout maxNc d hwq hqp hr).mp hok

/-- another realm -/
theorem reject_realm (h : (semOf d).val kRealm ≠ some call.realm) :
    (checkInner cfg tbl now r call timeout maxNc (some d)).2 ≠ .ok := fun hok => by
  obtain ⟨_, _, _, _, _, hv⟩ := accepted_is_valid cfg tbl now r call timeout maxNc d hwq hqp hr hok
  exact h hv.realm

/-- a user name that does not denote the expected user in any of the three notations -/
theorem reject_username (h : ∀ a, ¬ UserOk a call (semOf d)) :
    (checkInner cfg tbl now r call timeout maxNc (some d)).2 ≠ .ok := fun hok => by
  obtain ⟨a, _, _, _, _, hv⟩ := accepted_is_valid cfg tbl now r call timeout maxNc d hwq hqp hr hok
  exact h a hv.user

/-- a `uri` that does not denote the request's path and arguments -/
theorem reject_uri (h : ∀ u, (semOf d).val kUri = some u → checkUriMatch cfg.strictUnescape u r.url r.args = false) :
    (checkInner cfg tbl now r call timeout maxNc (some d)).2 ≠ .ok := fun hok => by
  obtain ⟨_, _, _, _, _, hv⟩ := accepted_is_valid cfg tbl now r call timeout maxNc d hwq hqp hr hok
  obtain ⟨u, h1, _, h3⟩ := hv.uri
  rw [h u h1] at h3; cases h3

/-- an unknown, a `-sess` or a not allowed algorithm -/
theorem reject_algorithm (h : d.algo3 = algoInvalid ∨ d.algo3 ≠ (d.algo3 &&& call.malgo3) ∨ (d.algo3 &&& algoSession) ≠ 0) :
    (checkInner cfg tbl now r call timeout maxNc (some d)).2 ≠ .ok := fun hok => by
  obtain ⟨_, _, _, _, _, hv⟩ := accepted_is_valid cfg tbl now r call timeout maxNc d hwq hqp hr hok
  obtain ⟨h1, h2, h3, _⟩ := hv.algo
  rcases h with h | h | h
  · exact h1 h
  · exact h h2
  · exact h h3

/-- an unknown qop, `auth-int`, or a qop the application does not allow -/
theorem reject_qop (h : (d.qop ≠ qopNone ∧ d.qop ≠ qopAuth) ∨ d.qop ≠ (d.qop &&& call.mqop)) :
    (checkInner cfg tbl now r call timeout maxNc (some d)).2 ≠ .ok := fun hok => by
  obtain ⟨_, _, _, _, _, hv⟩ := accepted_is_valid cfg tbl now r call timeout maxNc d hwq hqp hr hok
  obtain ⟨h1, h2⟩ := hv.qop
  rcases h with ⟨ha, hb⟩ | h
  · rcases h1 with h1 | h1
    · exact ha h1
    · exact hb h1
  · exact h h2

/-- the response of an accepted credential is the hexadecimal text of the RFC value for the credential's own
    nonce, nc, cnonce, qop and uri, the request's method and the configured user, realm and password / H(A1);
    hence a changed response, nc text, cnonce, or nonce text is rejected unless that equation still holds -/
theorem response_is_rfc_value (hok : (checkInner cfg tbl now r call timeout maxNc (some d)).2 = .ok) :
    ∃ a nci nonce uri mid h1 resp, (semOf d).val kNonce = some nonce ∧ (semOf d).val kUri = some uri ∧
      CountOk maxNc (semOf d) nci mid ∧ ha1Hex a call = .ok h1 ∧ (semOf d).val kResponse = some resp ∧
      hexToBin resp = some (rfcResponse a h1 nonce mid uri r.method) := by
  obtain ⟨a, nci, nonce, t, _, hv⟩ := accepted_is_valid cfg tbl now r call timeout maxNc d hwq hqp hr hok
  obtain ⟨u, mid, h1, resp, bin, e1, e2, e3, e4, e5, _, _, e8⟩ := hv.response
  exact ⟨a, nci, nonce, u, mid, h1, resp, hv.nonceVal.1, e1, e2, e3, e4, by rw [e5, e8]⟩

/-- a nonce that is older than the timeout -/
theorem reject_expired (h : ∀ n t, (semOf d).val kNonce = some n → Mhd.Nonce.getNonceTimestamp n n.length = .ts t →
      Mhd.Nonce.trim (Mhd.Nonce.sub64 now t) > (timeout * 1000) % 2 ^ Mhd.Gen.Nonce.timeoutBits) :
    (checkInner cfg tbl now r call timeout maxNc (some d)).2 ≠ .ok := fun hok => by
  obtain ⟨_, _, n, t, _, hv⟩ := accepted_is_valid cfg tbl now r call timeout maxNc d hwq hqp hr hok
  exact hv.nonceVal.2.2.2 (h n t hv.nonceVal.1 hv.nonceVal.2.2.1)

/-- a nonce / count that the nonce table does not accept (never issued, evicted, count used or behind the
    window — see C13 for what `checkNonceNc … = ok` means on a reachable table) -/
theorem reject_unregistered (h : ∀ n t c, (semOf d).val kNonce = some n → (Mhd.Nonce.checkNonceNc tbl n t c).2 ≠ .ok) :
    (checkInner cfg tbl now r call timeout maxNc (some d)).2 ≠ .ok := fun hok => by
  obtain ⟨_, c, n, t, _, hv⟩ := accepted_is_valid cfg tbl now r call timeout maxNc d hwq hqp hr hok
  exact h n t c hv.nonceVal.1 hv.fresh

/-- with a binding option: a nonce that this daemon does not make for this client / resource / realm -/
theorem reject_other_conditions (hb : cfg.bindType ≠ bindNone)
    (h : ∀ a n t, (semOf d).val kNonce = some n → calcNonce cfg r call.realm a t ≠ some n) :
    (checkInner cfg tbl now r call timeout maxNc (some d)).2 ≠ .ok := fun hok => by
  obtain ⟨a, _, n, t, _, hv⟩ := accepted_is_valid cfg tbl now r call timeout maxNc d hwq hqp hr hok
  exact h a n t hv.nonceVal.1 (hv.bind hb)

end mutations

/-- Replay: once a credential has been accepted on a reachable nonce table, every later credential with the
    same nonce and the same nc text (and the same qop class) is rejected — for any request, clock value,
    daemon configuration and application arguments. -/
theorem replay_rejected (size : Nat) (hist : List Mhd.Nonce.Ev) (cfg cfg' : Cfg) (tbl : Mhd.Nonce.Table)
    (hrel : Mhd.Nonce.TblRel size tbl hist)
    (now now' : Nat) (r r' : Req) (call call' : Call) (timeout timeout' maxNc maxNc' : Nat) (d d' : DAuth)
    (hwq : WQ d) (hqp : QopParsed d) (hwq' : WQ d') (hqp' : QopParsed d')
    (hok : (checkInner cfg tbl now r call timeout maxNc (some d)).2 = .ok)
    (hn : (semOf d').val kNonce = (semOf d).val kNonce) (hnc : (semOf d').val kNc = (semOf d).val kNc)
    (hq : d'.qop = d.qop) :
    (checkInner cfg' (checkInner cfg tbl now r call timeout maxNc (some d)).1 now' r' call' timeout' maxNc' (some d')).2 ≠ .ok := by
  rw [checkInner_sem cfg tbl now r call timeout maxNc d hwq hqp] at hok ⊢
  rw [checkInner_sem cfg' _ now' r' call' timeout' maxNc' d' hwq' hqp']
  exact replay_rejected_sem size hist cfg cfg' tbl hrel now now' r r' call call' timeout timeout' maxNc maxNc'
    (semOf d) (semOf d') (lenView d) (lenView d') hok hn hnc hq

/-- every table reached from the empty one by registrations and presentations is such a table -/
example (size : Nat) (ops : List Mhd.Nonce.Op) (hwf : ∀ o ∈ ops, o.Wf) :
    Mhd.Nonce.TblRel size (Mhd.Nonce.run size ops).1 (Mhd.Nonce.run size ops).2 := Mhd.Nonce.run_rel size ops hwf

/-! ## 5. Memory safety of the two stack buffers -/

/-- For every input whatsoever — any parameters, parsed or not — the check never writes beyond
    `hash1_bin[MAX_DIGEST]` (the decoded `response`: fix F24) nor beyond `tmp1[128]`. -/
theorem no_buffer_overflow (cfg : Cfg) (tbl : Mhd.Nonce.Table) (now : Nat) (r : Req) (call : Call) (timeout maxNc : Nat)
    (p : Option DAuth) :
    (checkInner cfg tbl now r call timeout maxNc p).2 ≠ .fault .hash1Overflow ∧
    (checkInner cfg tbl now r call timeout maxNc p).2 ≠ .fault .tmp1Overflow := by
  have h := checkInner_no_overflow cfg tbl now r call timeout maxNc p
  exact ⟨fun e => h (Or.inl e), fun e => h (Or.inr e)⟩

set_option maxRecDepth 100000 in
/-- the `response` values that used to overflow (65 … 128 hexadecimal digits with a 32-byte digest) are now
    `MHD_DAUTH_RESPONSE_WRONG` without being decoded -/
example : stageResponse .sha256 Ex.req Ex.call
    { slots := fun k => if k = kResponse then some ⟨0, List.replicate 128 97, false⟩ else none,
      userhash := false, algo3 := algoSha256, qop := qopNone } [] = .error .responseWrong := by
  rfl

/-! ## 6. The deprecated functions -/

/-- `MHD_digest_auth_check2` / `_check_digest2` (and `_check` / `_check_digest` with MD5): `MHD_YES` iff the new
    function answers `MHD_DAUTH_OK` with `max_nc = 0` (default), qop `auth` only and the algorithm mask of `algo` -/
theorem legacy_yes_iff (cfg : Cfg) (tbl : Mhd.Nonce.Table) (now : Nat) (r : Req) (realm username : (List UInt8)) (secret : Secret)
    (nonceTimeout algo m : Nat) (hm : legacyMalgo algo = some m) :
    (legacyCheck cfg tbl now r realm username secret nonceTimeout algo).2 = .yes ↔
      (digestCheck cfg tbl now r ⟨realm, username, secret, nonceTimeout, 0, mqopAuth, m⟩).2 = .ok := by
  simp only [legacyCheck, hm]
  cases (digestCheck cfg tbl now r ⟨realm, username, secret, nonceTimeout, 0, mqopAuth, m⟩).2 <;> simp [Legacy.ofRes]

/-- `MHD_INVALID_NONCE` iff the class is one of the three nonce classes -/
theorem legacy_invalid_nonce_iff (cfg : Cfg) (tbl : Mhd.Nonce.Table) (now : Nat) (r : Req) (realm username : (List UInt8))
    (secret : Secret) (nonceTimeout algo m : Nat) (hm : legacyMalgo algo = some m) :
    (legacyCheck cfg tbl now r realm username secret nonceTimeout algo).2 = .invalidNonce ↔
      (digestCheck cfg tbl now r ⟨realm, username, secret, nonceTimeout, 0, mqopAuth, m⟩).2 ∈
        [Res.nonceStale, Res.nonceWrong, Res.nonceOtherCond] := by
  simp only [legacyCheck, hm]
  cases (digestCheck cfg tbl now r ⟨realm, username, secret, nonceTimeout, 0, mqopAuth, m⟩).2 <;> simp [Legacy.ofRes]

example : legacyMalgo algAuto = some malgoAnyNonSession ∧ legacyMalgo algMd5 = some malgoMd5 ∧
    legacyMalgo algSha256 = some malgoSha256 ∧ legacyMalgo 7 = none := by decide

/-! ## 7. The hashes are the library's hash functions (composition with C16) -/

/-- `Algo.hash` — used by the model for H(A1), H(A2), the response, the userhash and the nonce — is what the
    incremental C implementation computes for *any* sequence of `digest_update` chunks with that content
    (any context left over from a previous use, any alignment of the chunks). -/
theorem hash_is_implementation_md5 (c : Mhd.Hash.Ctx (Mhd.Hash.R4 UInt32)) (hc : c.buffer.length = 64)
    (chunks : List (Nat × List UInt8)) :
    Mhd.Hash.run Mhd.Hash.Md5.alg c chunks = .ok (Algo.md5.hash (Mhd.C16.message chunks), Mhd.Hash.wiped Mhd.Hash.Md5.alg) :=
  Mhd.C16.md5_chunks c hc chunks

theorem hash_is_implementation_sha256 (c : Mhd.Hash.Ctx (Mhd.Hash.R8 UInt32)) (hc : c.buffer.length = 64)
    (chunks : List (Nat × List UInt8)) :
    Mhd.Hash.run Mhd.Hash.Sha256.alg c chunks =
      .ok (Algo.sha256.hash (Mhd.C16.message chunks), Mhd.Hash.wiped Mhd.Hash.Sha256.alg) :=
  Mhd.C16.sha256_chunks c hc chunks

theorem hash_is_implementation_sha512_256 (c : Mhd.Hash.Ctx (Mhd.Hash.R8 UInt64)) (hc : c.buffer.length = 128)
    (chunks : List (Nat × List UInt8)) (hl : Mhd.C16.sizeT chunks) :
    Mhd.Hash.run Mhd.Hash.Sha512.alg c chunks =
      .ok (Algo.sha512.hash (Mhd.C16.message chunks), Mhd.Hash.wiped Mhd.Hash.Sha512.alg) :=
  Mhd.C16.sha512_256_chunks c hc chunks hl

/-- e.g. H(A1) = `digest_update (username); ':'; digest_update (realm); ':'; digest_update_str (password)` -/
example (c : Mhd.Hash.Ctx (Mhd.Hash.R4 UInt32)) (hc : c.buffer.length = 64) (u rl pw : List UInt8) :
    Mhd.Hash.run Mhd.Hash.Md5.alg c [(0, u), (0, [58]), (0, rl), (0, [58]), (0, pw)] =
      .ok (userdigest .md5 u rl pw, Mhd.Hash.wiped Mhd.Hash.Md5.alg) := by
  rw [hash_is_implementation_md5 c hc]
  simp [Mhd.C16.message, userdigest]

/-- `MHD_bin_to_hex` and `MHD_hex_to_bin` are inverse (the response is compared after decoding: either letter case) -/
theorem hex_roundtrip (b : (List UInt8)) (h : b ≠ []) : hexToBin (binToHex b) = some b := hexToBin_binToHex b h

/-! ## 8. Allocation failure (`malloc` inside `get_buffer_for_size`)

`checkInnerA fails …` / `digestCheckA fails …` / `legacyCheckA fails …` (`Mhd.Model.DauthAlloc`) are the same
functions with the outcome of `malloc` as an explicit input: `fails = true` = every `malloc` during the check
returns NULL.  A buffer is requested for every value with quoted pairs (`get_unquoted_param`), for `uri` always
(`get_unquoted_param_copy`, one byte more) and for the user name in extended notation; up to 128 bytes the
stack buffer `tmp1` is used, above it `malloc`.  `needsHeap d` = one of the requests on the accepting path
exceeds 128 bytes. -/

/-- `malloc` succeeds: the model of §1–§7 (every theorem above is about this case) -/
theorem alloc_success_is_model (cfg : Cfg) (tbl : Mhd.Nonce.Table) (now : Nat) (r : Req) (call : Call) (timeout maxNc : Nat)
    (p : Option DAuth) (realm username : List UInt8) (secret : Secret) (nonceTimeout algo : Nat) :
    checkInnerA false cfg tbl now r call timeout maxNc p = checkInner cfg tbl now r call timeout maxNc p ∧
    digestCheckA false cfg tbl now r call = digestCheck cfg tbl now r call ∧
    legacyCheckA false cfg tbl now r realm username secret nonceTimeout algo =
      legacyCheck cfg tbl now r realm username secret nonceTimeout algo :=
  ⟨checkInnerA_false _ _ _ _ _ _ _ _, digestCheckA_false _ _ _ _ _, legacyCheckA_false _ _ _ _ _ _ _ _ _⟩

example : checkInnerA false Ex.cfg Ex.tbl 6000 ExA.req Ex.call 90 1000 (some ExA.d) =
    checkInner Ex.cfg Ex.tbl 6000 ExA.req Ex.call 90 1000 (some ExA.d) :=
  (alloc_success_is_model _ _ _ _ _ _ _ _ [] [] (.password []) 0 0).1

/-- `malloc` fails, ALL inputs (any parameters, parsed or not, valid or not): the check answers exactly as when
    `malloc` succeeds, or it answers `MHD_DAUTH_ERROR` — before `check_nonce_nc` with the nonce table untouched,
    or after it with the table of the succeeding run (the nonce count is then spent, as for a wrong response). -/
theorem alloc_failure_cases (cfg : Cfg) (tbl : Mhd.Nonce.Table) (now : Nat) (r : Req) (call : Call) (timeout maxNc : Nat)
    (p : Option DAuth) :
    checkInnerA true cfg tbl now r call timeout maxNc p = checkInner cfg tbl now r call timeout maxNc p
    ∨ checkInnerA true cfg tbl now r call timeout maxNc p = (tbl, .error)
    ∨ checkInnerA true cfg tbl now r call timeout maxNc p = ((checkInner cfg tbl now r call timeout maxNc p).1, .error) :=
  checkInnerA_true_cases cfg tbl now r call timeout maxNc p

set_option maxRecDepth 100000 in
/-- the stage that first asks for more than 128 bytes stops with `MHD_DAUTH_ERROR` (here: `uri` of 130 bytes sent
    as a token, and a quoted `cnonce` of 200 bytes), where the succeeding run goes on -/
example : stageUri Ex.cfg ExA.req ExB.dUri = .ok ExA.path ∧ stageUriA true Ex.cfg ExA.req ExB.dUri = .error .error :=
  ⟨rfl, rfl⟩
set_option maxRecDepth 100000 in
example : qopPart ExB.dCn = .ok ([49] ++ 58 :: (List.replicate 199 99 ++ 58 :: [49, 58])) ∧
    qopPartA true ExB.dCn = .error .error := ⟨rfl, rfl⟩

/-- the public functions: same class, or `MHD_DAUTH_ERROR` / `MHD_NO`; in particular never `MHD_DAUTH_OK` /
    `MHD_YES` unless the succeeding run says so -/
theorem alloc_failure_class (cfg : Cfg) (tbl : Mhd.Nonce.Table) (now : Nat) (r : Req) (call : Call)
    (realm username : List UInt8) (secret : Secret) (nonceTimeout algo : Nat) :
    ((digestCheckA true cfg tbl now r call).2 = (digestCheck cfg tbl now r call).2
      ∨ (digestCheckA true cfg tbl now r call).2 = .error) ∧
    ((legacyCheckA true cfg tbl now r realm username secret nonceTimeout algo).2 =
        (legacyCheck cfg tbl now r realm username secret nonceTimeout algo).2
      ∨ (legacyCheckA true cfg tbl now r realm username secret nonceTimeout algo).2 = .no) :=
  ⟨digestCheckA_true_class _ _ _ _ _, legacyCheckA_true_class _ _ _ _ _ _ _ _ _⟩

theorem alloc_failure_never_ok_unless (cfg : Cfg) (tbl : Mhd.Nonce.Table) (now : Nat) (r : Req) (call : Call)
    (h : (digestCheckA true cfg tbl now r call).2 = .ok) : (digestCheck cfg tbl now r call).2 = .ok := by
  rcases (alloc_failure_class cfg tbl now r call [] [] (.password []) 0 0).1 with e | e
  · rw [← e]; exact h
  · rw [e] at h; cases h

/-- the table: untouched, or the table of the succeeding run -/
theorem alloc_failure_table (cfg : Cfg) (tbl : Mhd.Nonce.Table) (now : Nat) (r : Req) (call : Call) (timeout maxNc : Nat)
    (p : Option DAuth) :
    (checkInnerA true cfg tbl now r call timeout maxNc p).1 = tbl
    ∨ (checkInnerA true cfg tbl now r call timeout maxNc p).1 = (checkInner cfg tbl now r call timeout maxNc p).1 :=
  checkInnerA_true_table cfg tbl now r call timeout maxNc p

/-- `malloc` fails: `MHD_DAUTH_OK` iff the succeeding run answers `MHD_DAUTH_OK` (§2: iff RFC-valid) and no
    request exceeds the stack buffer.  A credential that needs the heap is never accepted. -/
theorem alloc_failure_ok_iff (cfg : Cfg) (tbl : Mhd.Nonce.Table) (now : Nat) (r : Req) (call : Call) (timeout maxNc : Nat)
    (d : DAuth) :
    (checkInnerA true cfg tbl now r call timeout maxNc (some d)).2 = .ok ↔
      ((checkInner cfg tbl now r call timeout maxNc (some d)).2 = .ok ∧ needsHeap d = false) :=
  checkInnerA_true_ok_iff cfg tbl now r call timeout maxNc d

/-- an accepted credential that needs the heap is answered `MHD_DAUTH_ERROR` when `malloc` fails -/
theorem alloc_failure_needs_heap_error (cfg : Cfg) (tbl : Mhd.Nonce.Table) (now : Nat) (r : Req) (call : Call)
    (timeout maxNc : Nat) (d : DAuth) (hok : (checkInner cfg tbl now r call timeout maxNc (some d)).2 = .ok)
    (hn : needsHeap d = true) : (checkInnerA true cfg tbl now r call timeout maxNc (some d)).2 = .error :=
  needsHeap_error cfg tbl now r call timeout maxNc d hok hn

/-- non-vacuity: the valid credential of §2 for a request path of 130 bytes (`uri` copy of 131 bytes) is accepted
    when `malloc` succeeds, needs the heap, and is answered `MHD_DAUTH_ERROR` when `malloc` fails -/
example : (checkInner Ex.cfg Ex.tbl 6000 ExA.req Ex.call 90 1000 (some ExA.d)).2 = .ok ∧ needsHeap ExA.d = true ∧
    (checkInnerA true Ex.cfg Ex.tbl 6000 ExA.req Ex.call 90 1000 (some ExA.d)).2 = .error :=
  ⟨ExA.accepted, ExA.needs, alloc_failure_needs_heap_error _ _ _ _ _ _ _ _ ExA.accepted ExA.needs⟩

/-- when no request exceeds 128 bytes `malloc` is not called: its outcome does not matter, for any credential -/
theorem alloc_irrelevant_when_small (fails : Bool) (cfg : Cfg) (tbl : Mhd.Nonce.Table) (now : Nat) (r : Req) (call : Call)
    (timeout maxNc : Nat) (d : DAuth) (hn : needsHeap d = false) :
    checkInnerA fails cfg tbl now r call timeout maxNc (some d) = checkInner cfg tbl now r call timeout maxNc (some d) :=
  checkInnerA_small fails cfg tbl now r call timeout maxNc d hn

set_option maxRecDepth 100000 in
example : needsHeap { ExA.d with slots := fun k => if k = kUri then some ⟨0, Ex.uri, false⟩ else ExA.d.slots k } = false := by
  decide

/-- §5 whatever `malloc` does: no write beyond `hash1_bin[MAX_DIGEST]` nor `tmp1[128]` -/
theorem no_buffer_overflow_alloc (fails : Bool) (cfg : Cfg) (tbl : Mhd.Nonce.Table) (now : Nat) (r : Req) (call : Call)
    (timeout maxNc : Nat) (p : Option DAuth) :
    (checkInnerA fails cfg tbl now r call timeout maxNc p).2 ≠ .fault .hash1Overflow ∧
    (checkInnerA fails cfg tbl now r call timeout maxNc p).2 ≠ .fault .tmp1Overflow := by
  have h := checkInnerA_no_overflow fails cfg tbl now r call timeout maxNc p
  exact ⟨fun e => h (Or.inl e), fun e => h (Or.inr e)⟩

example : (checkInnerA true Ex.cfg Ex.tbl 6000 ExA.req Ex.call 90 1000 (some ExA.d)).2 ≠ .fault .tmp1Overflow :=
  (no_buffer_overflow_alloc true _ _ _ _ _ _ _ _).2

/-! ## 9. The extended-notation user name is compared as (length, bytes)

  `get_rq_extended_uname_copy_z` percent-decodes `username*`; the result is binary with an explicit length
  (`%00` decodes to a zero byte).  The check compares `username_len != res || memcmp (…)`: a decoded name that is
  the configured name followed by NUL and anything else, or cut at a NUL, is another name. -/

/-- the stage: whenever the decoded name is not exactly the configured one the class is `MHD_DAUTH_WRONG_USERNAME` -/
theorem extended_username_exact_stage (a : Algo) (call : Call) (d : DAuth) (e : Param) (name : List UInt8)
    (hu : d.userhash = false) (hn : d.slots kUsername = none) (he : d.slots kUsernameExt = some e)
    (hb : noBuffer (e.raw.length + 1 - extMinLen) = false) (hdec : extName e.raw = some name) :
    stageUsername a call d = (if name = call.username then .ok () else .error .wrongUsername) := by
  simp [stageUsername, hu, hn, he, need, bind, Except.bind, hb, hdec]

section
variable (cfg : Cfg) (tbl : Mhd.Nonce.Table) (now : Nat) (r : Req) (call : Call) (timeout maxNc : Nat)
  (d : DAuth) (hwq : WQ d) (hqp : QopParsed d) (hr : QopRange (semOf d))
include hwq hqp hr

/-- a credential in extended notation whose decoded name differs from the configured user name — in any byte or
    in its length — is never accepted -/
theorem extended_username_exact (e : Param) (name : List UInt8)
    (hn : d.slots kUsername = none) (he : d.slots kUsernameExt = some e) (hdec : extName e.raw = some name)
    (hne : name ≠ call.username) :
    (checkInner cfg tbl now r call timeout maxNc (some d)).2 ≠ .ok := by
  apply reject_username cfg tbl now r call timeout maxNc d hwq hqp hr
  intro a hU
  rcases hU with ⟨_, h2, _⟩ | ⟨_, _, e', h3, h4⟩ | ⟨_, h2, _⟩
  · simp [semOf, hn] at h2
  · simp only [semOf, he, Option.map_some, Option.some.injEq] at h3
    subst h3
    rw [hdec] at h4
    exact hne (Option.some.inj h4)
  · simp [semOf, he] at h2

/-- **the decoded length must equal the configured length** -/
theorem extended_username_compared_with_length (e : Param) (name : List UInt8)
    (hn : d.slots kUsername = none) (he : d.slots kUsernameExt = some e) (hdec : extName e.raw = some name)
    (hlen : name.length ≠ call.username.length) :
    (checkInner cfg tbl now r call timeout maxNc (some d)).2 ≠ .ok :=
  extended_username_exact cfg tbl now r call timeout maxNc d hwq hqp hr e name hn he hdec
    (fun h => hlen (by rw [h]))

/-- in particular a decoded name with an embedded zero byte never names a configured user (a C string) -/
theorem extended_username_with_nul_rejected (e : Param) (name : List UInt8)
    (hn : d.slots kUsername = none) (he : d.slots kUsernameExt = some e) (hdec : extName e.raw = some name)
    (h0 : (0 : UInt8) ∈ name) (hc : ∀ b ∈ call.username, b ≠ 0) :
    (checkInner cfg tbl now r call timeout maxNc (some d)).2 ≠ .ok :=
  extended_username_exact cfg tbl now r call timeout maxNc d hwq hqp hr e name hn he hdec
    (fun h => hc 0 (h ▸ h0) rfl)
end

/-- `username*=UTF-8''admin%00root` -/
def exAdminRaw : List UInt8 := [85, 84, 70, 45, 56, 39, 39, 97, 100, 109, 105, 110, 37, 48, 48, 114, 111, 111, 116]
def exAdminD : DAuth :=
  { slots := fun k => if k = kUsernameExt then some ⟨0, exAdminRaw, false⟩ else none,
    userhash := false, algo3 := algoMd5, qop := qopAuth }
def exAdminCall : Call := ⟨[114], [97, 100, 109, 105, 110], .password [112], 0, 0, mqopAuth, malgoMd5⟩

/-- kernel-evaluated: for the configured user `admin` the model decodes `admin%00root` to the eleven bytes
    `admin NUL root` and answers `MHD_DAUTH_WRONG_USERNAME`; so does `admin%00` -/
example : extName exAdminRaw = some [97, 100, 109, 105, 110, 0, 114, 111, 111, 116] := by decide +kernel
example : stageUsername .md5 exAdminCall exAdminD = .error .wrongUsername := by
  rw [extended_username_exact_stage .md5 exAdminCall exAdminD ⟨0, exAdminRaw, false⟩ _ rfl rfl rfl (by decide +kernel)
    (by decide +kernel : extName exAdminRaw = some [97, 100, 109, 105, 110, 0, 114, 111, 111, 116])]
  rw [if_neg (by decide)]
example : stageUsername .md5 exAdminCall
    { exAdminD with slots := fun k => if k = kUsernameExt then some ⟨0, exAdminRaw.take 15, false⟩ else none }
    = .error .wrongUsername := by
  rw [extended_username_exact_stage .md5 exAdminCall _ ⟨0, exAdminRaw.take 15, false⟩ _ rfl rfl rfl (by decide +kernel)
    (by decide +kernel : extName (exAdminRaw.take 15) = some [97, 100, 109, 105, 110, 0])]
  rw [if_neg (by decide)]
/-- … while `username*=UTF-8''admin` is the user -/
example : stageUsername .md5 exAdminCall
    { exAdminD with slots := fun k => if k = kUsernameExt then some ⟨0, exAdminRaw.take 12, false⟩ else none }
    = .ok () := by
  rw [extended_username_exact_stage .md5 exAdminCall _ ⟨0, exAdminRaw.take 12, false⟩ _ rfl rfl rfl (by decide +kernel)
    (by decide +kernel : extName (exAdminRaw.take 12) = some [97, 100, 109, 105, 110])]
  rw [if_pos (by decide)]

end Mhd.C12
