/-
  C14 — Authorization headers are decoded exactly (Basic and Digest parameters).

  Statements only; proofs delegate to `Mhd.Proofs.Auth*`.  Model: `Mhd.Model.Auth`,
  `Mhd.Model.AuthInfo` (mirrors gen_auth.c / basicauth.c / digestauth.c), grammar side
  `Mhd.Model.AuthGrammar` (`render`, `view`, reference tables, base64 encoder).

  Quantification: every theorem holds for all byte strings / all parameter lists of any
  length, all renderings (order = order of the list, letter case of every name, optional
  white space at every position the grammar allows it, token or quoted-string form, any
  set of backslash-escaped characters) — no size bound anywhere.
-/
import Mhd.Proofs.AuthSem
import Mhd.Proofs.AuthTerm
import Mhd.Proofs.AuthB64Canon
import Mhd.Proofs.AuthExt
import Mhd.Proofs.AuthApi

namespace Mhd.C14
open Mhd.Auth Mhd.Gen.Auth

/-! ## The parameter table -/

/-- the regenerated `tk_names[]` / `params[]` tables are the ones the model's slot constants refer to:
    name k is stored in field k, and the constants `kNonce … kUserhash` index them as written -/
theorem param_table :
    paramNames =
      [/- nonce -/ [110, 111, 110, 99, 101],
       /- opaque -/ [111, 112, 97, 113, 117, 101],
       /- algorithm -/ [97, 108, 103, 111, 114, 105, 116, 104, 109],
       /- response -/ [114, 101, 115, 112, 111, 110, 115, 101],
       /- username -/ [117, 115, 101, 114, 110, 97, 109, 101],
       /- username* -/ [117, 115, 101, 114, 110, 97, 109, 101, 42],
       /- realm -/ [114, 101, 97, 108, 109],
       /- uri -/ [117, 114, 105],
       /- qop -/ [113, 111, 112],
       /- cnonce -/ [99, 110, 111, 110, 99, 101],
       /- nc -/ [110, 99],
       /- userhash -/ [117, 115, 101, 114, 104, 97, 115, 104]] ∧
    paramSlots = ["nonce", "opaque", "algorithm", "response", "username", "username_ext", "realm", "uri", "qop_raw",
      "cnonce", "nc", "userhash"] ∧
    kNonce = 0 ∧ kOpaque = 1 ∧ kAlgorithm = 2 ∧ kResponse = 3 ∧ kUsername = 4 ∧ kUsernameExt = 5 ∧ kRealm = 6 ∧
    kUri = 7 ∧ kQop = 8 ∧ kCnonce = 9 ∧ kNc = 10 ∧ kUserhash = 11 := by decide

/-! ## Digest: parse ∘ render -/

/-- `parse_dauth_params (render p ρ)` succeeds for every well-formed parameter list `es` (semantic
    items with their rendering choices, `WF` is decidable) and delivers, for every parameter `k`, the
    value the sender meant (`view` ignores all rendering choices; last occurrence wins), the algorithm /
    qop constants of the *meaning* of those parameters, and the userhash flag.  `t` is the byte stored
    behind the string (the NUL of the header value in the connection buffer); any byte but ';' will do. -/
theorem digest_roundtrip (lead : Bytes) (es : List Elem) (t : UInt8) (ht : t ≠ 59) (hwf : WF lead es = true) :
    ∃ d, parseDigest (render lead es) (some t) = .ok d ∧
      (∀ k, (d.slots k).map paramUnq = view es k) ∧
      d.algo3 = algoSem (view es kAlgorithm) ∧ d.qop = qopSem (view es kQop) ∧
      d.userhash = userhashSem (view es kUserhash) :=
  parseDigest_render lead es t ht hwf

/-- … hence two renderings of the same parameters (same items in the same order; everything else —
    case, white space, token vs. quoted-string, escapes — chosen independently) are indistinguishable. -/
theorem digest_rendering_invariant (lead lead' : Bytes) (es es' : List Elem) (t : UInt8) (ht : t ≠ 59)
    (hwf : WF lead es = true) (hwf' : WF lead' es' = true) (hsame : es.map (·.item) = es'.map (·.item)) :
    ∃ d d', parseDigest (render lead es) (some t) = .ok d ∧ parseDigest (render lead' es') (some t) = .ok d' ∧
      (∀ k, (d.slots k).map paramUnq = (d'.slots k).map paramUnq) ∧
      d.algo3 = d'.algo3 ∧ d.qop = d'.qop ∧ d.userhash = d'.userhash := by
  obtain ⟨d, h1, h2, h3, h4, h5⟩ := parseDigest_render lead es t ht hwf
  obtain ⟨d', h1', h2', h3', h4', h5'⟩ := parseDigest_render lead' es' t ht hwf'
  have hv : ∀ k, view es k = view es' k := by
    intro k
    have : ∀ (l : List Elem), view l k =
        (l.map (·.item)).foldl (fun acc i => if i.slot = k then some i.value else acc) none := by
      intro l; simp [view, List.foldl_map]
    rw [this es, this es', hsame]
  exact ⟨d, d', h1, h1', fun k => by rw [h2 k, h2' k, hv k], by rw [h3, h3', hv], by rw [h4, h4', hv],
    by rw [h5, h5', hv]⟩

/-- Non-vacuity: a three-parameter list with upper-case names, white space everywhere, a quoted
    value with an escaped `"` and an algorithm written as quoted-string with one escaped letter. -/
def exElems : List Elem :=
  [⟨⟨kUsername, [97, 34, 98]⟩, ⟨[true], [32], [9], .quoted [], [32], [32, 9]⟩⟩,
   ⟨⟨kAlgorithm, [77, 68, 53, 45, 115, 101, 115, 115]⟩, ⟨[true, true], [], [], .quoted [false, false, false, false, false, false, false, true], [], []⟩⟩,
   ⟨⟨kNc, [48, 48, 48, 48, 48, 48, 48, 49]⟩, ⟨[], [], [], .token, [], []⟩⟩]

example : WF [32] exElems = true := by decide
example : view exElems kAlgorithm = some [77, 68, 53, 45, 115, 101, 115, 115] := by decide
example : algoSem (view exElems kAlgorithm) = algoMd5Sess := by decide

/-- The same for the full list grammar of RFC 7235: known parameters in any rendering, interleaved with
    arbitrary extension parameters (any other name; token or quoted-string value with any escapes) and
    empty list elements (`,,`, leading and trailing commas).  Extension parameters and empty elements
    change nothing. -/
theorem digest_roundtrip_full (lead : Bytes) (gs : List GElem) (t : UInt8) (ht : t ≠ 59) (hwf : WFG lead gs = true) :
    ∃ d, parseDigest (renderG lead gs) (some t) = .ok d ∧
      (∀ k, (d.slots k).map paramUnq = viewG gs k) ∧
      d.algo3 = algoSem (viewG gs kAlgorithm) ∧ d.qop = qopSem (viewG gs kQop) ∧
      d.userhash = userhashSem (viewG gs kUserhash) :=
  parseDigest_renderG lead gs t ht hwf

/-- Non-vacuity: `,  Realm = "a\"b" ,, x-ext="q,;=\"" , NC=0000000a ,` -/
def exG : List GElem :=
  [.empty [32, 32],
   .known ⟨⟨kRealm, [97, 34, 98]⟩, ⟨[true], [32], [32], .quoted [], [32], []⟩⟩,
   .empty [32],
   .ext [120, 45, 101, 120, 116] ⟨[], [], [], .quoted [], [32], [32]⟩ [113, 44, 59, 61, 34],
   .known ⟨⟨kNc, [48, 48, 48, 48, 48, 48, 48, 97]⟩, ⟨[true, true], [], [], .token, [32], []⟩⟩,
   .empty []]

example : WFG [] exG = true := by decide
example : viewG exG kRealm = some [97, 34, 98] ∧ viewG exG kNc = some [48, 48, 48, 48, 48, 48, 48, 97] := by decide
example : renderG [] exG = [44, 32, 32, 82, 101, 97, 108, 109, 32, 61, 32, 34, 97, 92, 34, 98, 34, 32, 44, 44, 32,
    120, 45, 101, 120, 116, 61, 34, 113, 44, 59, 61, 92, 34, 34, 32, 44, 32, 78, 67, 61, 48, 48, 48, 48, 48, 48, 48, 97, 32, 44] := by decide

/-! ## Algorithm / qop / userhash are invariant under quoting and escaping (F5) -/

/-- `get_rq_dauth_algo`: a value written as quoted-string with any set of escaped characters is mapped to
    the same constant as the plain token, namely the constant of the reference table
    (`algoSem`: RFC 7616 names compared caselessly).  On the tree before fix F5 the regenerated
    if-chains differ and this theorem does not build. -/
theorem algo_quoting_invariant (off off' : Nat) (v : Bytes) (esc : List Bool) :
    algoOf (some ⟨off, escRender esc v, anyEsc esc v⟩) = algoOf (some ⟨off', v, false⟩) ∧
    algoOf (some ⟨off', v, false⟩) = algoSem (some v) ∧ algoOf none = algoSem none := by
  have hd : Denotes (escRender esc v, anyEsc esc v) v := by
    have := denotes_elem ⟨⟨0, v⟩, ⟨[], [], [], .quoted esc, [], []⟩⟩
    simpa [rawOf, quotedOf] using this
  have h1 := algoOf_denotes off (escRender esc v, anyEsc esc v) v hd
  have h2 := algoOf_denotes off' (v, false) v (by simp [Denotes])
  exact ⟨by rw [h1, h2], h2, by simp [algoOf, algoSem, algo_chains_agree.2.2.1]⟩

theorem qop_quoting_invariant (off off' : Nat) (v : Bytes) (esc : List Bool) :
    qopOf (some ⟨off, escRender esc v, anyEsc esc v⟩) = qopOf (some ⟨off', v, false⟩) ∧
    qopOf (some ⟨off', v, false⟩) = qopSem (some v) ∧ qopOf none = qopSem none := by
  have hd : Denotes (escRender esc v, anyEsc esc v) v := by
    have := denotes_elem ⟨⟨0, v⟩, ⟨[], [], [], .quoted esc, [], []⟩⟩
    simpa [rawOf, quotedOf] using this
  have h1 := qopOf_denotes off (escRender esc v, anyEsc esc v) v hd
  have h2 := qopOf_denotes off' (v, false) v (by simp [Denotes])
  exact ⟨by rw [h1, h2], h2, by simp [qopOf, qopSem, qop_chains_agree.2.2.1]⟩

theorem userhash_quoting_invariant (off off' : Nat) (v : Bytes) (esc : List Bool) :
    userhashOf (some ⟨off, escRender esc v, anyEsc esc v⟩) = userhashOf (some ⟨off', v, false⟩) ∧
    userhashOf (some ⟨off', v, false⟩) = userhashSem (some v) := by
  have hd : Denotes (escRender esc v, anyEsc esc v) v := by
    have := denotes_elem ⟨⟨0, v⟩, ⟨[], [], [], .quoted esc, [], []⟩⟩
    simpa [rawOf, quotedOf] using this
  have h1 := userhashOf_denotes off (escRender esc v, anyEsc esc v) v hd
  have h2 := userhashOf_denotes off' (v, false) v (by simp [Denotes])
  exact ⟨by rw [h1, h2], h2⟩

/-- the two inputs of DESIGN §6 F5: `"SHA-512-25\6"` and `"MD5-ses\s"` -/
example : algoOf (some ⟨0, [83, 72, 65, 45, 53, 49, 50, 45, 50, 53, 92, 54], true⟩) = algoSha512 := by decide
example : algoOf (some ⟨0, [77, 68, 53, 45, 115, 101, 115, 92, 115], true⟩) = algoMd5Sess := by decide

/-! ## No access outside the string; the role of `str[str_len]` (F5b) -/

/-- With any byte stored behind the string (`term = some t`; inside the library this is the NUL that
    terminates every header value in the connection buffer) `parse_dauth_params` never reads an index
    above `str_len`, for every input; the fuel of the model loop always suffices. -/
theorem digest_no_fault (s : Bytes) (t : UInt8) (e : Site) : parseDigest s (some t) ≠ .fault e :=
  parseDigest_some_noFault s t e

/-- Without such a byte the only out-of-range reads are the two reads of index `str_len` itself:
    gen_auth.c:520 (backslash as the last byte inside a quoted value) and gen_auth.c:540 (`';' == str[i]`
    after an unquoted value that ends the string). -/
theorem digest_fault_sites (s : Bytes) (e : Site) (h : parseDigest s none = .fault e) :
    e = .quotedBackslashEnd ∨ e = .tokenEnd :=
  parseDigest_none_sites s e h

/-- both reads do happen: `nc=1` and `nc="a\` in exact-size buffers -/
example : (parseDigest [110, 99, 61, 49] none).map (fun _ => ()) = .fault .tokenEnd := by decide
example : (parseDigest [110, 99, 61, 34, 97, 92] none).map (fun _ => ()) = .fault .quotedBackslashEnd := by decide

/-- The result depends on that byte only when it is ';'. -/
theorem digest_term_irrelevant (s : Bytes) (t : UInt8) (ht : t ≠ 59) :
    parseDigest s (some t) = parseDigest s (some 0) :=
  parseDigest_term s t ht

/-- … and then it does: `nc=1` is accepted with NUL behind it and rejected with ';' behind it. -/
example : (parseDigest [110, 99, 61, 49] (some 0)).map (fun d => (d.slots kNc).map paramUnq) = .ok (some [49]) := by decide
example : (parseDigest [110, 99, 61, 49] (some 59)).map (fun d => (d.slots kNc).map paramUnq) = .reject := by decide

/-! ## Basic -/

/-- user-id and password come back exactly; the split is at the first colon -/
theorem basic_roundtrip (u pw : Bytes) (hu : ∀ c ∈ u, c ≠ 58) :
    basicDecode (b64Enc (u ++ 58 :: pw)) = some (u, some pw) :=
  basicDecode_enc u pw hu

/-- no colon ⇒ the password is absent -/
theorem basic_nocolon (u : Bytes) (hne : u ≠ []) (hu : ∀ c ∈ u, c ≠ 58) :
    basicDecode (b64Enc u) = some (u, none) :=
  basicDecode_enc_nocolon u hne hu

example : basicDecode (b64Enc ([65, 108] ++ 58 :: [111, 58, 112])) = some ([65, 108], some [111, 58, 112]) := by decide

/-- invalid base64 is rejected: whatever `MHD_base64_to_bin_n` accepts is the canonical RFC 4648
    encoding (alphabet, padding, zero trailing bits, length) of what it returns -/
theorem basic_invalid_base64_rejected (tok : Bytes) (r : Bytes × Option Bytes) (h : basicDecode tok = some r) :
    ∃ dec, dec ≠ [] ∧ tok = b64Enc dec ∧ r = splitColon dec := by
  unfold basicDecode at h
  cases hd : b64Dec tok with
  | none => simp [hd] at h
  | some dec =>
    simp only [hd] at h
    split at h
    · simp at h
    · rename_i hl
      simp only [Option.some.injEq] at h
      exact ⟨dec, by intro he; rw [he] at hl; simp at hl, b64Dec_canonical tok dec hd, h.symm⟩

example : basicDecode [81, 82, 61, 61] = none := by decide      -- "QR==": non-zero trailing bits
example : basicDecode [81, 81, 61] = none := by decide          -- "QQ=": length not a multiple of four

/-- token68 extraction is exact: precisely `OWS token68 OWS` is accepted … -/
theorem basic_token_exact (w1 tok w2 : Bytes) (h1 : allWs w1 = true) (h2 : allWs w2 = true) (hne : tok ≠ [])
    (ht : tok.all tok68Byte = true) : parseBasic (w1 ++ tok ++ w2) = .ok (some (w1.length, tok)) :=
  parseBasic_ok w1 tok w2 h1 h2 hne ht

/-- … and nothing else: a second token or any other garbage after the token68, and NUL , ; inside
    it, are rejected (every accepted string has the shape above) -/
theorem basic_garbage_rejected (s : Bytes) (off : Nat) (tok : Bytes) (h : parseBasic s = .ok (some (off, tok))) :
    ∃ w1 w2, s = w1 ++ tok ++ w2 ∧ allWs w1 = true ∧ allWs w2 = true ∧ off = w1.length ∧ tok ≠ [] ∧
      tok.all tok68Byte = true :=
  parseBasic_sound s off tok h

example : parseBasic [65, 66, 32, 67] = .reject := by decide     -- "AB C"
example : parseBasic [32, 65, 66, 9] = .ok (some (1, [65, 66])) := by decide

/-! ## Header lookup -/

/-- `find_auth_rq_header_`, one header, completely characterised -/
theorem find_header_exact (tok : Bytes) (h : Hdr) :
    hdrMatch tok h =
      if h.kind = headerKind ∧ h.name.map toLowerB = authHeader.map toLowerB ∧ tok.length ≤ h.value.length ∧
          (h.value.take tok.length).map toLowerB = tok.map toLowerB then
        match h.value.drop tok.length with
        | [] => some (tok.length, [])
        | c :: r => if c = 32 ∨ c = 9 then some (tok.length + 1, r) else none
      else none :=
  hdrMatch_exact tok h

/-- … and the first matching header of the list is the one used; no match ⇒ not found. -/
theorem find_header_first (tok : Bytes) (pre : List Hdr) (h : Hdr) (post : List Hdr) (off : Nat) (rest : Bytes)
    (hpre : ∀ x ∈ pre, hdrMatch tok x = none) (hm : hdrMatch tok h = some (off, rest)) :
    findAuthHeader true tok (pre ++ h :: post) = some (pre.length, off, rest) := by
  have := findHdrLoop_first tok pre h post 0 off rest hpre hm
  simpa [findAuthHeader] using this

example : findAuthHeader true digestBase
    [⟨headerKind, [72, 111, 115, 116], [120]⟩, ⟨headerKind, authHeader.map toUpperB, [100, 73, 71, 69, 83, 84, 9, 110, 99, 61, 49]⟩] =
    some (1, 7, [110, 99, 61, 49]) := by decide
example : findAuthHeader true digestBase [⟨headerKind, authHeader, digestBase⟩] = some (0, 6, []) := by decide
example : findAuthHeader true digestBase [⟨headerKind, authHeader, digestBase ++ [120]⟩] = none := by decide

/-! ## The public API -/

theorem basic_api_roundtrip (sch : Bytes) (sp : UInt8) (w1 w2 u pw : Bytes)
    (hs : sch.map toLowerB = basicBase.map toLowerB) (hsp : sp = 32 ∨ sp = 9)
    (h1 : allWs w1 = true) (h2 : allWs w2 = true) (hu : ∀ c ∈ u, c ≠ 58) :
    basicApi (sch ++ sp :: (w1 ++ b64Enc (u ++ 58 :: pw) ++ w2)) = some (u, some pw) :=
  basicApi_roundtrip sch sp w1 w2 u pw hs hsp h1 h2 hu

example : basicApi ([98, 65, 83, 73, 67] ++ 9 :: ([32] ++ b64Enc ([65] ++ 58 :: [66, 58]) ++ [32])) = some ([65], some [66, 58]) := by
  decide

theorem info_roundtrip (lead : Bytes) (es : List Elem) (t : UInt8) (ht : t ≠ 59) (hwf : WF lead es = true)
    (hinfo : es.all Elem.infoWf = true) (s' : Bytes) (term' : Option UInt8) :
    ∃ d, parseDigest (render lead es) (some t) = .ok d ∧
      eraseCnl (requestInfo (render lead es) (some t) d) = eraseCnl (requestInfo s' term' (canon (view es))) ∧
      usernameInfo (render lead es) (some t) d = usernameInfo s' term' (canon (view es)) ∧
      (d.slots kCnonce).map (fun p => p.raw.length) = (rawView es none kCnonce).map (fun x => x.1.length) :=
  info_render lead es t ht hwf hinfo s' term'

theorem digest_api_roundtrip (sch : Bytes) (sp : UInt8) (lead : Bytes) (es : List Elem)
    (hs : sch.map toLowerB = digestBase.map toLowerB) (hsp : sp = 32 ∨ sp = 9)
    (hwf : WF lead es = true) (hinfo : es.all Elem.infoWf = true) (s' : Bytes) (term' : Option UInt8) :
    ∃ i u, digestApi (sch ++ sp :: render lead es) = .ok (some (i, u)) ∧
      eraseCnl i = eraseCnl (requestInfo s' term' (canon (view es))) ∧
      u = usernameInfo s' term' (canon (view es)) :=
  digestApi_roundtrip sch sp lead es hs hsp hwf hinfo s' term'

/-- Non-vacuity, all three user-name notations: the canonical parameters of the meaning give
    STANDARD `a"b`, USERHASH with binary `ab cd`, EXTENDED `J ä` decoded from `UTF-8''J%20%C3%A4`. -/
def exStd : List Elem := [⟨⟨kUsername, [97, 34, 98]⟩, ⟨[], [], [], .quoted [true], [], []⟩⟩,
  ⟨⟨kNc, [48, 97]⟩, ⟨[true], [32], [], .quoted [false, true], [], []⟩⟩]
def exHash : List Elem := [⟨⟨kUserhash, [84, 82, 85, 69]⟩, ⟨[], [], [], .token, [], []⟩⟩,
  ⟨⟨kUsername, [97, 98, 67, 68]⟩, ⟨[], [], [], .quoted [], [], []⟩⟩]
def exExt : List Elem := [⟨⟨kUsernameExt, [85, 84, 70, 45, 56, 39, 39, 74, 37, 50, 48, 37, 67, 51, 37, 65, 52]⟩, ⟨[], [], [], .token, [], []⟩⟩]

example : WF [] exStd = true ∧ exStd.all Elem.infoWf = true := by decide
example : WF [] exHash = true ∧ exHash.all Elem.infoWf = true := by decide
example : WF [] exExt = true ∧ exExt.all Elem.infoWf = true := by decide
example : (usernameInfo [] none (canon (view exStd))) = .ok (⟨unStandard, some [97, 34, 98], none, none⟩, algoMd5) := by decide
example : (usernameInfo [] none (canon (view exHash))) = .ok (⟨unUserhash, none, some [97, 98, 67, 68], some [0xab, 0xcd]⟩, algoMd5) := by decide
example : (usernameInfo [] none (canon (view exExt))) = .ok (⟨unExtended, some [74, 32, 0xc3, 0xa4], none, none⟩, algoMd5) := by decide
example : eraseCnl (requestInfo [] none (canon (view exStd))) =
    .ok ⟨algoMd5, ⟨unStandard, some [97, 34, 98], none, none⟩, none, none, qopNone, 0, 10⟩ := by decide


end Mhd.C14
