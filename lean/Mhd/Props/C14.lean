/-
  C14 — Authorization headers are decoded exactly (Basic and Digest parameters).

  Statements only; proofs delegate to `Mhd.Proofs.Auth*`.  Model: `Mhd.Model.Auth`,
  `Mhd.Model.AuthInfo` (mirrors gen_auth.c / basicauth.c / digestauth.c), grammar side
  `Mhd.Model.AuthGrammar` (`render`, `view`, reference tables, base64 encoder).

  Quantification: every theorem holds for all byte strings / all parameter lists of any
  length, all renderings (order = order of the list, letter case of every name, optional
  white space at every position the grammar allows it, token or quoted-string form, any
  set of backslash-escaped characters) — no size bound anywhere.
-/
import Mhd.Proofs.AuthSem
import Mhd.Proofs.AuthTerm
import Mhd.Proofs.AuthB64Canon
import Mhd.Proofs.AuthExt
import Mhd.Proofs.AuthApi
import Mhd.Proofs.AuthCorrupt
import Mhd.Proofs.AuthRef
import Mhd.Proofs.AuthLay
import Mhd.Proofs.AuthCache
import Mhd.Proofs.AuthLenient

namespace Mhd.C14
open Mhd.Auth Mhd.Gen.Auth

/-! ## The parameter table -/

/-- the regenerated `tk_names[]` / `params[]` tables are the ones the model's slot constants refer to:
    name k is stored in field k, and the constants `kNonce … kUserhash` index them as written -/
theorem param_table :
    paramNames =
      [/- nonce -/ [110, 111, 110, 99, 101],
       /- opaque -/ [111, 112, 97, 113, 117, 101],
       /- algorithm -/ [97, 108, 103, 111, 114, 105, 116, 104, 109],
       /- response -/ [114, 101, 115, 112, 111, 110, 115, 101],
       /- username -/ [117, 115, 101, 114, 110, 97, 109, 101],
       /- username* -/ [117, 115, 101, 114, 110, 97, 109, 101, 42],
       /- realm -/ [114, 101, 97, 108, 109],
       /- uri -/ [117, 114, 105],
       /- qop -/ [113, 111, 112],
       /- cnonce -/ [99, 110, 111, 110, 99, 101],
       /- nc -/ [110, 99],
       /- userhash -/ [117, 115, 101, 114, 104, 97, 115, 104]] ∧
    paramSlots = ["nonce", "opaque", "algorithm", "response", "username", "username_ext", "realm", "uri", "qop_raw",
      "cnonce", "nc", "userhash"] ∧
    kNonce = 0 ∧ kOpaque = 1 ∧ kAlgorithm = 2 ∧ kResponse = 3 ∧ kUsername = 4 ∧ kUsernameExt = 5 ∧ kRealm = 6 ∧
    kUri = 7 ∧ kQop = 8 ∧ kCnonce = 9 ∧ kNc = 10 ∧ kUserhash = 11 := by decide

/-! ## Digest: parse ∘ render -/

/-- `parse_dauth_params (render p ρ)` succeeds for every well-formed parameter list `es` (semantic
    items with their rendering choices, `WF` is decidable) and delivers, for every parameter `k`, the
    value the sender meant (`view` ignores all rendering choices; last occurrence wins), the algorithm /
    qop constants of the *meaning* of those parameters, and the userhash flag.  `t` is the byte stored
    behind the string (the NUL of the header value in the connection buffer); any byte but ';' will do. -/
theorem digest_roundtrip (lead : Bytes) (es : List Elem) (t : UInt8) (ht : t ≠ 59) (hwf : WF lead es = true) :
    ∃ d, parseDigest (render lead es) (some t) = .ok d ∧
      (∀ k, (d.slots k).map paramUnq = view es k) ∧
      d.algo3 = algoSem (view es kAlgorithm) ∧ d.qop = qopSem (view es kQop) ∧
      d.userhash = userhashSem (view es kUserhash) :=
  parseDigest_render lead es t ht hwf

/-- … hence two renderings of the same parameters (same items in the same order; everything else —
    case, white space, token vs. quoted-string, escapes — chosen independently) are indistinguishable. -/
theorem digest_rendering_invariant (lead lead' : Bytes) (es es' : List Elem) (t : UInt8) (ht : t ≠ 59)
    (hwf : WF lead es = true) (hwf' : WF lead' es' = true) (hsame : es.map (·.item) = es'.map (·.item)) :
    ∃ d d', parseDigest (render lead es) (some t) = .ok d ∧ parseDigest (render lead' es') (some t) = .ok d' ∧
      (∀ k, (d.slots k).map paramUnq = (d'.slots k).map paramUnq) ∧
      d.algo3 = d'.algo3 ∧ d.qop = d'.qop ∧ d.userhash = d'.userhash := by
  obtain ⟨d, h1, h2, h3, h4, h5⟩ := parseDigest_render lead es t ht hwf
  obtain ⟨d', h1', h2', h3', h4', h5'⟩ := parseDigest_render lead' es' t ht hwf'
  have hv : ∀ k, view es k = view es' k := by
    intro k
    have : ∀ (l : List Elem), view l k =
        (l.map (·.item)).foldl (fun acc i => if i.slot = k then some i.value else acc) none := by
      intro l; simp [view, List.foldl_map]
    rw [this es, this es', hsame]
  exact ⟨d, d', h1, h1', fun k => by rw [h2 k, h2' k, hv k], by rw [h3, h3', hv], by rw [h4, h4', hv],
    by rw [h5, h5', hv]⟩

/-- Non-vacuity: a three-parameter list with upper-case names, white space everywhere, a quoted
    value with an escaped `"` and an algorithm written as quoted-string with one escaped letter. -/
def exElems : List Elem :=
  [⟨⟨kUsername, [97, 34, 98]⟩, ⟨[true], [32], [9], .quoted [], [32], [32, 9]⟩⟩,
   ⟨⟨kAlgorithm, [77, 68, 53, 45, 115, 101, 115, 115]⟩, ⟨[true, true], [], [], .quoted [false, false, false, false, false, false, false, true], [], []⟩⟩,
   ⟨⟨kNc, [48, 48, 48, 48, 48, 48, 48, 49]⟩, ⟨[], [], [], .token, [], []⟩⟩]

example : WF [32] exElems = true := by decide
example : view exElems kAlgorithm = some [77, 68, 53, 45, 115, 101, 115, 115] := by decide
example : algoSem (view exElems kAlgorithm) = algoMd5Sess := by decide

/-- The same for the full list grammar of RFC 7235: known parameters in any rendering, interleaved with
    arbitrary extension parameters (any other name; token or quoted-string value with any escapes) and
    empty list elements (`,,`, leading and trailing commas).  Extension parameters and empty elements
    change nothing. -/
theorem digest_roundtrip_full (lead : Bytes) (gs : List GElem) (t : UInt8) (ht : t ≠ 59) (hwf : WFG lead gs = true) :
    ∃ d, parseDigest (renderG lead gs) (some t) = .ok d ∧
      (∀ k, (d.slots k).map paramUnq = viewG gs k) ∧
      d.algo3 = algoSem (viewG gs kAlgorithm) ∧ d.qop = qopSem (viewG gs kQop) ∧
      d.userhash = userhashSem (viewG gs kUserhash) :=
  parseDigest_renderG lead gs t ht hwf

/-- Non-vacuity: `,  Realm = "a\"b" ,, x-ext="q,;=\"" , NC=0000000a ,` -/
def exG : List GElem :=
  [.empty [32, 32],
   .known ⟨⟨kRealm, [97, 34, 98]⟩, ⟨[true], [32], [32], .quoted [], [32], []⟩⟩,
   .empty [32],
   .ext [120, 45, 101, 120, 116] ⟨[], [], [], .quoted [], [32], [32]⟩ [113, 44, 59, 61, 34],
   .known ⟨⟨kNc, [48, 48, 48, 48, 48, 48, 48, 97]⟩, ⟨[true, true], [], [], .token, [32], []⟩⟩,
   .empty []]

example : WFG [] exG = true := by decide
example : viewG exG kRealm = some [97, 34, 98] ∧ viewG exG kNc = some [48, 48, 48, 48, 48, 48, 48, 97] := by decide
example : renderG [] exG = [44, 32, 32, 82, 101, 97, 108, 109, 32, 61, 32, 34, 97, 92, 34, 98, 34, 32, 44, 44, 32,
    120, 45, 101, 120, 116, 61, 34, 113, 44, 59, 61, 92, 34, 34, 32, 44, 32, 78, 67, 61, 48, 48, 48, 48, 48, 48, 48, 97, 32, 44] := by decide

/-! ## Algorithm / qop / userhash are invariant under quoting and escaping (F5) -/

/-- `get_rq_dauth_algo`: a value written as quoted-string with any set of escaped characters is mapped to
    the same constant as the plain token, namely the constant of the reference table
    (`algoSem`: RFC 7616 names compared caselessly).  On the tree before fix F5 the regenerated
    if-chains differ and this theorem does not build. -/
theorem algo_quoting_invariant (off off' : Nat) (v : Bytes) (esc : List Bool) :
    algoOf (some ⟨off, escRender esc v, anyEsc esc v⟩) = algoOf (some ⟨off', v, false⟩) ∧
    algoOf (some ⟨off', v, false⟩) = algoSem (some v) ∧ algoOf none = algoSem none := by
  have hd : Denotes (escRender esc v, anyEsc esc v) v := by
    have := denotes_elem ⟨⟨0, v⟩, ⟨[], [], [], .quoted esc, [], []⟩⟩
    simpa [rawOf, quotedOf] using this
  have h1 := algoOf_denotes off (escRender esc v, anyEsc esc v) v hd
  have h2 := algoOf_denotes off' (v, false) v (by simp [Denotes])
  exact ⟨by rw [h1, h2], h2, by simp [algoOf, algoSem, algo_chains_agree.2.2.1]⟩

theorem qop_quoting_invariant (off off' : Nat) (v : Bytes) (esc : List Bool) :
    qopOf (some ⟨off, escRender esc v, anyEsc esc v⟩) = qopOf (some ⟨off', v, false⟩) ∧
    qopOf (some ⟨off', v, false⟩) = qopSem (some v) ∧ qopOf none = qopSem none := by
  have hd : Denotes (escRender esc v, anyEsc esc v) v := by
    have := denotes_elem ⟨⟨0, v⟩, ⟨[], [], [], .quoted esc, [], []⟩⟩
    simpa [rawOf, quotedOf] using this
  have h1 := qopOf_denotes off (escRender esc v, anyEsc esc v) v hd
  have h2 := qopOf_denotes off' (v, false) v (by simp [Denotes])
  exact ⟨by rw [h1, h2], h2, by simp [qopOf, qopSem, qop_chains_agree.2.2.1]⟩

theorem userhash_quoting_invariant (off off' : Nat) (v : Bytes) (esc : List Bool) :
    userhashOf (some ⟨off, escRender esc v, anyEsc esc v⟩) = userhashOf (some ⟨off', v, false⟩) ∧
    userhashOf (some ⟨off', v, false⟩) = userhashSem (some v) := by
  have hd : Denotes (escRender esc v, anyEsc esc v) v := by
    have := denotes_elem ⟨⟨0, v⟩, ⟨[], [], [], .quoted esc, [], []⟩⟩
    simpa [rawOf, quotedOf] using this
  have h1 := userhashOf_denotes off (escRender esc v, anyEsc esc v) v hd
  have h2 := userhashOf_denotes off' (v, false) v (by simp [Denotes])
  exact ⟨by rw [h1, h2], h2⟩

/-- the two inputs of DESIGN §6 F5: `"SHA-512-25\6"` and `"MD5-ses\s"` -/
example : algoOf (some ⟨0, [83, 72, 65, 45, 53, 49, 50, 45, 50, 53, 92, 54], true⟩) = algoSha512 := by decide
example : algoOf (some ⟨0, [77, 68, 53, 45, 115, 101, 115, 92, 115], true⟩) = algoMd5Sess := by decide

/-! ## No access outside the string; the role of `str[str_len]` (F5b) -/

/-- With any byte stored behind the string (`term = some t`; inside the library this is the NUL that
    terminates every header value in the connection buffer) `parse_dauth_params` never reads an index
    above `str_len`, for every input; the fuel of the model loop always suffices. -/
theorem digest_no_fault (s : Bytes) (t : UInt8) (e : Site) : parseDigest s (some t) ≠ .fault e :=
  parseDigest_some_noFault s t e

/-- Without such a byte the only out-of-range reads are the two reads of index `str_len` itself:
    gen_auth.c:520 (backslash as the last byte inside a quoted value) and gen_auth.c:540 (`';' == str[i]`
    after an unquoted value that ends the string). -/
theorem digest_fault_sites (s : Bytes) (e : Site) (h : parseDigest s none = .fault e) :
    e = .quotedBackslashEnd ∨ e = .tokenEnd :=
  parseDigest_none_sites s e h

/-- both reads do happen: `nc=1` and `nc="a\` in exact-size buffers -/
example : (parseDigest [110, 99, 61, 49] none).map (fun _ => ()) = .fault .tokenEnd := by decide
example : (parseDigest [110, 99, 61, 34, 97, 92] none).map (fun _ => ()) = .fault .quotedBackslashEnd := by decide

/-- The result depends on that byte only when it is ';'. -/
theorem digest_term_irrelevant (s : Bytes) (t : UInt8) (ht : t ≠ 59) :
    parseDigest s (some t) = parseDigest s (some 0) :=
  parseDigest_term s t ht

/-- … and then it does: `nc=1` is accepted with NUL behind it and rejected with ';' behind it. -/
example : (parseDigest [110, 99, 61, 49] (some 0)).map (fun d => (d.slots kNc).map paramUnq) = .ok (some [49]) := by decide
example : (parseDigest [110, 99, 61, 49] (some 59)).map (fun d => (d.slots kNc).map paramUnq) = .reject := by decide

/-! ## Basic -/

/-- user-id and password come back exactly; the split is at the first colon -/
theorem basic_roundtrip (u pw : Bytes) (hu : ∀ c ∈ u, c ≠ 58) :
    basicDecode (b64Enc (u ++ 58 :: pw)) = some (u, some pw) :=
  basicDecode_enc u pw hu

/-- no colon ⇒ the password is absent -/
theorem basic_nocolon (u : Bytes) (hne : u ≠ []) (hu : ∀ c ∈ u, c ≠ 58) :
    basicDecode (b64Enc u) = some (u, none) :=
  basicDecode_enc_nocolon u hne hu

example : basicDecode (b64Enc ([65, 108] ++ 58 :: [111, 58, 112])) = some ([65, 108], some [111, 58, 112]) := by decide

/-- invalid base64 is rejected: whatever `MHD_base64_to_bin_n` accepts is the canonical RFC 4648
    encoding (alphabet, padding, zero trailing bits, length) of what it returns -/
theorem basic_invalid_base64_rejected (tok : Bytes) (r : Bytes × Option Bytes) (h : basicDecode tok = some r) :
    ∃ dec, dec ≠ [] ∧ tok = b64Enc dec ∧ r = splitColon dec := by
  unfold basicDecode at h
  cases hd : b64Dec tok with
  | none => simp [hd] at h
  | some dec =>
    simp only [hd] at h
    split at h
    · simp at h
    · rename_i hl
      simp only [Option.some.injEq] at h
      exact ⟨dec, by intro he; rw [he] at hl; simp at hl, b64Dec_canonical tok dec hd, h.symm⟩

example : basicDecode [81, 82, 61, 61] = none := by decide      -- "QR==": non-zero trailing bits
example : basicDecode [81, 81, 61] = none := by decide          -- "QQ=": length not a multiple of four

/-- token68 extraction is exact: precisely `OWS token68 OWS` is accepted … -/
theorem basic_token_exact (w1 tok w2 : Bytes) (h1 : allWs w1 = true) (h2 : allWs w2 = true) (hne : tok ≠ [])
    (ht : tok.all tok68Byte = true) : parseBasic (w1 ++ tok ++ w2) = .ok (some (w1.length, tok)) :=
  parseBasic_ok w1 tok w2 h1 h2 hne ht

/-- … and nothing else: a second token or any other garbage after the token68, and NUL , ; inside
    it, are rejected (every accepted string has the shape above) -/
theorem basic_garbage_rejected (s : Bytes) (off : Nat) (tok : Bytes) (h : parseBasic s = .ok (some (off, tok))) :
    ∃ w1 w2, s = w1 ++ tok ++ w2 ∧ allWs w1 = true ∧ allWs w2 = true ∧ off = w1.length ∧ tok ≠ [] ∧
      tok.all tok68Byte = true :=
  parseBasic_sound s off tok h

example : parseBasic [65, 66, 32, 67] = .reject := by decide     -- "AB C"
example : parseBasic [32, 65, 66, 9] = .ok (some (1, [65, 66])) := by decide

/-! ## Header lookup -/

/-- `find_auth_rq_header_`, one header, completely characterised -/
theorem find_header_exact (tok : Bytes) (h : Hdr) :
    hdrMatch tok h =
      if h.kind = headerKind ∧ h.name.map toLowerB = authHeader.map toLowerB ∧ tok.length ≤ h.value.length ∧
          (h.value.take tok.length).map toLowerB = tok.map toLowerB then
        match h.value.drop tok.length with
        | [] => some (tok.length, [])
        | c :: r => if c = 32 ∨ c = 9 then some (tok.length + 1, r) else none
      else none :=
  hdrMatch_exact tok h

/-- … and the first matching header of the list is the one used; no match ⇒ not found. -/
theorem find_header_first (tok : Bytes) (pre : List Hdr) (h : Hdr) (post : List Hdr) (off : Nat) (rest : Bytes)
    (hpre : ∀ x ∈ pre, hdrMatch tok x = none) (hm : hdrMatch tok h = some (off, rest)) :
    findAuthHeader true tok (pre ++ h :: post) = some (pre.length, off, rest) := by
  have := findHdrLoop_first tok pre h post 0 off rest hpre hm
  simpa [findAuthHeader] using this

example : findAuthHeader true digestBase
    [⟨headerKind, [72, 111, 115, 116], [120]⟩, ⟨headerKind, authHeader.map toUpperB, [100, 73, 71, 69, 83, 84, 9, 110, 99, 61, 49]⟩] =
    some (1, 7, [110, 99, 61, 49]) := by decide
example : findAuthHeader true digestBase [⟨headerKind, authHeader, digestBase⟩] = some (0, 6, []) := by decide
example : findAuthHeader true digestBase [⟨headerKind, authHeader, digestBase ++ [120]⟩] = none := by decide

/-! ## The public API -/

theorem basic_api_roundtrip (sch : Bytes) (sp : UInt8) (w1 w2 u pw : Bytes)
    (hs : sch.map toLowerB = basicBase.map toLowerB) (hsp : sp = 32 ∨ sp = 9)
    (h1 : allWs w1 = true) (h2 : allWs w2 = true) (hu : ∀ c ∈ u, c ≠ 58) :
    basicApi (sch ++ sp :: (w1 ++ b64Enc (u ++ 58 :: pw) ++ w2)) = some (u, some pw) :=
  basicApi_roundtrip sch sp w1 w2 u pw hs hsp h1 h2 hu

example : basicApi ([98, 65, 83, 73, 67] ++ 9 :: ([32] ++ b64Enc ([65] ++ 58 :: [66, 58]) ++ [32])) = some ([65], some [66, 58]) := by
  decide

theorem info_roundtrip (lead : Bytes) (es : List Elem) (t : UInt8) (ht : t ≠ 59) (hwf : WF lead es = true)
    (hinfo : es.all Elem.infoWf = true) (s' : Bytes) (term' : Option UInt8) :
    ∃ d, parseDigest (render lead es) (some t) = .ok d ∧
      eraseCnl (requestInfo (render lead es) (some t) d) = eraseCnl (requestInfo s' term' (canon (view es))) ∧
      usernameInfo (render lead es) (some t) d = usernameInfo s' term' (canon (view es)) ∧
      (d.slots kCnonce).map (fun p => p.raw.length) = (rawView es none kCnonce).map (fun x => x.1.length) :=
  info_render lead es t ht hwf hinfo s' term'

theorem digest_api_roundtrip (sch : Bytes) (sp : UInt8) (lead : Bytes) (es : List Elem)
    (hs : sch.map toLowerB = digestBase.map toLowerB) (hsp : sp = 32 ∨ sp = 9)
    (hwf : WF lead es = true) (hinfo : es.all Elem.infoWf = true) (s' : Bytes) (term' : Option UInt8) :
    ∃ i u, digestApi (sch ++ sp :: render lead es) = .ok (some (i, u)) ∧
      eraseCnl i = eraseCnl (requestInfo s' term' (canon (view es))) ∧
      u = usernameInfo s' term' (canon (view es)) :=
  digestApi_roundtrip sch sp lead es hs hsp hwf hinfo s' term'

/-- Non-vacuity, all three user-name notations: the canonical parameters of the meaning give
    STANDARD `a"b`, USERHASH with binary `ab cd`, EXTENDED `J ä` decoded from `UTF-8''J%20%C3%A4`. -/
def exStd : List Elem := [⟨⟨kUsername, [97, 34, 98]⟩, ⟨[], [], [], .quoted [true], [], []⟩⟩,
  ⟨⟨kNc, [48, 97]⟩, ⟨[true], [32], [], .quoted [false, true], [], []⟩⟩]
def exHash : List Elem := [⟨⟨kUserhash, [84, 82, 85, 69]⟩, ⟨[], [], [], .token, [], []⟩⟩,
  ⟨⟨kUsername, [97, 98, 67, 68]⟩, ⟨[], [], [], .quoted [], [], []⟩⟩]
def exExt : List Elem := [⟨⟨kUsernameExt, [85, 84, 70, 45, 56, 39, 39, 74, 37, 50, 48, 37, 67, 51, 37, 65, 52]⟩, ⟨[], [], [], .token, [], []⟩⟩]

example : WF [] exStd = true ∧ exStd.all Elem.infoWf = true := by decide
example : WF [] exHash = true ∧ exHash.all Elem.infoWf = true := by decide
example : WF [] exExt = true ∧ exExt.all Elem.infoWf = true := by decide
example : (usernameInfo [] none (canon (view exStd))) = .ok (⟨unStandard, some [97, 34, 98], none, none⟩, algoMd5) := by decide
example : (usernameInfo [] none (canon (view exHash))) = .ok (⟨unUserhash, none, some [97, 98, 67, 68], some [0xab, 0xcd]⟩, algoMd5) := by decide
example : (usernameInfo [] none (canon (view exExt))) = .ok (⟨unExtended, some [74, 32, 0xc3, 0xa4], none, none⟩, algoMd5) := by decide
example : eraseCnl (requestInfo [] none (canon (view exStd))) =
    .ok ⟨algoMd5, ⟨unStandard, some [97, 34, 98], none, none⟩, none, none, qopNone, 0, 10⟩ := by decide

/-! ## Single-character corruptions of a rendering

  `render lead (pre ++ e :: post) = valPrefix lead pre e ++ (value of e as rendered ++ valSuffix e post)`
  (`render_split`); the theorems replace one byte of the value region of an arbitrary parameter `e` of an
  arbitrary well-formed list, at every position and with every byte they name.

  Proved: (quoted form) every position between the DQUOTEs × every replacement byte: NUL ⇒ rejected; the body
  still is a quoted-string body ⇒ accepted and only that parameter changes.  (token form) every position ×
  every byte: NUL, ';' ⇒ rejected; any byte that may stand in an unquoted value ⇒ only that parameter changes.
  Corruptions that only change letter case of a name or replace SP by HT (or vice versa) are renderings of the
  same items: `digest_rendering_invariant`.

  NOT proved (`corruption_structural_witness`, hence the names `corruption_local_*` for the parts and no theorem
  `corruption_local` for all positions/bytes): replacement bytes that re-bracket the string — a DQUOTE or a backslash
  that breaks a quoted-pair inside a quoted value, a DQUOTE at the first position of an unquoted value, SP / HT / ','
  inside an unquoted value, the DQUOTEs themselves, and positions outside values ("=", commas, names).  Since fix F35
  a DQUOTE inside an unquoted value is refused, which closes the continuation `ab" ,nonce=evil"`; what remains false
  on the code is re-bracketing that ends in the unknown-element skipper (it accepts any text with balanced DQUOTE
  parts; witness (3), finding F36) and the inherent case (2) where the corrupted string is itself in the grammar.
  Checked dynamically without waiver: `corruption_rule` in tools/props/C14.py.
-/

theorem withValue_wf_quoted (e : Elem) (he : e.wf = true) (v' : Bytes) (esc' : List Bool) (hv : ∀ c ∈ v', c ≠ 0) :
    (e.withValue v' (.quoted esc')).wf = true := by
  obtain ⟨h1, h2, h3, h4, h5⟩ := e.wf_ws he
  simp only [Elem.wf, Elem.withValue, Bool.and_eq_true, decide_eq_true_eq, paramNames_length, List.all_eq_true]
  exact ⟨⟨⟨⟨⟨h1, h2⟩, h3⟩, h4⟩, h5⟩, fun c hc => by simpa using hv c hc⟩

theorem withValue_wf_token (e : Elem) (he : e.wf = true) (v' : Bytes) (hall : v'.all tokByte = true)
    (hhead : v'.head? ≠ some 34) (hne : v' ≠ []) : (e.withValue v' .token).wf = true := by
  obtain ⟨h1, h2, h3, h4, h5⟩ := e.wf_ws he
  simp only [Elem.wf, Elem.withValue, Bool.and_eq_true, decide_eq_true_eq, paramNames_length]
  refine ⟨⟨⟨⟨⟨h1, h2⟩, h3⟩, h4⟩, h5⟩, ⟨hall, by simpa using hhead⟩, by simpa using hne⟩

/-- Corruption inside a quoted value, any position of the body (between the DQUOTEs), any replacement
    byte, as long as the body still is a quoted-string body (`QBody`: no NUL, no bare DQUOTE, no backslash
    left without its character): accepted, the string is a rendering of the same list with that one value
    replaced — every other parameter, and algorithm / qop / userhash unless that parameter is the one hit,
    keep their meaning. -/
theorem corruption_local_quoted (lead : Bytes) (pre : List Elem) (e : Elem) (post : List Elem) (t : UInt8) (ht : t ≠ 59)
    (hwf : WF lead (pre ++ e :: post) = true) (esc : List Bool) (hf : e.r.form = .quoted esc)
    (j : Nat) (b : UInt8) (hj : j < (escRender esc e.item.value).length)
    (hq : QBody ((escRender esc e.item.value).set j b) = true) :
    ∃ d v' esc', parseDigest ((render lead (pre ++ e :: post)).set ((valPrefix lead pre e).length + (1 + j)) b) (some t) = .ok d ∧
      (escRender esc e.item.value).set j b = escRender esc' v' ∧
      (∀ k, (d.slots k).map paramUnq = view (pre ++ e.withValue v' (.quoted esc') :: post) k) ∧
      (∀ k, k ≠ e.item.slot → (d.slots k).map paramUnq = view (pre ++ e :: post) k) ∧
      (e.item.slot ≠ kAlgorithm → d.algo3 = algoSem (view (pre ++ e :: post) kAlgorithm)) ∧
      (e.item.slot ≠ kQop → d.qop = qopSem (view (pre ++ e :: post) kQop)) ∧
      (e.item.slot ≠ kUserhash → d.userhash = userhashSem (view (pre ++ e :: post) kUserhash)) := by
  obtain ⟨esc', v', hdec, hv'⟩ := qbody_decomp _ _ (Nat.le_refl _) hq
  have he : e.wf = true := by
    simp only [WF, Bool.and_eq_true, List.all_append, List.all_cons] at hwf; exact hwf.2.2.1
  have hwf' := withValue_wf_quoted e he v' esc' hv'
  obtain ⟨d, hp, hview, ha, hqq, hu⟩ := parse_replaced lead pre e post t ht hwf v' (.quoted esc') hwf'
  refine ⟨d, v', esc', ?_, hdec, hview, ?_, ?_, ?_, ?_⟩
  · rw [render_split, hf, set_in_value _ _ _ _ _ (by simp [renderValue]; omega)]
    have : (renderValue e.item.value (.quoted esc)).set (1 + j) b = renderValue v' (.quoted esc') := by
      simp only [renderValue, Nat.add_comm 1 j, List.set_cons_succ]
      rw [List.set_append_left _ _ hj, hdec]
    rw [this]; exact hp
  · intro k hk; rw [hview k, view_withValue _ _ _ _ _ _ hk]
  · intro hk; rw [ha, view_withValue _ _ _ _ _ _ (Ne.symm hk)]
  · intro hk; rw [hqq, view_withValue _ _ _ _ _ _ (Ne.symm hk)]
  · intro hk; rw [hu, view_withValue _ _ _ _ _ _ (Ne.symm hk)]

/-- … and when the replacement byte is NUL the string is rejected, at every position of the body. -/
theorem corruption_rejected_quoted_nul (lead : Bytes) (pre : List Elem) (e : Elem) (post : List Elem) (t : UInt8) (ht : t ≠ 59)
    (hwf : WF lead (pre ++ e :: post) = true) (esc : List Bool) (hf : e.r.form = .quoted esc)
    (j : Nat) (hj : j < (escRender esc e.item.value).length) :
    parseDigest ((render lead (pre ++ e :: post)).set ((valPrefix lead pre e).length + (1 + j)) 0) (some t) = .reject := by
  have he : e.wf = true := by
    simp only [WF, Bool.and_eq_true, List.all_append, List.all_cons] at hwf; exact hwf.2.2.1
  have hv := e.wf_quoted he esc hf
  rw [render_split, hf, set_in_value _ _ _ _ _ (by simp [renderValue]; omega)]
  have hset : (renderValue e.item.value (.quoted esc)).set (1 + j) 0 =
      34 :: ((escRender esc e.item.value).set j 0 ++ [34]) := by
    simp only [renderValue, Nat.add_comm 1 j, List.set_cons_succ]
    rw [List.set_append_left _ _ hj]
  rw [hset]
  apply parse_value_reject lead pre e post t ht hwf
  · exact ⟨34, _, rfl, by decide⟩
  · have := scanQ_nul t _ (escRender esc e.item.value) j ([34] ++ valSuffix e post) (Nat.le_refl _)
      (QBody_escRender esc _ hv) hj
    simp only [valueAt, List.cons_append, if_true, List.append_assoc] at this ⊢
    rw [this]; rfl

/-- Corruption inside an unquoted value: a replacement byte that may stand in such a value (anything but
    NUL SP HT , ; DQUOTE) changes only that parameter. -/
theorem corruption_local_token (lead : Bytes) (pre : List Elem) (e : Elem) (post : List Elem) (t : UInt8) (ht : t ≠ 59)
    (hwf : WF lead (pre ++ e :: post) = true) (hf : e.r.form = .token)
    (j : Nat) (b : UInt8) (hj : j < e.item.value.length) (hb : tokByte b = true) :
    ∃ d, parseDigest ((render lead (pre ++ e :: post)).set ((valPrefix lead pre e).length + j) b) (some t) = .ok d ∧
      (∀ k, (d.slots k).map paramUnq = view (pre ++ e.withValue (e.item.value.set j b) .token :: post) k) ∧
      (∀ k, k ≠ e.item.slot → (d.slots k).map paramUnq = view (pre ++ e :: post) k) ∧
      (e.item.slot ≠ kAlgorithm → d.algo3 = algoSem (view (pre ++ e :: post) kAlgorithm)) ∧
      (e.item.slot ≠ kQop → d.qop = qopSem (view (pre ++ e :: post) kQop)) ∧
      (e.item.slot ≠ kUserhash → d.userhash = userhashSem (view (pre ++ e :: post) kUserhash)) := by
  have he : e.wf = true := by
    simp only [WF, Bool.and_eq_true, List.all_append, List.all_cons] at hwf; exact hwf.2.2.1
  obtain ⟨c, r, hv, hc, hall⟩ := e.wf_token he hf
  have hall' : (e.item.value.set j b).all tokByte = true := by
    rw [List.all_eq_true]
    intro x hx
    rcases List.mem_or_eq_of_mem_set hx with h | h
    · rw [hv] at h; exact List.all_eq_true.mp hall x h
    · rw [h]; exact hb
  have hhead : (e.item.value.set j b).head? ≠ some 34 := by
    rw [hv]
    have hb34 : b ≠ 34 := by
      intro h; rw [h] at hb; exact absurd hb (by decide)
    cases j with
    | zero => simpa using hb34
    | succ j => simpa using hc
  have hne : e.item.value.set j b ≠ [] := by
    intro h
    have hl : (e.item.value.set j b).length = 0 := by rw [h]; rfl
    rw [List.length_set] at hl; omega
  have hwf' := withValue_wf_token e he _ hall' hhead hne
  obtain ⟨d, hp, hview, ha, hqq, hu⟩ := parse_replaced lead pre e post t ht hwf _ .token hwf'
  refine ⟨d, ?_, hview, ?_, ?_, ?_, ?_⟩
  · rw [render_split, hf, set_in_value _ _ _ _ _ (by simpa [renderValue] using hj)]
    exact hp
  · intro k hk; rw [hview k, view_withValue _ _ _ _ _ _ hk]
  · intro hk; rw [ha, view_withValue _ _ _ _ _ _ (Ne.symm hk)]
  · intro hk; rw [hqq, view_withValue _ _ _ _ _ _ (Ne.symm hk)]
  · intro hk; rw [hu, view_withValue _ _ _ _ _ _ (Ne.symm hk)]

/-- … NUL and ';' are rejected at every position of the value, and so is a DQUOTE at every position but the
    first (since fix F35; at the first position it opens a quoted-string, see `corruption_structural_witness`). -/
theorem corruption_rejected_token (lead : Bytes) (pre : List Elem) (e : Elem) (post : List Elem) (t : UInt8) (ht : t ≠ 59)
    (hwf : WF lead (pre ++ e :: post) = true) (hf : e.r.form = .token)
    (j : Nat) (b : UInt8) (hj : j < e.item.value.length) (hb : b = 0 ∨ b = 59 ∨ (b = 34 ∧ j ≠ 0)) :
    parseDigest ((render lead (pre ++ e :: post)).set ((valPrefix lead pre e).length + j) b) (some t) = .reject := by
  have he : e.wf = true := by
    simp only [WF, Bool.and_eq_true, List.all_append, List.all_cons] at hwf; exact hwf.2.2.1
  obtain ⟨c, r, hv, hc, hall⟩ := e.wf_token he hf
  rw [render_split, hf, set_in_value _ _ _ _ _ (by simpa [renderValue] using hj)]
  simp only [renderValue]
  have hhead : ∃ c' r', e.item.value.set j b ++ valSuffix e post = c' :: r' ∧ isWs c' = false ∧ c' ≠ 34 := by
    rw [hv]
    cases j with
    | zero =>
      refine ⟨b, r ++ valSuffix e post, by simp, ?_, ?_⟩ <;> rcases hb with h | h | h <;>
        first | (exact absurd rfl h.2) | (subst h; decide)
    | succ j =>
      simp only [List.all_cons, Bool.and_eq_true, tokByte, ne_eq, decide_eq_true_eq] at hall
      exact ⟨c, r.set j b ++ valSuffix e post, by simp, by simp [isWs, hall.1.1.1.1.2, hall.1.1.1.2], hc⟩
  obtain ⟨c', r', hcr, hws, h34⟩ := hhead
  apply parse_value_reject lead pre e post t ht hwf
  · exact ⟨c', r', hcr, hws⟩
  · have hb' : b = 0 ∨ b = 59 ∨ b = 34 := by
      rcases hb with h | h | h
      · exact Or.inl h
      · exact Or.inr (Or.inl h)
      · exact Or.inr (Or.inr h.1)
    have := scanTok_bad t b hb' e.item.value j (valSuffix e post) (by rw [hv]; exact hall) hj
    rw [hcr] at this ⊢
    simp only [valueAt, h34, if_false, this]
    rfl

/-- Non-vacuity and the limit of the two theorems: `nonce="good",realm="abX ,nonce=evil"`, byte 22 is the `X`. -/
def exCorPre : List Elem := [⟨⟨kNonce, [103, 111, 111, 100]⟩, ⟨[], [], [], .quoted [], [], []⟩⟩]
def exCorE : Elem := ⟨⟨kRealm, [97, 98, 88, 32, 44, 110, 111, 110, 99, 101, 61, 101, 118, 105, 108]⟩, ⟨[], [], [], .quoted [], [], []⟩⟩
def exCorTok : Elem := ⟨⟨kRealm, [97, 98, 88, 110, 111, 110, 99, 101, 61, 101, 118, 105, 108]⟩, ⟨[], [], [], .token, [], []⟩⟩

example : WF [] (exCorPre ++ exCorE :: []) = true ∧ exCorE.r.form = .quoted [] ∧ (valPrefix [] exCorPre exCorE).length + (1 + 2) = 22 ∧
    2 < (escRender [] exCorE.item.value).length ∧ QBody ((escRender [] exCorE.item.value).set 2 89) = true := by decide
example : WF [] (exCorPre ++ exCorTok :: []) = true ∧ exCorTok.r.form = .token ∧ 2 < exCorTok.item.value.length ∧ tokByte 89 = true := by decide

/-- second example: `nonce="good",realm="abX ,nonce=evil,",opaque="\""`, byte 22 is the `X` -/
def exCorE2 : Elem := ⟨⟨kRealm, [97, 98, 88, 32, 44, 110, 111, 110, 99, 101, 61, 101, 118, 105, 108, 44]⟩, ⟨[], [], [], .quoted [], [], []⟩⟩
def exCorPost2 : List Elem := [⟨⟨kOpaque, [34]⟩, ⟨[], [], [], .quoted [], [], []⟩⟩]

/-- What the `corruption_*` theorems leave out, on the code as it is after fix F35 (a DQUOTE inside an unquoted
    value is refused):
    (1) `nonce="good",realm="abX ,nonce=evil"` with X := DQUOTE — before the fix accepted with nonce = `evil"` —
        is rejected.
    (2) `nonce="good",realm=abXnonce=evil` with X := ',' gives `nonce="good",realm=ab,nonce=evil`: accepted, nonce
        changes from `good` to `evil`.  This one is inherent: the corrupted string is itself a credential string of
        the grammar and the reference reader reports the same nonce; no recipient can tell.  (The uncorrupted
        string is outside the RFC grammar — '=' in a token — but accepted by the scanner.)
    (3) `nonce="good",realm="abX ,nonce=evil,",opaque="\""` with X := DQUOTE: the quoted-string ends early, `nonce=evil`
        becomes a parameter, and the rest `",opaque="\""` is skipped as an unknown element (the skipper accepts any
        text with balanced DQUOTE parts): accepted, nonce changes and opaque disappears.  The corrupted string is
        NOT in the grammar (reference reader: none); needs a later value containing an escaped DQUOTE. -/
theorem corruption_structural_witness :
    (parseDigest (render [] (exCorPre ++ [exCorE])) (some 0)).map (fun d => (d.slots kNonce).map paramUnq) = .ok (some [103, 111, 111, 100]) ∧
    (parseDigest ((render [] (exCorPre ++ [exCorE])).set 22 34) (some 0)).map (fun d => (d.slots kNonce).map paramUnq) = .reject ∧
    (parseDigest (render [] (exCorPre ++ [exCorTok])) (some 0)).map (fun d => (d.slots kNonce).map paramUnq) = .ok (some [103, 111, 111, 100]) ∧
    (parseDigest ((render [] (exCorPre ++ [exCorTok])).set 21 44) (some 0)).map (fun d => (d.slots kNonce).map paramUnq) =
      .ok (some [101, 118, 105, 108]) ∧
    Ref.value ((render [] (exCorPre ++ [exCorTok])).set 21 44) kNonce = some [101, 118, 105, 108] ∧
    WF [] (exCorPre ++ exCorE2 :: exCorPost2) = true ∧
    (parseDigest (render [] (exCorPre ++ exCorE2 :: exCorPost2)) (some 0)).map (fun d => ((d.slots kNonce).map paramUnq, (d.slots kOpaque).map paramUnq)) =
      .ok (some [103, 111, 111, 100], some [34]) ∧
    (parseDigest ((render [] (exCorPre ++ exCorE2 :: exCorPost2)).set 22 34) (some 0)).map (fun d => ((d.slots kNonce).map paramUnq, (d.slots kOpaque).map paramUnq)) =
      .ok (some [101, 118, 105, 108], none) ∧
    Ref.parse ((render [] (exCorPre ++ exCorE2 :: exCorPost2)).set 22 34) = none := by decide

/-! ## Agreement with a grammar-level reference reader, for all byte strings -/

/-- For EVERY byte string `s` (not only renderings of parameter sets): when the recursive-descent reference
    reader of the RFC 7235 / 7616 grammar (`Mhd.Auth.Ref.parse`, written from the ABNF: `token BWS "=" BWS
    ( token / quoted-string )`, comma-separated list with OWS and empty elements, names caseless, extension
    parameters skipped, last occurrence of a repeated parameter counts) accepts `s`, so does
    `parse_dauth_params`, and every parameter, the algorithm and qop constants and the userhash flag are
    those of the reference reader. -/
theorem parse_agrees_reference (s : Bytes) (t : UInt8) (ht : t ≠ 59) (lead : Bytes) (gs : List GElem)
    (h : Ref.parse s = some (lead, gs)) :
    ∃ d, parseDigest s (some t) = .ok d ∧
      (∀ k, (d.slots k).map paramUnq = Ref.value s k) ∧
      d.algo3 = algoSem (Ref.value s kAlgorithm) ∧ d.qop = qopSem (Ref.value s kQop) ∧
      d.userhash = userhashSem (Ref.value s kUserhash) := by
  obtain ⟨hr, hwf⟩ := Ref.parse_tree s lead gs h
  have hv : ∀ k, Ref.value s k = viewG gs k := fun k => by simp [Ref.value, h]
  simp only [hv]
  rw [← hr]
  exact parseDigest_renderG lead gs t ht hwf

/-- the reference reader's result is a parse tree of its input: a well-formed element list (every choice the
    grammar leaves to the sender recorded) whose rendering is the input -/
theorem reference_returns_parse_tree (s lead : Bytes) (gs : List GElem) (h : Ref.parse s = some (lead, gs)) :
    renderG lead gs = s ∧ WFG lead gs = true :=
  Ref.parse_tree s lead gs h

/-- Non-vacuity: ` ,  Realm = "a\"b" ,, x-ext="q,;=\"" , NC=0000000a ,` (the rendering of `exG` with a leading SP)
    is accepted by the reference reader with realm = `a"b`, nc = `0000000a`; a repeated parameter: last wins. -/
example : (Ref.parse (renderG [32] exG)).isSome = true ∧ Ref.value (renderG [32] exG) kRealm = some [97, 34, 98] ∧
    Ref.value (renderG [32] exG) kNc = some [48, 48, 48, 48, 48, 48, 48, 97] ∧ Ref.value (renderG [32] exG) kNonce = none := by
  decide
example : Ref.value [110, 99, 61, 49, 44, 78, 67, 61, 34, 92, 50, 34] kNc = some [50] := by decide   -- `nc=1,NC="\2"`

/-- The converse does not hold: `parse_dauth_params` accepts strings outside the grammar (for these the reference
    reader, like every RFC-conforming recipient, has no answer).  Witnesses, one per kind of leniency, each
    rejected by the reference reader and accepted by the model of the C scanner (and by the real code: corpus/auth):
    (1) `nc=` empty unquoted value, (2) — (`realm=a"b`, DQUOTE inside an unquoted value: refused since fix F35, stated
    here as rejected), (3) `realm=a=b` '=' inside an unquoted value, (4) `foo` unknown element without "=", (5) `fo o="x` + `"y` quoted parts anywhere in an unknown
    element, (6) `realm="a` + 0x01 + `"` control character inside a quoted-string.
    The exact accepted language is given by `digest_accepts_only_lenient_grammar` below.  (Earlier text: what was missing is the exact
    characterisation of the accepted language (a lenient grammar: token values = any bytes but NUL SP HT , ; possibly
    empty; unknown elements = any text without NUL ; and top-level comma, with balanced DQUOTE parts) and its proof. -/
theorem digest_accepts_beyond_grammar_witness :
    (Ref.parse [110, 99, 61] = none ∧ (parseDigest [110, 99, 61] (some 0)).map (fun d => (d.slots kNc).map paramUnq) = .ok (some [])) ∧
    (Ref.parse [114, 101, 97, 108, 109, 61, 97, 34, 98] = none ∧
      (parseDigest [114, 101, 97, 108, 109, 61, 97, 34, 98] (some 0)).map (fun d => (d.slots kRealm).map paramUnq) = .reject) ∧
    (Ref.parse [114, 101, 97, 108, 109, 61, 97, 61, 98] = none ∧
      (parseDigest [114, 101, 97, 108, 109, 61, 97, 61, 98] (some 0)).map (fun d => (d.slots kRealm).map paramUnq) = .ok (some [97, 61, 98])) ∧
    (Ref.parse [102, 111, 111] = none ∧ (parseDigest [102, 111, 111] (some 0)).map (fun _ => ()) = .ok ()) ∧
    (Ref.parse [102, 111, 32, 111, 34, 44, 34, 121] = none ∧
      (parseDigest [102, 111, 32, 111, 34, 44, 34, 121] (some 0)).map (fun _ => ()) = .ok ()) ∧
    (Ref.parse [114, 101, 97, 108, 109, 61, 34, 97, 1, 34] = none ∧
      (parseDigest [114, 101, 97, 108, 109, 61, 34, 97, 1, 34] (some 0)).map (fun d => (d.slots kRealm).map paramUnq) = .ok (some [97, 1])) := by
  decide


/-! ## The information API: one allocated block, user-name type -/

/-- `MHD_digest_auth_get_request_info3` for EVERY parameter structure `d` (whatever header produced it): the
    regions the returned pointers refer to (`username` / `userhash_hex` / `userhash_bin` / `opaque` / `realm`, strings
    with their terminating NUL) follow one another without overlap inside the `unif_buf_size` bytes computed by
    `get_rq_unames_size` + `opaque.len + 1` + `realm.len + 1`; also the bytes `MHD_hex_to_bin` may write for an
    invalid userhash (`touched`, seed kind C14_2: `(len + 1) / 2`, not `len / 2`) and `unif_buf_used` stay inside. -/
theorem info_block_layout (s : Bytes) (term : Option UInt8) (d : DAuth) (L : Lay) (h : requestInfoLay s term d = .ok L) :
    chain 0 L.regions L.size ∧ L.touched ≤ L.size ∧ L.used ≤ L.size :=
  requestInfoLay_fits s term d L h

theorem username_block_layout (s : Bytes) (term : Option UInt8) (d : DAuth) (L : Lay) (h : usernameLay s term d = .ok L) :
    chain 0 L.regions L.size ∧ L.touched ≤ L.size ∧ L.used ≤ L.size :=
  usernameLay_fits s term d L h

/-- userhash `abCD` (+ binary ab cd), opaque absent, realm absent: 5 + 2 bytes, all used;
    odd-length invalid userhash `abc`: 4 + 2 bytes allocated, 2 bytes touched behind the hex string -/
example : requestInfoLay [] none (canon (view exHash)) =
    .ok ⟨7, none, some (0, 4), some (5, 2), none, none, 7, 7⟩ := by decide
example : requestInfoLay [] none (canon (fun k => if k = kUsername then some [97, 98, 99] else if k = kUserhash then some [116, 114, 117, 101] else none)) =
    .ok ⟨6, none, some (0, 3), none, none, none, 6, 4⟩ := by decide
example : chain 0 [(0, 5), (5, 2)] 7 ∧ ¬ chain 0 [(0, 5), (4, 2)] 7 ∧ ¬ chain 0 [(0, 5), (5, 3)] 7 := by simp [chain]

/-- `get_rq_uname_type` is total and exact; a parameter that is present with length 0 counts as present
    (seed kind C14_4) -/
theorem uname_type_exact (d : DAuth) :
    (unameType d = unMissing ↔ d.slots kUsername = none ∧ d.slots kUsernameExt = none) ∧
    (unameType d = unStandard ↔ (d.slots kUsername).isSome ∧ d.slots kUsernameExt = none ∧ d.userhash = false) ∧
    (unameType d = unUserhash ↔ (d.slots kUsername).isSome ∧ d.slots kUsernameExt = none ∧ d.userhash = true) ∧
    (unameType d = unExtended ↔ d.slots kUsername = none ∧
      ∃ e, d.slots kUsernameExt = some e ∧ e.quoted = false ∧ d.userhash = false ∧ extPrefix.length + 1 ≤ e.raw.length) ∧
    (unameType d = unInvalid ↔ ((d.slots kUsername).isSome ∧ (d.slots kUsernameExt).isSome) ∨
      (d.slots kUsername = none ∧ ∃ e, d.slots kUsernameExt = some e ∧
        ¬ (e.quoted = false ∧ d.userhash = false ∧ extPrefix.length + 1 ≤ e.raw.length))) ∧
    (unameType d = unMissing ∨ unameType d = unStandard ∨ unameType d = unUserhash ∨ unameType d = unExtended ∨
      unameType d = unInvalid) :=
  unameType_exact d

/-- `username=""`: present and empty is STANDARD with the empty name, not MISSING -/
example : (parseDigest [117, 115, 101, 114, 110, 97, 109, 101, 61, 34, 34] (some 0)).map
    (fun d => (unameType d, usernameInfo [] none d)) = .ok (unStandard, .ok (⟨unStandard, some [], none, none⟩, algoMd5)) := by decide

/-! ## Several request headers: `MHD_get_rq_dauth_params_` / `MHD_get_rq_bauth_params_` -/

/-- The first header (kind HEADER, name `Authorization` caseless) whose value is the scheme token followed by
    SP / HT / nothing decides: headers before it that do not match — other names, other kinds, the other scheme,
    `Digestx` — are passed over, headers after it are never looked at, even when the first one does not parse. -/
theorem digest_api_first_matching_header (pre : List Hdr) (h : Hdr) (post : List Hdr) (off : Nat) (av : Bytes)
    (hpre : ∀ x ∈ pre, hdrMatch digestBase x = none) (hm : hdrMatch digestBase h = some (off, av)) :
    digestApiH (pre ++ h :: post) = digestApiH [h] ∧ digestLayH (pre ++ h :: post) = digestLayH [h] := by
  simp only [digestApiH, digestLayH, dauthParams_first pre h post off av hpre hm, and_self]

theorem digest_api_no_header (hs : List Hdr) (h : ∀ x ∈ hs, hdrMatch digestBase x = none) : digestApiH hs = .ok none := by
  simp [digestApiH, dauthParams_none hs h, Res.map]

theorem basic_api_first_matching_header (pre : List Hdr) (h : Hdr) (post : List Hdr) (off : Nat) (av : Bytes)
    (hpre : ∀ x ∈ pre, hdrMatch basicBase x = none) (hm : hdrMatch basicBase h = some (off, av)) :
    basicApiH (pre ++ h :: post) = basicInfo av :=
  basicApiH_first pre h post off av hpre hm

theorem basic_api_no_header (hs : List Hdr) (h : ∀ x ∈ hs, hdrMatch basicBase x = none) : basicApiH hs = none :=
  basicApiH_none hs h

/-- one header: the functions of `digest_api_roundtrip` / `basic_api_roundtrip` -/
theorem api_single_header (value : Bytes) :
    digestApiH [⟨headerKind, authHeader, value⟩] = digestApi value ∧ basicApiH [⟨headerKind, authHeader, value⟩] = basicApi value :=
  ⟨digestApiH_single value, rfl⟩

/-- `Authorization: Basic QTpC` then `Authorization: Digest nc=1;` (broken) then `Authorization: Digest nc=2`:
    Basic credentials `A:B`; no Digest credentials (the first Digest header is the one parsed) -/
def exHdrs : List Hdr :=
  [⟨headerKind, authHeader, basicBase ++ [32, 81, 84, 112, 67]⟩,
   ⟨headerKind, authHeader, digestBase ++ [32, 110, 99, 61, 49, 59]⟩,
   ⟨headerKind, authHeader, digestBase ++ [32, 110, 99, 61, 50]⟩]
example : basicApiH exHdrs = some ([65], some [66]) ∧ (digestApiH exHdrs).map (fun o => o.isSome) = .ok false ∧
    (digestApiH exHdrs.reverse).map (fun o => o.isSome) = .ok true := by decide


/-! ## The per-request cache (`rq.bauth_tried`, `rq.dauth_tried`) -/

/-- A query made before the request headers are processed (only possible from the callback installed with
    MHD_OPTION_URI_LOG_CALLBACK) returns "no credentials" and leaves the cache untouched — for all three API
    functions, any headers, any cache in which that scheme has not been tried (in particular the fresh one). -/
theorem early_query_not_cached (hs : List Hdr) (c : RqAuth) :
    (c.bTried = false → basicQ false hs c = (none, c)) ∧
    (c.dTried = false → infoQ false hs c = .ok (none, c) ∧ unameQ false hs c = .ok (none, c)) := by
  constructor
  · intro h; simp [basicQ, getBauth, h, basicOf]
  · intro h; simp [infoQ, unameQ, getDauth, h]

/-- … so whatever was asked early (any number of times), a later query for the same request returns what the
    headers say: the answers of the cache-free functions `basicApiH` / `digestApiH`. -/
theorem late_query_after_early (hs : List Hdr) :
    (basicQ true hs (basicQ false hs (basicQ false hs RqAuth.init).2).2).1 = basicApiH hs ∧
    (infoQ true hs RqAuth.init).map (·.1) = (digestApiH hs).map (fun o => o.map (·.1)) ∧
    (unameQ true hs RqAuth.init).map (·.1) = (digestApiH hs).map (fun o => o.map (·.2)) ∧
    infoQ false hs RqAuth.init = .ok (none, RqAuth.init) ∧ unameQ false hs RqAuth.init = .ok (none, RqAuth.init) := by
  have e := early_query_not_cached hs RqAuth.init
  have eb := e.1 rfl
  refine ⟨?_, ?_, ?_, (e.2 rfl).1, (e.2 rfl).2⟩
  · rw [eb]; simp only [eb]
    simp [basicQ, getBauth, RqAuth.init, basicOf_bauthParams]
  · simp only [infoQ, getDauth, RqAuth.init, digestApiH]
    cases dauthParams hs <;> simp [Res.map]
    rename_i o; cases o <;> rfl
  · simp only [unameQ, getDauth, RqAuth.init, digestApiH]
    cases dauthParams hs <;> simp [Res.map]
    rename_i o; cases o <;> rfl

/-- General form, for a cache in any state reachable within the request (`consistent`): the answer is the one
    of the headers as soon as the state allows it or the scheme has been tried, "none" otherwise; the cache stays
    consistent; and once tried, the answer no longer depends on the connection state (repeated queries are
    idempotent). -/
theorem basic_query_spec (st : Bool) (hs : List Hdr) (c : RqAuth) (hc : c.consistent hs) :
    (basicQ st hs c).1 = (if st || c.bTried then basicApiH hs else none) ∧ (basicQ st hs c).2.consistent hs ∧
    (∀ st', (basicQ st' hs (basicQ true hs c).2) = ((basicQ true hs c).1, (basicQ true hs c).2)) := by
  obtain ⟨h1, h2, _, h4⟩ := getBauth_spec st hs c hc
  refine ⟨?_, h2, ?_⟩
  · simp only [basicQ, h1]
    split
    · exact basicOf_bauthParams hs
    · rfl
  · intro st'
    obtain ⟨g1, g2, _, g4⟩ := getBauth_spec true hs c hc
    have ht : (getBauth true hs c).2.bTried = true := by simpa using g4
    simp only [basicQ]
    have key : ∀ c' : RqAuth, c'.bTried = true → getBauth st' hs c' = (c'.b, c') := by
      intro c' h; unfold getBauth; rw [if_pos h]
    rw [key _ ht]
    have hb : (getBauth true hs c).2.b = (getBauth true hs c).1 := by
      rw [g1]; simp only [Bool.true_or, if_true]; exact g2.1 ht
    simp [hb]

theorem digest_query_spec (st : Bool) (hs : List Hdr) (c : RqAuth) (hc : c.consistent hs) (x : Option (Bytes × DAuth) × RqAuth)
    (hx : getDauth st hs c = .ok x) :
    Res.ok x.1 = (if st || c.dTried then dauthParams hs else .ok none) ∧ x.2.consistent hs ∧
    (st = true → ∀ st', getDauth st' hs x.2 = .ok (x.1, x.2)) := by
  obtain ⟨_, _, h3⟩ := getDauth_spec st hs c hc
  obtain ⟨a, b, d⟩ := h3 x hx
  refine ⟨d, a, ?_⟩
  intro hst st'
  have ht : x.2.dTried = true := by rw [b, hst]; rfl
  have hd : Res.ok x.2.d = dauthParams hs := a.2 ht
  have hx1 : Res.ok x.1 = dauthParams hs := by rw [d, hst]; rfl
  have : x.2.d = x.1 := by
    have := hd.trans hx1.symm
    simpa using this
  unfold getDauth; rw [if_pos ht, this]

/-- `connection_reset` clears the cache for the next request on a keep-alive connection: the fresh cache is
    consistent with every header list, so the next request's answers depend on its own headers only. -/
theorem next_request_fresh (hs' : List Hdr) :
    RqAuth.init.consistent hs' ∧ (basicQ true hs' RqAuth.init).1 = basicApiH hs' := by
  refine ⟨init_consistent hs', ?_⟩
  have := (basic_query_spec true hs' RqAuth.init (init_consistent hs')).1
  simpa using this

/-- Non-vacuity (headers of `exHdrs`: Basic `A:B`; first Digest header broken): early queries see nothing and cache
    nothing, the handler sees the Basic credentials, a second request with other headers sees its own. -/
example : (basicQ false exHdrs RqAuth.init).1 = none ∧
    (basicQ true exHdrs (basicQ false exHdrs RqAuth.init).2).1 = some ([65], some [66]) ∧
    (basicQ true (exHdrs.drop 2) RqAuth.init).1 = none := by decide


/-! ## Soundness half: the scanner accepts only the lenient grammar -/

/-- For EVERY byte string `s`: if `parse_dauth_params` accepts `s`, then `s` is a sentence of the lenient grammar
    `Mhd.Auth.Lenient` — OWS, then elements separated by "," OWS, each element either a known parameter
    `name BWS "=" BWS ( value ) OWS` or an "other" element — and every slot holds exactly the (slice, escape flag)
    of the last occurrence of that parameter in the derivation, so the unquoted values agree.  The grammar is the
    RFC 7235 / 7616 grammar relaxed by exactly: unquoted values may be empty and contain any byte but NUL SP HT , ;
    DQUOTE ('=' too); quoted-strings may contain any byte but NUL (a backslash quotes any byte but NUL); an element
    whose name is not one of the twelve known names is any text without NUL, ';' and top-level ',' with DQUOTE-delimited
    parts anywhere, no "=" needed (this rule alone is F36).  Together with `parse_agrees_reference` the accepted
    language lies between the strict and this lenient grammar.  (The derivation is given as a tree whose rendering
    is `s`, not by a second executable reader.) -/
theorem digest_accepts_only_lenient_grammar (s : Bytes) (t : UInt8) (d : DAuth) (h : parseDigest s (some t) = .ok d) :
    ∃ lead ls, Lenient.Derives lead ls s ∧
      (∀ k, (d.slots k).map pr = Lenient.lview ls none k) ∧
      (∀ k, (d.slots k).map paramUnq = (Lenient.lview ls none k).map fun x => if x.2 then unquote x.1 else x.1) := by
  obtain ⟨lead, ls, hd, hv⟩ := Lenient.parseDigest_sound s t d h
  refine ⟨lead, ls, hd, hv, fun k => ?_⟩
  rw [← hv k]
  cases d.slots k with
  | none => rfl
  | some p => simp [pr, paramUnq]

/-- Non-vacuity: a derivation of ` nc= , fo o","y,Realm = "a` 0x01 `"` (empty value, an element without "=" that
    contains a quoted comma, a control byte in a quoted-string) -/
def exLen : List (Lenient.LElem × Bytes) :=
  [(.known kNc [110, 99] [] [] (.tok []) [32], [32]), (.other [102, 111, 32, 111, 34, 44, 34, 121], []),
   (.known kRealm [82, 101, 97, 108, 109] [32] [32] (.quoted [97, 1]) [], [])]
example : (∀ x ∈ exLen, x.1.wf = true ∧ allWs x.2 = true) ∧
    Lenient.lview exLen none kRealm = some ([97, 1], false) ∧ Lenient.lview exLen none kNc = some ([], false) ∧
    (parseDigest ([32] ++ Lenient.renderL exLen) (some 0)).map (fun d => ((d.slots kRealm).map pr, (d.slots kNc).map pr)) =
      .ok (some ([97, 1], false), some ([], false)) := by decide


end Mhd.C14
