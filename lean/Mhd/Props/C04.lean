/-
  C04 — Every reply is a well-formed, self-consistently framed HTTP message.

  Statements only; the proofs are in `Mhd.Proofs.RespInv` (response object), `Mhd.Proofs.ReplyParse`
  (specification lemmas), `Mhd.Proofs.Reply{Head,Fields,Body,MainLemmas,Main,Extra}`.
  The specification `Mhd.Http.WellFramed` / `Mhd.Http.parseReply` is the strict response grammar of
  `Mhd.Proofs.ReplyGrammar` (nothing of the model is used there).

  Quantification: every theorem holds for EVERY response object reachable by a finite sequence of legal
  API calls (theorem `calls_preserve_inv` gives `Inv` for all of them), every connection state `c`
  (request method, HTTP version, Connection tokens of the request, read-closed / discard flags,
  previous keep-alive state, daemon date option), every status code accepted by `MHD_queue_response`,
  every body source that keeps the content contract (`SrcLegal`), every write-buffer size ≥ 128, every
  date string without CR/LF.  `complete = true` says that the header block fitted into the buffer and
  the body source ended regularly (otherwise the daemon aborts the connection instead of finishing
  the message).
-/
import Mhd.Proofs.ReplyClose
import Mhd.Proofs.ReplyError
import Mhd.Proofs.ReplyIov

namespace Mhd.C04
open Mhd.ReplyStr Mhd.Resp Mhd.Reply
open Mhd.Http (WellFramed parseReply Framing normField NoCRLF announcesClose managedName)
open Mhd.Gen.Reply (sizeUnknown)

/-- Every legal call of the response API (add / delete header, add footer, set options) keeps the
    representation invariant "`flags_auto` says exactly what the header list contains"
    (`Mhd.Resp.Inv`: a single leading Connection header iff HAS_CONNECTION_HDR, close flag ⇒ the value
    starts with the `close` token, exactly one Transfer-Encoding / Date / Content-Length header iff the
    respective flag, never both Transfer-Encoding and Content-Length, every stored name and value free
    of CR/LF, application Content-Length only on HEAD-only responses …) — for every response object
    satisfying it and every call with every argument.  This is the step that `flags_auto = …` (F4),
    the footer-blind delete (F4c) and the Date replacement (F4d) break in the unfixed code. -/
theorem call_preserves_inv (r : Resp) (c : Call) (h : Inv r) (hl : c.Legal) : Inv (applyCall r c).2 :=
  Mhd.Resp.applyCall_inv r c h hl

/-- … hence the invariant holds after EVERY finite sequence of calls, for every way of creating the
    response (any size / unknown size, empty with any flags except the insanity flag, upgrade). -/
theorem calls_preserve_inv (r0 : Resp) (cs : List Call)
    (h0 : (∃ size, r0 = Resp.create size) ∨ (∃ f, f.insanity = false ∧ r0 = Resp.createEmpty f) ∨ r0 = Resp.createUpgrade)
    (hl : ∀ c ∈ cs, c.Legal) : Inv (runCalls r0 cs) := by
  apply Mhd.Resp.runCalls_inv cs r0 _ hl
  rcases h0 with ⟨s, rfl⟩ | ⟨f, hf, rfl⟩ | rfl
  · exact Mhd.Resp.create_inv s
  · exact Mhd.Resp.createEmpty_inv f hf
  · exact Mhd.Resp.createUpgrade_inv

/-- Non-vacuity: the call sequence that breaks the unfixed code (F4: Transfer-Encoding, then Connection)
    is legal, and the resulting object carries both headers with both flags set. -/
example :
    let r := runCalls (Resp.create 5) [.add sTransferEncoding sChunked, .add sConnection [102, 111, 111]]
    r.fa.transEnc = true ∧ r.fa.connHdr = true ∧ r.hdrs.length = 2 := by decide

/-- A completely sent reply is a well-formed, self-consistently framed HTTP/1.x message. -/
theorem reply_wellFramed (c : Conn) (r : Resp) (st : CState) (allow : Bool) (code0 : Nat) (q : Queued) (src : BodySrc)
    (date : Option Bytes) (wb : Nat)
    (hinv : Inv r) (hq : queueResponse c st false false allow code0 r = some q)
    (hdate : ∀ d, date = some d → NoCRLF d) (hsz : r.totalSize < 2 ^ 64)
    (hsrc : SrcLegal r wb src) (hwb : 128 ≤ wb)
    (hcomp : (sendReply c r q src date wb (startPosAfterQueue q r 0)).complete = true) :
    WellFramed (reqOf c) (sendReply c r q src date wb (startPosAfterQueue q r 0)).wire := by
  unfold WellFramed
  rw [Mhd.Reply.reply_parses c r st allow code0 q src date wb hinv hq hdate hsz hsrc hwb hcomp]
  rfl

/-- What the strict parser finds in it: the status code that was queued; exactly one body delimitation —
    none for HEAD / 1xx / 204 / 304, chunked (only possible towards an HTTP/1.1 client), Content-Length equal
    to the size of the response, or close-delimited —; the body is byte for byte what the application
    supplied (nothing for HEAD / 1xx / 204 / 304); the trailers of a chunked reply are exactly the footers of the
    response (every footer-kind entry, verbatim, once, in insertion order), and there are no trailers otherwise. -/
theorem one_body_delimitation (c : Conn) (r : Resp) (st : CState) (allow : Bool) (code0 : Nat) (q : Queued) (src : BodySrc)
    (date : Option Bytes) (wb : Nat)
    (hinv : Inv r) (hq : queueResponse c st false false allow code0 r = some q)
    (hdate : ∀ d, date = some d → NoCRLF d) (hsz : r.totalSize < 2 ^ 64)
    (hsrc : SrcLegal r wb src) (hwb : 128 ≤ wb)
    (hcomp : (sendReply c r q src date wb (startPosAfterQueue q r 0)).complete = true) :
    ∃ p, parseReply (reqOf c) (sendReply c r q src date wb (startPosAfterQueue q r 0)).wire = some p ∧
      p.code = q.code ∧
      p.framing = (if NoBody c q.code then Framing.none
                   else if (setupReplyProperties c r q.code).2.chunked then Framing.chunked
                   else if r.totalSize ≠ sizeUnknown then Framing.length r.totalSize else Framing.close) ∧
      p.body = (if NoBody c q.code then [] else appBody src) ∧
      (p.framing = Framing.chunked → ver11Compat c.ver = true) ∧
      (∀ n, p.framing = Framing.length n → p.body.length = n) ∧
      p.trailers = (if p.framing = Framing.chunked then ((footerFields r.hdrs).map toHttp).map normField else []) := by
  refine ⟨_, Mhd.Reply.reply_parses c r st allow code0 q src date wb hinv hq hdate hsz hsrc hwb hcomp, rfl, rfl, rfl, ?_, ?_, ?_⟩
  · intro hf
    simp only [expectedFraming] at hf
    split at hf
    · cases hf
    · split at hf
      · rename_i hch
        exact ((setup_props c r q.code).2.2.1 hch).2.1
      · split at hf <;> cases hf
  · intro n hf
    simp only [expectedFraming] at hf
    split at hf
    · cases hf
    · rename_i hnb
      split at hf
      · cases hf
      · split at hf
        · rename_i hkn
          simp only [hnb, if_false]
          injection hf with hf
          subst hf
          cases src with
          | buffer data => exact hsrc.1
          | callback pieces ending =>
            have := hsrc.2.2.1 hkn
            simpa [appBody, sumLen] using this
        · cases hf
  · simp only [expectedFraming]
    by_cases hnb : NoBody c q.code
    · simp [hnb]
    · by_cases hch : (setupReplyProperties c r q.code).2.chunked = true
      · simp [hnb, hch]
      · by_cases hkn : r.totalSize ≠ sizeUnknown <;> simp [hnb, hch, hkn]

/-- No body byte follows the header block of a reply to HEAD or with status 1xx / 204 / 304. -/
theorem no_body_when_forbidden (c : Conn) (r : Resp) (st : CState) (allow : Bool) (code0 : Nat) (q : Queued) (src : BodySrc)
    (date : Option Bytes) (wb : Nat)
    (hq : queueResponse c st false false allow code0 r = some q) (hnb : NoBody c q.code) (h : Bytes)
    (hh : (buildHeaderResponse c r q.code q.icy date wb).2.2 = some h) :
    (sendReply c r q src date wb (startPosAfterQueue q r 0)).wire = h := by
  have hns : (setupReplyProperties c r q.code).2.sendReplyBody = false := by
    rw [(setup_props c r q.code).2.1]; exact (noBody_iff c q.code).2 hnb
  obtain ⟨_, e2, _⟩ := buildHeader_eq c r q.code q.icy date wb h hh
  unfold sendReply
  rcases hx : buildHeaderResponse c r q.code q.icy date wb with ⟨ka, props, hdr⟩
  rw [hx] at hh e2
  simp only at hh e2
  subst hh
  simp only
  split
  · rfl
  · rw [e2, hns]; rfl

/-- Application header fields other than Connection, Content-Length, Transfer-Encoding and Date appear in the
    parsed reply verbatim (the value as stored, leading whitespace aside), exactly once each, in insertion order:
    the sub-list of unmanaged fields of the header block IS the list of header-kind entries with unmanaged names.
    Footer-kind entries appear — all of them, whatever their name, same sense of verbatim / once / in order — as
    the trailer section of a chunked reply, and nowhere when the reply is not chunked or has no body. -/
theorem user_headers_verbatim (c : Conn) (r : Resp) (st : CState) (allow : Bool) (code0 : Nat) (q : Queued) (src : BodySrc)
    (date : Option Bytes) (wb : Nat)
    (hinv : Inv r) (hq : queueResponse c st false false allow code0 r = some q)
    (hdate : ∀ d, date = some d → NoCRLF d) (hsz : r.totalSize < 2 ^ 64)
    (hsrc : SrcLegal r wb src) (hwb : 128 ≤ wb)
    (hcomp : (sendReply c r q src date wb (startPosAfterQueue q r 0)).complete = true) :
    ∃ p, parseReply (reqOf c) (sendReply c r q src date wb (startPosAfterQueue q r 0)).wire = some p ∧
      p.fields.filter (fun f => ! managedName f.name) = ((userHdrs r.hdrs).map toHttp).map normField ∧
      p.trailers = (if ¬ NoBody c q.code ∧ (setupReplyProperties c r q.code).2.chunked = true
                    then ((footerFields r.hdrs).map toHttp).map normField else []) := by
  refine ⟨_, Mhd.Reply.reply_parses c r st allow code0 q src date wb hinv hq hdate hsz hsrc hwb hcomp, ?_, rfl⟩
  simp only
  rw [parsed_unmanaged, allFields_unmanaged c r date _ _ hinv]

/-- Whenever the daemon is going to close the connection after the reply (`connection_reset` with
    `reuse = false`), the reply carries `Connection: close`. -/
theorem close_announced (c : Conn) (r : Resp) (st : CState) (allow : Bool) (code0 : Nat) (q : Queued) (src : BodySrc)
    (date : Option Bytes) (wb : Nat)
    (hinv : Inv r) (hq : queueResponse c st false false allow code0 r = some q)
    (hdate : ∀ d, date = some d → NoCRLF d) (hsz : r.totalSize < 2 ^ 64)
    (hsrc : SrcLegal r wb src) (hwb : 128 ≤ wb) (hup : r.upgrade = false)
    (hcomp : (sendReply c r q src date wb (startPosAfterQueue q r 0)).complete = true)
    (hcl : closesAfter c (setupReplyProperties c r q.code).1 = true) :
    ∃ p, parseReply (reqOf c) (sendReply c r q src date wb (startPosAfterQueue q r 0)).wire = some p ∧
      announcesClose p.fields = true := by
  refine ⟨_, Mhd.Reply.reply_parses c r st allow code0 q src date wb hinv hq hdate hsz hsrc hwb hcomp, ?_⟩
  exact close_in_fields c r date _ _ hinv ((closesAfter_iff c r q.code hup).1 hcl)

/-- the keep-alive state the reply leaves the connection with is the one `setup_reply_properties` decided -/
theorem sendReply_ka (c : Conn) (r : Resp) (q : Queued) (src : BodySrc) (date : Option Bytes) (wb sp : Nat) :
    (sendReply c r q src date wb sp).ka = (setupReplyProperties c r q.code).1 := by
  unfold sendReply buildHeaderResponse
  rcases hx : setupReplyProperties c r q.code with ⟨ka, props⟩
  simp only
  split
  · rfl
  · split
    · rfl
    · split <;> rfl

/-- … if AND ONLY IF.  For every response object reachable by any legal sequence of add / delete header / footer
    / option calls from any constructor, every request, every reply decision: the head of the complete reply has a
    Connection field with a `close` token (found by the grammar's own tokenizer: split at commas, trim OWS, compare
    case-insensitively) exactly when the connection is left in MHD_CONN_MUST_CLOSE — which, for everything but an
    upgrade response, is exactly when the daemon closes the connection after the reply (`connection_reset` with
    `reuse = false`).  Nothing about the string editors is assumed: `Mhd.Tok.editorSpecs` proves that the model
    copies of `MHD_str_remove_token_caseless_` (output: a `", "`-list without any `close` element) and
    `MHD_str_remove_tokens_caseless_` (output: the `", "`-list of a sub-list of the elements) keep the stored value
    in the normal form in which `close` can only be the first element and only together with
    MHD_RAF_HAS_CONNECTION_CLOSE (`Mhd.Tok.ConnTok`, preserved by every call: `Mhd.Tok.applyCall_connTok`). -/
theorem close_announced_iff (r0 : Resp) (cs : List Call)
    (h0 : (∃ size, r0 = Resp.create size) ∨ (∃ f, f.insanity = false ∧ r0 = Resp.createEmpty f) ∨ r0 = Resp.createUpgrade)
    (hl : ∀ c ∈ cs, c.Legal)
    (c : Conn) (st : CState) (allow : Bool) (code0 : Nat) (q : Queued) (src : BodySrc) (date : Option Bytes) (wb : Nat)
    (hq : queueResponse c st false false allow code0 (runCalls r0 cs) = some q)
    (hdate : ∀ d, date = some d → NoCRLF d) (hsz : (runCalls r0 cs).totalSize < 2 ^ 64)
    (hsrc : SrcLegal (runCalls r0 cs) wb src) (hwb : 128 ≤ wb)
    (hcomp : (sendReply c (runCalls r0 cs) q src date wb (startPosAfterQueue q (runCalls r0 cs) 0)).complete = true) :
    ∃ p, parseReply (reqOf c) (sendReply c (runCalls r0 cs) q src date wb (startPosAfterQueue q (runCalls r0 cs) 0)).wire = some p ∧
      (announcesClose p.fields = true ↔
        (sendReply c (runCalls r0 cs) q src date wb (startPosAfterQueue q (runCalls r0 cs) 0)).ka = .mustClose) ∧
      ((runCalls r0 cs).upgrade = false →
        (announcesClose p.fields = true ↔
          closesAfter c (sendReply c (runCalls r0 cs) q src date wb (startPosAfterQueue q (runCalls r0 cs) 0)).ka = true)) := by
  have hinv : Inv (runCalls r0 cs) := calls_preserve_inv r0 cs h0 hl
  have hct := Mhd.Tok.reachable_connTok r0 cs h0 hl
  refine ⟨_, Mhd.Reply.reply_parses c _ st allow code0 q src date wb hinv hq hdate hsz hsrc hwb hcomp, ?_, ?_⟩
  · rw [sendReply_ka]; exact Mhd.Tok.announces_iff_mustClose c _ date q.code hinv hct
  · intro hup
    rw [sendReply_ka, closesAfter_iff c _ q.code hup]
    exact Mhd.Tok.announces_iff_mustClose c _ date q.code hinv hct

/-- Non-vacuity, direction "announced ⇒ closes": the application adds `Connection: Foo, cLoSe`; the hypotheses
    hold and the connection is left in MUST_CLOSE. -/
example :
    let r := runCalls (Resp.create 5) [.add sConnection [70, 111, 111, 44, 32, 99, 76, 111, 83, 101]]
    let c : Conn := {}
    ∃ q, queueResponse c .fullReqReceived false false false 200 r = some q ∧
      SrcLegal r 4096 (.buffer [97, 98, 99, 100, 101]) ∧
      (sendReply c r q (.buffer [97, 98, 99, 100, 101]) none 4096 (startPosAfterQueue q r 0)).complete = true ∧
      (sendReply c r q (.buffer [97, 98, 99, 100, 101]) none 4096 (startPosAfterQueue q r 0)).ka = .mustClose := by
  refine ⟨⟨200, false, false, false⟩, by decide, ⟨by decide, by decide⟩, by decide, by decide⟩

/-- Non-vacuity, direction "not announced ⇒ stays open" on the edit sequence that needs the flag re-evaluation of
    `del_response_header_connection`: `close` is added, a short token (`TE`, < 5 bytes) is added, `close` is
    deleted again.  The stored value is `TE`, the close flag is cleared, the connection is kept alive. -/
example :
    let r := runCalls (Resp.create 5)
      [.add sConnection sClose, .add sConnection [84, 69], .del sConnection sClose]
    let c : Conn := {}
    r.hdrs = [⟨.header, sConnection, [84, 69]⟩] ∧ r.fa.connClose = false ∧
    ∃ q, queueResponse c .fullReqReceived false false false 200 r = some q ∧
      SrcLegal r 4096 (.buffer [97, 98, 99, 100, 101]) ∧
      (sendReply c r q (.buffer [97, 98, 99, 100, 101]) none 4096 (startPosAfterQueue q r 0)).complete = true ∧
      (sendReply c r q (.buffer [97, 98, 99, 100, 101]) none 4096 (startPosAfterQueue q r 0)).ka = .useKeepalive ∧
      closesAfter c (sendReply c r q (.buffer [97, 98, 99, 100, 101]) none 4096 (startPosAfterQueue q r 0)).ka = false := by
  refine ⟨by decide, by decide, ⟨200, false, false, false⟩, by decide, ⟨by decide, by decide⟩, by decide, by decide, by decide⟩


/-- `100 Continue` is sent only to an HTTP/1.1 client that asked for it while the body is still awaited. -/
theorem continue_only_when_asked (ver : Ver) (remaining : Nat) (expect : Option Bytes)
    (h : need100Continue ver remaining expect = true) :
    ver11Compat ver = true ∧ remaining ≠ 0 ∧ ∃ e, expect = some e ∧ strEqCaseless e s100Continue = true := by
  unfold need100Continue at h
  split at h
  · cases h
  · rename_i hv
    split at h
    · cases h
    · rename_i hr
      cases expect with
      | none => cases h
      | some e =>
        refine ⟨by simpa using hv, by simpa using hr, e, rfl, h⟩

/-- Non-vacuity of the reply theorems: a response with a forced `Transfer-Encoding: chunked` and an extra
    Connection token (the F4 sequence), a footer, queued with 200 for a GET HTTP/1.1 request, 5 body bytes. -/
example :
    let r := runCalls (Resp.create 5)
      [.add sTransferEncoding sChunked, .add sConnection [102, 111, 111], .add [88, 45, 65] [118], .foot [88, 45, 84] [116]]
    let c : Conn := {}
    ∃ q, queueResponse c .fullReqReceived false false false 200 r = some q ∧
      SrcLegal r 4096 (.buffer [97, 98, 99, 100, 101]) ∧
      (sendReply c r q (.buffer [97, 98, 99, 100, 101]) none 4096 (startPosAfterQueue q r 0)).complete = true := by
  refine ⟨⟨200, false, false, false⟩, by decide, ⟨by decide, by decide⟩, by decide⟩

/-- An upgrade response never announces `close` and always leaves the connection in MUST_UPGRADE — also on a
    connection that was already marked MUST_CLOSE (request with ambiguous framing): `keepalive_possible` decides the
    upgrade first (fix F37; before it, `close, ` was put in front of the application's `Connection: Upgrade`). -/
theorem upgrade_reply_no_close (r0 : Resp) (cs : List Call)
    (h0 : (∃ size, r0 = Resp.create size) ∨ (∃ f, f.insanity = false ∧ r0 = Resp.createEmpty f) ∨ r0 = Resp.createUpgrade)
    (hl : ∀ c ∈ cs, c.Legal)
    (c : Conn) (st : CState) (allow : Bool) (code0 : Nat) (q : Queued) (src : BodySrc) (date : Option Bytes) (wb : Nat)
    (hq : queueResponse c st false false allow code0 (runCalls r0 cs) = some q)
    (hdate : ∀ d, date = some d → NoCRLF d) (hsz : (runCalls r0 cs).totalSize < 2 ^ 64)
    (hsrc : SrcLegal (runCalls r0 cs) wb src) (hwb : 128 ≤ wb)
    (hcomp : (sendReply c (runCalls r0 cs) q src date wb (startPosAfterQueue q (runCalls r0 cs) 0)).complete = true)
    (hup : (runCalls r0 cs).upgrade = true) :
    (sendReply c (runCalls r0 cs) q src date wb (startPosAfterQueue q (runCalls r0 cs) 0)).ka = .mustUpgrade ∧
    ∃ p, parseReply (reqOf c) (sendReply c (runCalls r0 cs) q src date wb (startPosAfterQueue q (runCalls r0 cs) 0)).wire = some p ∧
      announcesClose p.fields = false := by
  obtain ⟨p, hp, hiff, _⟩ := close_announced_iff r0 cs h0 hl c st allow code0 q src date wb hq hdate hsz hsrc hwb hcomp
  have hcode : q.code = 101 := (queue_facts c st allow code0 _ q hq).2.2.2.1 hup
  have hka : (setupReplyProperties c (runCalls r0 cs) q.code).1 = .mustUpgrade := by
    have hk : keepalivePossible c (runCalls r0 cs) = .mustUpgrade := by unfold keepalivePossible; simp [hup]
    unfold setupReplyProperties
    have hb : isReplyBodyNeeded c.mthd q.code = .none := by rw [hcode]; unfold isReplyBodyNeeded; simp
    simp [hk, hb]
  rw [sendReply_ka] at hiff ⊢
  refine ⟨hka, p, hp, ?_⟩
  cases hx : announcesClose p.fields with
  | false => rfl
  | true => have := hiff.1 hx; rw [hka] at this; cases this
/-- Non-vacuity: the 101 reply of an upgrade response on a connection that is already MUST_CLOSE. -/
example :
    let c : Conn := { keepalive := .mustClose }
    ∃ q, queueResponse c .fullReqReceived false false true 101 Resp.createUpgrade = some q ∧
      (sendReply c Resp.createUpgrade q (.buffer []) none 4096 (startPosAfterQueue q Resp.createUpgrade 0)).complete = true ∧
      (sendReply c Resp.createUpgrade q (.buffer []) none 4096 (startPosAfterQueue q Resp.createUpgrade 0)).ka = .mustUpgrade := by
  refine ⟨⟨101, false, true, false⟩, by decide, by decide, by decide⟩

/-- Error replies the daemon generates itself (`transmit_error_response_len`: 400 / 413 / 431 / 501 / 505 … and the 301
    redirect with its unchecked `Location` entry) go through the same reply builder.  Whenever such a reply is
    produced at all (otherwise the connection is closed without a byte): it is sent completely, is WellFramed, is
    never chunked, carries exactly the static message as body (nothing for HEAD), announces `Connection: close`, and
    the connection is left in MUST_CLOSE with `discard_request` set, i.e. the daemon closes after it — for every
    connection state, request method / version, status code, message, date option and buffer sizes. -/
theorem error_reply_framed_and_closes (c : Conn) (swe late shut : Bool) (code0 : Nat) (msg : Bytes)
    (hdr : Option (Bytes × Bytes)) (date : Option Bytes) (wb1 wb2 : Nat) (out : ReplyOut)
    (hh : ∀ n v, hdr = some (n, v) → ErrHdrOK n v) (hmsg : msg.length < sizeUnknown)
    (hdate : ∀ d, date = some d → NoCRLF d) (hwb1 : 128 ≤ wb1) (hwb2 : 128 ≤ wb2)
    (h : transmitErrorResponse c swe late shut code0 msg hdr date wb1 wb2 = .reply out) :
    out.complete = true ∧ WellFramed (reqOf c) out.wire ∧
    out.ka = .mustClose ∧ closesAfter { c with discardRequest := true } out.ka = true ∧
    ∃ p, parseReply (reqOf c) out.wire = some p ∧ announcesClose p.fields = true ∧
      p.body = (if NoBody c p.code then [] else msg) ∧
      (∀ n, p.framing = Framing.length n → n = msg.length) ∧ p.framing ≠ Framing.chunked := by
  obtain ⟨q, wb, hwbc, _, hq, rfl, hfit⟩ := transmitError_cases c swe late shut code0 msg hdr date wb1 wb2 out h
  have hlen : msg.length ≠ sizeUnknown := by omega
  have hwb : 128 ≤ wb := by rcases hwbc with rfl | rfl <;> assumption
  obtain ⟨cs, hl, hr⟩ := errorResponse_reachable msg.length hdr hh
  have h0 : (∃ size, Resp.create msg.length = Resp.create size) ∨
      (∃ f, f.insanity = false ∧ Resp.create msg.length = Resp.createEmpty f) ∨ Resp.create msg.length = Resp.createUpgrade :=
    Or.inl ⟨_, rfl⟩
  have hinv : Inv (errorResponse msg.length hdr) := by rw [hr]; exact calls_preserve_inv _ cs h0 hl
  have hct : Mhd.Tok.ConnTok (errorResponse msg.length hdr) := by rw [hr]; exact Mhd.Tok.reachable_connTok _ cs h0 hl
  obtain ⟨hts, hup⟩ := errorResponse_props msg.length hdr
  have hcomp := errorReply_complete _ msg hdr q date wb hlen hh hfit
  have hsz : (errorResponse msg.length hdr).totalSize < 2 ^ 64 := by
    rw [hts]; have : sizeUnknown < 2 ^ 64 := by decide
    omega
  have hsrc : SrcLegal (errorResponse msg.length hdr) wb (.buffer msg) := ⟨hts.symm, by rw [hts]; exact hlen⟩
  have hk := setup_mustClose { c with discardRequest := true, keepalive := .mustClose } (errorResponse msg.length hdr) q.code rfl
    (errorResponse_props msg.length hdr).2
  have hq2 : queueResponse { c with discardRequest := true, keepalive := .mustClose } .fullReqReceived false false false
      code0 (errorResponse msg.length hdr) = some q := hq
  have hp := Mhd.Reply.reply_parses { c with discardRequest := true, keepalive := .mustClose } _ .fullReqReceived false
    code0 q (.buffer msg) date wb hinv hq2 hdate hsz hsrc hwb hcomp
  have hnc := errorResponse_notChunked { c with discardRequest := true, keepalive := .mustClose } msg.length hdr q.code hlen hh
  have hp' : parseReply (reqOf c) (sendReply { c with discardRequest := true, keepalive := .mustClose }
      (errorResponse msg.length hdr) q (.buffer msg) date wb (startPosAfterQueue q (errorResponse msg.length hdr) 0)).wire
      = some _ := hp
  refine ⟨hcomp, ?_, ?_, ?_, _, hp', ?_, rfl, ?_, ?_⟩
  · unfold WellFramed; rw [hp']; rfl
  · rw [sendReply_ka]; exact hk
  · rw [sendReply_ka, hk]; rfl
  · exact (Mhd.Tok.announces_iff_mustClose _ _ date q.code hinv hct).2 hk
  · intro n hf
    simp only [expectedFraming, hnc, Bool.false_eq_true, if_false, hts] at hf
    split at hf
    · cases hf
    · first
      | (simp only [Framing.length.injEq] at hf; exact hf.symm)
      | (split at hf
         · simp only [Framing.length.injEq] at hf; exact hf.symm
         · cases hf)
  · simp only [expectedFraming, hnc, Bool.false_eq_true, if_false]
    split
    · intro hf; cases hf
    · split <;> (intro hf; cases hf)

/-- Non-vacuity: the 400 reply to a malformed request line of an HTTP/1.1 keep-alive client, and the 301
    redirect with the unchecked `Location` entry. -/
example :
    ∃ out, transmitErrorResponse {} false false false 400 [60, 104, 62] none none 4096 4096 = .reply out ∧
      out.ka = .mustClose := ⟨_, rfl, by decide⟩
example : ErrHdrOK [76, 111, 99, 97, 116, 105, 111, 110] [47, 97, 37, 50, 48, 98] :=
  ⟨by decide, by decide, by decide, by decide, by decide, by decide, by decide, by decide, by decide⟩

/-- `MHD_create_response_from_iovec`: for EVERY element array (zero-length elements at the beginning, in the middle,
    at the end, only zero-length elements, one or many non-empty elements, elements sharing memory, any NULL base on
    a zero-length element) in which each non-empty element points to `iov_len` readable bytes: if a response is
    created, its size is the sum of the element lengths and the body bytes the send path reads from it — through
    the single-buffer shortcut (`i_cp == 1`) or the compacted copy — are exactly the elements' bytes one after the
    other.  (With `total_size` known and this body as `BodySrc.buffer`, `one_body_delimitation` carries it to
    the wire.) -/
theorem iovec_body_is_concatenation (l : List Mhd.Iov.IoVec) (cnt : Nat) (r : Mhd.Iov.IovResp) (hl : Mhd.Iov.Legal l)
    (h : Mhd.Iov.createFromIovec (some l) cnt = some r) :
    Mhd.Iov.iovBody r.data = Mhd.Iov.concat l ∧ r.totalSize = (Mhd.Iov.concat l).length :=
  Mhd.Iov.body_is_concatenation l cnt r hl h

/-- Non-vacuity on the layout that needs `last_valid_buffer`: a zero-length element (pointing at foreign memory),
    a NULL zero-length element, then the only non-empty one, then another empty one — the shortcut is taken and
    the body is the non-empty element. -/
example :
    Mhd.Iov.createFromIovec (some [⟨some [35, 35, 35], 0⟩, ⟨none, 0⟩, ⟨some [97, 98, 99], 3⟩, ⟨some [36], 0⟩]) 4
      = some ⟨3, .single [97, 98, 99] 3⟩ := by decide
/-- … and two non-empty elements sharing memory around an empty one go through the compacted copy. -/
example :
    (Mhd.Iov.createFromIovec (some [⟨some [97, 98, 99], 2⟩, ⟨none, 0⟩, ⟨some [97, 98, 99], 3⟩]) 3).map
      (fun r => (r.totalSize, Mhd.Iov.iovBody r.data)) = some (5, [97, 98, 97, 98, 99]) := by decide

end Mhd.C04
