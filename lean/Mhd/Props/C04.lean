/-
  C04 — Every reply is a well-formed, self-consistently framed HTTP message.

  Statements only; the proofs are in `Mhd.Proofs.RespInv` (response object), `Mhd.Proofs.ReplyParse`
  (specification lemmas), `Mhd.Proofs.Reply{Head,Fields,Body,MainLemmas,Main,Extra}`.
  The specification `Mhd.Http.WellFramed` / `Mhd.Http.parseReply` is the strict response grammar of
  `Mhd.Proofs.ReplyGrammar` (nothing of the model is used there).

  Quantification: every theorem holds for EVERY response object reachable by a finite sequence of legal
  API calls (theorem `calls_preserve_inv` gives `Inv` for all of them), every connection state `c`
  (request method, HTTP version, Connection tokens of the request, read-closed / discard flags,
  previous keep-alive state, daemon date option), every status code accepted by `MHD_queue_response`,
  every body source that keeps the content contract (`SrcLegal`), every write-buffer size ≥ 128, every
  date string without CR/LF.  `complete = true` says that the header block fitted into the buffer and
  the body source ended regularly (otherwise the daemon aborts the connection instead of finishing
  the message).
-/
import Mhd.Proofs.ReplyExtra

namespace Mhd.C04
open Mhd.ReplyStr Mhd.Resp Mhd.Reply
open Mhd.Http (WellFramed parseReply Framing normField NoCRLF announcesClose managedName)
open Mhd.Gen.Reply (sizeUnknown)

/-- Every legal call of the response API (add / delete header, add footer, set options) keeps the
    representation invariant "`flags_auto` says exactly what the header list contains"
    (`Mhd.Resp.Inv`: a single leading Connection header iff HAS_CONNECTION_HDR, close flag ⇒ the value
    starts with the `close` token, exactly one Transfer-Encoding / Date / Content-Length header iff the
    respective flag, never both Transfer-Encoding and Content-Length, every stored name and value free
    of CR/LF, application Content-Length only on HEAD-only responses …) — for every response object
    satisfying it and every call with every argument.  This is the step that `flags_auto = …` (F4),
    the footer-blind delete (F4c) and the Date replacement (F4d) break in the unfixed code. -/
theorem call_preserves_inv (r : Resp) (c : Call) (h : Inv r) (hl : c.Legal) : Inv (applyCall r c).2 :=
  Mhd.Resp.applyCall_inv r c h hl

/-- … hence the invariant holds after EVERY finite sequence of calls, for every way of creating the
    response (any size / unknown size, empty with any flags except the insanity flag, upgrade). -/
theorem calls_preserve_inv (r0 : Resp) (cs : List Call)
    (h0 : (∃ size, r0 = Resp.create size) ∨ (∃ f, f.insanity = false ∧ r0 = Resp.createEmpty f) ∨ r0 = Resp.createUpgrade)
    (hl : ∀ c ∈ cs, c.Legal) : Inv (runCalls r0 cs) := by
  apply Mhd.Resp.runCalls_inv cs r0 _ hl
  rcases h0 with ⟨s, rfl⟩ | ⟨f, hf, rfl⟩ | rfl
  · exact Mhd.Resp.create_inv s
  · exact Mhd.Resp.createEmpty_inv f hf
  · exact Mhd.Resp.createUpgrade_inv

/-- Non-vacuity: the call sequence that breaks the unfixed code (F4: Transfer-Encoding, then Connection)
    is legal, and the resulting object carries both headers with both flags set. -/
example :
    let r := runCalls (Resp.create 5) [.add sTransferEncoding sChunked, .add sConnection [102, 111, 111]]
    r.fa.transEnc = true ∧ r.fa.connHdr = true ∧ r.hdrs.length = 2 := by decide

/-- A completely sent reply is a well-formed, self-consistently framed HTTP/1.x message. -/
theorem reply_wellFramed (c : Conn) (r : Resp) (st : CState) (allow : Bool) (code0 : Nat) (q : Queued) (src : BodySrc)
    (date : Option Bytes) (wb : Nat)
    (hinv : Inv r) (hq : queueResponse c st false false allow code0 r = some q)
    (hdate : ∀ d, date = some d → NoCRLF d) (hsz : r.totalSize < 2 ^ 64)
    (hsrc : SrcLegal r wb src) (hwb : 128 ≤ wb)
    (hcomp : (sendReply c r q src date wb (startPosAfterQueue q r 0)).complete = true) :
    WellFramed (reqOf c) (sendReply c r q src date wb (startPosAfterQueue q r 0)).wire := by
  unfold WellFramed
  rw [Mhd.Reply.reply_parses c r st allow code0 q src date wb hinv hq hdate hsz hsrc hwb hcomp]
  rfl

/-- What the strict parser finds in it: the status code that was queued; exactly one body delimitation —
    none for HEAD / 1xx / 204 / 304, chunked (only possible towards an HTTP/1.1 client), Content-Length equal
    to the size of the response, or close-delimited —; the body is byte for byte what the application
    supplied (nothing for HEAD / 1xx / 204 / 304); the trailers are the footers of the response. -/
theorem one_body_delimitation (c : Conn) (r : Resp) (st : CState) (allow : Bool) (code0 : Nat) (q : Queued) (src : BodySrc)
    (date : Option Bytes) (wb : Nat)
    (hinv : Inv r) (hq : queueResponse c st false false allow code0 r = some q)
    (hdate : ∀ d, date = some d → NoCRLF d) (hsz : r.totalSize < 2 ^ 64)
    (hsrc : SrcLegal r wb src) (hwb : 128 ≤ wb)
    (hcomp : (sendReply c r q src date wb (startPosAfterQueue q r 0)).complete = true) :
    ∃ p, parseReply (reqOf c) (sendReply c r q src date wb (startPosAfterQueue q r 0)).wire = some p ∧
      p.code = q.code ∧
      p.framing = (if NoBody c q.code then Framing.none
                   else if (setupReplyProperties c r q.code).2.chunked then Framing.chunked
                   else if r.totalSize ≠ sizeUnknown then Framing.length r.totalSize else Framing.close) ∧
      p.body = (if NoBody c q.code then [] else appBody src) ∧
      (p.framing = Framing.chunked → ver11Compat c.ver = true) ∧
      (∀ n, p.framing = Framing.length n → p.body.length = n) := by
  refine ⟨_, Mhd.Reply.reply_parses c r st allow code0 q src date wb hinv hq hdate hsz hsrc hwb hcomp, rfl, rfl, rfl, ?_, ?_⟩
  · intro hf
    simp only [expectedFraming] at hf
    split at hf
    · cases hf
    · split at hf
      · rename_i hch
        exact ((setup_props c r q.code).2.2.1 hch).2.1
      · split at hf <;> cases hf
  · intro n hf
    simp only [expectedFraming] at hf
    split at hf
    · cases hf
    · rename_i hnb
      split at hf
      · cases hf
      · split at hf
        · rename_i hkn
          simp only [hnb, if_false]
          injection hf with hf
          subst hf
          cases src with
          | buffer data => exact hsrc.1
          | callback pieces ending =>
            have := hsrc.2.2.1 hkn
            simpa [appBody, sumLen] using this
        · cases hf

/-- No body byte follows the header block of a reply to HEAD or with status 1xx / 204 / 304. -/
theorem no_body_when_forbidden (c : Conn) (r : Resp) (st : CState) (allow : Bool) (code0 : Nat) (q : Queued) (src : BodySrc)
    (date : Option Bytes) (wb : Nat)
    (hq : queueResponse c st false false allow code0 r = some q) (hnb : NoBody c q.code) (h : Bytes)
    (hh : (buildHeaderResponse c r q.code q.icy date wb).2.2 = some h) :
    (sendReply c r q src date wb (startPosAfterQueue q r 0)).wire = h := by
  have hns : (setupReplyProperties c r q.code).2.sendReplyBody = false := by
    rw [(setup_props c r q.code).2.1]; exact (noBody_iff c q.code).2 hnb
  obtain ⟨_, e2, _⟩ := buildHeader_eq c r q.code q.icy date wb h hh
  unfold sendReply
  rcases hx : buildHeaderResponse c r q.code q.icy date wb with ⟨ka, props, hdr⟩
  rw [hx] at hh e2
  simp only at hh e2
  subst hh
  simp only
  split
  · rfl
  · rw [e2, hns]; rfl

/-- Application header fields other than Connection, Content-Length, Transfer-Encoding and Date appear in the
    parsed reply verbatim (the value as stored, leading whitespace aside), exactly once each, in insertion order. -/
theorem user_headers_verbatim (c : Conn) (r : Resp) (st : CState) (allow : Bool) (code0 : Nat) (q : Queued) (src : BodySrc)
    (date : Option Bytes) (wb : Nat)
    (hinv : Inv r) (hq : queueResponse c st false false allow code0 r = some q)
    (hdate : ∀ d, date = some d → NoCRLF d) (hsz : r.totalSize < 2 ^ 64)
    (hsrc : SrcLegal r wb src) (hwb : 128 ≤ wb)
    (hcomp : (sendReply c r q src date wb (startPosAfterQueue q r 0)).complete = true) :
    ∃ p, parseReply (reqOf c) (sendReply c r q src date wb (startPosAfterQueue q r 0)).wire = some p ∧
      p.fields.filter (fun f => ! managedName f.name) = ((userHdrs r.hdrs).map toHttp).map normField := by
  refine ⟨_, Mhd.Reply.reply_parses c r st allow code0 q src date wb hinv hq hdate hsz hsrc hwb hcomp, ?_⟩
  simp only
  rw [parsed_unmanaged, allFields_unmanaged c r date _ _ hinv]

/-- Whenever the daemon is going to close the connection after the reply (`connection_reset` with
    `reuse = false`), the reply carries `Connection: close`. -/
theorem close_announced (c : Conn) (r : Resp) (st : CState) (allow : Bool) (code0 : Nat) (q : Queued) (src : BodySrc)
    (date : Option Bytes) (wb : Nat)
    (hinv : Inv r) (hq : queueResponse c st false false allow code0 r = some q)
    (hdate : ∀ d, date = some d → NoCRLF d) (hsz : r.totalSize < 2 ^ 64)
    (hsrc : SrcLegal r wb src) (hwb : 128 ≤ wb) (hup : r.upgrade = false)
    (hcomp : (sendReply c r q src date wb (startPosAfterQueue q r 0)).complete = true)
    (hcl : closesAfter c (setupReplyProperties c r q.code).1 = true) :
    ∃ p, parseReply (reqOf c) (sendReply c r q src date wb (startPosAfterQueue q r 0)).wire = some p ∧
      announcesClose p.fields = true := by
  refine ⟨_, Mhd.Reply.reply_parses c r st allow code0 q src date wb hinv hq hdate hsz hsrc hwb hcomp, ?_⟩
  exact close_in_fields c r date _ _ hinv ((closesAfter_iff c r q.code hup).1 hcl)

/-
  The converse — "a reply that carries `Connection: close` is followed by the daemon closing the
  connection" — is NOT proved here.  It needs one more clause of the invariant:
      r.fa.connClose = false → the stored Connection value has no `close` token (for the grammar's tokenizer),
  whose preservation is a statement about the two token editors `MHD_str_remove_token_caseless_` /
  `MHD_str_remove_tokens_caseless_` relative to the grammar's tokenizer.  With that clause as a hypothesis the
  proof is the mirror image of `close_announced`; the correspondence run checks the equivalence on
  every explored exchange and call sequence (oracle: close ⇔ `Connection: close`, flags_auto ⇔ list).
-/

/-- `100 Continue` is sent only to an HTTP/1.1 client that asked for it while the body is still awaited. -/
theorem continue_only_when_asked (ver : Ver) (remaining : Nat) (expect : Option Bytes)
    (h : need100Continue ver remaining expect = true) :
    ver11Compat ver = true ∧ remaining ≠ 0 ∧ ∃ e, expect = some e ∧ strEqCaseless e s100Continue = true := by
  unfold need100Continue at h
  split at h
  · cases h
  · rename_i hv
    split at h
    · cases h
    · rename_i hr
      cases expect with
      | none => cases h
      | some e =>
        refine ⟨by simpa using hv, by simpa using hr, e, rfl, h⟩

/-- Non-vacuity of the reply theorems: a response with a forced `Transfer-Encoding: chunked` and an extra
    Connection token (the F4 sequence), a footer, queued with 200 for a GET HTTP/1.1 request, 5 body bytes. -/
example :
    let r := runCalls (Resp.create 5)
      [.add sTransferEncoding sChunked, .add sConnection [102, 111, 111], .add [88, 45, 65] [118], .foot [88, 45, 84] [116]]
    let c : Conn := {}
    ∃ q, queueResponse c .fullReqReceived false false false 200 r = some q ∧
      SrcLegal r 4096 (.buffer [97, 98, 99, 100, 101]) ∧
      (sendReply c r q (.buffer [97, 98, 99, 100, 101]) none 4096 (startPosAfterQueue q r 0)).complete = true := by
  refine ⟨⟨200, false, false, false⟩, by decide, ⟨by decide, by decide⟩, by decide⟩

end Mhd.C04
