/-
  C04 — Every reply is a well-formed, self-consistently framed HTTP message.

  Statements only; the proofs are in `Mhd.Proofs.RespInv` (response object), `Mhd.Proofs.ReplyParse`,
  `Mhd.Proofs.ReplyHead` and `Mhd.Proofs.ReplyMain`.  The specification `Mhd.Http.WellFramed` is the
  strict response grammar of `Mhd.Proofs.ReplyGrammar`.
-/
import Mhd.Proofs.RespInv

namespace Mhd.C04
open Mhd.ReplyStr Mhd.Resp

/-- Every legal call of the response API (add / delete header, add footer, set options) keeps the
    representation invariant "`flags_auto` says exactly what the header list contains"
    (`Mhd.Resp.Inv`: one leading Connection header iff HAS_CONNECTION_HDR, close flag ⇒ the value starts
    with the `close` token, exactly one Transfer-Encoding/Date/Content-Length header iff the respective
    flag, never both Transfer-Encoding and Content-Length, every stored name and value free of CR/LF …)
    — for every response object satisfying it, every call with every argument. -/
theorem call_preserves_inv (r : Resp) (c : Call) (h : Inv r) (hl : c.Legal) : Inv (applyCall r c).2 :=
  Mhd.Resp.applyCall_inv r c h hl

/-- … hence the invariant holds after EVERY finite sequence of calls, for every way of creating the
    response (any size / unknown size, empty with any flags except the insanity flag, upgrade). -/
theorem calls_preserve_inv (r0 : Resp) (cs : List Call)
    (h0 : (∃ size, r0 = Resp.create size) ∨ (∃ f, f.insanity = false ∧ r0 = Resp.createEmpty f) ∨ r0 = Resp.createUpgrade)
    (hl : ∀ c ∈ cs, c.Legal) : Inv (runCalls r0 cs) := by
  apply Mhd.Resp.runCalls_inv cs r0 _ hl
  rcases h0 with ⟨s, rfl⟩ | ⟨f, hf, rfl⟩ | rfl
  · exact Mhd.Resp.create_inv s
  · exact Mhd.Resp.createEmpty_inv f hf
  · exact Mhd.Resp.createUpgrade_inv

/-- Non-vacuity: the call sequence that breaks the unfixed code (F4: Transfer-Encoding, then Connection)
    is legal, and the resulting object carries both headers with both flags set. -/
example :
    let r := runCalls (Resp.create 5) [.add sTransferEncoding sChunked, .add sConnection [102, 111, 111]]
    r.fa.transEnc = true ∧ r.fa.connHdr = true ∧ r.hdrs.length = 2 := by decide

end Mhd.C04
