/-
  C13 — Digest nonces: issued-only, expiring, each nonce count usable once.

  Object: the executable model `Mhd.Nonce` (lean/Mhd/Model/Nonce.lean) of
  check_nonce_nc, is_slot_available, calculate_add_nonce (table part),
  get_nonce_timestamp, fast_simple_hash and the nonce / nonce-count vetting
  sequence of digest_auth_check_all(_inner) in src/microhttpd/digestauth.c.

  Quantification.  `size` is the table size (`daemon->nonce_nc_size`, any
  natural number including 0), `ops` any list of operations of any length
    add ts nonce          — calculate_add_nonce produced `nonce` at time `ts`
    check nonce time nc   — check_nonce_nc
    present now timeout max_nc stdlen nonce nc — MHD_digest_auth_check3's vetting
  with arbitrary arguments.  The only hypothesis on `ops` is `Op.Wf`: a
  *registered* nonce is non-empty and has no NUL byte (the daemon makes them
  with MHD_bin_to_hex), and `stdlen` is one of the two NONCE_STD_LEN values.
  Presented nonces are arbitrary byte strings; clauses that identify a presented
  nonce with a registered one ask it to be NUL-free (`NoNul`) — an HTTP field
  value cannot contain NUL.

  Concurrency.  In the C code every access to the table happens between
  `MHD_mutex_lock_chk_ (&daemon->nnc_lock)` and the matching unlock, in
  check_nonce_nc and in calculate_add_nonce; one model step is one such
  critical section.  The theorems are over *arbitrary sequences* of steps,
  which therefore covers every interleaving of concurrent presentations and
  registrations; that every access to the table is really made under the lock
  is the theorem `nonce_table_accessed_only_under_lock` over the lock table
  regenerated from the clang AST at every run.

  Generation.  The registered nonces are tied to the code that makes them:
  section "nonce generation" composes `Mhd.Dauth.calcNonce` (calculate_nonce at
  the byte level, hash = C16's specification) and `Mhd.NonceGen.calcAddNonce
  (Retry)` with the runs of this file (`generation_is_run_step`,
  `generated_nonce_wellformed`, `generated_then_verified`, `bound_*`,
  `nonce_length_matches_algorithm`, `retry_*`).

  The history of a run is kept most-recent-first; its abstract view is
    lastAdd  size h i   the nonce registered last in slot i
    usedSince size h i  the list (set) of counts accepted in slot i since then
    okCount h n c / addCount h n   how often (n, c) was accepted / n registered.
  Statements only; proofs are in `Mhd.Proofs.Nonce` and `Mhd.Proofs.NonceInv`.
-/
import Mhd.Proofs.NoncePolicy
import Mhd.Proofs.NonceGen
import Mhd.Model.Locks

namespace Mhd.C13
open Mhd.Nonce Mhd.Gen.Nonce

/-! ## the (nc, nmask) window refines a set of used counts -/

/-- Refinement step.  If `(nc, nmask)` represents the set `used` (`WInv`: 0 and
    the highest count are used, nothing above the highest is, bit `i` of the mask
    says whether `nc - 1 - i` is used), then after presenting any count `c < 2^32`
    it represents `used ∪ {c}` if `c` was accepted and `used` otherwise. -/
theorem window_refines (w : Win) (used : Nat → Prop) (c : Nat) (hi : WInv w used)
    (hc : c < W32) (hw : w.nc < W32) :
    WInv (windowStep w c).1 (fun n => used n ∨ ((windowStep w c).2 = true ∧ n = c)) :=
  Mhd.Nonce.window_refines w used c hi hc hw

/-- … and `c` is accepted exactly when it has not been used and is at most 64
    behind the highest count used (jumps forward of any size are accepted:
    for `c` above the highest both conditions are automatic). -/
theorem window_exact (w : Win) (used : Nat → Prop) (c : Nat) (hi : WInv w used)
    (hc : c < W32) (hw : w.nc < W32) :
    (windowStep w c).2 = true ↔ (¬ used c ∧ w.nc ≤ c + 64) :=
  Mhd.Nonce.window_ok_iff w used c hi hc hw

/-- Non-vacuity, and the jumps of exactly 63 / 64 / 65 / 66: starting from the
    window after counts {0, 1}, jump to 1 + j; count 2 is then still inside the
    window for j = 63, 64, 65 and outside for j = 66. -/
example : WInv ⟨1, 1#64⟩ (fun c => c = 0 ∨ c = 1) := by
  refine ⟨Or.inl rfl, Or.inr rfl, ?_, ?_⟩
  · intro n hn; show n ≤ 1; omega
  · intro i hi
    show (1#64).getLsbD i = true ↔ i < 1 ∧ (1 - 1 - i = 0 ∨ 1 - 1 - i = 1)
    rw [BitVec.getLsbD_one]
    simp
example : ((windowStep (windowStep ⟨1, 1#64⟩ 64).1 2).2, (windowStep (windowStep ⟨1, 1#64⟩ 65).1 2).2,
           (windowStep (windowStep ⟨1, 1#64⟩ 66).1 2).2, (windowStep (windowStep ⟨1, 1#64⟩ 67).1 2).2)
    = (true, true, true, false) := by decide

/-! ## every sequence of operations -/

/-- Refinement of whole runs: after any sequence of operations on a table of
    any size, every slot holds the nonce registered last in it (followed by the
    terminating NUL; first byte NUL if nothing was ever registered), its `nc` fits
    32 bits, and its (nc, nmask) pair represents {0} ∪ the counts accepted since
    that registration. -/
theorem run_refines (size : Nat) (ops : List Op) (hwf : ∀ o ∈ ops, o.Wf) :
    TblRel size (run size ops).1 (run size ops).2 :=
  run_rel size ops hwf

/-- Each count authenticates at most once per registration of the nonce: in any
    run, `(n, c)` is accepted at most as many times as `n` was registered. -/
theorem at_most_once (size : Nat) (ops : List Op) (hwf : ∀ o ∈ ops, o.Wf)
    (n : Bytes) (hn : NoNul n) (hne : n ≠ []) (c : Nat) :
    okCount (run size ops).2 n c ≤ addCount (run size ops).2 n :=
  (run_cnt size ops hwf n hn hne c).1

/-- … in particular at most once for a nonce issued once. -/
theorem at_most_once_single (size : Nat) (ops : List Op) (hwf : ∀ o ∈ ops, o.Wf)
    (n : Bytes) (hn : NoNul n) (hne : n ≠ []) (c : Nat) (h1 : addCount (run size ops).2 n ≤ 1) :
    okCount (run size ops).2 n c ≤ 1 :=
  Nat.le_trans (at_most_once size ops hwf n hn hne c) h1

/-- A nonce the daemon never registered is never accepted, with any count. -/
theorem never_issued (size : Nat) (ops : List Op) (hwf : ∀ o ∈ ops, o.Wf)
    (n : Bytes) (hn : NoNul n) (hne : n ≠ []) (c : Nat) (h0 : addCount (run size ops).2 n = 0) :
    okCount (run size ops).2 n c = 0 :=
  Nat.eq_zero_of_le_zero (h0 ▸ at_most_once size ops hwf n hn hne c)

/-- Soundness of an acceptance, at any point of any run: if the next
    presentation `o` (through check_nonce_nc or through the whole vetting
    sequence) is accepted, then its count is non-zero, below the guard
    `UINT32_MAX - 64`, was not accepted before since the registration, is at most
    64 behind every count accepted since — and the nonce is the one registered
    last in its slot: a nonce that was evicted (its slot re-used for another
    nonce) or never registered is not accepted. -/
theorem accepted_counts_bounded (size : Nat) (ops : List Op) (hwf : ∀ o ∈ ops, o.Wf) (o : Op)
    (hadd : o.isAdd = false) (hok : (step (run size ops).1 o).2 = .ok) :
    o.count ≠ 0 ∧ o.count < ncGuard ∧
    o.count ∉ usedSince size (run size ops).2 (slotIdx size o.nonce) ∧
    (∀ u ∈ usedSince size (run size ops).2 (slotIdx size o.nonce), u ≤ o.count + 64) ∧
    (NoNul o.nonce → o.nonce ≠ [] → lastAdd size (run size ops).2 (slotIdx size o.nonce) = some o.nonce) :=
  ok_facts size _ _ o (run_rel size ops hwf) hadd hok

/-- The same as a statement about eviction: if the nonce registered last in the
    slot of `n` is not `n`, no presentation of `n` is accepted. -/
theorem ok_only_if_registered_last (size : Nat) (ops : List Op) (hwf : ∀ o ∈ ops, o.Wf) (o : Op)
    (hadd : o.isAdd = false) (hn : NoNul o.nonce) (hne : o.nonce ≠ [])
    (hev : lastAdd size (run size ops).2 (slotIdx size o.nonce) ≠ some o.nonce) :
    (step (run size ops).1 o).2 ≠ .ok :=
  fun hok => hev ((accepted_counts_bounded size ops hwf o hadd hok).2.2.2.2 hn hne)

/-- Window completeness, at any point of any run: if `n` is the nonce registered
    last in its slot, then every count that is non-zero, below the guard, not yet
    accepted and at most 64 behind every count accepted so far IS accepted by
    check_nonce_nc (whatever `nonce_time` is passed). -/
theorem window_complete (size : Nat) (ops : List Op) (hwf : ∀ o ∈ ops, o.Wf) (n : Bytes) (t c : Nat)
    (hla : lastAdd size (run size ops).2 (slotIdx size n) = some n)
    (hc0 : c ≠ 0) (hcg : c < ncGuard)
    (hnew : c ∉ usedSince size (run size ops).2 (slotIdx size n))
    (hwin : ∀ u ∈ usedSince size (run size ops).2 (slotIdx size n), u ≤ c + 64) :
    (step (run size ops).1 (.check n t c)).2 = .ok := by
  have := complete_of_rel size _ _ n t c (run_rel size ops hwf) hla hc0 hcg hnew hwin
  simp [step, this, Out.ofNc]

/-- … and by the whole vetting sequence, if in addition the count does not
    exceed `max_nc` (0 = the daemon default) and the nonce is not older than
    `nonce_timeout` (0 = the daemon default). -/
theorem window_complete_present (size : Nat) (ops : List Op) (hwf : ∀ o ∈ ops, o.Wf)
    (now tmo mx : Nat) (n : Bytes) (t c : Nat)
    (hla : lastAdd size (run size ops).2 (slotIdx size n) = some n)
    (hc0 : c ≠ 0) (hcg : c < ncGuard)
    (hnew : c ∉ usedSince size (run size ops).2 (slotIdx size n))
    (hwin : ∀ u ∈ usedSince size (run size ops).2 (slotIdx size n), u ≤ c + 64)
    (hmx : c ≤ (if mx = 0 then defMaxNc else mx))
    (ht : getNonceTimestamp n n.length = .ts t)
    (hexp : trim (sub64 now t) ≤ ((if tmo = 0 then defTimeout else tmo) * 1000) % 2 ^ timeoutBits) :
    (step (run size ops).1 (.present now tmo mx n.length n c)).2 = .ok := by
  have := complete_of_rel size _ _ n t c (run_rel size ops hwf) hla hc0 hcg hnew hwin
  simp [step, present_live _ now tmo mx n c t hc0 hmx ht hexp, this, Out.ofNc]

/-! ## expiry and the configured maximum -/

/-- A (well-formed) nonce older than the configured lifetime is reported stale,
    whatever the table contains, and the table is not touched.  `nonce_timeout`
    is multiplied by 1000 as `unsigned int`, as in the C code. -/
theorem expired_is_stale (tbl : Table) (now tmo mx : Nat) (n : Bytes) (c t : Nat)
    (hc : c ≠ 0) (hmx : c ≤ (if mx = 0 then defMaxNc else mx))
    (ht : getNonceTimestamp n n.length = .ts t)
    (hexp : trim (sub64 now t) > ((if tmo = 0 then defTimeout else tmo) * 1000) % 2 ^ timeoutBits) :
    present tbl now tmo mx n.length n c = (tbl, .stale) :=
  present_expired tbl now tmo mx n c t hc (by omega) ht hexp

/-- A count above the configured maximum is reported stale (table untouched);
    counts at or above `UINT32_MAX - 64` are never accepted
    (`accepted_counts_bounded`). -/
theorem above_max_nc_is_stale (tbl : Table) (now tmo mx sl : Nat) (n : Bytes) (c : Nat)
    (hc : c ≠ 0) (hmx : (if mx = 0 then defMaxNc else mx) < c) :
    present tbl now tmo mx sl n c = (tbl, .stale) :=
  present_above_max tbl now tmo mx sl n c hc hmx


/-! ## stale or wrong — the classification of a nonce that is not in its slot, as the code defines it -/

/-- The slot of the presented nonce `n` holds another issued nonce of the same
    length, made for time `tm`; `t` is the time `n` carries.  With
    `d = (t - tm) mod 2^48`: `stale` if `d ≤ REUSE_TIMEOUT·1000` ("may not have been
    placed in the slot because another nonce had not expired"), `stale` if
    `d ≤ (2^48-1)/2`, else `wrong`; the table is not touched.  (So, as the code
    stands: a presented nonce *not older* than the one in the slot is stale, an
    *older* one — e.g. one evicted by a newer nonce — is reported wrong; the
    comments in check_nonce_nc describe the opposite intent for the last two
    cases.  The property only requires "never accepted", see
    `ok_only_if_registered_last`.) -/
theorem evicted_classification (size : Nat) (ops : List Op) (hwf : ∀ o ∈ ops, o.Wf)
    (hm : Bytes) (tm : Nat) (n : Bytes) (t c : Nat)
    (hla : lastAdd size (run size ops).2 (slotIdx size n) = some (mkNonce hm tm))
    (hstd : (mkNonce hm tm).length = stdLenMd5 ∨ (mkNonce hm tm).length = stdLenSha)
    (hlen : n.length = (mkNonce hm tm).length) (hne : n ≠ mkNonce hm tm) (hc : c < ncGuard) :
    step (run size ops).1 (.check n t c) =
      ((run size ops).1,
       if reuseTimeout * 1000 ≥ trim (sub64 t (trim tm)) then .stale
       else if trim (W64 - 1) / 2 ≥ trim (sub64 t (trim tm)) then .stale else .wrong) := by
  have hr := run_rel size ops hwf
  obtain ⟨nn, hnn, _, _, hl, _, _, hh, _⟩ := slot_of_lastAdd size _ _ _ _ hr hla
  obtain ⟨k1, k2, _⟩ := hh _ rfl
  obtain ⟨c1, c2⟩ := classify_same_length nn hm tm n t k1 k2 hstd hlen hne
  have hlen' : n.length ≤ maxNonceLen := by
    rw [hlen]; rcases hstd with h | h <;> rw [h] <;> simp [stdLenMd5, stdLenSha, maxNonceLen]
  have hnn : (run size ops).1[slotIdx (run size ops).1.length n]? = some nn := by rw [hr.1]; exact hnn
  simp only [step, check_mismatch _ n t c nn hlen' hc hnn c1, c2]
  split
  · rfl
  · split <;> rfl

/-- Nothing was ever registered in the slot of `n`: `wrong`. -/
theorem never_registered_slot_is_wrong (size : Nat) (ops : List Op) (hwf : ∀ o ∈ ops, o.Wf)
    (n : Bytes) (t c : Nat) (hsz : 0 < size)
    (hla : lastAdd size (run size ops).2 (slotIdx size n) = none)
    (hn : NoNul n) (hne : n ≠ []) (hlen : n.length ≤ maxNonceLen) (hc : c < ncGuard) :
    step (run size ops).1 (.check n t c) = ((run size ops).1, .wrong) := by
  have hr := run_rel size ops hwf
  obtain ⟨nn, hnn, _, _, hl, _, h0, _, _⟩ := slot_of_lt size _ _ (slotIdx size n) hr (Nat.mod_lt _ hsz)
  have hm : slotMatches nn n = some false := by
    cases hmm : slotMatches nn n with
    | none =>
      exfalso
      unfold slotMatches at hmm
      obtain ⟨z, hz⟩ := getElem?_some_of_lt nn.nonce n.length (by simp only [nonceBufSize, maxNonceLen] at *; omega)
      rw [hz] at hmm; cases hmm
    | some b =>
      cases b with
      | false => rfl
      | true => exact (not_matches_empty nn n (h0 hla) hn hne hmm).elim
  have hnn : (run size ops).1[slotIdx (run size ops).1.length n]? = some nn := by rw [hr.1]; exact hnn
  simp only [step, check_mismatch _ n t c nn hlen hc hnn hm, classify_empty nn n t (h0 hla) hl hlen, Out.ofNc]

/-! ## the registration policy (is_slot_available / calculate_add_nonce) -/

/-- When calculate_add_nonce has made the nonce `n` at time `ts`, at any point of
    any run (table size > 0):
    * nothing registered in its slot yet → registered;
    * `n` itself is registered there → refused (it would clear the usage history);
    * another nonce is there (and `n` is not a prefix of it) and at least one count
      of it has been accepted → registered (the old nonce is evicted);
    * another issued nonce, made for time `tm`, is there, unused → registered iff
      it is older than REUSE_TIMEOUT: `(ts - tm) mod 2^48 > REUSE_TIMEOUT·1000`. -/
theorem registration_policy (size : Nat) (ops : List Op) (hwf : ∀ o ∈ ops, o.Wf)
    (ts : Nat) (n : Bytes) (hsz : 0 < size) (hn : NoNul n) (hne : n ≠ []) (hlen : n.length ≤ maxNonceLen) :
    (lastAdd size (run size ops).2 (slotIdx size n) = none →
       (step (run size ops).1 (.add ts n)).2 = .added) ∧
    (lastAdd size (run size ops).2 (slotIdx size n) = some n →
       (step (run size ops).1 (.add ts n)).2 = .refused) ∧
    (∀ m, lastAdd size (run size ops).2 (slotIdx size n) = some m → ¬ n <+: m →
       usedSince size (run size ops).2 (slotIdx size n) ≠ [] →
       (step (run size ops).1 (.add ts n)).2 = .added) ∧
    (∀ hm tm, lastAdd size (run size ops).2 (slotIdx size n) = some (mkNonce hm tm) →
       ((mkNonce hm tm).length = stdLenMd5 ∨ (mkNonce hm tm).length = stdLenSha) → ¬ n <+: mkNonce hm tm →
       usedSince size (run size ops).2 (slotIdx size n) = [] →
       (step (run size ops).1 (.add ts n)).2 =
         (if reuseTimeout * 1000 < trim (sub64 ts (trim tm)) then .added else .refused)) := by
  have hr := run_rel size ops hwf
  obtain ⟨nn, hnn, hlast, hnz, hl, _, h0, hh, hw⟩ := slot_of_lt size _ _ (slotIdx size n) hr (Nat.mod_lt _ hsz)
  have hnn : (run size ops).1[slotIdx (run size ops).1.length n]? = some nn := by rw [hr.1]; exact hnn
  have hfit : n.length + 1 ≤ nn.nonce.length := by simp only [nonceBufSize, maxNonceLen] at *; omega
  have hstep : ∀ b, isSlotAvailable nn ts n = some b →
      (step (run size ops).1 (.add ts n)).2 = (if b then .added else .refused) := by
    intro b hb
    have := add_result _ ts n nn b hnn hfit hb
    show Out.ofAdd (addNonce (run size ops).1 ts n).2 = _
    rw [this]
    cases b <;> rfl
  refine ⟨?_, ?_, ?_, ?_⟩
  · intro hla
    exact hstep true (avail_empty nn ts n (h0 hla))
  · intro hla
    exact hstep false (avail_same nn ts n (hh n hla).1 hn hne)
  · intro m hla hp hus
    obtain ⟨k1, k2, k3⟩ := hh m hla
    have hdiff : nn.nonce.take n.length ≠ n := by
      obtain ⟨rest, hrest⟩ := k1
      rw [hrest]; exact take_ne_of_not_prefix m rest n hn hp
    have hnc : nn.nc ≠ 0 := by
      cases hu : usedSince size (run size ops).2 (slotIdx size n) with
      | nil => exact (hus hu).elim
      | cons u us =>
        have hu0 : u ≠ 0 := hnz u (by rw [hu]; exact List.mem_cons_self)
        have hle : u ≤ nn.nc := hw.2.2.1 u (Or.inr (by rw [hu]; exact List.mem_cons_self))
        omega
    exact hstep true (avail_used nn ts m n k1 k2 k3 hl hlen hdiff hnc)
  · intro hm tm hla hstd hp hus
    obtain ⟨k1, k2, k3⟩ := hh _ hla
    have hdiff : nn.nonce.take n.length ≠ n := by
      obtain ⟨rest, hrest⟩ := k1
      rw [hrest]; exact take_ne_of_not_prefix _ rest n hn hp
    have hnc : nn.nc = 0 := by
      have h1 : nn.nc = 0 ∨ nn.nc ∈ usedSince size (run size ops).2 (slotIdx size n) := hw.2.1
      rw [hus] at h1
      rcases h1 with h1 | h1
      · exact h1
      · cases h1
    rw [hstep _ (avail_unused nn ts hm tm n k1 k2 hstd hl hlast hlen hdiff hnc)]
    by_cases hd : reuseTimeout * 1000 < trim (sub64 ts (trim tm))
    · rw [if_pos hd, decide_eq_true hd]; rfl
    · rw [if_neg hd, decide_eq_false hd]; rfl

/-! ## the embedded time stamp, memory safety -/

/-- get_nonce_timestamp reads back from a nonce made by calculate_nonce (hex hash
    followed by the 12 hex digits of the time; whatever follows in the buffer)
    the time it was made for, trimmed to 48 bits. -/
theorem issued_nonce_timestamp (hashHex rest : Bytes) (ts : Nat)
    (hl : (mkNonce hashHex ts).length = stdLenMd5 ∨ (mkNonce hashHex ts).length = stdLenSha) :
    getNonceTimestamp (mkNonce hashHex ts ++ rest) (mkNonce hashHex ts).length = .ts (trim ts) :=
  getNonceTimestamp_mkNonce hashHex rest ts hl

/-- No step of any run reads outside the presented nonce or a slot buffer: the
    checked accessors of the model never report `fault` (registered nonces at most
    MAX_DIGEST_NONCE_LENGTH long, presented ones arbitrary). -/
theorem no_fault (size : Nat) (ops : List Op) (hwf : ∀ o ∈ ops, o.Wf) :
    ∀ e ∈ (run size ops).2, e.out ≠ .fault :=
  runH_no_fault size ops _ _ (tblRel_init size) (by intro e he; cases he) hwf


/-! ## non-vacuity: concrete runs satisfying the hypotheses above
    (`decide +kernel` here evaluates closed terms; these are instances, not the proofs) -/

def exH (b : UInt8) : Bytes := List.replicate 32 b
/-- a 44-character nonce made at t = 1000 -/
def exA : Bytes := mkNonce (exH 97) 1000
/-- another one made at t = 1005 -/
def exB : Bytes := mkNonce (exH 98) 1005
/-- register A, use count 1, then jump forward by `j` -/
def exOps (j : Nat) : List Op := [.add 1000 exA, .check exA 1000 1, .check exA 1000 (1 + j)]
/-- register A, use it, B evicts it (1-slot table) -/
def exEvict : List Op := [.add 1000 exA, .check exA 1000 1, .add 1005 exB]

theorem exA_ok : NoNul exA ∧ exA ≠ [] ∧ exA.length ≤ maxNonceLen :=
  ⟨by show ∀ b ∈ exA, b ≠ 0; decide, by decide, by decide⟩
theorem exB_ok : NoNul exB ∧ exB ≠ [] ∧ exB.length ≤ maxNonceLen :=
  ⟨by show ∀ b ∈ exB, b ≠ 0; decide, by decide, by decide⟩

theorem exOps_wf (j : Nat) : ∀ o ∈ exOps j, o.Wf := by
  intro o ho
  simp only [exOps, List.mem_cons, List.not_mem_nil, or_false] at ho
  rcases ho with rfl | rfl | rfl
  · exact exA_ok
  · trivial
  · trivial

theorem exEvict_wf : ∀ o ∈ exEvict, o.Wf := by
  intro o ho
  simp only [exEvict, List.mem_cons, List.not_mem_nil, or_false] at ho
  rcases ho with rfl | rfl | rfl
  · exact exA_ok
  · trivial
  · exact exB_ok

/-- jumps of exactly 63, 64 and 65: count 2 is still inside the window and is accepted -/
example : (step (run 1 (exOps 63)).1 (.check exA 1000 2)).2 = .ok :=
  window_complete 1 (exOps 63) (exOps_wf 63) exA 1000 2 (by decide +kernel) (by decide) (by decide)
    (by decide +kernel) (by decide +kernel)
example : (step (run 1 (exOps 64)).1 (.check exA 1000 2)).2 = .ok :=
  window_complete 1 (exOps 64) (exOps_wf 64) exA 1000 2 (by decide +kernel) (by decide) (by decide)
    (by decide +kernel) (by decide +kernel)
example : (step (run 1 (exOps 65)).1 (.check exA 1000 2)).2 = .ok :=
  window_complete 1 (exOps 65) (exOps_wf 65) exA 1000 2 (by decide +kernel) (by decide) (by decide)
    (by decide +kernel) (by decide +kernel)
/-- … through the whole vetting sequence too (t = 1000, now = 50 000, default timeout 90 s) -/
example : (step (run 1 (exOps 65)).1 (.present 50000 0 0 exA.length exA 2)).2 = .ok :=
  window_complete_present 1 (exOps 65) (exOps_wf 65) 50000 0 0 exA 1000 2 (by decide +kernel) (by decide)
    (by decide) (by decide +kernel) (by decide +kernel) (by decide) (by decide +kernel) (by decide +kernel)
/-- after a jump of 66 the window-completeness hypothesis fails for count 2 (68 > 2 + 64) and the code
    refuses it; a replay of count 1 is refused (sample evaluation) -/
example : (step (run 1 (exOps 66)).1 (.check exA 1000 2)).2 = .stale := by decide +kernel
example : (step (run 1 (exOps 5)).1 (.check exA 1000 1)).2 = .stale := by decide +kernel
/-- the run really accepts: two acceptances, one registration, and `at_most_once` is tight -/
example : okCount (run 1 (exOps 5)).2 exA 1 = 1 ∧ addCount (run 1 (exOps 5)).2 exA = 1 := by decide +kernel
/-- eviction: after B took the slot, A is not accepted … -/
example : (step (run 1 exEvict).1 (.check exA 1000 2)).2 ≠ .ok :=
  ok_only_if_registered_last 1 exEvict exEvict_wf (.check exA 1000 2) rfl exA_ok.1 exA_ok.2.1 (by decide +kernel)
/-- … and is classified by the time stamps (here: A is 5 ms older than B → `wrong` as the code stands) -/
example : step (run 1 exEvict).1 (.check exA 1000 2) = ((run 1 exEvict).1, .wrong) := by
  have := evicted_classification 1 exEvict exEvict_wf (exH 98) 1005 exA 1000 2 (by decide +kernel)
    (by decide) (by decide) (by decide) (by decide)
  rw [this]; decide +kernel
/-- registration policy, fourth clause: A unused and 5 ms old keeps its slot, 30 001 ms later it loses it -/
example : (step (run 1 [.add 1000 exA]).1 (.add 1005 exB)).2 = .refused := by
  have hwf : ∀ o ∈ [Op.add 1000 exA], o.Wf := by intro o ho; simp at ho; subst ho; exact exA_ok
  have := (registration_policy 1 [.add 1000 exA] hwf 1005 exB (by decide) exB_ok.1 exB_ok.2.1 exB_ok.2.2).2.2.2
    (exH 97) 1000 (by decide +kernel) (by decide) (by decide +kernel) (by decide +kernel)
  rw [this]; decide +kernel
example : (step (run 1 [.add 1000 exA]).1 (.add 31001 (mkNonce (exH 98) 31001))).2 = .added := by decide +kernel
/-- the refinement relation on a concrete reachable table with a used window -/
example : TblRel 2 (run 2 (exOps 64)).1 (run 2 (exOps 64)).2 := run_refines 2 (exOps 64) (exOps_wf 64)
example : (run 2 (exOps 64)).1.map (fun s => (s.nc, s.nmask.toNat)) ≠ [(0, 0), (0, 0)] := by decide +kernel
/-- no fault on a concrete run that exercises every operation kind -/
example : ∀ e ∈ (run 1 (exEvict ++ [.present 50000 0 0 exA.length exA 2])).2, e.out ≠ .fault :=
  no_fault 1 _ (by
    intro o ho
    rcases List.mem_append.mp ho with h | h
    · exact exEvict_wf o h
    · simp at h; subst h; exact Or.inl (by decide))

/-! ## the public entry points -/

/-- Every public entry point (MHD_digest_auth_check3, _check_digest3 and the legacy
    _check2, _check, _check_digest2, _check_digest) is the vetting sequence with its
    arguments mapped by `Api.args`, i.e. a `present` operation: all the theorems about
    arbitrary operation sequences above cover presentations through any mix of them. -/
theorem api_is_present (a : Api) (tbl : Table) (now tmo mx sl : Nat) (n : Bytes) (c : Nat) :
    presentApi a tbl now tmo mx sl n c =
      step tbl (.present now (a.args tmo mx).1 (a.args tmo mx).2 sl n c) := rfl

/-- The nonce lifetime the application asks for reaches the vetting sequence unchanged
    through every entry point; `max_nc` does through the two `…3` functions, the legacy
    ones (which have no such parameter) pass 0 = the daemon default. -/
theorem api_args (a : Api) (tmo mx : Nat) :
    (a.args tmo mx).1 = tmo ∧ (a.args tmo mx).2 = (if a.legacy then 0 else mx) := by
  cases a <;> exact ⟨rfl, rfl⟩

/-- the `max_nc` in force for a call of entry point `a` with argument `mx` -/
def effMaxNc (a : Api) (mx : Nat) : Nat := if a.legacy ∨ mx = 0 then defMaxNc else mx

theorem effMaxNc_eq (a : Api) (tmo mx : Nat) :
    (if (a.args tmo mx).2 = 0 then defMaxNc else (a.args tmo mx).2) = effMaxNc a mx := by
  cases a <;> simp [Api.args, effMaxNc, Api.legacy] <;> rfl

/-- Through every entry point: a (well-formed) nonce older than the lifetime the
    application asked for (0 = daemon default) is reported stale — `MHD_INVALID_NONCE`
    for the legacy functions — and the table is untouched. -/
theorem expired_is_stale_api (a : Api) (tbl : Table) (now tmo mx : Nat) (n : Bytes) (c t : Nat)
    (hc : c ≠ 0) (hmx : c ≤ effMaxNc a mx)
    (ht : getNonceTimestamp n n.length = .ts t)
    (hexp : trim (sub64 now t) > ((if tmo = 0 then defTimeout else tmo) * 1000) % 2 ^ timeoutBits) :
    presentApi a tbl now tmo mx n.length n c = (tbl, .stale) ∧
    (a.legacy = true → a.result .stale = .invalidNonce) ∧ (a.legacy = false → a.result .stale = .res .stale) := by
  refine ⟨?_, ?_, ?_⟩
  · unfold presentApi
    apply expired_is_stale tbl now _ _ n c t hc
    · rw [effMaxNc_eq]; exact hmx
    · exact ht
    · rw [(api_args a tmo mx).1]; exact hexp
  · intro h; simp [Api.result, h]
  · intro h; simp [Api.result, h]

/-- Through every entry point: a count above the `max_nc` in force (the argument of the
    `…3` functions, otherwise the daemon default — never the lifetime argument) is
    reported stale. -/
theorem above_max_nc_is_stale_api (a : Api) (tbl : Table) (now tmo mx sl : Nat) (n : Bytes) (c : Nat)
    (hc : c ≠ 0) (hmx : effMaxNc a mx < c) :
    presentApi a tbl now tmo mx sl n c = (tbl, .stale) := by
  unfold presentApi
  apply above_max_nc_is_stale tbl now _ _ sl n c hc
  rw [effMaxNc_eq]; exact hmx

/-- Through every entry point, at any point of any run: a fresh count inside the window
    of the nonce registered last in its slot, not above the `max_nc` in force, on a nonce
    not older than the requested lifetime, is accepted (`MHD_YES` for the legacy ones). -/
theorem window_complete_api (a : Api) (size : Nat) (ops : List Op) (hwf : ∀ o ∈ ops, o.Wf)
    (now tmo mx : Nat) (n : Bytes) (t c : Nat)
    (hla : lastAdd size (run size ops).2 (slotIdx size n) = some n)
    (hc0 : c ≠ 0) (hcg : c < ncGuard)
    (hnew : c ∉ usedSince size (run size ops).2 (slotIdx size n))
    (hwin : ∀ u ∈ usedSince size (run size ops).2 (slotIdx size n), u ≤ c + 64)
    (hmx : c ≤ effMaxNc a mx)
    (ht : getNonceTimestamp n n.length = .ts t)
    (hexp : trim (sub64 now t) ≤ ((if tmo = 0 then defTimeout else tmo) * 1000) % 2 ^ timeoutBits) :
    (presentApi a (run size ops).1 now tmo mx n.length n c).2 = .ok ∧
    (a.legacy = true → a.result .ok = .yes) := by
  refine ⟨?_, fun h => by simp [Api.result, h]⟩
  rw [api_is_present]
  apply window_complete_present size ops hwf now _ _ n t c hla hc0 hcg hnew hwin
  · rw [effMaxNc_eq]; exact hmx
  · exact ht
  · rw [(api_args a tmo mx).1]; exact hexp

/-- instance (the seeded-change scenario): lifetime 5 s through MHD_digest_auth_check_digest2,
    nonce made at t = 1000, presented at t = 7000 → stale; and count 20 is below the
    max_nc in force (1000), so `above_max_nc_is_stale_api` does not apply to it -/
example : presentApi .checkDigest2 (run 1 (exOps 5)).1 7000 5 0 exA.length exA 7 = ((run 1 (exOps 5)).1, .stale) :=
  (expired_is_stale_api .checkDigest2 _ 7000 5 0 exA 7 1000 (by decide) (by decide) (by decide +kernel)
    (by decide +kernel)).1
example : effMaxNc .checkDigest2 0 = 1000 ∧ effMaxNc .check3 5 = 5 := by decide
example : (presentApi .checkDigest2 (run 1 (exOps 5)).1 3000 5 0 exA.length exA 20).2 = .ok :=
  (window_complete_api .checkDigest2 1 (exOps 5) (exOps_wf 5) 3000 5 0 exA 1000 20 (by decide +kernel) (by decide)
    (by decide) (by decide +kernel) (by decide +kernel) (by decide) (by decide +kernel) (by decide +kernel)).1

/-! ## why presented nonces are asked to be NUL-free -/

/-- a 76-character nonce made at t = 1000 -/
def exL : Bytes := mkNonce (List.replicate 64 99) 1000
/-- 76 bytes that were never registered: the 44-character nonce `exA`, a NUL, and the
    bytes the longer nonce `exL` left behind in the slot buffer -/
def exAlias : Bytes := exA ++ 0 :: exL.drop 45

/-- Witness (kernel-evaluated on the model; the real code answers the same in the
    correspondence run): register the long nonce L, use it, let the short nonce A
    take the slot.  memcpy leaves L's tail behind A's terminating NUL, so the
    never-registered byte string `A ++ [NUL] ++ tail(L)` compares equal to the slot
    and is accepted by check_nonce_nc (and then shares A's window).  This is outside
    the property's domain — the request parser rejects NUL in a field value or
    turns it into a space before the Authorization header is looked at — and is
    the reason for the `NoNul` hypothesis in `at_most_once`, `never_issued`,
    `accepted_counts_bounded`. -/
theorem nul_alias_witness :
    addCount (run 1 [.add 1000 exL, .check exL 1000 1, .add 1000 exA]).2 exAlias = 0 ∧
    (step (run 1 [.add 1000 exL, .check exL 1000 1, .add 1000 exA]).1 (.check exAlias 1000 1)).2 = .ok := by
  decide +kernel

/-! ## nonce generation (calculate_nonce, calculate_add_nonce, calculate_add_nonce_with_retry)

  `Mhd.Dauth.calcNonce cfg r realm a t` is `calculate_nonce` at the byte level: the lower-case hex text of
  `a.hash` (the hash *specification* of C16, which `Mhd.C16.*_chunks` prove the incremental C code computes
  for any sequence of `digest_update` chunks) of the string `Mhd.Dauth.nonceInput cfg r realm t` — six
  big-endian time-stamp bytes, then, each preceded by ':', the daemon's random seed and what the binding
  option `cfg.bindType` selects (socket address | IP address | method | URI | GET arguments | realm) —
  followed by the twelve hex digits of the 48-bit time stamp.  `Mhd.NonceGen.calcAddNonce(Retry)` are
  `calculate_add_nonce(_with_retry)` on the table.  No cryptographic claim is made anywhere: where a
  statement needs two hash values to differ, that is an explicit hypothesis about those two concrete inputs. -/

section generation
open Mhd.Dauth Mhd.NonceGen Mhd.Gen.Dauth Mhd.Auth Mhd.Gen.Auth

/-- (a) Every generated nonce has the length `NONCE_STD_LEN (digest_size)` of the algorithm it was made
    for, consists of lower-case hexadecimal digits (no NUL), is `hex (H (bound inputs)) ‖ hex (time)`,
    `get_nonce_timestamp` reads the generation time back (trimmed to 48 bits), it is a well-formed
    registration in the sense of this file (`Op.Wf`), and the presence check of the verifier accepts its length. -/
theorem generated_nonce_wellformed (cfg : Cfg) (r : Req) (realm : List UInt8) (a : Algo) (t : Nat) (n : List UInt8)
    (h : calcNonce cfg r realm a t = some n) :
    n.length = a.stdLen ∧ (a.stdLen = stdLenMd5 ∨ a.stdLen = stdLenSha) ∧
    (∀ c ∈ n, isLowerHex c = true) ∧
    (∃ x, nonceInput cfg r realm t = some x ∧ n = mkNonce (binToHex (a.hash x)) t) ∧
    getNonceTimestamp n n.length = .ts (trim t) ∧
    (Op.add t n).Wf ∧
    (∀ lv : LenView, lv kNonce = some n.length → presNonce a lv = .ok ()) :=
  ⟨calcNonce_length cfg r realm a t n h, stdLen_cases a, calcNonce_lower cfg r realm a t n h,
   calcNonce_eq cfg r realm a t n h, calcNonce_timestamp cfg r realm a t n h, calcNonce_wf cfg r realm a t n h,
   fun lv hl => presNonce_generated cfg r realm a t n h lv hl⟩

/-- (a) … and "Get 'nonce' with basic checks" of digest_auth_check_all_inner (length = that of the client's
    algorithm, time stamp readable, not older than `nonce_timeout`) accepts it, sent as a token or as a
    quoted string, at every time `now` with `t ≤ now ≤ t + nonce_timeout·1000` (the product as `unsigned int`),
    delivering the nonce and its trimmed time stamp to `check_nonce_nc`. -/
theorem generated_nonce_passes_format_checks (cfg : Cfg) (r : Req) (realm : List UInt8) (a : Algo) (t : Nat) (n : List UInt8)
    (h : calcNonce cfg r realm a t = some n) (d : DAuth) (p : Param) (hp : d.slots kNonce = some p)
    (hu : getUnq p = .ok n) (now timeout : Nat) (h1 : t ≤ now) (h2 : now < W64)
    (h3 : now - t ≤ (timeout * 1000) % 2 ^ timeoutBits) :
    stageNonce a now timeout d = .ok (n, trim t) :=
  stageNonce_generated cfg r realm a t n h d p hp hu now timeout h1 h2 h3

/-- … and reports it stale (`MHD_DAUTH_NONCE_STALE`) after that -/
theorem generated_nonce_expires (cfg : Cfg) (r : Req) (realm : List UInt8) (a : Algo) (t : Nat) (n : List UInt8)
    (h : calcNonce cfg r realm a t = some n) (d : DAuth) (p : Param) (hp : d.slots kNonce = some p)
    (hu : getUnq p = .ok n) (now timeout : Nat) (h1 : t ≤ now) (h2 : now < W64) (h4 : now - t < 2 ^ 48)
    (h3 : now - t > (timeout * 1000) % 2 ^ timeoutBits) :
    stageNonce a now timeout d = .error .nonceStale :=
  stageNonce_generated_expired cfg r realm a t n h d p hp hu now timeout h1 h2 h4 h3

/-- A generation (`calculate_add_nonce`) at any point of any run IS the run extended by the operation
    `add t nonce` with a well-formed nonce: `at_most_once`, `never_issued`, `window_complete`,
    `registration_policy`, `no_fault` … (all stated for arbitrary well-formed operation sequences) hold for
    the sequences in which the registered nonces are the ones the daemon really derives. -/
theorem generation_is_run_step (size : Nat) (ops : List Op) (hwf : ∀ o ∈ ops, o.Wf)
    (cfg : Cfg) (r : Req) (realm : List UInt8) (a : Algo) (t : Nat) (tbl' : Table) (g : Gen)
    (h : calcAddNonce cfg (run size ops).1 r realm a t = (tbl', some g)) :
    run size (ops ++ [.add t g.nonce]) = (tbl', ⟨.add t g.nonce, outOf g⟩ :: (run size ops).2) ∧
    (∀ o ∈ ops ++ [.add t g.nonce], o.Wf) :=
  Mhd.NonceGen.generation_is_run_step size ops hwf cfg r realm a t tbl' g h

/-- (b) Generated, then verified — the table part.  If `calculate_add_nonce` registered the nonce at time
    `t` (at any point of any run), then right afterwards the whole vetting sequence accepts it with every
    count `0 < c < UINT32_MAX - 64` not above `max_nc`, at every time `now` with
    `t ≤ now ≤ t + nonce_timeout·1000` (0 = the daemon defaults). -/
theorem generated_then_verified (size : Nat) (ops : List Op) (hwf : ∀ o ∈ ops, o.Wf)
    (cfg : Cfg) (r : Req) (realm : List UInt8) (a : Algo) (t : Nat) (tbl' : Table) (n : List UInt8)
    (h : calcAddNonce cfg (run size ops).1 r realm a t = (tbl', some ⟨n, true⟩))
    (now tmo mx c : Nat) (hc0 : c ≠ 0) (hcg : c < ncGuard) (hmx : c ≤ (if mx = 0 then defMaxNc else mx))
    (h1 : t ≤ now) (h2 : now < W64)
    (h3 : now - t ≤ ((if tmo = 0 then defTimeout else tmo) * 1000) % 2 ^ timeoutBits) :
    (step tbl' (.present now tmo mx a.stdLen n c)).2 = .ok := by
  obtain ⟨hrun, hwf'⟩ := Mhd.NonceGen.generation_is_run_step size ops hwf cfg r realm a t tbl' ⟨n, true⟩ h
  obtain ⟨hgen, _⟩ := calcAddNonce_step cfg _ tbl' r realm a t ⟨n, true⟩ h
  have hlen := calcNonce_length cfg r realm a t n hgen
  have hts := calcNonce_timestamp cfg r realm a t n hgen
  have hage : trim (sub64 now (trim t)) = now - t := by
    apply age_eq now t h1 h2
    have : ((if tmo = 0 then defTimeout else tmo) * 1000) % 2 ^ timeoutBits < 2 ^ 32 := Nat.mod_lt _ (by decide)
    omega
  have hh := hist_added size ⟨.add t n, .added⟩ (run size ops).2 (slotIdx size n) rfl
  have hr1 : (run size (ops ++ [.add t n])).1 = tbl' := by rw [hrun]
  have hr2 : (run size (ops ++ [.add t n])).2 = ⟨.add t n, .added⟩ :: (run size ops).2 := by rw [hrun]; rfl
  have := window_complete_present size (ops ++ [.add t n]) hwf' now tmo mx n (trim t) c
    (by rw [hr2, hh.1]; simp [Op.nonce]) hc0 hcg (by rw [hr2, hh.2]; simp [Op.nonce])
    (by rw [hr2, hh.2]; simp [Op.nonce]) hmx hts (by rw [hage]; exact h3)
  rw [hr1, hlen] at this
  exact this

/-- … and at any later point of any run, as long as the nonce is still the one registered last in its
    slot, for every fresh count inside the window (`window_complete_present` with the hypotheses about the
    nonce's format discharged for generated nonces and the expiry condition in its natural form). -/
theorem generated_then_verified_later (size : Nat) (ops : List Op) (hwf : ∀ o ∈ ops, o.Wf)
    (cfg : Cfg) (r : Req) (realm : List UInt8) (a : Algo) (t : Nat) (n : List UInt8)
    (hg : calcNonce cfg r realm a t = some n)
    (hla : lastAdd size (run size ops).2 (slotIdx size n) = some n)
    (now tmo mx c : Nat) (hc0 : c ≠ 0) (hcg : c < ncGuard)
    (hnew : c ∉ usedSince size (run size ops).2 (slotIdx size n))
    (hwin : ∀ u ∈ usedSince size (run size ops).2 (slotIdx size n), u ≤ c + 64)
    (hmx : c ≤ (if mx = 0 then defMaxNc else mx))
    (h1 : t ≤ now) (h2 : now < W64)
    (h3 : now - t ≤ ((if tmo = 0 then defTimeout else tmo) * 1000) % 2 ^ timeoutBits) :
    (step (run size ops).1 (.present now tmo mx a.stdLen n c)).2 = .ok := by
  have hlen := calcNonce_length cfg r realm a t n hg
  have hage : trim (sub64 now (trim t)) = now - t := by
    apply age_eq now t h1 h2
    have : ((if tmo = 0 then defTimeout else tmo) * 1000) % 2 ^ timeoutBits < 2 ^ 32 := Nat.mod_lt _ (by decide)
    omega
  have := window_complete_present size ops hwf now tmo mx n (trim t) c hla hc0 hcg hnew hwin hmx
    (calcNonce_timestamp cfg r realm a t n hg) (by rw [hage]; exact h3)
  rw [hlen] at this
  exact this

/-- … and a generated nonce older than the lifetime is stale for the vetting sequence, whatever the table holds -/
theorem generated_then_expired (tbl : Table) (cfg : Cfg) (r : Req) (realm : List UInt8) (a : Algo) (t : Nat) (n : List UInt8)
    (hg : calcNonce cfg r realm a t = some n) (now tmo mx c : Nat) (hc0 : c ≠ 0)
    (hmx : c ≤ (if mx = 0 then defMaxNc else mx)) (h1 : t ≤ now) (h2 : now < W64) (h4 : now - t < 2 ^ 48)
    (h3 : now - t > ((if tmo = 0 then defTimeout else tmo) * 1000) % 2 ^ timeoutBits) :
    present tbl now tmo mx a.stdLen n c = (tbl, .stale) := by
  have hlen := calcNonce_length cfg r realm a t n hg
  have := expired_is_stale tbl now tmo mx n c (trim t) hc0 hmx (calcNonce_timestamp cfg r realm a t n hg)
    (by rw [age_eq now t h1 h2 h4]; exact h3)
  rw [hlen] at this
  exact this

/-- (b) Generated, then verified — the binding part ("The 'nonce' was generated in the same conditions").
    With a binding option, a nonce generated for request `r` and realm `realm` passes the re-derivation
    made for a later request `r'` (realm `call.realm`) whenever the *bound inputs* are the same — i.e. the
    strings `nonceInput` builds for the two are equal; the verifier derives from the parsed (48-bit) time. -/
theorem bound_same_inputs_accepted (cfg : Cfg) (a : Algo) (r r' : Req) (realm : List UInt8) (call : Call) (d : DAuth)
    (t : Nat) (n : List UInt8) (np : Param) (hg : calcNonce cfg r realm a t = some n)
    (hnp : d.slots kNonce = some np) (hpq : PQ np) (hun : paramUnq np = n)
    (hsame : nonceInput cfg r' call.realm t = nonceInput cfg r realm t) :
    stageBind cfg a r' call d (trim t) = .ok () :=
  stageBind_same cfg a r r' realm call d t n np hg hnp hpq hun hsame

/-- (b) … and is refused with `MHD_DAUTH_NONCE_OTHER_COND` (`MHD_INVALID_NONCE` through the legacy
    functions) when the bound inputs `x` (generation) and `y` (verification) have different hashes:
    `a.hash x ≠ a.hash y` is a hypothesis about these two concrete strings, not a cryptographic claim. -/
theorem bound_inputs_differ_rejected (cfg : Cfg) (a : Algo) (r r' : Req) (realm : List UInt8) (call : Call) (d : DAuth)
    (t : Nat) (n : List UInt8) (np : Param) (hg : calcNonce cfg r realm a t = some n) (hb : cfg.bindType ≠ bindNone)
    (hnp : d.slots kNonce = some np) (hpq : PQ np) (hun : paramUnq np = n)
    (x y : List UInt8) (hx : nonceInput cfg r realm t = some x) (hy : nonceInput cfg r' call.realm t = some y)
    (hH : a.hash x ≠ a.hash y) :
    stageBind cfg a r' call d (trim t) = .error .nonceOtherCond ∧ Legacy.ofRes .nonceOtherCond = .invalidNonce :=
  ⟨stageBind_differs cfg a r r' realm call d t n np hg hb hnp hpq hun x y hx hy hH, rfl⟩

/-- `MHD_DAUTH_BIND_NONCE_URI`: the same nonce presented for another URI (path) — the hashed strings
    really differ (`x ≠ y`), so the hypothesis is exactly "no collision on this pair" -/
theorem bound_uri_rejected (cfg : Cfg) (a : Algo) (r : Req) (u' : List UInt8) (call : Call) (d : DAuth)
    (t : Nat) (n : List UInt8) (np : Param) (hg : calcNonce cfg r call.realm a t = some n)
    (hopt : has cfg.bindType bindUri = true) (hu : u' ≠ r.url)
    (hnp : d.slots kNonce = some np) (hpq : PQ np) (hun : paramUnq np = n)
    (x y : List UInt8) (hx : nonceInput cfg r call.realm t = some x)
    (hy : nonceInput cfg { r with url := u' } call.realm t = some y) (hH : a.hash x ≠ a.hash y) :
    x ≠ y ∧ stageBind cfg a { r with url := u' } call d (trim t) = .error .nonceOtherCond := by
  refine ⟨nonceInput_url_ne cfg r call.realm u' t x y hopt hu hx hy,
    stageBind_differs cfg a r _ call.realm call d t n np hg ?_ hnp hpq hun x y hx hy hH⟩
  intro hb; rw [hb] at hopt; revert hopt; decide

/-- `MHD_DAUTH_BIND_NONCE_URI_PARAMS`: … for other GET arguments (as `calculate_nonce` serialises them:
    `NUL NUL name NUL value` each) -/
theorem bound_uri_params_rejected (cfg : Cfg) (a : Algo) (r : Req) (args' : List (List UInt8 × Option (List UInt8))) (call : Call)
    (d : DAuth) (t : Nat) (n : List UInt8) (np : Param) (hg : calcNonce cfg r call.realm a t = some n)
    (hopt : has cfg.bindType bindUriParams = true) (hu : argsForNonce args' ≠ argsForNonce r.args)
    (hnp : d.slots kNonce = some np) (hpq : PQ np) (hun : paramUnq np = n)
    (x y : List UInt8) (hx : nonceInput cfg r call.realm t = some x)
    (hy : nonceInput cfg { r with args := args' } call.realm t = some y) (hH : a.hash x ≠ a.hash y) :
    x ≠ y ∧ stageBind cfg a { r with args := args' } call d (trim t) = .error .nonceOtherCond := by
  refine ⟨nonceInput_args_ne cfg r call.realm args' t x y hopt hu hx hy,
    stageBind_differs cfg a r _ call.realm call d t n np hg ?_ hnp hpq hun x y hx hy hH⟩
  intro hb; rw [hb] at hopt; revert hopt; decide

/-- `MHD_DAUTH_BIND_NONCE_REALM`: … for another realm -/
theorem bound_realm_rejected (cfg : Cfg) (a : Algo) (r : Req) (realm : List UInt8) (call : Call)
    (d : DAuth) (t : Nat) (n : List UInt8) (np : Param) (hg : calcNonce cfg r realm a t = some n)
    (hopt : has cfg.bindType bindRealm = true) (hu : call.realm ≠ realm)
    (hnp : d.slots kNonce = some np) (hpq : PQ np) (hun : paramUnq np = n)
    (x y : List UInt8) (hx : nonceInput cfg r realm t = some x)
    (hy : nonceInput cfg r call.realm t = some y) (hH : a.hash x ≠ a.hash y) :
    x ≠ y ∧ stageBind cfg a r call d (trim t) = .error .nonceOtherCond := by
  refine ⟨nonceInput_realm_ne cfg r realm call.realm t x y hopt hu hx hy,
    stageBind_differs cfg a r r realm call d t n np hg ?_ hnp hpq hun x y hx hy hH⟩
  intro hb; rw [hb] at hopt; revert hopt; decide

/-- `MHD_DAUTH_BIND_NONCE_CLIENT_IP`: … from another client address (`sin_addr` / `sin6_addr`; the port
    is not bound) -/
theorem bound_client_ip_rejected (cfg : Cfg) (a : Algo) (r : Req) (addr' : List UInt8) (call : Call)
    (d : DAuth) (t : Nat) (n : List UInt8) (np : Param) (hg : calcNonce cfg r call.realm a t = some n)
    (hopt : has cfg.bindType bindClientIp = true)
    (hnp : d.slots kNonce = some np) (hpq : PQ np) (hun : paramUnq np = n)
    (x y : List UInt8) (hx : nonceInput cfg r call.realm t = some x)
    (hy : nonceInput cfg { r with addr := addr' } call.realm t = some y) (hH : a.hash x ≠ a.hash y) :
    stageBind cfg a { r with addr := addr' } call d (trim t) = .error .nonceOtherCond := by
  refine stageBind_differs cfg a r _ call.realm call d t n np hg ?_ hnp hpq hun x y hx hy hH
  intro hb; rw [hb] at hopt; revert hopt; decide

/-- without a binding option (`MHD_DAUTH_BIND_NONCE_NONE`, the default) the nonce is not re-derived:
    any client may use it for any resource until it expires (documented behaviour) -/
theorem unbound_not_rechecked (cfg : Cfg) (a : Algo) (r : Req) (call : Call) (d : DAuth) (t : Nat)
    (hb : cfg.bindType = bindNone) : stageBind cfg a r call d t = .ok () :=
  stageBind_none cfg a r call d t hb

/-- (c) The nonce length is tied to the *client's* algorithm: whatever bytes are presented, if their
    number is not `NONCE_STD_LEN` of the algorithm the client uses (`sl`), the vetting sequence answers
    `MHD_DAUTH_NONCE_WRONG` and does not touch the table — in particular for an issued 44-character nonce
    extended to 76 characters with a time stamp of the client's choice and presented with MD5 (both lengths
    are acceptable to `get_nonce_timestamp` alone), and for a nonce generated for one algorithm presented
    with an algorithm of the other digest size. -/
theorem nonce_length_matches_algorithm :
    (∀ (tbl : Table) (now tmo mx sl : Nat) (n : List UInt8) (c : Nat), c ≠ 0 → c ≤ (if mx = 0 then defMaxNc else mx) →
       sl ≠ n.length → present tbl now tmo mx sl n c = (tbl, .wrong)) ∧
    (∀ (a' : Algo) (now timeout : Nat) (d : DAuth) (p : Param) (n : List UInt8), d.slots kNonce = some p →
       getUnq p = .ok n → a'.stdLen ≠ n.length → stageNonce a' now timeout d = .error .nonceWrong) ∧
    (∀ (cfg : Cfg) (r : Req) (realm : List UInt8) (a a' : Algo) (t : Nat) (n ext : List UInt8)
       (tbl : Table) (now tmo mx c : Nat), calcNonce cfg r realm a t = some n → c ≠ 0 →
       c ≤ (if mx = 0 then defMaxNc else mx) → (a'.stdLen ≠ a.stdLen ∨ ext ≠ []) →
       (a'.stdLen ≠ a.stdLen → present tbl now tmo mx a'.stdLen n c = (tbl, .wrong)) ∧
       (ext ≠ [] → present tbl now tmo mx a.stdLen (n ++ ext) c = (tbl, .wrong))) := by
  refine ⟨fun tbl now tmo mx sl n c hc hmx hl => present_length_tie tbl now tmo mx sl n c hc hmx hl,
   fun a' now timeout d p n hp hu hl => stageNonce_length_tie a' now timeout d p n hp hu hl, ?_⟩
  intro cfg r realm a a' t n ext tbl now tmo mx c hg hc hmx _
  have hlen := calcNonce_length cfg r realm a t n hg
  refine ⟨fun h => present_length_tie tbl now tmo mx _ n c hc hmx (by rw [hlen]; exact h),
    fun h => present_length_tie tbl now tmo mx _ _ c hc hmx ?_⟩
  rw [List.length_append, hlen]
  have : ext.length ≠ 0 := fun e => h (List.eq_nil_of_length_eq_zero e)
  omega

/-! ### calculate_add_nonce_with_retry -/

/-- The second attempt never re-uses the first time stamp — so the two nonces differ in their last twelve
    characters — and, when the clock has not moved, is back-dated by 1 … `DAUTH_JUMPBACK_MAX` (127) ms:
    such a nonce is "already `d` ms old" for the verifier and for `REUSE_TIMEOUT`. -/
theorem retry_timestamp_differs (t1 t2 rnd : Nat) (h1 : t1 < W64) (h2 : t2 < W64) :
    retryTime t1 t2 rnd ≠ t1 ∧ retryTime t1 t2 rnd < W64 ∧
    (t1 = t2 → 1 ≤ sub64 t1 (retryTime t1 t2 rnd) ∧ sub64 t1 (retryTime t1 t2 rnd) ≤ jumpbackMax) :=
  retryTime_ne t1 t2 rnd h1 h2

/-- What `calculate_add_nonce_with_retry` hands to the client: the outcome of the first attempt if that
    registered the nonce (or there is no table); otherwise the second nonce (time `retryTime`) if it could
    be registered; otherwise the first nonce, unregistered, with return value `false` (the client's next
    request is then answered "stale" and it retries).  Each attempt is a `calculate_add_nonce`, i.e. a
    step `add` of the runs above (`generation_is_run_step`). -/
theorem retry_outcome (cfg : Cfg) (tbl tbl' : Table) (r : Req) (realm : List UInt8) (a : Algo) (t1 t2 rnd : Nat) (g : Gen)
    (h : calcAddNonceRetry cfg tbl r realm a t1 t2 rnd = (tbl', some g)) :
    (calcAddNonce cfg tbl r realm a t1 = (tbl', some g) ∧ (g.added = true ∨ tbl.length = 0)) ∨
    (∃ tbl1 g1 g2, calcAddNonce cfg tbl r realm a t1 = (tbl1, some g1) ∧ g1.added = false ∧ tbl.length ≠ 0 ∧
       calcAddNonce cfg tbl1 r realm a (retryTime t1 t2 rnd) = (tbl', some g2) ∧
       ((g2.added = true ∧ g = g2) ∨ (g2.added = false ∧ g = g1))) :=
  retry_cases cfg tbl tbl' r realm a t1 t2 rnd g h

/-! ### non-vacuity: a concrete daemon (bind = URI, seed "se"), request `GET /a`, realm "r", MD5, t = 1000
    (`decide +kernel` evaluates closed terms, MD5 included; these are instances, not the proofs) -/

def gCfg : Cfg := ⟨bindUri, [115, 101], 90, 1000, true⟩
def gReq : Req := { method := [71, 69, 84], mthd := 1, url := [47, 97], args := [], hdrs := [], addr := [] }
def gCall : Call := ⟨[114], [117], .password [112], 0, 0, 2, 127⟩
/-- the nonce `calculate_nonce` makes for it -/
def gNonce : List UInt8 := (calcNonce gCfg gReq [114] .md5 1000).getD []
def gD : DAuth := { slots := fun k => if k = kNonce then some ⟨0, gNonce, false⟩ else none,
                    userhash := false, algo3 := 1, qop := 2 }

set_option maxRecDepth 100000 in
theorem gNonce_gen : calcNonce gCfg gReq [114] .md5 1000 = some gNonce := by decide +kernel

example : gNonce.length = 44 ∧ getNonceTimestamp gNonce 44 = .ts 1000 := by
  have h := generated_nonce_wellformed gCfg gReq [114] .md5 1000 gNonce gNonce_gen
  have hl : gNonce.length = 44 := h.1
  exact ⟨hl, by have := h.2.2.2.2.1; rw [hl] at this; exact this⟩
set_option maxRecDepth 100000 in
/-- generated on an empty 2-slot table at t = 1000: registered; presented at t = 90 999 with count 7: accepted;
    at t = 91 001: stale -/
theorem gAdd : calcAddNonce gCfg (run 2 []).1 gReq [114] .md5 1000 =
    ((calcAddNonce gCfg (run 2 []).1 gReq [114] .md5 1000).1, some ⟨gNonce, true⟩) := by decide +kernel
example : (step (calcAddNonce gCfg (run 2 []).1 gReq [114] .md5 1000).1 (.present 90999 0 0 44 gNonce 7)).2 = .ok :=
  generated_then_verified 2 [] (by intro o ho; cases ho) gCfg gReq [114] .md5 1000 _ gNonce gAdd 90999 0 0 7
    (by decide) (by decide) (by decide) (by decide) (by decide) (by decide)
example : present [] 91001 0 0 44 gNonce 7 = ([], .stale) :=
  generated_then_expired [] gCfg gReq [114] .md5 1000 gNonce gNonce_gen 91001 0 0 7 (by decide) (by decide) (by decide)
    (by decide) (by decide) (by decide)
example : stageNonce .md5 90999 90 gD = .ok (gNonce, 1000) :=
  generated_nonce_passes_format_checks gCfg gReq [114] .md5 1000 gNonce gNonce_gen gD ⟨0, gNonce, false⟩ rfl rfl 90999 90
    (by decide) (by decide) (by decide)
-- the same request verifies; `GET /b` does not (the two MD5 values differ: evaluated)
example : stageBind gCfg .md5 gReq gCall gD (trim 1000) = .ok () :=
  bound_same_inputs_accepted gCfg .md5 gReq gReq [114] gCall gD 1000 gNonce ⟨0, gNonce, false⟩ gNonce_gen rfl
    (by intro h; cases h) rfl rfl
set_option maxRecDepth 100000 in
example : stageBind gCfg .md5 { gReq with url := [47, 98] } gCall gD (trim 1000) = .error .nonceOtherCond :=
  (bound_uri_rejected gCfg .md5 gReq [47, 98] gCall gD 1000 gNonce ⟨0, gNonce, false⟩ gNonce_gen (by decide) (by decide) rfl
    (by intro h; cases h) rfl _ _ rfl rfl (by decide +kernel)).2
/-- the seeded-change scenario of (c): the issued nonce, 20 more characters and a time stamp of the client's
    choice, presented with MD5: wrong -/
example : present [] 2000 0 0 44 (gNonce ++ List.replicate 20 48 ++ hexTs 2000) 1 = ([], .wrong) :=
  nonce_length_matches_algorithm.1 [] 2000 0 0 44 _ 1 (by decide) (by decide) (by
    have : gNonce.length = 44 := (generated_nonce_wellformed gCfg gReq [114] .md5 1000 gNonce gNonce_gen).1
    simp [this, hexTs, tsChars, timestampBinSize])
/-- retry: same clock value, `random ()` = 12345 → back-dated time stamp (evaluated) -/
example : retryTime 5000 5000 12345 ≠ 5000 ∧ 5000 - retryTime 5000 5000 12345 ≤ 127 := by decide +kernel
example : jumpBack 0 ≤ 127 ∧ retryTime 1 1 4 < W64 := by decide +kernel

end generation

/-! ## concurrency: one model step = one critical section of `nnc_lock`

  "These guarantees hold for any order and interleaving of requests, including concurrent ones."
  The table `Mhd.Gen.Locks.table` is regenerated from the clang AST of digestauth.c (and daemon.c,
  connection.c, response.c) by tools/locktable.py at every run: per function the lock / unlock events and
  every access to a member of `struct MHD_NonceNc` (`nonce`, `nc`, `nmask`; field `nnc`), each with the set
  of mutexes held on *all* paths from the function entry (`must`) and the set certainly held at entry on every
  call path (`entryMust`, certified by `contextOk`: implied at every call site). -/

section concurrency
open Mhd.Gen.Locks Mhd.Locks

/-- every access to a slot of the nonce-nc map is made with `nnc_lock` held -/
def nncUnderLock (t : List Entry) : Bool :=
  t.all fun en => en.events.all fun e =>
    match e.kind with
    | .acc .nnc _ => (effMust en e).contains Lock.nnc_lock
    | _ => true

/-- while `nnc_lock` may be held: no callback into the application, no thread join / wait, no other mutex
    requested, and the only function called is `is_slot_available` (which takes no lock) -/
def nncSectionPlain (t : List Entry) : Bool :=
  t.all fun en => en.events.all fun e =>
    !(effMay en e).contains Lock.nnc_lock ||
      (match e.kind with
       | .callback => false
       | .join => false
       | .wait => false
       | .lock _ => false
       | .call k => (t[k]?.map fun ce => ce.name == "is_slot_available" && ce.events.all fun e' =>
                      match e'.kind with
                      | .acc .nnc _ => true
                      | _ => false) == some true
       | _ => true)

/-- the functions that touch the map -/
def nncFunctions (t : List Entry) : List String :=
  (t.filter fun en => en.events.any fun e => match e.kind with | .acc .nnc _ => true | _ => false).map (·.name)

/-- **The nonce-nc map is accessed only under `nnc_lock`.**  In the regenerated table:
    (1) every read and write of a slot member is made while `nnc_lock` is held on all paths (locked in the
        function itself, or certainly held by every caller — `is_slot_available`);
    (2) the entry contexts used in (1) are implied by every call site (`contextOk`, `idsOk`);
    (3) the functions that touch the map are exactly check_nonce_nc, is_slot_available,
        calculate_add_nonce — the three the model steps `check` / `add` mirror;
    (4) a critical section is plain computation: no application callback, no blocking call, no second
        mutex, so it terminates and cannot deadlock.
    Hence concurrent presentations and registrations are linearised at the lock: every concurrent
    execution is equivalent to *some sequence* of model steps, and `at_most_once`, `never_issued`,
    `window_complete`, … — stated for *arbitrary* sequences — cover all interleavings.  (That a pthread
    mutex provides mutual exclusion is assumed; C18 validates the locking dynamically with TSan.) -/
theorem nonce_table_accessed_only_under_lock :
    (∀ en ∈ table, ∀ e ∈ en.events, ∀ w, e.kind = Kind.acc Field.nnc w → Lock.nnc_lock ∈ effMust en e) ∧
    (idsOk table = true ∧ contextOk table = true) ∧
    nncFunctions table = ["check_nonce_nc", "is_slot_available", "calculate_add_nonce"] ∧
    nncSectionPlain table = true := by
  refine ⟨?_, ⟨by decide +kernel, by decide +kernel⟩, by decide +kernel, by decide +kernel⟩
  have h : nncUnderLock table = true := by decide +kernel
  intro en hen e he w hk
  have h1 := List.all_eq_true.mp h en hen
  have h2 := List.all_eq_true.mp h1 e he
  rw [hk] at h2
  exact List.contains_iff_mem.mp h2

/-- non-vacuity: the table does contain locked reads and writes of the map, in both critical sections -/
example : ∃ en ∈ table, en.name = "check_nonce_nc" ∧ ∃ e ∈ en.events, e.kind = Kind.acc Field.nnc true ∧
    Lock.nnc_lock ∈ effMust en e := by decide +kernel
example : ∃ en ∈ table, en.name = "calculate_add_nonce" ∧ ∃ e ∈ en.events, e.kind = Kind.acc Field.nnc true ∧
    Lock.nnc_lock ∈ effMust en e := by decide +kernel
example : ∃ en ∈ table, en.name = "is_slot_available" ∧ en.entryMust = [Lock.nnc_lock] ∧
    ∃ e ∈ en.events, e.kind = Kind.acc Field.nnc false := by decide +kernel

end concurrency
end Mhd.C13
