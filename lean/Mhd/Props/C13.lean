/-
  C13 — Digest nonces: issued-only, expiring, each nonce count usable once.

  Object: the executable model `Mhd.Nonce` (lean/Mhd/Model/Nonce.lean) of
  check_nonce_nc, is_slot_available, calculate_add_nonce (table part),
  get_nonce_timestamp, fast_simple_hash and the nonce / nonce-count vetting
  sequence of digest_auth_check_all(_inner) in src/microhttpd/digestauth.c.

  Quantification.  `size` is the table size (`daemon->nonce_nc_size`, any
  natural number including 0), `ops` any list of operations of any length
    add ts nonce          — calculate_add_nonce produced `nonce` at time `ts`
    check nonce time nc   — check_nonce_nc
    present now timeout max_nc stdlen nonce nc — MHD_digest_auth_check3's vetting
  with arbitrary arguments.  The only hypothesis on `ops` is `Op.Wf`: a
  *registered* nonce is non-empty and has no NUL byte (the daemon makes them
  with MHD_bin_to_hex), and `stdlen` is one of the two NONCE_STD_LEN values.
  Presented nonces are arbitrary byte strings; clauses that identify a presented
  nonce with a registered one ask it to be NUL-free (`NoNul`) — an HTTP field
  value cannot contain NUL.

  Concurrency.  In the C code every access to the table happens between
  `MHD_mutex_lock_chk_ (&daemon->nnc_lock)` and the matching unlock, in
  check_nonce_nc and in calculate_add_nonce; one model step is one such
  critical section.  The theorems are over *arbitrary sequences* of steps,
  which therefore covers every interleaving of concurrent presentations and
  registrations (that the lock is really held is C18's subject).

  The history of a run is kept most-recent-first; its abstract view is
    lastAdd  size h i   the nonce registered last in slot i
    usedSince size h i  the list (set) of counts accepted in slot i since then
    okCount h n c / addCount h n   how often (n, c) was accepted / n registered.
  Statements only; proofs are in `Mhd.Proofs.Nonce` and `Mhd.Proofs.NonceInv`.
-/
import Mhd.Proofs.NoncePolicy

namespace Mhd.C13
open Mhd.Nonce Mhd.Gen.Nonce

/-! ## the (nc, nmask) window refines a set of used counts -/

/-- Refinement step.  If `(nc, nmask)` represents the set `used` (`WInv`: 0 and
    the highest count are used, nothing above the highest is, bit `i` of the mask
    says whether `nc - 1 - i` is used), then after presenting any count `c < 2^32`
    it represents `used ∪ {c}` if `c` was accepted and `used` otherwise. -/
theorem window_refines (w : Win) (used : Nat → Prop) (c : Nat) (hi : WInv w used)
    (hc : c < W32) (hw : w.nc < W32) :
    WInv (windowStep w c).1 (fun n => used n ∨ ((windowStep w c).2 = true ∧ n = c)) :=
  Mhd.Nonce.window_refines w used c hi hc hw

/-- … and `c` is accepted exactly when it has not been used and is at most 64
    behind the highest count used (jumps forward of any size are accepted:
    for `c` above the highest both conditions are automatic). -/
theorem window_exact (w : Win) (used : Nat → Prop) (c : Nat) (hi : WInv w used)
    (hc : c < W32) (hw : w.nc < W32) :
    (windowStep w c).2 = true ↔ (¬ used c ∧ w.nc ≤ c + 64) :=
  Mhd.Nonce.window_ok_iff w used c hi hc hw

/-- Non-vacuity, and the jumps of exactly 63 / 64 / 65 / 66: starting from the
    window after counts {0, 1}, jump to 1 + j; count 2 is then still inside the
    window for j = 63, 64, 65 and outside for j = 66. -/
example : WInv ⟨1, 1#64⟩ (fun c => c = 0 ∨ c = 1) := by
  refine ⟨Or.inl rfl, Or.inr rfl, ?_, ?_⟩
  · intro n hn; show n ≤ 1; omega
  · intro i hi
    show (1#64).getLsbD i = true ↔ i < 1 ∧ (1 - 1 - i = 0 ∨ 1 - 1 - i = 1)
    rw [BitVec.getLsbD_one]
    simp
example : ((windowStep (windowStep ⟨1, 1#64⟩ 64).1 2).2, (windowStep (windowStep ⟨1, 1#64⟩ 65).1 2).2,
           (windowStep (windowStep ⟨1, 1#64⟩ 66).1 2).2, (windowStep (windowStep ⟨1, 1#64⟩ 67).1 2).2)
    = (true, true, true, false) := by decide

/-! ## every sequence of operations -/

/-- Refinement of whole runs: after any sequence of operations on a table of
    any size, every slot holds the nonce registered last in it (followed by the
    terminating NUL; first byte NUL if nothing was ever registered), its `nc` fits
    32 bits, and its (nc, nmask) pair represents {0} ∪ the counts accepted since
    that registration. -/
theorem run_refines (size : Nat) (ops : List Op) (hwf : ∀ o ∈ ops, o.Wf) :
    TblRel size (run size ops).1 (run size ops).2 :=
  run_rel size ops hwf

/-- Each count authenticates at most once per registration of the nonce: in any
    run, `(n, c)` is accepted at most as many times as `n` was registered. -/
theorem at_most_once (size : Nat) (ops : List Op) (hwf : ∀ o ∈ ops, o.Wf)
    (n : Bytes) (hn : NoNul n) (hne : n ≠ []) (c : Nat) :
    okCount (run size ops).2 n c ≤ addCount (run size ops).2 n :=
  (run_cnt size ops hwf n hn hne c).1

/-- … in particular at most once for a nonce issued once. -/
theorem at_most_once_single (size : Nat) (ops : List Op) (hwf : ∀ o ∈ ops, o.Wf)
    (n : Bytes) (hn : NoNul n) (hne : n ≠ []) (c : Nat) (h1 : addCount (run size ops).2 n ≤ 1) :
    okCount (run size ops).2 n c ≤ 1 :=
  Nat.le_trans (at_most_once size ops hwf n hn hne c) h1

/-- A nonce the daemon never registered is never accepted, with any count. -/
theorem never_issued (size : Nat) (ops : List Op) (hwf : ∀ o ∈ ops, o.Wf)
    (n : Bytes) (hn : NoNul n) (hne : n ≠ []) (c : Nat) (h0 : addCount (run size ops).2 n = 0) :
    okCount (run size ops).2 n c = 0 :=
  Nat.eq_zero_of_le_zero (h0 ▸ at_most_once size ops hwf n hn hne c)

/-- Soundness of an acceptance, at any point of any run: if the next
    presentation `o` (through check_nonce_nc or through the whole vetting
    sequence) is accepted, then its count is non-zero, below the guard
    `UINT32_MAX - 64`, was not accepted before since the registration, is at most
    64 behind every count accepted since — and the nonce is the one registered
    last in its slot: a nonce that was evicted (its slot re-used for another
    nonce) or never registered is not accepted. -/
theorem accepted_counts_bounded (size : Nat) (ops : List Op) (hwf : ∀ o ∈ ops, o.Wf) (o : Op)
    (hadd : o.isAdd = false) (hok : (step (run size ops).1 o).2 = .ok) :
    o.count ≠ 0 ∧ o.count < ncGuard ∧
    o.count ∉ usedSince size (run size ops).2 (slotIdx size o.nonce) ∧
    (∀ u ∈ usedSince size (run size ops).2 (slotIdx size o.nonce), u ≤ o.count + 64) ∧
    (NoNul o.nonce → o.nonce ≠ [] → lastAdd size (run size ops).2 (slotIdx size o.nonce) = some o.nonce) :=
  ok_facts size _ _ o (run_rel size ops hwf) hadd hok

/-- The same as a statement about eviction: if the nonce registered last in the
    slot of `n` is not `n`, no presentation of `n` is accepted. -/
theorem ok_only_if_registered_last (size : Nat) (ops : List Op) (hwf : ∀ o ∈ ops, o.Wf) (o : Op)
    (hadd : o.isAdd = false) (hn : NoNul o.nonce) (hne : o.nonce ≠ [])
    (hev : lastAdd size (run size ops).2 (slotIdx size o.nonce) ≠ some o.nonce) :
    (step (run size ops).1 o).2 ≠ .ok :=
  fun hok => hev ((accepted_counts_bounded size ops hwf o hadd hok).2.2.2.2 hn hne)

/-- Window completeness, at any point of any run: if `n` is the nonce registered
    last in its slot, then every count that is non-zero, below the guard, not yet
    accepted and at most 64 behind every count accepted so far IS accepted by
    check_nonce_nc (whatever `nonce_time` is passed). -/
theorem window_complete (size : Nat) (ops : List Op) (hwf : ∀ o ∈ ops, o.Wf) (n : Bytes) (t c : Nat)
    (hla : lastAdd size (run size ops).2 (slotIdx size n) = some n)
    (hc0 : c ≠ 0) (hcg : c < ncGuard)
    (hnew : c ∉ usedSince size (run size ops).2 (slotIdx size n))
    (hwin : ∀ u ∈ usedSince size (run size ops).2 (slotIdx size n), u ≤ c + 64) :
    (step (run size ops).1 (.check n t c)).2 = .ok := by
  have := complete_of_rel size _ _ n t c (run_rel size ops hwf) hla hc0 hcg hnew hwin
  simp [step, this, Out.ofNc]

/-- … and by the whole vetting sequence, if in addition the count does not
    exceed `max_nc` (0 = the daemon default) and the nonce is not older than
    `nonce_timeout` (0 = the daemon default). -/
theorem window_complete_present (size : Nat) (ops : List Op) (hwf : ∀ o ∈ ops, o.Wf)
    (now tmo mx : Nat) (n : Bytes) (t c : Nat)
    (hla : lastAdd size (run size ops).2 (slotIdx size n) = some n)
    (hc0 : c ≠ 0) (hcg : c < ncGuard)
    (hnew : c ∉ usedSince size (run size ops).2 (slotIdx size n))
    (hwin : ∀ u ∈ usedSince size (run size ops).2 (slotIdx size n), u ≤ c + 64)
    (hmx : c ≤ (if mx = 0 then defMaxNc else mx))
    (ht : getNonceTimestamp n n.length = .ts t)
    (hexp : trim (sub64 now t) ≤ ((if tmo = 0 then defTimeout else tmo) * 1000) % 2 ^ timeoutBits) :
    (step (run size ops).1 (.present now tmo mx n.length n c)).2 = .ok := by
  have := complete_of_rel size _ _ n t c (run_rel size ops hwf) hla hc0 hcg hnew hwin
  simp [step, present_live _ now tmo mx n c t hc0 hmx ht hexp, this, Out.ofNc]

/-! ## expiry and the configured maximum -/

/-- A (well-formed) nonce older than the configured lifetime is reported stale,
    whatever the table contains, and the table is not touched.  `nonce_timeout`
    is multiplied by 1000 as `unsigned int`, as in the C code. -/
theorem expired_is_stale (tbl : Table) (now tmo mx : Nat) (n : Bytes) (c t : Nat)
    (hc : c ≠ 0) (hmx : c ≤ (if mx = 0 then defMaxNc else mx))
    (ht : getNonceTimestamp n n.length = .ts t)
    (hexp : trim (sub64 now t) > ((if tmo = 0 then defTimeout else tmo) * 1000) % 2 ^ timeoutBits) :
    present tbl now tmo mx n.length n c = (tbl, .stale) :=
  present_expired tbl now tmo mx n c t hc (by omega) ht hexp

/-- A count above the configured maximum is reported stale (table untouched);
    counts at or above `UINT32_MAX - 64` are never accepted
    (`accepted_counts_bounded`). -/
theorem above_max_nc_is_stale (tbl : Table) (now tmo mx sl : Nat) (n : Bytes) (c : Nat)
    (hc : c ≠ 0) (hmx : (if mx = 0 then defMaxNc else mx) < c) :
    present tbl now tmo mx sl n c = (tbl, .stale) :=
  present_above_max tbl now tmo mx sl n c hc hmx


/-! ## stale or wrong — the classification of a nonce that is not in its slot, as the code defines it -/

/-- The slot of the presented nonce `n` holds another issued nonce of the same
    length, made for time `tm`; `t` is the time `n` carries.  With
    `d = (t - tm) mod 2^48`: `stale` if `d ≤ REUSE_TIMEOUT·1000` ("may not have been
    placed in the slot because another nonce had not expired"), `stale` if
    `d ≤ (2^48-1)/2`, else `wrong`; the table is not touched.  (So, as the code
    stands: a presented nonce *not older* than the one in the slot is stale, an
    *older* one — e.g. one evicted by a newer nonce — is reported wrong; the
    comments in check_nonce_nc describe the opposite intent for the last two
    cases.  The property only requires "never accepted", see
    `ok_only_if_registered_last`.) -/
theorem evicted_classification (size : Nat) (ops : List Op) (hwf : ∀ o ∈ ops, o.Wf)
    (hm : Bytes) (tm : Nat) (n : Bytes) (t c : Nat)
    (hla : lastAdd size (run size ops).2 (slotIdx size n) = some (mkNonce hm tm))
    (hstd : (mkNonce hm tm).length = stdLenMd5 ∨ (mkNonce hm tm).length = stdLenSha)
    (hlen : n.length = (mkNonce hm tm).length) (hne : n ≠ mkNonce hm tm) (hc : c < ncGuard) :
    step (run size ops).1 (.check n t c) =
      ((run size ops).1,
       if reuseTimeout * 1000 ≥ trim (sub64 t (trim tm)) then .stale
       else if trim (W64 - 1) / 2 ≥ trim (sub64 t (trim tm)) then .stale else .wrong) := by
  have hr := run_rel size ops hwf
  obtain ⟨nn, hnn, _, _, hl, _, _, hh, _⟩ := slot_of_lastAdd size _ _ _ _ hr hla
  obtain ⟨k1, k2, _⟩ := hh _ rfl
  obtain ⟨c1, c2⟩ := classify_same_length nn hm tm n t k1 k2 hstd hlen hne
  have hlen' : n.length ≤ maxNonceLen := by
    rw [hlen]; rcases hstd with h | h <;> rw [h] <;> simp [stdLenMd5, stdLenSha, maxNonceLen]
  have hnn : (run size ops).1[slotIdx (run size ops).1.length n]? = some nn := by rw [hr.1]; exact hnn
  simp only [step, check_mismatch _ n t c nn hlen' hc hnn c1, c2]
  split
  · rfl
  · split <;> rfl

/-- Nothing was ever registered in the slot of `n`: `wrong`. -/
theorem never_registered_slot_is_wrong (size : Nat) (ops : List Op) (hwf : ∀ o ∈ ops, o.Wf)
    (n : Bytes) (t c : Nat) (hsz : 0 < size)
    (hla : lastAdd size (run size ops).2 (slotIdx size n) = none)
    (hn : NoNul n) (hne : n ≠ []) (hlen : n.length ≤ maxNonceLen) (hc : c < ncGuard) :
    step (run size ops).1 (.check n t c) = ((run size ops).1, .wrong) := by
  have hr := run_rel size ops hwf
  obtain ⟨nn, hnn, _, _, hl, _, h0, _, _⟩ := slot_of_lt size _ _ (slotIdx size n) hr (Nat.mod_lt _ hsz)
  have hm : slotMatches nn n = some false := by
    cases hmm : slotMatches nn n with
    | none =>
      exfalso
      unfold slotMatches at hmm
      obtain ⟨z, hz⟩ := getElem?_some_of_lt nn.nonce n.length (by simp only [nonceBufSize, maxNonceLen] at *; omega)
      rw [hz] at hmm; cases hmm
    | some b =>
      cases b with
      | false => rfl
      | true => exact (not_matches_empty nn n (h0 hla) hn hne hmm).elim
  have hnn : (run size ops).1[slotIdx (run size ops).1.length n]? = some nn := by rw [hr.1]; exact hnn
  simp only [step, check_mismatch _ n t c nn hlen hc hnn hm, classify_empty nn n t (h0 hla) hl hlen, Out.ofNc]

/-! ## the registration policy (is_slot_available / calculate_add_nonce) -/

/-- When calculate_add_nonce has made the nonce `n` at time `ts`, at any point of
    any run (table size > 0):
    * nothing registered in its slot yet → registered;
    * `n` itself is registered there → refused (it would clear the usage history);
    * another nonce is there (and `n` is not a prefix of it) and at least one count
      of it has been accepted → registered (the old nonce is evicted);
    * another issued nonce, made for time `tm`, is there, unused → registered iff
      it is older than REUSE_TIMEOUT: `(ts - tm) mod 2^48 > REUSE_TIMEOUT·1000`. -/
theorem registration_policy (size : Nat) (ops : List Op) (hwf : ∀ o ∈ ops, o.Wf)
    (ts : Nat) (n : Bytes) (hsz : 0 < size) (hn : NoNul n) (hne : n ≠ []) (hlen : n.length ≤ maxNonceLen) :
    (lastAdd size (run size ops).2 (slotIdx size n) = none →
       (step (run size ops).1 (.add ts n)).2 = .added) ∧
    (lastAdd size (run size ops).2 (slotIdx size n) = some n →
       (step (run size ops).1 (.add ts n)).2 = .refused) ∧
    (∀ m, lastAdd size (run size ops).2 (slotIdx size n) = some m → ¬ n <+: m →
       usedSince size (run size ops).2 (slotIdx size n) ≠ [] →
       (step (run size ops).1 (.add ts n)).2 = .added) ∧
    (∀ hm tm, lastAdd size (run size ops).2 (slotIdx size n) = some (mkNonce hm tm) →
       ((mkNonce hm tm).length = stdLenMd5 ∨ (mkNonce hm tm).length = stdLenSha) → ¬ n <+: mkNonce hm tm →
       usedSince size (run size ops).2 (slotIdx size n) = [] →
       (step (run size ops).1 (.add ts n)).2 =
         (if reuseTimeout * 1000 < trim (sub64 ts (trim tm)) then .added else .refused)) := by
  have hr := run_rel size ops hwf
  obtain ⟨nn, hnn, hlast, hnz, hl, _, h0, hh, hw⟩ := slot_of_lt size _ _ (slotIdx size n) hr (Nat.mod_lt _ hsz)
  have hnn : (run size ops).1[slotIdx (run size ops).1.length n]? = some nn := by rw [hr.1]; exact hnn
  have hfit : n.length + 1 ≤ nn.nonce.length := by simp only [nonceBufSize, maxNonceLen] at *; omega
  have hstep : ∀ b, isSlotAvailable nn ts n = some b →
      (step (run size ops).1 (.add ts n)).2 = (if b then .added else .refused) := by
    intro b hb
    have := add_result _ ts n nn b hnn hfit hb
    show Out.ofAdd (addNonce (run size ops).1 ts n).2 = _
    rw [this]
    cases b <;> rfl
  refine ⟨?_, ?_, ?_, ?_⟩
  · intro hla
    exact hstep true (avail_empty nn ts n (h0 hla))
  · intro hla
    exact hstep false (avail_same nn ts n (hh n hla).1 hn hne)
  · intro m hla hp hus
    obtain ⟨k1, k2, k3⟩ := hh m hla
    have hdiff : nn.nonce.take n.length ≠ n := by
      obtain ⟨rest, hrest⟩ := k1
      rw [hrest]; exact take_ne_of_not_prefix m rest n hn hp
    have hnc : nn.nc ≠ 0 := by
      cases hu : usedSince size (run size ops).2 (slotIdx size n) with
      | nil => exact (hus hu).elim
      | cons u us =>
        have hu0 : u ≠ 0 := hnz u (by rw [hu]; exact List.mem_cons_self)
        have hle : u ≤ nn.nc := hw.2.2.1 u (Or.inr (by rw [hu]; exact List.mem_cons_self))
        omega
    exact hstep true (avail_used nn ts m n k1 k2 k3 hl hlen hdiff hnc)
  · intro hm tm hla hstd hp hus
    obtain ⟨k1, k2, k3⟩ := hh _ hla
    have hdiff : nn.nonce.take n.length ≠ n := by
      obtain ⟨rest, hrest⟩ := k1
      rw [hrest]; exact take_ne_of_not_prefix _ rest n hn hp
    have hnc : nn.nc = 0 := by
      have h1 : nn.nc = 0 ∨ nn.nc ∈ usedSince size (run size ops).2 (slotIdx size n) := hw.2.1
      rw [hus] at h1
      rcases h1 with h1 | h1
      · exact h1
      · cases h1
    rw [hstep _ (avail_unused nn ts hm tm n k1 k2 hstd hl hlast hlen hdiff hnc)]
    by_cases hd : reuseTimeout * 1000 < trim (sub64 ts (trim tm))
    · rw [if_pos hd, decide_eq_true hd]; rfl
    · rw [if_neg hd, decide_eq_false hd]; rfl

/-! ## the embedded time stamp, memory safety -/

/-- get_nonce_timestamp reads back from a nonce made by calculate_nonce (hex hash
    followed by the 12 hex digits of the time; whatever follows in the buffer)
    the time it was made for, trimmed to 48 bits. -/
theorem issued_nonce_timestamp (hashHex rest : Bytes) (ts : Nat)
    (hl : (mkNonce hashHex ts).length = stdLenMd5 ∨ (mkNonce hashHex ts).length = stdLenSha) :
    getNonceTimestamp (mkNonce hashHex ts ++ rest) (mkNonce hashHex ts).length = .ts (trim ts) :=
  getNonceTimestamp_mkNonce hashHex rest ts hl

/-- No step of any run reads outside the presented nonce or a slot buffer: the
    checked accessors of the model never report `fault` (registered nonces at most
    MAX_DIGEST_NONCE_LENGTH long, presented ones arbitrary). -/
theorem no_fault (size : Nat) (ops : List Op) (hwf : ∀ o ∈ ops, o.Wf) :
    ∀ e ∈ (run size ops).2, e.out ≠ .fault :=
  runH_no_fault size ops _ _ (tblRel_init size) (by intro e he; cases he) hwf


/-! ## non-vacuity: concrete runs satisfying the hypotheses above
    (`decide +kernel` here evaluates closed terms; these are instances, not the proofs) -/

def exH (b : UInt8) : Bytes := List.replicate 32 b
/-- a 44-character nonce made at t = 1000 -/
def exA : Bytes := mkNonce (exH 97) 1000
/-- another one made at t = 1005 -/
def exB : Bytes := mkNonce (exH 98) 1005
/-- register A, use count 1, then jump forward by `j` -/
def exOps (j : Nat) : List Op := [.add 1000 exA, .check exA 1000 1, .check exA 1000 (1 + j)]
/-- register A, use it, B evicts it (1-slot table) -/
def exEvict : List Op := [.add 1000 exA, .check exA 1000 1, .add 1005 exB]

theorem exA_ok : NoNul exA ∧ exA ≠ [] ∧ exA.length ≤ maxNonceLen :=
  ⟨by show ∀ b ∈ exA, b ≠ 0; decide, by decide, by decide⟩
theorem exB_ok : NoNul exB ∧ exB ≠ [] ∧ exB.length ≤ maxNonceLen :=
  ⟨by show ∀ b ∈ exB, b ≠ 0; decide, by decide, by decide⟩

theorem exOps_wf (j : Nat) : ∀ o ∈ exOps j, o.Wf := by
  intro o ho
  simp only [exOps, List.mem_cons, List.not_mem_nil, or_false] at ho
  rcases ho with rfl | rfl | rfl
  · exact exA_ok
  · trivial
  · trivial

theorem exEvict_wf : ∀ o ∈ exEvict, o.Wf := by
  intro o ho
  simp only [exEvict, List.mem_cons, List.not_mem_nil, or_false] at ho
  rcases ho with rfl | rfl | rfl
  · exact exA_ok
  · trivial
  · exact exB_ok

/-- jumps of exactly 63, 64 and 65: count 2 is still inside the window and is accepted -/
example : (step (run 1 (exOps 63)).1 (.check exA 1000 2)).2 = .ok :=
  window_complete 1 (exOps 63) (exOps_wf 63) exA 1000 2 (by decide +kernel) (by decide) (by decide)
    (by decide +kernel) (by decide +kernel)
example : (step (run 1 (exOps 64)).1 (.check exA 1000 2)).2 = .ok :=
  window_complete 1 (exOps 64) (exOps_wf 64) exA 1000 2 (by decide +kernel) (by decide) (by decide)
    (by decide +kernel) (by decide +kernel)
example : (step (run 1 (exOps 65)).1 (.check exA 1000 2)).2 = .ok :=
  window_complete 1 (exOps 65) (exOps_wf 65) exA 1000 2 (by decide +kernel) (by decide) (by decide)
    (by decide +kernel) (by decide +kernel)
/-- … through the whole vetting sequence too (t = 1000, now = 50 000, default timeout 90 s) -/
example : (step (run 1 (exOps 65)).1 (.present 50000 0 0 exA.length exA 2)).2 = .ok :=
  window_complete_present 1 (exOps 65) (exOps_wf 65) 50000 0 0 exA 1000 2 (by decide +kernel) (by decide)
    (by decide) (by decide +kernel) (by decide +kernel) (by decide) (by decide +kernel) (by decide +kernel)
/-- after a jump of 66 the window-completeness hypothesis fails for count 2 (68 > 2 + 64) and the code
    refuses it; a replay of count 1 is refused (sample evaluation) -/
example : (step (run 1 (exOps 66)).1 (.check exA 1000 2)).2 = .stale := by decide +kernel
example : (step (run 1 (exOps 5)).1 (.check exA 1000 1)).2 = .stale := by decide +kernel
/-- the run really accepts: two acceptances, one registration, and `at_most_once` is tight -/
example : okCount (run 1 (exOps 5)).2 exA 1 = 1 ∧ addCount (run 1 (exOps 5)).2 exA = 1 := by decide +kernel
/-- eviction: after B took the slot, A is not accepted … -/
example : (step (run 1 exEvict).1 (.check exA 1000 2)).2 ≠ .ok :=
  ok_only_if_registered_last 1 exEvict exEvict_wf (.check exA 1000 2) rfl exA_ok.1 exA_ok.2.1 (by decide +kernel)
/-- … and is classified by the time stamps (here: A is 5 ms older than B → `wrong` as the code stands) -/
example : step (run 1 exEvict).1 (.check exA 1000 2) = ((run 1 exEvict).1, .wrong) := by
  have := evicted_classification 1 exEvict exEvict_wf (exH 98) 1005 exA 1000 2 (by decide +kernel)
    (by decide) (by decide) (by decide) (by decide)
  rw [this]; decide +kernel
/-- registration policy, fourth clause: A unused and 5 ms old keeps its slot, 30 001 ms later it loses it -/
example : (step (run 1 [.add 1000 exA]).1 (.add 1005 exB)).2 = .refused := by
  have hwf : ∀ o ∈ [Op.add 1000 exA], o.Wf := by intro o ho; simp at ho; subst ho; exact exA_ok
  have := (registration_policy 1 [.add 1000 exA] hwf 1005 exB (by decide) exB_ok.1 exB_ok.2.1 exB_ok.2.2).2.2.2
    (exH 97) 1000 (by decide +kernel) (by decide) (by decide +kernel) (by decide +kernel)
  rw [this]; decide +kernel
example : (step (run 1 [.add 1000 exA]).1 (.add 31001 (mkNonce (exH 98) 31001))).2 = .added := by decide +kernel
/-- the refinement relation on a concrete reachable table with a used window -/
example : TblRel 2 (run 2 (exOps 64)).1 (run 2 (exOps 64)).2 := run_refines 2 (exOps 64) (exOps_wf 64)
example : (run 2 (exOps 64)).1.map (fun s => (s.nc, s.nmask.toNat)) ≠ [(0, 0), (0, 0)] := by decide +kernel
/-- no fault on a concrete run that exercises every operation kind -/
example : ∀ e ∈ (run 1 (exEvict ++ [.present 50000 0 0 exA.length exA 2])).2, e.out ≠ .fault :=
  no_fault 1 _ (by
    intro o ho
    rcases List.mem_append.mp ho with h | h
    · exact exEvict_wf o h
    · simp at h; subst h; exact Or.inl (by decide))

/-! ## the public entry points -/

/-- Every public entry point (MHD_digest_auth_check3, _check_digest3 and the legacy
    _check2, _check, _check_digest2, _check_digest) is the vetting sequence with its
    arguments mapped by `Api.args`, i.e. a `present` operation: all the theorems about
    arbitrary operation sequences above cover presentations through any mix of them. -/
theorem api_is_present (a : Api) (tbl : Table) (now tmo mx sl : Nat) (n : Bytes) (c : Nat) :
    presentApi a tbl now tmo mx sl n c =
      step tbl (.present now (a.args tmo mx).1 (a.args tmo mx).2 sl n c) := rfl

/-- The nonce lifetime the application asks for reaches the vetting sequence unchanged
    through every entry point; `max_nc` does through the two `…3` functions, the legacy
    ones (which have no such parameter) pass 0 = the daemon default. -/
theorem api_args (a : Api) (tmo mx : Nat) :
    (a.args tmo mx).1 = tmo ∧ (a.args tmo mx).2 = (if a.legacy then 0 else mx) := by
  cases a <;> exact ⟨rfl, rfl⟩

/-- the `max_nc` in force for a call of entry point `a` with argument `mx` -/
def effMaxNc (a : Api) (mx : Nat) : Nat := if a.legacy ∨ mx = 0 then defMaxNc else mx

theorem effMaxNc_eq (a : Api) (tmo mx : Nat) :
    (if (a.args tmo mx).2 = 0 then defMaxNc else (a.args tmo mx).2) = effMaxNc a mx := by
  cases a <;> simp [Api.args, effMaxNc, Api.legacy] <;> rfl

/-- Through every entry point: a (well-formed) nonce older than the lifetime the
    application asked for (0 = daemon default) is reported stale — `MHD_INVALID_NONCE`
    for the legacy functions — and the table is untouched. -/
theorem expired_is_stale_api (a : Api) (tbl : Table) (now tmo mx : Nat) (n : Bytes) (c t : Nat)
    (hc : c ≠ 0) (hmx : c ≤ effMaxNc a mx)
    (ht : getNonceTimestamp n n.length = .ts t)
    (hexp : trim (sub64 now t) > ((if tmo = 0 then defTimeout else tmo) * 1000) % 2 ^ timeoutBits) :
    presentApi a tbl now tmo mx n.length n c = (tbl, .stale) ∧
    (a.legacy = true → a.result .stale = .invalidNonce) ∧ (a.legacy = false → a.result .stale = .res .stale) := by
  refine ⟨?_, ?_, ?_⟩
  · unfold presentApi
    apply expired_is_stale tbl now _ _ n c t hc
    · rw [effMaxNc_eq]; exact hmx
    · exact ht
    · rw [(api_args a tmo mx).1]; exact hexp
  · intro h; simp [Api.result, h]
  · intro h; simp [Api.result, h]

/-- Through every entry point: a count above the `max_nc` in force (the argument of the
    `…3` functions, otherwise the daemon default — never the lifetime argument) is
    reported stale. -/
theorem above_max_nc_is_stale_api (a : Api) (tbl : Table) (now tmo mx sl : Nat) (n : Bytes) (c : Nat)
    (hc : c ≠ 0) (hmx : effMaxNc a mx < c) :
    presentApi a tbl now tmo mx sl n c = (tbl, .stale) := by
  unfold presentApi
  apply above_max_nc_is_stale tbl now _ _ sl n c hc
  rw [effMaxNc_eq]; exact hmx

/-- Through every entry point, at any point of any run: a fresh count inside the window
    of the nonce registered last in its slot, not above the `max_nc` in force, on a nonce
    not older than the requested lifetime, is accepted (`MHD_YES` for the legacy ones). -/
theorem window_complete_api (a : Api) (size : Nat) (ops : List Op) (hwf : ∀ o ∈ ops, o.Wf)
    (now tmo mx : Nat) (n : Bytes) (t c : Nat)
    (hla : lastAdd size (run size ops).2 (slotIdx size n) = some n)
    (hc0 : c ≠ 0) (hcg : c < ncGuard)
    (hnew : c ∉ usedSince size (run size ops).2 (slotIdx size n))
    (hwin : ∀ u ∈ usedSince size (run size ops).2 (slotIdx size n), u ≤ c + 64)
    (hmx : c ≤ effMaxNc a mx)
    (ht : getNonceTimestamp n n.length = .ts t)
    (hexp : trim (sub64 now t) ≤ ((if tmo = 0 then defTimeout else tmo) * 1000) % 2 ^ timeoutBits) :
    (presentApi a (run size ops).1 now tmo mx n.length n c).2 = .ok ∧
    (a.legacy = true → a.result .ok = .yes) := by
  refine ⟨?_, fun h => by simp [Api.result, h]⟩
  rw [api_is_present]
  apply window_complete_present size ops hwf now _ _ n t c hla hc0 hcg hnew hwin
  · rw [effMaxNc_eq]; exact hmx
  · exact ht
  · rw [(api_args a tmo mx).1]; exact hexp

/-- instance (the seeded-change scenario): lifetime 5 s through MHD_digest_auth_check_digest2,
    nonce made at t = 1000, presented at t = 7000 → stale; and count 20 is below the
    max_nc in force (1000), so `above_max_nc_is_stale_api` does not apply to it -/
example : presentApi .checkDigest2 (run 1 (exOps 5)).1 7000 5 0 exA.length exA 7 = ((run 1 (exOps 5)).1, .stale) :=
  (expired_is_stale_api .checkDigest2 _ 7000 5 0 exA 7 1000 (by decide) (by decide) (by decide +kernel)
    (by decide +kernel)).1
example : effMaxNc .checkDigest2 0 = 1000 ∧ effMaxNc .check3 5 = 5 := by decide
example : (presentApi .checkDigest2 (run 1 (exOps 5)).1 3000 5 0 exA.length exA 20).2 = .ok :=
  (window_complete_api .checkDigest2 1 (exOps 5) (exOps_wf 5) 3000 5 0 exA 1000 20 (by decide +kernel) (by decide)
    (by decide) (by decide +kernel) (by decide +kernel) (by decide) (by decide +kernel) (by decide +kernel)).1

/-! ## why presented nonces are asked to be NUL-free -/

/-- a 76-character nonce made at t = 1000 -/
def exL : Bytes := mkNonce (List.replicate 64 99) 1000
/-- 76 bytes that were never registered: the 44-character nonce `exA`, a NUL, and the
    bytes the longer nonce `exL` left behind in the slot buffer -/
def exAlias : Bytes := exA ++ 0 :: exL.drop 45

/-- Witness (kernel-evaluated on the model; the real code answers the same in the
    correspondence run): register the long nonce L, use it, let the short nonce A
    take the slot.  memcpy leaves L's tail behind A's terminating NUL, so the
    never-registered byte string `A ++ [NUL] ++ tail(L)` compares equal to the slot
    and is accepted by check_nonce_nc (and then shares A's window).  This is outside
    the property's domain — the request parser rejects NUL in a field value or
    turns it into a space before the Authorization header is looked at — and is
    the reason for the `NoNul` hypothesis in `at_most_once`, `never_issued`,
    `accepted_counts_bounded`. -/
theorem nul_alias_witness :
    addCount (run 1 [.add 1000 exL, .check exL 1000 1, .add 1000 exA]).2 exAlias = 0 ∧
    (step (run 1 [.add 1000 exL, .check exL 1000 1, .add 1000 exA]).1 (.check exAlias 1000 1)).2 = .ok := by
  decide +kernel

end Mhd.C13
