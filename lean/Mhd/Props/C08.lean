/-
  C08 — Connection arena: disjoint in-bounds blocks, contents preserved,
  refused request leaves the arena unchanged, reset keeps the requested bytes.

  Statements only (helper lemmas live in `Mhd.Proofs.Pool`).  All theorems
  quantify over every pool state satisfying the invariant, every operation and
  every `size_t` argument (`n < 2^64`), and `run_wf` lifts them to every
  operation sequence of any length.
-/
import Mhd.Proofs.PoolInv
import Mhd.Proofs.NoSpace

namespace Mhd.C08
open Mhd.Pool

/-- The arena invariant and the well-formedness of the set of live blocks are
    preserved by every operation with every argument. -/
theorem step_wf (s : St) (o : Op) (h : WF s) (ho : o.Valid) : WF (step s o).1 :=
  Mhd.Pool.step_wf s o h ho

/-- … hence hold in every reachable state, for operation sequences of any length. -/
theorem run_wf (allocSize : Nat) (ha : allocSize % A = 0) (hs : allocSize < 2 ^ 62)
    (ops : List Op) (ho : ∀ o ∈ ops, o.Valid) : WF (run (St.init allocSize) ops) :=
  Mhd.Pool.run_wf allocSize ha hs ops ho

/-- A block handed out lies inside the arena, is aligned for any object, and
    does not overlap any block that is still live. -/
theorem block_in_bounds_disjoint (s : St) (o : Op) (h : WF s) (ho : o.Valid) (off len : Nat)
    (hr : (step s o).2 = .block off len) :
    off % A = 0 ∧ off + len ≤ s.p.size ∧
    ∃ b ∈ (step s o).1.live, b.off = off ∧ b.len = len ∧
      ∀ c ∈ (step s o).1.live, c ≠ b → Disjoint b c :=
  Mhd.Pool.block_in_bounds_disjoint s o h ho off len hr

/-- A refused request leaves the arena (cursors, contents, live set) unchanged. -/
theorem refused_unchanged (s : St) (o : Op) (h : WF s) (ho : o.Valid)
    (hr : (step s o).2 = .null ∨ ∃ n, (step s o).2 = .nullNeed n) : (step s o).1 = s :=
  Mhd.Pool.refused_unchanged s o h ho hr

/-- No operation other than `reset` changes the bytes of a live block that it
    was not asked to operate on. -/
theorem others_untouched (s : St) (o : Op) (h : WF s) (ho : o.Valid) (hnr : ¬ o.isReset)
    (j : Nat) (b : Blk) (hb : s.live[j]? = some b) (hj : o.target ≠ some j) :
    readAt (step s o).1.p.mem b.off b.len = readAt s.p.mem b.off b.len :=
  Mhd.Pool.others_untouched s o h ho hnr j b hb hj

/-- Growing, shrinking or relocating a block preserves `min old new` bytes. -/
theorem realloc_preserves (s : St) (i n : Nat) (h : WF s) (hn : n < W) (b : Blk)
    (hb : s.live[i]? = some b) (hf : b.front = true) (off len : Nat)
    (hr : (step s (.realloc (some i) n)).2 = .block off len) :
    len = n ∧ readAt (step s (.realloc (some i) n)).1.p.mem off (min b.len n)
              = readAt s.p.mem b.off (min b.len n) :=
  Mhd.Pool.realloc_preserves s i n h hn b hb hf off len hr

/-- A reset keeps exactly the requested bytes, at the start of the arena, and
    gives the whole arena back. -/
theorem reset_keeps (s : St) (i copy n : Nat) (h : WF s) (b : Blk) (hb : s.live[i]? = some b)
    (hc : copy ≤ b.len) (hcn : copy ≤ n) (hn : n ≤ s.p.size) :
    let s' := (step s (.reset (some i) copy n)).1
    readAt s'.p.mem 0 copy = readAt s.p.mem b.off copy ∧
    s'.p.end_ = s'.p.size ∧ s'.p.size = s.p.size ∧ s'.p.pos = roundUp n ∧ s'.live = [⟨0, n, true⟩] :=
  Mhd.Pool.reset_keeps s i copy n h b hb hc hcn hn

/-- Non-vacuity: a concrete reachable state with two live blocks satisfies the
    hypotheses used above. -/
example : WF (run (St.init 64) [.alloc 10 false, .alloc 16 true, .realloc (some 0) 30]) := by
  apply Mhd.Pool.run_wf <;> simp [Op.Valid, W, A, Mhd.Gen.Pool.alignSize]

/-! ### "a request that does not fit is refused with 413/414/431 or a close"

`get_no_space_err_status_code` picks the status of the refusal from the sizes of the request's
elements; whatever they are, the answer is one of the "too large" codes (501 only when a
non-standard method token is what makes the request large).  That a refusal happens at all when
the arena is exhausted is the buffer-layer theorem of C01 (`windows_inside_arena`: the windows never
leave the arena, so a request that does not fit cannot be stored) together with the daemon-level
correspondence run of this check (oversized requests × arena sizes). -/

theorem no_space_status_is_too_large (i : Mhd.NoSpace.Input) :
    Mhd.NoSpace.status i = Mhd.Gen.ConnMem.httpContentTooLarge ∨
    Mhd.NoSpace.status i = Mhd.Gen.ConnMem.httpUriTooLong ∨
    Mhd.NoSpace.status i = Mhd.Gen.ConnMem.httpHeaderFieldsTooLarge ∨
    Mhd.NoSpace.status i = Mhd.Gen.ConnMem.httpNotImplemented :=
  Mhd.NoSpace.status_in_set i

theorem no_space_501_only_for_nonstandard_method (i : Mhd.NoSpace.Input)
    (h : Mhd.NoSpace.status i = Mhd.Gen.ConnMem.httpNotImplemented) : i.methodOther = true :=
  Mhd.NoSpace.not_implemented_only_for_other_method i h

/-- the codes are the ones the property names (regenerated from microhttpd.h) -/
theorem no_space_codes : Mhd.Gen.ConnMem.httpContentTooLarge = 413 ∧ Mhd.Gen.ConnMem.httpUriTooLong = 414 ∧
    Mhd.Gen.ConnMem.httpHeaderFieldsTooLarge = 431 ∧ Mhd.Gen.ConnMem.httpNotImplemented = 501 := by decide

def exInput : Mhd.NoSpace.Input :=
  ⟨Mhd.Gen.ConnMem.stageHeaders, 9000, .other, 9000, some 1, 1, false, 0⟩

example : Mhd.NoSpace.status exInput = 431 := by decide

end Mhd.C08
