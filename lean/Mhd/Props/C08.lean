/-
  C08 — Connection arena: disjoint in-bounds blocks, contents preserved,
  refused request leaves the arena unchanged, reset keeps the requested bytes.

  Statements only (helper lemmas live in `Mhd.Proofs.Pool`).  All theorems
  quantify over every pool state satisfying the invariant, every operation and
  every `size_t` argument (`n < 2^64`), and `run_wf` lifts them to every
  operation sequence of any length.
-/
import Mhd.Proofs.PoolInv
import Mhd.Proofs.NoSpace
import Mhd.Proofs.NoSpaceConn
import Mhd.Proofs.PoolRzInv
import Mhd.Proofs.ReplyBounds
import Mhd.Gen.ReplyBounds

namespace Mhd.C08
open Mhd.Pool

/-- The arena invariant and the well-formedness of the set of live blocks are
    preserved by every operation with every argument. -/
theorem step_wf (s : St) (o : Op) (h : WF s) (ho : o.Valid) : WF (step s o).1 :=
  Mhd.Pool.step_wf s o h ho

/-- … hence hold in every reachable state, for operation sequences of any length. -/
theorem run_wf (allocSize : Nat) (ha : allocSize % A = 0) (hs : allocSize < 2 ^ 62)
    (ops : List Op) (ho : ∀ o ∈ ops, o.Valid) : WF (run (St.init allocSize) ops) :=
  Mhd.Pool.run_wf allocSize ha hs ops ho

/-- A block handed out lies inside the arena, is aligned for any object, and
    does not overlap any block that is still live. -/
theorem block_in_bounds_disjoint (s : St) (o : Op) (h : WF s) (ho : o.Valid) (off len : Nat)
    (hr : (step s o).2 = .block off len) :
    off % A = 0 ∧ off + len ≤ s.p.size ∧
    ∃ b ∈ (step s o).1.live, b.off = off ∧ b.len = len ∧
      ∀ c ∈ (step s o).1.live, c ≠ b → Disjoint b c :=
  Mhd.Pool.block_in_bounds_disjoint s o h ho off len hr

/-- A refused request leaves the arena (cursors, contents, live set) unchanged. -/
theorem refused_unchanged (s : St) (o : Op) (h : WF s) (ho : o.Valid)
    (hr : (step s o).2 = .null ∨ ∃ n, (step s o).2 = .nullNeed n) : (step s o).1 = s :=
  Mhd.Pool.refused_unchanged s o h ho hr

/-- No operation other than `reset` changes the bytes of a live block that it
    was not asked to operate on. -/
theorem others_untouched (s : St) (o : Op) (h : WF s) (ho : o.Valid) (hnr : ¬ o.isReset)
    (j : Nat) (b : Blk) (hb : s.live[j]? = some b) (hj : o.target ≠ some j) :
    readAt (step s o).1.p.mem b.off b.len = readAt s.p.mem b.off b.len :=
  Mhd.Pool.others_untouched s o h ho hnr j b hb hj

/-- Growing, shrinking or relocating a block preserves `min old new` bytes. -/
theorem realloc_preserves (s : St) (i n : Nat) (h : WF s) (hn : n < W) (b : Blk)
    (hb : s.live[i]? = some b) (hf : b.front = true) (off len : Nat)
    (hr : (step s (.realloc (some i) n)).2 = .block off len) :
    len = n ∧ readAt (step s (.realloc (some i) n)).1.p.mem off (min b.len n)
              = readAt s.p.mem b.off (min b.len n) :=
  Mhd.Pool.realloc_preserves s i n h hn b hb hf off len hr

/-- A reset keeps exactly the requested bytes, at the start of the arena, and
    gives the whole arena back. -/
theorem reset_keeps (s : St) (i copy n : Nat) (h : WF s) (b : Blk) (hb : s.live[i]? = some b)
    (hc : copy ≤ b.len) (hcn : copy ≤ n) (hn : n ≤ s.p.size) :
    let s' := (step s (.reset (some i) copy n)).1
    readAt s'.p.mem 0 copy = readAt s.p.mem b.off copy ∧
    s'.p.end_ = s'.p.size ∧ s'.p.size = s.p.size ∧ s'.p.pos = roundUp n ∧ s'.live = [⟨0, n, true⟩] :=
  Mhd.Pool.reset_keeps s i copy n h b hb hc hcn hn

/-- "… keeps *exactly* the requested bytes": everything behind them is zeroed (the `memset` of `MHD_pool_reset`) -/
theorem reset_zeroes_rest (s : St) (i copy n : Nat) (h : WF s) (b : Blk) (hb : s.live[i]? = some b)
    (hc : copy ≤ b.len) (hcn : copy ≤ n) (hn : n ≤ s.p.size) :
    let s' := (step s (.reset (some i) copy n)).1
    readAt s'.p.mem copy (s.p.size - copy) = List.replicate (s.p.size - copy) 0 :=
  Mhd.Pool.reset_zeroes_rest s i copy n h b hb hc hcn hn

/-- Relocation copies between ranges that do not overlap (the `memcpy` of `MHD_pool_reallocate` is defined): the
    reallocated block stays where it is, or the old block was empty (nothing is copied), or the new block lies
    entirely behind the old one. -/
theorem realloc_move_no_overlap (s : St) (i n : Nat) (h : WF s) (b : Blk)
    (hb : s.live[i]? = some b) (hf : b.front = true) (off len : Nat)
    (hr : (step s (.realloc (some i) n)).2 = .block off len) :
    off = b.off ∨ b.len = 0 ∨ b.off + b.len ≤ off :=
  Mhd.Pool.realloc_move_no_overlap s i n h b hb hf off len hr

/-- "aligned for any object": the alignment of the blocks (`ALIGN_SIZE`, regenerated) is a multiple of
    `_Alignof (max_align_t)` of the configured build (regenerated); the arena base itself comes from
    `malloc` / `mmap` (the white-box harness checks the absolute address of every block it is handed) -/
theorem alignment_covers_max_align : A % Mhd.Gen.Pool.maxAlign = 0 ∧ 0 < Mhd.Gen.Pool.maxAlign := by decide

/-- Non-vacuity: a concrete reachable state with two live blocks satisfies the
    hypotheses used above. -/
example : WF (run (St.init 64) [.alloc 10 false, .alloc 16 true, .realloc (some 0) 30]) := by
  apply Mhd.Pool.run_wf <;> simp [Op.Valid, W, A, Mhd.Gen.Pool.alignSize]


/-! ### Both build variants of the pool (`Mhd.PoolRz`)

`Mhd.Model.PoolRz` is memorypool.c with the red zone as a parameter: `rz = 0` the ordinary build (it agrees
with `Mhd.Pool`, `rz_agrees_with_ordinary_model`), `rz = ALIGN_SIZE` the `MHD_ASAN_POISON_ACTIVE` build the
second daemon build of C01/C08 uses (`ROUND_TO_ALIGN_PLUS_RED_ZONE`, no early return for zero-sized blocks in
`MHD_pool_deallocate`, the `__asan_region_is_poisoned` decision there, `MHD_pool_get_free` keeping a red zone
back, the user-poison map).  The seven theorems above hold for every valid variant (`Var.Valid`: red zone 0 or
`ALIGN_SIZE`) whose wrap test on the rounded size is sound (`Var.Sound`: always in the ordinary build; in the
red-zone build iff the code tests `asize < size` — regenerated probe `Mhd.Gen.Pool.sizeWrapByCompare`;
with `(0 == asize) && (0 != size)` the sizes `SIZE_MAX-14 … SIZE_MAX` pass it: `rz_wrap_witness`).
`WF v` is the invariant of variant `v`: in the red-zone build every block — also a zero-sized one — owns
`rz` bytes behind it that belong to nobody (`rz_live_red_zone`); the build-independent reading
(`Mhd.PoolRz.WFW`: blocks in their part of the arena, pairwise disjoint) follows from it (`WF.weak`) but is
not inductive on its own (`Mhd.PoolRz.wfw_not_inductive`). -/

section RedZone
open Mhd.PoolRz (Var)

theorem rz_step_wf (v : Var) (hv : v.Valid) (hs : v.Sound) (s : Mhd.PoolRz.St) (o : Op) (h : Mhd.PoolRz.WF v s)
    (ho : o.Valid) : Mhd.PoolRz.WF v (Mhd.PoolRz.step v s o).1 :=
  Mhd.PoolRz.step_wf v hv hs s o h ho

theorem rz_run_wf (v : Var) (hv : v.Valid) (hs : v.Sound) (allocSize : Nat) (ha : allocSize % A = 0)
    (hsz : allocSize < 2 ^ 62) (ops : List Op) (ho : ∀ o ∈ ops, o.Valid) :
    Mhd.PoolRz.WF v (Mhd.PoolRz.run v (Mhd.PoolRz.St.init allocSize) ops) :=
  Mhd.PoolRz.run_wf v hv hs allocSize ha hsz ops ho

/-- the invariant of the variant implies the build-independent one -/
theorem rz_wf_weak (v : Var) (s : Mhd.PoolRz.St) (h : Mhd.PoolRz.WF v s) : Mhd.PoolRz.WFW s := h.weak

/-- no operation poisons / unpoisons outside the arena -/
theorem rz_step_no_fault (v : Var) (hv : v.Valid) (hs : v.Sound) (s : Mhd.PoolRz.St) (o : Op)
    (h : Mhd.PoolRz.WF v s) (ho : o.Valid) : (Mhd.PoolRz.step v s o).2 ≠ .fault :=
  Mhd.PoolRz.step_no_fault v hv hs s o h ho

theorem rz_block_in_bounds_disjoint (v : Var) (hv : v.Valid) (hs : v.Sound) (s : Mhd.PoolRz.St) (o : Op)
    (h : Mhd.PoolRz.WF v s) (ho : o.Valid) (off len : Nat) (hr : (Mhd.PoolRz.step v s o).2 = .block off len) :
    off % A = 0 ∧ off + len ≤ s.p.size ∧
    ∃ b ∈ (Mhd.PoolRz.step v s o).1.live, b.off = off ∧ b.len = len ∧
      ∀ c ∈ (Mhd.PoolRz.step v s o).1.live, c ≠ b → Disjoint b c :=
  Mhd.PoolRz.block_in_bounds_disjoint v hv hs s o h ho off len hr

theorem rz_refused_unchanged (v : Var) (hv : v.Valid) (hs : v.Sound) (s : Mhd.PoolRz.St) (o : Op)
    (h : Mhd.PoolRz.WF v s) (ho : o.Valid)
    (hr : (Mhd.PoolRz.step v s o).2 = .null ∨ ∃ n, (Mhd.PoolRz.step v s o).2 = .nullNeed n) :
    (Mhd.PoolRz.step v s o).1 = s :=
  Mhd.PoolRz.refused_unchanged v hv hs s o h ho hr

theorem rz_others_untouched (v : Var) (hv : v.Valid) (hs : v.Sound) (s : Mhd.PoolRz.St) (o : Op)
    (h : Mhd.PoolRz.WF v s) (ho : o.Valid) (hnr : ¬ o.isReset) (j : Nat) (b : Blk) (hb : s.live[j]? = some b)
    (hj : o.target ≠ some j) :
    readAt (Mhd.PoolRz.step v s o).1.p.mem b.off b.len = readAt s.p.mem b.off b.len :=
  Mhd.PoolRz.others_untouched v hv hs s o h ho hnr j b hb hj

theorem rz_realloc_preserves (v : Var) (hv : v.Valid) (hs : v.Sound) (s : Mhd.PoolRz.St) (i n : Nat)
    (h : Mhd.PoolRz.WF v s) (hn : n < W) (b : Blk) (hb : s.live[i]? = some b) (hf : b.front = true) (off len : Nat)
    (hr : (Mhd.PoolRz.step v s (.realloc (some i) n)).2 = .block off len) :
    len = n ∧ readAt (Mhd.PoolRz.step v s (.realloc (some i) n)).1.p.mem off (min b.len n)
              = readAt s.p.mem b.off (min b.len n) :=
  Mhd.PoolRz.realloc_preserves v hv hs s i n h hn b hb hf off len hr

/-- (the block asked for must fit the arena together with its red zone: `hrz`; the callers ask for
    `pool_size / 2` or the read-ahead) -/
theorem rz_reset_keeps (v : Var) (hv : v.Valid) (s : Mhd.PoolRz.St) (i copy n : Nat) (h : Mhd.PoolRz.WF v s) (b : Blk)
    (hb : s.live[i]? = some b) (hc : copy ≤ b.len) (hcn : copy ≤ n) (hn : n ≤ s.p.size)
    (hrz : roundUp n + v.rz ≤ s.p.size) :
    let s' := (Mhd.PoolRz.step v s (.reset (some i) copy n)).1
    readAt s'.p.mem 0 copy = readAt s.p.mem b.off copy ∧
    s'.p.end_ = s'.p.size ∧ s'.p.size = s.p.size ∧ s'.p.pos = Mhd.PoolRz.roundRz v n ∧ s'.live = [⟨0, n, true⟩] :=
  Mhd.PoolRz.reset_keeps v hv s i copy n h b hb hc hcn hn hrz

/-- the red zone of a freshly allocated block is inside its part of the arena -/
theorem rz_alloc_red_zone (v : Var) (hv : v.Valid) (hs : v.Sound) (s : Mhd.PoolRz.St) (n : Nat) (fe : Bool)
    (h : Mhd.PoolRz.WF v s) (hn : n < W) (off len : Nat) (hr : (Mhd.PoolRz.step v s (.alloc n fe)).2 = .block off len) :
    len = n ∧ (fe = false → off + roundUp n + v.rz ≤ (Mhd.PoolRz.step v s (.alloc n fe)).1.p.pos) ∧
    (fe = true → off + roundUp n + v.rz ≤ s.p.end_) :=
  Mhd.PoolRz.alloc_red_zone v hv hs s n fe h hn off len hr

/-- red-zone build: every live block together with its red zone lies in its part of the arena and outside every
    other live block together with that block's red zone -/
theorem rz_live_red_zone (v : Var) (s : Mhd.PoolRz.St) (h : Mhd.PoolRz.WF v s) (hrz : v.rz ≠ 0) (i j : Nat) (b c : Blk)
    (hb : s.live[i]? = some b) (hc : s.live[j]? = some c) (hij : i ≠ j) :
    (b.front = true → b.off + b.len + v.rz ≤ s.p.pos) ∧
    (b.front = false → s.p.end_ ≤ b.off ∧ b.off + b.len + v.rz ≤ s.p.size) ∧
    (b.off + b.len + v.rz ≤ c.off ∨ c.off + c.len + v.rz ≤ b.off) :=
  Mhd.PoolRz.live_red_zone v s h hrz i j b c hb hc hij

/-- at red zone 0 the parameterised model is the model of the ordinary build: same successor state, same result -/
theorem rz_agrees_with_ordinary_model (chk : Bool) (s : Mhd.PoolRz.St) (o : Op) (ho : o.Valid)
    (h : Mhd.PoolRz.WF ⟨0, chk⟩ s) :
    Mhd.PoolRz.eraseSt (Mhd.PoolRz.step ⟨0, chk⟩ s o).1 = (step (Mhd.PoolRz.eraseSt s) o).1 ∧
    Mhd.PoolRz.eraseRes (Mhd.PoolRz.step ⟨0, chk⟩ s o).2 = (step (Mhd.PoolRz.eraseSt s) o).2 ∧
    (Mhd.PoolRz.step ⟨0, chk⟩ s o).2 ≠ .fault :=
  Mhd.PoolRz.erase_step_wf chk s o ho h

/-- the variants that exist are valid, the ordinary build is sound whatever the wrap test, the red-zone build of
    the code as it is (`Mhd.Gen.Pool.redZoneAsan`, `sizeWrapByCompare` regenerated) is sound iff the probe says so -/
theorem rz_code_variants :
    (∀ chk, Var.Valid ⟨0, chk⟩ ∧ Var.Sound ⟨0, chk⟩) ∧
    Var.Valid ⟨Mhd.Gen.Pool.redZoneAsan, Mhd.Gen.Pool.sizeWrapByCompare⟩ ∧
    (Mhd.Gen.Pool.sizeWrapByCompare = true → Var.Sound ⟨Mhd.Gen.Pool.redZoneAsan, Mhd.Gen.Pool.sizeWrapByCompare⟩) :=
  ⟨fun _ => ⟨Or.inl rfl, Or.inr rfl⟩, Or.inr rfl, fun h => Or.inl h⟩

/-- **Witness** (kernel-checked) that the soundness hypothesis is needed: the red-zone build with the test
    `(0 == asize) && (0 != size)` hands out a "block" of `SIZE_MAX` bytes at offset 0 of a 64-byte arena (16 bytes
    reserved) and unpoisons outside the arena — on the real code ASan's own CHECK aborts the process
    (`MHD_pool_allocate (pool, SIZE_MAX, false)`, memorypool.c:424). -/
theorem rz_wrap_witness :
    (Mhd.PoolRz.step ⟨16, false⟩ (Mhd.PoolRz.St.init 64) (.alloc (2 ^ 64 - 1) false)).2 = .fault ∧
    (Mhd.PoolRz.allocate ⟨16, false⟩ (Mhd.PoolRz.create 64) (2 ^ 64 - 1) false).2 = some 0 ∧
    (Mhd.PoolRz.allocate ⟨16, false⟩ (Mhd.PoolRz.create 64) (2 ^ 64 - 1) false).1.pos = 16 :=
  Mhd.PoolRz.wrap_witness

/-- Non-vacuity: a reachable state of the red-zone build with a front, a zero-sized and a back block -/
example : Mhd.PoolRz.WF ⟨16, true⟩ (Mhd.PoolRz.run ⟨16, true⟩ (Mhd.PoolRz.St.init 128)
    [.alloc 10 false, .alloc 0 false, .alloc 5 true, .realloc (some 0) 30]) := by
  apply Mhd.PoolRz.run_wf <;> simp [Op.Valid, W, A, Mhd.Gen.Pool.alignSize, Mhd.PoolRz.Var.Valid, Mhd.PoolRz.Var.Sound]

/-! #### the variants that exist in the code as it is — no hypothesis left

`Var.Extracted v`: `v` is the ordinary build or the red-zone build with the regenerated red-zone size and the
regenerated wrap-test probe.  Both are valid and sound (`rz_extracted`; `decide` over the regenerated constants — with
the unsound wrap test of finding F38 this proof fails, the check then reports the proof obligation). -/

/-- the two builds of memorypool.c, as extracted -/
def Var.Extracted (v : Var) : Prop :=
  v = ⟨0, Mhd.Gen.Pool.sizeWrapByCompare⟩ ∨ v = ⟨Mhd.Gen.Pool.redZoneAsan, Mhd.Gen.Pool.sizeWrapByCompare⟩

theorem rz_extracted (v : Var) (hx : Var.Extracted v) : v.Valid ∧ v.Sound := by
  have hs : Mhd.Gen.Pool.sizeWrapByCompare = true := by decide
  have hr : Mhd.Gen.Pool.redZoneAsan = A := by decide
  rcases hx with rfl | rfl
  · exact ⟨Or.inl rfl, Or.inr rfl⟩
  · exact ⟨Or.inr hr, Or.inl hs⟩

theorem pool_step_wf (v : Var) (hx : Var.Extracted v) (s : Mhd.PoolRz.St) (o : Op) (h : Mhd.PoolRz.WF v s)
    (ho : o.Valid) : Mhd.PoolRz.WF v (Mhd.PoolRz.step v s o).1 :=
  rz_step_wf v (rz_extracted v hx).1 (rz_extracted v hx).2 s o h ho

theorem pool_run_wf (v : Var) (hx : Var.Extracted v) (allocSize : Nat) (ha : allocSize % A = 0)
    (hsz : allocSize < 2 ^ 62) (ops : List Op) (ho : ∀ o ∈ ops, o.Valid) :
    Mhd.PoolRz.WF v (Mhd.PoolRz.run v (Mhd.PoolRz.St.init allocSize) ops) :=
  rz_run_wf v (rz_extracted v hx).1 (rz_extracted v hx).2 allocSize ha hsz ops ho

theorem pool_step_no_fault (v : Var) (hx : Var.Extracted v) (s : Mhd.PoolRz.St) (o : Op)
    (h : Mhd.PoolRz.WF v s) (ho : o.Valid) : (Mhd.PoolRz.step v s o).2 ≠ .fault :=
  rz_step_no_fault v (rz_extracted v hx).1 (rz_extracted v hx).2 s o h ho

theorem pool_block_in_bounds_disjoint (v : Var) (hx : Var.Extracted v) (s : Mhd.PoolRz.St) (o : Op)
    (h : Mhd.PoolRz.WF v s) (ho : o.Valid) (off len : Nat) (hr : (Mhd.PoolRz.step v s o).2 = .block off len) :
    off % A = 0 ∧ off + len ≤ s.p.size ∧
    ∃ b ∈ (Mhd.PoolRz.step v s o).1.live, b.off = off ∧ b.len = len ∧
      ∀ c ∈ (Mhd.PoolRz.step v s o).1.live, c ≠ b → Disjoint b c :=
  rz_block_in_bounds_disjoint v (rz_extracted v hx).1 (rz_extracted v hx).2 s o h ho off len hr

theorem pool_refused_unchanged (v : Var) (hx : Var.Extracted v) (s : Mhd.PoolRz.St) (o : Op)
    (h : Mhd.PoolRz.WF v s) (ho : o.Valid)
    (hr : (Mhd.PoolRz.step v s o).2 = .null ∨ ∃ n, (Mhd.PoolRz.step v s o).2 = .nullNeed n) :
    (Mhd.PoolRz.step v s o).1 = s :=
  rz_refused_unchanged v (rz_extracted v hx).1 (rz_extracted v hx).2 s o h ho hr

theorem pool_others_untouched (v : Var) (hx : Var.Extracted v) (s : Mhd.PoolRz.St) (o : Op)
    (h : Mhd.PoolRz.WF v s) (ho : o.Valid) (hnr : ¬ o.isReset) (j : Nat) (b : Blk) (hb : s.live[j]? = some b)
    (hj : o.target ≠ some j) :
    readAt (Mhd.PoolRz.step v s o).1.p.mem b.off b.len = readAt s.p.mem b.off b.len :=
  rz_others_untouched v (rz_extracted v hx).1 (rz_extracted v hx).2 s o h ho hnr j b hb hj

theorem pool_realloc_preserves (v : Var) (hx : Var.Extracted v) (s : Mhd.PoolRz.St) (i n : Nat)
    (h : Mhd.PoolRz.WF v s) (hn : n < W) (b : Blk) (hb : s.live[i]? = some b) (hf : b.front = true) (off len : Nat)
    (hr : (Mhd.PoolRz.step v s (.realloc (some i) n)).2 = .block off len) :
    len = n ∧ readAt (Mhd.PoolRz.step v s (.realloc (some i) n)).1.p.mem off (min b.len n)
              = readAt s.p.mem b.off (min b.len n) :=
  rz_realloc_preserves v (rz_extracted v hx).1 (rz_extracted v hx).2 s i n h hn b hb hf off len hr

theorem pool_reset_keeps (v : Var) (hx : Var.Extracted v) (s : Mhd.PoolRz.St) (i copy n : Nat) (h : Mhd.PoolRz.WF v s)
    (b : Blk) (hb : s.live[i]? = some b) (hc : copy ≤ b.len) (hcn : copy ≤ n) (hn : n ≤ s.p.size)
    (hrz : roundUp n + v.rz ≤ s.p.size) :
    let s' := (Mhd.PoolRz.step v s (.reset (some i) copy n)).1
    readAt s'.p.mem 0 copy = readAt s.p.mem b.off copy ∧
    s'.p.end_ = s'.p.size ∧ s'.p.size = s.p.size ∧ s'.p.pos = Mhd.PoolRz.roundRz v n ∧ s'.live = [⟨0, n, true⟩] :=
  rz_reset_keeps v (rz_extracted v hx).1 s i copy n h b hb hc hcn hn hrz

theorem pool_alloc_red_zone (v : Var) (hx : Var.Extracted v) (s : Mhd.PoolRz.St) (n : Nat) (fe : Bool)
    (h : Mhd.PoolRz.WF v s) (hn : n < W) (off len : Nat) (hr : (Mhd.PoolRz.step v s (.alloc n fe)).2 = .block off len) :
    len = n ∧ (fe = false → off + roundUp n + v.rz ≤ (Mhd.PoolRz.step v s (.alloc n fe)).1.p.pos) ∧
    (fe = true → off + roundUp n + v.rz ≤ s.p.end_) :=
  rz_alloc_red_zone v (rz_extracted v hx).1 (rz_extracted v hx).2 s n fe h hn off len hr

/-- Non-vacuity: the red-zone build as extracted, a reachable state -/
example : Mhd.PoolRz.WF ⟨Mhd.Gen.Pool.redZoneAsan, Mhd.Gen.Pool.sizeWrapByCompare⟩
    (Mhd.PoolRz.run ⟨Mhd.Gen.Pool.redZoneAsan, Mhd.Gen.Pool.sizeWrapByCompare⟩ (Mhd.PoolRz.St.init 128)
      [.alloc 10 false, .alloc 0 false, .alloc 5 true, .realloc (some 0) 30]) := by
  apply pool_run_wf _ (Or.inr rfl) <;> simp [Op.Valid, W, A, Mhd.Gen.Pool.alignSize]


end RedZone

/-! ### "a request that does not fit is refused with 413/414/431 or a close"

`get_no_space_err_status_code` picks the status of the refusal from the sizes of the request's
elements; whatever they are, the answer is one of the "too large" codes (501 only when a
non-standard method token is what makes the request large).  That the refusal happens — for every
byte stream, every segmentation, every arena size and every strictness level — and which of the
codes it is, is `arena_hard_bound` below (composition with C01's `Mhd.ConnRead`). -/

theorem no_space_status_is_too_large (i : Mhd.NoSpace.Input) :
    Mhd.NoSpace.status i = Mhd.Gen.ConnMem.httpContentTooLarge ∨
    Mhd.NoSpace.status i = Mhd.Gen.ConnMem.httpUriTooLong ∨
    Mhd.NoSpace.status i = Mhd.Gen.ConnMem.httpHeaderFieldsTooLarge ∨
    Mhd.NoSpace.status i = Mhd.Gen.ConnMem.httpNotImplemented :=
  Mhd.NoSpace.status_in_set i

theorem no_space_501_only_for_nonstandard_method (i : Mhd.NoSpace.Input)
    (h : Mhd.NoSpace.status i = Mhd.Gen.ConnMem.httpNotImplemented) : i.methodOther = true :=
  Mhd.NoSpace.not_implemented_only_for_other_method i h

/-- the codes are the ones the property names (regenerated from microhttpd.h) -/
theorem no_space_codes : Mhd.Gen.ConnMem.httpContentTooLarge = 413 ∧ Mhd.Gen.ConnMem.httpUriTooLong = 414 ∧
    Mhd.Gen.ConnMem.httpHeaderFieldsTooLarge = 431 ∧ Mhd.Gen.ConnMem.httpNotImplemented = 501 := by decide

def exInput : Mhd.NoSpace.Input :=
  ⟨Mhd.Gen.ConnMem.stageHeaders, 9000, .other, 9000, some 1, 1, false, 0⟩

example : Mhd.NoSpace.status exInput = 431 := by decide

/-- for a standard method: 413 exactly for an over-long chunk-size line, otherwise 431 when the field
    lines dominate the request target by the code's thresholds (`headersDominate`), else 414 -/
theorem no_space_status_by_what_fills (i : Mhd.NoSpace.Input) (hm : i.methodOther = false) :
    Mhd.NoSpace.status i =
      if i.stage = Mhd.Gen.ConnMem.stageBodyChunked ∧ Mhd.Gen.ConnMem.minReasonableChunkLine < i.addSize
      then Mhd.Gen.ConnMem.httpContentTooLarge
      else if Mhd.NoSpace.headersDominate (Mhd.NoSpace.hostSplit i).2 i.uri (Mhd.NoSpace.hostSplit i).1
      then Mhd.Gen.ConnMem.httpHeaderFieldsTooLarge else Mhd.Gen.ConnMem.httpUriTooLong :=
  Mhd.NoSpace.status_std_method i hm

theorem no_space_413_iff (i : Mhd.NoSpace.Input) :
    Mhd.NoSpace.status i = Mhd.Gen.ConnMem.httpContentTooLarge ↔
      (i.stage = Mhd.Gen.ConnMem.stageBodyChunked ∧ Mhd.Gen.ConnMem.minReasonableChunkLine < i.addSize) :=
  Mhd.NoSpace.status_413_iff i

/-! ### The hard size bound at connection level (second sentence of the property)

`Mhd.ArenaBound.runT` is C01's composed model `Mhd.ConnRead.run` (request line, header section, body,
footers, keep-alive reset — all on the ONE arena `cm.p` created with the configured size) observed by a
trace that records, at the moment the run enters `.error .noSpace`, which refusal the code decides
(`handle_recv_no_space` / `handle_req_headers_no_space` / `handle_req_footers_no_space` /
`handle_req_chunk_size_line_no_space` with the inputs of `get_no_space_err_status_code`).  The CR
component of the traced run *is* `Mhd.ConnRead.run` (first conjunct), so C01's theorems apply to it. -/

open Mhd.ArenaBound Mhd.ConnRead Mhd.ConnMem in
/-- **For every client byte stream, every segmentation, every arena size / pool size / increment,
    every strictness level and every application behaviour (`cfg`):**
    (1) the traced run is `Mhd.ConnRead.run`;
    (2) no parser access outside the received bytes, no operation the buffer layer refuses;
    (3) every block the request processing works in — the read buffer (with the request line, the
        field lines, the body window), the write buffer, and (by `CMInv`) the cursors between which the
        back-allocated request elements lie — is inside the one arena of the configured size: `… ≤ pos ≤ end_ ≤ size`
        and `size = allocSize` throughout (the arena is never replaced or enlarged: there is no other memory in the
        model's state, every allocation is an operation on `cm.p`);
    (4) the connection never waits for data with a full read buffer: what does not fit is not stored;
    (5) when the request does not fit (`.error .noSpace`: the buffer is full and cannot grow, or a parsed
        field line finds no room for its element) the refusal has been decided and is a close or one of
        413 / 414 / 431 (501 only for a non-standard method, `no_space_501_only_for_nonstandard_method`). -/
theorem arena_hard_bound (cfg : Cfg) (allocSize poolSize inc : Nat) (lvl : Int) (ha : allocSize % A = 0)
    (hs : allocSize < 2 ^ 62) (hp : poolSize ≤ allocSize) (hp2 : 2 ≤ poolSize) (chunks : List (List UInt8)) :
    let t := runT cfg (initT allocSize poolSize inc lvl) chunks
    t.x = Mhd.ConnRead.run cfg (Mhd.ConnRead.init allocSize poolSize inc lvl) chunks ∧
    ((∀ f, t.x.phase ≠ .fault f) ∧ (∀ n, t.x.phase ≠ .refused n)) ∧
    (t.x.cm.p.size = allocSize ∧ CMInv t.x.cm ∧ WindowsInside t.x.cm) ∧
    (t.x.wantsRead = true → t.x.cm.rbOff < t.x.cm.rbSize) ∧
    (t.x.phase = .error .noSpace → ∃ r, t.log = some r ∧ r.Allowed) := by
  intro t
  have hx : t.x = Mhd.ConnRead.run cfg (Mhd.ConnRead.init allocSize poolSize inc lvl) chunks :=
    runT_x cfg chunks (initT allocSize poolSize inc lvl)
  have hsafe := run_safe inc cfg chunks _ (init_safe allocSize poolSize inc lvl ha hs hp)
  have f := Mhd.ConnMem.init_fields allocSize poolSize inc ha hs hp
  have hlive := run_live inc cfg chunks _ (init_safe allocSize poolSize inc lvl ha hs hp)
    (fun _ => by
      show (Mhd.ConnMem.init allocSize poolSize inc).rbOff < (Mhd.ConnMem.init allocSize poolSize inc).rbSize
      rw [f.2.1, f.2.2.2.2.1]; omega)
  refine ⟨hx, ?_, ?_, ?_, ?_⟩
  · rw [hx]; exact safe_not_faulty hsafe
  · rw [hx]; exact ⟨(run_size cfg chunks _).trans (init_size allocSize poolSize inc lvl), safe_cminv hsafe,
      Mhd.ConnMem.windows_of_inv _ (safe_cminv hsafe)⟩
  · rw [hx]; exact hlive
  · intro hph
    have hg := runT_good cfg chunks _ (initT_good allocSize poolSize inc lvl)
    have hl : t.log.isSome = true := hg (by show isNoSpace t.x.phase = true; rw [hph]; rfl)
    obtain ⟨r, hr⟩ := Option.isSome_iff_exists.mp hl
    exact ⟨r, hr, runT_allowed cfg chunks _ (by intro r h; simp [initT] at h) r hr⟩

open Mhd.ArenaBound Mhd.ConnRead in
/-- **which refusal, by the stage and by what fills the buffer** (`handle_recv_no_space`): a full buffer
    while the request line is received → 414 when the method is one of GET … DELETE, otherwise a close;
    in the header section → the status `get_no_space_err_status_code` computes for the raw buffer content
    (`no_space_status_by_what_fills`: 431 or 414 by what dominates); while the chunk-size line is read →
    413 if it carries an extension; in the footers → 431. -/
theorem refusal_by_stage (x : CR) (a : Aux) :
    (∀ s, x.phase = .reqLine s →
        refusalGrow x a = if s.looksHttp then .status Mhd.Gen.ConnMem.httpUriTooLong else .close) ∧
    (∀ hs fs, x.phase = .headers hs fs → ∃ i : Mhd.NoSpace.Input,
        refusalGrow x a = .status (Mhd.NoSpace.status i) ∧ i.stage = Mhd.Gen.ConnMem.stageHeaders ∧
        i.addSize = x.cm.rbOff ∧ i.optHdr = x.cm.rb.getD 0 + x.cm.rbOff - fs ∧ i.uri = a.uri) ∧
    (∀ b, x.phase = .body b → b.chunked = true → b.off = b.cur → b.cur = 0 →
        ((b.buf.extract (x.cm.rb.getD 0) (x.cm.rb.getD 0 + x.cm.rbOff)).toList.contains 59) = true →
        refusalGrow x a = .status Mhd.Gen.ConnMem.httpContentTooLarge) ∧
    (∀ s rq, x.phase = .footers s rq → refusalGrow x a = .status Mhd.Gen.ConnMem.httpHeaderFieldsTooLarge) := by
  refine ⟨?_, ?_, ?_, ?_⟩
  · intro s h; simp only [refusalGrow, h]
  · intro hs fs h; exact ⟨_, by simp only [refusalGrow, h]; rfl, rfl, rfl, rfl, rfl⟩
  · intro b h h1 h2 h3 h4; simp only [refusalGrow, h, h1, h2, h3, h4, and_self, if_true]
  · intro s rq h; simp only [refusalGrow, h]

/-- the configuration of the examples: framing given directly, keep-alive, the application takes 2 bytes per call -/
def exCfg (fr : Mhd.ConnRead.Framing) : Mhd.ConnRead.Cfg :=
  { frame := fun _ _ => fr, keepAlive := fun _ _ => true, take := fun _ _ => 2 }

/-- Non-vacuity of (5): `GET /aaaa…` (200 × `a`) on a 64-byte arena — refused with 414;
    (`decide +kernel`: the composed model is evaluated by the kernel — a test of the example) -/
example : (Mhd.ArenaBound.runT (exCfg .none) (Mhd.ArenaBound.initT 64 64 16 0)
    [[71, 69, 84, 32, 47] ++ List.replicate 200 97]).log = some (.status 414) := by decide +kernel

/-- … the same with a non-standard method token (`BREW /aaaa…`): closed without a reply -/
example : (Mhd.ArenaBound.runT (exCfg .none) (Mhd.ArenaBound.initT 64 64 16 0)
    [[66, 82, 69, 87, 32, 47] ++ List.replicate 200 97]).log = some .close := by decide +kernel

/-- … `GET / HTTP/1.1\r\nX: vvvv…` (300 × `v`) in two chunks on a 256-byte arena: 431, and the run is in `.error .noSpace` -/
def exRun431 : Mhd.ArenaBound.TR := Mhd.ArenaBound.runT (exCfg .none) (Mhd.ArenaBound.initT 256 256 16 0)
    [[71, 69, 84, 32, 47, 32, 72, 84, 84, 80, 47, 49, 46, 49, 13, 10, 88, 58, 32], List.replicate 300 118]
example : (exRun431.log, Mhd.ArenaBound.isNoSpace exRun431.x.phase) = (some (Mhd.ArenaBound.Refusal.status 431), true) := by
  decide +kernel

/-! ### "… refused rather than overflowing" for the REPLY head

`build_header_response` / `add_user_headers` fill the write buffer — the last front block of the arena, directly in
front of the blocks allocated from the arena's end.  `Mhd.ReplyBounds.headActs` lists every space check and every
write of the builder (one level finer than C04's `headSegs`: the application's `Connection:` header with MHD's
token merged in is three writes under two checks); `runActs` performs the writes unchecked and records the highest
index stored.  `recheck` is the regenerated behaviour probe `Mhd.Gen.ReplyBounds.mergeTokenRechecksLine`. -/

open Mhd.ReplyBounds Mhd.Reply Mhd.Resp in
/-- **Every append of the reply-head builder is covered by a check in front of it**: for every connection state,
    response object, status code 100…999, Date string (≤ 30 bytes; `get_date_str` gives 29), keep-alive decision,
    buffer size and start state inside the buffer — no byte is stored at an index `≥ bufSize`, neither when the head
    is built nor when the builder refuses (then the bytes stored so far stay below `bufSize` as well). -/
theorem header_build_in_bounds (c : Conn) (r : Resp) (rcode : Nat) (icy : Bool) (date : Option Mhd.ReplyStr.Bytes) (ka : KA) (props : Props)
    (h1 : 100 ≤ rcode) (h2 : rcode ≤ 999) (hd : ∀ d, date = some d → d.length ≤ 30) (bufSize : Nat) (w : WB)
    (hw : w.hw ≤ bufSize) :
    (runActs bufSize (headActs Mhd.Gen.ReplyBounds.mergeTokenRechecksLine c r rcode icy date ka props) w).1.hw ≤ bufSize := by
  have hf : Mhd.Gen.ReplyBounds.mergeTokenRechecksLine = true := by decide
  rw [hf]
  exact headActs_inB c r rcode icy date ka props h1 h2 hd bufSize w hw

open Mhd.ReplyBounds Mhd.Reply Mhd.Resp in
/-- the fine model refuses exactly when C04's (tied) `headSegs` model refuses and builds the same bytes -/
theorem header_build_refines_c04 (c : Conn) (r : Resp) (rcode : Nat) (icy : Bool) (date : Option Mhd.ReplyStr.Bytes) (ka : KA)
    (props : Props) (bufSize : Nat) :
    runB bufSize (headActs true c r rcode icy date ka props) [] = runSegs bufSize (headSegs c r rcode icy date ka props) [] :=
  headActs_refines c r rcode icy date ka props bufSize

/-- the footer block of a chunked reply stays inside its buffer -/
theorem footer_build_in_bounds (r : Mhd.Resp.Resp) (bufSize : Nat) (b : Mhd.ReplyStr.Bytes)
    (h : Mhd.Reply.buildFooter r bufSize = some b) : b.length ≤ bufSize :=
  Mhd.ReplyBounds.footer_in_bounds r bufSize b h

/-- **Witness** that the covering check is needed: with a check that covers only the token, `Connection: xxxxxxxx`
    + `close, ` into a 24-byte buffer stores bytes up to index 28; with the covering check the builder refuses after
    `Connection: ` (12 bytes). -/
theorem header_build_unchecked_merge_overflows :
    (Mhd.ReplyBounds.runActs 24 (Mhd.ReplyBounds.userFieldActs false Mhd.Resp.sConnection Mhd.Resp.sCloseSep (List.replicate 8 120)) ⟨[], 0⟩).1.hw = 29 ∧
    (Mhd.ReplyBounds.runActs 24 (Mhd.ReplyBounds.userFieldActs true Mhd.Resp.sConnection Mhd.Resp.sCloseSep (List.replicate 8 120)) ⟨[], 0⟩)
      = (⟨Mhd.Resp.sConnection ++ Mhd.Reply.colonSp, 12⟩, false) :=
  Mhd.ReplyBounds.merge_without_recheck_overflows

end Mhd.C08
