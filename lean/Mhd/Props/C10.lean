/-
  C10 — Inactivity timeouts and the sleep hint are exact.

  Statements only; proofs live in `Mhd.Proofs.Tmo*`.  The model (`Mhd.Model.Tmo`, `TmoLoop`) mirrors
  connection_check_timedout, connection_get_wait, MHD_update_last_activity_,
  MHD_set_connection_option(TIMEOUT), internal_suspend_connection_, resume_suspended_connections,
  new_connection_process_, cleanup_connection, MHD_get_timeout64 and the timeout scans of the
  select and epoll loops.  The clock of a history is an arbitrary sequence of forward and backward
  steps; the ghost field `back` of the model is the distance of the clock from the highest value it has
  shown so far (`clock_displacement`, `clock_highWater`) and "small backward jumps" means
  `back ≤ jumpBackLimit` (5000 ms, the tolerance of `connection_check_timedout`) in the state considered.
  Idle time is measured on the clock: `now - last_activity`, 0 while the clock is behind the stamp.
  `Variant.current` is regenerated from the tree under test on every run
  (behaviour probes on the real code); the history theorems hold for the repaired behaviour and
  `current_is_repaired` is the obligation that fails on a tree without the repairs.
  The `asIs_*` theorems are kernel-checked witnesses of what the unrepaired code does.
-/
import Mhd.Proofs.TmoSend
import Mhd.Proofs.TmoConv

namespace Mhd.C10
open Mhd.Tmo Mhd.Gen.Tmo

/-! ### the tree under test shows the repaired behaviour (F11, F11b, F11c, F11d, F11e) -/

theorem current_is_repaired : Fixed Variant.current := ⟨rfl, rfl, rfl, rfl, rfl⟩

/-! ### the close decision and the wait computation (all `uint64_t` inputs) -/

/-- Exactness of `connection_check_timedout`: with a stamp that is not in the future, a connection is
    closed for timeout iff it is not suspended, has a timeout, and has been idle for MORE than it. -/
theorem closeDecision_exact (now : Nat) (c : Conn) (h1 : c.la ≤ now) (h2 : now < 2 ^ 63) :
    checkTimedOut now c = true ↔ c.suspended = false ∧ c.tmo ≠ 0 ∧ c.tmo < now - c.la :=
  checkTimedOut_iff now c h1 h2

/-- Suspended connections never time out (any clock value, any stamp). -/
theorem suspended_never_timedOut (now : Nat) (c : Conn) (h : c.suspended = true) : checkTimedOut now c = false :=
  checkTimedOut_suspended now c h

/-- Timeout 0 means no timeout. -/
theorem zero_means_none (now : Nat) (c : Conn) (h : c.tmo = 0) : checkTimedOut now c = false :=
  checkTimedOut_noTimeout now c h

/-- `connection_get_wait` and `connection_check_timedout` agree for every input, wrapped or not:
    the wait is 0 exactly when the connection is to be closed. -/
theorem wait_in_sync_with_close (now : Nat) (c : Conn) (hs : c.suspended = false) (h0 : c.tmo ≠ 0) :
    getWait now c = 0 ↔ checkTimedOut now c = true :=
  getWait_zero_iff now c hs h0

/-- The wait never exceeds the time to the deadline plus the granularity; it is 0 after the deadline
    and exactly the remaining time before it. -/
theorem wait_bound (now : Nat) (c : Conn) (h1 : c.la ≤ now) (h2 : now < 2 ^ 63) :
    getWait now c ≤ (c.la + c.tmo - now) + granularity ∧
    (c.la + c.tmo < now → getWait now c = 0) ∧
    (now < c.la + c.tmo → getWait now c = c.la + c.tmo - now) :=
  getWait_bound now c h1 h2

/-- Backward clock jump of at most `jumpBackLimit` (5000 ms): not a timeout … -/
theorem jumpBack_tolerated (now : Nat) (c : Conn) (h1 : now < c.la) (h2 : c.la - now ≤ jumpBackLimit)
    (hla : c.la < W) (ht : c.tmo < 2 ^ 63) : checkTimedOut now c = false :=
  checkTimedOut_jumpBack now c h1 h2 hla ht

/-- … and the hint for that connection is the granularity (100 ms). -/
theorem jumpBack_wait (now : Nat) (c : Conn) (h1 : now < c.la) (h2 : c.la - now ≤ jumpBackLimit)
    (hla : c.la < W) (ht : c.tmo < 2 ^ 63) : getWait now c = granularity :=
  getWait_jumpBack now c h1 h2 hla ht

/-- A larger backward jump is treated as a timeout (the rule the code implements). -/
theorem bigJumpBack_closes (now : Nat) (c : Conn) (h1 : now < c.la) (h2 : jumpBackLimit < c.la - now)
    (h3 : c.la - now < 2 ^ 62) (hla : c.la < W) (ht : c.tmo < 2 ^ 62) (hs0 : c.suspended = false)
    (h0 : c.tmo ≠ 0) : checkTimedOut now c = true :=
  checkTimedOut_bigJumpBack now c h1 h2 h3 hla ht hs0 h0

/-- The close decision is exact also while the clock is up to `jumpBackLimit` behind the stamp: the idle
    time measured on the clock is then 0 and the connection is not closed. -/
theorem closeDecision_exact_smallJump (now : Nat) (c : Conn) (h1 : c.la ≤ now + jumpBackLimit) (h2 : now < 2 ^ 62)
    (ht : c.tmo < 2 ^ 63) :
    checkTimedOut now c = true ↔ c.suspended = false ∧ c.tmo ≠ 0 ∧ c.tmo < now - c.la :=
  checkTimedOut_iff_jump now c h1 h2 ht

/-! ### the clock of a history -/

/-- Clock reading and displacement after a history are determined by the clock operations of the
    history alone (forward steps, backward steps; a backward step below 0 is skipped) … -/
theorem clock_displacement (cfg : Cfg) (ops : List Op) :
    let d := run Variant.current (Daemon.init cfg) ops
    (d.now, d.back) = ops.foldl clockStep (clock0, 0) :=
  run_clock Variant.current ops (Daemon.init cfg)

/-- … and `now + back` is the running maximum of the clock: `back` is how far the clock is behind the
    highest value it has shown. -/
theorem clock_highWater (p : Nat × Nat) (o : Op) :
    (clockStep p o).1 + (clockStep p o).2 = max (p.1 + p.2) (clockStep p o).1 :=
  clockStep_highWater p o

/-! ### invariants of every history (any clock: forward and backward steps of any size) -/

/-- The bookkeeping invariant (no list corruption, list membership consistent with timeout values and
    suspended flags, no stamp beyond the highest clock value shown, default-timeout list ordered by last
    activity) holds after every history of script operations — any length, any number of connections,
    both loops, the clock stepping forward and backward by any amounts. -/
theorem inv_reachable (cfg : Cfg) (hc : cfg.dtmo ≤ tmoMax) (ops : List Op) :
    Inv (run Variant.current (Daemon.init cfg) ops) :=
  inv_run current_is_repaired ops _ (inv_init cfg hc)

/-- `Sorted (≥) (normalList.map lastActivity)` in every reachable state (of a daemon that has a default
    timeout; without one the order of that list is never looked at) — whatever the clock does: every
    insertion of a connection stamped with the current time goes to its sorted position, which is the
    head unless the clock has stepped back. -/
theorem normalList_sorted (cfg : Cfg) (hc : cfg.dtmo ≤ tmoMax) (ops : List Op) :
    let d := run Variant.current (Daemon.init cfg) ops
    d.cfg.dtmo ≠ 0 → (d.normal.map d.la).Pairwise (· ≥ ·) := by
  intro d hd
  rw [List.pairwise_map]
  exact ((inv_reachable cfg hc ops).sorted hd).imp (fun hab => hab)

/-- No checked list operation ever fails (no `XDLL_remove` of an element that is not in the list). -/
theorem no_list_corruption (cfg : Cfg) (hc : cfg.dtmo ≤ tmoMax) (ops : List Op) :
    (run Variant.current (Daemon.init cfg) ops).fault = false :=
  (inv_reachable cfg hc ops).nofault

/-- No stamp lies beyond the highest value the clock has shown: with the clock at most `jumpBackLimit`
    behind that value every stamp is within the tolerance of `connection_check_timedout`. -/
theorem stamps_within_tolerance (cfg : Cfg) (hc : cfg.dtmo ≤ tmoMax) (ops : List Op) :
    let d := run Variant.current (Daemon.init cfg) ops
    d.back ≤ jumpBackLimit → ∀ i, (d.c i).la ≤ d.now + jumpBackLimit := by
  intro d hb i
  have : (d.c i).la ≤ d.now + d.back := (inv_reachable cfg hc ops).laLe i
  omega


/-! ### exactness of a whole round -/

/-- **Never closed while idle ≤ T, never while suspended.**  In every state reached by a history whose
    clock is — when the round begins — at most `jumpBackLimit` behind the highest value it has shown
    (forward steps of any size and backward steps in any number and at any position before that), for
    the select and the epoll loop alike: a connection that a round closes for timeout was — when the round
    began — not suspended, had a timeout T ≠ 0 and had been idle for more than T on the clock
    (`now - last_activity > T`; in particular the clock is past the stamp).  Connections that are
    read, resumed or started in that round are therefore not closed by it. -/
theorem round_closes_only_expired (cfg : Cfg) (hc : cfg.dtmo ≤ tmoMax) (ops : List Op) :
    let d := run Variant.current (Daemon.init cfg) ops
    d.now < 2 ^ 62 → d.back ≤ jumpBackLimit → ∀ i aware, Event.tmoClose i aware ∈ (round Variant.current d).2 →
      (d.c i).suspended = false ∧ (d.c i).tmo ≠ 0 ∧ (d.c i).tmo < d.now - (d.c i).la := by
  intro d hnow hback i aware hev
  have h := round_sound Variant.current d i aware hev
  have hI : Inv d := inv_reachable cfg hc ops
  have hT : (d.c i).tmo < 2 ^ 63 := by have := hI.tmoB i; simp only [tmoMax, msPerSec] at this; omega
  exact (checkTimedOut_iff_jump d.now (d.c i) (by have := hI.laLe i; omega) hnow hT).1 h.2.2

/-- The same for ANY state, clock value and code variant, in terms of the close decision:
    a round closes for timeout only what `connection_check_timedout` accepts for the pre-round state. -/
theorem round_sound_any_state (v : Variant) (d : Daemon) (i : Id) (aware : Bool)
    (h : Event.tmoClose i aware ∈ (round v d).2) :
    (d.c i).suspended = false ∧ (d.c i).tmo ≠ 0 ∧ checkTimedOut d.now (d.c i) = true :=
  round_sound v d i aware h

/-- Suspended connections are not closed for timeout by a round, not even the one that resumes them. -/
theorem suspended_not_closed_by_round (v : Variant) (d : Daemon) (i : Id) (aware : Bool)
    (hs : (d.c i).suspended = true) : Event.tmoClose i aware ∉ (round v d).2 := by
  intro h
  have := (round_sound v d i aware h).1
  rw [hs] at this; cases this

/-- **Closed in the first round after idle > T (epoll loop).**  In every reachable state of a daemon
    that runs the epoll loop, every live (started, not suspended) connection with timeout T ≠ 0 that has
    been idle for more than T is closed for timeout by the very next round — with
    MHD_REQUEST_TERMINATED_TIMEOUT_REACHED reported iff the application has seen the request.
    This is where the order of the default-timeout list is needed: the loop stops scanning at the first
    connection that is not expired. -/
theorem epoll_round_closes_every_expired (cfg : Cfg) (hc : cfg.dtmo ≤ tmoMax) (ops : List Op) :
    let d := run Variant.current (Daemon.init cfg) ops
    d.cfg.epoll = true → d.now < 2 ^ 62 → d.back ≤ jumpBackLimit → ∀ i, i ∈ d.conns → (d.c i).closed = false →
      (d.c i).tmo ≠ 0 → (d.c i).tmo < d.now - (d.c i).la →
      Event.tmoClose i (d.c i).aware ∈ (round Variant.current d).2 := by
  intro d he hnow hback i hi hcl h0 hidle
  have h : Inv d := inv_reachable cfg hc ops
  have hT : (d.c i).tmo < 2 ^ 63 := by have := h.tmoB i; simp only [tmoMax, msPerSec] at this; omega
  have ht : checkTimedOut d.now (d.c i) = true :=
    (checkTimedOut_iff_jump d.now (d.c i) (by have := h.laLe i; omega) hnow hT).2 ⟨h.connsS i hi, h0, hidle⟩
  unfold round
  simp only [he, if_true]
  exact roundEpoll_complete current_is_repaired h hnow hback i hi hcl ht

/-- **Closed in the first round after idle > T (select loop).**  For a select loop that saves
    `pos->prev` before it calls the handlers (`selectSavesPrev`, i.e. F10 repaired — the flag is probed on
    the real code on every run and is not part of C10): in every reachable state every live connection
    that has been idle for more than its timeout and whose socket has nothing to read is closed for
    timeout by the very next round.  (A connection with readable data is read first — that is activity.) -/
theorem select_round_closes_every_expired (hsp : Variant.current.savePrev = true)
    (cfg : Cfg) (hc : cfg.dtmo ≤ tmoMax) (ops : List Op) :
    let d := run Variant.current (Daemon.init cfg) ops
    d.cfg.epoll = false → d.now < 2 ^ 62 → d.back ≤ jumpBackLimit → ∀ i, i ∈ d.conns → (d.c i).closed = false →
      (d.c i).unread = false → (d.c i).peerClosed = false → (d.c i).replying = false →
      (d.c i).tmo ≠ 0 → (d.c i).tmo < d.now - (d.c i).la →
      Event.tmoClose i (d.c i).aware ∈ (round Variant.current d).2 := by
  intro d he hnow hback i hi hcl hu hp hrep h0 hidle
  have h : Inv d := inv_reachable cfg hc ops
  have hT : (d.c i).tmo < 2 ^ 63 := by have := h.tmoB i; simp only [tmoMax, msPerSec] at this; omega
  have ht : checkTimedOut d.now (d.c i) = true :=
    (checkTimedOut_iff_jump d.now (d.c i) (by have := h.laLe i; omega) hnow hT).2 ⟨h.connsS i hi, h0, hidle⟩
  unfold round
  simp only [he, Bool.false_eq_true, if_false]
  exact roundSelect_complete current_is_repaired hsp h i hi hcl ⟨hu, hp⟩ hrep ht

/-- The manual-timeout list is scanned completely by the epoll loop: every expired member is closed
    (any state, any variant). -/
theorem manual_scan_closes_expired (d : Daemon) (i : Id) (hnd : d.manual.Nodup) (hi : i ∈ d.manual)
    (hc : (d.c i).closed = false) (ht : checkTimedOut d.now (d.c i) = true) :
    Event.tmoClose i (d.c i).aware ∈ (scanManual d.manual.reverse d).2 :=
  scanManual_complete _ d i (nodup_reverse' hnd) (List.mem_reverse.2 hi) hc ht

/- Full statement for the select loop (not proved, and false for the pinned select loop — F10, owned by
   C06: `internal_run_from_select` reads `pos->prev` after `call_handlers`, so a connection that is
   cleaned up or suspended in a round ends the traversal of that round):
     every live expired connection whose socket is not readable is closed by the next select round.
   Proved here for BOTH ways of reading `pos->prev`: the traversal closes every expired connection in a
   round in which no socket is readable and no closed connection awaits its cleanup (then no connection
   leaves the list).  With F10 repaired the side condition is not needed: see
   `select_round_closes_every_expired` above. -/
theorem select_round_closes_expired_partial (v : Variant) (rs : List Id) (l : List Id) (d : Daemon) (i : Id)
    (hnd : l.Nodup) (hi : i ∈ l)
    (hquiet : ∀ j, j ∈ l → j ∈ d.conns ∧ (d.c j).closed = false ∧ rs.contains j = false ∧ (d.c j).replying = false)
    (ht : checkTimedOut d.now (d.c i) = true) :
    Event.tmoClose i (d.c i).aware ∈ (travSel v rs l d).2 :=
  travSel_complete v rs l d i hnd hi hquiet ht

/-! ### override and resume -/

/-- An override takes effect immediately: the value is stored whether or not the connection is
    suspended … -/
theorem override_immediate (d : Daemon) (i : Id) (s : Nat) :
    ((setTimeout Variant.current d i s).c i).tmo = s * msPerSec :=
  setTimeout_tmo current_is_repaired.2.1 d i s

/-- … and a live connection is on the timeout list that is consulted for that value. -/
theorem override_list_migration (cfg : Cfg) (hc : cfg.dtmo ≤ tmoMax) (ops : List Op)
    (i : Id) (s : Nat) (hs : s ≤ 4000000) :
    let d := run Variant.current (Daemon.init cfg) ops
    i ∈ d.conns →
      (i ∈ (setTimeout Variant.current d i s).normal ↔ s * msPerSec = d.cfg.dtmo) ∧
      (i ∈ (setTimeout Variant.current d i s).manual ↔ s * msPerSec ≠ d.cfg.dtmo) := by
  intro d hi
  exact setTimeout_list current_is_repaired (inv_reachable cfg hc ops) i s hi hs

/-- Resume restarts the timer. -/
theorem resume_restarts_timer (v : Variant) (d : Daemon) (i : Id) (hr : (d.c i).resuming = true) :
    ((resumeOne v d i).c i).suspended = false ∧ ((resumeOne v d i).c i).tmo = (d.c i).tmo ∧
    ((d.c i).tmo ≠ 0 → ((resumeOne v d i).c i).la = d.now) :=
  resumeOne_restarts v d i hr

/-! ### the sleep hint in every reachable state -/

/-- `hint ≤ earliestDeadline − now + 100 ms`, small backward clock jumps included: in every state whose
    clock is at most `jumpBackLimit` behind the highest value it has shown, for every connection in a
    timeout list that has a timeout, the hint does not exceed the time left to its deadline
    (`last_activity + T - now`) plus the granularity, and the hint is 0 once a deadline has passed. -/
theorem hint_le_earliest_deadline (cfg : Cfg) (hc : cfg.dtmo ≤ tmoMax) (ops : List Op) :
    let d := run Variant.current (Daemon.init cfg) ops
    d.now + jumpBackLimit < 2 ^ 62 → d.back ≤ jumpBackLimit → ∀ hh, hint Variant.current d = some hh →
      ∀ i, i ∈ d.normal ∨ i ∈ d.manual → (d.c i).tmo ≠ 0 →
        hh ≤ ((d.c i).la + (d.c i).tmo - d.now) + granularity ∧
        ((d.c i).la + (d.c i).tmo < d.now → hh = 0) := by
  intro d hnow hback hh heq i hi hti
  have hI : Inv d := inv_reachable cfg hc ops
  exact hint_bound current_is_repaired.2.2.2.1 hI (by omega) hback hh heq i hi hti

/-- `MHD_get_timeout64` answers "no timeout" only when nothing is pending and no connection in a
    timeout list has a timeout. -/
theorem hint_none_only_when_idle (cfg : Cfg) (hc : cfg.dtmo ≤ tmoMax) (ops : List Op) :
    let d := run Variant.current (Daemon.init cfg) ops
    d.now + d.back < 2 ^ 62 → hint Variant.current d = none →
      pending d = false ∧ ∀ i, i ∈ d.normal ∨ i ∈ d.manual → (d.c i).tmo = 0 := by
  intro d hnow heq
  exact hint_none current_is_repaired.2.2.2.1 (inv_reachable cfg hc ops) hnow heq

/-- The hint is 0 whenever work is already pending (data_already_pending, a non-empty cleanup list,
    a resume request, queued new connections, a non-empty eready list) — every state, every variant. -/
theorem hint_zero_when_pending (v : Variant) (d : Daemon) (hp : pending d = true) : hint v d = some 0 :=
  hint_pending v d hp

/-! ### idle means no socket I/O progress: sends count, partial ones included -/

/-- **Every send that makes progress restarts the timer** (the regenerated table of the call sites of
    `MHD_update_last_activity_`): in each of the five states in which `MHD_connection_handle_write` sends
    (100 Continue, header block, normal body, chunked body, footers) the call follows the send and no
    completion test (`check_write_done`, offset comparison) stands between them — a partial send counts. -/
theorem partial_send_is_activity :
    ∀ s, s ∈ sendStates → activitySites.any (fun t =>
      t.1 == "MHD_connection_handle_write" && t.2.1 == s && t.2.2.1 && t.2.2.2) = true := by
  decide

/-- … and so does every successful `recv`. -/
theorem recv_is_activity :
    activitySites.any (fun t => t.1 == "MHD_connection_handle_read" && t.2.2.1 && t.2.2.2) = true := by
  decide

/-- In the model: a replying connection whose socket takes more bytes in the round (a parameter of the
    round: any set of connections, so every pattern of partial sends) is stamped with the current time
    and is not closed for timeout by that `call_handlers` — however long it was idle before. -/
theorem send_progress_restarts_timer (v : Variant) (d : Daemon) (i : Id) (r : Bool)
    (hi : i ∈ d.normal ∨ (d.c i).tmo ≠ d.cfg.dtmo) (hc : (d.c i).closed = false) (hr : (d.c i).replying = true)
    (hs : (d.c i).suspended = false) (h0 : (d.c i).tmo ≠ 0) (hw : i ∈ d.wset) :
    ((writeStep v d i).1.c i).la = d.now ∧ ∀ a, Event.tmoClose i a ∉ (callHandlersSel0 v d i r).2 :=
  send_progress_is_activity v d i r hi hc hr hs h0 hw

/-- A replying connection without progress in the round is closed exactly like an idle one. -/
theorem replying_without_progress_times_out (v : Variant) (d : Daemon) (i : Id) (r : Bool)
    (hc : (d.c i).closed = false) (hr : (d.c i).replying = true) (hw : i ∉ d.wset) (hf : i ∉ d.fset)
    (ht : checkTimedOut d.now (d.c i) = true) :
    Event.tmoClose i (d.c i).aware ∈ (callHandlersSel0 v d i r).2 :=
  no_progress_times_out v d i r hc hr hw hf ht

/-- a reply drained in pieces 4 s apart under a 10 s timeout: never closed; then 10001 ms without any
    progress: closed with the timeout code (the history theorems `inv_reachable`,
    `round_closes_only_expired`, `hint_le_earliest_deadline` quantify over such histories too) -/
theorem slow_reader_is_not_idle :
    let v : Variant := ⟨true, true, true, true, true, true, true⟩
    let ops : List Op := [.arrive 0, .round, .get 0 false, .round, .tick 4000, .roundw [0] [], .tick 4000, .roundw [0] [],
      .tick 4000, .roundw [0] [], .tick 4000, .roundw [0] []]
    let d := run v (Daemon.init ⟨false, 10000, true⟩) ops
    d.now = clock0 + 16000 ∧ (d.c 0).closed = false ∧ (d.c 0).la = d.now ∧ hint v d = some 10000 ∧
    (step v (run v d [.tick 10001]) .round).map (·.2) = some [Event.tmoClose 0 true] := by
  decide

/-! ### "zero whenever work is already pending": the flag is an accumulation over the round -/

/-- the tree under test only ever RAISES `data_already_pending` at the end of `call_handlers`
    (probed on the real code on every run: two connections, the older one left with unprocessed upload
    data, the younger one idle, select loop) -/
theorem current_accumulates_pending : Variant.current.pendAccum = true := rfl

/-- The end of `call_handlers`: the flag is raised for a connection in a PROCESS wait state, an already
    raised flag stays, no connection record is touched. -/
theorem pending_flag_only_raised (d : Daemon) (i : Id) :
    (notePending Variant.current d i).c = d.c ∧
    (procWait (d.c i) = true → (notePending Variant.current d i).dataPending = true) ∧
    (d.dataPending = true → (notePending Variant.current d i).dataPending = true) :=
  notePending_spec current_accumulates_pending d i

/-- **The sleep hint is zero whenever a connection handled in the round has work pending** — the real
    accumulation, connection by connection in traversal order: for the select loop (with `pos->prev`
    saved, F10 repaired), any state, any list of connections in any order, any set of readable sockets:
    after the traversal, if some traversed connection is in a PROCESS wait state (here: upload data the
    handler has left in the read buffer) then `MHD_get_timeout64` returns 0 — also when connections with
    nothing pending are handled after it. -/
theorem select_traversal_pending_hint_zero (hsp : Variant.current.savePrev = true) (rs l : List Id) (d : Daemon)
    (hnd : l.Nodup) (i : Id) (hi : i ∈ l)
    (hp : procWait ((travSel Variant.current rs l d).1.c i) = true) :
    hint Variant.current (travSel Variant.current rs l d).1 = some 0 := by
  have h := (travSel_pending current_accumulates_pending hsp rs l d hnd).2 i hi hp
  exact hint_pending _ _ (by simp [pending, h])

/-- A flag that is already up survives the traversal. -/
theorem select_traversal_keeps_pending (hsp : Variant.current.savePrev = true) (rs l : List Id) (d : Daemon)
    (hnd : l.Nodup) (h : d.dataPending = true) : (travSel Variant.current rs l d).1.dataPending = true :=
  (travSel_pending current_accumulates_pending hsp rs l d hnd).1 h

/-- two connections, the older one (0) gets four upload bytes and a handler that takes one per call -/
def pendHistory : List Op := [.arrive 0, .arrive 1, .round, .slow 0, .sendn 0 4, .round]

/-- the tree with `call_handlers` ASSIGNING the flag for every connection (seeded change C10_4) -/
def assignsPending : Variant := ⟨true, true, true, true, true, true, false⟩

/-- With the assignment, the idle connection 1 — handled after connection 0 — writes the flag back:
    three upload bytes wait in the read buffer of connection 0, no socket event will come, and the hint
    is the time to the next deadline. -/
theorem assigned_flag_is_cleared_by_idle_connection :
    let d := run assignsPending (Daemon.init ⟨false, 10000, true⟩) pendHistory
    (d.c 0).buf = 3 ∧ procWait (d.c 0) = true ∧ d.dataPending = false ∧ hint assignsPending d = some 10000 := by
  decide

/-- … whereas the accumulating form gives 0, in the select and in the epoll loop, for three rounds. -/
theorem accumulated_flag_gives_zero :
    let v : Variant := ⟨true, true, true, true, true, true, true⟩
    (∀ e, hint v (run v (Daemon.init ⟨e, 10000, true⟩) pendHistory) = some 0) ∧
    (∀ e, hint v (run v (Daemon.init ⟨e, 10000, true⟩) (pendHistory ++ [.round, .round])) = some 0) ∧
    (∀ e, hint v (run v (Daemon.init ⟨e, 10000, true⟩) (pendHistory ++ [.round, .round, .round])) = some 10000) := by
  decide

/-! ### what the event loops and the legacy API make of the hint (every `uint64_t` value, every cap) -/

/-- No wrapper or loop-internal conversion of a hint `u` yields a wait longer than `u`, and none yields
    a negative one: MHD_get_timeout64s, MHD_get_timeout_i, get_timeout_millisec_ and
    get_timeout_millisec_int (cap `maxT`, -1 = none; used by MHD_poll_all and MHD_epoll), the poll timeout
    of thread_main_handle_connection. -/
theorem conversions_never_longer (u : Nat) (maxT : Int) (hm : -1 ≤ maxT) (hM : maxT ≤ intMax) :
    (0 ≤ getTimeout64s (some u) ∧ getTimeout64s (some u) ≤ u) ∧
    (0 ≤ getTimeoutI (some u) ∧ getTimeoutI (some u) ≤ u ∧ getTimeoutI (some u) ≤ intMax) ∧
    (0 ≤ getTimeoutMillisec (some u) maxT ∧ getTimeoutMillisec (some u) maxT ≤ u) ∧
    (0 ≤ getTimeoutMillisecInt (some u) maxT ∧ getTimeoutMillisecInt (some u) maxT ≤ u ∧
      getTimeoutMillisecInt (some u) maxT ≤ intMax ∧ (0 ≤ maxT → getTimeoutMillisecInt (some u) maxT ≤ maxT)) ∧
    (0 ≤ tpcPoll u ∧ tpcPoll u ≤ u ∧ tpcPoll u ≤ intMax) := by
  have a := getTimeout64s_spec u
  have b := getTimeoutI_spec u
  have c := getTimeoutMillisec_spec u maxT hm hM
  have e := getTimeoutMillisecInt_spec u maxT hm hM
  have f := tpcPoll_spec u
  exact ⟨⟨a.1, a.2.1⟩, ⟨b.1, b.2.1, b.2.2.1⟩, ⟨c.1, c.2.1⟩, ⟨e.1, e.2.1, e.2.2.1, e.2.2.2.1⟩, ⟨f.1, f.2.1, f.2.2.1⟩⟩

/-- The legacy wrappers are exact with respect to MHD_get_timeout64: `MHD_get_timeout` returns the same
    value (and MHD_NO together with it), `MHD_get_timeout64s` / `MHD_get_timeout_i` return it whenever it
    fits the type and -1 exactly for MHD_NO. -/
theorem legacy_wrappers_exact (u : Nat) (hu : u < W) :
    getTimeoutULL (some u) = some u ∧ getTimeoutULL none = none ∧
    ((u : Int) ≤ int64Max → getTimeout64s (some u) = u) ∧ getTimeout64s none = -1 ∧
    ((u : Int) ≤ intMax → getTimeoutI (some u) = u) ∧ getTimeoutI none = -1 :=
  ⟨(getTimeoutULL_spec u hu).1, (getTimeoutULL_spec u hu).2, (getTimeout64s_spec u).2.2.2, getTimeoutI_none.2,
   (getTimeoutI_spec u).2.2.2, getTimeoutI_none.1⟩

/-- The poll / epoll_wait timeout of the internal loops is the hint itself when it fits an `int` and no
    cap is lower, and the cap (or -1 = indefinitely) when there is no hint. -/
theorem loop_timeout_exact (u : Nat) (maxT : Int) (hm : -1 ≤ maxT) (hM : maxT ≤ intMax) :
    ((u : Int) ≤ intMax → (maxT = -1 ∨ (u : Int) ≤ maxT) → maxT ≠ 0 → getTimeoutMillisecInt (some u) maxT = u) ∧
    getTimeoutMillisecInt none maxT = maxT :=
  ⟨(getTimeoutMillisecInt_spec u maxT hm hM).2.2.2.2, getTimeoutMillisecInt_none maxT hM⟩

/-- MHD_select: the value put into the `struct timeval` never exceeds the hint (nor a positive cap), and
    the timeval denotes it exactly — every `uint64_t`. -/
theorem select_timeval_exact (u : Nat) (hu : u < W) (millisec : Int) :
    ∃ t, selectTmo (some u) millisec = some t ∧ t ≤ u ∧ (0 < millisec → (t : Int) ≤ millisec) ∧
      0 ≤ (selectTv t).1 ∧ 0 ≤ (selectTv t).2 ∧ (selectTv t).2 < 1000000 ∧
      (selectTv t).1 * 1000 + (selectTv t).2 / 1000 = t := by
  obtain ⟨t, h1, h2, h3, _⟩ := selectTmo_spec u millisec
  have := selectTv_exact t (Nat.lt_of_le_of_lt h2 hu)
  exact ⟨t, h1, h2, h3, this⟩

/-- thread_main_handle_connection: the timeval denotes the remaining time exactly for every value below
    2^63 ms (the API admits timeouts up to `UINT64_MAX / 4000 - 1` s only) … -/
theorem thread_timeval_exact (ms : Nat) (h : ms < 9223372036854775808) :
    0 ≤ (tpcTv ms).1 ∧ 0 ≤ (tpcTv ms).2 ∧ (tpcTv ms).2 < 1000000 ∧
    (tpcTv ms).1 * 1000 + (tpcTv ms).2 / 1000 = ms :=
  tpcTv_exact ms h

/-- … and beyond that the cast-before-division makes `tv_sec` negative (select fails), never longer. -/
theorem thread_timeval_huge_negative (ms : Nat) (h1 : 9223372036854775808 + 1000 ≤ ms) (h2 : ms + 1000 ≤ W) :
    (tpcTv ms).1 < 0 :=
  tpcTv_huge ms h1 h2

/-- **The wait of the internal loops never exceeds the earliest deadline + granularity**: in every
    reachable state with a small clock displacement, whatever cap the loop passes. -/
theorem loop_wait_le_earliest_deadline (cfg : Cfg) (hc : cfg.dtmo ≤ tmoMax) (ops : List Op)
    (maxT : Int) (hm : -1 ≤ maxT) (hM : maxT ≤ intMax) :
    let d := run Variant.current (Daemon.init cfg) ops
    d.now + jumpBackLimit < 2 ^ 62 → d.back ≤ jumpBackLimit → ∀ hh, hint Variant.current d = some hh →
      ∀ i, i ∈ d.normal ∨ i ∈ d.manual → (d.c i).tmo ≠ 0 →
        getTimeoutMillisecInt (some hh) maxT ≤ (((d.c i).la + (d.c i).tmo - d.now) + granularity : Nat) := by
  intro d hnow hback hh heq i hi hti
  have h1 : hh ≤ ((d.c i).la + (d.c i).tmo - d.now) + granularity :=
    (hint_le_earliest_deadline cfg hc ops hnow hback hh heq i hi hti).1
  have h2 := (getTimeoutMillisecInt_spec hh maxT hm hM).2.1
  exact Int.le_trans h2 (Int.ofNat_le.2 h1)

/-! ### witnesses: what the unrepaired code does (kernel-checked by evaluation of the model) -/

def cfgT10 (epoll : Bool) : Cfg := ⟨epoll, 10000, true⟩

/-- the three-step history of F11: A and B arrive, A is overridden to 5 s, B is active 3 s later,
    A is overridden back to the default 10 s one second after that -/
def f11History : List Op :=
  [.arrive 0, .arrive 1, .round, .setTimeout 0 5, .tick 3000, .send 1, .round, .tick 1000, .setTimeout 0 10]

/-- F11: the override back to the default value puts A (older stamp) in front of B: the list is not
    sorted, and the hint is 9000 ms although A's deadline is 6000 ms away. -/
theorem asIs_F11_hint_exceeds_deadline :
    let d := run Variant.asIs (Daemon.init (cfgT10 false)) f11History
    d.normal = [0, 1] ∧ (d.c 0).la < (d.c 1).la ∧
    hint Variant.asIs d = some 9000 ∧ (d.c 0).la + (d.c 0).tmo - d.now = 6000 := by
  decide

/-- F11 in epoll mode: 6.5 s later A has been idle for 10.5 s > 10 s, but the round does not close it
    (the scan stops at B, which is not expired) … -/
theorem asIs_F11_epoll_expired_not_closed :
    let d := run Variant.asIs (Daemon.init (cfgT10 true)) (f11History ++ [.round, .tick 6500])
    checkTimedOut d.now (d.c 0) = true ∧ (round Variant.asIs d).2 = [] := by
  decide

/-- … whereas the repaired insertion keeps the list sorted, gives the hint 6000 and closes A in that round. -/
theorem repaired_F11 :
    let v : Variant := ⟨true, true, true, true, false, true, true⟩
    let d := run v (Daemon.init (cfgT10 true)) f11History
    d.normal = [1, 0] ∧ hint v d = some 6000 ∧
    (round v (run v d [.round, .tick 6500])).2 = [Event.tmoClose 0 false] := by
  decide

/-- F11b: an override on a suspended connection is silently dropped by the unrepaired code … -/
theorem asIs_F11b_override_ignored_while_suspended :
    let d := run Variant.asIs (Daemon.init (cfgT10 false))
      [.arrive 0, .round, .susp 0, .send 0, .round, .setTimeout 0 3]
    (d.c 0).suspended = true ∧ (d.c 0).tmo = 10000 := by
  decide

/-- F11c: a connection queued before a resumed one is inserted in front of it with its older stamp. -/
theorem asIs_F11c_new_connection_breaks_order :
    let d := run Variant.asIs (Daemon.init (cfgT10 true))
      [.arrive 0, .round, .susp 0, .send 0, .round, .tick 1000, .arrive 1, .tick 2000, .resume 0, .round]
    d.normal = [1, 0] ∧ (d.c 1).la < (d.c 0).la := by
  decide

/-- F11d: with a timed-out connection still waiting for its cleanup, the wrapped comparison in the
    manual-list scan skips it and the hint is 7000 ms instead of 0. -/
theorem asIs_F11d_hint_skips_expired :
    let d := run Variant.asIs (Daemon.init (cfgT10 false))
      [.arrive 0, .arrive 1, .round, .setTimeout 0 1, .setTimeout 1 7, .tick 2000, .send 1, .round]
    (d.c 0).closed = true ∧ 0 ∈ d.manual ∧ (d.c 0).la + (d.c 0).tmo < d.now ∧
    hint Variant.asIs d = some 7000 := by
  decide

/-- the history of F11e: both connections are active, the clock steps back by 300 ms (well inside the
    5000 ms tolerance), then the older one of the two is active again -/
def f11eHistory : List Op :=
  [.arrive 0, .arrive 1, .round, .tick 1000, .send 0, .round, .tickback 300, .send 1, .round, .tick 1000]

/-- the tree with every earlier repair but head insertion of freshly stamped connections -/
def preF11e : Variant := ⟨true, true, true, true, true, false, true⟩

/-- F11e: after a small backward jump the freshly stamped connection 1 is put in front of connection 0
    whose stamp is younger: the list is not sorted, and the hint (9300 ms) exceeds the time left to
    connection 1's deadline (9000 ms) by more than the granularity. -/
theorem asIs_F11e_jump_breaks_order :
    let d := run preF11e (Daemon.init (cfgT10 true)) f11eHistory
    d.back ≤ jumpBackLimit ∧ d.normal = [1, 0] ∧ (d.c 1).la < (d.c 0).la ∧
    hint preF11e d = some 9300 ∧ (d.c 1).la + (d.c 1).tmo - d.now = 9000 := by
  decide

/-- F11e in epoll mode: 9001 ms later connection 1 has been idle for 10001 ms > 10 s, but the round does
    not close it (the scan stops at connection 0, the tail, which is not expired) … -/
theorem asIs_F11e_epoll_expired_not_closed :
    let d := run preF11e (Daemon.init (cfgT10 true)) (f11eHistory ++ [.tick 9001])
    d.back ≤ jumpBackLimit ∧ (d.c 1).tmo < d.now - (d.c 1).la ∧ (round preF11e d).2 = [] := by
  decide

/-- … whereas the sorted insertion keeps the order, gives the hint 9000 and closes connection 1 in that
    round. -/
theorem repaired_F11e :
    let v : Variant := ⟨true, true, true, true, true, true, true⟩
    let d := run v (Daemon.init (cfgT10 true)) f11eHistory
    d.normal = [0, 1] ∧ hint v d = some 9000 ∧
    (round v (run v d [.tick 9001])).2 = [Event.tmoClose 1 true] := by
  decide

/-- The boundary of "small": with the clock more than `jumpBackLimit` behind the highest value it has
    shown (here two steps of 3000 ms) the code's own rule ("too large jump back") closes a connection
    whose idle time on the clock is 0 — the hypothesis `back ≤ jumpBackLimit` of
    `round_closes_only_expired` cannot be dropped. -/
theorem largeDisplacement_closes_idle :
    let v : Variant := ⟨true, true, true, true, true, true, true⟩
    let d := run v (Daemon.init (cfgT10 false)) [.arrive 0, .round, .tickback 3000, .tickback 3000]
    d.back = 6000 ∧ d.now - (d.c 0).la = 0 ∧ (round v d).2 = [Event.tmoClose 0 false] := by
  decide

/-! ### non-vacuity -/

/-- a reachable state with a suspended connection, one on the manual list and one on the normal list
    satisfies the invariant, has a hint, and that hint obeys the bound -/
example :
    let d := run Variant.current (Daemon.init (cfgT10 true))
      [.arrive 0, .arrive 1, .arrive 2, .round, .send 0, .send 1, .round, .setTimeout 1 7, .susp 0, .send 0,
       .tick 500, .round, .tick 2500, .round]
    Inv d ∧ d.susp = [0] ∧ d.manual = [1] ∧ d.normal = [2] ∧ hint Variant.current d = some 4000 := by
  refine ⟨inv_reachable _ (by decide) _, ?_⟩
  decide

/-- a reachable state after backward jumps at three positions (cumulated 4999 ms behind the high-water
    mark at the end): the hypotheses of the history theorems hold, the list is sorted although
    connection 1 was stamped after the jumps, and the hint is exact -/
example :
    let d := run Variant.current (Daemon.init (cfgT10 true))
      [.arrive 0, .arrive 1, .round, .tick 6000, .send 0, .round, .tickback 2000, .send 1, .round, .tickback 2999,
       .tick 1000, .tickback 1000]
    d.now < 2 ^ 62 ∧ d.back ≤ jumpBackLimit ∧ d.back = 4999 ∧ d.normal = [0, 1] ∧ (d.c 1).la < (d.c 0).la ∧
    d.now < (d.c 1).la ∧ hint Variant.current d = some 100 := by
  decide

example : ∃ now c, c.la ≤ now ∧ now < 2 ^ 63 ∧ checkTimedOut now c = true :=
  ⟨20001, { la := 10000, tmo := 10000 }, by decide, by decide, by decide⟩

example : getTimeoutMillisecInt (some 18446744073709551615) (-1) = 2147483647 ∧ getTimeoutMillisecInt (some 7000) 250 = 250 ∧
    getTimeoutI (some 4294967296) = 2147483647 ∧ selectTv 18446744073709551615 = (18446744073709551, 615000) ∧
    tpcTv 9999 = (9, 999000) := by decide

example : ∃ now c, now < c.la ∧ c.la - now ≤ jumpBackLimit ∧ c.la < W ∧ c.tmo < 2 ^ 63 ∧ getWait now c = 100 :=
  ⟨1000, { la := 6000, tmo := 10000 }, by decide, by decide, by decide, by decide, by decide⟩

end Mhd.C10
