/-
  C09 — Connection limits hold and no capacity or resource is ever leaked.

  Statements only (helper lemmas live in `Mhd.Proofs.Limits*`).  The model is
  `Mhd.Model.Limits`: `step : St → Op → St × List Ev` mirrors the admission and
  disposal code of daemon.c and the reference count of response.c.  Every
  theorem quantifies over every configuration (limits, per-address limit,
  thread-safe or not, epoll or not, thread per connection or not), every state
  satisfying the invariant and every operation; `run_*` lift them to every
  history (list of operations of any length), including every failure exit of
  connection admission (the injected failure site is part of the state).

  What `daemon->connections` counts (found by reading the code, stated in
  `limits_hold`): the members of `connections`, `suspended_connections` and
  `cleanup` — *not* the externally added connections still waiting in
  `new_connections`; the per-address counters also count those.
-/
import Mhd.Proofs.LimitsTrace
import Mhd.Proofs.LimitsResp
import Mhd.Proofs.LimitsFree
import Mhd.Proofs.LimitsPool

namespace Mhd.C09
open Mhd.Limits

/-- The accounting invariant is preserved by every operation: arrival (accepted, refused by
    the global limit, by the per-address limit, by the accept policy, failed in any of the
    allocations, refused by the second limit check, failed after insertion), event-loop
    round (resume, new-connection list, handlers incl. suspend / upgrade / close, cleanup),
    client events, resume / upgrade-close, query, stop. -/
theorem step_inv (s : St) (o : Op) (h : Inv s) : Inv (step s o).1 :=
  Mhd.Limits.step_inv s o h

/-- … hence it holds after every history, from every configuration. -/
theorem run_inv (cfg : Cfg) (ops : List Op) : Inv (run (St.init cfg) ops).1 :=
  Mhd.Limits.run_inv ops _ (init_inv cfg)

/-- In every reachable state: the counter is exactly the number of connections in the
    active, suspended and cleanup lists and never exceeds the limit; for every address the
    counter equals the number of connections from that address in the four lists and never
    exceeds the per-address limit; the MHD_PANIC of `MHD_ip_limit_del` and a wrap-around of
    the counter are unreachable. -/
theorem limits_hold (cfg : Cfg) (ops : List Op) :
    let s := (run (St.init cfg) ops).1
    s.connections = s.active.length + s.susp.length + s.cleanup.length ∧
    s.connections ≤ s.cfg.limit ∧
    (∀ a, s.cfg.perIp ≠ 0 → a ≠ 0 →
      s.ipCount a = ((s.newL ++ s.active ++ s.susp ++ s.cleanup).filter (fun c => c.addr == a)).length) ∧
    (∀ a, s.ipCount a ≤ s.cfg.perIp) ∧
    s.fault ≠ some .ipDelZero ∧ s.fault ≠ some .connUnderflow := by
  intro s
  have h : Inv s := run_inv cfg ops
  refine ⟨?_, h.le, ?_, h.ipLe, h.cf.1, h.cf.2⟩
  · have := h.conns; simpa [mu_all] using this
  · intro a hp ha
    have := h.ip a
    simp only [hp, ha, or_self, if_false, tot, mu_nil, Nat.add_zero] at this
    rw [this]
    simp [mu, isA, List.countP_eq_length_filter, List.filter_append, Nat.add_assoc]

/-- Capacity is restored: whenever no connection is left in any list (all were closed and
    cleaned up, or the daemon was stopped), the counter and every per-address counter are
    back to zero — no failure exit and no close path has lost a unit. -/
theorem capacity_restored (cfg : Cfg) (ops : List Op) :
    let s := (run (St.init cfg) ops).1
    s.newL = [] → s.active = [] → s.susp = [] → s.cleanup = [] →
    s.connections = 0 ∧ ∀ a, s.ipCount a = 0 := by
  intro s h1 h2 h3 h4
  have h : Inv s := run_inv cfg ops
  refine ⟨?_, fun a => ?_⟩
  · have := h.conns; simpa [h2, h3, h4] using this
  · have := h.ip a
    simp only [tot, h1, h2, h3, h4, mu_nil] at this
    by_cases hg : s.cfg.perIp = 0 ∨ a = 0 <;> simp [hg] at this <;> exact this

/-- Closing every connection and one (cleanup) round restores the capacity: in any reachable
    state in which no connection is waiting in `new_connections` or suspended and every
    active connection's client has closed (no unanswered request), one event-loop round leaves
    every list empty and both kinds of counters at zero. -/
theorem close_all_then_round (cfg : Cfg) (ops : List Op) :
    let s := (run (St.init cfg) ops).1
    s.newL = [] → s.susp = [] → (∀ c ∈ s.active, c.req = none ∧ c.clientClosed = true) →
    let s' := (round s).1
    (s'.newL = [] ∧ s'.active = [] ∧ s'.susp = [] ∧ s'.cleanup = []) ∧ s'.connections = 0 ∧ ∀ a, s'.ipCount a = 0 := by
  intro s h1 h2 h3 s'
  have he := round_closes_all s h1 h2 h3
  obtain ⟨e1, e2, e3, e4⟩ := he
  have hinv : Inv s' := round_inv s (run_inv cfg ops)
  refine ⟨⟨e1, e2, e3, e4⟩, ?_, fun a => ?_⟩
  · have := hinv.conns; simpa [s', e2, e3, e4] using this
  · have := hinv.ip a
    simp only [tot, s', e1, e2, e3, e4, mu_nil] at this
    by_cases hg : (round s).1.cfg.perIp = 0 ∨ a = 0 <;> simp [hg] at this <;> exact this

/-- Stopping the daemon after any history (`MHD_stop_daemon` called once, suspended connections
    resumed before as the API demands — otherwise the C code MHD_PANICs, `stopSuspended`):
    no connection is left in any list, both kinds of counters are zero, and over the whole
    trace every connection that ever arrived (index `< nextId`: accepted, refused or failed at
    any exit) had its socket closed exactly once, every start notification is matched by
    exactly one close notification, and no connection is started twice. -/
theorem stop_exactly_once (cfg : Cfg) (ops : List Op) :
    let r := run (St.init cfg) ops
    let q := step r.1 .stop
    r.1.shutdown = false → r.1.fault = none → q.1.fault ≠ some .stopSuspended →
    (q.1.newL = [] ∧ q.1.active = [] ∧ q.1.susp = [] ∧ q.1.cleanup = []) ∧
    q.1.connections = 0 ∧ (∀ a, q.1.ipCount a = 0) ∧
    (∀ c, fdc c (r.2 ++ q.2) = if c < r.1.nextId then 1 else 0) ∧
    (∀ c, clc c (r.2 ++ q.2) = stc c (r.2 ++ q.2) ∧ stc c (r.2 ++ q.2) ≤ 1) := by
  intro r q h1 h2 h3
  have hq : q = stop r.1 := step_stop_eq r.1 h1 h2
  have he := stop_empties r.1 (by rw [← hq]; exact h3)
  rw [← hq] at he
  obtain ⟨e1, e2, e3, e4⟩ := he
  have hinv : Inv q.1 := Mhd.Limits.step_inv r.1 .stop (run_inv cfg ops)
  have ht0 : TInv r.1 ([] ++ r.2) := run_tinv ops _ [] (init_tinv cfg)
  have ht : TInv q.1 (r.2 ++ q.2) := by simpa using step_tinv r.1 .stop _ ht0
  have hn : q.1.nextId = r.1.nextId := by rw [hq]; exact (stop_bal 0 r.1).2
  refine ⟨⟨e1, e2, e3, e4⟩, ?_, ?_, ?_, ?_⟩
  · have := hinv.conns; simpa [e2, e3, e4] using this
  · intro a
    have := hinv.ip a
    simp only [tot, e1, e2, e3, e4, mu_nil] at this
    by_cases hg : q.1.cfg.perIp = 0 ∨ a = 0 <;> simp [hg] at this <;> exact this
  · intro c
    have := (ht c).1
    simp only [NN, LL, e1, e2, e3, e4, nu_nil, hn] at this
    simpa using this
  · intro c
    obtain ⟨a1, a2, a3⟩ := ht c
    simp only [NN, LL, e1, e2, e3, e4, nu_nil, hn] at a1 a2
    refine ⟨by omega, ?_⟩
    have : fdc c (r.2 ++ q.2) ≤ 1 := by
      by_cases hlt : c < r.1.nextId
      · rw [if_pos hlt] at a1; omega
      · rw [if_neg hlt] at a1; omega
    omega

/-- Without a stop: in every reachable state every connection index that was ever handed to
    the daemon is either still in one of the lists or had its socket closed exactly once, and
    the started-but-not-closed connections are exactly the members of the three counted lists
    (so never more than `limit` of them, by `limits_hold`). -/
theorem lifecycle_balance (cfg : Cfg) (ops : List Op) (c : Nat) :
    let r := run (St.init cfg) ops
    fdc c r.2 + ((r.1.newL ++ r.1.active ++ r.1.susp ++ r.1.cleanup).filter (fun x => x.id == c)).length
      = (if c < r.1.nextId then 1 else 0) ∧
    stc c r.2 = ((r.1.active ++ r.1.susp ++ r.1.cleanup).filter (fun x => x.id == c)).length + clc c r.2 := by
  intro r
  have ht0 : TInv r.1 ([] ++ r.2) := run_tinv ops _ [] (init_tinv cfg)
  obtain ⟨a1, a2, _⟩ := ht0 c
  simp only [List.nil_append, NN, LL, nu_nil, Nat.add_zero] at a1 a2
  constructor
  · rw [← a1]
    simp [nu, List.countP_eq_length_filter, List.filter_append]; omega
  · rw [a2]
    simp [nu, List.countP_eq_length_filter, List.filter_append]; omega

/-- Response lifetime, refinement to the multiset of holders: in every reachable state the
    reference count of every response object equals the application's own reference (if it
    still has it) plus the number of connections that have the response queued; the object is
    freed exactly when that number is zero; a connection never holds an unknown or freed
    response; and the faults "use after free", "counter underflow", "unknown response" are
    unreachable (so nothing uses a response after its free callback). -/
theorem refcount_refines (cfg : Cfg) (ops : List Op) (r : Nat) :
    let s := (run (St.init cfg) ops).1
    let holders := ((s.newL ++ s.active ++ s.susp ++ s.cleanup).filter (fun c => c.resp == some r)).length
    (match s.resps r with
      | none => holders = 0
      | some x => x.rc = (if x.app then 1 else 0) + holders ∧ (x.freed = true ↔ x.rc = 0)) ∧
    s.fault ≠ some .useAfterFree ∧ s.fault ≠ some .rcUnderflow ∧ s.fault ≠ some .unknownResp := by
  intro s holders
  have h : RInv s := run_rinv ops _ (init_rinv cfg)
  have hh : Mhd.Limits.holders r s + hold r [] = holders := by
    simp [Mhd.Limits.holders, holders, hold, List.countP_eq_length_filter, List.filter_append, Nat.add_assoc]
  have := h.rt r
  rw [hh] at this
  refine ⟨?_, h.rf.2.1, h.rf.2.2, h.rf.1⟩
  unfold RT1 appN at this
  exact this

/-- The free callback runs exactly at the transition of the counter from 1 to 0 and the object is
    then marked freed (local specification of `MHD_destroy_response` on a live object); a freed
    object can never be queued again. -/
theorem free_callback_at_zero (R : RespTab) (r : Nat) (x : Resp) (hx : R.tab r = some x)
    (hnf : x.freed = false) (hrc : 1 ≤ x.rc) :
    (release R r).2 = (if x.rc = 1 ∧ x.hasCb = true then [Ev.freeCb r] else []) ∧
    (release R r).1.tab r = some { x with rc := x.rc - 1, freed := decide (x.rc = 1) } ∧
    (release R r).1.fault = R.fault ∧
    (∀ R' x', R'.tab r = some x' → x'.freed = true → acquire R' r = none) :=
  ⟨(release_spec R r x hx hnf hrc).1, (release_spec R r x hx hnf hrc).2.1, (release_spec R r x hx hnf hrc).2.2,
   fun R' x' h1 h2 => acquire_freed R' r x' h1 h2⟩

/-- Over every history the free callback of a response has run exactly once if the object has
    been freed (and has a callback), and not at all otherwise — together with
    `refcount_refines` (freed ⇔ counter 0 ⇔ neither the application nor any connection holds
    it): exactly once, exactly when the count reaches zero, and no use follows. -/
theorem free_callback_exactly_once (cfg : Cfg) (ops : List Op) (r : Nat) :
    (run (St.init cfg) ops).2.count (.freeCb r) = (match (run (St.init cfg) ops).1.resps r with
      | some x => if x.freed && x.hasCb then 1 else 0
      | none => 0) := by
  have h := run_sfb r ops (St.init cfg)
  unfold SFB FB at h
  have h0 : phi r (St.init cfg).resps = 0 := by simp [phi, St.init]
  rw [h0] at h
  unfold phi frc at h
  cases hx : (run (St.init cfg) ops).1.resps r <;> simp only [hx] at h ⊢ <;> simpa using h

/-- Every way a connection takes and drops a response reference is a transition of the model and is
    covered by `refcount_refines` / `free_callback_exactly_once` (they quantify over every history):
    the final reply (`doReply`/`runReply`: +1 at MHD_queue_response, −1 at connection_reset or
    MHD_connection_close_ or cleanup), the upgrade reply (−1 right after the 101 header), interim
    "102 Processing" replies (`interimOne`: +1, −1 in the FULL_REPLY_SENT branch), a response queued
    from outside the handler on a suspended connection (`Op.extQueue`: +1), a failed / refused queue
    (no change), a daemon-generated error reply (`Beh.bad`: no application response is touched).
    Local law of the interim replies: any number of them, on any table that refines a holder
    count, leaves every response with the same holders (every reference taken is given back),
    raises no fault, and emits no socket / notification event. -/
theorem interim_replies_balanced (R : RespTab) (c : Conn) (pre : List Nat) (H : Nat → Nat)
    (h : ∀ r, RT1 r R.tab (H r)) :
    (∀ r, RT1 r (interims R c pre).1.tab (H r)) ∧ (interims R c pre).1.fault = R.fault ∧
    (∀ x, fdc x (interims R c pre).2.2 = 0 ∧ stc x (interims R c pre).2.2 = 0 ∧ clc x (interims R c pre).2.2 = 0) :=
  ⟨(interims_rt c pre R H h).1, (interims_rt c pre R H h).2, interims_quiet c pre R⟩

/-- Stop releases every response: after any history and a `stop` that does not hit the API-misuse
    panic, no connection holds a response any more — every response object ever created has
    reference count 1 if the application still has its own reference and 0 otherwise; in the latter
    case it is freed and its free callback has run exactly once over the whole trace (never, if it has
    none).  With `refcount_refines` (freed ⇔ count 0; a freed response cannot be queued,
    `free_callback_at_zero`) this is "exactly once and only after its last use". -/
theorem stop_releases_every_response (cfg : Cfg) (ops : List Op) (r : Nat) :
    let h := run (St.init cfg) ops
    let q := step h.1 .stop
    h.1.shutdown = false → h.1.fault = none → q.1.fault ≠ some .stopSuspended →
    match q.1.resps r with
    | none => True
    | some x => x.rc = (if x.app then 1 else 0) ∧
        (x.app = false → x.freed = true ∧ (h.2 ++ q.2).count (.freeCb r) = if x.hasCb then 1 else 0) := by
  intro h q h1 h2 h3
  have hq : q = stop h.1 := step_stop_eq h.1 h1 h2
  have he := stop_empties h.1 (by rw [← hq]; exact h3)
  rw [← hq] at he
  obtain ⟨e1, e2, e3, e4⟩ := he
  have hr : RInv q.1 := step_rinv h.1 .stop (run_rinv ops _ (init_rinv cfg))
  have hrt := hr.rt r
  have hf1 := run_sfb r ops (St.init cfg)
  have hf2 := step_sfb r h.1 .stop
  have hf := FB.trans hf1 hf2
  unfold SFB FB at hf
  have h0 : phi r (St.init cfg).resps = 0 := by simp [phi, St.init]
  rw [h0] at hf
  simp only [holders, e1, e2, e3, e4, hold_nil, Nat.add_zero] at hrt
  unfold RT1 at hrt
  unfold phi frc at hf
  cases hx : q.1.resps r with
  | none => trivial
  | some x =>
    simp only [hx] at hrt hf ⊢
    obtain ⟨a1, a2⟩ := hrt
    refine ⟨by simpa [appN] using a1, fun ha => ?_⟩
    have hz : x.rc = 0 := by simp [appN, ha] at a1; exact a1
    have hfr : x.freed = true := a2.mpr hz
    refine ⟨hfr, ?_⟩
    have hx' : (step h.1 .stop).1.resps r = some x := hx
    rw [hx'] at hf
    simpa [hfr] using hf

/-- Upgraded connections and their slot: the 101 reply hands the connection over (`urh`), the response
    reference is given back, and the connection keeps its slot (it moves to the suspended list, which
    `limits_hold` counts) until the application closes the session.  If the application closes it inside
    its upgrade handler (`Beh.upgradeClose`), the connection is disposed of in the same settled round
    (disposition `clean`: cleanup list → counter and per-address counter decremented, socket closed,
    by `run_inv` / `lifecycle_balance`); otherwise it is suspended and `Op.upClose` or `stop` disposes of it. -/
theorem upgrade_close_timing (R : RespTab) (c : Conn) (r : Nat) (cl : Bool)
    (hc : c.clientClosed = false) (hu : isUpg R r = true) :
    (runReply R c r cl).2.2.1 = (if c.inClose then Disp.clean else Disp.susp) ∧
    (runReply R c r cl).2.1.urh = true ∧ (runReply R c r cl).2.1.resp = none ∧
    ((runReply R c r cl).2.1.wasClosed = true ↔ (c.wasClosed = true ∨ c.inClose = true)) := by
  unfold runReply
  simp only [hc, hu, if_true, Bool.false_eq_true, if_false]
  refine ⟨trivial, trivial, ?_, ?_⟩
  · unfold closeConn; split
    · rfl
    · rename_i h; exact h
  · unfold closeConn; split <;> simp

/-- A failing accept()/accept4() on the listen socket (EMFILE, ENFILE, ECONNABORTED, EAGAIN, …:
    MHD_accept_connection returns before internal_add_connection) changes nothing: no counter, no
    per-address counter, no list — capacity cannot be lost there. -/
theorem accept_failure_loses_nothing (s : St) : step s .acceptFail = (s, []) := by
  unfold step; split <;> rfl

/-- Thread pool (MHD_OPTION_THREAD_POOL_SIZE = n ≥ 1 workers): the workers' connection limits,
    as computed by MHD_start_daemon_va, sum to the configured limit — for every limit and every
    pool size. -/
theorem pool_split_sum (limit n : Nat) (hn : 0 < n) : (workerLimits limit n).sum = limit :=
  workerLimits_sum limit n hn

/-- … hence the global bound follows from the per-daemon invariant: for any `n` worker daemons
    `w 0 … w (n-1)`, each in a state satisfying the accounting invariant (every reachable
    state does, `run_inv`) and each configured with its share of the limit, the total number of
    connections is at most the configured limit; and when MHD_add_connection finds no worker with
    room (`pickWorker = none`: every worker is at its own limit) the daemon as a whole is serving
    exactly `limit` connections — the split loses no capacity either. -/
theorem pool_bound (limit n : Nat) (hn : 0 < n) (w : Nat → St)
    (h : ∀ i, i < n → Inv (w i) ∧ (w i).cfg.limit = splitLimit limit n i) :
    ((List.range n).map (fun i => (w i).connections)).sum ≤ limit ∧
    ((∀ i, i < n → ¬ (w i).connections < (w i).cfg.limit) →
      ((List.range n).map (fun i => (w i).connections)).sum = limit) := by
  have hs := workerLimits_sum limit n hn
  unfold workerLimits at hs
  constructor
  · have := sum_range_le (fun i => (w i).connections) (splitLimit limit n) n
      (fun i hi => by have := (h i hi).1.le; rw [(h i hi).2] at this; exact this)
    omega
  · intro hfull
    have := sum_range_eq (fun i => (w i).connections) (splitLimit limit n) n
      (fun i hi => by
        have h1 := (h i hi).1.le
        have h2 := hfull i hi
        rw [(h i hi).2] at h1 h2
        show (w i).connections = splitLimit limit n i
        omega)
    omega

/-- a worker picked by MHD_add_connection has room (so its own limit check passes) -/
theorem pool_pick_has_room (conns limits : Nat → Nat) (n off j : Nat)
    (h : pickWorker conns limits n off = some j) : conns j < limits j :=
  pickWorker_room conns limits n off j h

/-- Non-vacuity (the seeded example): limit 5 over 4 workers is 2,1,1,1; 7 over 3 is 3,2,2. -/
example : workerLimits 5 4 = [2, 1, 1, 1] ∧ workerLimits 7 3 = [3, 2, 2] ∧ workerLimits 1 6 = [1, 0, 0, 0, 0, 0] := by
  decide

/-- Non-vacuity: a history with a refused arrival (global limit), a per-address refusal, a
    policy refusal, a failed allocation, a suspended and an upgraded connection reaches a
    state with one active, one suspended and one upgraded connection. -/
def demoCfg : Cfg := { limit := 3, perIp := 1, threadSafe := false, epoll := true, tpc := false,
                       allowSuspend := true, allowUpgrade := true }
def demoOps : List Op :=
  [.respCreate 1 false true false, .respCreate 3 false false true,
   .arrive 1 true true,            -- accepted
   .arrive 1 true true,            -- refused: per-address limit
   .arrive 2 false true,           -- refused by the accept policy
   .armFail .conn, .arrive 2 true true,   -- calloc of the connection fails
   .arrive 2 true true,            -- accepted
   .arrive 3 true true,            -- accepted
   .arrive 4 true true,            -- refused: global limit
   .req 0 (.suspend 1 []), .req 4 (.reply 3 false []), .round]

example : let s := (run (St.init demoCfg) demoOps).1
    s.connections = 3 ∧ s.active.length = 1 ∧ s.susp.length = 2 ∧ (s.susp.filter (·.urh)).length = 1 ∧
    s.ipCount 1 = 1 ∧ s.ipCount 2 = 1 ∧ s.ipCount 3 = 1 ∧ s.ipCount 4 = 0 ∧ s.fault = none := by
  decide

/-- Non-vacuity of `stop_exactly_once`: the demo history followed by the application closing the
    upgraded connection, resuming the suspended one, and `stop`: no panic, 7 sockets closed. -/
example : let r := run (St.init demoCfg) (demoOps ++ [.upClose 4, .resume 0])
    let q := step r.1 .stop
    r.1.shutdown = false ∧ r.1.fault = none ∧ q.1.fault = none ∧ r.1.nextId = 7 ∧
    (q.2.filter (fun e => match e with | .fdClose _ => true | _ => false)).length = 3 ∧
    (q.2.filter (fun e => match e with | .connClose _ => true | _ => false)).length = 3 := by
  decide

/-- Non-vacuity of `refcount_refines`: a shared response held by the application and by a
    connection whose client does not read (counter 2), then by the connection alone (counter 1,
    not freed), then released by the connection's close: freed, free callback emitted once. -/
example :
    let ops : List Op := [.respCreate 2 true true false, .arrive 1 true true, .hold 0, .req 0 (.reply 2 false []), .round]
    let s1 := (run (St.init demoCfg) ops).1
    let s2 := (run (St.init demoCfg) (ops ++ [.respDrop 2])).1
    let r3 := run (St.init demoCfg) (ops ++ [.respDrop 2, .clientClose 0, .round])
    (s1.resps 2).map (·.rc) = some 2 ∧ (s2.resps 2).map (fun x => (x.rc, x.freed)) = some (1, false) ∧
    (r3.1.resps 2).map (fun x => (x.rc, x.freed)) = some (0, true) ∧ r3.2.count (.freeCb 2) = 1 ∧ r3.1.fault = none := by
  decide

/-- Non-vacuity of the interim-reply transitions: two "102 Processing" replies (responses 5 and 6) and then
    the final reply 1 to a client that does not read a big final response: all three are queued, 5 and 6
    are back to the application's reference alone, 1 is held by the connection (count 2); after the
    application drops all of them and the daemon stops, each callback has run exactly once. -/
example :
    let ops : List Op := [.respCreate 1 true true false, .respCreate 5 false true false, .respCreate 6 false true false,
                          .arrive 1 true true, .hold 0, .req 0 (.reply 1 false [5, 6]), .round]
    let r1 := run (St.init demoCfg) ops
    let r2 := run (St.init demoCfg) (ops ++ [.respDrop 1, .respDrop 5, .respDrop 6, .stop])
    r1.2.filter (fun e => match e with | .queued _ _ _ => true | _ => false) = [.queued 0 5 true, .queued 0 6 true, .queued 0 1 true] ∧
    (r1.1.resps 5).map (·.rc) = some 1 ∧ (r1.1.resps 6).map (·.rc) = some 1 ∧ (r1.1.resps 1).map (·.rc) = some 2 ∧
    (r1.1.active.map (·.closeAfter)) = [true] ∧
    r2.2.count (.freeCb 1) = 1 ∧ r2.2.count (.freeCb 5) = 1 ∧ r2.2.count (.freeCb 6) = 1 ∧ r2.1.fault = none := by
  decide

/-- Non-vacuity of `Op.extQueue` and `Beh.bad`: connection 0 suspends, the application queues response 1 from
    outside the handler (count 2), resumes; the reply runs and the connection closes; connection 1 sends a
    malformed request and is closed by the daemon; an interim reply with an 'upgrade' response is refused. -/
example :
    let ops : List Op := [.respCreate 1 false true false, .respCreate 3 false false true, .arrive 1 true true, .arrive 2 true true,
                          .arrive 3 true true, .req 0 (.suspend 1 []), .req 1 .bad, .req 2 (.reply 1 false [3]), .round, .extQueue 0 1]
    let r1 := run (St.init demoCfg) ops
    let r2 := run (St.init demoCfg) (ops ++ [.resume 0, .round])
    (r1.1.resps 1).map (·.rc) = some 2 ∧ r1.1.susp.map (·.resp) = [some 1] ∧ r1.2.count (.queued 2 3 false) = 1 ∧
    r1.2.count (.connClose 1) = 1 ∧ r1.2.count (.connClose 2) = 1 ∧
    (r2.1.resps 1).map (·.rc) = some 1 ∧ r2.2.count (.connClose 0) = 1 ∧ r2.1.connections = 0 ∧ r2.1.fault = none := by
  decide

/-- Non-vacuity of `upgrade_close_timing` at history level (limit 3, one connection per address): connection 0
    closes its upgraded session inside the handler — after the round it is gone, its slot and address are free
    again, socket closed once; connection 1 is upgraded and stays (slot kept) until `upClose`; connection 2 is
    upgraded and never closed before `stop`, which closes it.  Afterwards everything is zero. -/
example :
    let ops : List Op := [.respCreate 3 false false true, .arrive 1 true true, .arrive 2 true true, .arrive 3 true true,
                          .req 0 (.upgradeClose 3 []), .req 1 (.reply 3 false []), .req 2 (.reply 3 false []), .round]
    let r1 := run (St.init demoCfg) ops
    let r2 := run (St.init demoCfg) (ops ++ [.upClose 1, .round])
    let r3 := run (St.init demoCfg) (ops ++ [.upClose 1, .round, .stop])
    r1.1.connections = 2 ∧ r1.1.ipCount 1 = 0 ∧ r1.1.susp.length = 2 ∧ r1.2.count (.fdClose 0) = 1 ∧ r1.2.count (.upgraded 0) = 1 ∧
    r2.1.connections = 1 ∧ r2.2.count (.fdClose 1) = 1 ∧
    r3.1.connections = 0 ∧ r3.2.count (.fdClose 2) = 1 ∧ r3.2.count (.connClose 2) = 1 ∧ (∀ a, a < 5 → r3.1.ipCount a = 0) ∧ r3.1.fault = none := by
  decide

end Mhd.C09
