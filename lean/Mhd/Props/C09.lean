/-
  C09 — Connection limits hold and no capacity or resource is ever leaked.

  Statements only (helper lemmas live in `Mhd.Proofs.Limits*`).  The model is
  `Mhd.Model.Limits`: `step : St → Op → St × List Ev` mirrors the admission and
  disposal code of daemon.c and the reference count of response.c.  Every
  theorem quantifies over every configuration (limits, per-address limit,
  thread-safe or not, epoll or not, thread per connection or not), every state
  satisfying the invariant and every operation; `run_*` lift them to every
  history (list of operations of any length), including every failure exit of
  connection admission (the injected failure site is part of the state).

  What `daemon->connections` counts (found by reading the code, stated in
  `limits_hold`): the members of `connections`, `suspended_connections` and
  `cleanup` — *not* the externally added connections still waiting in
  `new_connections`; the per-address counters also count those.
-/
import Mhd.Proofs.LimitsStep

namespace Mhd.C09
open Mhd.Limits

/-- The accounting invariant is preserved by every operation: arrival (accepted, refused by
    the global limit, by the per-address limit, by the accept policy, failed in any of the
    allocations, refused by the second limit check, failed after insertion), event-loop
    round (resume, new-connection list, handlers incl. suspend / upgrade / close, cleanup),
    client events, resume / upgrade-close, query, stop. -/
theorem step_inv (s : St) (o : Op) (h : Inv s) : Inv (step s o).1 :=
  Mhd.Limits.step_inv s o h

/-- … hence it holds after every history, from every configuration. -/
theorem run_inv (cfg : Cfg) (ops : List Op) : Inv (run (St.init cfg) ops).1 :=
  Mhd.Limits.run_inv ops _ (init_inv cfg)

/-- In every reachable state: the counter is exactly the number of connections in the
    active, suspended and cleanup lists and never exceeds the limit; for every address the
    counter equals the number of connections from that address in the four lists and never
    exceeds the per-address limit; the MHD_PANIC of `MHD_ip_limit_del` and a wrap-around of
    the counter are unreachable. -/
theorem limits_hold (cfg : Cfg) (ops : List Op) :
    let s := (run (St.init cfg) ops).1
    s.connections = s.active.length + s.susp.length + s.cleanup.length ∧
    s.connections ≤ s.cfg.limit ∧
    (∀ a, s.cfg.perIp ≠ 0 → a ≠ 0 →
      s.ipCount a = ((s.newL ++ s.active ++ s.susp ++ s.cleanup).filter (fun c => c.addr == a)).length) ∧
    (∀ a, s.ipCount a ≤ s.cfg.perIp) ∧
    s.fault ≠ some .ipDelZero ∧ s.fault ≠ some .connUnderflow := by
  intro s
  have h : Inv s := run_inv cfg ops
  refine ⟨?_, h.le, ?_, h.ipLe, h.cf.1, h.cf.2⟩
  · have := h.conns; simpa [mu_all] using this
  · intro a hp ha
    have := h.ip a
    simp only [hp, ha, or_self, if_false, tot, mu_nil, Nat.add_zero] at this
    rw [this]
    simp [mu, isA, List.countP_eq_length_filter, List.filter_append, Nat.add_assoc]

/-- Capacity is restored: whenever no connection is left in any list (all were closed and
    cleaned up, or the daemon was stopped), the counter and every per-address counter are
    back to zero — no failure exit and no close path has lost a unit. -/
theorem capacity_restored (cfg : Cfg) (ops : List Op) :
    let s := (run (St.init cfg) ops).1
    s.newL = [] → s.active = [] → s.susp = [] → s.cleanup = [] →
    s.connections = 0 ∧ ∀ a, s.ipCount a = 0 := by
  intro s h1 h2 h3 h4
  have h : Inv s := run_inv cfg ops
  refine ⟨?_, fun a => ?_⟩
  · have := h.conns; simpa [h2, h3, h4] using this
  · have := h.ip a
    simp only [tot, h1, h2, h3, h4, mu_nil] at this
    by_cases hg : s.cfg.perIp = 0 ∨ a = 0 <;> simp [hg] at this <;> exact this

/-- Non-vacuity: a history with a refused arrival (global limit), a per-address refusal, a
    policy refusal, a failed allocation, a suspended and an upgraded connection reaches a
    state with one active, one suspended and one upgraded connection. -/
def demoCfg : Cfg := { limit := 3, perIp := 1, threadSafe := false, epoll := true, tpc := false,
                       allowSuspend := true, allowUpgrade := true }
def demoOps : List Op :=
  [.respCreate 1 false true false, .respCreate 3 false false true,
   .arrive 1 true true,            -- accepted
   .arrive 1 true true,            -- refused: per-address limit
   .arrive 2 false true,           -- refused by the accept policy
   .armFail .conn, .arrive 2 true true,   -- calloc of the connection fails
   .arrive 2 true true,            -- accepted
   .arrive 3 true true,            -- accepted
   .arrive 4 true true,            -- refused: global limit
   .req 0 (.suspend 1), .req 4 (.reply 3 false), .round]

example : let s := (run (St.init demoCfg) demoOps).1
    s.connections = 3 ∧ s.active.length = 1 ∧ s.susp.length = 2 ∧ (s.susp.filter (·.urh)).length = 1 ∧
    s.ipCount 1 = 1 ∧ s.ipCount 2 = 1 ∧ s.ipCount 3 = 1 ∧ s.ipCount 4 = 0 ∧ s.fault = none := by
  decide

end Mhd.C09
