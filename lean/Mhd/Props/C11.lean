/-
  C11 — Suspend/resume freezes and later continues a connection losslessly.

  Statements only; the proofs are in Mhd.Proofs.Susp*.  The model (Mhd.Model.SuspConn,
  Mhd.Model.SuspDaemon) is parameterised by the `suspended` guards of the C source; every
  theorem below is about `srcGuards`, the guards found in the source tree *now*
  (Mhd.Gen.Susp, regenerated on every run).  `guards_present` is the point where a guard that
  disappeared from daemon.c / connection.c breaks the build.

  Quantification: every daemon history (`List Op`, any length) of a daemon started in any mode
  with any application scripts (`plans c` for the first request of connection `c`, `later c` — a list
  of any length — for the requests that follow on the same keep-alive connection; the bytes of a
  following request may already sit in the read buffer while an earlier one is suspended; per request: suspend points at the first call and its repetitions, at upload call i, at the
  final call and its repetitions, at content-reader call j; per point the resume is issued
  after k rounds / in the callback right after the suspend / *before* the suspend (the other
  order of the race with a second thread) / by an explicit operation), arrivals, client sends of any
  symbols at any time, explicit resumes of any connection at any time (also of connections
  that are not suspended), rounds in select / poll / epoll mode with *any* readiness answer of
  the kernel, any number of connections.
-/
import Mhd.Proofs.SuspThread
import Mhd.Proofs.SuspTimer

namespace Mhd.C11
open Mhd.Susp

/-- (A) Every `suspended` guard the property rests on is present in the source:
    the `while (! connection->suspended)` loop of MHD_connection_handle_idle and its exit after the
    first call, the early returns of handle_read / handle_write / update_event_loop_info, the epoll
    update skip, the `instant_retry` loop of process_request_body, and the `resuming` short-cut of
    internal_suspend_connection_. -/
theorem guards_present : srcGuards.Sound := by decide

/-- The daemon's lists and the per-connection flags agree in every reachable state:
    a connection is in the suspended list iff its `suspended` flag is set; the suspended list is
    disjoint from the active list; the eready and timeout lists are sub-lists of the active list. -/
theorem lists_consistent (m : Mode) (plans : Nat → Plan) (later : Nat → List Plan) (ops : List Op) : WF (run srcGuards (Daemon.init m plans later) ops).1 :=
  run_WF srcGuards guards_present ops _ (WF_init m plans later)

/-- A suspended connection is in no list that an event loop traverses. -/
theorem suspended_not_traversed (m : Mode) (plans : Nat → Plan) (later : Nat → List Plan) (ops : List Op) (c : Nat)
    (hs : ((run srcGuards (Daemon.init m plans later) ops).1.conn c).suspended = true) :
    let d := (run srcGuards (Daemon.init m plans later) ops).1
    c ∈ d.susp ∧ c ∉ d.active ∧ c ∉ d.eready ∧ c ∉ d.normalTO ∧ c ∉ d.newConns := by
  have hw := lists_consistent m plans later ops
  have h1 := (hw.susp_iff c).1 hs
  have h2 : c ∉ (run srcGuards (Daemon.init m plans later) ops).1.active := fun hm => hw.act_nosusp c hm h1
  exact ⟨h1, h2, fun hm => h2 (hw.er_sub c hm), fun hm => h2 (hw.to_sub c hm), fun hm => (hw.new_fresh c hm).2 h1⟩

/-- No resume request is ever lost: whenever a suspended connection has its `resuming` flag
    set, `daemon->resuming` is set as well, so the next resume_suspended_connections scans the
    list (this is what the `if (connection->resuming)` short-cut of internal_suspend_connection_
    protects). -/
theorem no_lost_resume (m : Mode) (plans : Nat → Plan) (later : Nat → List Plan) (ops : List Op) (c : Nat) :
    let d := (run srcGuards (Daemon.init m plans later) ops).1
    (d.conn c).suspended = true → (d.conn c).resuming = true → d.resuming = true :=
  (lists_consistent m plans later ops).no_lost c

/-- … and the entry points return first thing: even if an event loop did call them, the turn of
    a suspended connection does nothing (no callback, no recv/send, no state change). -/
theorem suspended_entry_points_return (ep rr wr : Bool) (k : Conn) (hk : k.suspended = true) :
    callHandlers srcGuards ep k rr wr = (k, []) ∧ handleIdle srcGuards ep k = (k, []) ∧
    handleRead srcGuards k = (k, []) ∧ handleWrite srcGuards k = (k, []) :=
  ⟨callHandlers_suspended srcGuards guards_present ep rr wr k hk,
   handleIdle_suspended srcGuards guards_present ep k hk,
   handleRead_suspended srcGuards guards_present.2.2.2.1 k hk,
   handleWrite_suspended srcGuards guards_present.2.2.2.2.1 k hk⟩

/-- FROZEN.  While a connection is suspended and no resume has been requested (nor is one
    scheduled for this very round by the script thread), *no* operation — a round in any mode
    with any readiness, arrivals, sends, resumes of other connections — emits an event for it,
    changes its processing state (`Conn.core`: everything but the socket's receive queue, the
    ghost copy of the client's bytes and the script timer) or moves it out of the suspended
    list.  A `send` of its own client only appends to the socket's receive queue. -/
theorem suspended_frozen (m : Mode) (plans : Nat → Plan) (later : Nat → List Plan) (ops : List Op) (c : Nat) (op : Op)
    (hs : c ∈ (run srcGuards (Daemon.init m plans later) ops).1.susp)
    (hr : ((run srcGuards (Daemon.init m plans later) ops).1.conn c).resuming = false)
    (ht : ((run srcGuards (Daemon.init m plans later) ops).1.conn c).timer ≠ some 0)
    (hop : match op with
      | .resume c' => c' ≠ c
      | .round ids _ _ => ids.Nodup
      | .eround ids _ => ids.Nodup
      | _ => True) :
    let d := (run srcGuards (Daemon.init m plans later) ops).1
    proj c (step srcGuards d op).2 = [] ∧ c ∈ (step srcGuards d op).1.susp ∧
    ((step srcGuards d op).1.conn c).core = (d.conn c).core ∧
    ((step srcGuards d op).1.conn c).inbox
      = (d.conn c).inbox ++ (match op with | .send c' syms => if c' = c then syms else [] | _ => []) := by
  have r := frozen_step srcGuards guards_present _ (lists_consistent m plans later ops) c ⟨hs, hr⟩ ht op hop
  exact ⟨r.1, r.2.1.1, r.2.2.1, r.2.2.2⟩

/-- QUIET.  In the event log of every history, projected on any connection: between an
    effective `suspend` and the `resumed` marker (the move back by resume_suspended_connections)
    there is no handler call, no content-reader call, no recv and no send for that connection,
    and no second suspend.  (`quietFrom` is the monitor; `some s` = accepted, `s` = suspended at
    the end.)  Assumption on the application: a content reader of a *known-size* response that
    suspends returns 0 — or the write path is guarded (`writeReaderGuard`, see `reader_data_witness`). -/
theorem quiet_while_suspended (m : Mode) (plans : Nat → Plan) (later : Nat → List Plan) (ops : List Op)
    (hplans : srcGuards.writeReader = true ∨ ∀ c, ∀ p ∈ plans c :: later c, p.rd = false ∨ p.rkind = .cbUnknown) (c : Nat) :
    quietFrom false (proj c (run srcGuards (Daemon.init m plans later) ops).2)
      = some ((run srcGuards (Daemon.init m plans later) ops).1.conn c).suspended := by
  have h := run_QD srcGuards guards_present ops (Daemon.init m plans later) (by
    intro a
    unfold RdOK
    rcases hplans with h | h
    · exact Or.inl h
    · exact Or.inr (by simpa [Daemon.init, Conn.script] using h a))
  exact h.1 c

/-- RESUME RE-ENTERS AT THE SAME STATE.  A suspended connection whose resume was requested is
    moved back by the next resume_suspended_connections: into the active list (so the next
    traversal runs MHD_connection_handle_idle on it), out of the suspended list, `suspended` and
    `resuming` cleared, in epoll mode queued in the eready list as read- and write-ready — and
    nothing else of its record has changed (`resumedConn`). -/
theorem resume_reenters (m : Mode) (plans : Nat → Plan) (later : Nat → List Plan) (ops : List Op) (c : Nat)
    (hs : c ∈ (run srcGuards (Daemon.init m plans later) ops).1.susp)
    (hr : ((run srcGuards (Daemon.init m plans later) ops).1.conn c).resuming = true) :
    let d := (run srcGuards (Daemon.init m plans later) ops).1
    (c, CEv.resumed) ∈ (resumeSuspended srcGuards d).2 ∧ c ∈ (resumeSuspended srcGuards d).1.active ∧
    c ∉ (resumeSuspended srcGuards d).1.susp ∧
    (resumeSuspended srcGuards d).1.conn c = resumedConn srcGuards d.isEpoll (d.conn c) ∧
    (d.isEpoll = true → c ∈ (resumeSuspended srcGuards d).1.eready) :=
  resume_moves_back srcGuards _ (lists_consistent m plans later ops) c hs hr

theorem resumedConn_core (ep : Bool) (k : Conn) :
    (resumedConn srcGuards ep k).noEpoll = { k with suspended := false, resuming := false }.noEpoll ∧
    (ep = true → (resumedConn srcGuards ep k).readReady = true ∧ (resumedConn srcGuards ep k).writeReady = true ∧
                 (resumedConn srcGuards ep k).inEready = true) := by
  have hg : srcGuards.resumeReady = true := by decide
  cases ep <;> simp [resumedConn, Conn.noEpoll, hg]

/-- RACE.  "Another thread resumes right after the handler suspended" has two sequential
    interleavings (both calls run under cleanup_connection_mutex): (A) suspend, resume, and then
    the daemon's resume_suspended_connections; (B) resume first, then the suspend finds
    `resuming` set and only clears it.  Both continue from the same connection state. -/
theorem race_both_orders (ep : Bool) (k : Conn) (hs : k.suspended = false) (hr : k.resuming = false) :
    let kA := resumedConn srcGuards ep (suspendAct srcGuards k .imm).1
    let kB := (suspendAct srcGuards k .pre).1
    kA.noEpoll = kB.noEpoll ∧ kA.suspended = false ∧ kB.suspended = false ∧
    kA.resuming = false ∧ kB.resuming = false ∧ kA.dres = true ∧ kB.dres = true ∧
    (suspendAct srcGuards k .imm).2 = [.suspend true, .resumeReq] ∧
    (suspendAct srcGuards k .pre).2 = [.resumeReq, .suspend false] :=
  race_same_state srcGuards guards_present.2.2.2.2.2.2.2 ep k hs hr

/-! ### lossless continuation, over the whole keep-alive pipeline -/

/-- LOSSLESS (request side), for every history and every connection: the bytes delivered to the
    handler so far (over all requests of the connection), followed by the body bytes waiting in the
    read buffer — including read-ahead of pipelined requests — and in the socket, are exactly the
    body bytes the client has sent: nothing is lost, duplicated or reordered, wherever in whichever
    request and however often the connection was suspended. -/
theorem upload_lossless (m : Mode) (plans : Nat → Plan) (later : Nat → List Plan) (ops : List Op) (c : Nat) :
    let r := run srcGuards (Daemon.init m plans later) ops
    upBytes (proj c r.2) ++ dataOf (r.1.conn c).rbuf ++ dataOf (r.1.conn c).inbox = dataOf (r.1.conn c).sent :=
  run_upload srcGuards ops (Daemon.init m plans later) c rfl

/-- the scripts of a connection are served in order: `done` (completed), `plan` (current), `later` -/
theorem pipeline_order (m : Mode) (plans : Nat → Plan) (later : Nat → List Plan) (ops : List Op) (c : Nat) :
    let k := (run srcGuards (Daemon.init m plans later) ops).1.conn c
    k.done ++ k.plan :: k.later = plans c :: later c :=
  run_script srcGuards guards_present.2.2.2.2.2.2.2 ops m plans later c

/-- LOSSLESS (reply side): the body bytes sent to the client so far are the complete reply bodies of
    the requests already served (`bodies k.done`), followed by the first `rwp` bytes of the current
    reply minus the chunk waiting in the write buffer; and once the last request is finished the
    client has received every body completely, in request order. -/
theorem reply_lossless (m : Mode) (plans : Nat → Plan) (later : Nat → List Plan) (ops : List Op) (c : Nat) :
    let r := run srcGuards (Daemon.init m plans later) ops
    let k := r.1.conn c
    wireBytes (proj c r.2) ++ k.wpend = bodies k.done ++ patRange k.plan.rid 0 k.rwp ∧ k.rwp ≤ k.plan.size ∧
    (k.st = .finished → k.later = [] → wireBytes (proj c r.2) = bodies (plans c :: later c)) := by
  have h := run_reply srcGuards ops m plans later c
  refine ⟨h.1, h.2.1, fun hf hl => ?_⟩
  rw [h.2.2 hf, finished_script srcGuards guards_present.2.2.2.2.2.2.2 ops m plans later c hl]

/-- a finished pipeline of Content-Length (or body-less) requests has delivered exactly the declared
    number of body bytes to the handler -/
theorem upload_complete (m : Mode) (plans : Nat → Plan) (later : Nat → List Plan) (ops : List Op) (c : Nat)
    (hb : ∀ p ∈ plans c :: later c, p.body ≠ .chunked)
    (hf : ((run srcGuards (Daemon.init m plans later) ops).1.conn c).st = .finished)
    (hl : ((run srcGuards (Daemon.init m plans later) ops).1.conn c).later = []) :
    (upBytes (proj c (run srcGuards (Daemon.init m plans later) ops).2)).length = clSum (plans c :: later c) := by
  have h := (run_count srcGuards guards_present.2.2.2.2.2.2.2 ops m plans later c hb).late (by rw [hf]; rfl)
  rw [h, ← finished_script srcGuards guards_present.2.2.2.2.2.2.2 ops m plans later c hl, clSum_append]
  simp [clSum]

/-- STUTTER EQUIVALENCE over request sequences.  Take any two histories — e.g. one with suspend points
    anywhere in any request of the pipeline, any resume delays, modes and interleavings, and the same
    scripts with all suspends erased (`Plan.erase`) — in which connection `c` carries the same
    sequence of requests (body kinds, replies) and the client sent the same body bytes.  If both ran
    the pipeline to completion, the projections on `c` agree: the client received the same reply
    bodies, and (pipelines without chunked uploads) the handler consumed the same upload bytes. -/
theorem stutter_equivalence (m₁ m₂ : Mode) (pl₁ pl₂ : Nat → Plan) (la₁ la₂ : Nat → List Plan) (ops₁ ops₂ : List Op) (c : Nat)
    (hplan : (pl₁ c :: la₁ c).map Plan.erase = (pl₂ c :: la₂ c).map Plan.erase)
    (hsent : dataOf ((run srcGuards (Daemon.init m₁ pl₁ la₁) ops₁).1.conn c).sent
              = dataOf ((run srcGuards (Daemon.init m₂ pl₂ la₂) ops₂).1.conn c).sent)
    (hf₁ : ((run srcGuards (Daemon.init m₁ pl₁ la₁) ops₁).1.conn c).st = .finished ∧
           ((run srcGuards (Daemon.init m₁ pl₁ la₁) ops₁).1.conn c).later = [])
    (hf₂ : ((run srcGuards (Daemon.init m₂ pl₂ la₂) ops₂).1.conn c).st = .finished ∧
           ((run srcGuards (Daemon.init m₂ pl₂ la₂) ops₂).1.conn c).later = []) :
    wireBytes (proj c (run srcGuards (Daemon.init m₁ pl₁ la₁) ops₁).2)
      = wireBytes (proj c (run srcGuards (Daemon.init m₂ pl₂ la₂) ops₂).2) ∧
    ((∀ p ∈ pl₁ c :: la₁ c, p.body ≠ .chunked) →
      upBytes (proj c (run srcGuards (Daemon.init m₁ pl₁ la₁) ops₁).2)
        = upBytes (proj c (run srcGuards (Daemon.init m₂ pl₂ la₂) ops₂).2)) :=
  stutter srcGuards guards_present m₁ m₂ pl₁ pl₂ la₁ la₂ ops₁ ops₂ c hplan hsent hf₁ hf₂

/-! ### the epoll ready list -/

/-- NO LOST WAKE-UP (edge-triggered epoll).  In every reachable state of an epoll daemon: if `c` is
    suspended with a resume request pending when MHD_epoll starts (after the script thread's timers),
    then this round — for *every* answer `evs` of epoll_wait, the empty one included — logs the
    `resumed` marker for `c` and afterwards gives `c` a turn that starts from exactly the record it was
    frozen with (flags cleared, read- and write-ready set): MHD_connection_handle_idle from the timeout
    scan or call_handlers(read_ready, write_ready) from the eready traversal.  Bytes buffered before the
    suspension (`rbuf`, pipelined read-ahead included) or arrived during it (`inbox`: the edge the
    daemon did not see) are therefore processed without any new epoll event. -/
theorem epoll_no_lost_wakeup (plans : Nat → Plan) (later : Nat → List Plan) (ops : List Op) (c : Nat)
    (ids : List Nat) (evs : List (Nat × Bool × Bool)) :
    let d := (run srcGuards (Daemon.init .epoll plans later) ops).1
    c ∈ (timers d ids).1.susp → ((timers d ids).1.conn c).resuming = true →
    ∃ pre post f,
      (roundEpoll srcGuards d ids evs).2
        = pre ++ tag c (f (clearDres (resumedConn srcGuards true ((timers d ids).1.conn c)))).2 ++ post ∧
      (c, CEv.resumed) ∈ pre ∧
      (f = handleIdle srcGuards true ∨ f = fun k => callHandlers srcGuards true k true true) := by
  intro d hs hr
  have hm : d.isEpoll = true := by
    have : ∀ (ops : List Op) (x : Daemon), (run srcGuards x ops).1.mode = x.mode := run_mode srcGuards
    show ((run srcGuards (Daemon.init .epoll plans later) ops).1.mode == .epoll) = true
    rw [this]; rfl
  exact epoll_resume_round srcGuards guards_present (by decide) d (lists_consistent .epoll plans later ops) hm c ids evs hs hr

/-- the eready traversal reaches every connection that is queued and marked ready, with both ready
    flags passed to call_handlers and its record untouched by the turns before -/
theorem eready_traversal_visits (c : Nat) (l : List Nat) (d : Daemon) (hc : c ∈ l) (hq : ReadyQ d c) :
    ∃ pre post, (travEready srcGuards l d).2
        = pre ++ tag c (callHandlers srcGuards d.isEpoll (clearDres (d.conn c)) true true).2 ++ post ∧ proj c pre = [] :=
  travEready_visits srcGuards c l d hc hq

/-- while a resume request is pending, and while the eready list is not empty, MHD_get_timeout
    answers 0: the event loop is told not to block before the round that serves it -/
theorem no_block_while_pending (m : Mode) (plans : Nat → Plan) (later : Nat → List Plan) (ops : List Op) (c : Nat) :
    let d := (run srcGuards (Daemon.init m plans later) ops).1
    (c ∈ d.susp → (d.conn c).resuming = true → d.hintZero = true) ∧
    (d.isEpoll = true → c ∈ d.eready → d.hintZero = true) :=
  ⟨resume_pending_hint _ (lists_consistent m plans later ops) c, fun hm => readyq_hint _ hm c⟩

/-! ### the inactivity timer through suspend / resume (Mhd.Model.SuspTimer) -/

section timer
open Mhd.SuspTimer

/-- the five timer guards are in the source (the fifth: MHD_set_connection_option moves a connection between the
    timeout lists only inside `if (! connection->suspended)`): MHD_update_last_activity_ and connection_check_timedout skip a
    suspended connection; resume_suspended_connections restarts the timer for a connection of the
    default-timeout list *and* for one of the manual-timeout list (both determined by asking the real code:
    suspended longer than the timeout on the virtual clock, resumed, `last_activity` read back) -/
theorem timer_guards_present : srcTGuards.Sound := by decide

/-- RESUME RESTARTS THE TIMER, whichever timeout list the connection returns to (default timeout, or its
    own timeout ≠ daemon default): in every state with the connection suspended and a timeout set,
    the move back sets `last_activity` to the current time. -/
theorem resume_restarts_timer_all_lists (s : TState) (hs : s.suspended = true) (ht : s.timeout ≠ 0) :
    (step srcTGuards s .resume).lastAct = s.now ∧ (step srcTGuards s .resume).suspended = false ∧
    (s.inNormal = true ∨ s.inNormal = false) := by
  have := resume_restarts srcTGuards timer_guards_present s hs ht
  exact ⟨this.1, this.2.1, by cases s.inNormal <;> simp⟩

/-- NO TIMEOUT WHILE SUSPENDED: however far the clock advances, the timeout check of
    MHD_connection_handle_idle does nothing to a suspended connection. -/
theorem no_timeout_while_suspended (s : TState) (hs : s.suspended = true) (ms : Nat) :
    step srcTGuards (step srcTGuards s (.tick ms)) .idle = step srcTGuards s (.tick ms) :=
  idle_suspended srcTGuards timer_guards_present _ hs

/-- … and over every history (ticks of any size, suspends, resumes, activity, timeout changes, idle passes
    in any order, any daemon default): whenever an idle pass closes the connection for inactivity, the
    connection is not suspended and has been idle *since its last resume* for longer than its timeout —
    time spent suspended never counts. -/
theorem no_early_timeout_after_resume (t0 dflt : Nat) (ops : List TOp) :
    let s := run srcTGuards (TState.start t0 dflt) ops
    s.closedTO = false → (step srcTGuards s .idle).closedTO = true →
    s.suspended = false ∧ s.timeout ≠ 0 ∧ s.timeout < s.now - s.resumedAt := by
  intro s h0 h1
  exact closed_only_when_idle_long srcTGuards timer_guards_present s
    (run_inv srcTGuards timer_guards_present ops _ (start_inv t0 dflt)) h0 h1

/-- SET-TIMEOUT WHILE SUSPENDED KEEPS THE LISTS: MHD_set_connection_option (TIMEOUT) on a suspended connection —
    legal at any time, from any thread — records the new value and links the connection into no list. -/
theorem set_timeout_while_suspended_keeps_lists (s : TState) (hs : s.suspended = true) (ms : Nat) :
    (step srcTGuards s (.setTimeout ms)).cntNormal = s.cntNormal ∧ (step srcTGuards s (.setTimeout ms)).cntManual = s.cntManual ∧
    (step srcTGuards s (.setTimeout ms)).timeout = ms ∧ (step srcTGuards s (.setTimeout ms)).suspended = true :=
  setTimeout_suspended_counts srcTGuards timer_guards_present.2.2.2.2 s hs ms

/-- TIMEOUT LISTS CONSISTENT, over every history (timeout changes to any value at any point — before a suspend, while
    suspended, after a resume —, suspends, resumes, ticks, activity, idle passes; any daemon default): a suspended
    connection is in no timeout list; any other connection is in exactly one, exactly once — the default-timeout
    list iff its timeout equals the daemon default.  (Counts are multiplicities: a node linked twice would make
    every XDLL walk of the daemon spin.) -/
theorem timeout_lists_consistent (t0 dflt : Nat) (ops : List TOp) :
    let s := run srcTGuards (TState.start t0 dflt) ops
    (s.suspended = true → s.cntNormal = 0 ∧ s.cntManual = 0) ∧
    (s.suspended = false → (s.timeout = s.dflt → s.cntNormal = 1 ∧ s.cntManual = 0) ∧
                            (s.timeout ≠ s.dflt → s.cntNormal = 0 ∧ s.cntManual = 1)) := by
  have h := run_linv srcTGuards timer_guards_present ops _ (start_linv t0 dflt)
  simpa [LInv, TState.inNormal] using h

/-- set to its own value while suspended, resumed, set back to the default: always one membership -/
example :
    let s := run srcTGuards (TState.start 0 5000) [.suspend, .setTimeout 2000, .tick 9000, .resume]
    s.cntNormal = 0 ∧ s.cntManual = 1 ∧ s.closedTO = false ∧
    (step srcTGuards s (.setTimeout 5000)).cntNormal = 1 ∧ (step srcTGuards s (.setTimeout 5000)).cntManual = 0 := by decide

/-- WITNESS that the `if (! connection->suspended)` around the list moves is necessary: without it a
    timeout change during the suspension plus the resume link the node twice -/
theorem set_timeout_guard_witness :
    (run { srcTGuards with setSkipsSusp := false } (TState.start 0 5000) [.suspend, .setTimeout 2000, .resume]).cntManual = 2 := by
  decide

/-- a connection with its own timeout (2 s, daemon default 5 s: manual list) suspended for 7 s and resumed
    survives the idle pass right after the resume, and is closed once it has really been idle for > 2 s -/
example :
    let ops := [TOp.setTimeout 2000, .suspend, .tick 7000, .idle, .resume, .idle]
    (run srcTGuards (TState.start 1000 5000) ops).closedTO = false ∧
    (run srcTGuards (TState.start 1000 5000) ops).inNormal = false ∧
    (run srcTGuards (TState.start 1000 5000) (ops ++ [.tick 2001, .idle])).closedTO = true := by decide

/-- WITNESS that the manual-list restart is necessary: without it the same history closes the
    connection in the first idle pass after the resume -/
theorem manual_restart_witness :
    (run { srcTGuards with restartManual := false } (TState.start 1000 5000)
      [.setTimeout 2000, .suspend, .tick 7000, .idle, .resume, .idle]).closedTO = true := by decide

end timer

/-! ### resume requested by another thread at any point of a round -/

/-- what "served" means for a round `R` in which the other thread's MHD_resume_connection (c) lands at position `p`
    (`R (some p)`): at position 0 — before resume_suspended_connections — this very round moves `c` back; at every later
    position the request is pending when the round ends (`c` still in the suspended list, `connection->resuming` and
    `daemon->resuming` set, all lists consistent), MHD_get_timeout answers 0 — the loop must not block; with an internal
    thread the ITC signal written by MHD_resume_connection plays this role — and the next resume_suspended_connections
    moves `c` back. -/
def ServedAt (c : Nat) (R : Option Nat → Daemon × List Ev) : Prop :=
  (c, CEv.resumed) ∈ (R (some 0)).2 ∧
  ∀ q, 1 ≤ q →
    WF (R (some q)).1 ∧ Pend c (R (some q)).1 ∧ (R (some q)).1.hintZero = true ∧
    (c, CEv.resumed) ∈ (resumeSuspended srcGuards (R (some q)).1).2 ∧ c ∈ (resumeSuspended srcGuards (R (some q)).1).1.active

/-- RESUME AT ANY POINT OF A ROUND.  The rounds of the three event loops are split into their atomic steps —
    every step runs with, or is protected by, cleanup_connection_mutex, and so is MHD_resume_connection:
    epoll: resume_suspended_connections | epoll_wait results | new connections | timeout scan | one call_handlers per
    eready entry; select / poll: resume_suspended_connections | new connections | one call_handlers per connection of the
    snapshot.  `roundEpollAt` / `roundSelectAt` / `roundPollAt` are the rounds of the model (`… none` = `roundEpoll` /
    `roundSelect` / `roundPoll`) with the request of another thread landing between any two steps (`some q`: q = 0, 1, 2, …,
    beyond the last turn = at the end).  In every reachable state, for a suspended connection nobody has asked to resume
    yet, for every position, every kernel answer and every script: the request is served (`ServedAt`). -/
theorem resume_any_point_of_round (m : Mode) (plans : Nat → Plan) (later : Nat → List Plan) (ops : List Op) (c : Nat)
    (ids : List Nat) (hnd : ids.Nodup) (rd wr : Nat → Bool) (evs : List (Nat × Bool × Bool)) :
    let d := (run srcGuards (Daemon.init m plans later) ops).1
    c ∈ d.susp → (d.conn c).resuming = false → (d.conn c).timer ≠ some 0 →
    ServedAt c (roundEpollAt srcGuards d ids evs c) ∧ ServedAt c (roundSelectAt srcGuards d ids rd wr c) ∧
    ServedAt c (roundPollAt srcGuards d ids rd wr c) ∧
    roundEpollAt srcGuards d ids evs c none = roundEpoll srcGuards d ids evs ∧
    roundSelectAt srcGuards d ids rd wr c none = roundSelect srcGuards d ids rd wr ∧
    roundPollAt srcGuards d ids rd wr c none = roundPoll srcGuards d ids rd wr := by
  intro d hs hr ht
  have hw := lists_consistent m plans later ops
  have fin : ∀ R : Option Nat → Daemon × List Ev,
      ((c, CEv.resumed) ∈ (R (some 0)).2 ∧ ∀ q, 1 ≤ q → GS c (R (some q)).1) → ServedAt c R := by
    intro R h
    refine ⟨h.1, fun q hq => ?_⟩
    have gs := h.2 q hq
    have sv := gs.served srcGuards
    exact ⟨gs.1, gs.2, sv.1, sv.2.1, sv.2.2.1⟩
  exact ⟨fin _ (resume_any_point_epoll srcGuards guards_present c d hw ⟨hs, hr⟩ ht ids hnd evs),
    fin _ (resume_any_point_select srcGuards guards_present c d hw ⟨hs, hr⟩ ht ids hnd rd wr),
    fin _ (resume_any_point_poll srcGuards guards_present c d hw ⟨hs, hr⟩ ht ids hnd rd wr),
    roundEpollAt_none _ _ _ _ _, roundSelectAt_none _ _ _ _ _ _, roundPollAt_none _ _ _ _ _ _⟩

/-! ### non-vacuity, and witnesses that the guards are necessary -/

def demoPlan : Plan :=
  { body := .chunked, fs := [.delay 1], us := [(0, .imm), (1, .pre)], ls := [.manual], rs := [(1, .delay 0)],
    size := 6, cbmax := 4, rid := 1 }

def allReady : Nat → Bool := fun _ => true

def demoSyms : List Sym := [.head, .sz 2, .b 1, .b 2, .crlf, .sz 1, .b 3, .crlf, .last, .trailerEnd]

def rounds (n : Nat) : List Op := List.replicate n (.round [0, 1] allReady allReady)

def demoPlans : Nat → Plan := fun c => if c = 0 then demoPlan else { size := 3, rid := 2 }

def noLater : Nat → List Plan := fun _ => []

/-- two connections, the first one with suspend points of all four kinds -/
def demoOps : List Op :=
  [.arrive 0, .arrive 1, .send 0 demoSyms, .send 1 [.head]] ++ rounds 9 ++ [.resume 0] ++ rounds 9

/-- the demo history suspends connection 0 four times effectively and once in vain (resume first),
    serves both requests completely and leaves nobody suspended -/
example : ((run srcGuards (Daemon.init .select demoPlans noLater) demoOps).1.conn 0).st = .finished ∧
    ((run srcGuards (Daemon.init .select demoPlans noLater) demoOps).1.conn 1).st = .finished ∧
    (run srcGuards (Daemon.init .select demoPlans noLater) demoOps).1.susp = [] ∧
    ((proj 0 (run srcGuards (Daemon.init .select demoPlans noLater) demoOps).2).filter (· == .suspend true)).length = 4 ∧
    ((proj 0 (run srcGuards (Daemon.init .select demoPlans noLater) demoOps).2).filter (· == .suspend false)).length = 1 ∧
    upBytes (proj 0 (run srcGuards (Daemon.init .select demoPlans noLater) demoOps).2) = [1, 2, 3] := by decide

/-- the same request with every suspend erased runs to completion as well (hypotheses of
    `stutter_equivalence` are satisfiable) -/
example : ((run srcGuards (Daemon.init .epoll (fun c => (demoPlans c).erase) noLater)
      ([.arrive 0, .send 0 demoSyms, .eround [0] [], .eround [0] [(0, true, true)], .eround [0] [], .eround [0] [],
        .eround [0] [], .eround [0] []])).1.conn 0).st = .finished := by decide

/-- a reachable state with one connection suspended (hypotheses of `suspended_frozen`) … -/
example : (run srcGuards (Daemon.init .epoll demoPlans noLater)
      [.arrive 0, .arrive 1, .send 0 demoSyms, .eround [0, 1] [], .eround [0, 1] [(0, true, true)]]).1.susp = [0] ∧
    ((run srcGuards (Daemon.init .epoll demoPlans noLater)
      [.arrive 0, .arrive 1, .send 0 demoSyms, .eround [0, 1] [], .eround [0, 1] [(0, true, true)]]).1.conn 0).resuming = false := by
  decide

/-- … and one with a pending resume request (hypotheses of `resume_reenters`) -/
example : (run srcGuards (Daemon.init .select demoPlans noLater) ([.arrive 0, .send 0 demoSyms] ++ rounds 4)).1.susp = [0] ∧
    ((run srcGuards (Daemon.init .select demoPlans noLater) ([.arrive 0, .send 0 demoSyms] ++ rounds 4)).1.conn 0).resuming = true := by
  decide


/-! ### non-vacuity for the pipelined statements -/

/-- a keep-alive pipeline of three requests on connection 0 — chunked upload, Content-Length upload,
    GET — with suspend points in every one of them -/
def pipeFirst : Plan := { body := .chunked, us := [(0, .delay 1)], rs := [(0, .delay 0)], size := 5, cbmax := 3, rid := 1 }
def pipeLater : List Plan :=
  [{ body := .cl 3, fs := [.imm], us := [(0, .delay 2)], ls := [.delay 0], rkind := .cbKnown, size := 4, cbmax := 2, rid := 2 },
   { fs := [.pre], ls := [.manual], size := 2, rid := 3 }]

/-- the client sends all three requests at once: while request 0 is suspended, requests 1 and 2 sit in
    the read buffer (read-ahead) -/
def pipeSyms : List Sym :=
  [.head, .sz 2, .b 1, .b 2, .crlf, .last, .trailerEnd, .head, .b 7, .b 8, .b 9, .head]

def pipeOps : List Op :=
  [.arrive 0, .send 0 pipeSyms] ++ List.replicate 16 (.eround [0] [(0, true, true)]) ++ [.resume 0] ++
  List.replicate 6 (.eround [0] [])

/-- the pipelined history (epoll mode) serves all three requests, suspends 6 times effectively and once in
    vain, delivers the upload bytes of requests 0 and 1 in order and leaves nothing behind
    (hypotheses of `reply_lossless`, `stutter_equivalence`: `finished ∧ later = []`) -/
example :
    let r := run srcGuards (Daemon.init .epoll (fun _ => pipeFirst) (fun _ => pipeLater)) pipeOps
    (r.1.conn 0).st = .finished ∧ (r.1.conn 0).later = [] ∧ (r.1.conn 0).done.length = 2 ∧ r.1.susp = [] ∧
    ((proj 0 r.2).filter (· == .suspend true)).length = 6 ∧ ((proj 0 r.2).filter (· == .suspend false)).length = 1 ∧
    ((proj 0 r.2).filter (· == .completed)).length = 3 ∧
    upBytes (proj 0 r.2) = [1, 2, 7, 8, 9] ∧ (wireBytes (proj 0 r.2)).length = 11 := by decide

/-- read-ahead while suspended: after the first rounds request 0 is suspended in its upload call and the
    complete requests 1 and 2 are in the read buffer — `suspended_frozen` keeps them there (`Conn.core`
    contains `rbuf`) -/
example :
    let d := (run srcGuards (Daemon.init .epoll (fun _ => pipeFirst) (fun _ => pipeLater))
      [.arrive 0, .send 0 pipeSyms, .eround [0] [], .eround [0] [(0, true, true)]]).1
    d.susp = [0] ∧ (d.conn 0).done = [] ∧ (d.conn 0).rbuf = [.crlf, .last, .trailerEnd, .head, .b 7, .b 8, .b 9, .head] := by
  decide

/-- the same pipeline with every suspend erased runs to completion in select mode
    (second history of `stutter_equivalence`) -/
example :
    let r := run srcGuards (Daemon.init .select (fun _ => pipeFirst.erase) (fun _ => pipeLater.map Plan.erase))
      ([.arrive 0, .send 0 pipeSyms] ++ List.replicate 12 (.round [0] allReady allReady))
    (r.1.conn 0).st = .finished ∧ (r.1.conn 0).later = [] ∧ upBytes (proj 0 r.2) = [1, 2, 7, 8, 9] := by decide

/-- hypotheses of `epoll_no_lost_wakeup`: a reachable epoll state with connection 0 suspended and its
    resume requested; the next round is run with *no* epoll event and serves it: the handler is called -/
example :
    let d := (run srcGuards (Daemon.init .epoll (fun _ => pipeFirst) (fun _ => pipeLater))
      [.arrive 0, .send 0 pipeSyms, .eround [0] [], .eround [0] [(0, true, true)], .resume 0]).1
    0 ∈ (timers d [0]).1.susp ∧ ((timers d [0]).1.conn 0).resuming = true ∧ d.hintZero = true ∧
    (0, CEv.resumed) ∈ (roundEpoll srcGuards d [0] []).2 ∧
    ((proj 0 (roundEpoll srcGuards d [0] []).2).filter (fun e => match e with | .handler .. => true | _ => false)).length = 1 := by
  decide

/-- an all-Content-Length pipeline (hypothesis of `upload_complete` and of the upload half of
    `stutter_equivalence`) -/
example : ∀ p ∈ ({ body := .cl 2, size := 1 } : Plan) :: [{ body := .none, size := 1 }, { body := .cl 1, size := 1 }],
    p.body ≠ .chunked := by decide

/-- hypotheses of `resume_any_point_of_round` (connection 0 suspended, nobody has asked to resume it, connection 1 is
    in the traversal), and one injected round evaluated: the request lands before the first eready turn (position 4)
    of a round without epoll events; at the end it is pending -/
example : let d := (run srcGuards (Daemon.init .epoll demoPlans noLater)
      [.arrive 0, .arrive 1, .send 0 demoSyms, .send 1 [.head], .eround [0, 1] [], .eround [0, 1] [(0, true, true), (1, true, true)]]).1
    0 ∈ d.susp ∧ (d.conn 0).resuming = false ∧ (d.conn 0).timer ≠ some 0 ∧ d.eready ≠ [] ∧
    0 ∈ (roundEpollAt srcGuards d [0, 1] [] 0 (some 4)).1.susp ∧
    ((roundEpollAt srcGuards d [0, 1] [] 0 (some 4)).1.conn 0).resuming = true ∧
    (roundEpollAt srcGuards d [0, 1] [] 0 (some 4)).1.resuming = true ∧
    (0, CEv.resumed) ∈ (roundEpollAt srcGuards d [0, 1] [] 0 (some 0)).2 := by decide

/-- the unchanged tree's `process_request_body` loops `while (instant_retry)` without looking at
    `connection->suspended`; every other guard present -/
def asIsGuards : Guards :=
  { idleLoop := true, idleFirstCall := true, idleEpoll := true, read := true, write := true, eli := true,
    bodyRetry := false, writeReader := false, shortcut := true, resumeReady := true, selectPrevAfter := false }

/-- WITNESS (kernel-checked) that this guard is necessary: with a chunked upload whose chunks are
    all in the read buffer, a handler that suspends in the first upload call is called again for
    the next chunk while the connection is suspended — the monitor rejects the log. -/
theorem instant_retry_witness :
    quietFrom false (proj 0 (run asIsGuards (Daemon.init .select (fun _ => { body := .chunked, us := [(0, .manual)], size := 3 }))
      ([.arrive 0, .send 0 demoSyms] ++ rounds 2)).2) = none := by
  decide

/-- WITNESS that the reader assumption of `quiet_while_suspended` is necessary as long as
    MHD_connection_handle_write sends right after try_ready_normal_body: a reader of a known-size
    response that suspends *and* returns data gets its block sent while suspended. -/
theorem reader_data_witness :
    quietFrom false (proj 0 (run { asIsGuards with bodyRetry := true }
      (Daemon.init .select (fun _ => { rkind := .cbKnown, rs := [(1, .manual)], rd := true, size := 6, cbmax := 2 }))
      ([.arrive 0, .send 0 [.head]] ++ rounds 4)).2) = none := by
  decide

end Mhd.C11
