/-
  C11 — Suspend/resume freezes and later continues a connection losslessly.

  Statements only; the proofs are in Mhd.Proofs.Susp*.  The model (Mhd.Model.SuspConn,
  Mhd.Model.SuspDaemon) is parameterised by the `suspended` guards of the C source; every
  theorem below is about `srcGuards`, the guards found in the source tree *now*
  (Mhd.Gen.Susp, regenerated on every run).  `guards_present` is the point where a guard that
  disappeared from daemon.c / connection.c breaks the build.

  Quantification: every daemon history (`List Op`, any length) of a daemon started in any mode
  with any application scripts (`plans : Nat → Plan`, one per connection index: suspend points at the first call and its repetitions, at upload call i, at the
  final call and its repetitions, at content-reader call j; per point the resume is issued
  after k rounds / in the callback right after the suspend / *before* the suspend (the other
  order of the race with a second thread) / by an explicit operation), arrivals, client sends of any
  symbols at any time, explicit resumes of any connection at any time (also of connections
  that are not suspended), rounds in select / poll / epoll mode with *any* readiness answer of
  the kernel, any number of connections.
-/
import Mhd.Proofs.SuspLossless

namespace Mhd.C11
open Mhd.Susp

/-- (A) Every `suspended` guard the property rests on is present in the source:
    the `while (! connection->suspended)` loop of MHD_connection_handle_idle and its exit after the
    first call, the early returns of handle_read / handle_write / update_event_loop_info, the epoll
    update skip, the `instant_retry` loop of process_request_body, and the `resuming` short-cut of
    internal_suspend_connection_. -/
theorem guards_present : srcGuards.Sound := by decide

/-- The daemon's lists and the per-connection flags agree in every reachable state:
    a connection is in the suspended list iff its `suspended` flag is set; the suspended list is
    disjoint from the active list; the eready and timeout lists are sub-lists of the active list. -/
theorem lists_consistent (m : Mode) (plans : Nat → Plan) (ops : List Op) : WF (run srcGuards (Daemon.init m plans) ops).1 :=
  run_WF srcGuards guards_present ops _ (WF_init m plans)

/-- A suspended connection is in no list that an event loop traverses. -/
theorem suspended_not_traversed (m : Mode) (plans : Nat → Plan) (ops : List Op) (c : Nat)
    (hs : ((run srcGuards (Daemon.init m plans) ops).1.conn c).suspended = true) :
    let d := (run srcGuards (Daemon.init m plans) ops).1
    c ∈ d.susp ∧ c ∉ d.active ∧ c ∉ d.eready ∧ c ∉ d.normalTO ∧ c ∉ d.newConns := by
  have hw := lists_consistent m plans ops
  have h1 := (hw.susp_iff c).1 hs
  have h2 : c ∉ (run srcGuards (Daemon.init m plans) ops).1.active := fun hm => hw.act_nosusp c hm h1
  exact ⟨h1, h2, fun hm => h2 (hw.er_sub c hm), fun hm => h2 (hw.to_sub c hm), fun hm => (hw.new_fresh c hm).2 h1⟩

/-- No resume request is ever lost: whenever a suspended connection has its `resuming` flag
    set, `daemon->resuming` is set as well, so the next resume_suspended_connections scans the
    list (this is what the `if (connection->resuming)` short-cut of internal_suspend_connection_
    protects). -/
theorem no_lost_resume (m : Mode) (plans : Nat → Plan) (ops : List Op) (c : Nat) :
    let d := (run srcGuards (Daemon.init m plans) ops).1
    (d.conn c).suspended = true → (d.conn c).resuming = true → d.resuming = true :=
  (lists_consistent m plans ops).no_lost c

/-- … and the entry points return first thing: even if an event loop did call them, the turn of
    a suspended connection does nothing (no callback, no recv/send, no state change). -/
theorem suspended_entry_points_return (ep rr wr : Bool) (k : Conn) (hk : k.suspended = true) :
    callHandlers srcGuards ep k rr wr = (k, []) ∧ handleIdle srcGuards ep k = (k, []) ∧
    handleRead srcGuards k = (k, []) ∧ handleWrite srcGuards k = (k, []) :=
  ⟨callHandlers_suspended srcGuards guards_present ep rr wr k hk,
   handleIdle_suspended srcGuards guards_present ep k hk,
   handleRead_suspended srcGuards guards_present.2.2.2.1 k hk,
   handleWrite_suspended srcGuards guards_present.2.2.2.2.1 k hk⟩

/-- FROZEN.  While a connection is suspended and no resume has been requested (nor is one
    scheduled for this very round by the script thread), *no* operation — a round in any mode
    with any readiness, arrivals, sends, resumes of other connections — emits an event for it,
    changes its processing state (`Conn.core`: everything but the socket's receive queue, the
    ghost copy of the client's bytes and the script timer) or moves it out of the suspended
    list.  A `send` of its own client only appends to the socket's receive queue. -/
theorem suspended_frozen (m : Mode) (plans : Nat → Plan) (ops : List Op) (c : Nat) (op : Op)
    (hs : c ∈ (run srcGuards (Daemon.init m plans) ops).1.susp)
    (hr : ((run srcGuards (Daemon.init m plans) ops).1.conn c).resuming = false)
    (ht : ((run srcGuards (Daemon.init m plans) ops).1.conn c).timer ≠ some 0)
    (hop : match op with
      | .resume c' => c' ≠ c
      | .round ids _ _ => ids.Nodup
      | .eround ids _ => ids.Nodup
      | _ => True) :
    let d := (run srcGuards (Daemon.init m plans) ops).1
    proj c (step srcGuards d op).2 = [] ∧ c ∈ (step srcGuards d op).1.susp ∧
    ((step srcGuards d op).1.conn c).core = (d.conn c).core ∧
    ((step srcGuards d op).1.conn c).inbox
      = (d.conn c).inbox ++ (match op with | .send c' syms => if c' = c then syms else [] | _ => []) := by
  have r := frozen_step srcGuards guards_present _ (lists_consistent m plans ops) c ⟨hs, hr⟩ ht op hop
  exact ⟨r.1, r.2.1.1, r.2.2.1, r.2.2.2⟩

/-- QUIET.  In the event log of every history, projected on any connection: between an
    effective `suspend` and the `resumed` marker (the move back by resume_suspended_connections)
    there is no handler call, no content-reader call, no recv and no send for that connection,
    and no second suspend.  (`quietFrom` is the monitor; `some s` = accepted, `s` = suspended at
    the end.)  Assumption on the application: a content reader of a *known-size* response that
    suspends returns 0 — or the write path is guarded (`writeReaderGuard`, see `reader_data_witness`). -/
theorem quiet_while_suspended (m : Mode) (plans : Nat → Plan) (ops : List Op)
    (hplans : srcGuards.writeReader = true ∨ ∀ c, (plans c).rd = false ∨ (plans c).rkind = .cbUnknown) (c : Nat) :
    quietFrom false (proj c (run srcGuards (Daemon.init m plans) ops).2)
      = some ((run srcGuards (Daemon.init m plans) ops).1.conn c).suspended := by
  have h := run_QD srcGuards guards_present ops (Daemon.init m plans) (by
    intro a
    unfold RdOK Conn.chunkedReply
    rcases hplans with h | h
    · exact Or.inl h
    · rcases h a with h | h
      · exact Or.inr (Or.inl h)
      · exact Or.inr (Or.inr (by simp [Daemon.init, h])))
  exact h.1 c

/-- RESUME RE-ENTERS AT THE SAME STATE.  A suspended connection whose resume was requested is
    moved back by the next resume_suspended_connections: into the active list (so the next
    traversal runs MHD_connection_handle_idle on it), out of the suspended list, `suspended` and
    `resuming` cleared, in epoll mode queued in the eready list as read- and write-ready — and
    nothing else of its record has changed (`resumedConn`). -/
theorem resume_reenters (m : Mode) (plans : Nat → Plan) (ops : List Op) (c : Nat)
    (hs : c ∈ (run srcGuards (Daemon.init m plans) ops).1.susp)
    (hr : ((run srcGuards (Daemon.init m plans) ops).1.conn c).resuming = true) :
    let d := (run srcGuards (Daemon.init m plans) ops).1
    (c, CEv.resumed) ∈ (resumeSuspended srcGuards d).2 ∧ c ∈ (resumeSuspended srcGuards d).1.active ∧
    c ∉ (resumeSuspended srcGuards d).1.susp ∧
    (resumeSuspended srcGuards d).1.conn c = resumedConn srcGuards d.isEpoll (d.conn c) ∧
    (d.isEpoll = true → c ∈ (resumeSuspended srcGuards d).1.eready) :=
  resume_moves_back srcGuards _ (lists_consistent m plans ops) c hs hr

theorem resumedConn_core (ep : Bool) (k : Conn) :
    (resumedConn srcGuards ep k).noEpoll = { k with suspended := false, resuming := false }.noEpoll ∧
    (ep = true → (resumedConn srcGuards ep k).readReady = true ∧ (resumedConn srcGuards ep k).writeReady = true ∧
                 (resumedConn srcGuards ep k).inEready = true) := by
  have hg : srcGuards.resumeReady = true := by decide
  cases ep <;> simp [resumedConn, Conn.noEpoll, hg]

/-- RACE.  "Another thread resumes right after the handler suspended" has two sequential
    interleavings (both calls run under cleanup_connection_mutex): (A) suspend, resume, and then
    the daemon's resume_suspended_connections; (B) resume first, then the suspend finds
    `resuming` set and only clears it.  Both continue from the same connection state. -/
theorem race_both_orders (ep : Bool) (k : Conn) (hs : k.suspended = false) (hr : k.resuming = false) :
    let kA := resumedConn srcGuards ep (suspendAct srcGuards k .imm).1
    let kB := (suspendAct srcGuards k .pre).1
    kA.noEpoll = kB.noEpoll ∧ kA.suspended = false ∧ kB.suspended = false ∧
    kA.resuming = false ∧ kB.resuming = false ∧ kA.dres = true ∧ kB.dres = true ∧
    (suspendAct srcGuards k .imm).2 = [.suspend true, .resumeReq] ∧
    (suspendAct srcGuards k .pre).2 = [.resumeReq, .suspend false] :=
  race_same_state srcGuards guards_present.2.2.2.2.2.2.2 ep k hs hr

/-! ### lossless continuation -/

/-- LOSSLESS (request side), for every history and every connection: the bytes delivered to the
    handler so far, followed by the body bytes waiting in the read buffer and in the socket, are
    exactly the body bytes the client has sent — nothing is lost, duplicated or reordered, wherever
    and however often the connection was suspended. -/
theorem upload_lossless (m : Mode) (plans : Nat → Plan) (ops : List Op) (c : Nat) :
    let r := run srcGuards (Daemon.init m plans) ops
    upBytes (proj c r.2) ++ dataOf (r.1.conn c).rbuf ++ dataOf (r.1.conn c).inbox = dataOf (r.1.conn c).sent :=
  run_upload srcGuards ops (Daemon.init m plans) c rfl

/-- LOSSLESS (reply side): the body bytes sent to the client so far, followed by the chunk
    waiting in the write buffer, are exactly the first `rwp` bytes the application supplied
    (`patRange rid 0 rwp`); and once the request is finished the client has received the whole body. -/
theorem reply_lossless (m : Mode) (plans : Nat → Plan) (ops : List Op) (c : Nat) :
    let r := run srcGuards (Daemon.init m plans) ops
    let k := r.1.conn c
    wireBytes (proj c r.2) ++ k.wpend = patRange k.plan.rid 0 k.rwp ∧ k.rwp ≤ k.plan.size ∧
    (k.st = .finished → wireBytes (proj c r.2) = patRange k.plan.rid 0 k.plan.size) :=
  run_reply srcGuards ops m plans c

/-- a finished Content-Length request has delivered exactly its `n` body bytes to the handler -/
theorem upload_complete (m : Mode) (plans : Nat → Plan) (ops : List Op) (c n : Nat)
    (hb : (plans c).body = .cl n) (hf : ((run srcGuards (Daemon.init m plans) ops).1.conn c).st = .finished) :
    (upBytes (proj c (run srcGuards (Daemon.init m plans) ops).2)).length = n :=
  (run_count srcGuards ops m plans c n hb).2.late (by rw [hf]; rfl)

/-- STUTTER EQUIVALENCE.  Take any two histories — e.g. one with suspend points, resume delays,
    modes and interleavings of your choice, and the same script with all suspends erased
    (`Plan.erase`) — in which connection `c` carries the same request (body kind, reply) and the
    client sent the same body bytes.  If both ran the request to completion, the projections on `c`
    agree: the client received the same reply body, and (Content-Length uploads) the handler
    consumed the same upload bytes. -/
theorem stutter_equivalence (m₁ m₂ : Mode) (pl₁ pl₂ : Nat → Plan) (ops₁ ops₂ : List Op) (c : Nat)
    (hplan : (pl₁ c).erase = (pl₂ c).erase)
    (hsent : dataOf ((run srcGuards (Daemon.init m₁ pl₁) ops₁).1.conn c).sent
              = dataOf ((run srcGuards (Daemon.init m₂ pl₂) ops₂).1.conn c).sent)
    (hf₁ : ((run srcGuards (Daemon.init m₁ pl₁) ops₁).1.conn c).st = .finished)
    (hf₂ : ((run srcGuards (Daemon.init m₂ pl₂) ops₂).1.conn c).st = .finished) :
    wireBytes (proj c (run srcGuards (Daemon.init m₁ pl₁) ops₁).2)
      = wireBytes (proj c (run srcGuards (Daemon.init m₂ pl₂) ops₂).2) ∧
    (∀ n, (pl₁ c).body = .cl n →
      upBytes (proj c (run srcGuards (Daemon.init m₁ pl₁) ops₁).2)
        = upBytes (proj c (run srcGuards (Daemon.init m₂ pl₂) ops₂).2)) :=
  stutter srcGuards guards_present m₁ m₂ pl₁ pl₂ ops₁ ops₂ c hplan hsent hf₁ hf₂

/-! ### non-vacuity, and witnesses that the guards are necessary -/

def demoPlan : Plan :=
  { body := .chunked, fs := [.delay 1], us := [(0, .imm), (1, .pre)], ls := [.manual], rs := [(1, .delay 0)],
    size := 6, cbmax := 4, rid := 1 }

def allReady : Nat → Bool := fun _ => true

def demoSyms : List Sym := [.head, .sz 2, .b 1, .b 2, .crlf, .sz 1, .b 3, .crlf, .last, .trailerEnd]

def rounds (n : Nat) : List Op := List.replicate n (.round [0, 1] allReady allReady)

def demoPlans : Nat → Plan := fun c => if c = 0 then demoPlan else { size := 3, rid := 2 }

/-- two connections, the first one with suspend points of all four kinds -/
def demoOps : List Op :=
  [.arrive 0, .arrive 1, .send 0 demoSyms, .send 1 [.head]] ++ rounds 9 ++ [.resume 0] ++ rounds 9

/-- the demo history suspends connection 0 four times effectively and once in vain (resume first),
    serves both requests completely and leaves nobody suspended -/
example : ((run srcGuards (Daemon.init .select demoPlans) demoOps).1.conn 0).st = .finished ∧
    ((run srcGuards (Daemon.init .select demoPlans) demoOps).1.conn 1).st = .finished ∧
    (run srcGuards (Daemon.init .select demoPlans) demoOps).1.susp = [] ∧
    ((proj 0 (run srcGuards (Daemon.init .select demoPlans) demoOps).2).filter (· == .suspend true)).length = 4 ∧
    ((proj 0 (run srcGuards (Daemon.init .select demoPlans) demoOps).2).filter (· == .suspend false)).length = 1 ∧
    upBytes (proj 0 (run srcGuards (Daemon.init .select demoPlans) demoOps).2) = [1, 2, 3] := by decide

/-- the same request with every suspend erased runs to completion as well (hypotheses of
    `stutter_equivalence` are satisfiable) -/
example : ((run srcGuards (Daemon.init .epoll (fun c => (demoPlans c).erase))
      ([.arrive 0, .send 0 demoSyms, .eround [0] [], .eround [0] [(0, true, true)], .eround [0] [], .eround [0] [],
        .eround [0] [], .eround [0] []])).1.conn 0).st = .finished := by decide

/-- a reachable state with one connection suspended (hypotheses of `suspended_frozen`) … -/
example : (run srcGuards (Daemon.init .epoll demoPlans)
      [.arrive 0, .arrive 1, .send 0 demoSyms, .eround [0, 1] [], .eround [0, 1] [(0, true, true)]]).1.susp = [0] ∧
    ((run srcGuards (Daemon.init .epoll demoPlans)
      [.arrive 0, .arrive 1, .send 0 demoSyms, .eround [0, 1] [], .eround [0, 1] [(0, true, true)]]).1.conn 0).resuming = false := by
  decide

/-- … and one with a pending resume request (hypotheses of `resume_reenters`) -/
example : (run srcGuards (Daemon.init .select demoPlans) ([.arrive 0, .send 0 demoSyms] ++ rounds 4)).1.susp = [0] ∧
    ((run srcGuards (Daemon.init .select demoPlans) ([.arrive 0, .send 0 demoSyms] ++ rounds 4)).1.conn 0).resuming = true := by
  decide

/-- the unchanged tree's `process_request_body` loops `while (instant_retry)` without looking at
    `connection->suspended`; every other guard present -/
def asIsGuards : Guards :=
  { idleLoop := true, idleFirstCall := true, idleEpoll := true, read := true, write := true, eli := true,
    bodyRetry := false, writeReader := false, shortcut := true, resumeReady := true, selectPrevAfter := false }

/-- WITNESS (kernel-checked) that this guard is necessary: with a chunked upload whose chunks are
    all in the read buffer, a handler that suspends in the first upload call is called again for
    the next chunk while the connection is suspended — the monitor rejects the log. -/
theorem instant_retry_witness :
    quietFrom false (proj 0 (run asIsGuards (Daemon.init .select (fun _ => { body := .chunked, us := [(0, .manual)], size := 3 }))
      ([.arrive 0, .send 0 demoSyms] ++ rounds 2)).2) = none := by
  decide

/-- WITNESS that the reader assumption of `quiet_while_suspended` is necessary as long as
    MHD_connection_handle_write sends right after try_ready_normal_body: a reader of a known-size
    response that suspends *and* returns data gets its block sent while suspended. -/
theorem reader_data_witness :
    quietFrom false (proj 0 (run { asIsGuards with bodyRetry := true }
      (Daemon.init .select (fun _ => { rkind := .cbKnown, rs := [(1, .manual)], rd := true, size := 6, cbmax := 2 }))
      ([.arrive 0, .send 0 [.head]] ++ rounds 4)).2) = none := by
  decide

end Mhd.C11
