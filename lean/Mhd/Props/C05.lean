/-
  C05 — Handler call protocol and exactly-once completion notification.

  Statements only; the proofs are the refinement argument of `Mhd.Proofs.ConnSM*`
  (relation `Rel` between the connection record and the state of the protocol
  automaton, preserved by every function of the model).

  Quantification: every configuration, every scripted application (any state type,
  any decision function), every initial application state and every finite sequence
  of connection events `Mhd.ConnSM.Ev` — received tokens in any segmentation, peer
  close, read errors, `MHD_connection_handle_idle` under any environment (time-out,
  pool exhaustion, allocation / header-build / epoll_ctl failures, content-reader
  results, shutdown flag, failure of MHD_response_execute_upgrade_), write progress,
  forced close, resume, daemon shutdown, end of an upgraded connection, cleanup — in
  any order and of any length.  No bound anywhere.

  Responses may be interim ones (102 Processing: after the complete reply the request
  goes back to HEADERS_PROCESSED, the handler is asked again and another response may be
  queued — any number of times) and upgrade responses (MHD_response_execute_upgrade_:
  connection suspended, upgrade handler called, response released; the connection
  leaves the suspended list through resume_suspended_connections' `urh` branch, which
  delivers the one completion notification and puts it on the cleanup list).

  The only hypothesis, `EvOk cfg e`, says that the event does not drive the connection
  down one of the four paths that lose or corrupt the notification in an *unrepaired*
  tree (F9, F9b, F9c, F14); it is vacuous as soon as the corresponding repair flag
  regenerated from connection.c is `true` (`evOk_of_fixed`).
-/
import Mhd.Proofs.ConnSMStep
import Mhd.Proofs.ConnSMFuel
import Mhd.Proofs.ConnSMUpload
import Mhd.Proofs.ConnSMBracket
import Mhd.Proofs.ConnSMChunked

namespace Mhd.C05
open Mhd.ConnSM Mhd.Protocol Mhd.Gen.ConnState

/-- configuration whose repair flags are the ones regenerated from the source tree -/
def treeCfg (uriLog allowSuspend epoll : Bool) : Cfg :=
  { uriLog := uriLog, allowSuspend := allowSuspend, epoll := epoll,
    f9Fixed := f9Fixed, allocBypassFixed := allocBypassFixed,
    epollBypassFixed := epollBypassFixed, f14Fixed := f14Fixed, f14ClearsAware := f14ClearsAware }

/-- The callback log of every run respects the documented call protocol: start first; per request
    the first handler call comes from the first call site without upload data and sees the fresh
    context; call sites in the order first* upload* final*; every upload call starts exactly where
    the application stopped taking bytes; no handler call after a response was queued or after the
    handler failed; the completion callback fires only for a presented request, with that request's
    context, at most once; the strings of a presented request are not released before its
    completion; the close notification comes only when no request is open. -/
theorem protocol_accepts {σ : Type} (cfg : Cfg) (app : App σ) (s : σ) (evs : List Ev)
    (hok : ∀ e ∈ evs, EvOk cfg e) :
    Protocol.accepts (run cfg app (Conn.init s) evs).2 := by
  have h := run_rel cfg app evs (Conn.init s) .fresh (init_rel s) hok
  unfold Protocol.accepts
  intro hb
  rw [hb] at h
  exact h

/-- … and once the connection has been freed by MHD_cleanup_connections the log is complete:
    start and close notifications bracket everything and every presented request was completed
    (exactly once, by `protocol_accepts`). -/
theorem protocol_complete {σ : Type} (cfg : Cfg) (app : App σ) (s : σ) (evs : List Ev)
    (hok : ∀ e ∈ evs, EvOk cfg e) (hcl : (run cfg app (Conn.init s) evs).1.cleaned = true) :
    Protocol.complete (run cfg app (Conn.init s) evs).2 := by
  have h := run_rel cfg app evs (Conn.init s) .fresh (init_rel s) hok
  unfold Protocol.complete
  generalize Protocol.run .fresh (run cfg app (Conn.init s) evs).2 = p at h
  cases p <;> simp_all [Rel]

/-- The invariant behind it: in every reachable state of a live connection `client_aware` is set
    exactly when the automaton has a presented, not yet completed request — and then the request
    context of the connection is that request's context. -/
theorem aware_iff_open_request {σ : Type} (cfg : Cfg) (app : App σ) (s : σ) (evs : List Ev)
    (hok : ∀ e ∈ evs, EvOk cfg e) (hcl : (run cfg app (Conn.init s) evs).1.cleaned = false) :
    ((run cfg app (Conn.init s) evs).1.clientAware = true ↔
      ∃ r, Protocol.run .fresh (run cfg app (Conn.init s) evs).2 = .req r ∧
           r.ctx = (run cfg app (Conn.init s) evs).1.ctx) := by
  have h := run_rel cfg app evs (Conn.init s) .fresh (init_rel s) hok
  generalize Protocol.run .fresh (run cfg app (Conn.init s) evs).2 = p at h
  cases p <;> simp_all [Rel]

/-- Every way into MHD_CONNECTION_CLOSED either went through MHD_connection_close_ or happened
    with `client_aware` unset: a live connection in state CLOSED is never client-aware and holds no
    response; a connection in the cleanup list is in state CLOSED or — when it was upgraded and has
    been taken off the suspended list — in state UPGRADE, and in both cases it is not client-aware
    (the completion notification has been delivered) and holds no response. -/
theorem closed_only_unaware {σ : Type} (cfg : Cfg) (app : App σ) (s : σ) (evs : List Ev)
    (hok : ∀ e ∈ evs, EvOk cfg e) (hcl : (run cfg app (Conn.init s) evs).1.cleaned = false) :
    ((run cfg app (Conn.init s) evs).1.state = .closed →
       (run cfg app (Conn.init s) evs).1.clientAware = false ∧ (run cfg app (Conn.init s) evs).1.response = none) ∧
    ((run cfg app (Conn.init s) evs).1.inCleanup = true →
       ((run cfg app (Conn.init s) evs).1.state = .closed ∨ (run cfg app (Conn.init s) evs).1.state = .upgrade) ∧
       (run cfg app (Conn.init s) evs).1.clientAware = false ∧ (run cfg app (Conn.init s) evs).1.response = none) := by
  have h := run_rel cfg app evs (Conn.init s) .fresh (init_rel s) hok
  generalize Protocol.run .fresh (run cfg app (Conn.init s) evs).2 = p at h
  generalize (run cfg app (Conn.init s) evs).1 = c at h hcl ⊢
  have hinv : Mhd.ConnSM.Inv c := by cases p <;> simp_all [Rel]
  simp only [Mhd.ConnSM.Inv] at hinv
  refine ⟨hinv.2.2.2.1, fun hi => ?_⟩
  obtain ⟨h1, h2, h3⟩ := hinv.2.2.2.2.2.1 hi
  refine ⟨?_, h2, h3⟩
  cases hst : c.state <;> simp [hst] at h1 <;> simp

/-- An upgraded connection that is still on the suspended list has an open request exactly when it
    is client-aware, and it holds no response object any more (it was released right after the
    upgrade handler returned); the protocol automaton then has recorded the accepted response, so
    that no further handler call and no further response is accepted before the completion. -/
theorem upgraded_holds_no_response {σ : Type} (cfg : Cfg) (app : App σ) (s : σ) (evs : List Ev)
    (hok : ∀ e ∈ evs, EvOk cfg e) (hcl : (run cfg app (Conn.init s) evs).1.cleaned = false)
    (hup : (run cfg app (Conn.init s) evs).1.state = .upgrade) :
    (run cfg app (Conn.init s) evs).1.response = none ∧
    (∀ r, Protocol.run .fresh (run cfg app (Conn.init s) evs).2 = .req r → r.replied = true ∧ r.upgraded = true) := by
  have h := run_rel cfg app evs (Conn.init s) .fresh (init_rel s) hok
  generalize Protocol.run .fresh (run cfg app (Conn.init s) evs).2 = p at h
  generalize (run cfg app (Conn.init s) evs).1 = c at h hcl hup ⊢
  have hinv : Mhd.ConnSM.Inv c := by cases p <;> simp_all [Rel]
  simp only [Mhd.ConnSM.Inv] at hinv
  have hr : c.response = none := by
    cases hq : c.response with
    | none => rfl
    | some x => have := hinv.1 (by simp [hq]); rw [hup] at this; simp at this
  refine ⟨hr, ?_⟩
  intro r hp
  subst hp
  simp only [Rel] at h
  rw [h.2.2.2.2.2.2.1, h.2.2.2.2.2.2.2.2.2.2]
  simp [respOrUpg, hup]

/-! ### connection notifications are paired and bracket all request activity -/

/-- For every connection object and every history: the callback log is empty (the connection was refused before
    it was announced: connection limit — quick or firm check —, per-IP limit, accept policy, allocation failure), or
    it begins with MHD_CONNECTION_NOTIFY_STARTED and then contains either no further notification (still open) or
    exactly one MHD_CONNECTION_NOTIFY_CLOSED, behind which nothing but free callbacks of response objects follows:
    never a second STARTED, never a second CLOSED, no URI log / handler / upgrade / completion callback outside
    the bracket.  Once the connection object has been freed the bracket is closed: every STARTED has its CLOSED. -/
theorem start_close_paired {σ : Type} (cfg : Cfg) (app : App σ) (s : σ) (evs : List Ev)
    (hok : ∀ e ∈ evs, EvOk cfg e) :
    ((run cfg app (Conn.init s) evs).2 = [] ∨
     ∃ rest, (run cfg app (Conn.init s) evs).2 = .connStart :: rest ∧
       ((∀ e ∈ rest, isNotify e = false) ∨
        ∃ mid tail, rest = mid ++ .connClose :: tail ∧ (∀ e ∈ mid, isNotify e = false) ∧ ∀ e ∈ tail, isFree e = true)) ∧
    ((run cfg app (Conn.init s) evs).1.cleaned = true →
     ∃ mid tail, (run cfg app (Conn.init s) evs).2 = .connStart :: (mid ++ .connClose :: tail) ∧
       (∀ e ∈ mid, isNotify e = false) ∧ ∀ e ∈ tail, isFree e = true) :=
  ⟨accepts_bracket _ (protocol_accepts cfg app s evs hok),
   fun hcl => complete_bracket _ (protocol_complete cfg app s evs hok hcl)⟩

/-- the two events that admit a connection (new_connection_process_ succeeded / failed after NOTIFY_STARTED) -/
def isAdmission : Ev → Bool
  | .start => true
  | .startFailed => true
  | _ => false

/-- A connection that was refused before new_connection_process_ announced it gets NEITHER notification, whatever
    happens afterwards: without an admission event the log stays empty. -/
theorem refused_silent {σ : Type} (cfg : Cfg) (app : App σ) (s : σ) (evs : List Ev)
    (h : ∀ e ∈ evs, isAdmission e = false) : (run cfg app (Conn.init s) evs).2 = [] := by
  have key : ∀ (evs : List Ev) (c : Conn σ), c.started = false → (∀ e ∈ evs, isAdmission e = false) →
      (run cfg app c evs).2 = [] := by
    intro evs
    induction evs with
    | nil => intro c _ _; rfl
    | cons e t ih =>
      intro c hs hall
      have he := hall e (by simp)
      have hstep : step cfg app c e = (c, []) := by
        unfold Mhd.ConnSM.step
        split
        · rfl
        · cases e <;> simp [isAdmission] at he <;> simp [hs]
      simp only [Mhd.ConnSM.run, hstep, List.nil_append]
      exact ih c hs (fun e' he' => hall e' (by simp [he']))
  exact key evs (Conn.init s) rfl h

/-- … and a connection whose admission fails after NOTIFY_STARTED (thread creation, epoll_ctl(ADD)) gets BOTH, at
    once, and nothing else ever -/
example :
    let app : App Unit := { uriLog := fun _ => ((), none), handle := fun _ _ => ((), {}) }
    (Mhd.ConnSM.run {} app (Conn.init ()) [.startFailed, .recv [.line .ok, .headers .none true false], .idle {}, .start,
                                           .startFailed, .cleanup]).2 = [.connStart, .connClose] ∧
    (Mhd.ConnSM.run {} app (Conn.init ()) [.recv [.line .ok], .idle {}, .shutdownClose, .cleanup]).2 = [] := by decide

/-! ### the loops of the model are the unbounded loops of the code -/

/-- The `while (! connection->suspended)` loop of MHD_connection_handle_idle never stops because its bound
    (`idleFuel`) was reached: MHD_connection_handle_idle run with ANY larger bound gives the same connection
    record and the same callback log — for every connection record, application and environment. -/
theorem idle_fuel_sufficient {σ : Type} (cfg : Cfg) (app : App σ) (env : IdleEnv) (c : Conn σ) (n : Nat)
    (h : idleFuel c ≤ n) : handleIdleWith n cfg app env c = handleIdle cfg app env c :=
  handleIdle_fuel_irrelevant cfg app env c n h

/-- … and the `do … while (instant_retry)` loop of process_request_body never stops because its bound
    (`bodyFuel`) was reached. -/
theorem body_fuel_sufficient {σ : Type} (cfg : Cfg) (app : App σ) (env : IdleEnv) (buf : List Tok) (c : Conn σ) (n : Nat)
    (h : bodyFuel buf ≤ n) : processBody cfg app env n buf c = processBody cfg app env (bodyFuel buf) buf c :=
  bodyFuel_sufficient cfg app env buf c n h

example : idleFuel (Conn.init ()) ≤ 1000 ∧ bodyFuel [.data 3, .chunkEnd] ≤ 1000 := by decide

/-- Thread-per-connection mode, daemon shutdown: the exit path of the connection's own thread
    (`MHD_connection_close_ (DAEMON_SHUTDOWN)` then `MHD_connection_handle_idle`) is the event `shutdownClose`
    for every connection that is not suspended: same callback log, same record up to the scratch flag `touched`.
    So all theorems above cover that path too.  (Not covered: a suspended connection that is being resumed is
    first taken back from the suspended list by the thread; no run against the real code in this mode.) -/
theorem tpc_shutdown_is_shutdownClose {σ : Type} (cfg : Cfg) (app : App σ) (env : IdleEnv) (c : Conn σ)
    (hf : c.fault = false) (hs : c.started = true) (hc : c.cleaned = false) (hi : c.inCleanup = false)
    (hsu : c.suspended = false) :
    (handleIdle cfg app env (closeConn c terminatedDaemonShutdown).1).1 =
      { (Mhd.ConnSM.step cfg app c .shutdownClose).1 with touched := false } ∧
    (closeConn c terminatedDaemonShutdown).2 ++ (handleIdle cfg app env (closeConn c terminatedDaemonShutdown).1).2 =
      (Mhd.ConnSM.step cfg app c .shutdownClose).2 :=
  tpc_exit_is_shutdownClose cfg app env c hf hs hc hi hsu

example :
    let app : App Unit := { uriLog := fun _ => ((), none), handle := fun _ _ => ((), { ctxOut := some 1 }) }
    let c := (Mhd.ConnSM.run {} app (Conn.init ()) [.start, .recv [.line .ok, .headers .none true false], .idle {}]).1
    c.fault = false ∧ c.started = true ∧ c.cleaned = false ∧ c.inCleanup = false ∧ c.suspended = false ∧
    c.clientAware = true ∧
    (Mhd.ConnSM.step {} app c .shutdownClose).2 = [.completed terminatedDaemonShutdown (some 1)] := by decide

/-- PARTIAL (chunked counterpart of `upload_complete_length`).  With the ghost field `chunkTotal` (sum of the chunk
    sizes declared so far) process_request_body keeps, for a chunked upload that is not discarded,
    `upOff + chunkLeft = chunkTotal`, `chunkLeft = 0` outside a chunk, and `chunkLeft = 0` once the last chunk has
    been seen (`remaining = 0`) — for every buffer content, fuel and application.  Full statement, NOT proved:
    in every reachable record in FULL_REQ_RECEIVED … FULL_REPLY_SENT with chunked framing and the upload not
    discarded, `upOff = chunkTotal`.  Missing: the lifting of `CInv` (Mhd/Proofs/ConnSMChunked.lean) through
    idleCase / step (the interim loop-back to HEADERS_PROCESSED with `remaining = 0` needs its own clause). -/
theorem chunked_body_accounting_partial {σ : Type} (cfg : Cfg) (app : App σ) (env : IdleEnv) (n : Nat) (buf : List Tok)
    (c : Conn σ) (hst : c.state = .bodyReceiving) (h : BInv c)
    (hrem : c.haveChunked = true → c.discard = false → c.remaining ≠ 0) :
    Safe (processBody cfg app env n buf c).1 ∨
    ((processBody cfg app env n buf c).1.state = .bodyReceiving ∧ BInv (processBody cfg app env n buf c).1) :=
  processBody_binv cfg app env n buf c hst h hrem

example :
    let c : Conn Unit := { app := (), state := .bodyReceiving, haveChunked := true, remaining := 1 }
    let app : App Unit := { uriLog := fun _ => ((), none), handle := fun _ ci => ((), { take := ci.offered }) }
    let r := processBody {} app {} 20 [.chunkHdr 3, .data 3, .chunkEnd, .chunkHdr 2, .data 2, .chunkEnd, .chunkHdr 0] c
    r.1.upOff = 5 ∧ r.1.chunkTotal = 5 ∧ r.1.chunkLeft = 0 ∧ r.1.remaining = 0 := by decide

/-! ### upload completeness -/

/-- Upload accounting, for every event sequence (no hypothesis at all, repaired tree or not): in every reachable
    connection record
    * before HEADERS_PROCESSED nothing has been taken;
    * from HEADERS_PROCESSED to FULL_REPLY_SENT, for a request with Content-Length whose upload has not been
      discarded: (bytes taken by the application so far) + (bytes still to come) = Content-Length;
    * from BODY_RECEIVED to FULL_REPLY_SENT nothing remains to come, unless the upload has been discarded.
    `upOff` is the sum of the `taken` fields of the upload calls of the request, each of which starts at the
    previous sum and offers the next bytes of the read buffer (`protocol_accepts`: `off = nextOff`,
    `taken ≤ len`): every body byte is presented, in order; what the handler declines is presented again;
    nothing else is. -/
theorem upload_accounting {σ : Type} (cfg : Cfg) (app : App σ) (s : σ) (evs : List Ev) :
    Mhd.ConnSM.UInv (run cfg app (Conn.init s) evs).1 :=
  run_uinv cfg app evs (Conn.init s) (init_uinv s)

/-- Whole body before the final call / before COMPLETED_OK (Content-Length framing): whenever the connection
    is in FULL_REQ_RECEIVED (the state of every final handler call) … FULL_REPLY_SENT (the state in which
    connection_reset delivers MHD_REQUEST_TERMINATED_COMPLETED_OK) and the upload has not been discarded,
    the application has taken exactly Content-Length bytes — and that is the offset the protocol automaton
    has arrived at by adding up the upload calls of the log. -/
theorem upload_complete_length {σ : Type} (cfg : Cfg) (app : App σ) (s : σ) (evs : List Ev)
    (hok : ∀ e ∈ evs, EvOk cfg e) (n : Nat)
    (hfr : (run cfg app (Conn.init s) evs).1.framing = .length n)
    (hch : (run cfg app (Conn.init s) evs).1.haveChunked = false)
    (hd : (run cfg app (Conn.init s) evs).1.discard = false)
    (hst : 11 ≤ (run cfg app (Conn.init s) evs).1.state.toNat ∧ (run cfg app (Conn.init s) evs).1.state.toNat ≤ 21) :
    (run cfg app (Conn.init s) evs).1.upOff = n ∧
    (∀ r, Protocol.run .fresh (run cfg app (Conn.init s) evs).2 = .req r → r.nextOff = n) := by
  have hu := upload_accounting cfg app s evs
  have h := run_rel cfg app evs (Conn.init s) .fresh (init_rel s) hok
  generalize Protocol.run .fresh (run cfg app (Conn.init s) evs).2 = p at h
  generalize (run cfg app (Conn.init s) evs).1 = c at h hu hfr hch hd hst ⊢
  unfold Mhd.ConnSM.UInv at hu
  have h2 := hu.2.1 (by omega) hst.2 hch hd
  have h3 := hu.2.2 (by omega) hst.2 hd
  rw [hfr] at h2
  simp only [frameLen] at h2
  have hn : c.upOff = n := by omega
  refine ⟨hn, ?_⟩
  intro r hp
  subst hp
  simp only [Rel] at h
  rw [h.2.2.2.2.2.1]; exact hn

/-- What the code does with the upload after an EARLY response (accepted in HEADERS_PROCESSED, i.e. from the first
    handler call or while the connection is suspended there — also an interim 102 one): the rest of the upload
    is discarded — `remaining_upload_size = 0`, `discard_request = true`, straight to START_REPLY; no body byte
    is presented any more (and the connection is closed after the final reply).  A response accepted in
    FULL_REQ_RECEIVED changes nothing of the accounting. -/
theorem early_response_discards_upload {σ : Type} (env : IdleEnv) (c : Conn σ) (r : Resp)
    (hacc : (queueResponse env c r).2.2 = true) :
    (c.state = .headersProcessed →
       (queueResponse env c r).1.discard = true ∧ (queueResponse env c r).1.remaining = 0 ∧
       (queueResponse env c r).1.state = .startReply ∧ (queueResponse env c r).1.upOff = c.upOff) ∧
    (c.state ≠ .headersProcessed →
       c.state = .fullReqReceived ∧ (queueResponse env c r).1.discard = c.discard ∧
       (queueResponse env c r).1.remaining = c.remaining ∧ (queueResponse env c r).1.upOff = c.upOff) := by
  unfold queueResponse at hacc ⊢
  by_cases h1 : c.response.isSome = true
  · simp [h1] at hacc
  · by_cases h2 : c.state ≠ .headersProcessed ∧ c.state ≠ .fullReqReceived
    · simp [h1, h2] at hacc
    · by_cases h3 : env.shutdown = true
      · simp [h1, h2, h3] at hacc
      · by_cases h4 : (!r.valid) = true
        · simp [h1, h2, h3, h4] at hacc
        · simp only [h1, h2, h3, h4, if_false]
          constructor
          · intro h5; simp [h5]
          · intro h5
            have : c.state = .fullReqReceived := by
              by_cases h6 : c.state = .fullReqReceived
              · exact h6
              · exact absurd ⟨h5, h6⟩ h2
            simp [h5, this]

/-- takes 2 bytes per upload call -/
def nibbler : App Unit :=
  { uriLog := fun _ => ((), none),
    handle := fun _ ci => ((), { take := 2, act := if ci.site = .final then .reply { rid := 0 } false else .cont,
                                  ctxOut := some 1 }) }

/-- a 5-byte body arriving in two pieces, taken 2 bytes at a time: upload calls at offsets 0, 2, 4, 4 (the byte the
    handler declined is presented again), the final call at offset 5 = Content-Length -/
example :
    let r := run {} nibbler (Conn.init ())
      [.start, .recv [.line .ok, .headers (.length 5) true false, .data 4], .idle {}, .idle {}, .idle {},
       .recv [.data 1], .idle {}]
    r.2.filterMap (fun e => match e with | .handler .upload off len taken _ _ _ => some (off, len, taken) | _ => none)
      = [(0, 4, 2), (2, 2, 2), (4, 1, 1)] ∧
    r.2.filterMap (fun e => match e with | .handler .final off _ _ _ _ _ => some off | _ => none) = [5] ∧
    r.1.upOff = 5 ∧ r.1.discard = false := by decide

/-- With the four repairs in place there is no hypothesis left: every event sequence. -/
theorem protocol_accepts_fixed {σ : Type} (cfg : Cfg) (h9 : cfg.f9Fixed = true) (ha : cfg.allocBypassFixed = true)
    (he : cfg.epollBypassFixed = true) (h14 : cfg.f14Fixed = true ∧ cfg.f14ClearsAware = true)
    (app : App σ) (s : σ) (evs : List Ev) :
    Protocol.accepts (run cfg app (Conn.init s) evs).2 ∧
    ((run cfg app (Conn.init s) evs).1.cleaned = true → Protocol.complete (run cfg app (Conn.init s) evs).2) :=
  ⟨protocol_accepts cfg app s evs (fun e _ => evOk_of_fixed cfg h9 ha he h14 e),
   protocol_complete cfg app s evs (fun e _ => evOk_of_fixed cfg h9 ha he h14 e)⟩

/-- The source tree this proof was regenerated from contains the F9 repair (the `return` after the
    first error response in handle_req_chunk_size_line_no_space).  Fails to check on an unrepaired tree. -/
theorem tree_f9_fixed : f9Fixed = true := by decide

/-- … and the other three repairs (allocation-failure exit and "release everything" branch of
    transmit_error_response_len, epoll_ctl failure exit of MHD_connection_epoll_update_). -/
theorem tree_other_repairs :
    allocBypassFixed = true ∧ epollBypassFixed = true ∧ f14Fixed = true ∧ f14ClearsAware = true := by decide

/-- The theorem for the tree as it is: every configuration of the callbacks / polling mode, every
    application, every event sequence. -/
theorem protocol_accepts_tree {σ : Type} (uriLog allowSuspend epoll : Bool) (app : App σ) (s : σ) (evs : List Ev) :
    Protocol.accepts (run (treeCfg uriLog allowSuspend epoll) app (Conn.init s) evs).2 ∧
    ((run (treeCfg uriLog allowSuspend epoll) app (Conn.init s) evs).1.cleaned = true →
      Protocol.complete (run (treeCfg uriLog allowSuspend epoll) app (Conn.init s) evs).2) :=
  protocol_accepts_fixed _ tree_f9_fixed tree_other_repairs.1 tree_other_repairs.2.1 tree_other_repairs.2.2 app s evs

/-! ### witnesses: what each repair is needed for (kernel-checked runs of the model of the
    unrepaired code; the same scripts are replayed against the real library by tools/props/C05.py) -/

/-- an application that lets every request through and never replies -/
def passive : App Unit :=
  { uriLog := fun _ => ((), none), handle := fun _ _ => ((), { act := .cont, ctxOut := some 1 }) }

/-- suspends in its first call, continues afterwards -/
def suspendFirst : App Nat :=
  { uriLog := fun n => (n, none),
    handle := fun n _ => (n + 1, { act := if n = 0 then .suspend else .cont, ctxOut := some 1 }) }

/-- F9: over-long chunk-extension line, pool exhausted: the second error response sets CLOSED
    directly; the connection is cleaned up with the request still open. -/
theorem witness_f9 :
    ¬ Protocol.accepts (run { f9Fixed := false } passive (Conn.init ())
        [.start, .recv [.line .ok, .headers .chunked true false, .junk], .idle {},
         .idle { noSpace := true, chunkExt := true }, .idle {}, .cleanup]).2 := by decide

/-- F9b: MHD's error response cannot be allocated after the handler has seen the request. -/
theorem witness_alloc_bypass :
    ¬ Protocol.accepts (run { allocBypassFixed := false } passive (Conn.init ())
        [.start, .recv [.line .ok, .headers .chunked true false, .chunkBad], .idle { errAllocFail := true },
         .idle {}, .cleanup]).2 := by decide

/-- F9c: epoll_ctl(EPOLL_CTL_ADD) fails for a resumed connection. -/
theorem witness_epoll_bypass :
    ¬ Protocol.accepts (run { epoll := true, epollBypassFixed := false } suspendFirst (Conn.init 0)
        [.start, .recv [.line .ok, .headers (.length 5) true false], .idle {}, .resume,
         .idle { epollAdd := some false }, .cleanup]).2 := by decide

/-- F14: the header of MHD's error reply does not fit; everything is released while the request is
    still presented to the application. -/
theorem witness_f14 :
    ¬ Protocol.accepts (run { f14Fixed := false } passive (Conn.init ())
        [.start, .recv [.line .ok, .headers .chunked true false, .chunkBad], .idle { errHdrFail1 := true }]).2 := by
  decide

/-- F14 regression (seeded change C07_3): the completion callback runs in the "release everything"
    branch but `client_aware` is not cleared: the notification fires a second time at close. -/
theorem witness_f14_double_completion :
    ¬ Protocol.accepts (run { f14ClearsAware := false } passive (Conn.init ())
        [.start, .recv [.line .ok, .headers .chunked true false, .chunkBad], .idle { errHdrFail1 := true },
         .write .done, .idle {}, .write .done, .idle {}]).2 := by
  decide

/-! ### non-vacuity -/

/-- replies at the final call -/
def replier : App Unit :=
  { uriLog := fun _ => ((), none),
    handle := fun _ ci => ((), { take := ci.offered,
                                  act := if ci.site = .final then .reply { rid := 0 } false else .cont,
                                  ctxOut := some 1 }) }

/-- two pipelined requests (the first with a body delivered in two pieces), keep-alive, then the peer
    closes; the hypotheses of the theorems hold and the log is non-trivial, accepted and complete. -/
example :
    let r := run {} replier (Conn.init ())
      [.start, .recv [.line .ok, .headers (.length 5) true false, .data 2], .idle {}, .recv [.data 3, .line .ok],
       .idle {}, .write .done, .idle {}, .write .done, .idle {}, .recv [.headers .none true false], .idle {},
       .write .done, .idle {}, .write .done, .idle {}, .recvEof, .idle {}, .cleanup]
    r.2.length = 14 ∧ Protocol.accepts r.2 ∧ Protocol.complete r.2 ∧ r.1.cleaned = true := by decide

/-- first call: 102 (with free callback); asked again: continues; final call: 102 again; asked again
    (first site, then final site): final reply -/
def interimApp : App Nat :=
  { uriLog := fun n => (n, none),
    handle := fun n _ => (n + 1,
      { act := if n = 0 then .reply { rid := 6, interim := true, body := false, freeCb := true } false
               else if n = 2 then .reply { rid := 5, interim := true, body := false } false
               else if n = 4 then .reply { rid := 0 } false else .cont,
        ctxOut := some 1 }) }

/-- two interim replies and a final one for one request: five handler calls, three accepted responses,
    one completion; accepted and complete -/
example :
    let r := run {} interimApp (Conn.init 0)
      [.start, .recv [.line .ok, .headers .none true false], .idle {}, .write .done, .idle {},
       .write .done, .idle {}, .write .done, .idle {}, .write .done, .idle {}, .cleanup]
    (r.2.filter (fun e => match e with | .handler .. => true | _ => false)).length = 5 ∧
    (r.2.filter (· == .interimSent)).length = 2 ∧ (r.2.filter (· == .queued)).length = 3 ∧
    (r.2.filter (fun e => match e with | .completed .. => true | _ => false)).length = 1 ∧
    Protocol.accepts r.2 ∧ Protocol.complete r.2 ∧ r.1.cleaned = true := by decide

/-- replies with an upgrade response at the final call -/
def upgrader : App Unit :=
  { uriLog := fun _ => ((), some 7),
    handle := fun _ ci => ((), { act := if ci.site = .final then .reply { rid := 7, upgrade := true, body := false } false else .cont,
                                  ctxOut := some 1 }) }

/-- upgrade: after the header has been sent the upgrade handler is called, the connection is suspended in
    state UPGRADE with the request still open (time-outs, resume, forced close and shutdown-close do not
    touch it); `upgradeDone` delivers the single completion notification; accepted and complete -/
example :
    let evs : List Ev := [.start, .recv [.line .ok, .headers .none true false], .idle {}, .write .done, .idle {},
                          .idle { timedOut := true }, .resume, .forceClose, .shutdownClose, .recvEof]
    let r1 := run {} upgrader (Conn.init ()) evs
    let r2 := run {} upgrader (Conn.init ()) (evs ++ [.upgradeDone, .upgradeDone, .cleanup])
    r1.1.state = .upgrade ∧ r1.1.suspended = true ∧ r1.1.clientAware = true ∧ r1.1.response = none ∧
    (r1.2.filter (· == .upgrade)).length = 1 ∧ Protocol.accepts r1.2 ∧ ¬ Protocol.complete r1.2 ∧
    (r2.2.filter (fun e => match e with | .completed .. => true | _ => false)).length = 1 ∧
    Protocol.accepts r2.2 ∧ Protocol.complete r2.2 ∧ r2.1.cleaned = true := by decide

/-- MHD_response_execute_upgrade_ fails: closed with error, completion delivered once, no upgrade callback -/
example :
    let r := run {} upgrader (Conn.init ())
      [.start, .recv [.line .ok, .headers .none true false], .idle {}, .write .done, .idle { upgradeFail := true }, .cleanup]
    (r.2.filter (· == .upgrade)).length = 0 ∧ r.2.contains (.completed terminatedWithError (some 1)) = true ∧
    Protocol.accepts r.2 ∧ Protocol.complete r.2 := by decide

/-- the automaton rejects what the extension must exclude: an upgrade callback without an accepted
    response, a handler call after the upgrade, a second interim continuation without a new response -/
example : ¬ Protocol.accepts [.connStart, .uriLog none, .handler .first 0 0 0 none (some 1) true, .upgrade] ∧
    ¬ Protocol.accepts [.connStart, .uriLog none, .handler .first 0 0 0 none (some 1) true, .queued, .upgrade,
                        .handler .final 0 0 0 (some 1) (some 1) true] ∧
    ¬ Protocol.accepts [.connStart, .uriLog none, .handler .first 0 0 0 none (some 1) true, .queued, .interimSent,
                        .interimSent] ∧
    -- the `upgraded` flag: no second upgrade callback, no interim continuation after the upgrade
    ¬ Protocol.accepts [.connStart, .uriLog none, .handler .first 0 0 0 none (some 1) true, .queued, .upgrade, .upgrade] ∧
    ¬ Protocol.accepts [.connStart, .uriLog none, .handler .first 0 0 0 none (some 1) true, .queued, .upgrade, .interimSent] ∧
    Protocol.accepts [.connStart, .uriLog none, .handler .first 0 0 0 none (some 1) true, .queued, .upgrade,
                      .completed 0 (some 1), .connClose] := by decide

example : ∀ e ∈ ([.start, .idle { timedOut := true, noSpace := true, chunkExt := true, errAllocFail := true,
                                  errHdrFail1 := true, epollAdd := some false }, .cleanup] : List Ev), EvOk {} e :=
  fun e _ => evOk_of_fixed {} rfl rfl rfl ⟨rfl, rfl⟩ e

end Mhd.C05
