/-
  C17 — text/number codecs (placeholder while the proofs are being written)
-/
import Mhd.Model.Str
import Mhd.Model.StrCodec
import Mhd.Model.StrToken

namespace Mhd.C17
end Mhd.C17
