/-
  C17 — Text/number codecs are exact, total and respect buffer bounds
  (src/microhttpd/mhd_str.c, configured build: MHD_FAVOR_FAST_CODE).

  Statements only; proofs are in `Mhd.Proofs.Str*`.  Conventions of the model
  (`Mhd.Model.Str*`): a C input `(ptr, len)` is a byte list whose length is the
  stated length — reading at an index ≥ that length is the fault `read`; an
  output buffer is a byte list of the stated size — writing at an index ≥ that
  size is the fault `write`; a loop that does not terminate is the fault `fuel`.
  Every theorem of the form `f … = .ok …` / `Wrote (f …) …` / `∃ r, f … = .ok r ∧ …`
  therefore contains "no read beyond the stated input length, no write beyond
  the stated output size, terminates" for **all** inputs of any length.

  `Wrote res out (some d)` : normal return, buffer size unchanged, return value
  `= d.length`, first bytes of the buffer `= d`;  `Wrote res out none` : normal
  return, buffer size unchanged, return value 0.

  The model follows the code with build/fixes/F12, F17a, F17b, F17c, F17d applied.
-/
import Mhd.Proofs.StrNum
import Mhd.Proofs.StrPrint
import Mhd.Proofs.StrHex
import Mhd.Proofs.StrPct
import Mhd.Proofs.StrQuote
import Mhd.Proofs.StrB64
import Mhd.Proofs.StrCmp
import Mhd.Proofs.StrCompose
import Mhd.Proofs.StrTok
import Mhd.Proofs.StrRm
import Mhd.Proofs.StrRmMain
import Mhd.Proofs.StrRtMain
import Mhd.Proofs.StrRtNorm

namespace Mhd.C17
open Mhd.Str

/-! ## Decimal and hexadecimal parsing (∀ input strings) -/

/-- `MHD_str_to_uint64_n_`: consumes the maximal run of decimal digits; fails (0) iff
    the run is empty or its value exceeds `UINT64_MAX`; never reads beyond `len`. -/
theorem strToUint64N_exact (s : Bytes) : strToUint64N s = .ok (parseDec s) :=
  strToUint64N_spec s

/-- `MHD_str_to_uint64_` on any buffer that contains a NUL: same result, never reads
    past the terminator. -/
theorem strToUint64_exact (s : Bytes) (hz : 0 ∈ s) : strToUint64 s = .ok (parseDec s) :=
  strToUint64_spec s hz

/-- overflow / no-digit detection characterised exactly -/
theorem parseDec_zero_iff (s : Bytes) :
    (parseDec s).1 = 0 ↔ digitRun s = [] ∨ decVal (digitRun s) > 2 ^ 64 - 1 := by
  unfold parseDec parseResult
  have h : u64Max = 2 ^ 64 - 1 := by decide
  rw [h]
  by_cases hc : digitRun s = [] ∨ decVal (digitRun s) > 2 ^ 64 - 1
  · simp [hc]
  · simp only [hc, if_false, iff_false]
    intro h0
    have : digitRun s = [] := List.eq_nil_of_length_eq_zero h0
    exact hc (Or.inl this)

theorem strxToUint32N_exact (s : Bytes) : strxToUint32N s = .ok (parseHex (2 ^ 32 - 1) s) :=
  strxToUintN_spec _ s
theorem strxToUint64N_exact (s : Bytes) : strxToUint64N s = .ok (parseHex (2 ^ 64 - 1) s) :=
  strxToUintN_spec _ s
theorem strxToUint32_exact (s : Bytes) (hz : 0 ∈ s) : strxToUint32 s = .ok (parseHex (2 ^ 32 - 1) s) :=
  strxToUint_spec _ s hz
theorem strxToUint64_exact (s : Bytes) (hz : 0 ∈ s) : strxToUint64 s = .ok (parseHex (2 ^ 64 - 1) s) :=
  strxToUint_spec _ s hz

theorem parseHex_zero_iff (max : Nat) (s : Bytes) :
    (parseHex max s).1 = 0 ↔ xdigitRun s = [] ∨ hexVal (xdigitRun s) > max := by
  unfold parseHex parseResult
  by_cases hc : xdigitRun s = [] ∨ hexVal (xdigitRun s) > max
  · simp [hc]
  · simp only [hc, if_false, iff_false]
    intro h0
    exact hc (Or.inl (List.eq_nil_of_length_eq_zero h0))

example : strToUint64N [0x31, 0x38, 0x20] = .ok (2, 18) := rfl
example : strxToUint32 [0x66, 0x46, 0x67, 0] = .ok (2, 255) := rfl
/-- 2^64 = "18446744073709551616" overflows, 2^64 - 1 = "18446744073709551615" does not -/
example : strToUint64N [0x31, 0x38, 0x34, 0x34, 0x36, 0x37, 0x34, 0x34, 0x30, 0x37, 0x33, 0x37, 0x30, 0x39, 0x35, 0x35, 0x31, 0x36, 0x31, 0x36] = .ok (0, 0) := rfl
example : strToUint64N [0x31, 0x38, 0x34, 0x34, 0x36, 0x37, 0x34, 0x34, 0x30, 0x37, 0x33, 0x37, 0x30, 0x39, 0x35, 0x35, 0x31, 0x36, 0x31, 0x35] = .ok (20, 2 ^ 64 - 1) := rfl

/-! ## Decimal printing (∀ values, ∀ buffer sizes) and print ∘ parse -/

/-- `MHD_uint64_to_str`: writes the canonical decimal representation (`k+1` digits with
    `10^k ≤ val < 10^(k+1)`, or the single digit for `val < 10`) iff the buffer has
    at least `k+1` bytes, and returns 0 iff it is shorter. -/
theorem uint64ToStr_exact (val : Nat) (out : Bytes) (hv : val ≤ 2 ^ 64 - 1) :
    ∃ k, (k = 0 ∨ 10 ^ k ≤ val) ∧ val < 10 ^ (k + 1) ∧
      Wrote (uint64ToStr val out) out (if k + 1 ≤ out.length then some (decDigits k val) else none) :=
  uint64ToStr_spec val out (by have : u64Max = 2 ^ 64 - 1 := by decide
                               omega)

theorem uint16ToStr_exact (val : Nat) (out : Bytes) (hv : val < 65536) :
    ∃ k, (k = 0 ∨ 10 ^ k ≤ val) ∧ val < 10 ^ (k + 1) ∧
      Wrote (uint16ToStr val out) out (if k + 1 ≤ out.length then some (decDigits k val) else none) :=
  uint16ToStr_spec val out hv

/-- the digits printed are the value: `decVal (decDigits k v) = v` -/
theorem decDigits_value (k v : Nat) (hv : v < 10 ^ (k + 1)) : decVal (decDigits k v) = v :=
  decVal_decDigits k v hv

/-- `MHD_str_to_uint64_n_ ∘ MHD_uint64_to_str = id`; the printer reports 0 exactly when
    the buffer is shorter than the number of digits. -/
theorem print_parse_roundtrip (val : Nat) (out : Bytes) (hv : val ≤ 2 ^ 64 - 1) :
    ∃ n o, uint64ToStr val out = .ok (n, o) ∧
      (n ≠ 0 → strToUint64N (o.take n) = .ok (n, val)) ∧
      (n = 0 ↔ ∀ k, val < 10 ^ (k + 1) → out.length < k + 1) :=
  strToUint64N_uint64ToStr val out (by have : u64Max = 2 ^ 64 - 1 := by decide
                                       omega)

/-- `MHD_uint32_to_strx`: canonical upper-case hexadecimal representation iff it fits -/
theorem uint32ToStrx_exact (val : Nat) (out : Bytes) (hv : val < 2 ^ 32) :
    ∃ k, (k = 0 ∨ 16 ^ k ≤ val) ∧ val < 16 ^ (k + 1) ∧
      Wrote (uint32ToStrx val out) out (if k + 1 ≤ out.length then some (hexDigitsU k val) else none) :=
  uint32ToStrx_spec val out hv

/-- `MHD_strx_to_uint32_n_ ∘ MHD_uint32_to_strx = id` -/
theorem strx_print_parse_roundtrip (val : Nat) (out : Bytes) (hv : val < 2 ^ 32) :
    ∃ n o, uint32ToStrx val out = .ok (n, o) ∧ (n ≠ 0 → strxToUint32N (o.take n) = .ok (n, val)) :=
  strxToUint32N_uint32ToStrx val out hv

example : uint32ToStrx 0xBEEF (List.replicate 4 0) = .ok (4, [0x42, 0x45, 0x45, 0x46]) := rfl
example : uint32ToStrx 0 [7] = .ok (1, [0x30]) := rfl

/-- `MHD_uint8_to_str_pad`: for every 8-bit value, every permitted `min_digits` (0..3) and every
    buffer: the value in decimal, zero-padded on the left to `max (min_digits, 1)` digits, iff it
    fits; 0 iff it does not.  (`padSpec` = `decDigits` with the padded digit count; the mirror of
    the code's three stages equals it by `decide` over all 256 × 4 arguments.) -/
theorem uint8ToStrPad_exact (val pad : Nat) (out : Bytes) (hv : val < 256) (hp : pad ≤ 3) :
    Wrote (uint8ToStrPad val pad out) out
      (if (padSpec val pad).length ≤ out.length then some (padSpec val pad) else none) :=
  uint8ToStrPad_spec val pad out hv hp

example : uint8ToStrPad 7 3 (List.replicate 3 0) = .ok (3, [0x30, 0x30, 0x37]) := rfl
example : uint8ToStrPad 7 3 (List.replicate 2 0) = .ok (0, [0x30, 0x30]) := rfl
example : padSpec 205 0 = [0x32, 0x30, 0x35] ∧ padSpec 5 2 = [0x30, 0x35] := by decide

example : uint64ToStr 1234 (List.replicate 4 0) = .ok (4, [0x31, 0x32, 0x33, 0x34]) := rfl
example : uint64ToStr 1234 (List.replicate 3 0) = .ok (0, [0x31, 0x32, 0x33]) := rfl

/-! ## Hexadecimal ↔ binary -/

theorem binToHex_exact (bin out : Bytes) (hsz : 2 * bin.length ≤ out.length) :
    Wrote (binToHex bin out) out (some (hexSpec bin)) := binToHex_spec bin out hsz

theorem hexToBin_exact (hex out : Bytes) (hsz : (hex.length + 1) / 2 ≤ out.length) :
    Wrote (hexToBin hex out) out (hexToBinSpec hex) := hexToBin_spec hex out hsz

/-- `MHD_hex_to_bin ∘ MHD_bin_to_hex = id` -/
theorem hexToBin_binToHex (b out1 out2 : Bytes) (h1 : 2 * b.length ≤ out1.length) (h2 : b.length ≤ out2.length) :
    ∃ n o n' o', binToHex b out1 = .ok (n, o) ∧ n = 2 * b.length ∧
      hexToBin (o.take n) out2 = .ok (n', o') ∧ n' = b.length ∧ o'.take n' = b :=
  Mhd.Str.hexToBin_binToHex b out1 out2 h1 h2

example : binToHex [0x00, 0xff, 0x1a] (List.replicate 6 0) = .ok (6, [0x30, 0x30, 0x66, 0x66, 0x31, 0x61]) := rfl

/-! ## Percent-decoding -/

/-- `MHD_str_pct_decode_strict_n_` = the strict reference decoder; 0 iff the input is
    broken or empty or the result does not fit into `buf_size` -/
theorem pctDecodeStrictN_exact (s out : Bytes) :
    Wrote (pctDecodeStrictN s out) out ((pctStrict s).filter (fitsIn out.length)) :=
  pctDecodeStrictN_spec s out

/-- `MHD_str_pct_decode_lenient_n_` = the lenient reference decoder with its flag -/
theorem pctDecodeLenientN_exact (s out : Bytes) :
    ∃ r, pctDecodeLenientN s out = .ok r ∧ r.2.1.length = out.length ∧
      if (pctLenient s).1.length ≤ out.length then
        r.1 = (pctLenient s).1.length ∧ r.2.1.take r.1 = (pctLenient s).1 ∧ r.2.2 = (pctLenient s).2
      else r.1 = 0 := by
  obtain ⟨r, h1, h2, h3⟩ := pctDecodeLenientN_spec s out
  exact ⟨r, h1, h2, h3⟩

/-- in place, on any buffer `c ++ NUL :: tail` with `c` free of NUL -/
theorem pctDecodeInPlaceStrict_exact (c tail : Bytes) (hz : ∀ x ∈ c, x ≠ 0) :
    ∃ r, pctDecodeInPlaceStrict (c ++ 0 :: tail) = .ok r ∧ r.2.length = c.length + 1 + tail.length ∧
      match pctStrict c with
      | some d => r.1 = d.length ∧ r.2.take r.1 = d ∧ r.2[r.1]? = some 0
      | none => r.1 = 0 ∧ r.2[0]? = some 0 := by
  obtain ⟨r, h1, h2, h3⟩ := pctDecodeInPlaceStrict_spec c tail hz
  exact ⟨r, h1, h2, h3⟩

theorem pctDecodeInPlaceLenient_exact (c tail : Bytes) (hz : ∀ x ∈ c, x ≠ 0) :
    ∃ r, pctDecodeInPlaceLenient (c ++ 0 :: tail) = .ok r ∧ r.2.1.length = c.length + 1 + tail.length ∧
      r.1 = (pctLenient c).1.length ∧ r.2.1.take r.1 = (pctLenient c).1 ∧ r.2.1[r.1]? = some 0 ∧
      r.2.2 = (pctLenient c).2 := by
  obtain ⟨r, h1, h2, h3, h4, h5, h6⟩ := pctDecodeInPlaceLenient_spec c tail hz
  exact ⟨r, h1, h2, h3, h4, h5, h6⟩

/-- in place = copying (strict) -/
theorem inPlaceStrict_eq_copying (c tail out : Bytes) (hz : ∀ x ∈ c, x ≠ 0) (hsz : c.length ≤ out.length) :
    ∃ n b o, pctDecodeInPlaceStrict (c ++ 0 :: tail) = .ok (n, b) ∧ pctDecodeStrictN c out = .ok (n, o) ∧
      b.take n = o.take n := Mhd.Str.inPlaceStrict_eq_copying c tail out hz hsz

/-- in place = copying (lenient, including the flag) -/
theorem inPlaceLenient_eq_copying (c tail out : Bytes) (hz : ∀ x ∈ c, x ≠ 0) (hsz : c.length ≤ out.length) :
    ∃ n b o br, pctDecodeInPlaceLenient (c ++ 0 :: tail) = .ok (n, b, br) ∧
      pctDecodeLenientN c out = .ok (n, o, br) ∧ b.take n = o.take n :=
  Mhd.Str.inPlaceLenient_eq_copying c tail out hz hsz

/-- the lenient decoder extends the strict one -/
theorem lenient_extends_strict (s d : Bytes) (h : pctStrict s = some d) : pctLenient s = (d, false) :=
  pctLenient_of_strict s d h

/-- every buffer with a NUL has the form `c ++ 0 :: tail` used above -/
theorem zstring_decompose (b : Bytes) (h : 0 ∈ b) : ∃ c tail, b = c ++ 0 :: tail ∧ ∀ x ∈ c, x ≠ 0 :=
  exists_cstr b h

/-- "a%41%" : strict fails, lenient gives "aA%" and the flag; trailing "%4" is not over-read (F12) -/
example : pctStrict [0x61, 0x25, 0x34, 0x31] = some [0x61, 0x41] ∧
          pctLenient [0x61, 0x25, 0x34, 0x31, 0x25] = ([0x61, 0x41, 0x25], true) := by decide
example : pctDecodeStrictN [0x25, 0x34] [0, 0] = .ok (0, [0, 0]) := rfl
/-- "%%41" decodes to "%A" both ways (F17a) -/
example : pctDecodeInPlaceLenient [0x25, 0x25, 0x34, 0x31, 0] = .ok (2, [0x25, 0x41, 0, 0x31, 0], true) := rfl
example : pctDecodeLenientN [0x25, 0x25, 0x34, 0x31] [0, 0, 0, 0] = .ok (2, [0x25, 0x41, 0, 0], true) := rfl

/-! ## Quoted strings -/

/-- `MHD_str_unquote` (result buffer of the documented size) -/
theorem unquote_exact (q out : Bytes) (hsz : q.length ≤ out.length) :
    Wrote (unquote q out) out (unquoteSpec q) := unquote_spec q out hsz

/-- `MHD_str_quote`: the quoted form iff it fits, 0 otherwise -/
theorem quote_exact (u out : Bytes) (hu : u.length < 2 ^ 63) :
    Wrote (quote u out) out (if (quoteSpec u).length ≤ out.length then some (quoteSpec u) else none) :=
  quote_spec u out hu

/-- unquote ∘ quote = id (reference level and model level) -/
theorem unquoteSpec_quoteSpec (s : Bytes) : unquoteSpec (quoteSpec s) = some s := unquote_quote s

theorem unquote_quote_model (u out1 out2 : Bytes) (hu : u.length < 2 ^ 63)
    (h1 : (quoteSpec u).length ≤ out1.length) (h2 : (quoteSpec u).length ≤ out2.length) :
    ∃ n o n' o', quote u out1 = .ok (n, o) ∧ n = (quoteSpec u).length ∧
      unquote (o.take n) out2 = .ok (n', o') ∧ n' = u.length ∧ o'.take n' = u :=
  Mhd.Str.unquote_quote_model u out1 out2 hu h1 h2

/-- `MHD_str_equal_quoted_bin_n (q, u)` ⇔ `unquote q = u` -/
theorem equalQuoted_iff (q u : Bytes) : equalQuotedBinN q u = .ok (decide (unquoteSpec q = some u)) :=
  equalQuotedBinN_spec q u

/-- `MHD_str_equal_caseless_quoted_bin_n (q, u)` ⇔ `unquote q` exists and equals `u` caselessly -/
theorem equalCaselessQuoted_exact (q u : Bytes) :
    equalCaselessQuotedBinN q u = .ok (match unquoteSpec q with
                                       | some u' => listEq charsEqualCaseless u' u
                                       | none => false) :=
  equalQuotedGen_spec charsEqualCaseless q u

example : quoteSpec [0x61, 0x22, 0x5c] = [0x61, 0x5c, 0x22, 0x5c, 0x5c] ∧
          unquoteSpec [0x61, 0x5c] = none := by decide
example : equalCaselessQuotedBinN [0x5c, 0x41, 0x62] [0x61, 0x42] = .ok true := rfl

/-! ## Base64 -/

/-- `MHD_base64_to_bin_n` = RFC 4648 decoder (mandatory canonical padding) iff the data
    fits; 0 for invalid/empty input or a too small buffer -/
theorem base64ToBinN_exact (s out : Bytes) :
    Wrote (base64ToBinN s out) out ((b64Spec s).filter (fitsIn out.length)) :=
  base64ToBinN_spec s out

/-- "QUI=" is "AB"; "QUJ=" (non-zero trailing bits) and "QU==" … are rejected/accepted canonically -/
example : b64Spec [0x51, 0x55, 0x49, 0x3d] = some [0x41, 0x42] ∧ b64Spec [0x51, 0x55, 0x4a, 0x3d] = none ∧
          b64Spec [0x51, 0x51, 0x3d, 0x3d] = some [0x41] ∧ b64Spec [0x51, 0x52, 0x3d, 0x3d] = none := by decide
example : base64ToBinN [0x51, 0x55, 0x4a, 0x44] [0, 0, 0] = .ok (3, [0x41, 0x42, 0x43]) := rfl

/-! ## Caseless comparison -/

/-- `charsequalcaseless` ⇔ equal after US-ASCII lower-casing (all 65 536 pairs) -/
theorem charsEqualCaseless_lower (a b : UInt8) : charsEqualCaseless a b = (toLower a == toLower b) :=
  charsEqualCaseless_iff a b

theorem equalCaselessBinN_exact (a b : Bytes) (h : a.length = b.length) :
    equalCaselessBinN a b a.length = .ok (listEq charsEqualCaseless a b) :=
  equalCaselessBinN_spec a b h

/-- `MHD_str_equal_caseless_` on two z-terminated buffers -/
theorem equalCaseless_exact (ca ta cb tb : Bytes) (hza : ∀ x ∈ ca, x ≠ 0) (hzb : ∀ x ∈ cb, x ≠ 0) :
    equalCaseless (ca ++ 0 :: ta) (cb ++ 0 :: tb) = .ok (listEq charsEqualCaseless ca cb) :=
  equalCaseless_spec ca ta cb tb hza hzb

/-- `MHD_str_equal_caseless_n_` on two z-terminated buffers: caseless equality of the first
    `maxlen` characters of the two strings (`strncasecmp (…) == 0`) -/
theorem equalCaselessN_exact (ca ta cb tb : Bytes) (maxlen : Nat) (hza : ∀ x ∈ ca, x ≠ 0) (hzb : ∀ x ∈ cb, x ≠ 0) :
    equalCaselessN (ca ++ 0 :: ta) (cb ++ 0 :: tb) maxlen =
      .ok (listEq charsEqualCaseless (ca.take maxlen) (cb.take maxlen)) := by
  rw [equalCaselessN_spec ca ta cb tb maxlen hza hzb, ceqN_eq]

example : equalCaseless [0x41, 0x62, 0] [0x61, 0x42, 0, 0x7a] = .ok true := rfl
example : equalCaselessN [0x41, 0x62, 0x63, 0] [0x61, 0x42, 0x7a, 0] 2 = .ok true := rfl

/-! ## Comma-list token search -/

/-- `MHD_str_has_token_caseless_ (str, token, token_len)` on any z-terminated string and
    any permitted token (non-empty; no NUL, space, tab, comma): true exactly when the
    token is a member of the reference token list — split on ',', trim spaces and tabs,
    compare caselessly.  (Needs the repair F17b.) -/
theorem hasToken_iff_member (c tail tok : Bytes) (hz : ∀ x ∈ c, x ≠ 0) (htok : TokenOk tok) :
    hasTokenCaseless (c ++ 0 :: tail) tok =
      .ok ((tokensOf c).any (fun e => listEq charsEqualCaseless e tok)) :=
  hasTokenCaseless_spec c tail tok hz htok

theorem hasToken_empty_token (s : Bytes) : hasTokenCaseless s [] = .ok false :=
  hasTokenCaseless_empty s

/-- " a ,, B" has the elements "a", "", "B" -/
example : tokensOf [0x20, 0x61, 0x20, 0x2c, 0x2c, 0x20, 0x42] = [[0x61], [], [0x42]] := by decide
/-- "c,close" contains the token "CLOSE" (F17b: the unrepaired code says no) -/
example : hasTokenCaseless [0x63, 0x2c, 0x63, 0x6c, 0x6f, 0x73, 0x65, 0] [0x43, 0x4c, 0x4f, 0x53, 0x45] = .ok true := rfl
example : TokenOk [0x63, 0x6c, 0x6f, 0x73, 0x65] := by
  refine ⟨by simp, ?_⟩
  intro x hx
  simp only [List.mem_cons, List.not_mem_nil, or_false] at hx
  rcases hx with h | h | h | h | h <;> subst h <;> decide

/-! ## Comma-list token removal -/

/-- The reference editor, spelled out: `removeTokenOut str tok` is the ", "-joined list of the
    elements of `str` (split on ',', spaces/tabs trimmed) that are non-empty and not caselessly
    equal to `tok`, each normalised by `normElem` (every inner run of spaces/tabs becomes one
    space); `hasTokenSpec str tok` says that some element equals `tok` caselessly. -/
theorem removeTokenOut_def (str tok : Bytes) :
    removeTokenOut str tok = ([0x2c, 0x20] : Bytes).intercalate
      (((tokensOf str).filter (fun e => !e.isEmpty && !listEq charsEqualCaseless e tok)).map normElem) ∧
    hasTokenSpec str tok = (tokensOf str).any (fun e => listEq charsEqualCaseless e tok) :=
  ⟨by unfold removeTokenOut; rw [joinWith_eq_intercalate]; rfl, rfl⟩

/-- `MHD_str_remove_token_caseless_ (str, str_len, token, token_len, buf, &buf_size)`, for **every**
    input string, **every** token the function permits (`tokenLegal`: non-empty, no space, tab,
    comma — decidable) and **every** output buffer size:
    * the call returns normally (no read beyond `str_len`/`token_len`, no write beyond `*buf_size`,
      all loops terminate) and the buffer keeps its size;
    * the overflow guard `SSIZE_MAX <= str_len / 2 * 3 + 3` refuses (false, -1);
    * otherwise "buffer too small" (false, -1) is reported **exactly when** the reference output does
      not fit, and when it fits the return value is the reference flag (token ∈ elements),
      `*buf_size` is the exact output length and the buffer starts with the reference output.
    The hypothesis `str.length ≤ SSIZE_MAX` is the C object-size limit: it is what keeps the
    `size_t` expression of the guard from wrapping (the model computes it modulo 2^64). -/
theorem removeToken_exact (str tok out : Bytes) (htok : tokenLegal tok = true)
    (hlen : str.length ≤ Mhd.Gen.Str.ssizeMax) :
    ∃ o, o.length = out.length ∧
      if Mhd.Gen.Str.ssizeMax ≤ str.length / 2 * 3 + 3 then removeTokenCaseless str tok out = .ok (false, -1, o)
      else if (removeTokenOut str tok).length ≤ out.length then
        removeTokenCaseless str tok out = .ok (hasTokenSpec str tok, ((removeTokenOut str tok).length : Int), o) ∧
        o.take (removeTokenOut str tok).length = removeTokenOut str tok
      else removeTokenCaseless str tok out = .ok (false, -1, o) :=
  removeTokenCaseless_spec str tok out htok hlen

/-- "close" is a legal token; ",a" and "" are not -/
example : tokenLegal [0x63, 0x6c, 0x6f, 0x73, 0x65] = true ∧ tokenLegal [0x2c, 0x61] = false ∧ tokenLegal [] = false := by decide
/-- " a \\t b ,, CLOSE ,clo" minus "close": elements "a \\t b", "", "CLOSE", "clo" → "a b, clo", flag true -/
example : removeTokenOut [0x20, 0x61, 0x20, 0x09, 0x20, 0x62, 0x20, 0x2c, 0x2c, 0x20, 0x43, 0x4c, 0x4f, 0x53, 0x45, 0x20, 0x2c, 0x63, 0x6c, 0x6f]
            [0x63, 0x6c, 0x6f, 0x73, 0x65] = [0x61, 0x20, 0x62, 0x2c, 0x20, 0x63, 0x6c, 0x6f] ∧
          hasTokenSpec [0x20, 0x61, 0x20, 0x09, 0x20, 0x62, 0x20, 0x2c, 0x2c, 0x20, 0x43, 0x4c, 0x4f, 0x53, 0x45, 0x20, 0x2c, 0x63, 0x6c, 0x6f]
            [0x63, 0x6c, 0x6f, 0x73, 0x65] = true := by decide

/-! ### `MHD_str_remove_tokens_caseless_` (in place, several tokens) -/

/-- The reference, spelled out.  `csElems s` are the elements of a ", "-separated string,
    `tokListOf tokens` the trimmed non-empty elements of the token list (split on ',', trim
    spaces/tabs); the result keeps, in order, the elements that equal none of the tokens
    caselessly; the flag says whether some element equals a token. -/
theorem removeTokensOut_def (s tokens : Bytes) :
    removeTokensOut s tokens = ([0x2c, 0x20] : Bytes).intercalate
      ((csElems s).filter (fun e => !((tokensOf tokens).filter (fun t => !t.isEmpty)).any (fun t => listEq charsEqualCaseless e t))) ∧
    removeTokensFlag s tokens =
      (csElems s).any (fun e => ((tokensOf tokens).filter (fun t => !t.isEmpty)).any (fun t => listEq charsEqualCaseless e t)) := by
  constructor
  · unfold removeTokensOut; rw [joinWith_eq_intercalate]; rfl
  · unfold removeTokensFlag keepAll tokListOf; simp

/-- `MHD_str_remove_tokens_caseless_ (str, &str_len, tokens, tokens_len)`, for **every** string that
    satisfies the documented precondition and **every** token list (any bytes, any length).
    The precondition "the input string must be normalised" is used by the function only as
    `isCsList str` (decidable): `str` is the ", "-join of non-empty, comma-free elements — weaker
    than the documented normal form (which also forbids leading/trailing/repeated blanks inside
    elements), and satisfied by every output of `MHD_str_remove_token_caseless_`
    (`removeToken_output_normalised`).  Then
    * the call returns normally (no read/write outside `[0, *str_len)` of the buffer and
      `[0, tokens_len)` of the token list, all five nested loops terminate);
    * `*str_len` on return is the length of the reference result and the buffer starts with it;
    * the return value is true exactly when some element was removed;
    * the string never grows, the allocated buffer keeps its size. -/
theorem removeTokens_exact (str tokens : Bytes) (hn : isCsList str = true) :
    ∃ buf, removeTokensCaseless str tokens =
        .ok (removeTokensFlag str tokens, (removeTokensOut str tokens).length, buf) ∧
      buf.length = str.length ∧ (removeTokensOut str tokens).length ≤ str.length ∧
      buf.take (removeTokensOut str tokens).length = removeTokensOut str tokens :=
  removeTokensCaseless_spec str tokens hn

/-- every output of `MHD_str_remove_token_caseless_` (for any string and token) satisfies the
    precondition of `MHD_str_remove_tokens_caseless_`, and its elements are the kept elements -/
theorem removeToken_output_normalised (s tok : Bytes) :
    isCsList (removeTokenOut s tok) = true ∧
    csElems (removeTokenOut s tok) =
      ((tokensOf s).filter (fun e => !e.isEmpty && !listEq charsEqualCaseless e tok)).map normElem :=
  removeTokenOut_isCsList s tok

/-- the two editors composed, as `connection.c` uses them: normalise with the first (any string
    `s`), then remove a token list in place — no fault, and the result is the filtered list -/
theorem removeTokens_after_removeToken (s tok tokens : Bytes) :
    ∃ buf, removeTokensCaseless (removeTokenOut s tok) tokens =
        .ok (removeTokensFlag (removeTokenOut s tok) tokens, (removeTokensOut (removeTokenOut s tok) tokens).length, buf) ∧
      buf.take (removeTokensOut (removeTokenOut s tok) tokens).length = removeTokensOut (removeTokenOut s tok) tokens := by
  obtain ⟨buf, h1, _, _, h4⟩ := removeTokens_exact (removeTokenOut s tok) tokens (removeToken_output_normalised s tok).1
  exact ⟨buf, h1, h4⟩

/-- "a b, close, c" is a normalised list with elements "a b", "close", "c"; ",x" and "a,b" are not -/
example : isCsList [0x61, 0x20, 0x62, 0x2c, 0x20, 0x63, 0x6c, 0x6f, 0x73, 0x65, 0x2c, 0x20, 0x63] = true ∧
          csElems [0x61, 0x20, 0x62, 0x2c, 0x20, 0x63, 0x6c, 0x6f, 0x73, 0x65, 0x2c, 0x20, 0x63] =
            [[0x61, 0x20, 0x62], [0x63, 0x6c, 0x6f, 0x73, 0x65], [0x63]] ∧
          isCsList [0x2c, 0x78] = false ∧ isCsList [0x61, 0x2c, 0x62] = false ∧ isCsList [] = true := by decide
/-- "a b, close, c" minus the tokens of " C ,,\tCLOSE , a" ("C", "CLOSE", "a") is "a b"; the flag is set -/
example : removeTokensOut [0x61, 0x20, 0x62, 0x2c, 0x20, 0x63, 0x6c, 0x6f, 0x73, 0x65, 0x2c, 0x20, 0x63]
            [0x20, 0x43, 0x20, 0x2c, 0x2c, 0x09, 0x43, 0x4c, 0x4f, 0x53, 0x45, 0x20, 0x2c, 0x20, 0x61] = [0x61, 0x20, 0x62] ∧
          removeTokensFlag [0x61, 0x20, 0x62, 0x2c, 0x20, 0x63, 0x6c, 0x6f, 0x73, 0x65, 0x2c, 0x20, 0x63]
            [0x20, 0x43, 0x20, 0x2c, 0x2c, 0x09, 0x43, 0x4c, 0x4f, 0x53, 0x45, 0x20, 0x2c, 0x20, 0x61] = true := by decide

/-- `MHD_str_remove_token_caseless_` with **any** token (also one outside the documented
    domain, e.g. empty or containing a comma): for every string, token and output buffer the call
    returns normally — no read beyond `str_len` / `token_len`, no write beyond
    `*buf_size`, all loops terminate —, the buffer keeps its size, and the reported
    `*buf_size` is -1 or lies within the buffer. -/
theorem removeToken_safe_any_token (str token out : Bytes) :
    ∃ r n o, removeTokenCaseless str token out = .ok (r, n, o) ∧ o.length = out.length ∧
      (n = -1 ∨ (0 ≤ n ∧ n ≤ (out.length : Int))) :=
  removeTokenCaseless_safe str token out

/-- " a ,close , b" minus "CLOSE" is "a, b" -/
example : removeTokenCaseless [0x20, 0x61, 0x20, 0x2c, 0x63, 0x6c, 0x6f, 0x73, 0x65, 0x20, 0x2c, 0x20, 0x62] [0x43, 0x4c, 0x4f, 0x53, 0x45] (List.replicate 4 0) = .ok (true, 4, [0x61, 0x2c, 0x20, 0x62]) := rfl
/-- F17c: "close \t x" is kept, and normalised to "close x" (the unrepaired code copies " \t " verbatim) -/
example : removeTokenCaseless [0x63, 0x6c, 0x6f, 0x73, 0x65, 0x20, 0x09, 0x20, 0x78] [0x63, 0x6c, 0x6f, 0x73, 0x65] (List.replicate 8 0) = .ok (false, 7, [0x63, 0x6c, 0x6f, 0x73, 0x65, 0x20, 0x78, 0x00]) := rfl
/-- one byte too few: refused with -1 -/
example : (removeTokenCaseless [0x20, 0x61, 0x20, 0x2c, 0x63, 0x6c, 0x6f, 0x73, 0x65, 0x20, 0x2c, 0x20, 0x62] [0x43, 0x4c, 0x4f, 0x53, 0x45] (List.replicate 3 0)).map (fun r => (r.1, r.2.1)) = .ok (false, -1) := rfl
/-- the in-place multi-token removal on a normalised list: "a, close, b" minus "b ,CLOSE" is "a" -/
example : removeTokensCaseless [0x61, 0x2c, 0x20, 0x63, 0x6c, 0x6f, 0x73, 0x65, 0x2c, 0x20, 0x62] [0x62, 0x20, 0x2c, 0x43, 0x4c, 0x4f, 0x53, 0x45] = .ok (true, 1, [0x61, 0x2c, 0x20, 0x63, 0x6c, 0x6f, 0x73, 0x65, 0x2c, 0x20, 0x62]) := rfl

/-! ## No fault, for all inputs (corollaries, stated per function) -/

theorem nofault_parse (s : Bytes) :
    NoFault (strToUint64N s) ∧ NoFault (strxToUint32N s) ∧ NoFault (strxToUint64N s) ∧
    (0 ∈ s → NoFault (strToUint64 s) ∧ NoFault (strxToUint32 s) ∧ NoFault (strxToUint64 s)) :=
  ⟨⟨_, strToUint64N_spec s⟩, ⟨_, strxToUintN_spec _ s⟩, ⟨_, strxToUintN_spec _ s⟩,
   fun hz => ⟨⟨_, strToUint64_spec s hz⟩, ⟨_, strxToUint_spec _ s hz⟩, ⟨_, strxToUint_spec _ s hz⟩⟩⟩

theorem nofault_print (val : Nat) (out : Bytes) :
    (val ≤ 2 ^ 64 - 1 → NoFault (uint64ToStr val out)) ∧ (val < 65536 → NoFault (uint16ToStr val out)) ∧
    (val < 2 ^ 32 → NoFault (uint32ToStrx val out)) := by
  refine ⟨?_, ?_, ?_⟩
  · intro hv; obtain ⟨_, _, _, h⟩ := uint64ToStr_exact val out hv; exact h.noFault
  · intro hv; obtain ⟨_, _, _, h⟩ := uint16ToStr_exact val out hv; exact h.noFault
  · intro hv; obtain ⟨_, _, _, h⟩ := uint32ToStrx_exact val out hv; exact h.noFault

theorem nofault_codecs (s out : Bytes) :
    NoFault (pctDecodeStrictN s out) ∧ NoFault (pctDecodeLenientN s out) ∧ NoFault (base64ToBinN s out) ∧
    (s.length < 2 ^ 63 → NoFault (quote s out)) ∧
    (s.length ≤ out.length → NoFault (unquote s out)) ∧
    (2 * s.length ≤ out.length → NoFault (binToHex s out)) ∧
    ((s.length + 1) / 2 ≤ out.length → NoFault (hexToBin s out)) := by
  refine ⟨(pctDecodeStrictN_spec s out).noFault, ?_, (base64ToBinN_spec s out).noFault,
    fun h => (quote_spec s out h).noFault, fun h => (unquote_spec s out h).noFault,
    fun h => (binToHex_spec s out h).noFault, fun h => (hexToBin_spec s out h).noFault⟩
  obtain ⟨r, h, _⟩ := pctDecodeLenientN_spec s out; exact ⟨r, h⟩

theorem nofault_inplace (b : Bytes) (hz : 0 ∈ b) :
    NoFault (pctDecodeInPlaceStrict b) ∧ NoFault (pctDecodeInPlaceLenient b) := by
  obtain ⟨c, tail, rfl, hc⟩ := exists_cstr b hz
  obtain ⟨r1, h1, _⟩ := pctDecodeInPlaceStrict_spec c tail hc
  obtain ⟨r2, h2, _⟩ := pctDecodeInPlaceLenient_spec c tail hc
  exact ⟨⟨r1, h1⟩, ⟨r2, h2⟩⟩

theorem nofault_hasToken (s tok : Bytes) (hz : 0 ∈ s) (htok : TokenOk tok ∨ tok = []) :
    NoFault (hasTokenCaseless s tok) := by
  rcases htok with h | h
  · obtain ⟨c, tail, rfl, hc⟩ := exists_cstr s hz
    exact ⟨_, hasTokenCaseless_spec c tail tok hc h⟩
  · subst h; exact ⟨_, hasTokenCaseless_empty s⟩

theorem nofault_compare (q u : Bytes) :
    NoFault (equalQuotedBinN q u) ∧ NoFault (equalCaselessQuotedBinN q u) ∧
    (q.length = u.length → NoFault (equalCaselessBinN q u q.length)) ∧
    (0 ∈ q → 0 ∈ u → NoFault (equalCaseless q u)) := by
  refine ⟨⟨_, equalQuotedBinN_spec q u⟩, ⟨_, equalQuotedGen_spec _ q u⟩,
    fun h => ⟨_, equalCaselessBinN_spec q u h⟩, ?_⟩
  intro hq hu
  obtain ⟨ca, ta, rfl, hca⟩ := exists_cstr q hq
  obtain ⟨cb, tb, rfl, hcb⟩ := exists_cstr u hu
  exact ⟨_, equalCaseless_spec ca ta cb tb hca hcb⟩

end Mhd.C17
