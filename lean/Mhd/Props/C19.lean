import Mhd.Model.WSDecode
namespace Mhd.C19
end Mhd.C19
