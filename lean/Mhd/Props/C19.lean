/-
  C19 — WebSocket codec (src/microhttpd_ws/mhd_websocket.c): split-independent decoding,
  lossless round trip, RFC 6455 violations, no access outside the buffers.

  Statements only; the proofs are in `Mhd.Proofs.WS*`.  Everything is about the model of
  the code *after* build/fixes/F7.diff + F7c.diff (`lg = false`); the behaviour of the code
  before the fixes is kept in the model (`lg = true`) for the witness theorems at the end.

  Quantification: every decoder state satisfying the representation invariant `Inv`
  (it holds after `MHD_websocket_stream_init` and is preserved by every call, so this is a
  superset of the reachable states), every input buffer / chunk list, every payload size,
  mask key, flag combination and size limit.  No bound on lengths or on the number of calls.
  Environment assumption carried by `Inv`: the allocation callbacks never hand out
  2^63 bytes or more (`allocLimit < 2^63`, true of every malloc: PTRDIFF_MAX).
-/
import Mhd.Proofs.WSFragSend
import Mhd.Proofs.WSFragOut
import Mhd.Proofs.WSEncDec

namespace Mhd.C19
open Mhd.WS

/-- a server-side stream as `MHD_websocket_stream_init (&ws, 0, 0)` leaves it (allocation limit 1000) -/
def ws0 : WS := { flags := 0, maxPayload := 0, allocLimit := 1000, rng := [] }

/-! ## (i) split independence -/

/-- `session ws chunks` is what an application sees (status ≠ 0, returned allocation, length —
    in order) when it receives `chunks` one after the other and runs the documented loop
    `while (off < n) { st = MHD_websocket_decode (rest…); if (st < 0) break; off += read_len; }`
    on each, stopping for good at the first negative status.

    For every stream state between two calls that is still valid (any role, flags, size limit,
    allocation limit, any point inside a frame, a fragmented message, after a close frame …)
    and every list of chunks — any number, any sizes, empty ones included — the application
    sees exactly what it sees when it is handed the concatenation in one piece. -/
theorem split_independent (ws : WS) (hi : Inv ws) (hq : sil ws = 0) (hv : ws.validity ≠ 0)
    (chunks : List (List UInt8)) : session ws chunks = session ws [chunks.flatten] :=
  session_split_independent hi hq hv chunks

/-- … in particular from a freshly initialised stream. -/
theorem split_independent_init (flags maxPayload allocLimit : Nat) (ws : WS) (ha : allocLimit < 2 ^ 63)
    (h : WS.init flags maxPayload allocLimit = some ws) (chunks : List (List UInt8)) :
    session ws chunks = session ws [chunks.flatten] :=
  let ⟨hi, hq, hv⟩ := init_inv flags maxPayload allocLimit ws ha h
  session_split_independent hi hq (by rw [hv]; decide) chunks

/-- non-vacuity, and the input of F7: a masked close frame, code 1000, reason "bye!!", fed byte
    by byte, is the close frame it is in one piece -/
example : session ws0 ([0x88, 0x87, 1, 2, 3, 4, 0x02, 0xea, 0x61, 0x7d, 0x64, 0x23, 0x22].map fun b => [b]) =
    [(8, some [0x03, 0xe8, 0x62, 0x79, 0x65, 0x21, 0x21, 0], 7)] := by decide

/-! ## (ii) round trip

  `roundtrip_data` (one text / binary frame), `roundtrip_pingpong`, `roundtrip_close`,
  `roundtrip_close_noreason`, and for messages sent as FIRST / FOLLOWING… / LAST fragments with
  ping / pong frames in between `roundtrip_fragmented_assembled` and
  `roundtrip_fragmented_fragments` (+ `fragments_binary`, `fragments_lossless`).  The sending
  side is in every theorem the model of the real encoder (`encodeData` behind
  `MHD_websocket_encode_text/_binary`, `encodePingPong`, `encodeClose` of `Mhd.Model.WS`), not a
  separate renderer; that the frames are RFC 6455 framing (`frameBytes`) is a lemma
  (`encodeFrame_ok`, `encodeFrame_full`).  Until the fragmented case was proved these theorems
  carried the suffix `_partial`. -/

/-- **decode (encode m) = m**, text and binary messages sent as one frame
    (`MHD_websocket_encode_text/binary` with `MHD_WEBSOCKET_FRAGMENTATION_NONE`).
    `wsS` is the sender's stream, `wsR` the receiver's, in the opposite role, between two
    frames of a live session with no message under assembly.  For every payload (any length
    ≥ 0 in any of the three length encodings, valid UTF-8 if text), every mask key the
    sender's rng hands out, every way of cutting the produced frame into chunks: the receiving
    application gets exactly one frame — status = opcode, the payload NUL-terminated
    (`NULL` for an empty one), its length.  Size hypotheses: the payload fits the receiver's
    configured maximum and both allocations succeed. -/
theorem roundtrip_data (wsR wsS : WS) (h : Inv wsR) (hs : wsR.step = 0) (hv : wsR.validity = 1)
    (hdt : wsR.dataType = 0) (hrole : wsS.isClient = !wsR.isClient) (op : Nat) (hop : op = 1 ∨ op = 2)
    (payload : List UInt8) (hn : payload.length < 2 ^ 63)
    (hmax : wsR.maxPayload = 0 ∨ payload.length ≤ wsR.maxPayload) (halR : payload.length + 1 ≤ wsR.allocLimit)
    (halS : overheadSize wsS payload.length + payload.length + 1 ≤ wsS.allocLimit)
    (hutf : op = 1 → checkUtf8 payload 0 0 = .ok 0) :
    ∃ wire, (encodeData wsS payload 0 op).st = 0 ∧ (encodeData wsS payload 0 op).frame = some (wire ++ [0]) ∧
      ∀ chunks : List (List UInt8), chunks.flatten = wire →
        session wsR chunks = [(Int.ofNat op, plOf payload, payload.length)] := by
  obtain ⟨m1, m2, m3, m4, hst, _, hfr⟩ := encodeData_frame wsS payload op halS
  refine ⟨_, hst, hfr, ?_⟩
  intro chunks hc
  have hq : sil wsR = 0 := by unfold sil; rw [hs]; simp
  have hvv : wsR.validity ≠ 0 := by omega
  obtain ⟨ws', hrun⟩ := roundtrip_data_run' wsR h hs hv hdt op hop payload hn hmax halR hutf m1 m2 m3 m4
    wsS.isClient hrole _ rfl
  rw [split_independent wsR h hq hvv chunks, hc]
  exact session_of_run h hq hvv _ hrun
/-- **decode (encode m) = m**, ping and pong frames: any payload of ≤ 125 bytes, any key, any
    chunking, any live receiver state between two frames (also inside a fragmented message or
    after a close frame). -/
theorem roundtrip_pingpong (wsR wsS : WS) (h : Inv wsR) (hs : wsR.step = 0) (hv : wsR.validity ≠ 0)
    (hrole : wsS.isClient = !wsR.isClient) (op : Nat) (hop : op = 9 ∨ op = 10)
    (payload : List UInt8) (hn : payload.length ≤ 125)
    (hmax : wsR.maxPayload = 0 ∨ payload.length ≤ wsR.maxPayload) (halR : payload.length + 1 ≤ wsR.allocLimit)
    (halS : overheadSize wsS payload.length + payload.length + 1 ≤ wsS.allocLimit) :
    ∃ wire, (encodePingPong wsS payload op).st = 0 ∧ (encodePingPong wsS payload op).frame = some (wire ++ [0]) ∧
      ∀ chunks : List (List UInt8), chunks.flatten = wire →
        session wsR chunks = [(Int.ofNat op, plOf payload, payload.length)] := by
  have henc : encodePingPong wsS payload op =
      encodeFrame wsS (UInt8.ofNat (0x80 + op)) payload.length (fun mask => copyPayload payload mask 0) := by
    unfold encodePingPong; rw [if_neg (by omega)]
  obtain ⟨m1, m2, m3, m4, hst, _, hfr⟩ := encodeFrame_ok wsS (UInt8.ofNat (0x80 + op)) payload.length
    (fun mask => copyPayload payload mask 0) (fun m => copyPayload_length _ _ _) halS
  rw [henc]
  refine ⟨_, hst, hfr, ?_⟩
  intro chunks hc
  have hq : sil wsR = 0 := by unfold sil; rw [hs]; simp
  obtain ⟨ws', hrun, _⟩ := roundtrip_ctrl_run wsR h hs hv op (by omega) payload hn (by omega) hmax halR
    (by omega) m1 m2 m3 m4 wsS.isClient hrole _ rfl
  rw [split_independent wsR h hq hv chunks, hc]
  exact session_of_run h hq hv _ hrun

/-- **decode (encode m) = m**, close frames (`MHD_websocket_encode_close` with a status code
    ≥ 1000 and a reason of ≤ 123 bytes of valid UTF-8): the receiver gets a CLOSE_FRAME whose
    payload is the two code bytes (network order) followed by the reason. -/
theorem roundtrip_close (wsR wsS : WS) (h : Inv wsR) (hs : wsR.step = 0) (hv : wsR.validity ≠ 0)
    (hrole : wsS.isClient = !wsR.isClient) (code : Nat) (hcode : 1000 ≤ code) (reason : List UInt8)
    (hn : reason.length ≤ 123) (hutf : checkUtf8 reason 0 0 = .ok 0)
    (hmax : wsR.maxPayload = 0 ∨ 2 + reason.length ≤ wsR.maxPayload) (halR : 2 + reason.length + 1 ≤ wsR.allocLimit)
    (halS : overheadSize wsS (2 + reason.length) + (2 + reason.length) + 1 ≤ wsS.allocLimit) :
    ∃ wire, (encodeClose wsS code reason).st = 0 ∧ (encodeClose wsS code reason).frame = some (wire ++ [0]) ∧
      ∀ chunks : List (List UInt8), chunks.flatten = wire →
        session wsR chunks = [(8, some (beBytes 2 code ++ reason ++ [0]), 2 + reason.length)] := by
  have hpl : (beBytes 2 code ++ reason).length = 2 + reason.length := by simp [beBytes_length]
  have henc : encodeClose wsS code reason =
      encodeFrame wsS 0x88 (2 + reason.length) (fun mask => copyPayload (beBytes 2 code ++ reason) mask 0) := by
    unfold encodeClose
    rw [if_neg (by omega), if_neg (by omega), if_neg (by rw [hutf]; simp)]
    simp only [show code ≠ 0 by omega, ne_eq, not_false_eq_true, if_true]
    congr 1
    funext mask
    exact copyPayload_code_reason code reason mask
  obtain ⟨m1, m2, m3, m4, hst, _, hfr⟩ := encodeFrame_ok wsS 0x88 (2 + reason.length)
    (fun mask => copyPayload (beBytes 2 code ++ reason) mask 0) (fun m => by rw [copyPayload_length, hpl]) halS
  rw [henc]
  refine ⟨_, hst, hfr, ?_⟩
  intro chunks hc
  have hq : sil wsR = 0 := by unfold sil; rw [hs]; simp
  obtain ⟨ws', hrun, _⟩ := roundtrip_ctrl_run wsR h hs hv 8 (by omega) (beBytes 2 code ++ reason) (by rw [hpl]; omega)
    (by intro _; rw [hpl]; omega) (by rw [hpl]; exact hmax) (by rw [hpl]; exact halR)
    (by intro _ _; rw [List.drop_append_of_le_length (by simp [beBytes_length])]
        have : (beBytes 2 code).drop 2 = [] := List.drop_of_length_le (by simp [beBytes_length])
        rw [this, List.nil_append]; exact hutf)
    m1 m2 m3 m4 wsS.isClient hrole _ rfl
  rw [split_independent wsR h hq hv chunks, hc]
  rw [hpl] at hrun
  have e136 : UInt8.ofNat (0x80 + 8) = 0x88 := rfl
  rw [e136] at hrun
  rw [session_of_run h hq hv _ hrun]
  simp [plOf, beBytes]

/-- … and `MHD_websocket_encode_close (ws, MHD_WEBSOCKET_CLOSEREASON_NO_REASON, NULL, 0, …)`: a
    close frame without payload arrives as a CLOSE_FRAME with `NULL` / 0.  (`1 ≤ allocLimit` is
    not needed by the decoder, which allocates nothing here; the helper lemma asks for it.) -/
theorem roundtrip_close_noreason (wsR wsS : WS) (h : Inv wsR) (hs : wsR.step = 0) (hv : wsR.validity ≠ 0)
    (hrole : wsS.isClient = !wsR.isClient) (halR : 1 ≤ wsR.allocLimit)
    (halS : overheadSize wsS 0 + 0 + 1 ≤ wsS.allocLimit) :
    ∃ wire, (encodeClose wsS 0 []).st = 0 ∧ (encodeClose wsS 0 []).frame = some (wire ++ [0]) ∧
      ∀ chunks : List (List UInt8), chunks.flatten = wire → session wsR chunks = [(8, none, 0)] := by
  have henc : encodeClose wsS 0 [] = encodeFrame wsS 0x88 0 (fun mask => copyPayload [] mask 0) := by
    unfold encodeClose
    simp only [List.length_nil, ne_eq, not_true_eq_false, false_and, or_self, if_false,
      show ¬ (123 < 0) by omega]
    congr 1
    funext mask
    unfold copyPayload xorMask; simp
  obtain ⟨m1, m2, m3, m4, hst, _, hfr⟩ := encodeFrame_ok wsS 0x88 0
    (fun mask => copyPayload [] mask 0) (fun m => copyPayload_length _ _ _) halS
  rw [henc]
  refine ⟨_, hst, hfr, ?_⟩
  intro chunks hc
  have hq : sil wsR = 0 := by unfold sil; rw [hs]; simp
  obtain ⟨ws', hrun, _⟩ := roundtrip_ctrl_run wsR h hs hv 8 (by omega) [] (by simp) (by simp) (by simp) (by simpa using halR)
    (by simp) m1 m2 m3 m4 wsS.isClient hrole _ rfl
  rw [split_independent wsR h hq hv chunks, hc]
  have e136 : UInt8.ofNat (0x80 + 8) = 0x88 := rfl
  rw [e136, List.length_nil] at hrun
  rw [session_of_run h hq hv _ hrun]
  simp [plOf]

/-- non-vacuity: a client sends "hé" masked with the key 01 02 03 04 to a server -/
example : (encodeData { ws0 with flags := 1, rng := [1, 2, 3, 4] } [0x68, 0xC3, 0xA9] 0 1).frame =
      some ([0x81, 0x83, 1, 2, 3, 4, 0x69, 0xC1, 0xAA] ++ [0]) ∧
    session ws0 [[0x81, 0x83, 1], [2, 3, 4, 0x69, 0xC1], [0xAA]] = [(1, some [0x68, 0xC3, 0xA9, 0], 3)] := by
  constructor <;> decide

/-! ### (ii) round trip, fragmented messages

  The sender is the model of an application that calls `MHD_websocket_encode_text` (with its
  `utf8_step` variable) or `MHD_websocket_encode_binary` with `MHD_WEBSOCKET_FRAGMENTATION_FIRST`
  for `p0`, then for each element of `mids` either the same encoder with `…_FOLLOWING`
  (`Mid.frag p`) or `MHD_websocket_encode_ping` / `_pong` (`Mid.ctrl 9 p` / `Mid.ctrl 10 p`), then
  the data encoder with `…_LAST` for `pn`, and sends the `frame_len` bytes of every frame it
  gets (`sendMessage`, `Mhd.Proofs.WSFragSend`; the encoders are the models of the real ones in
  `Mhd.Model.WS`, the same the single-frame theorems use).  Any number of fragments, any payload
  sizes (0 included), any keys from the sender's rng, both role pairings.

  The receiver is between two frames with no message under assembly (`step = 0`,
  `validity = 1`, `data_type = 0`, `data_payload = NULL`, `data_payload_size = 0`; every state
  reached from `MHD_websocket_stream_init` with `data_type = 0` is like that).

  Not covered, and why: a *close* frame between two fragments — the decoder then accepts only
  control frames (`validity = ONLY_CONTROL_FRAMES`) and answers the next continuation frame with
  PROTOCOL_ERROR (theorem `bad_frame_sequence`), so there is no round trip to state.
-/

/-- **decode (encode m) = m, fragmented message, assembling mode** (no
    `MHD_WEBSOCKET_FLAG_WANT_FRAGMENTS`).  For every way of cutting the bytes sent into chunks
    the receiving application gets the interleaved ping / pong frames, in order, as they arrive,
    and then exactly one message: status = TEXT_FRAME / BINARY_FRAME, payload = the concatenation
    of all fragment payloads, NUL-terminated (`NULL` if empty), its length.
    Text: the hypothesis is that the *concatenation* is valid UTF-8 — a fragment boundary may
    fall anywhere inside a multi-byte character.
    Size conditions, receiver: the *whole message* fits `max_payload_size` (0 = no limit) and the
    allocation limit (the decoder reallocs the message buffer frame by frame); each control
    payload ≤ 125 bytes and within both limits (`CtrlOK`).  Sender: every frame fits its
    allocation limit (`SendFits`, `SendOK`), which is below 2^63. -/
theorem roundtrip_fragmented_assembled (wsR wsS : WS) (h : Inv wsR) (hs : wsR.step = 0) (hv : wsR.validity = 1)
    (hdt : wsR.dataType = 0) (hnb : wsR.dataBuf = none) (hds : wsR.dataSize = 0)
    (hw : wsR.wantFragments = false) (hrole : wsS.isClient = !wsR.isClient) (hAS : wsS.allocLimit < 2 ^ 63)
    (op : Nat) (hop : op = 1 ∨ op = 2) (p0 : List UInt8) (mids : List Mid) (pn : List UInt8)
    (hctl : ∀ x ∈ mids, CtrlOK wsR.maxPayload wsR.allocLimit x)
    (hmax : wsR.maxPayload = 0 ∨ (p0 ++ midData mids ++ pn).length ≤ wsR.maxPayload)
    (halR : (p0 ++ midData mids ++ pn).length + 1 ≤ wsR.allocLimit)
    (hS0 : SendFits wsS p0) (hSm : ∀ x ∈ mids, SendOK wsS x) (hSn : SendFits wsS pn)
    (hutf : op = 1 → checkUtf8 (p0 ++ midData mids ++ pn) 0 0 = .ok 0) :
    ∃ tx, sendMessage wsS op p0 mids pn = some tx ∧
      ∀ chunks : List (List UInt8), chunks.flatten = tx.wire →
        session wsR chunks = midCtrlEvs mids ++
          [(Int.ofNat op, plOf (p0 ++ midData mids ++ pn), (p0 ++ midData mids ++ pn).length)] := by
  obtain ⟨k0, ks, kn, tx, hk, hsend, hwire⟩ := sendMessage_ok wsS hAS op hop p0 mids pn hS0 hSm hSn hutf
  subst hk
  refine ⟨tx, hsend, ?_⟩
  intro chunks hc
  have hq : sil wsR = 0 := by unfold sil; rw [hs]; simp
  have hvv : wsR.validity ≠ 0 := by omega
  have hb : Bnd wsR 0 [] 0 1 := ⟨h, hs, hv, hdt, by rw [hnb]; rfl, hds, h.u8a (by omega)⟩
  obtain ⟨ws', hrun, _, _⟩ := msg_assembled hb hw wsS.isClient hrole op hop p0 k0 ks pn kn
    (fun x hx => hctl x.1 (List.mem_map_of_mem hx)) hmax halR hutf
  rw [split_independent wsR h hq hvv chunks, hc, hwire]
  exact session_of_run h hq hvv _ hrun

/-- **decode (encode m) = m, fragmented message, fragment mode**
    (`MHD_WEBSOCKET_FLAG_WANT_FRAGMENTS`).  For every chunking the application gets, in the order
    of the frames: the first fragment with status TEXT/BINARY_FIRST_FRAGMENT (`op ||| 0x10`),
    each continuation frame with …_NEXT_FRAGMENT (`op ||| 0x20`) and each ping / pong frame in
    its place, the last fragment with …_LAST_FRAGMENT (`op ||| 0x40`) — `msgFragEvs`, defined
    in `Mhd.Proofs.WSFragOut` from `fragEv` / `fragEvs` / `fragCarry` of `Mhd.Proofs.WSFragMsg`.
    Binary: each fragment carries exactly the payload of its frame (`fragments_binary` below).
    Text: a fragment that ends inside a multi-byte character is handed out without the bytes of
    that character (`cutLen`, `cutPl`), which are kept (`fragKeep`, 1–3 bytes) and handed out at
    the head of the next fragment; nothing is lost or reordered (`fragments_lossless` below).
    Size conditions (`FragOK`): each fragment payload — for text plus 3, the bytes possibly kept
    back, which the decoder counts against the limits — fits `max_payload_size` and the
    allocation limit, which is at least 4; control frames as in assembling mode. -/
theorem roundtrip_fragmented_fragments (wsR wsS : WS) (h : Inv wsR) (hs : wsR.step = 0) (hv : wsR.validity = 1)
    (hdt : wsR.dataType = 0) (hnb : wsR.dataBuf = none) (hds : wsR.dataSize = 0)
    (hw : wsR.wantFragments = true) (hrole : wsS.isClient = !wsR.isClient) (hAS : wsS.allocLimit < 2 ^ 63)
    (op : Nat) (hop : op = 1 ∨ op = 2) (p0 : List UInt8) (mids : List Mid) (pn : List UInt8)
    (hal4 : 4 ≤ wsR.allocLimit)
    (hok0 : FragOK op wsR.maxPayload wsR.allocLimit (.frag p0))
    (hok : ∀ x ∈ mids, FragOK op wsR.maxPayload wsR.allocLimit x)
    (hokn : FragOK op wsR.maxPayload wsR.allocLimit (.frag pn))
    (hS0 : SendFits wsS p0) (hSm : ∀ x ∈ mids, SendOK wsS x) (hSn : SendFits wsS pn)
    (hutf : op = 1 → checkUtf8 (p0 ++ midData mids ++ pn) 0 0 = .ok 0) :
    ∃ tx, sendMessage wsS op p0 mids pn = some tx ∧
      ∀ chunks : List (List UInt8), chunks.flatten = tx.wire →
        session wsR chunks = msgFragEvs op p0 mids pn := by
  obtain ⟨k0, ks, kn, tx, hk, hsend, hwire⟩ := sendMessage_ok wsS hAS op hop p0 mids pn hS0 hSm hSn hutf
  subst hk
  refine ⟨tx, hsend, ?_⟩
  intro chunks hc
  have hq : sil wsR = 0 := by unfold sil; rw [hs]; simp
  have hvv : wsR.validity ≠ 0 := by omega
  have hb : Bnd wsR 0 [] 0 1 := ⟨h, hs, hv, hdt, by rw [hnb]; rfl, hds, h.u8a (by omega)⟩
  obtain ⟨ws', hrun, _, _⟩ := msg_fragments hb hw wsS.isClient hrole op hop p0 k0 ks pn kn hal4
    (fun x hx => hok x.1 (List.mem_map_of_mem hx)) hok0 hokn hutf
  rw [split_independent wsR h hq hvv chunks, hc, hwire]
  exact session_of_run h hq hvv _ hrun

/-- … binary: the fragments are exactly the frame payloads (statuses 0x12, 0x22 …, 0x42;
    `plainEvs` lists the frames in the middle: `(0x22, payload, length)` for a continuation
    frame, `(9 or 10, payload, length)` for a ping / pong). -/
theorem fragments_binary (p0 : List UInt8) (mids : List Mid) (pn : List UInt8) :
    msgFragEvs 2 p0 mids pn = (0x12, plOf p0, p0.length) :: plainEvs 2 mids ++ [(0x42, plOf pn, pn.length)] :=
  msgFragEvs_binary p0 mids pn

/-- … text and binary: the payloads of the fragment events (`payload[0 .. payload_len)` of every
    event with a FIRST / NEXT / LAST status), concatenated in order, are the message — nothing
    is lost, duplicated or reordered when bytes of a split character move to the next fragment. -/
theorem fragments_lossless (op : Nat) (hop : op = 1 ∨ op = 2) (p0 : List UInt8) (mids : List Mid) (pn : List UInt8)
    (hl : ∀ x ∈ mids, ∀ c p, x = .ctrl c p → c < 16) :
    dataBytes (msgFragEvs op p0 mids pn) = p0 ++ midData mids ++ pn :=
  msgFragEvs_lossless op hop p0 mids pn hl

/-- the message of the examples: "hé!" as text, cut inside the `é` (C3 | A9), a ping between the
    halves of the character, an empty continuation frame -/
def exMids : List Mid := [.ctrl 9 [0x70], .frag [0xA9], .frag []]
/-- a client whose rng hands out the keys 01 02 03 04, 05 06 07 08, … -/
def exClient : WS := { ws0 with flags := 1, rng := (List.range 20).map fun i => UInt8.ofNat (i + 1) }

theorem ws0_inv : Inv ws0 := (init_inv 0 0 1000 ws0 (by decide) rfl).1

/-- non-vacuity of `roundtrip_fragmented_assembled`: the hypotheses hold for the example … -/
example : ∃ tx, sendMessage exClient 1 [0x68, 0xC3] exMids [0x21] = some tx ∧
    ∀ chunks : List (List UInt8), chunks.flatten = tx.wire →
      session ws0 chunks = [(9, some [0x70, 0], 1), (1, some [0x68, 0xC3, 0xA9, 0x21, 0], 4)] :=
  roundtrip_fragmented_assembled ws0 exClient ws0_inv rfl rfl rfl rfl rfl (by decide) (by decide) (by decide)
    1 (Or.inl rfl) [0x68, 0xC3] exMids [0x21]
    (by intro x hx; simp [exMids] at hx; rcases hx with rfl | rfl | rfl <;> first | trivial | (simp only [CtrlOK]; decide))
    (Or.inl rfl) (by decide) (by unfold SendFits; decide)
    (by intro x hx; simp [exMids] at hx; rcases hx with rfl | rfl | rfl <;> (simp only [SendOK, SendFits]; decide))
    (by unfold SendFits; decide) (by intro _; decide)

/-- … and these are the bytes: five frames with five keys; the same bytes cut at another place -/
example : (sendMessage exClient 1 [0x68, 0xC3] exMids [0x21]).map (·.wire) =
      some [0x01, 0x82, 1, 2, 3, 4, 0x69, 0xC1,   0x89, 0x81, 5, 6, 7, 8, 0x75,   0x00, 0x81, 9, 10, 11, 12, 0xA0,
            0x00, 0x80, 13, 14, 15, 16,   0x80, 0x81, 17, 18, 19, 20, 0x30] ∧
    session ws0 [[0x01, 0x82, 1, 2, 3, 4, 0x69], [0xC1, 0x89, 0x81, 5, 6, 7, 8, 0x75, 0x00, 0x81, 9, 10, 11, 12],
                 [0xA0, 0x00, 0x80, 13, 14, 15, 16, 0x80, 0x81, 17, 18, 19, 20, 0x30]] =
      [(9, some [0x70, 0], 1), (1, some [0x68, 0xC3, 0xA9, 0x21, 0], 4)] := by
  constructor <;> decide

/-- non-vacuity of `roundtrip_fragmented_fragments` (receiver with WANT_FRAGMENTS) … -/
example : ∃ tx, sendMessage exClient 1 [0x68, 0xC3] exMids [0x21] = some tx ∧
    ∀ chunks : List (List UInt8), chunks.flatten = tx.wire →
      session { ws0 with flags := 2 } chunks = msgFragEvs 1 [0x68, 0xC3] exMids [0x21] :=
  roundtrip_fragmented_fragments { ws0 with flags := 2 } exClient
    (init_inv 2 0 1000 _ (by decide) rfl).1 rfl rfl rfl rfl rfl (by decide) (by decide) (by decide)
    1 (Or.inl rfl) [0x68, 0xC3] exMids [0x21] (by decide)
    (by simp only [FragOK]; decide)
    (by intro x hx; simp [exMids] at hx; rcases hx with rfl | rfl | rfl <;> (simp only [FragOK, CtrlOK]; decide))
    (by simp only [FragOK]; decide)
    (by unfold SendFits; decide)
    (by intro x hx; simp [exMids] at hx; rcases hx with rfl | rfl | rfl <;> (simp only [SendOK, SendFits]; decide))
    (by unfold SendFits; decide) (by intro _; decide)

/-- … and what the application gets: "h" (the C3 is kept back), the ping, "é" whole with the
    second frame, an empty NEXT fragment, "!" — on the wire bytes cut as above -/
example : msgFragEvs 1 [0x68, 0xC3] exMids [0x21] =
      [(0x11, some [0x68, 0, 0], 1), (9, some [0x70, 0], 1), (0x21, some [0xC3, 0xA9, 0], 2), (0x21, none, 0),
       (0x41, some [0x21, 0], 1)] ∧
    session { ws0 with flags := 2 }
        [[0x01, 0x82, 1, 2, 3, 4, 0x69], [0xC1, 0x89, 0x81, 5, 6, 7, 8, 0x75, 0x00, 0x81, 9, 10, 11, 12],
         [0xA0, 0x00, 0x80, 13, 14, 15, 16, 0x80, 0x81, 17, 18, 19, 20, 0x30]] =
      msgFragEvs 1 [0x68, 0xC3] exMids [0x21] ∧
    dataBytes (msgFragEvs 1 [0x68, 0xC3] exMids [0x21]) = [0x68, 0xC3, 0xA9, 0x21] := by
  refine ⟨?_, ?_, ?_⟩ <;> decide

/-! ## (iv) no access outside the buffers -/

/-- A freshly initialised stream satisfies the invariant and is between two calls. -/
theorem init_ready (flags maxPayload allocLimit : Nat) (ws : WS) (ha : allocLimit < 2 ^ 63)
    (h : WS.init flags maxPayload allocLimit = some ws) : Inv ws ∧ Ready ws :=
  let ⟨hi, hq, _⟩ := init_inv flags maxPayload allocLimit ws ha h
  ⟨hi, fun _ => ⟨hi, hq⟩⟩

/-- One call of `MHD_websocket_decode`, any state satisfying the invariant, any buffer: the
    model returns (it never reaches `fault`, i.e. every `streambuf[i]` had `i < streambuf_len`,
    every payload / header write and every UTF-8 read was inside its allocation, the loop
    terminated), the invariant holds again, `*streambuf_read_len ≤ streambuf_len`, the
    returned payload is NULL/0 or an allocation holding payload and terminator, and a
    successful call on a non-empty buffer consumed at least one byte. -/
theorem decode_no_fault (ws : WS) (h : ws.validity ≠ 0 → Inv ws) (buf : List UInt8) :
    ∃ ws' st rd pl plen, decode false ws buf = .ret ws' st rd pl plen ∧ CallOK buf.length ws' st rd pl plen ∧
      (0 ≤ st → sil ws = 0 → buf ≠ [] → 1 ≤ rd) :=
  decode_ok h buf

/-- The application's receive loop over one chunk never faults and never spins: it ends
    with everything consumed (and the state is ready for the next chunk) or with an error status. -/
theorem feed_no_fault (ws : WS) (h : Ready ws) (chunk : List UInt8) :
    ∃ ws' calls e, feed false ws chunk = (ws', calls, e) ∧ (e = .consumed ∨ e = .error) ∧
      (ws'.validity ≠ 0 → Inv ws') ∧ (e = .consumed → Ready ws') :=
  feedLoop_ok (chunk.length + 9) h chunk [] (by omega)

/-- non-vacuity: a state reached by real traffic (text frame header + 2 of 5 payload bytes)
    satisfies the hypotheses -/
example : WS.init 0 0 1000 = some ws0 ∧
    (feed false ws0 [0x81, 0x85, 1, 2, 3, 4, 0x69, 0x67]).2.2 = .consumed ∧
    (feed false ws0 [0x81, 0x85, 1, 2, 3, 4, 0x69, 0x67]).1.step = 17 ∧
    (feed false ws0 [0x81, 0x85, 1, 2, 3, 4, 0x69, 0x67]).1.payloadIndex = 2 := by
  refine ⟨rfl, ?_, ?_, ?_⟩ <;> decide

/-! ## (v) encoder and decoder share the stream object, not state

  An application answers a ping or sends its own data while a large frame is still arriving:
  it calls `MHD_websocket_encode_*` on the same `struct MHD_WebSocketStream` between two
  `MHD_websocket_decode` calls.  The encoders are modelled as functions that return the stream
  (`EncRes.ws`); the decoder as a function of the stream. -/

/-- Every encoder of the public API (`Enc`: text with or without `utf8_step`, binary, ping, pong,
    close; any arguments, successful or not) leaves every field of the stream as it was — decode
    step, frame header and its size, payload size and index, **mask key**, data / control
    buffers, both UTF-8 steps, data type, validity, configuration — except the position in the
    rng script (a client draws the 4 key bytes). -/
theorem encode_preserves_decoder_state (ws : WS) (e : Enc) : ∃ r, (e.run ws).ws = { ws with rng := r } :=
  Enc.run_ws ws e

/-- `sessionI ws ops`: what the application sees of the decoder (as `session`) when `ops` mixes
    received chunks (`Op.feed`) with encoder calls on the same stream (`Op.enc`), any number, at
    any place — also between the pieces of one incoming frame.  It is what it sees without the
    encoder calls, and (by split independence) what it sees for the received bytes in one piece.
    `NoDraw`: the decoder itself does not draw from the rng, i.e. not (client role **and**
    `GENERATE_CLOSE_FRAMES_ON_ERROR`).  In that excluded combination the *key* of a generated
    close frame comes from the rng, whose position the application's own encoder calls advance,
    so equality of the returned bytes is not to be expected there. -/
theorem decode_interleaved_with_encode_independent (ws : WS) (hi : Inv ws) (hq : sil ws = 0) (hv : ws.validity ≠ 0)
    (hg : NoDraw ws) (ops : List Op) :
    sessionI ws ops = session ws (feedsOf ops) ∧ sessionI ws ops = session ws [(feedsOf ops).flatten] := by
  have h := sessionI_eq_session ws hg ops
  exact ⟨h, by rw [h]; exact split_independent ws hi hq hv _⟩

/-- non-vacuity (and the scenario of a shared `mask_key`): a client receives the ping "abcdef" in
    two pieces and encodes a pong and a text frame of its own (keys 01 02 03 04, 05 06 07 08) in
    between: the ping arrives intact, the mask key of the stream is still the (zero) key of the
    incoming frame -/
example :
    sessionI exClient [.feed [0x89, 0x06, 0x61, 0x62], .enc (.pong [0x61]), .enc (.text [0x68] 0 none), .feed [0x63, 0x64, 0x65, 0x66]] =
      [(9, some [0x61, 0x62, 0x63, 0x64, 0x65, 0x66, 0], 6)] ∧
    ((Enc.pong [0x61]).run (feed false exClient [0x89, 0x06, 0x61, 0x62]).1).frame = some [0x8A, 0x81, 1, 2, 3, 4, 0x60, 0] ∧
    ((Enc.pong [0x61]).run (feed false exClient [0x89, 0x06, 0x61, 0x62]).1).ws.maskKey = [0, 0, 0, 0] ∧
    NoDraw exClient := by
  refine ⟨?_, ?_, ?_, Or.inl ?_⟩ <;> decide

/-! ## (iii) RFC 6455 violations -/

/-- RFC 6455 5.2: a reserved bit is set ⇒ PROTOCOL_ERROR, stream invalid. -/
theorem reserved_bits (ws : WS) (b : UInt8) (rest : List UInt8) (hv : ws.validity ≠ 0) (hs : ws.step = 0)
    (hb : rsvBits b ≠ 0) : Rejected (decode false ws (b :: rest)) (-1) := by
  rw [err_rsv ws b rest hv hs hb]; exact rejected_errRet _ _ _ _

/-- RFC 6455 5.2: unknown opcode ⇒ PROTOCOL_ERROR, stream invalid. -/
theorem unknown_opcode (ws : WS) (b : UInt8) (rest : List UInt8) (hv : ws.validity ≠ 0) (hs : ws.step = 0)
    (hb : opcodeOf b ≠ 0 ∧ opcodeOf b ≠ 1 ∧ opcodeOf b ≠ 2 ∧ opcodeOf b ≠ 8 ∧ opcodeOf b ≠ 9 ∧ opcodeOf b ≠ 10) :
    Rejected (decode false ws (b :: rest)) (-1) := by
  rw [err_opcode ws b rest hv hs hb]; exact rejected_errRet _ _ _ _

/-- RFC 6455 5.4 / 5.5: a fragmented control frame ⇒ PROTOCOL_ERROR, stream invalid. -/
theorem fragmented_control (ws : WS) (b : UInt8) (rest : List UInt8) (hv : ws.validity ≠ 0) (hs : ws.step = 0)
    (hop : opcodeOf b = 8 ∨ opcodeOf b = 9 ∨ opcodeOf b = 10) (hfin : finBit b = false) :
    Rejected (decode false ws (b :: rest)) (-1) := by
  rw [err_ctl_fragmented ws b rest hv hs hop hfin]; exact rejected_errRet _ _ _ _

/-- RFC 6455 5.4 / 5.5.1: continuation without a started message, a new data frame inside a
    fragmented message, any data frame after a close frame ⇒ PROTOCOL_ERROR, stream invalid. -/
theorem bad_frame_sequence (ws : WS) (b : UInt8) (rest : List UInt8) (hv : ws.validity ≠ 0) (hs : ws.step = 0)
    (hseq : (opcodeOf b = 0 ∧ (ws.dataType = 0 ∨ ws.validity = 2)) ∨
            ((opcodeOf b = 1 ∨ opcodeOf b = 2) ∧ (ws.dataType ≠ 0 ∨ ws.validity = 2))) :
    Rejected (decode false ws (b :: rest)) (-1) := by
  rw [err_sequence ws b rest hv hs hseq]; exact rejected_errRet _ _ _ _

/-- RFC 6455 5.1, 5.5, 5.5.1, second header byte: MASK bit wrong for the role (a server
    receives an unmasked frame, a client a masked one), control frame with a 16/64-bit
    length, close frame with one payload byte ⇒ PROTOCOL_ERROR, stream invalid. -/
theorem wrong_mask_or_control_length (ws : WS) (b h0 : UInt8) (rest : List UInt8) (hv : ws.validity ≠ 0)
    (hs : ws.step = 1) (hh : ws.hdr[0]? = some h0)
    (hbad : finBit b = ws.isClient ∨ (126 ≤ len7 b ∧ ctlBit h0 = true) ∨ (len7 b = 1 ∧ opcodeOf h0 = 8)) :
    Rejected (decode false ws (b :: rest)) (-1) := by
  rw [err_second_byte ws b h0 rest hv hs hh hbad]; exact rejected_errRet _ _ _ _

/-- 7-bit length over the configured maximum ⇒ MAXIMUM_SIZE_EXCEEDED, stream invalid. -/
theorem over_max_7bit (ws : WS) (h : Inv ws) (b h0 : UInt8) (rest : List UInt8) (hv : ws.validity ≠ 0)
    (hs : ws.step = 1) (hh : ws.hdr[0]? = some h0)
    (hgood : finBit b ≠ ws.isClient ∧ (len7 b < 126) ∧ ¬ (len7 b = 1 ∧ opcodeOf h0 = 8))
    (hmax : ws.maxPayload ≠ 0 ∧ ws.maxPayload < len7 b) :
    Rejected (decode false ws (b :: rest)) (-5) := by
  rw [err_len7_max ws h b h0 rest hv hs hh hgood hmax]; exact rejected_errRet _ _ _ _

/-- RFC 6455 5.2, 16-bit length (`lenField ws b 2` = the two bytes at `frame_header[2]` once
    `b` is stored): value ≤ 125 ⇒ PROTOCOL_ERROR; over the maximum ⇒ MAXIMUM_SIZE_EXCEEDED. -/
theorem length16 (ws : WS) (h : Inv ws) (b : UInt8) (rest : List UInt8) (hv : ws.validity ≠ 0) (hs : ws.step = 3) :
    (lenField ws b 2 ≤ 125 → Rejected (decode false ws (b :: rest)) (-1)) ∧
    (125 < lenField ws b 2 → ws.maxPayload ≠ 0 ∧ ws.maxPayload < lenField ws b 2 →
      Rejected (decode false ws (b :: rest)) (-5)) := by
  obtain ⟨h1, h2⟩ := err_len16 ws h b rest hv hs
  exact ⟨fun hl => by rw [h1 hl]; exact rejected_errRet _ _ _ _,
         fun hg hm => by rw [h2 hg hm]; exact rejected_errRet _ _ _ _⟩

/-- RFC 6455 5.2, 64-bit length: most significant bit set or value ≤ 65535 ⇒ PROTOCOL_ERROR;
    over the maximum ⇒ MAXIMUM_SIZE_EXCEEDED. -/
theorem length64 (ws : WS) (h : Inv ws) (b : UInt8) (rest : List UInt8) (hv : ws.validity ≠ 0) (hs : ws.step = 11) :
    (0x7fffffffffffffff < lenField ws b 8 → Rejected (decode false ws (b :: rest)) (-1)) ∧
    (lenField ws b 8 ≤ 65535 → Rejected (decode false ws (b :: rest)) (-1)) ∧
    (65535 < lenField ws b 8 → lenField ws b 8 ≤ 0x7fffffffffffffff →
      ws.maxPayload ≠ 0 ∧ ws.maxPayload < lenField ws b 8 → Rejected (decode false ws (b :: rest)) (-5)) := by
  obtain ⟨h1, h2, h3⟩ := err_len64 ws h b rest hv hs
  exact ⟨fun hl => by rw [h1 hl]; exact rejected_errRet _ _ _ _,
         fun hl => by rw [h2 hl]; exact rejected_errRet _ _ _ _,
         fun a b c => by rw [h3 a b c]; exact rejected_errRet _ _ _ _⟩

/-- a continuation frame that makes the assembled message larger than the maximum
    ⇒ MAXIMUM_SIZE_EXCEEDED (whatever the next buffer is, even an empty one). -/
theorem over_max_continuation (ws : WS) (h0 : UInt8) (buf : List UInt8) (hv : ws.validity ≠ 0) (hs : ws.step = 16)
    (hh : ws.hdr[0]? = some h0) (hop : opcodeOf h0 = 0)
    (hmax : ws.maxPayload ≠ 0 ∧ ws.maxPayload < (ws.payloadSize + ws.dataSize) % W) :
    Rejected (decode false ws buf) (-5) := by
  rw [err_cont_max ws h0 buf hv hs hh hop hmax]; exact rejected_errRet _ _ _ _

/-- RFC 6455 8.1: an invalid byte in the (unmasked) payload of a text message is answered with
    UTF8_ENCODING_ERROR in the very call that delivers it, wherever the chunk boundaries are:
    `ws` is any state inside a text payload, `ws.dataUtf8` the validator state left by the
    previous chunks. -/
theorem invalid_utf8_text (ws : WS) (h : Inv ws) (hv : ws.validity ≠ 0) (hs : ws.step = 17) (hd : ws.dataType = 1)
    (rest : List UInt8) (o : Nat)
    (hbad : checkUtf8 (copyPayload (rest.take (min (ws.payloadSize - ws.payloadIndex) rest.length)) ws.maskKey
              (ws.payloadIndex % 4)) ws.dataUtf8 0 = .invalid o) :
    Rejected (decode false ws rest) (-6) :=
  err_text_utf8 ws h hv hs hd rest o hbad

/-- … and in the reason of a close frame (bytes from offset 2 of the payload on). -/
theorem invalid_utf8_close (ws : WS) (h : Inv ws) (hv : ws.validity ≠ 0) (hs : ws.step = 18) (h0 : UInt8)
    (hh : ws.hdr[0]? = some h0) (hop : opcodeOf h0 = 8) (rest : List UInt8) (o : Nat)
    (h2 : 2 < ws.payloadIndex + min (ws.payloadSize - ws.payloadIndex) rest.length)
    (hbad : checkUtf8 ((copyPayload (rest.take (min (ws.payloadSize - ws.payloadIndex) rest.length)) ws.maskKey
              (ws.payloadIndex % 4)).drop (2 - ws.payloadIndex)) ws.ctrlUtf8 0 = .invalid o) :
    Rejected (decode false ws rest) (-6) :=
  err_close_utf8 ws h hv hs h0 hh hop rest o h2 hbad

/-- a text message that ends inside a UTF-8 sequence (code after F7c). -/
theorem truncated_utf8_text (ws : WS) (h : Inv ws) (hv : ws.validity ≠ 0) (hs : ws.step = 17) (hd : ws.dataType = 1)
    (h0 : UInt8) (hh : ws.hdr[0]? = some h0) (hfin : finBit h0 = true) (rest : List UInt8) (hne : rest ≠ [])
    (hk : ws.payloadSize - ws.payloadIndex ≤ rest.length) (s : Nat)
    (hck : checkUtf8 (copyPayload (rest.take (ws.payloadSize - ws.payloadIndex)) ws.maskKey (ws.payloadIndex % 4))
             ws.dataUtf8 0 = .ok s) (hs0 : s ≠ 0) :
    Rejected (decode false ws rest) (-6) :=
  err_text_truncated ws h hv hs hd h0 hh hfin rest hne hk s hck hs0

/-- a close reason that ends inside a UTF-8 sequence (code after F7c). -/
theorem truncated_utf8_close (ws : WS) (h : Inv ws) (hv : ws.validity ≠ 0) (hs : ws.step = 18)
    (h0 : UInt8) (hh : ws.hdr[0]? = some h0) (hop : opcodeOf h0 = 8) (rest : List UInt8)
    (hk : ws.payloadSize - ws.payloadIndex ≤ rest.length) (hk0 : ws.payloadSize - ws.payloadIndex ≠ 0)
    (h2 : 2 < ws.payloadSize) (s : Nat)
    (hck : checkUtf8 ((copyPayload (rest.take (ws.payloadSize - ws.payloadIndex)) ws.maskKey (ws.payloadIndex % 4)).drop
             (2 - ws.payloadIndex)) ws.ctrlUtf8 0 = .ok s) (hs0 : s ≠ 0) :
    Rejected (decode false ws rest) (-6) :=
  err_close_truncated ws h hv hs h0 hh hop rest hk hk0 h2 s hck hs0

/-- non-vacuity of the state hypotheses of (iii): the states named there are reached from a
    fresh stream by ordinary header bytes (server role; `[0x82, 0xFE, 0x00]` = binary frame,
    masked, 16-bit length whose first byte is 0 — the next byte `0x7D` makes it non-minimal) -/
example : (feed false ws0 [0x82, 0xFE, 0x00]).2.2 = .consumed ∧ (feed false ws0 [0x82, 0xFE, 0x00]).1.step = 3 ∧
    (feed false ws0 [0x82, 0xFE, 0x00]).1.validity ≠ 0 ∧ lenField (feed false ws0 [0x82, 0xFE, 0x00]).1 0x7D 2 ≤ 125 := by
  refine ⟨?_, ?_, ?_, ?_⟩ <;> decide

example : Rejected (decode false ws0 [0xC1]) (-1) :=
  reserved_bits _ _ _ (by decide) (by decide) (by decide)

/-! ## the defects the theorems above excluded (model of the code before the fixes, `lg = true`) -/

/-- F7 (mhd_websocket.c:1225–1247 before the fix): the same close frame decodes in one call but
    faults (the UTF-8 check runs past the payload allocation: `bytes_to_check = bytes_to_take -
    utf8_start` wraps around) when its reason arrives in pieces — split dependence and an
    out-of-bounds read. -/
theorem F7_witness :
    (feed true ws0 [0x88, 0x87, 1, 2, 3, 4, 0x02, 0xea, 0x61, 0x7d, 0x64, 0x23, 0x22]).2.2 = .consumed ∧
    sessionG true ws0 [[0x88, 0x87, 1, 2, 3, 4, 0x02, 0xea, 0x61, 0x7d, 0x64, 0x23, 0x22]] =
      [(8, some [0x03, 0xe8, 0x62, 0x79, 0x65, 0x21, 0x21, 0], 7)] ∧
    (feed true (feed true ws0 [0x88, 0x87, 1, 2, 3, 4, 0x02, 0xea, 0x61]).1 [0x7d]).2.2 =
      .fault "UTF-8 check reads outside the payload allocation" := by decide

/-- F7c (before the fix): a text message that ends inside a UTF-8 sequence (`C3`) is handed to
    the application as a valid text frame, and the stale validator state makes the next,
    valid message (`"A"`) fail. -/
theorem F7c_witness :
    sessionG true ws0 [[0x81, 0x81, 0, 0, 0, 0, 0xC3], [0x81, 0x81, 0, 0, 0, 0, 0x41]] =
      [(1, some [0xC3, 0], 1), (-6, none, 0)] ∧
    session ws0 [[0x81, 0x81, 0, 0, 0, 0, 0xC3], [0x81, 0x81, 0, 0, 0, 0, 0x41]] = [(-6, none, 0)] := by decide

end Mhd.C19
