/-
  C19 — WebSocket codec (src/microhttpd_ws/mhd_websocket.c): split-independent decoding,
  lossless round trip, RFC 6455 violations, no access outside the buffers.

  Statements only; the proofs are in `Mhd.Proofs.WS*`.  Everything is about the model of
  the code *after* build/fixes/F7.diff + F7c.diff (`lg = false`); the behaviour of the code
  before the fixes is kept in the model (`lg = true`) for the witness theorems at the end.

  Quantification: every decoder state satisfying the representation invariant `Inv`
  (it holds after `MHD_websocket_stream_init` and is preserved by every call, so this is a
  superset of the reachable states), every input buffer / chunk list, every payload size,
  mask key, flag combination and size limit.  No bound on lengths or on the number of calls.
  Environment assumption carried by `Inv`: the allocation callbacks never hand out
  2^63 bytes or more (`allocLimit < 2^63`, true of every malloc: PTRDIFF_MAX).
-/
import Mhd.Proofs.WSErr2

namespace Mhd.C19
open Mhd.WS

/-- a server-side stream as `MHD_websocket_stream_init (&ws, 0, 0)` leaves it (allocation limit 1000) -/
def ws0 : WS := { flags := 0, maxPayload := 0, allocLimit := 1000, rng := [] }

/-! ## (iv) no access outside the buffers -/

/-- A freshly initialised stream satisfies the invariant and is between two calls. -/
theorem init_ready (flags maxPayload allocLimit : Nat) (ws : WS) (ha : allocLimit < 2 ^ 63)
    (h : WS.init flags maxPayload allocLimit = some ws) : Inv ws ∧ Ready ws :=
  let ⟨hi, hq, _⟩ := init_inv flags maxPayload allocLimit ws ha h
  ⟨hi, fun _ => ⟨hi, hq⟩⟩

/-- One call of `MHD_websocket_decode`, any state satisfying the invariant, any buffer: the
    model returns (it never reaches `fault`, i.e. every `streambuf[i]` had `i < streambuf_len`,
    every payload / header write and every UTF-8 read was inside its allocation, the loop
    terminated), the invariant holds again, `*streambuf_read_len ≤ streambuf_len`, the
    returned payload is NULL/0 or an allocation holding payload and terminator, and a
    successful call on a non-empty buffer consumed at least one byte. -/
theorem decode_no_fault (ws : WS) (h : ws.validity ≠ 0 → Inv ws) (buf : List UInt8) :
    ∃ ws' st rd pl plen, decode false ws buf = .ret ws' st rd pl plen ∧ CallOK buf.length ws' st rd pl plen ∧
      (0 ≤ st → sil ws = 0 → buf ≠ [] → 1 ≤ rd) :=
  decode_ok h buf

/-- The application's receive loop over one chunk never faults and never spins: it ends
    with everything consumed (and the state is ready for the next chunk) or with an error status. -/
theorem feed_no_fault (ws : WS) (h : Ready ws) (chunk : List UInt8) :
    ∃ ws' calls e, feed false ws chunk = (ws', calls, e) ∧ (e = .consumed ∨ e = .error) ∧
      (ws'.validity ≠ 0 → Inv ws') ∧ (e = .consumed → Ready ws') :=
  feedLoop_ok (chunk.length + 9) h chunk [] (by omega)

/-- non-vacuity: a state reached by real traffic (text frame header + 2 of 5 payload bytes)
    satisfies the hypotheses -/
example : WS.init 0 0 1000 = some ws0 ∧
    (feed false ws0 [0x81, 0x85, 1, 2, 3, 4, 0x69, 0x67]).2.2 = .consumed ∧
    (feed false ws0 [0x81, 0x85, 1, 2, 3, 4, 0x69, 0x67]).1.step = 17 ∧
    (feed false ws0 [0x81, 0x85, 1, 2, 3, 4, 0x69, 0x67]).1.payloadIndex = 2 := by
  refine ⟨rfl, ?_, ?_, ?_⟩ <;> decide

/-! ## (iii) RFC 6455 violations -/

/-- RFC 6455 5.2: a reserved bit is set ⇒ PROTOCOL_ERROR, stream invalid. -/
theorem reserved_bits (ws : WS) (b : UInt8) (rest : List UInt8) (hv : ws.validity ≠ 0) (hs : ws.step = 0)
    (hb : rsvBits b ≠ 0) : Rejected (decode false ws (b :: rest)) (-1) := by
  rw [err_rsv ws b rest hv hs hb]; exact rejected_errRet _ _ _ _

/-- RFC 6455 5.2: unknown opcode ⇒ PROTOCOL_ERROR, stream invalid. -/
theorem unknown_opcode (ws : WS) (b : UInt8) (rest : List UInt8) (hv : ws.validity ≠ 0) (hs : ws.step = 0)
    (hb : opcodeOf b ≠ 0 ∧ opcodeOf b ≠ 1 ∧ opcodeOf b ≠ 2 ∧ opcodeOf b ≠ 8 ∧ opcodeOf b ≠ 9 ∧ opcodeOf b ≠ 10) :
    Rejected (decode false ws (b :: rest)) (-1) := by
  rw [err_opcode ws b rest hv hs hb]; exact rejected_errRet _ _ _ _

/-- RFC 6455 5.4 / 5.5: a fragmented control frame ⇒ PROTOCOL_ERROR, stream invalid. -/
theorem fragmented_control (ws : WS) (b : UInt8) (rest : List UInt8) (hv : ws.validity ≠ 0) (hs : ws.step = 0)
    (hop : opcodeOf b = 8 ∨ opcodeOf b = 9 ∨ opcodeOf b = 10) (hfin : finBit b = false) :
    Rejected (decode false ws (b :: rest)) (-1) := by
  rw [err_ctl_fragmented ws b rest hv hs hop hfin]; exact rejected_errRet _ _ _ _

/-- RFC 6455 5.4 / 5.5.1: continuation without a started message, a new data frame inside a
    fragmented message, any data frame after a close frame ⇒ PROTOCOL_ERROR, stream invalid. -/
theorem bad_frame_sequence (ws : WS) (b : UInt8) (rest : List UInt8) (hv : ws.validity ≠ 0) (hs : ws.step = 0)
    (hseq : (opcodeOf b = 0 ∧ (ws.dataType = 0 ∨ ws.validity = 2)) ∨
            ((opcodeOf b = 1 ∨ opcodeOf b = 2) ∧ (ws.dataType ≠ 0 ∨ ws.validity = 2))) :
    Rejected (decode false ws (b :: rest)) (-1) := by
  rw [err_sequence ws b rest hv hs hseq]; exact rejected_errRet _ _ _ _

/-- RFC 6455 5.1, 5.5, 5.5.1, second header byte: MASK bit wrong for the role (a server
    receives an unmasked frame, a client a masked one), control frame with a 16/64-bit
    length, close frame with one payload byte ⇒ PROTOCOL_ERROR, stream invalid. -/
theorem wrong_mask_or_control_length (ws : WS) (b h0 : UInt8) (rest : List UInt8) (hv : ws.validity ≠ 0)
    (hs : ws.step = 1) (hh : ws.hdr[0]? = some h0)
    (hbad : finBit b = ws.isClient ∨ (126 ≤ len7 b ∧ ctlBit h0 = true) ∨ (len7 b = 1 ∧ opcodeOf h0 = 8)) :
    Rejected (decode false ws (b :: rest)) (-1) := by
  rw [err_second_byte ws b h0 rest hv hs hh hbad]; exact rejected_errRet _ _ _ _

/-- 7-bit length over the configured maximum ⇒ MAXIMUM_SIZE_EXCEEDED, stream invalid. -/
theorem over_max_7bit (ws : WS) (h : Inv ws) (b h0 : UInt8) (rest : List UInt8) (hv : ws.validity ≠ 0)
    (hs : ws.step = 1) (hh : ws.hdr[0]? = some h0)
    (hgood : finBit b ≠ ws.isClient ∧ (len7 b < 126) ∧ ¬ (len7 b = 1 ∧ opcodeOf h0 = 8))
    (hmax : ws.maxPayload ≠ 0 ∧ ws.maxPayload < len7 b) :
    Rejected (decode false ws (b :: rest)) (-5) := by
  rw [err_len7_max ws h b h0 rest hv hs hh hgood hmax]; exact rejected_errRet _ _ _ _

/-- RFC 6455 5.2, 16-bit length (`lenField ws b 2` = the two bytes at `frame_header[2]` once
    `b` is stored): value ≤ 125 ⇒ PROTOCOL_ERROR; over the maximum ⇒ MAXIMUM_SIZE_EXCEEDED. -/
theorem length16 (ws : WS) (h : Inv ws) (b : UInt8) (rest : List UInt8) (hv : ws.validity ≠ 0) (hs : ws.step = 3) :
    (lenField ws b 2 ≤ 125 → Rejected (decode false ws (b :: rest)) (-1)) ∧
    (125 < lenField ws b 2 → ws.maxPayload ≠ 0 ∧ ws.maxPayload < lenField ws b 2 →
      Rejected (decode false ws (b :: rest)) (-5)) := by
  obtain ⟨h1, h2⟩ := err_len16 ws h b rest hv hs
  exact ⟨fun hl => by rw [h1 hl]; exact rejected_errRet _ _ _ _,
         fun hg hm => by rw [h2 hg hm]; exact rejected_errRet _ _ _ _⟩

/-- RFC 6455 5.2, 64-bit length: most significant bit set or value ≤ 65535 ⇒ PROTOCOL_ERROR;
    over the maximum ⇒ MAXIMUM_SIZE_EXCEEDED. -/
theorem length64 (ws : WS) (h : Inv ws) (b : UInt8) (rest : List UInt8) (hv : ws.validity ≠ 0) (hs : ws.step = 11) :
    (0x7fffffffffffffff < lenField ws b 8 → Rejected (decode false ws (b :: rest)) (-1)) ∧
    (lenField ws b 8 ≤ 65535 → Rejected (decode false ws (b :: rest)) (-1)) ∧
    (65535 < lenField ws b 8 → lenField ws b 8 ≤ 0x7fffffffffffffff →
      ws.maxPayload ≠ 0 ∧ ws.maxPayload < lenField ws b 8 → Rejected (decode false ws (b :: rest)) (-5)) := by
  obtain ⟨h1, h2, h3⟩ := err_len64 ws h b rest hv hs
  exact ⟨fun hl => by rw [h1 hl]; exact rejected_errRet _ _ _ _,
         fun hl => by rw [h2 hl]; exact rejected_errRet _ _ _ _,
         fun a b c => by rw [h3 a b c]; exact rejected_errRet _ _ _ _⟩

/-- a continuation frame that makes the assembled message larger than the maximum
    ⇒ MAXIMUM_SIZE_EXCEEDED (whatever the next buffer is, even an empty one). -/
theorem over_max_continuation (ws : WS) (h0 : UInt8) (buf : List UInt8) (hv : ws.validity ≠ 0) (hs : ws.step = 16)
    (hh : ws.hdr[0]? = some h0) (hop : opcodeOf h0 = 0)
    (hmax : ws.maxPayload ≠ 0 ∧ ws.maxPayload < (ws.payloadSize + ws.dataSize) % W) :
    Rejected (decode false ws buf) (-5) := by
  rw [err_cont_max ws h0 buf hv hs hh hop hmax]; exact rejected_errRet _ _ _ _

/-- RFC 6455 8.1: an invalid byte in the (unmasked) payload of a text message is answered with
    UTF8_ENCODING_ERROR in the very call that delivers it, wherever the chunk boundaries are:
    `ws` is any state inside a text payload, `ws.dataUtf8` the validator state left by the
    previous chunks. -/
theorem invalid_utf8_text (ws : WS) (h : Inv ws) (hv : ws.validity ≠ 0) (hs : ws.step = 17) (hd : ws.dataType = 1)
    (rest : List UInt8) (o : Nat)
    (hbad : checkUtf8 (copyPayload (rest.take (min (ws.payloadSize - ws.payloadIndex) rest.length)) ws.maskKey
              (ws.payloadIndex % 4)) ws.dataUtf8 0 = .invalid o) :
    Rejected (decode false ws rest) (-6) :=
  err_text_utf8 ws h hv hs hd rest o hbad

/-- … and in the reason of a close frame (bytes from offset 2 of the payload on). -/
theorem invalid_utf8_close (ws : WS) (h : Inv ws) (hv : ws.validity ≠ 0) (hs : ws.step = 18) (h0 : UInt8)
    (hh : ws.hdr[0]? = some h0) (hop : opcodeOf h0 = 8) (rest : List UInt8) (o : Nat)
    (h2 : 2 < ws.payloadIndex + min (ws.payloadSize - ws.payloadIndex) rest.length)
    (hbad : checkUtf8 ((copyPayload (rest.take (min (ws.payloadSize - ws.payloadIndex) rest.length)) ws.maskKey
              (ws.payloadIndex % 4)).drop (2 - ws.payloadIndex)) ws.ctrlUtf8 0 = .invalid o) :
    Rejected (decode false ws rest) (-6) :=
  err_close_utf8 ws h hv hs h0 hh hop rest o h2 hbad

/-- a text message that ends inside a UTF-8 sequence (code after F7c). -/
theorem truncated_utf8_text (ws : WS) (h : Inv ws) (hv : ws.validity ≠ 0) (hs : ws.step = 17) (hd : ws.dataType = 1)
    (h0 : UInt8) (hh : ws.hdr[0]? = some h0) (hfin : finBit h0 = true) (rest : List UInt8) (hne : rest ≠ [])
    (hk : ws.payloadSize - ws.payloadIndex ≤ rest.length) (s : Nat)
    (hck : checkUtf8 (copyPayload (rest.take (ws.payloadSize - ws.payloadIndex)) ws.maskKey (ws.payloadIndex % 4))
             ws.dataUtf8 0 = .ok s) (hs0 : s ≠ 0) :
    Rejected (decode false ws rest) (-6) :=
  err_text_truncated ws h hv hs hd h0 hh hfin rest hne hk s hck hs0

/-- a close reason that ends inside a UTF-8 sequence (code after F7c). -/
theorem truncated_utf8_close (ws : WS) (h : Inv ws) (hv : ws.validity ≠ 0) (hs : ws.step = 18)
    (h0 : UInt8) (hh : ws.hdr[0]? = some h0) (hop : opcodeOf h0 = 8) (rest : List UInt8)
    (hk : ws.payloadSize - ws.payloadIndex ≤ rest.length) (hk0 : ws.payloadSize - ws.payloadIndex ≠ 0)
    (h2 : 2 < ws.payloadSize) (s : Nat)
    (hck : checkUtf8 ((copyPayload (rest.take (ws.payloadSize - ws.payloadIndex)) ws.maskKey (ws.payloadIndex % 4)).drop
             (2 - ws.payloadIndex)) ws.ctrlUtf8 0 = .ok s) (hs0 : s ≠ 0) :
    Rejected (decode false ws rest) (-6) :=
  err_close_truncated ws h hv hs h0 hh hop rest hk hk0 h2 s hck hs0

/-- non-vacuity of the state hypotheses of (iii): the states named there are reached from a
    fresh stream by ordinary header bytes (server role; `[0x82, 0xFE, 0x00]` = binary frame,
    masked, 16-bit length whose first byte is 0 — the next byte `0x7D` makes it non-minimal) -/
example : (feed false ws0 [0x82, 0xFE, 0x00]).2.2 = .consumed ∧ (feed false ws0 [0x82, 0xFE, 0x00]).1.step = 3 ∧
    (feed false ws0 [0x82, 0xFE, 0x00]).1.validity ≠ 0 ∧ lenField (feed false ws0 [0x82, 0xFE, 0x00]).1 0x7D 2 ≤ 125 := by
  refine ⟨?_, ?_, ?_, ?_⟩ <;> decide

example : Rejected (decode false ws0 [0xC1]) (-1) :=
  reserved_bits _ _ _ (by decide) (by decide) (by decide)

end Mhd.C19
