/-
  C07 — Socket and allocation failures never corrupt, duplicate or wedge.

  Model: `Mhd.Model.Send` (mhd_send.c: MHD_send_data_, MHD_send_hdr_and_body_,
  MHD_send_iovec_/send_iov_nontls, MHD_send_sendfile_, the errno mapping;
  connection.c: recv_param_adapter) and `Mhd.Model.SendConn` (connection.c:
  MHD_connection_handle_write, the reply states of MHD_connection_handle_idle,
  try_ready_normal_body, try_ready_chunked_body, check_write_done; the upload path of
  MHD_connection_handle_read / process_request_body).

  `stream r` is the reply stream `R` = header ++ body (or ++ chunk frames ++ footer);
  `c.out` is what the socket took so far; `pending r c` is what the offsets of the
  connection say is still to be sent.  A fault script is a list of `Round`s: for every turn
  of the event loop the answer of the operating system to the (at most two) system calls,
  the answers of the content reader and of the allocator, and whether the socket was
  write-ready at all.  All theorems quantify over every reply description `r` satisfying
  `WF`, every fault script of any length, every answer in it.

  Statements only; the proofs live in `Mhd.Proofs.Send*`.
-/
import Mhd.Proofs.SendProgress
import Mhd.Proofs.SendUp

namespace Mhd.C07
open Mhd.Send Mhd.Gen.Send

/-- The invariant `delivered ++ pending(offsets) = R` (plus the representation facts it
    rests on: offsets inside the write buffer, the iovec tracker in step with the body
    position, no out-of-range access) is preserved by every round with every answer of
    the socket, the content reader and the allocator. -/
theorem round_inv (r : Resp) (hw : WF r) (c : Conn) (h : Inv r c) (x : Round) (hx : x.Legal) :
    Inv r (round r c x) :=
  Mhd.Send.round_inv hw h x hx

/-- For EVERY fault script: the bytes delivered to the client are a prefix of the reply
    stream — no gap, no duplication — and as long as the connection is not closed the
    rest of the stream is exactly what the offsets say is pending; no buffer access is out
    of range.  (`allocStart` = does build_header_response get its memory.) -/
theorem delivered_prefix (r : Resp) (hw : WF r) (allocStart : Bool) (xs : List Round)
    (hx : ∀ x ∈ xs, x.Legal) :
    let c := run r (startReply r allocStart) xs
    c.out <+: stream r ∧ c.fault = false ∧ (c.st ≠ .closed → c.out ++ pending r c = stream r) := by
  have h := run_inv hw xs (startReply r allocStart) (start_inv hw allocStart) hx
  exact ⟨h.pfx, h.nofault, h.eqn⟩

/-- When the reply is complete, exactly `R` has been delivered — whatever faults happened
    on the way. -/
theorem done_delivers_all (r : Resp) (hw : WF r) (allocStart : Bool) (xs : List Round)
    (hx : ∀ x ∈ xs, x.Legal) (hd : (run r (startReply r allocStart) xs).st = .done) :
    (run r (startReply r allocStart) xs).out = stream r := by
  have h := run_inv hw xs (startReply r allocStart) (start_inv hw allocStart) hx
  have := h.eqn (by rw [hd]; decide)
  simpa [pending, hd] using this

/-- Transient faults alone (short counts, EAGAIN, EINTR, a content reader that is not ready,
    rounds in which the socket is not writable) never close the connection … -/
theorem transient_never_closes (r : Resp) (hw : WFp r) (xs : List Round) (hx : ∀ x ∈ xs, x.transient) :
    (run r (startReply r true) xs).st ≠ .closed :=
  (run_progress hw xs _ (start_inv hw.wf true) (by simp [startReply, initConn]) hx).1

/-- … and never change what is finally delivered: every productive round (socket writable and
    taking data, content reader ready) strictly decreases the measure `mu` (eight units per
    byte still to deliver plus the rank of the state), every other transient round leaves it
    unchanged or smaller; so a script with more than `8 * |R|` productive rounds — however
    they are interleaved with transient failures — ends with the reply complete and exactly
    `R` delivered. -/
theorem transient_delivers_all (r : Resp) (hw : WFp r) (xs : List Round) (hx : ∀ x ∈ xs, x.transient)
    (hn : 8 * (stream r).length < countGood xs) :
    (run r (startReply r true) xs).st = .done ∧ (run r (startReply r true) xs).out = stream r := by
  have hp := run_progress hw xs _ (start_inv hw.wf true) (by simp [startReply, initConn]) hx
  have hd : (run r (startReply r true) xs).st = .done := by
    rcases hp.2 with hd | hm
    · exact hd
    · rw [mu_start] at hm; omega
  exact ⟨hd, done_delivers_all r hw.wf true xs (fun x hxm => (hx x hxm).legal) hd⟩

/-- the measure itself: what is still owed after any transient-only script -/
theorem transient_measure (r : Resp) (hw : WFp r) (xs : List Round) (hx : ∀ x ∈ xs, x.transient) :
    (run r (startReply r true) xs).st = .done ∨
    mu r (run r (startReply r true) xs) + countGood xs ≤ 8 * (stream r).length := by
  have hp := run_progress hw xs _ (start_inv hw.wf true) (by simp [startReply, initConn]) hx
  rw [mu_start] at hp
  exact hp.2

/-- After the connection has been closed (or the reply completed) nothing is ever sent
    again: every further round leaves the connection, and in particular `out`, unchanged. -/
theorem closed_never_sends (r : Resp) (c : Conn) (h : c.st = .closed ∨ c.st = .done) (xs : List Round) :
    run r c xs = c :=
  run_final xs c h

/-- A permanent failure of the system call (`errno` not mapped to "again") closes the
    connection and nothing of that call reaches the wire — unless the round made no call at
    all, in which case the answer is irrelevant.  Standard senders; for sendfile see
    `sendfile_error_policy`. -/
theorem hard_error_closes (r : Resp) (c : Conn) (e : Errno) (he : Errno.isHard e) (hsf : c.sf = false)
    (x : Round) (hwr : x.wr = true) (hs1 : x.s1 = .err e) :
    ((round r c x).st = .closed ∧ (round r c x).out = c.out) ∨
    round r c x = round r c { x with s1 := .full } :=
  hard_error_closes_aux e he hsf x hwr hs1

/-- sendfile(): EAGAIN/EINTR ⇒ retry later; EBADF ⇒ hard error; every other errno ⇒
    nothing sent, fall back to the standard sender and retry (mhd_send.c:1255-1279). -/
theorem sendfile_error_policy (t : Bool) (file : Bytes) (fdOff pos total : Nat) (e : Errno)
    (hoff : pos + fdOff ≤ off64Max) :
    let x := sendSendfile t file fdOff pos total (.err e)
    x.out.wire = [] ∧
    (if e.isEagain || e.isEintr then x.out.ret = .error .again ∧ x.sf = true
     else if e.isEbadf then x.out.ret = .error .badf
     else x.out.ret = .error .again ∧ x.sf = false) := by
  have hno : ¬ off64Max < pos + fdOff := by omega
  simp only [sendSendfile, hno, if_false]
  cases h1 : e.isEagain <;> cases h2 : e.isEintr <;> cases h3 : e.isEbadf <;> simp [SendOut.fail]

/-- Every allocation site of the reply path: a failing allocation closes the connection
    or was not needed in this round (the round ends exactly as with a successful one). -/
theorem alloc_failure_closes_or_unchanged (r : Resp) (c : Conn) (x : Round) :
    (round r c { x with allocW := false, allocI := false }).st = .closed ∨
    round r c { x with allocW := false, allocI := false } =
      round r c { x with allocW := true, allocI := true } :=
  round_alloc r c x

/-- … the header block cannot be built: closed before anything is sent. -/
theorem alloc_failure_at_start (r : Resp) :
    (startReply r false).st = .closed ∧ (startReply r false).out = [] := ⟨rfl, rfl⟩

/-- … the write buffer cannot be grown to the minimum a chunk needs: closed, nothing sent. -/
theorem alloc_failure_chunk_buffer (r : Resp) (c : Conn) (app : AppAns) (alloc : Bool)
    (hs : c.st = .chunkedBodyUnready) (h0 : ¬ (c.tot = 0 ∨ c.rp = c.tot)) (hb : r.wbSize < minChunkBuf) :
    (idleStep r c app alloc).st = .closed ∧ (idleStep r c app alloc).out = c.out :=
  chunk_buffer_failure_closes r c app alloc hs h0 hb

/-- Uploads: for every script of receive results (short reads, EAGAIN, EINTR, errors, EOF)
    and every way the application consumes the data, the bytes handed to the application
    are a prefix of the request body, in order, without gap or duplication. -/
theorem upload_prefix (cap : Nat) (body rest : Bytes) (ops : List UpOp) :
    (upRun (upInit cap body rest) ops).handed <+: body :=
  (upRun_inv ops _ (upInit_inv cap body rest)).handed_prefix

/-! ### Non-vacuity -/

/-- a chunked reply from a content reader, 7 body bytes, chunks of at most 3 -/
def exResp : Resp :=
  { hdr := [72, 84, 84, 80, 13, 10, 13, 10], body := [1, 2, 3, 4, 5, 6, 7], kind := .callback, iov := [],
    sizeKnown := false, chunked := true, sendBody := true, footer := [48, 13, 10, 13, 10],
    bufSize := 1024, wbSize := 32768, cbMax := 3, fdOff := 0, sendfile := false, thrPerConn := false,
    noVec := false, nonblk := true }

theorem exResp_wf : WF exResp := by
  refine ⟨by decide, by decide, ?_, ?_, by decide, ?_, ?_, ?_⟩
  · intro h; simp [exResp] at h
  · intro h; simp [exResp] at h
  · intro h; simp [exResp] at h
  · intro h; simp [exResp] at h
  · intro e he; simp [exResp] at he

theorem exResp_wfp : WFp exResp :=
  ⟨exResp_wf, by decide, fun _ => by decide, fun _ => by decide, fun h => by simp [exResp] at h⟩

/-- short writes, EAGAIN, EINTR and a reader that is not ready at first: the reply still
    arrives complete, and the hypotheses of the theorems above are satisfiable -/
example :
    let xs : List Round :=
      [{ s1 := .short 3 }, { s1 := .err .EAGAIN }, { s1 := .full, appI := .notReady }, { wr := false },
       { s1 := .short 2 }, { s1 := .err .EINTR }, { s1 := .full }, { s1 := .full }, { s1 := .full }, { s1 := .full }]
    (∀ x ∈ xs, x.Legal) ∧ (∀ x ∈ xs, x.transient) ∧ countGood xs = 6 ∧
    (run exResp (startReply exResp true) xs).st = .done ∧
    (run exResp (startReply exResp true) xs).out = stream exResp := by
  decide

/-- a connection reset in the middle: closed, a strict prefix was delivered -/
example :
    let c := run exResp (startReply exResp true) [{ s1 := .full }, { s1 := .short 4 }, { s1 := .err .ECONNRESET }, { s1 := .full }]
    c.st = .closed ∧ c.out.length = 12 ∧ c.out <+: stream exResp := by
  decide

example : Errno.isHard .ECONNRESET ∧ Errno.isHard .EPIPE ∧ ¬ Errno.isHard .EAGAIN ∧ ¬ Errno.isHard .EINTR := by decide

example : (upRun (upInit 8 [1, 2, 3, 4, 5] [9, 9])
    [.read (.data 2), .process 1, .read (.err .EAGAIN), .read (.data 100), .process 100]).handed = [1, 2, 3, 4, 5] := by
  decide

end Mhd.C07
