/-
  C07 — Socket and allocation failures never corrupt, duplicate or wedge.

  Model: `Mhd.Model.Send` (mhd_send.c: MHD_send_data_, MHD_send_hdr_and_body_,
  MHD_send_iovec_/send_iov_nontls, MHD_send_sendfile_, the errno mapping;
  connection.c: recv_param_adapter) and `Mhd.Model.SendConn` (connection.c:
  MHD_connection_handle_write, the reply states of MHD_connection_handle_idle,
  try_ready_normal_body, try_ready_chunked_body, check_write_done; the upload path of
  MHD_connection_handle_read / process_request_body).

  `stream r` is the reply stream `R` = header ++ body (or ++ chunk frames ++ footer);
  `c.out` is what the socket took so far; `pending r c` is what the offsets of the
  connection say is still to be sent.  A fault script is a list of `Round`s: for every turn
  of the event loop the answer of the operating system to the (at most two) system calls,
  the answers of the content reader and of the allocator, and whether the socket was
  write-ready at all.  All theorems quantify over every reply description `r` satisfying
  `WF`, every fault script of any length, every answer in it.

  The close path (MHD_connection_close_, connection_reset, cleanup_connection) is modelled by the
  record `Conn.bk : Bk`: the flags the three functions test and clear (`client_aware`,
  `rp.response ≠ NULL`, `pool ≠ NULL`, `in_cleanup`) and ghost counters of what they did
  (completion notifications with their code, response references dropped, pools destroyed /
  reset, insertions into the clean-up list).

  Statements only; the proofs live in `Mhd.Proofs.Send*`.
-/
import Mhd.Proofs.SendProgress
import Mhd.Proofs.SendUp
import Mhd.Proofs.SendClose
import Mhd.Proofs.SendCont

namespace Mhd.C07
open Mhd.Send Mhd.Gen.Send

/-- The invariant `delivered ++ pending(offsets) = R` (plus the representation facts it
    rests on: offsets inside the write buffer, the iovec tracker in step with the body
    position, no out-of-range access) is preserved by every round with every answer of
    the socket, the content reader and the allocator. -/
theorem round_inv (r : Resp) (hw : WF r) (c : Conn) (h : Inv r c) (x : Round) (hx : x.Legal) :
    Inv r (round r c x) :=
  Mhd.Send.round_inv hw h x hx

/-- For EVERY fault script: the bytes delivered to the client are a prefix of the reply
    stream — no gap, no duplication — and as long as the connection is not closed the
    rest of the stream is exactly what the offsets say is pending; no buffer access is out
    of range.  (`allocStart` = does build_header_response get its memory.) -/
theorem delivered_prefix (r : Resp) (hw : WF r) (allocStart : Bool) (xs : List Round)
    (hx : ∀ x ∈ xs, x.Legal) :
    let c := run r (startReply r allocStart) xs
    c.out <+: stream r ∧ c.fault = false ∧ (c.st ≠ .closed → c.out ++ pending r c = stream r) := by
  have h := run_inv hw xs (startReply r allocStart) (start_inv hw allocStart) hx
  exact ⟨h.pfx, h.nofault, h.eqn⟩

/-- When the reply is complete, exactly `R` has been delivered — whatever faults happened
    on the way. -/
theorem done_delivers_all (r : Resp) (hw : WF r) (allocStart : Bool) (xs : List Round)
    (hx : ∀ x ∈ xs, x.Legal) (hd : (run r (startReply r allocStart) xs).st = .done) :
    (run r (startReply r allocStart) xs).out = stream r := by
  have h := run_inv hw xs (startReply r allocStart) (start_inv hw allocStart) hx
  have := h.eqn (by rw [hd]; decide)
  simpa [pending, hd] using this

/-- Transient faults alone (short counts, EAGAIN, EINTR, a content reader that is not ready,
    rounds in which the socket is not writable) never close the connection … -/
theorem transient_never_closes (r : Resp) (hw : WFp r) (xs : List Round) (hx : ∀ x ∈ xs, x.transient) :
    (run r (startReply r true) xs).st ≠ .closed :=
  (run_progress hw xs _ (start_inv hw.wf true) (by simp [startReply, initConn]) hx).1

/-- … and never change what is finally delivered: every productive round (socket writable and
    taking data, content reader ready) strictly decreases the measure `mu` (eight units per
    byte still to deliver plus the rank of the state), every other transient round leaves it
    unchanged or smaller; so a script with more than `8 * |R|` productive rounds — however
    they are interleaved with transient failures — ends with the reply complete and exactly
    `R` delivered. -/
theorem transient_delivers_all (r : Resp) (hw : WFp r) (xs : List Round) (hx : ∀ x ∈ xs, x.transient)
    (hn : 8 * (stream r).length < countGood xs) :
    (run r (startReply r true) xs).st = .done ∧ (run r (startReply r true) xs).out = stream r := by
  have hp := run_progress hw xs _ (start_inv hw.wf true) (by simp [startReply, initConn]) hx
  have hd : (run r (startReply r true) xs).st = .done := by
    rcases hp.2 with hd | hm
    · exact hd
    · rw [mu_start] at hm; omega
  exact ⟨hd, done_delivers_all r hw.wf true xs (fun x hxm => (hx x hxm).legal) hd⟩

/-- the measure itself: what is still owed after any transient-only script -/
theorem transient_measure (r : Resp) (hw : WFp r) (xs : List Round) (hx : ∀ x ∈ xs, x.transient) :
    (run r (startReply r true) xs).st = .done ∨
    mu r (run r (startReply r true) xs) + countGood xs ≤ 8 * (stream r).length := by
  have hp := run_progress hw xs _ (start_inv hw.wf true) (by simp [startReply, initConn]) hx
  rw [mu_start] at hp
  exact hp.2

/-- After the connection has been closed (or the reply completed) nothing is ever sent
    again: every further round leaves the state and `out` unchanged; the only thing that may still
    happen is the (guarded, idempotent) `cleanup_connection` of the CLOSED case of the idle loop. -/
theorem closed_never_sends (r : Resp) (c : Conn) (h : c.st = .closed ∨ c.st = .done) (xs : List Round) :
    (run r c xs).st = c.st ∧ (run r c xs).out = c.out ∧ (run r c xs = c ∨ run r c xs = idleClosed c) := by
  rcases run_final (r := r) xs c h with e | e <;> rw [e]
  · exact ⟨rfl, rfl, Or.inl rfl⟩
  · exact ⟨idleClosed_st c, idleClosed_out c, Or.inr rfl⟩

/-- A permanent failure of the system call (`errno` not mapped to "again") closes the
    connection and nothing of that call reaches the wire — unless the round made no call at
    all, in which case the answer is irrelevant.  Standard senders; for sendfile see
    `sendfile_error_policy`. -/
theorem hard_error_closes (r : Resp) (c : Conn) (e : Errno) (he : Errno.isHard e) (hsf : c.sf = false)
    (x : Round) (hwr : x.wr = true) (hs1 : x.s1 = .err e) :
    ((round r c x).st = .closed ∧ (round r c x).out = c.out) ∨
    round r c x = round r c { x with s1 := .full } :=
  hard_error_closes_aux e he (fun _ => hsf) x hwr hs1

/-- … and the sendfile sender: EBADF (the one errno `MHD_send_sendfile_` does not answer with a
    retry or the fall-back) closes the connection, nothing reaches the wire. -/
theorem sendfile_hard_error_closes (r : Resp) (c : Conn) (e : Errno) (he : Errno.isHardSendfile e)
    (hs : c.st = .normalBodyReady) (hsf : c.sf = true) (x : Round) (hwr : x.wr = true) (hs1 : x.s1 = .err e) :
    ((round r c x).st = .closed ∧ (round r c x).out = c.out) ∨
    round r c x = round r c { x with s1 := .full } :=
  sendfile_hard_closes_aux e he hs hsf x hwr hs1

/-- sendfile(): EAGAIN/EINTR ⇒ retry later; EBADF ⇒ hard error; every other errno ⇒
    nothing sent, fall back to the standard sender and retry (mhd_send.c:1255-1279). -/
theorem sendfile_error_policy (t : Bool) (file : Bytes) (fdOff pos total : Nat) (e : Errno)
    (hoff : pos + fdOff ≤ off64Max) :
    let x := sendSendfile t file fdOff pos total (.err e)
    x.out.wire = [] ∧
    (if e.isEagain || e.isEintr then x.out.ret = .error .again ∧ x.sf = true
     else if e.isEbadf then x.out.ret = .error .badf
     else x.out.ret = .error .again ∧ x.sf = false) := by
  have hno : ¬ off64Max < pos + fdOff := by omega
  simp only [sendSendfile, hno, if_false]
  cases h1 : e.isEagain <;> cases h2 : e.isEintr <;> cases h3 : e.isEbadf <;> simp [SendOut.fail]

/-- Every allocation site of the reply path: a failing allocation closes the connection
    or was not needed in this round (the round ends exactly as with a successful one). -/
theorem alloc_failure_closes_or_unchanged (r : Resp) (c : Conn) (x : Round) :
    (round r c { x with allocW := false, allocI := false }).st = .closed ∨
    round r c { x with allocW := false, allocI := false } =
      round r c { x with allocW := true, allocI := true } :=
  round_alloc r c x

/-- … the header block cannot be built: closed before anything is sent. -/
theorem alloc_failure_at_start (r : Resp) :
    (startReply r false).st = .closed ∧ (startReply r false).out = [] := ⟨rfl, rfl⟩

/-- … the write buffer cannot be grown to the minimum a chunk needs: closed, nothing sent. -/
theorem alloc_failure_chunk_buffer (r : Resp) (c : Conn) (app : AppAns) (alloc : Bool)
    (hs : c.st = .chunkedBodyUnready) (h0 : ¬ (c.tot = 0 ∨ c.rp = c.tot)) (hb : r.wbSize < minChunkBuf) :
    (idleStep r c app alloc).st = .closed ∧ (idleStep r c app alloc).out = c.out :=
  chunk_buffer_failure_closes r c app alloc hs h0 hb

/-- Uploads: for every script of receive results (short reads, EAGAIN, EINTR, errors, EOF)
    and every way the application consumes the data, the bytes handed to the application
    are a prefix of the request body, in order, without gap or duplication. -/
theorem upload_prefix (cap : Nat) (body rest : Bytes) (ops : List UpOp) :
    (upRun (upInit cap body rest) ops).handed <+: body :=
  (upRun_inv ops _ (upInit_inv cap body rest)).handed_prefix

/-- "No duplication or gap" over the whole life of a connection: for a keep-alive connection that
    serves any number of (pipelined) requests, each reply with its own fault script — short writes
    inside the header, inside a chunk header, between iovec elements, in the combined
    header+body send, after the sendfile fall-back, allocation failures, reader errors — the
    concatenation of ALL bytes the socket accepted is a prefix of the concatenation of the reply
    streams; a reply is started only after the previous one is complete. -/
theorem session_prefix (ss : List (Resp × Bool × List Round)) (hw : ∀ s ∈ ss, WF s.1)
    (hx : ∀ s ∈ ss, ∀ x ∈ s.2.2, x.Legal) :
    session ss <+: (ss.map (fun s => stream s.1)).flatten :=
  session_prefix_aux ss hw hx

/-- "Transient failures alone never change what is finally delivered", for unbounded repetition:
    take ANY infinite schedule `f` of transient rounds (EAGAIN, EINTR, short counts, reader not
    ready, socket not writable — in any interleaving, repeated without bound).
    FAIRNESS HYPOTHESIS (the only one): productive rounds keep coming — after every point of the
    schedule there is a later round in which the socket is writable, takes at least one byte and
    the reader is ready.  Then from some point on the reply is complete and exactly `R` has been
    delivered (and by `closed_never_sends` it stays that way). -/
theorem transient_fair_delivers_all (r : Resp) (hw : WFp r) (f : Nat → Round) (hx : ∀ n, (f n).transient)
    (fair : ∀ n, ∃ m, n ≤ m ∧ (f m).good) :
    ∃ N, ∀ n, N ≤ n →
      (run r (startReply r true) ((List.range n).map f)).st = .done ∧
      (run r (startReply r true) ((List.range n).map f)).out = stream r := by
  obtain ⟨N, hN⟩ := fair_reaches f fair (8 * (stream r).length + 1)
  refine ⟨N, fun n hn => ?_⟩
  have hmono := countGood_mono f N n hn
  exact transient_delivers_all r hw _ (fun x hxm => by
    obtain ⟨i, _, rfl⟩ := List.mem_map.mp hxm
    exact hx i) (by omega)

/-- Release exactly once, for EVERY fault script: while the reply is in progress nothing has been
    notified or released; after an error close there is exactly one completion notification
    (WITH_ERROR — or COMPLETED_OK when a reader of the `failEos` kind ended the body early by
    END_OF_STREAM, which is what try_ready_normal_body reports —) iff the request had been presented
    to the application, the response reference
    has been dropped exactly once, the pool destroyed exactly once, the connection inserted into
    the clean-up list at most once; after a completed reply one notification iff presented
    (COMPLETED_OK, or WITH_ERROR for an automatic error reply), the response reference dropped
    exactly once, the pool reset (keep-alive) or destroyed — exactly one of the two, once. -/
theorem release_exactly_once (r : Resp) (allocStart : Bool) (xs : List Round) :
    let c := run r (startReply r allocStart) xs
    (c.st ≠ .closed → c.st ≠ .done →
      c.bk.notes = [] ∧ c.bk.aware = r.aware ∧ c.bk.respHeld = true ∧ c.bk.respDrops = 0 ∧ c.bk.poolLive = true ∧
      c.bk.poolDestroys = 0 ∧ c.bk.poolResets = 0 ∧ c.bk.cstClosed = false ∧ c.bk.cleanups = 0 ∧ c.bk.inCleanup = false) ∧
    (c.st = .closed → ∃ t, (t = Term.withError ∨ (r.failEos = true ∧ t = Term.completedOk)) ∧
      c.bk.notes = (if r.aware then [t] else []) ∧ c.bk.aware = false ∧
      c.bk.respHeld = false ∧ c.bk.respDrops = 1 ∧ c.bk.poolLive = false ∧ c.bk.poolDestroys = 1 ∧
      c.bk.poolResets = 0 ∧ c.bk.cstClosed = true ∧ c.bk.cleanups = (if c.bk.inCleanup then 1 else 0)) ∧
    (c.st = .done →
      c.bk.notes.length = (if r.aware then 1 else 0) ∧
      (∀ t ∈ c.bk.notes, t = Term.completedOk ∨ (t = Term.withError ∧ r.stopErr = true ∧ r.reuse = false)) ∧
      c.bk.aware = false ∧ c.bk.respHeld = false ∧ c.bk.respDrops = 1 ∧
      c.bk.poolDestroys + c.bk.poolResets = 1 ∧ c.bk.poolLive = decide (c.bk.poolResets = 1) ∧
      c.bk.cstClosed = decide (c.bk.poolDestroys = 1) ∧
      c.bk.cleanups = (if c.bk.inCleanup then 1 else 0) ∧ (c.bk.inCleanup = true → c.bk.cstClosed = true)) := by
  have hb := run_book_inv xs _ (start_book r allocStart)
  exact ⟨fun h1 h2 => hb.live_counts (fun hf => hf.elim h1 h2), hb.closed_counts, hb.done_counts⟩

/-- After a permanent failure of a socket call — in ANY state of the reply, after ANY history of
    faults — the connection is closed, nothing of that call reaches the wire, completion is
    notified exactly once (iff the request was presented to the application), the response
    reference is dropped exactly once, the pool is destroyed exactly once, the connection is
    put on the clean-up list exactly once; and whatever rounds `ys` follow change none of this:
    no further byte is sent.  (Or the round made no system call at all, then the answer is
    irrelevant.)  `Permanent c e`: what the code treats as permanent in state `c` — for the
    sendfile sender only EBADF (`sendfile_error_policy`), for the standard senders every errno not
    mapped to "try again" (ECONNRESET, EPIPE, ENOTCONN, EINVAL, ENOMEM, EBADF, …). -/
theorem permanent_failure_releases_once (r : Resp) (allocStart : Bool) (xs : List Round) (x : Round)
    (e : Errno) (hwr : x.wr = true) (hs1 : x.s1 = .err e) (ys : List Round)
    (he : Permanent (run r (startReply r allocStart) xs) e) :
    let c := run r (startReply r allocStart) xs
    let c' := run r (round r c x) ys
    round r c x = round r c { x with s1 := .full } ∨
    (c'.st = .closed ∧ c'.out = c.out ∧
     (∃ t, (t = Term.withError ∨ (r.failEos = true ∧ t = Term.completedOk)) ∧
           c'.bk.notes = (if r.aware then [t] else [])) ∧ c'.bk.aware = false ∧
     c'.bk.respHeld = false ∧ c'.bk.respDrops = 1 ∧ c'.bk.poolLive = false ∧ c'.bk.poolDestroys = 1 ∧
     c'.bk.poolResets = 0 ∧ c'.bk.inCleanup = true ∧ c'.bk.cleanups = 1) := by
  intro c c'
  rcases permanent_closes_aux (r := r) (c := c) e he x hwr hs1 with ⟨hst, hout⟩ | hsame
  · right
    have hb : Book r c := run_book_inv xs _ (start_book r allocStart)
    obtain ⟨t, ht, hbk⟩ := round_closed_bk hb x hst
    have ht' : t = Term.withError ∨ (r.failEos = true ∧ t = Term.completedOk) := by
      rcases ht with ht | ht
      · exact Or.inl ht
      · unfold readerTerm at ht
        cases hf : r.failEos
        · left; rw [ht, hf]; rfl
        · right; exact ⟨rfl, by rw [ht, hf]; rfl⟩
    have hfin : c'.st = .closed ∧ c'.out = c.out ∧ c'.bk = ((Bk.init r.aware).close t).fin := by
      rcases run_final (r := r) ys (round r c x) (Or.inl hst) with e' | e'
      · show (run r (round r c x) ys).st = _ ∧ (run r (round r c x) ys).out = _ ∧ (run r (round r c x) ys).bk = _
        rw [e']; exact ⟨hst, hout, hbk⟩
      · show (run r (round r c x) ys).st = _ ∧ (run r (round r c x) ys).out = _ ∧ (run r (round r c x) ys).bk = _
        rw [e', idleClosed_st, idleClosed_out, idleClosed_bk, hbk]
        exact ⟨hst, hout, Bk.fin_idem _⟩
    obtain ⟨h1, h2, h3⟩ := hfin
    refine ⟨h1, h2, ⟨t, ht', ?_⟩, ?_⟩
    · rw [h3]; cases r.aware <;> cases t <;> decide
    · rw [h3]; cases r.aware <;> cases t <;> decide
  · left; exact hsame

/-- A content reader that ends the body before the declared size (known size, no chunking) —
    by MHD_CONTENT_READER_END_WITH_ERROR, or prematurely by MHD_CONTENT_READER_END_OF_STREAM
    (`r.failEos`) —: try_ready_normal_body closes the connection at once, sends nothing more, records
    the position reached as the size, and reports WITH_ERROR resp. COMPLETED_OK (the code's choice
    for END_OF_STREAM); the response reference and the pool go exactly once (`Bk.close`). -/
theorem reader_failure_closes (r : Resp) (c : Conn) (alloc : Bool) (hk : r.kind = .callback)
    (h0 : ¬ (c.tot = 0 ∨ c.rp = c.tot)) (hwin : ¬ (c.ds ≤ c.rp ∧ c.rp < c.dz + c.ds)) (hsf : c.sf = false) :
    let c' := (tryReadyNormalBody r c .err alloc).1
    (tryReadyNormalBody r c .err alloc).2 = false ∧ c'.st = .closed ∧ c'.out = c.out ∧ c'.tot = c.rp ∧
    c'.bk = c.bk.close (if r.failEos then Term.completedOk else Term.withError) := by
  have hsf' : ¬ c.sf = true := by rw [hsf]; decide
  simp only [tryReadyNormalBody, h0, hk, hwin, hsf', if_false, crcCall]
  exact ⟨rfl, rfl, rfl, rfl, rfl⟩

/-- A reply that ended without delivering the whole announced stream (Content-Length not met: reader
    failure, premature END_OF_STREAM, permanent socket error, allocation failure) is NEVER followed
    by a kept-alive connection: the only final state with less than `R` on the wire is `closed`,
    whose C state is CLOSED, pool destroyed, never reset for a next request (`session` starts no
    further reply); and what was delivered is a prefix of header ++ content. -/
theorem truncated_reply_never_kept (r : Resp) (hw : WF r) (allocStart : Bool) (xs : List Round)
    (hx : ∀ x ∈ xs, x.Legal) :
    let c := run r (startReply r allocStart) xs
    (c.st = .closed ∨ c.st = .done) → c.out ≠ stream r →
    c.st = .closed ∧ c.out <+: stream r ∧ c.bk.cstClosed = true ∧ c.bk.poolLive = false ∧
    c.bk.poolDestroys = 1 ∧ c.bk.poolResets = 0 ∧ c.bk.respDrops = 1 ∧
    c.bk.notes.length = (if r.aware then 1 else 0) := by
  intro c hfin hne
  have hinv := run_inv hw xs (startReply r allocStart) (start_inv hw allocStart) hx
  have hcl : c.st = .closed := by
    rcases hfin with h | h
    · exact h
    · exact absurd (done_delivers_all r hw allocStart xs hx h) hne
  obtain ⟨t, _, h1, _, _, h4, h5, h6, h7, h8, _⟩ := (run_book_inv xs _ (start_book r allocStart)).closed_counts hcl
  refine ⟨hcl, hinv.pfx, h8, h5, h6, h7, h4, ?_⟩
  show (run r (startReply r allocStart) xs).bk.notes.length = _
  rw [h1]; cases r.aware <;> rfl

/-- Uploads, completion: when nothing of the body remains to be processed, the application has
    received exactly the body — whatever short reads, EAGAIN, EINTR happened on the way. -/
theorem upload_complete (cap : Nat) (body rest : Bytes) (ops : List UpOp)
    (h0 : (upRun (upInit cap body rest) ops).remaining = 0) :
    (upRun (upInit cap body rest) ops).handed = body :=
  (upRun_inv ops _ (upInit_inv cap body rest)).complete h0

/-- Uploads: EAGAIN / EINTR on `recv` change nothing at all … -/
theorem upload_transient_unchanged (u : Up) (e : Errno) (h : (e.isEagain || e.isEintr) = true) :
    upRead u (.err e) = u := by
  have hm : mapRecvErr e = .again := by
    unfold mapRecvErr
    cases h1 : e.isEagain
    · have h2 : e.isEintr = true := by simpa [h1] using h
      simp [h2]
    · simp
  unfold upRead recvAdapter
  simp only [hm, Bool.false_eq_true, if_false]
  split
  · rfl
  · split <;> rfl

/-- … a permanent receive error (reset, …) or the end of the stream closes the read side, and
    after that nothing more is ever handed to the application. -/
theorem upload_closed_stops (u : Up) (h : u.closed = true) (ops : List UpOp) : upRun u ops = u :=
  upRun_closed ops u h

theorem upload_hard_error_closes (u : Up) (e : Errno) (he : mapRecvErr e ≠ .again) (hc : u.closed = false)
    (hsp : u.cap ≠ u.buf.length) :
    (upRead u (.err e)).closed = true ∧ (upRead u (.err e)).handed = u.handed := by
  unfold upRead recvAdapter
  simp only [hc, Bool.false_eq_true, if_false, hsp]
  cases hm : mapRecvErr e <;> first | exact absurd hm he | simp

/-! ### The interim "100 Continue" message (CONTINUE_SENDING) as a send phase of its own

  `Mhd.Model.SendCont`: handle_write sends the rest of the message from the ACCUMULATED offset
  `continue_message_write_offset`, handle_idle switches to BODY_RECEIVING when the accumulated offset
  equals the length.  The reply stream of an `Expect: 100-continue` exchange whose body is held
  back is  interim message ++ final reply. -/

/-- For EVERY fault script of the interim phase: what the socket took is a prefix of the interim
    message — exactly the part before the accumulated offset —, no access behind the message; and
    when the connection has moved on to BODY_RECEIVING exactly the message has been delivered. -/
theorem interim_delivered_prefix (cs : List CRound) :
    let c := contRun contInit cs
    c.out <+: http100Continue ∧ c.fault = false ∧ c.off ≤ http100Continue.length ∧
    (c.st ≠ .closed → c.out = http100Continue.take c.off) ∧
    (c.st = .bodyReceiving → c.out = http100Continue) ∧
    (c.st = .continueSending → c.off < http100Continue.length) := by
  have h := contRun_inv cs contInit contInit_inv
  exact ⟨h.pfx, h.nofault, h.le, h.out, h.complete, h.sending⟩

/-- Transient faults (every short count, EAGAIN, EINTR, socket not writable) never close the
    connection in the interim phase … -/
theorem interim_transient_never_closes (cs : List CRound) (hx : ∀ x ∈ cs, x.transient) :
    (contRun contInit cs).st ≠ .closed :=
  (contRun_progress cs contInit contInit_inv (by decide) hx).1

/-- … and never wedge it: every productive round moves the accumulated offset, so after more than
    `|message| + 1` productive rounds — however interleaved with failures — the connection is in
    BODY_RECEIVING and exactly the message went out. -/
theorem interim_transient_delivers_all (cs : List CRound) (hx : ∀ x ∈ cs, x.transient)
    (hn : http100Continue.length + 1 < countGoodC cs) :
    (contRun contInit cs).st = .bodyReceiving ∧ (contRun contInit cs).out = http100Continue := by
  have hp := contRun_progress cs contInit contInit_inv (by decide) hx
  have hb : (contRun contInit cs).st = .bodyReceiving := by
    rcases hp.2 with h | h
    · exact h
    · rw [cmu_init] at h; omega
  exact ⟨hb, (contRun_inv cs contInit contInit_inv).complete hb⟩

/-- the same for an infinite fair schedule (fairness: productive rounds keep coming) -/
theorem interim_fair_completes (f : Nat → CRound) (hx : ∀ n, (f n).transient)
    (fair : ∀ n, ∃ m, n ≤ m ∧ (f m).good) :
    ∃ N, ∀ n, N ≤ n → (contRun contInit ((List.range n).map f)).st = .bodyReceiving ∧
                      (contRun contInit ((List.range n).map f)).out = http100Continue := by
  obtain ⟨N, hN⟩ := fair_reaches_c f fair (http100Continue.length + 2)
  refine ⟨N, fun n hn => ?_⟩
  have hmono := countGoodC_mono f N n hn
  exact interim_transient_delivers_all _ (fun x hxm => by
    obtain ⟨i, _, rfl⟩ := List.mem_map.mp hxm
    exact hx i) (by omega)

/-- a permanent error in the interim phase closes the connection, nothing of that call is sent,
    and the final reply is never started (`exchangeOut`) -/
theorem interim_hard_error_closes (c : Cont) (hs : c.st = .continueSending) (hle : c.off ≤ http100Continue.length)
    (e : Errno) (he : Errno.isHard e) :
    (contWrite c (.err e)).st = .closed ∧ (contWrite c (.err e)).out = c.out := by
  unfold contWrite
  rw [hs]
  simp only []
  rw [if_neg (by omega), sendData_err]
  unfold Errno.isHard at he
  cases hm : mapSendErr e <;> first | exact absurd hm he | simp [SendOut.fail]

/-- The whole `Expect: 100-continue` exchange, for EVERY fault script of the interim phase and EVERY
    fault script of the final reply: the bytes delivered are a prefix of
    interim message ++ reply stream; the reply is started only after the complete interim message. -/
theorem exchange_delivered_prefix (r : Resp) (hw : WF r) (allocStart : Bool) (cs : List CRound) (xs : List Round)
    (hx : ∀ x ∈ xs, x.Legal) :
    exchangeOut r allocStart cs xs <+: http100Continue ++ stream r := by
  have hc := contRun_inv cs contInit contInit_inv
  have hr := run_inv hw xs (startReply r allocStart) (start_inv hw allocStart) hx
  unfold exchangeOut
  simp only []
  split
  · rename_i hb
    rw [hc.complete hb]
    exact (List.prefix_append_right_inj _).mpr hr.pfx
  · rw [List.append_nil]
    exact List.IsPrefix.trans hc.pfx (List.prefix_append _ _)

/-- Transient failures alone never change what such an exchange finally delivers: with fair
    schedules for both phases, from some point on exactly  interim message ++ R  has been delivered. -/
theorem exchange_fair_delivers_all (r : Resp) (hw : WFp r) (f : Nat → CRound) (g : Nat → Round)
    (hf : ∀ n, (f n).transient) (hg : ∀ n, (g n).transient)
    (fairf : ∀ n, ∃ m, n ≤ m ∧ (f m).good) (fairg : ∀ n, ∃ m, n ≤ m ∧ (g m).good) :
    ∃ N M, ∀ n m, N ≤ n → M ≤ m →
      exchangeOut r true ((List.range n).map f) ((List.range m).map g) = http100Continue ++ stream r := by
  obtain ⟨N, hN⟩ := interim_fair_completes f hf fairf
  obtain ⟨M, hM⟩ := transient_fair_delivers_all r hw g hg fairg
  refine ⟨N, M, fun n m hn hm => ?_⟩
  unfold exchangeOut
  simp only []
  rw [if_pos (hN n hn).1, (hN n hn).2, (hM m hm).2]

/-! ### Non-vacuity -/

/-- a chunked reply from a content reader, 7 body bytes, chunks of at most 3 -/
def exResp : Resp :=
  { hdr := [72, 84, 84, 80, 13, 10, 13, 10], body := [1, 2, 3, 4, 5, 6, 7], kind := .callback, iov := [],
    sizeKnown := false, chunked := true, sendBody := true, footer := [48, 13, 10, 13, 10],
    bufSize := 1024, wbSize := 32768, cbMax := 3, fdOff := 0, sendfile := false, thrPerConn := false,
    noVec := false, nonblk := true }

theorem exResp_wf : WF exResp := by
  refine ⟨by decide, by decide, ?_, ?_, by decide, ?_, ?_, ?_⟩
  · intro h; simp [exResp] at h
  · intro h; simp [exResp] at h
  · intro h; simp [exResp] at h
  · intro h; simp [exResp] at h
  · intro e he; simp [exResp] at he

theorem exResp_wfp : WFp exResp :=
  ⟨exResp_wf, by decide, fun _ => by decide, fun _ => by decide, fun h => by simp [exResp] at h⟩

set_option maxRecDepth 8192 in
/-- short writes, EAGAIN, EINTR and a reader that is not ready at first: the reply still
    arrives complete, and the hypotheses of the theorems above are satisfiable -/
example :
    let xs : List Round :=
      [{ s1 := .short 3 }, { s1 := .err .EAGAIN }, { s1 := .full, appI := .notReady }, { wr := false },
       { s1 := .short 2 }, { s1 := .err .EINTR }, { s1 := .full }, { s1 := .full }, { s1 := .full }, { s1 := .full }]
    (∀ x ∈ xs, x.Legal) ∧ (∀ x ∈ xs, x.transient) ∧ countGood xs = 6 ∧
    (run exResp (startReply exResp true) xs).st = .done ∧
    (run exResp (startReply exResp true) xs).out = stream exResp := by
  decide

/-- a connection reset in the middle: closed, a strict prefix was delivered -/
example :
    let c := run exResp (startReply exResp true) [{ s1 := .full }, { s1 := .short 4 }, { s1 := .err .ECONNRESET }, { s1 := .full }]
    c.st = .closed ∧ c.out.length = 12 ∧ c.out <+: stream exResp := by
  decide

example : Errno.isHard .ECONNRESET ∧ Errno.isHard .EPIPE ∧ ¬ Errno.isHard .EAGAIN ∧ ¬ Errno.isHard .EINTR := by decide

example : (upRun (upInit 8 [1, 2, 3, 4, 5] [9, 9])
    [.read (.data 2), .process 1, .read (.err .EAGAIN), .read (.data 100), .process 100]).handed = [1, 2, 3, 4, 5] := by
  decide

/-- a fair schedule with unbounded repetition of failures: every other round EAGAIN, the rounds in
    between take a single byte -/
def exFair (n : Nat) : Round := if n % 2 = 1 then { s1 := .short 1 } else { s1 := .err .EAGAIN }

example : (∀ n, (exFair n).transient) ∧ (∀ n, ∃ m, n ≤ m ∧ (exFair m).good) := by
  constructor
  · intro n; unfold exFair; split <;> decide
  · intro n
    refine ⟨2 * n + 1, by omega, ?_⟩
    have : (2 * n + 1) % 2 = 1 := by omega
    unfold exFair; rw [if_pos this]; decide

/-- a second reply (static buffer, keep-alive) for the session example -/
def exResp2 : Resp :=
  { hdr := [72, 84, 84, 80, 13, 10, 13, 10], body := [9, 8, 7], kind := .buffer, iov := [],
    sizeKnown := true, chunked := false, sendBody := true, footer := [48, 13, 10, 13, 10],
    bufSize := 1024, wbSize := 32768, cbMax := 0, fdOff := 0, sendfile := false, thrPerConn := false,
    noVec := false, nonblk := true }

set_option maxRecDepth 8192 in
/-- two pipelined replies: the first one complete in spite of a short header+body send, the second one
    reset inside its header: everything the socket took is a strict prefix of `R₁ ++ R₂` -/
example :
    let ss : List (Resp × Bool × List Round) :=
      [(exResp2, true, [{ s1 := .short 9 }, { s1 := .err .EINTR }, { s1 := .full }]),
       (exResp2, true, [{ s1 := .short 2 }, { s1 := .err .ECONNRESET }, { s1 := .full }])]
    session ss = stream exResp2 ++ [72, 84] ∧ (session ss).length = 13 := by
  decide

set_option maxRecDepth 8192 in
/-- a reset in the middle of a reply that the application knows about: closed, one WITH_ERROR
    notification, the response and the pool released once, one clean-up — and nothing moves later -/
example :
    let c := run exResp (startReply exResp true)
      [{ s1 := .full }, { s1 := .short 4 }, { s1 := .err .ECONNRESET }, { s1 := .full }, { s1 := .full }]
    c.st = .closed ∧ c.bk.notes = [Term.withError] ∧ c.bk.respDrops = 1 ∧ c.bk.poolDestroys = 1 ∧
    c.bk.cleanups = 1 ∧ c.bk.respHeld = false ∧ c.bk.poolLive = false := by
  decide

set_option maxRecDepth 8192 in
/-- a complete keep-alive reply: one COMPLETED_OK notification, the pool reset, not destroyed -/
example :
    let c := run exResp2 (startReply exResp2 true) [{ s1 := .full }, { s1 := .full }]
    c.st = .done ∧ c.bk.notes = [Term.completedOk] ∧ c.bk.respDrops = 1 ∧ c.bk.poolDestroys = 0 ∧
    c.bk.poolResets = 1 ∧ c.bk.cleanups = 0 := by
  decide

example : Permanent (run exResp (startReply exResp true) [{ s1 := .full }]) .ECONNRESET ∧
    Errno.isHardSendfile .EBADF ∧ ¬ Errno.isHardSendfile .EINVAL := by decide

example : (upRun (upInit 8 [1, 2, 3] []) [.read (.data 3), .process 3]).remaining = 0 := by decide

example : mapRecvErr .ECONNRESET ≠ .again ∧ ((Errno.EINTR).isEagain || (Errno.EINTR).isEintr) = true := by decide

/-- the interim message cut after 10 bytes, then EAGAIN, then the rest: BODY_RECEIVING is reached and
    exactly the message went out (the accumulated offset, not the count of one call, decides) -/
example :
    let cs : List CRound := [{ s := .short 10 }, { s := .err .EAGAIN }, { wr := false }, { s := .full }]
    (∀ x ∈ cs, x.transient) ∧ (contRun contInit cs).st = .bodyReceiving ∧
    (contRun contInit cs).out = http100Continue ∧ (contRun contInit cs).off = 25 := by decide

def exFairC (n : Nat) : CRound := if n % 2 = 1 then { s := .short 1 } else { s := .err .EINTR }

example : (∀ n, (exFairC n).transient) ∧ (∀ n, ∃ m, n ≤ m ∧ (exFairC m).good) := by
  constructor
  · intro n; unfold exFairC; split <;> decide
  · intro n
    refine ⟨2 * n + 1, by omega, ?_⟩
    have : (2 * n + 1) % 2 = 1 := by omega
    unfold exFairC; rw [if_pos this]; decide

set_option maxRecDepth 8192 in
/-- interim message in two pieces, then the final reply with a short combined header+body send -/
example :
    exchangeOut exResp2 true [{ s := .short 24 }, { s := .short 1 }] [{ s1 := .short 9 }, { s1 := .full }, { s1 := .full }]
      = http100Continue ++ stream exResp2 := by decide

/-- a reset inside the interim message: closed, the final reply is never started -/
example : exchangeOut exResp2 true [{ s := .short 7 }, { s := .err .ECONNRESET }] [{ s1 := .full }] = http100Continue.take 7 := by
  decide

/-- a known-size callback reply (7 bytes announced) whose reader ends by END_OF_STREAM too early -/
def exRespEos : Resp :=
  { hdr := [72, 84, 84, 80, 13, 10, 13, 10], body := [1, 2, 3, 4, 5, 6, 7], kind := .callback, iov := [],
    sizeKnown := true, chunked := false, sendBody := true, footer := [48, 13, 10, 13, 10],
    bufSize := 1024, wbSize := 32768, cbMax := 3, fdOff := 0, sendfile := false, thrPerConn := false,
    noVec := false, nonblk := true, failEos := true }

set_option maxRecDepth 8192 in
/-- three content bytes are sent, then the reader reports END_OF_STREAM: closed (never kept), a strict prefix of
    header ++ content delivered, one completion with the code the library chooses (COMPLETED_OK), response and
    pool released once; a pipelined follower is not served on that connection -/
example :
    let xs : List Round := [{ s1 := .full }, { s1 := .full }, { s1 := .full, appW := .err, appI := .err }, { s1 := .full }]
    let c := run exRespEos (startReply exRespEos true) xs
    c.st = .closed ∧ c.out = exRespEos.hdr ++ [1, 2, 3] ∧ c.out ≠ stream exRespEos ∧
    c.bk.notes = [Term.completedOk] ∧ c.bk.respDrops = 1 ∧ c.bk.poolDestroys = 1 ∧ c.bk.poolResets = 0 ∧
    session [(exRespEos, true, xs), (exResp2, true, [{ s1 := .full }])] = exRespEos.hdr ++ [1, 2, 3] := by
  decide

end Mhd.C07
