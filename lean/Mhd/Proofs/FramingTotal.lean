/-
  C03 helper lemmas, part 11: `decideBody` against the strict reference decision `Framer.bodyKind`
  on **every** field list (no canonicity, no restriction on names, values, order or multiplicity).
-/
import Mhd.Proofs.FramingDecide
import Mhd.Proofs.FramingConn
namespace Mhd.Framing
open Mhd.Gen.Framing Framer

theorem validDec_iff (v : Bytes) :
    (v.isEmpty || ! v.all isDigit || decide (decValue v ≥ sizeUnknown)) = false ↔ ValidDec v := by
  unfold ValidDec
  constructor
  · intro h
    simp only [Bool.or_eq_false_iff, Bool.not_eq_false', decide_eq_false_iff_not] at h
    obtain ⟨⟨h1, h2⟩, h3⟩ := h
    refine ⟨?_, ?_, by omega⟩
    · intro e; subst e; simp at h1
    · rw [List.all_eq_true] at h2; exact h2
  · intro ⟨hne, hd, hlt⟩
    have a1 : v.isEmpty = false := by cases v with | nil => exact absurd rfl hne | cons _ _ => rfl
    have a2 : v.all isDigit = true := by rw [List.all_eq_true]; exact hd
    have a3 : ¬ (decValue v ≥ sizeUnknown) := by omega
    simp [a1, a2, a3]

/-- Transfer-Encoding: chunked and Content-Length, each exactly once -/
def TeClPair (fs : List Field) : Prop :=
  ∃ te v, fieldValues fs hdrTransferEncoding = [te] ∧ eqCI te tokChunked = true ∧
    fieldValues fs hdrContentLength = [v]

/-- what `decideBody` must be, given the reference verdict -/
def AgreesWithRef (lvl : Int) (http11 : Bool) (fs : List Field) : Prop :=
  match bodyKind fs with
  | .none => decideBody lvl http11 fs = .none
  | .len n => decideBody lvl http11 fs = .len n
  | .chunked => decideBody lvl http11 fs = .chunked (! http11)
  | .invalid =>
    (TeClPair fs ∧ ¬ teClRejectFromLvl ≤ lvl ∧ decideBody lvl http11 fs = .chunked true) ∨
    decideBody lvl http11 fs = .reject httpBadRequest ∨ decideBody lvl http11 fs = .reject httpContentTooLarge

theorem decideBody_agrees (lvl : Int) (http11 : Bool) (fs : List Field) (hh : HostOK lvl http11 fs) :
    AgreesWithRef lvl http11 fs := by
  unfold AgreesWithRef bodyKind
  cases hte : fieldValues fs hdrTransferEncoding with
  | nil =>
    cases hcl : fieldValues fs hdrContentLength with
    | nil => exact decideBody_none lvl http11 fs hh hte hcl
    | cons v r =>
      cases r with
      | nil =>
        by_cases hv : ValidDec v
        · have := (validDec_iff v).mpr hv
          simp only [this, Bool.false_eq_true, if_false]
          exact decideBody_len lvl http11 fs hh v hte hcl hv
        · have : (v.isEmpty || ! v.all isDigit || decide (decValue v ≥ sizeUnknown)) = true := by
            cases hc : (v.isEmpty || ! v.all isDigit || decide (decValue v ≥ sizeUnknown)) with
            | true => rfl
            | false => exact absurd ((validDec_iff v).mp hc) hv
          simp only [this, if_true]
          exact Or.inr (decideBody_bad_cl lvl http11 fs v hte hcl hv)
      | cons v2 r2 =>
        exact Or.inr (Or.inl (decideBody_multi_cl lvl http11 fs (by rw [hcl]; simp)))
  | cons te r =>
    cases r with
    | nil =>
      cases hc : eqCI te tokChunked with
      | false =>
        have hrej := decideBody_te_not_chunked lvl http11 fs te [] hte hc
        cases hcl : fieldValues fs hdrContentLength with
        | nil => simp only [hc, Bool.false_eq_true, if_false]; exact Or.inr (Or.inl hrej)
        | cons v r2 => exact Or.inr (Or.inl hrej)
      | true =>
        cases hcl : fieldValues fs hdrContentLength with
        | nil => simp only [hc, if_true]; exact decideBody_chunked lvl http11 fs hh te hte hc hcl
        | cons v r2 =>
          cases r2 with
          | nil =>
            by_cases hl : teClRejectFromLvl ≤ lvl
            · exact Or.inr (Or.inl (decideBody_te_cl lvl http11 fs (by rw [hte]; simp) (by rw [hcl]; simp) hl))
            · exact Or.inl ⟨⟨te, v, hte, hc, hcl⟩, hl, decideBody_te_cl_lenient lvl http11 fs hh te v hte hc hcl hl⟩
          | cons v2 r3 =>
            exact Or.inr (Or.inl (decideBody_multi_cl lvl http11 fs (by rw [hcl]; simp)))
    | cons te2 r2 =>
      have hrej := decideBody_multi_te lvl http11 fs (by rw [hte]; simp)
      cases hcl : fieldValues fs hdrContentLength <;> exact Or.inr (Or.inl hrej)

/-- when the Host rule fires the request is refused whatever the framing fields say -/
theorem decideBody_host_rule (lvl : Int) (http11 : Bool) (fs : List Field) (hh : ¬ HostOK lvl http11 fs) :
    decideBody lvl http11 fs = .reject httpBadRequest := by
  unfold HostOK at hh
  have hh' := Classical.not_not.mp hh
  unfold decideBody; rw [if_pos hh']

/-- a head whose framing fields are refused: error reply, read buffer dropped, connection tainted —
    whatever head parser delivered the field list -/
theorem reject_no_resync [HeadParser] (lvl : Int) (app : App) (s : St) (st : Nat) (hs : s.state = .headersReceived)
    (wf : FlagsWF s) (hd : decideBody lvl s.head.http11 s.head.fields = .reject st) :
    idleStep lvl app s = some (errorReply s st) ∧ NoReparse (errorReply s st) ∧ (errorReply s st).buf = [] := by
  refine ⟨?_, errorReply_props s st wf, ?_⟩
  · unfold idleStep; rw [hs]; simp only [hd]
  · unfold errorReply; split <;> rfl

/-- a head the head parser refuses: error reply (or close without reply), read buffer dropped,
    never `init` again -/
theorem refuse_no_resync [P : HeadParser] (lvl : Int) (app : App) (s : St) (x : Option Nat) (hs : s.state = .init)
    (wf : FlagsWF s) (hp : P.head s.buf = .refuse x) :
    idleStep lvl app s = some (refuseWith s x) ∧ (refuseWith s x).buf = [] ∧
    (∀ st, x = some st → NoReparse (refuseWith s x)) ∧ (x = none → (refuseWith s x).state = .closed) := by
  refine ⟨?_, ?_, ?_, ?_⟩
  · unfold idleStep; rw [hs]; simp only [hp]
  · cases x with
    | none => rfl
    | some st => show (errorReply s st).buf = []; unfold errorReply; split <;> rfl
  · intro st hx; subst hx; exact errorReply_props s st wf
  · intro hx; subst hx; rfl

end Mhd.Framing
