/-
  C03 helper lemmas, part 4: every decision of the chunk decoder other than "need more data"
  is stable when more bytes are appended, and consumes between 1 and `available` bytes.
-/
import Mhd.Proofs.FramingHead
namespace Mhd.Framing
open Mhd.Gen.Framing

/-! ### the chunk decoder: decisions other than "need more data" are stable under more input -/

theorem countWhile_le (p : UInt8 → Bool) (b : Bytes) : countWhile p b ≤ b.length := by
  induction b with
  | nil => simp [countWhile]
  | cons c t ih => unfold countWhile; split <;> simp <;> omega

theorem countWhile_append (p : UInt8 → Bool) (b e : Bytes) (h : countWhile p b < b.length) :
    countWhile p (b ++ e) = countWhile p b := by
  induction b with
  | nil => simp [countWhile] at h
  | cons c t ih =>
    simp only [List.cons_append]
    unfold countWhile at h ⊢
    cases hp : p c
    · simp
    · simp only [hp, if_true, List.length_cons] at h ⊢
      rw [ih (by omega)]

theorem strxAux_le (t : Bytes) (res i : Nat) : (strxAux t res i).1 ≤ i + t.length := by
  induction t generalizing res i with
  | nil => simp [strxAux]
  | cons c t ih =>
    unfold strxAux
    cases hexVal c with
    | none => simp
    | some d =>
      simp only
      split
      · simp
      · have := ih (res * 16 + d) (i + 1); simp only [List.length_cons]; omega

theorem strxAux_append (t e : Bytes) (res i : Nat) (h : (strxAux t res i).1 ≠ i + t.length) :
    strxAux (t ++ e) res i = strxAux t res i := by
  induction t generalizing res i with
  | nil => simp [strxAux] at h
  | cons c t ih =>
    simp only [List.cons_append]
    unfold strxAux at h ⊢
    cases hv : hexVal c with
    | none => rfl
    | some d =>
      simp only [hv] at h ⊢
      split
      · rfl
      · rename_i ho
        simp only [ho, Bool.false_eq_true, if_false, List.length_cons] at h
        exact ih _ _ (by omega)

theorem strx_le (b : Bytes) : (strx b).1 ≤ b.length := by
  have := strxAux_le b 0 0; simpa [strx] using this

theorem strx_append (b e : Bytes) (h : (strx b).1 ≠ b.length) : strx (b ++ e) = strx b := by
  unfold strx at *; exact strxAux_append b e 0 0 (by simpa using h)

theorem drop_cons_length {b : Bytes} {k : Nat} {c : UInt8} {r : Bytes} (h : b.drop k = c :: r) :
    b.length = k + 1 + r.length := by
  have := congrArg List.length h
  simp only [List.length_drop, List.length_cons] at this
  omega

theorem drop_append_cons {b e : Bytes} {k : Nat} {c : UInt8} {r : Bytes} (h : b.drop k = c :: r) :
    (b ++ e).drop k = c :: (r ++ e) := by
  have hl := drop_cons_length h
  rw [List.drop_append_of_le_length (by omega), h]; rfl

theorem extAct_append (bl : Bool) (k size : Nat) (tl e : Bytes) (h : extAct bl k size tl ≠ .needMore) :
    extAct bl k size (tl ++ e) = extAct bl k size tl := by
  unfold extAct at h ⊢
  simp only at h ⊢
  cases hd : tl.drop (countWhile isWs tl) with
  | nil => simp [hd] at h
  | cons c after =>
    have hlen := drop_cons_length hd
    have hw : countWhile isWs (tl ++ e) = countWhile isWs tl := countWhile_append _ _ _ (by omega)
    rw [hw, drop_append_cons hd]
    simp only [hd] at h ⊢
    by_cases hc : (c == SEMI) = true
    · simp only [hc, if_true] at h ⊢
      cases ha : after.drop (countWhile (fun x => x != LF) after) with
      | nil => simp [ha] at h
      | cons c2 r2 =>
        have hlen2 := drop_cons_length ha
        have he : countWhile (fun x => x != LF) (after ++ e) = countWhile (fun x => x != LF) after :=
          countWhile_append _ _ _ (by omega)
        rw [he, drop_append_cons ha]
        simp only
        have hg : (if countWhile (fun x => x != LF) after = 0 then SEMI
              else (after ++ e).getD (countWhile (fun x => x != LF) after - 1) 0)
            = (if countWhile (fun x => x != LF) after = 0 then SEMI
              else after.getD (countWhile (fun x => x != LF) after - 1) 0) := by
          by_cases hz : countWhile (fun x => x != LF) after = 0
          · simp [hz]
          · simp only [hz, if_false, List.getD_eq_getElem?_getD]
            rw [List.getElem?_append_left (by omega)]
        rw [hg]
    · have hc' : (c == SEMI) = false := by simpa using hc
      simp only [hc', Bool.false_eq_true, if_false]

theorem extAct_bound (bl : Bool) (k size : Nat) (tl : Bytes) (len sz : Nat)
    (h : extAct bl k size tl = .line len sz) : k < len ∧ len ≤ k + tl.length ∧ sz = size := by
  unfold extAct at h
  simp only at h
  cases hd : tl.drop (countWhile isWs tl) with
  | nil => simp [hd] at h
  | cons c after =>
    have hlen := drop_cons_length hd
    simp only [hd] at h
    by_cases hc : (c == SEMI) = true
    · simp only [hc, if_true] at h
      cases ha : after.drop (countWhile (fun x => x != LF) after) with
      | nil => simp [ha] at h
      | cons c2 r2 =>
        have hlen2 := drop_cons_length ha
        simp only [ha] at h
        repeat' split at h
        all_goals first | (cases h; omega) | cases h
    · have hc' : (c == SEMI) = false := by simpa using hc
      simp [hc'] at h

theorem extAct_no_term (bl : Bool) (k size : Nat) (tl : Bytes) :
    (∀ n, extAct bl k size tl ≠ .term n) ∧ (∀ n, extAct bl k size tl ≠ .data n) := by
  unfold extAct
  simp only
  constructor <;> intro n <;> (repeat' split) <;> simp

theorem sizeLineAct_append (bl bw : Bool) (b e : Bytes) (h : sizeLineAct bl bw b ≠ .needMore) :
    sizeLineAct bl bw (b ++ e) = sizeLineAct bl bw b := by
  unfold sizeLineAct at h ⊢
  simp only at h ⊢
  have hle := strx_le b
  by_cases hk : (strx b).1 = b.length
  · simp [hk] at h
  · have hsx := strx_append b e hk
    have hk2 : ¬ (strx b).1 = (b ++ e).length := by simp only [List.length_append]; omega
    rw [hsx]
    simp only [hk, hk2, if_false] at h ⊢
    by_cases hz : (strx b).1 = 0
    · simp only [hz, if_true] at h ⊢
      cases b with
      | nil => simp at hk; omega
      | cons c t => rfl
    · simp only [hz, if_false] at h ⊢
      cases hd : b.drop (strx b).1 with
      | nil => simp [hd] at h
      | cons c rest =>
        rw [drop_append_cons hd]
        simp only [hd] at h ⊢
        by_cases hx : (c == SEMI || bw && (c == SP || c == HT)) = true
        · simp only [hx, if_true] at h ⊢
          have := extAct_append bl (strx b).1 (strx b).2 (c :: rest) e h
          simpa using this
        · have hx' : (c == SEMI || bw && (c == SP || c == HT)) = false := by simpa using hx
          simp only [hx', Bool.false_eq_true, if_false] at h ⊢
          cases rest with
          | cons d r => rfl
          | nil =>
            simp only at h
            by_cases hl : (bl && c == LF) = true
            · simp only [List.nil_append, hl, if_true]
              cases e with
              | nil => simp [hl]
              | cons d r =>
                simp only
                have hcl : (c == LF) = true := by simp only [Bool.and_eq_true] at hl; exact hl.2
                have : (c == CR && d == LF) = false := by
                  have : c = LF := by simpa using hcl
                  subst this; simp [LF, CR]
                simp [this, hl]
            · have hl' : (bl && c == LF) = false := by simpa using hl
              simp [hl'] at h

theorem sizeLineAct_bound (bl bw : Bool) (b : Bytes) (len sz : Nat)
    (h : sizeLineAct bl bw b = .line len sz) : 0 < len ∧ len ≤ b.length := by
  unfold sizeLineAct at h
  simp only at h
  have hle := strx_le b
  by_cases hk : (strx b).1 = b.length
  · simp [hk] at h
  · simp only [hk, if_false] at h
    by_cases hz : (strx b).1 = 0
    · simp only [hz, if_true] at h
      cases b with
      | nil => simp at h
      | cons c t => simp only at h; split at h <;> cases h
    · simp only [hz, if_false] at h
      cases hd : b.drop (strx b).1 with
      | nil => simp [hd] at h
      | cons c rest =>
        have hlen := drop_cons_length hd
        simp only [hd] at h
        split at h
        · have := extAct_bound bl _ _ _ len sz h
          simp only [List.length_cons] at this
          omega
        · cases rest with
          | cons d r =>
            simp only at h
            simp only [List.length_cons] at hlen
            repeat' split at h
            all_goals first | (cases h; omega) | cases h
          | nil =>
            simp only at h
            simp only [List.length_nil] at hlen
            repeat' split at h
            all_goals first | (cases h; omega) | cases h

theorem sizeLineAct_no_term (bl bw : Bool) (b : Bytes) :
    (∀ n, sizeLineAct bl bw b ≠ .term n) ∧ (∀ n, sizeLineAct bl bw b ≠ .data n) := by
  unfold sizeLineAct
  simp only
  constructor <;> intro n <;> (repeat' split) <;>
    first | (simp; done) | exact (extAct_no_term _ _ _ _).1 n | exact (extAct_no_term _ _ _ _).2 n

theorem chunkAct_append (lvl : Int) (cur off : Nat) (b e : Bytes) (h : chunkAct lvl cur off b ≠ .needMore)
    (hd : ∀ n, chunkAct lvl cur off b ≠ .data n) :
    chunkAct lvl cur off (b ++ e) = chunkAct lvl cur off b := by
  unfold chunkAct at h hd ⊢
  simp only at h hd ⊢
  cases b with
  | nil => simp at h
  | cons c rest =>
    simp only [List.cons_append] at h hd ⊢
    by_cases h1 : off = cur ∧ cur ≠ 0
    · simp only [if_pos h1] at h ⊢
      cases rest with
      | cons d r => rfl
      | nil =>
        simp only at h
        by_cases hl : (decide (lvl ≤ bareLfMaxLvl) && c == LF) = true
        · simp only [List.nil_append, hl, if_true]
          cases e with
          | nil => simp [hl]
          | cons d r =>
            simp only
            have hcl : (c == LF) = true := by simp only [Bool.and_eq_true] at hl; exact hl.2
            have : (c == CR && d == LF) = false := by
              have : c = LF := by simpa using hcl
              subst this; simp [LF, CR]
            simp [this, hl]
        · have hl' : (decide (lvl ≤ bareLfMaxLvl) && c == LF) = false := by simpa using hl
          simp [hl'] at h
    · simp only [if_neg h1] at h hd ⊢
      by_cases h2 : cur ≠ 0
      · simp only [if_pos h2] at hd
        exact absurd rfl (hd _)
      · simp only [if_neg h2] at h ⊢
        have := sizeLineAct_append _ _ (c :: rest) e h
        simpa using this

theorem chunkAct_data (lvl : Int) (cur off : Nat) (b : Bytes) (n : Nat) (h : chunkAct lvl cur off b = .data n) :
    ¬ (off = cur ∧ cur ≠ 0) ∧ cur ≠ 0 ∧ b ≠ [] ∧ n = min (cur - off) b.length := by
  unfold chunkAct at h
  simp only at h
  cases b with
  | nil => simp at h
  | cons c rest =>
    simp only at h
    by_cases h1 : off = cur ∧ cur ≠ 0
    · simp only [if_pos h1] at h
      repeat' split at h
      all_goals cases h
    · simp only [if_neg h1] at h
      by_cases h2 : cur ≠ 0
      · simp only [if_pos h2] at h
        cases h
        exact ⟨h1, h2, by simp, rfl⟩
      · simp only [if_neg h2] at h
        exact absurd h ((sizeLineAct_no_term _ _ _).2 n)

theorem chunkAct_data_of (lvl : Int) (cur off : Nat) (b : Bytes) (h1 : ¬ (off = cur ∧ cur ≠ 0)) (h2 : cur ≠ 0)
    (hb : b ≠ []) : chunkAct lvl cur off b = .data (min (cur - off) b.length) := by
  unfold chunkAct
  cases b with
  | nil => exact absurd rfl hb
  | cons c rest => simp only [if_neg h1, if_pos h2]

theorem chunkAct_term (lvl : Int) (cur off : Nat) (b : Bytes) (n : Nat) (h : chunkAct lvl cur off b = .term n) :
    0 < n ∧ n ≤ b.length ∧ off = cur ∧ cur ≠ 0 := by
  unfold chunkAct at h
  simp only at h
  cases b with
  | nil => simp at h
  | cons c rest =>
    simp only at h
    by_cases h1 : off = cur ∧ cur ≠ 0
    · simp only [if_pos h1] at h
      cases rest with
      | cons d r =>
        simp only at h
        repeat' split at h
        all_goals first | (cases h; simp [h1.1, h1.2]) | cases h
      | nil =>
        simp only at h
        repeat' split at h
        all_goals first | (cases h; simp [h1.1, h1.2]) | cases h
    · simp only [if_neg h1] at h
      by_cases h2 : cur ≠ 0
      · simp only [if_pos h2] at h; cases h
      · simp only [if_neg h2] at h
        exact absurd h ((sizeLineAct_no_term _ _ _).1 n)

theorem chunkAct_line (lvl : Int) (cur off : Nat) (b : Bytes) (len sz : Nat)
    (h : chunkAct lvl cur off b = .line len sz) : 0 < len ∧ len ≤ b.length := by
  unfold chunkAct at h
  simp only at h
  cases b with
  | nil => simp at h
  | cons c rest =>
    simp only at h
    by_cases h1 : off = cur ∧ cur ≠ 0
    · simp only [if_pos h1] at h
      repeat' split at h
      all_goals cases h
    · simp only [if_neg h1] at h
      by_cases h2 : cur ≠ 0
      · simp only [if_pos h2] at h; cases h
      · simp only [if_neg h2] at h
        exact sizeLineAct_bound _ _ _ len sz h
end Mhd.Framing
