/-
  The header-line parser on the reference encoding: walks of `try_get_value` (`tryGetValueGo`) and
  `MHD_str_equal_caseless_n_` over the lines `encPartHeaders` writes, giving the `hdr` clause of `PartOk`
  from purely syntactic conditions (`PartPlain`), and `multipart_roundtrip_syntactic`.
-/
import Mhd.Proofs.PPMxRt
import Mhd.Proofs.PPTok
namespace Mhd.PP

theorem eqCaselessN_app : ∀ (k : Nat) (a b r : Bytes), k ≤ b.length →
    eqCaselessN a (b ++ r) k = eqCaselessN a b k
  | 0, a, b, r, _ => by simp [eqCaselessN]
  | k + 1, a, [], r, h => by simp at h
  | k + 1, [], c2 :: t2, r, _ => by simp [eqCaselessN]
  | k + 1, c1 :: t1, c2 :: t2, r, h => by
    simp only [List.cons_append, eqCaselessN]
    rw [eqCaselessN_app k t1 t2 r (by simpa using h)]

theorem eqCaselessN_mono : ∀ (j k : Nat) (a s : Bytes), j ≤ k → eqCaselessN a s k = true → eqCaselessN a s j = true
  | 0, _, _, _, _, _ => by simp [eqCaselessN]
  | j + 1, 0, _, _, h, _ => by omega
  | j + 1, k + 1, a, [], _, h => by simpa [eqCaselessN] using h
  | j + 1, k + 1, [], c :: t, _, h => by simp [eqCaselessN] at h
  | j + 1, k + 1, c1 :: t1, c2 :: t2, hjk, h => by
    simp only [eqCaselessN] at h ⊢
    by_cases hc : eqCI c1 c2 = true
    · simp only [hc, if_true] at h ⊢
      exact eqCaselessN_mono j k t1 t2 (by omega) h
    · simp [hc] at h

/-- a line that starts with the concrete text `b` does not match the header name `a` when already the
    first `j` characters differ -/
theorem eqCaselessN_pfx_false (a b r : Bytes) (j k : Nat) (hj : j ≤ b.length) (hjk : j ≤ k)
    (h : eqCaselessN a b j = false) : eqCaselessN a (b ++ r) k = false := by
  cases hh : eqCaselessN a (b ++ r) k with
  | false => rfl
  | true =>
    have := eqCaselessN_mono j k a (b ++ r) hjk hh
    rw [eqCaselessN_app j a b r hj, h] at this
    cases this

def bDispPfx : Bytes := [67, 111, 110, 116, 101, 110, 116, 45, 68, 105, 115, 112, 111, 115, 105, 116, 105, 111, 110, 58, 32]
def bFormName : Bytes := [102, 111, 114, 109, 45, 100, 97, 116, 97, 59, 32, 110, 97, 109, 101, 61, 34]
def bFilename : Bytes := [59, 32, 102, 105, 108, 101, 110, 97, 109, 101, 61, 34]
def bCT : Bytes := [67, 111, 110, 116, 101, 110, 116, 45, 84, 121, 112, 101, 58, 32]
def bCTE : Bytes := [67, 111, 110, 116, 101, 110, 116, 45, 84, 114, 97, 110, 115, 102, 101, 114, 45, 69, 110, 99, 111, 100, 105, 110, 103, 58, 32]

theorem ofStr_disp : ofStr "Content-Disposition: form-data; name=\"" = bDispPfx ++ bFormName := by decide +kernel
theorem ofStr_fn : ofStr "; filename=\"" = bFilename := by decide +kernel
theorem ofStr_ct : ofStr "Content-Type: " = bCT := by decide +kernel
theorem ofStr_cte : ofStr "Content-Transfer-Encoding: " = bCTE := by decide +kernel

theorem sName_eq : sName = [110, 97, 109, 101] := by decide +kernel
theorem sFilename_eq : sFilename = [102, 105, 108, 101, 110, 97, 109, 101] := by decide +kernel

/-- no NUL, quote, CR, LF -/
def Plain (s : Bytes) : Prop := ∀ c ∈ s, c ≠ 0 ∧ c ≠ cQuote ∧ c ≠ cCR ∧ c ≠ cLF
/-- no NUL, CR, LF -/
def NoCtl (s : Bytes) : Prop := ∀ c ∈ s, c ≠ 0 ∧ c ≠ cCR ∧ c ≠ cLF

theorem tgv_inq (key : Bytes) : ∀ (s T : Bytes) (prev : Option UInt8), (∀ c ∈ s, c ≠ cQuote) →
    tryGetValueGo key true prev (s ++ cQuote :: T) = tryGetValueGo key false (some cQuote) T
  | [], T, prev, _ => by simp [tryGetValueGo]
  | c :: s, T, prev, h => by
    have hc : c ≠ cQuote := h c (by simp)
    simp only [List.cons_append, tryGetValueGo]
    have : (c != cQuote) = true := by simpa using hc
    rw [this]
    exact tgv_inq key s T _ (fun x hx => h x (by simp [hx]))

theorem takeWhile_quote (s T : Bytes) (h : ∀ c ∈ s, c ≠ cQuote) :
    (s ++ cQuote :: T).takeWhile (· ≠ cQuote) = s := by
  induction s with
  | nil => simp
  | cons c s ih =>
    have hc : c ≠ cQuote := h c (by simp)
    have ih' := ih (fun x hx => h x (by simp [hx]))
    simp only [List.cons_append, List.takeWhile_cons, hc, ne_eq, not_false_eq_true, decide_true, if_true]
    rw [ih']

theorem tgv_name (s T : Bytes) (h : ∀ c ∈ s, c ≠ cQuote) :
    tryGetValueGo sName false none (bFormName ++ s ++ cQuote :: T) = some s := by
  have hq : (s ++ cQuote :: T).contains cQuote = true := by simp
  rw [sName_eq]
  simp [bFormName, tryGetValueGo, cQuote, cEq, cSp]
  have := takeWhile_quote s T h
  simpa [cQuote] using this

theorem tgv_file_skip (s T : Bytes) (h : ∀ c ∈ s, c ≠ cQuote) :
    tryGetValueGo sFilename false none (bFormName ++ s ++ cQuote :: T) =
      tryGetValueGo sFilename false (some cQuote) T := by
  have h1 := tgv_inq sFilename s T (some cQuote) h
  rw [sFilename_eq] at h1 ⊢
  simp only [cQuote] at h1
  simp [bFormName, tryGetValueGo, cQuote, cEq, cSp]
  exact h1

theorem tgv_file_none : tryGetValueGo sFilename false (some cQuote) [] = none := by
  simp [tryGetValueGo]

theorem tgv_file_some (f : Bytes) (h : ∀ c ∈ f, c ≠ cQuote) :
    tryGetValueGo sFilename false (some cQuote) (bFilename ++ f ++ [cQuote]) = some f := by
  rw [sFilename_eq]
  simp [bFilename, tryGetValueGo, cQuote, cEq, cSp]
  have := takeWhile_quote f [] h
  simpa [cQuote] using this

theorem lit_ok : (∀ c ∈ bDispPfx ++ bFormName, c ≠ 0 ∧ c ≠ cCR ∧ c ≠ cLF) ∧ (∀ c ∈ bFilename, c ≠ 0 ∧ c ≠ cCR ∧ c ≠ cLF) ∧
    (∀ c ∈ bCT, c ≠ 0 ∧ c ≠ cCR ∧ c ≠ cLF) ∧ (∀ c ∈ bCTE, c ≠ 0 ∧ c ≠ cCR ∧ c ≠ cLF) := by decide +kernel

/-- the tail of the disposition line after the name's closing quote -/
def fnTail (p : Part) : Bytes := match p.filename with | some f => bFilename ++ f ++ [cQuote] | none => []

theorem dispLine_eq (p : Part) : dispLine p = bDispPfx ++ (bFormName ++ p.name ++ cQuote :: fnTail p) := by
  unfold dispLine fnTail
  rw [ofStr_disp, ofStr_fn]
  cases p.filename <;> simp

theorem dispLine_ok (p : Part) (hn : Plain p.name) (hf : ∀ f, p.filename = some f → Plain f) :
    ∀ c ∈ dispLine p, c ≠ 0 ∧ c ≠ cCR ∧ c ≠ cLF := by
  intro c hc
  rw [dispLine_eq, ← List.append_assoc, ← List.append_assoc] at hc
  have hq : (cQuote : UInt8) ≠ 0 ∧ cQuote ≠ cCR ∧ cQuote ≠ cLF := by decide
  simp only [List.mem_append, List.mem_cons] at hc
  rcases hc with (h | h) | h | h
  · exact lit_ok.1 c (List.mem_append.mpr h)
  · have := hn c h; exact ⟨this.1, this.2.2.1, this.2.2.2⟩
  · rw [h]; exact hq
  · unfold fnTail at h
    cases hfn : p.filename with
    | none => rw [hfn] at h; cases h
    | some f =>
      rw [hfn] at h
      simp only [List.mem_append, List.mem_cons, List.mem_nil_iff, or_false] at h
      rcases h with (h | h) | h
      · exact lit_ok.2.1 c h
      · have := hf f hfn c h; exact ⟨this.1, this.2.2.1, this.2.2.2⟩
      · rw [h]; exact hq

theorem hdrM_disp (p : Part) (t e : Option Bytes) (hn : Plain p.name) (hf : ∀ f, p.filename = some f → Plain f) :
    hdrM ⟨none, none, t, e⟩ (dispLine p) = ⟨some p.name, p.filename, t, e⟩ := by
  have hz : cstr (dispLine p) = dispLine p := cstr_of_no_zero _ (fun c hc => (dispLine_ok p hn hf c hc).1)
  have hlen : hdrDisposition.length = bDispPfx.length := by decide +kernel
  have heq : eqCaselessN hdrDisposition (bDispPfx ++ (bFormName ++ p.name ++ cQuote :: fnTail p)) hdrDisposition.length = true := by
    rw [eqCaselessN_app _ _ _ _ (by rw [hlen]; exact Nat.le_refl _)]
    decide +kernel
  have hdrop : (bDispPfx ++ (bFormName ++ p.name ++ cQuote :: fnTail p)).drop hdrDisposition.length =
      bFormName ++ p.name ++ cQuote :: fnTail p := by rw [hlen, List.drop_left]
  have hnq : ∀ c ∈ p.name, c ≠ cQuote := fun c hc => (hn c hc).2.1
  unfold hdrM
  simp only [hz]
  rw [dispLine_eq]
  simp only [heq, if_true, hdrop, tryGetValue, tgv_name p.name _ hnq, tgv_file_skip p.name _ hnq]
  unfold fnTail
  cases hfn : p.filename with
  | none => simp only [tgv_file_none]
  | some f => simp only [tgv_file_some f (fun c hc => (hf f hfn c hc).2.1)]

theorem hdrM_ct (k f : Option Bytes) (t : Bytes) (ht : NoCtl t) :
    hdrM ⟨k, f, none, none⟩ (ofStr "Content-Type: " ++ t) = ⟨k, f, some t, none⟩ := by
  rw [ofStr_ct]
  have hz : cstr (bCT ++ t) = bCT ++ t := cstr_of_no_zero _ (by
    intro c hc; simp only [List.mem_append] at hc
    rcases hc with h | h
    · exact (lit_ok.2.2.1 c h).1
    · exact (ht c h).1)
  have h1 : eqCaselessN hdrDisposition (bCT ++ t) hdrDisposition.length = false :=
    eqCaselessN_pfx_false _ _ _ 9 _ (by decide) (by decide +kernel) (by decide +kernel)
  have h2 : eqCaselessN hdrType (bCT ++ t) hdrType.length = true := by
    rw [eqCaselessN_app _ _ _ _ (by decide +kernel)]; decide +kernel
  have h3 : eqCaselessN hdrEncoding (bCT ++ t) hdrEncoding.length = false :=
    eqCaselessN_pfx_false _ _ _ 10 _ (by decide) (by decide +kernel) (by decide +kernel)
  have h4 : (bCT ++ t).drop hdrType.length = t := by
    have : hdrType.length = bCT.length := by decide +kernel
    rw [this, List.drop_left]
  unfold hdrM
  simp only [hz, h1, Bool.false_eq_true, if_false, tryMatchHeader, tryMatchGo, h2, if_true, h3, h4]

theorem hdrM_cte (k f ct : Option Bytes) (e : Bytes) (he : NoCtl e) :
    hdrM ⟨k, f, ct, none⟩ (ofStr "Content-Transfer-Encoding: " ++ e) = ⟨k, f, ct, some e⟩ := by
  rw [ofStr_cte]
  have hz : cstr (bCTE ++ e) = bCTE ++ e := cstr_of_no_zero _ (by
    intro c hc; simp only [List.mem_append] at hc
    rcases hc with h | h
    · exact (lit_ok.2.2.2 c h).1
    · exact (he c h).1)
  have h1 : eqCaselessN hdrDisposition (bCTE ++ e) hdrDisposition.length = false :=
    eqCaselessN_pfx_false _ _ _ 9 _ (by decide) (by decide +kernel) (by decide +kernel)
  have h2 : eqCaselessN hdrEncoding (bCTE ++ e) hdrEncoding.length = true := by
    rw [eqCaselessN_app _ _ _ _ (by decide +kernel)]; decide +kernel
  have h3 : eqCaselessN hdrType (bCTE ++ e) hdrType.length = false :=
    eqCaselessN_pfx_false _ _ _ 10 _ (by decide) (by decide +kernel) (by decide +kernel)
  have h4 : (bCTE ++ e).drop hdrEncoding.length = e := by
    have : hdrEncoding.length = bCTE.length := by decide +kernel
    rw [this, List.drop_left]
  unfold hdrM
  simp only [hz, h1, Bool.false_eq_true, if_false, tryMatchHeader, tryMatchGo, h2, if_true, h3, h4]
  cases ct <;> rfl

/-- purely syntactic side conditions on one part of the reference encoding: the name and the file name
    contain no NUL, `"`, CR, LF; content type and transfer encoding no NUL, CR, LF; the content type is
    not `multipart/mixed`; every header line is shorter than the buffer -/
structure PartPlain (size : Nat) (p : Part) : Prop where
  name : Plain p.name
  file : ∀ f, p.filename = some f → Plain f
  ctype : ∀ t, p.ctype = some t → NoCtl t ∧ eqCaselessN t sMixed sMixed.length = false
  enc : ∀ e, p.enc = some e → NoCtl e
  fit : ∀ ln ∈ hdrLines p, ln.length < size

theorem hdr_of_plain {size : Nat} {p : Part} (h : PartPlain size p) :
    (hdrLines p).foldl hdrM none4 = metaP p := by
  have hd := fun t e => hdrM_disp p t e h.name h.file
  unfold hdrLines metaP none4
  cases hct : p.ctype with
  | none =>
    cases he : p.enc with
    | none => simp only [List.append_nil, List.foldl, hd]
    | some e =>
      simp only [List.nil_append, List.foldl, hd]
      rw [hdrM_cte _ _ _ e (h.enc e he)]
  | some t =>
    cases he : p.enc with
    | none =>
      simp only [List.append_nil, List.foldl, hd]
      rw [hdrM_ct _ _ t (h.ctype t hct).1]
    | some e =>
      simp only [List.cons_append, List.nil_append, List.foldl, hd]
      rw [hdrM_ct _ _ t (h.ctype t hct).1, hdrM_cte _ _ _ e (h.enc e he)]

theorem partOk_of_plain {size : Nat} {p : Part} (h : PartPlain size p) : PartOk size p := by
  refine ⟨?_, hdr_of_plain h, fun ct hct => (h.ctype ct hct).2⟩
  intro ln hln
  refine ⟨?_, ?_, h.fit ln hln⟩
  · intro he
    have := h.fit ln hln
    unfold hdrLines at hln
    simp only [List.mem_cons, List.mem_append] at hln
    rcases hln with rfl | hln | hln
    · have := congrArg List.length (dispLine_eq p); rw [he] at this; simp [bDispPfx] at this
    · cases hct : p.ctype with
      | none => rw [hct] at hln; cases hln
      | some t =>
        rw [hct] at hln; simp only [List.mem_cons, List.mem_nil_iff, or_false] at hln
        rw [hln, ofStr_ct] at he; simp [bCT] at he
    · cases hen : p.enc with
      | none => rw [hen] at hln; cases hln
      | some e =>
        rw [hen] at hln; simp only [List.mem_cons, List.mem_nil_iff, or_false] at hln
        rw [hln, ofStr_cte] at he; simp [bCTE] at he
  · intro c hc
    unfold hdrLines at hln
    simp only [List.mem_cons, List.mem_append] at hln
    rcases hln with rfl | hln | hln
    · exact (dispLine_ok p h.name h.file c hc).2
    · cases hct : p.ctype with
      | none => rw [hct] at hln; cases hln
      | some t =>
        rw [hct] at hln; simp only [List.mem_cons, List.mem_nil_iff, or_false] at hln
        rw [hln, ofStr_ct, List.mem_append] at hc
        rcases hc with hc | hc
        · exact (lit_ok.2.2.1 c hc).2
        · exact ((h.ctype t hct).1 c hc).2
    · cases hen : p.enc with
      | none => rw [hen] at hln; cases hln
      | some e =>
        rw [hen] at hln; simp only [List.mem_cons, List.mem_nil_iff, or_false] at hln
        rw [hln, ofStr_cte, List.mem_append] at hc
        rcases hc with hc | hc
        · exact (lit_ok.2.2.2 c hc).2
        · exact (h.enc e hen c hc).2

/-- **Round trip, reference encoding, purely syntactic side conditions, every split.** -/
theorem multipart_roundtrip_syntactic (n : Nat) (ctype : Bytes) (pp0 : PP) (parts : List Part) (chunks : List Bytes)
    (hc : create n ctype = some pp0) (hu : pp0.isUrl = false) (hB : 1 ≤ pp0.boundary.length)
    (hfresh : boundaryFresh pp0.boundary parts = true) (hp : ∀ p ∈ parts, PartPlain (n + 4) p)
    (hch : chunks.flatten = encodeMultipart pp0.boundary parts) :
    ∃ pp, run n ctype chunks = some (pp, true) ∧ pp.fault = none ∧ Delivers pp.evs (parts.map fieldOf) ∧
      ∀ pre ch post, chunks = pre ++ ch :: post → (feed (feedAll pp0 pre) ch).2 = true :=
  multipart_roundtrip n ctype pp0 parts chunks hc hu hB hfresh (fun p hp' => partOk_of_plain (hp p hp')) hch

end Mhd.PP
