/-
  One event-loop round, every script operation and every history preserve `Inv`
  (repaired variant; the select-loop flag `savePrev` is arbitrary).
-/
import Mhd.Proofs.TmoPrim
namespace Mhd.Tmo
open Mhd.Gen.Tmo

/-! ### updates that touch no list and no stamp/timeout/suspended flag -/

theorem inv_epollArm {d : Daemon} (h : Inv d) (i : Id) (hi : i ∈ d.conns ∨ i ∈ d.cleanup) : Inv (epollArm d i) := by
  unfold epollArm
  dsimp only
  split
  · rename_i hc
    apply inv_iness h
    case hnde => exact h.ndEready
    case hnep => intro he; simp at he; simp [he] at hc
    case hrdy => intro j hj; simp at hj; grind
    case hc => intro j; by_cases e : j = i <;> simp [e]
    all_goals rfl
  · exact h

theorem inv_epollQueue {d : Daemon} (h : Inv d) (i : Id) (hi : i ∈ d.conns ∨ i ∈ d.cleanup) : Inv (epollQueue d i) := by
  unfold epollQueue
  split
  · rename_i hc
    apply inv_iness h
    case hnde => exact List.nodup_cons.2 ⟨hc.2.2, h.ndEready⟩
    case hnep => intro he; simp at he; simp [he] at hc
    case hrdy => intro j hj; simp at hj; grind
    case hc => intro j; exact ⟨rfl, rfl, rfl⟩
    all_goals rfl
  · exact h

theorem epollQueue_same (d : Daemon) (i : Id) :
    (epollQueue d i).conns = d.conns ∧ (epollQueue d i).cleanup = d.cleanup ∧ (epollQueue d i).c = d.c := by
  unfold epollQueue; split <;> exact ⟨rfl, rfl, rfl⟩

theorem inv_epollUpdate' {d : Daemon} (h : Inv d) (i : Id) (hi : i ∈ d.conns ∨ i ∈ d.cleanup) : Inv (epollUpdate d i) := by
  unfold epollUpdate
  have s := epollQueue_same d i
  exact inv_epollArm (inv_epollQueue h i hi) i (by rw [s.1, s.2.1]; exact hi)

theorem inv_epollUpdate {d : Daemon} (h : Inv d) (i : Id) (hi : i ∈ d.conns) : Inv (epollUpdate d i) :=
  inv_epollUpdate' h i (Or.inl hi)

theorem others_epollArm (d : Daemon) (i : Id) : Others i d (epollArm d i) := by
  unfold epollArm
  dsimp only
  split
  · refine ⟨rfl, rfl, rfl, ⟨rfl, rfl⟩, ?_⟩; intro j hj; simp [hj]
  · exact Others.refl i d

theorem others_epollQueue (d : Daemon) (i : Id) : Others i d (epollQueue d i) := by
  unfold epollQueue
  split
  · refine ⟨rfl, rfl, rfl, ⟨rfl, rfl⟩, ?_⟩; intro j hj; simp
  · exact Others.refl i d

theorem others_epollUpdate (d : Daemon) (i : Id) : Others i d (epollUpdate d i) :=
  Others.trans (others_epollQueue d i) (others_epollArm _ i)

theorem inv_idleCheck {d : Daemon} (h : Inv d) (i : Id) (hi : i ∈ d.conns) : Inv (idleCheck d i).1 := by
  unfold idleCheck
  dsimp only
  split
  · exact inv_set_iness h i _ rfl rfl rfl
  · exact inv_epollUpdate h i hi

theorem others_idleCheck (d : Daemon) (i : Id) : Others i d (idleCheck d i).1 := by
  unfold idleCheck
  dsimp only
  split
  · exact others_set i d _
  · exact others_epollUpdate d i

theorem inv_closeOther {d : Daemon} (h : Inv d) (i : Id) (code : Nat) : Inv (closeOther d i code).1 :=
  inv_set_iness h i _ rfl rfl rfl

theorem others_closeOther (d : Daemon) (i : Id) (code : Nat) : Others i d (closeOther d i code).1 :=
  others_set i d _

theorem idleCheck_conns (d : Daemon) (i : Id) : (idleCheck d i).1.conns = d.conns ∧ (idleCheck d i).1.cleanup = d.cleanup := by
  unfold idleCheck epollUpdate epollArm epollQueue
  dsimp only
  repeat' split
  all_goals exact ⟨rfl, rfl⟩

/-! ### MHD_connection_handle_idle -/

/-- where `handleIdle` may be called: on a live connection, on one already in the cleanup list
    (`in_cleanup`), or on one that the handler has just suspended -/
def IdleOk (d : Daemon) (i : Id) : Prop :=
  i ∈ d.conns ∨ i ∈ d.cleanup ∨ ((d.c i).suspended = true ∧ (d.c i).closed = false)

theorem inv_handleIdle {d : Daemon} (h : Inv d) (i : Id) (hi : IdleOk d i) :
    Inv (handleIdle d i).1 := by
  unfold handleIdle
  split
  · rename_i hc
    rcases hi with hi | hi | hi
    · exact inv_cleanupConnection h i (Or.inl hi)
    · exact inv_cleanupConnection h i (Or.inr hi)
    · simp [hi.2] at hc
  · rename_i hc
    rcases hi with hi | hi
    · exact inv_idleCheck h i hi
    · -- in the cleanup list or suspended: the timeout check touches no list
      unfold idleCheck
      dsimp only
      split
      · exact inv_set_iness h i _ rfl rfl rfl
      · rcases hi with hi | hi
        · exact inv_epollUpdate' h i (Or.inr hi)
        · -- suspended: neither queued nor armed
          have e1 : epollQueue d i = d := by simp [epollQueue, procWait, hi.1]
          have e2 : epollArm d i = d := by simp [epollArm, hi.1]
          unfold epollUpdate; rw [e1, e2]; exact h

theorem others_handleIdle (d : Daemon) (i : Id) : Others i d (handleIdle d i).1 := by
  unfold handleIdle
  split
  · exact others_cleanupConnection d i
  · exact others_idleCheck d i

/-! ### upload data left in the buffer, the daemon-wide pending flag -/

theorem procBuf_cases (d : Daemon) (i : Id) :
    procBuf d i = d ∨ procBuf d i = d.set i { (d.c i) with buf := bufAfterCall (d.c i) } := by
  unfold procBuf; dsimp only; split
  · exact Or.inr rfl
  · exact Or.inl rfl

theorem inv_procBuf {d : Daemon} (h : Inv d) (i : Id) : Inv (procBuf d i) := by
  rcases procBuf_cases d i with e | e <;> rw [e]
  · exact h
  · exact inv_set_iness h i _ rfl rfl rfl

theorem others_procBuf (d : Daemon) (i : Id) : Others i d (procBuf d i) := by
  rcases procBuf_cases d i with e | e <;> rw [e]
  · exact Others.refl i d
  · exact others_set i d _

theorem procBuf_same (d : Daemon) (i : Id) :
    (procBuf d i).conns = d.conns ∧ (procBuf d i).cleanup = d.cleanup ∧ (procBuf d i).now = d.now ∧
    ((procBuf d i).c i).closed = (d.c i).closed ∧ ((procBuf d i).c i).suspended = (d.c i).suspended ∧
    ((procBuf d i).c i).la = (d.c i).la ∧ ((procBuf d i).c i).tmo = (d.c i).tmo ∧
    ((procBuf d i).c i).aware = (d.c i).aware := by
  rcases procBuf_cases d i with e | e <;> rw [e] <;> simp

theorem inv_handleIdleP {d : Daemon} (h : Inv d) (i : Id) (hi : IdleOk d i) : Inv (handleIdleP d i).1 := by
  unfold handleIdleP
  have s := procBuf_same d i
  refine inv_handleIdle (inv_procBuf h i) i ?_
  unfold IdleOk at *
  rw [s.1, s.2.1, s.2.2.2.1, s.2.2.2.2.1]; exact hi

theorem others_handleIdleP (d : Daemon) (i : Id) : Others i d (handleIdleP d i).1 :=
  Others.trans (others_procBuf d i) (others_handleIdle _ i)

theorem notePending_eq (v : Variant) (d : Daemon) (i : Id) :
    notePending v d i = { d with dataPending := (notePending v d i).dataPending } := by
  unfold notePending
  repeat' split
  all_goals rfl

theorem inv_dp {d : Daemon} (h : Inv d) (b : Bool) : Inv { d with dataPending := b } := by
  constructor
  all_goals first
    | exact h.nofault | exact h.ndConns | exact h.ndNormal | exact h.ndManual | exact h.ndSusp
    | exact h.ndNew | exact h.ndClean | exact h.ndEready | exact h.connsIff | exact h.normalT | exact h.manualT
    | exact h.connsS | exact h.suspS | exact h.newT | exact h.disjNew | exact h.disjClean | exact h.laLe
    | exact h.usedAll | exact h.ready | exact h.nonEpoll | exact h.sorted | exact h.tmoB | exact h.dtmoB

theorem inv_notePending {d : Daemon} (h : Inv d) (v : Variant) (i : Id) : Inv (notePending v d i) := by
  rw [notePending_eq]; exact inv_dp h _

theorem others_notePending (v : Variant) (d : Daemon) (i j : Id) : Others j d (notePending v d i) := by
  rw [notePending_eq]
  refine ⟨rfl, rfl, rfl, ⟨rfl, rfl⟩, ?_⟩; intro k _; exact ⟨Iff.rfl, Iff.rfl, Iff.rfl, rfl⟩

/-! ### reading client data -/

theorem inv_readData {v : Variant} (hv : v.actSorted = true) {d : Daemon} (h : Inv d) (i : Id) (hi : i ∈ d.conns) :
    Inv (readData v d i).1 := by
  unfold readData
  dsimp only
  have h1 : Inv (d.set i (readRec (d.c i))) :=
    inv_set_iness h i _ rfl rfl rfl
  have h2 := inv_updateLastActivity hv h1 i (by simpa using hi)
  have hi2 : i ∈ (updateLastActivity v (d.set i (readRec (d.c i))) i).conns := by
    rw [updateLastActivity_conns]; simpa using hi
  split
  · split
    · apply inv_internalSuspend
      · exact inv_set_iness h2 i _ rfl rfl rfl
      · simpa using hi2
    · exact inv_set_iness h2 i _ rfl rfl rfl
  · split
    · exact inv_set_iness h2 i _ rfl rfl rfl
    · exact h2

theorem others_readData (v : Variant) (d : Daemon) (i : Id) : Others i d (readData v d i).1 := by
  unfold readData
  dsimp only
  have o1 := others_set i d (readRec (d.c i))
  have o2 := Others.trans o1 (others_updateLastActivity v _ i)
  split
  · split
    · exact Others.trans (Others.trans o2 (others_set i _ _)) (others_internalSuspend _ i)
    · exact Others.trans o2 (others_set i _ _)
  · split
    · exact Others.trans o2 (others_set i _ _)
    · exact o2


theorem internalSuspend_post (d : Daemon) (i : Id) (hi : i ∈ d.conns) :
    (i ∈ (internalSuspend d i).conns ∨ ((internalSuspend d i).c i).suspended = true) ∧
    ((internalSuspend d i).c i).closed = (d.c i).closed := by
  unfold internalSuspend Daemon.remTimeout Daemon.remNormal Daemon.remManual Daemon.remConns
  dsimp only
  repeat' split
  all_goals simp [hi]

theorem updateLastActivity_closed (v : Variant) (d : Daemon) (i : Id) :
    ((updateLastActivity v d i).c i).closed = (d.c i).closed := by
  unfold updateLastActivity Daemon.remNormal
  dsimp only
  repeat' split
  all_goals simp

theorem readData_post (v : Variant) {d : Daemon} (i : Id) (hi : i ∈ d.conns) (hc : (d.c i).closed = false) :
    IdleOk (readData v d i).1 i := by
  unfold readData
  dsimp only
  have hi2 : i ∈ (updateLastActivity v (d.set i (readRec (d.c i))) i).conns := by
    rw [updateLastActivity_conns]; simpa using hi
  have hc2 : ((updateLastActivity v (d.set i (readRec (d.c i))) i).c i).closed
      = false := by rw [updateLastActivity_closed]; simpa [readRec] using hc
  split
  · split
    · have p := internalSuspend_post
        ((updateLastActivity v (d.set i (readRec (d.c i))) i).set i
          (suspRec ((updateLastActivity v (d.set i (readRec (d.c i))) i).c i))) i (by simpa using hi2)
      rcases p.1 with q | q
      · exact Or.inl q
      · refine Or.inr (Or.inr ⟨q, ?_⟩)
        rw [p.2]; simpa [suspRec] using hc2
    · exact Or.inl (by simpa using hi2)
  · split
    · exact Or.inl (by simpa using hi2)
    · exact Or.inl hi2

/-! ### a replying connection: send progress, completion -/

theorem writeStep_cases (v : Variant) (d : Daemon) (i : Id) :
    ∃ d1, (d1 = d ∨ d1 = updateLastActivity v d i) ∧
      ((writeStep v d i).1 = d1 ∨ (writeStep v d i).1 = d1.set i (finishRec (d1.c i))) := by
  unfold writeStep
  dsimp only
  by_cases hw : i ∈ d.wset
  · refine ⟨updateLastActivity v d i, Or.inr rfl, ?_⟩
    simp only [hw, if_true]
    split
    · exact Or.inr rfl
    · exact Or.inl rfl
  · refine ⟨d, Or.inl rfl, ?_⟩
    simp only [hw, if_false]
    split
    · exact Or.inr rfl
    · exact Or.inl rfl

theorem inv_writeStep {v : Variant} (hv : v.actSorted = true) {d : Daemon} (h : Inv d) (i : Id) (hi : i ∈ d.conns) :
    Inv (writeStep v d i).1 := by
  obtain ⟨d1, h1, h2⟩ := writeStep_cases v d i
  have hd1 : Inv d1 := by
    rcases h1 with e | e <;> rw [e]
    · exact h
    · exact inv_updateLastActivity hv h i hi
  rcases h2 with e | e <;> rw [e]
  · exact hd1
  · exact inv_set_iness hd1 i _ rfl rfl rfl

theorem others_writeStep (v : Variant) (d : Daemon) (i : Id) : Others i d (writeStep v d i).1 := by
  obtain ⟨d1, h1, h2⟩ := writeStep_cases v d i
  have o1 : Others i d d1 := by
    rcases h1 with e | e <;> rw [e]
    · exact Others.refl i d
    · exact others_updateLastActivity v d i
  rcases h2 with e | e <;> rw [e]
  · exact o1
  · exact Others.trans o1 (others_set i d1 _)

theorem writeStep_post (v : Variant) {d : Daemon} (i : Id) (hi : i ∈ d.conns) : i ∈ (writeStep v d i).1.conns := by
  obtain ⟨d1, h1, h2⟩ := writeStep_cases v d i
  have c1 : d1.conns = d.conns := by
    rcases h1 with e | e <;> rw [e]
    exact updateLastActivity_conns v d i
  rcases h2 with e | e <;> rw [e]
  · rw [c1]; exact hi
  · simp only [set_conns]; rw [c1]; exact hi

theorem inv_fastTrack {v : Variant} (hv : v.actSorted = true) {d : Daemon} (h : Inv d) (i : Id) (hi : IdleOk d i) :
    Inv (fastTrack v d i).1 := by
  unfold fastTrack
  split
  · rename_i hc
    unfold seq2; dsimp only
    exact inv_handleIdle (inv_writeStep hv h i hc.2.2) i (Or.inl (writeStep_post v i hc.2.2))
  · exact inv_handleIdle h i hi

theorem others_fastTrack (v : Variant) (d : Daemon) (i : Id) : Others i d (fastTrack v d i).1 := by
  unfold fastTrack
  split
  · unfold seq2; dsimp only
    exact Others.trans (others_writeStep v d i) (others_handleIdle _ i)
  · exact others_handleIdle d i

/-! ### call_handlers in the select loop, and the loop -/

theorem inv_callHandlersSel {v : Variant} (hv : v.actSorted = true) {d : Daemon} (h : Inv d) (i : Id) (r : Bool)
    (hi : i ∈ d.conns) : Inv (callHandlersSel v d i r).1 := by
  unfold callHandlersSel
  dsimp only
  apply inv_notePending
  unfold callHandlersSel0 seq2
  dsimp only
  split
  · exact inv_handleIdle h i (Or.inl hi)
  · rename_i hc
    split
    · exact inv_handleIdle (inv_writeStep hv h i hi) i (Or.inl (writeStep_post v i hi))
    · split
      · exact inv_fastTrack hv (inv_readData hv h i hi) i (readData_post v i hi (by simpa using hc))
      · split
        · exact inv_handleIdle (inv_closeOther h i _) i (Or.inl (by simpa [closeOther] using hi))
        · exact inv_handleIdleP h i (Or.inl hi)

theorem others_callHandlersSel0 (v : Variant) (d : Daemon) (i : Id) (r : Bool) : Others i d (callHandlersSel0 v d i r).1 := by
  unfold callHandlersSel0 seq2
  dsimp only
  split
  · exact others_handleIdle d i
  · split
    · exact Others.trans (others_writeStep v d i) (others_handleIdle _ i)
    · split
      · exact Others.trans (others_readData v d i) (others_fastTrack v _ i)
      · split
        · exact Others.trans (others_closeOther d i _) (others_handleIdle _ i)
        · exact others_handleIdleP d i

theorem others_callHandlersSel (v : Variant) (d : Daemon) (i : Id) (r : Bool) : Others i d (callHandlersSel v d i r).1 :=
  Others.trans (others_callHandlersSel0 v d i r) (others_notePending v _ i i)

theorem inv_travSel (v : Variant) (hv : v.actSorted = true) (rs : List Id) : ∀ (l : List Id) (d : Daemon), Inv d → l.Nodup →
    (∀ i, i ∈ l → i ∈ d.conns) → Inv (travSel v rs l d).1
  | [], d, h, _, _ => by simpa [travSel] using h
  | i :: rest, d, h, hnd, hm => by
    unfold travSel
    dsimp only
    have hi : i ∈ d.conns := hm i (List.mem_cons_self ..)
    have h1 := inv_callHandlersSel hv h i (rs.contains i) hi
    split
    · exact h1
    · unfold seq2
      dsimp only
      have o := others_callHandlersSel v d i (rs.contains i)
      have hnd' := List.nodup_cons.1 hnd
      refine inv_travSel v hv rs rest _ h1 hnd'.2 ?_
      intro j hj
      have hji : j ≠ i := fun e => hnd'.1 (e ▸ hj)
      exact ((o.2.2.2.2 j hji).1).2 (hm j (List.mem_cons_of_mem _ hj))


/-! ### folds over a snapshot of a list -/

theorem nodup_reverse' {l : List Id} (h : l.Nodup) : l.reverse.Nodup := by
  unfold List.Nodup at *
  rw [List.pairwise_reverse]
  exact h.imp (fun h => h.symm)

theorem foldl_inv {f : Daemon → Id → Daemon} {P : Daemon → Id → Prop}
    (hf : ∀ d i, Inv d → P d i → Inv (f d i))
    (hfr : ∀ d i j, Inv d → P d i → j ≠ i → P d j → P (f d i) j) :
    ∀ (l : List Id) (d : Daemon), Inv d → l.Nodup → (∀ i, i ∈ l → P d i) → Inv (l.foldl f d)
  | [], d, h, _, _ => by simpa using h
  | i :: rest, d, h, hnd, hp => by
    rw [List.foldl_cons]
    have hnd' := List.nodup_cons.1 hnd
    have hi := hp i (List.mem_cons_self ..)
    refine foldl_inv hf hfr rest (f d i) (hf d i h hi) hnd'.2 ?_
    intro j hj
    have hji : j ≠ i := fun e => hnd'.1 (e ▸ hj)
    exact hfr d i j h hi hji (hp j (List.mem_cons_of_mem _ hj))

theorem fresh_others {d d' : Daemon} {i j : Id} (o : Others i d d') (hji : j ≠ i) (hf : Fresh d j) :
    Fresh d' j := by
  obtain ⟨o1, o2, o3, _, o5⟩ := o
  obtain ⟨f1, f2, f3, f4, f5, f6, f7⟩ := hf
  have x := o5 j hji
  refine ⟨by rw [x.1]; exact f1, by rw [x.2.1]; exact f2, by rw [x.2.2.1]; exact f3, by rw [o2]; exact f4,
    by rw [o1]; exact f5, by rw [x.2.2.2, o3]; exact f6, by rw [x.2.2.2]; exact f7⟩

theorem inv_processNew {v : Variant} (hv : Fixed v) {d : Daemon} (h : Inv d) : Inv (processNew v d).1 := by
  unfold processNew
  split
  · dsimp only
    have h0 : Inv { d with newL := [], haveNew := false } := by
      constructor
      case ndNew => exact List.nodup_nil
      case newT => intro j hj; simp at hj
      case disjNew => intro j hj; simp at hj
      case usedAll => intro j hj; exact h.usedAll j (by simp at hj; exact Or.inr hj)
      all_goals first
        | exact h.nofault | exact h.ndConns | exact h.ndNormal | exact h.ndManual | exact h.ndSusp
        | exact h.ndClean | exact h.ndEready | exact h.connsIff | exact h.normalT | exact h.manualT
        | exact h.connsS | exact h.suspS | exact h.disjClean | exact h.laLe
        | exact h.ready | exact h.nonEpoll | exact h.sorted | exact h.tmoB | exact h.dtmoB
    refine foldl_inv (P := Fresh) (fun d i hd hp => inv_processOneNew hv hd i hp)
      (fun d i j _ _ hji hp => fresh_others (others_processOneNew v d i) hji hp) _ _ h0
      (nodup_reverse' h.ndNew) ?_
    intro i hi
    have hi' : i ∈ d.newL := List.mem_reverse.1 hi
    have a := h.disjNew i hi'
    have b := h.newT i hi'
    exact ⟨a.1, a.2.1, a.2.2, by simp, h.usedAll i (Or.inl hi'), b.1, b.2⟩
  · exact h

theorem inv_resumeSuspended {v : Variant} (hv : v.actSorted = true) {d : Daemon} (h : Inv d) : Inv (resumeSuspended v d) := by
  unfold resumeSuspended
  dsimp only
  have h0 : Inv { d with resuming := false } := by
    constructor
    all_goals first
      | exact h.nofault | exact h.ndConns | exact h.ndNormal | exact h.ndManual | exact h.ndSusp
      | exact h.ndNew | exact h.ndClean | exact h.ndEready | exact h.connsIff | exact h.normalT | exact h.manualT
      | exact h.connsS | exact h.suspS | exact h.newT | exact h.disjNew | exact h.disjClean | exact h.laLe
      | exact h.usedAll | exact h.ready | exact h.nonEpoll | exact h.sorted | exact h.tmoB | exact h.dtmoB
  refine foldl_inv (P := fun d i => i ∈ d.susp) (fun d i hd hp => inv_resumeOne hv hd i hp)
    (fun d i j _ _ hji hp => ((others_resumeOne v d i).2.2.2.2 j hji).2.1.2 hp) _ _ h0 ?_ ?_
  · split
    · exact nodup_reverse' h.ndSusp
    · exact List.nodup_nil
  · intro i hi
    split at hi
    · exact List.mem_reverse.1 hi
    · simp at hi

theorem foldl_free_ready : ∀ (l : List Id) (d : Daemon) (j : Id),
    (j ∈ (l.foldl freeOne d).eready → j ∈ d.eready ∧ j ∉ l) ∧
    (j ∈ (l.foldl freeOne d).kq → j ∈ d.kq ∧ j ∉ l) ∧ (l.foldl freeOne d).cleanup = d.cleanup
  | [], d, j => by simp
  | i :: rest, d, j => by
    rw [List.foldl_cons]
    have ih := foldl_free_ready rest (freeOne d i) j
    refine ⟨?_, ?_, ?_⟩
    · intro hj; have := ih.1 hj; simp [freeOne] at this; simp; grind
    · intro hj; have := ih.2.1 hj; simp [freeOne] at this; simp; grind
    · rw [ih.2.2]; rfl

theorem inv_cleanupAll {d : Daemon} (h : Inv d) : Inv (cleanupAll d).1 := by
  unfold cleanupAll
  dsimp only
  have h1 : Inv (d.cleanup.reverse.foldl freeOne d) :=
    foldl_inv (P := fun d i => i ∈ d.cleanup) (fun d i hd hp => inv_freeOne hd i hp)
      (fun d i j _ _ hji hp => ((others_freeOne d i).2.2.2.2 j hji).2.2.1.2 hp) _ _ h
      (nodup_reverse' h.ndClean) (fun i hi => List.mem_reverse.1 hi)
  have hr := foldl_free_ready d.cleanup.reverse d
  constructor
  case ndClean => exact List.nodup_nil
  case disjNew => intro j hj; have := h1.disjNew j hj; exact ⟨this.1, this.2.1, List.not_mem_nil⟩
  case disjClean => intro j hj; exact absurd hj List.not_mem_nil
  case usedAll =>
    intro j hj
    rcases hj with x | x | x | x
    · exact h1.usedAll j (Or.inl x)
    · exact h1.usedAll j (Or.inr (Or.inl x))
    · exact h1.usedAll j (Or.inr (Or.inr (Or.inl x)))
    · exact absurd x List.not_mem_nil
  case ready =>
    intro j hj
    have hcl : (d.cleanup.reverse.foldl freeOne d).cleanup = d.cleanup := (hr j).2.2
    rcases h1.ready j hj with x | x
    · exact Or.inl x
    · rw [hcl] at x
      rcases hj with y | y
      · exact absurd (List.mem_reverse.2 x) ((hr j).1 y).2
      · exact absurd (List.mem_reverse.2 x) ((hr j).2.1 y).2
  all_goals first
    | exact h1.nofault | exact h1.ndConns | exact h1.ndNormal | exact h1.ndManual | exact h1.ndSusp
    | exact h1.ndNew | exact h1.ndEready | exact h1.connsIff | exact h1.normalT | exact h1.manualT
    | exact h1.connsS | exact h1.suspS | exact h1.newT | exact h1.laLe
    | exact h1.nonEpoll | exact h1.sorted | exact h1.tmoB | exact h1.dtmoB

/-! ### one round of the select loop -/

theorem inv_flag {d : Daemon} (h : Inv d) (b : Bool) : Inv { d with dataPending := b } := by
  constructor
  all_goals first
    | exact h.nofault | exact h.ndConns | exact h.ndNormal | exact h.ndManual | exact h.ndSusp
    | exact h.ndNew | exact h.ndClean | exact h.ndEready | exact h.connsIff | exact h.normalT | exact h.manualT
    | exact h.connsS | exact h.suspS | exact h.newT | exact h.disjNew | exact h.disjClean | exact h.laLe
    | exact h.usedAll | exact h.ready | exact h.nonEpoll | exact h.sorted | exact h.tmoB | exact h.dtmoB

theorem inv_roundSelect {v : Variant} (hv : Fixed v) {d : Daemon} (h : Inv d) : Inv (roundSelect v d).1 := by
  unfold roundSelect seq2
  dsimp only
  have h1 : Inv (if d.cfg.allowSuspend then resumeSuspended v d else d) := by
    split; exact inv_resumeSuspended hv.2.2.2.2 h; exact h
  have h2 := inv_processNew hv (inv_flag h1 false)
  apply inv_cleanupAll
  apply inv_travSel _ hv.2.2.2.2
  · exact h2
  · exact nodup_reverse' h2.ndConns
  · intro i hi; exact List.mem_reverse.1 hi


/-! ### the epoll loop -/

theorem inv_epollEvent {d : Daemon} (h : Inv d) (i : Id) (hi : i ∈ d.conns ∨ i ∈ d.cleanup)
    (he : d.cfg.epoll = true) : Inv (epollEvent d i) := by
  unfold epollEvent
  dsimp only
  split
  · apply inv_iness h
    case hnde =>
      show (if i ∈ d.eready then d.eready else i :: d.eready).Nodup
      split; exact h.ndEready; rename_i hn; exact List.nodup_cons.2 ⟨hn, h.ndEready⟩
    case hnep => intro hh; simp [he] at hh
    case hrdy =>
      intro j hj
      have : j = i ∨ j ∈ d.eready ∨ j ∈ d.kq := by
        rcases hj with x | x
        · have x' : j ∈ (if i ∈ d.eready then d.eready else i :: d.eready) := x
          split at x'
          · exact Or.inr (Or.inl x')
          · rcases List.mem_cons.1 x' with y | y; exact Or.inl y; exact Or.inr (Or.inl y)
        · exact Or.inr (Or.inr x)
      grind
    case hc => intro j; by_cases e : j = i <;> simp [e]
    all_goals rfl
  · split
    · split
      · apply inv_iness h
        case hnde => rename_i hn; exact List.nodup_cons.2 ⟨by simpa using hn, h.ndEready⟩
        case hnep => intro hh; simp [he] at hh
        case hrdy => intro j hj; simp at hj; grind
        case hc => intro j; by_cases e : j = i <;> simp [e]
        all_goals rfl
      · exact inv_set_iness h i _ rfl rfl rfl
    · exact h

theorem epollEvent_same (d : Daemon) (i : Id) :
    (epollEvent d i).conns = d.conns ∧ (epollEvent d i).cleanup = d.cleanup ∧ (epollEvent d i).cfg = d.cfg := by
  unfold epollEvent
  dsimp only
  repeat' split
  all_goals exact ⟨rfl, rfl, rfl⟩

theorem foldl_inv_all {f : Daemon → Id → Daemon} {P : Daemon → Id → Prop}
    (hf : ∀ d i, Inv d → P d i → Inv (f d i))
    (hfr : ∀ d i j, Inv d → P d i → P d j → P (f d i) j) :
    ∀ (l : List Id) (d : Daemon), Inv d → (∀ i, i ∈ l → P d i) → Inv (l.foldl f d)
  | [], d, h, _ => by simpa using h
  | i :: rest, d, h, hp => by
    rw [List.foldl_cons]
    have hi := hp i (List.mem_cons_self ..)
    refine foldl_inv_all hf hfr rest (f d i) (hf d i h hi) ?_
    intro j hj
    exact hfr d i j h hi (hp j (List.mem_cons_of_mem _ hj))

theorem inv_epollWait {d : Daemon} (h : Inv d) : Inv (epollWait d) := by
  unfold epollWait
  have h0 : Inv { d with kq := [] } := by
    constructor
    case ready => intro j hj; exact h.ready j (by simp at hj; exact Or.inl hj)
    case nonEpoll => intro he; exact ⟨(h.nonEpoll he).1, rfl⟩
    all_goals first
      | exact h.nofault | exact h.ndConns | exact h.ndNormal | exact h.ndManual | exact h.ndSusp
      | exact h.ndNew | exact h.ndClean | exact h.ndEready | exact h.connsIff | exact h.normalT | exact h.manualT
      | exact h.connsS | exact h.suspS | exact h.newT | exact h.disjNew | exact h.disjClean | exact h.laLe
      | exact h.usedAll | exact h.sorted | exact h.tmoB | exact h.dtmoB
  refine foldl_inv_all (P := fun d i => (i ∈ d.conns ∨ i ∈ d.cleanup) ∧ d.cfg.epoll = true)
    (fun d i hd hp => inv_epollEvent hd i hp.1 hp.2) ?_ _ _ h0 ?_
  · intro d i j _ _ hp
    have := epollEvent_same d i
    rw [this.1, this.2.1, this.2.2]; exact hp
  · intro i hi
    refine ⟨h.ready i (Or.inr hi), ?_⟩
    cases he : d.cfg.epoll
    · have := (h.nonEpoll he).2; rw [this] at hi; exact absurd hi List.not_mem_nil
    · rfl

theorem inv_scanManual : ∀ (l : List Id) (d : Daemon), Inv d → l.Nodup → (∀ i, i ∈ l → i ∈ d.conns) →
    Inv (scanManual l d).1
  | [], d, h, _, _ => by simpa [scanManual] using h
  | i :: rest, d, h, hnd, hm => by
    unfold scanManual seq2
    dsimp only
    have hi : i ∈ d.conns := hm i (List.mem_cons_self ..)
    have hnd' := List.nodup_cons.1 hnd
    refine inv_scanManual rest _ (inv_handleIdleP h i (Or.inl hi)) hnd'.2 ?_
    intro j hj
    have hji : j ≠ i := fun e => hnd'.1 (e ▸ hj)
    exact (((others_handleIdleP d i).2.2.2.2 j hji).1).2 (hm j (List.mem_cons_of_mem _ hj))

theorem inv_scanNormal : ∀ (l : List Id) (d : Daemon), Inv d → l.Nodup → (∀ i, i ∈ l → i ∈ d.conns) →
    Inv (scanNormal l d).1
  | [], d, h, _, _ => by simpa [scanNormal] using h
  | i :: rest, d, h, hnd, hm => by
    unfold scanNormal
    dsimp only
    have hi : i ∈ d.conns := hm i (List.mem_cons_self ..)
    have hnd' := List.nodup_cons.1 hnd
    have h1 := inv_handleIdleP h i (Or.inl hi)
    split
    · unfold seq2
      dsimp only
      refine inv_scanNormal rest _ h1 hnd'.2 ?_
      intro j hj
      have hji : j ≠ i := fun e => hnd'.1 (e ▸ hj)
      exact (((others_handleIdleP d i).2.2.2.2 j hji).1).2 (hm j (List.mem_cons_of_mem _ hj))
    · exact h1

theorem inv_eready_shrink {d : Daemon} (h : Inv d) (i : Id) : Inv { d with eready := without d.eready i } := by
  apply inv_iness h
  case hnde => exact nodup_without i h.ndEready
  case hnep =>
    intro he
    obtain ⟨e1, e2⟩ := h.nonEpoll he
    exact ⟨by show without d.eready i = []; rw [e1]; rfl, e2⟩
  case hrdy =>
    intro j hj
    rcases hj with x | x
    · exact Or.inl (mem_without.1 x).1
    · exact Or.inr (Or.inl x)
  case hc => intro j; exact ⟨rfl, rfl, rfl⟩
  all_goals rfl

theorem inv_callHandlersE0 {v : Variant} (hv : v.actSorted = true) {d : Daemon} (h : Inv d) (i : Id)
    (hi : i ∈ d.conns ∨ i ∈ d.cleanup) : Inv (callHandlersE0 v d i).1 := by
  unfold callHandlersE0
  dsimp only
  split
  · exact h
  · rename_i hncl
    have hic : i ∈ d.conns := by rcases hi with x | x; exact x; exact absurd x hncl
    split
    · split
      · exact inv_handleIdle h i (Or.inl hic)
      · exact inv_handleIdle (inv_closeOther h i _) i (Or.inl (by simpa [closeOther] using hic))
    · split
      · exact inv_handleIdle h i (Or.inl hic)
      · rename_i hc
        split
        · exact inv_handleIdleP h i (Or.inl hic)
        · split
          · split
            · exact inv_handleIdle (inv_readData hv h i hic) i (readData_post v i hic (by simpa using hc))
            · split
              · exact inv_handleIdle (inv_closeOther h i _) i (Or.inl (by simpa [closeOther] using hic))
              · apply inv_handleIdle
                · exact inv_set_iness h i _ rfl rfl rfl
                · exact Or.inl (by simpa using hic)
          · exact inv_handleIdle h i (Or.inl hic)

theorem others_callHandlersE0 (v : Variant) (d : Daemon) (i : Id) : Others i d (callHandlersE0 v d i).1 := by
  unfold callHandlersE0 seq2
  dsimp only
  repeat' split
  all_goals first
    | exact Others.refl i d
    | exact others_handleIdle d i
    | exact others_handleIdleP d i
    | exact Others.trans (others_closeOther d i _) (others_handleIdle _ i)
    | exact Others.trans (others_readData v d i) (others_handleIdle _ i)
    | exact Others.trans (others_set i d _) (others_handleIdle _ i)

theorem inv_callHandlersE1 {v : Variant} (hv : v.actSorted = true) {d : Daemon} (h : Inv d) (i : Id)
    (hi : i ∈ d.conns ∨ i ∈ d.cleanup) : Inv (callHandlersE1 v d i).1 := by
  unfold callHandlersE1
  dsimp only
  split
  · exact inv_callHandlersE0 hv h i hi
  · exact inv_notePending (inv_callHandlersE0 hv h i hi) v i

theorem others_callHandlersE1 (v : Variant) (d : Daemon) (i : Id) : Others i d (callHandlersE1 v d i).1 := by
  unfold callHandlersE1
  dsimp only
  split
  · exact others_callHandlersE0 v d i
  · exact Others.trans (others_callHandlersE0 v d i) (others_notePending v _ i i)

theorem inv_callHandlersE {v : Variant} (hv : v.actSorted = true) {d : Daemon} (h : Inv d) (i : Id)
    (hi : i ∈ d.conns ∨ i ∈ d.cleanup) : Inv (callHandlersE v d i).1 := by
  unfold callHandlersE
  dsimp only
  split
  · exact inv_eready_shrink (inv_callHandlersE1 hv h i hi) i
  · exact inv_callHandlersE1 hv h i hi

theorem others_callHandlersE (v : Variant) (d : Daemon) (i : Id) : Others i d (callHandlersE v d i).1 := by
  unfold callHandlersE
  dsimp only
  split
  · have o := others_callHandlersE1 v d i
    refine Others.trans o ⟨rfl, rfl, rfl, ⟨rfl, rfl⟩, ?_⟩
    intro j _; exact ⟨Iff.rfl, Iff.rfl, Iff.rfl, rfl⟩
  · exact others_callHandlersE1 v d i

theorem inv_procEready (v : Variant) (hv : v.actSorted = true) : ∀ (l : List Id) (d : Daemon), Inv d → l.Nodup →
    (∀ i, i ∈ l → i ∈ d.conns ∨ i ∈ d.cleanup) → Inv (procEready v l d).1
  | [], d, h, _, _ => by simpa [procEready] using h
  | i :: rest, d, h, hnd, hm => by
    unfold procEready seq2
    dsimp only
    have hi := hm i (List.mem_cons_self ..)
    have hnd' := List.nodup_cons.1 hnd
    refine inv_procEready v hv rest _ (inv_callHandlersE hv h i hi) hnd'.2 ?_
    intro j hj
    have hji : j ≠ i := fun e => hnd'.1 (e ▸ hj)
    have o := (others_callHandlersE v d i).2.2.2.2 j hji
    rcases hm j (List.mem_cons_of_mem _ hj) with x | x
    · exact Or.inl (o.1.2 x)
    · exact Or.inr (o.2.2.1.2 x)

theorem inv_roundEpoll {v : Variant} (hv : Fixed v) {d : Daemon} (h : Inv d) : Inv (roundEpoll v d).1 := by
  unfold roundEpoll seq2
  dsimp only
  have h1 : Inv (if d.cfg.allowSuspend then resumeSuspended v d else d) := by
    split; exact inv_resumeSuspended hv.2.2.2.2 h; exact h
  have h2 := inv_processNew hv (inv_epollWait (inv_flag h1 false))
  have h3 := inv_scanManual _ _ h2 (nodup_reverse' h2.ndManual)
    (fun i hi => (h2.connsIff i).2 (Or.inr (List.mem_reverse.1 hi)))
  have h4 := inv_scanNormal _ _ h3 (nodup_reverse' h3.ndNormal)
    (fun i hi => (h3.connsIff i).2 (Or.inl (List.mem_reverse.1 hi)))
  have h5 := inv_procEready v hv.2.2.2.2 _ _ h4 (nodup_reverse' h4.ndEready)
    (fun i hi => h4.ready i (Or.inl (List.mem_reverse.1 hi)))
  exact inv_cleanupAll h5

theorem inv_round {v : Variant} (hv : Fixed v) {d : Daemon} (h : Inv d) : Inv (round v d).1 := by
  unfold round
  split
  · exact inv_roundEpoll hv h
  · exact inv_roundSelect hv h

end Mhd.Tmo
