/-
  The primitive operations of the model preserve `Inv` (repaired variant).
-/
import Mhd.Proofs.TmoInv
namespace Mhd.Tmo
open Mhd.Gen.Tmo

@[simp] theorem mem_without {l : List Id} {i j : Id} : j ∈ without l i ↔ j ∈ l ∧ j ≠ i := by
  simp [without]

theorem nodup_without {l : List Id} (i : Id) (h : l.Nodup) : (without l i).Nodup :=
  List.Nodup.sublist List.filter_sublist h

/-! ### insSorted -/

theorem mem_insSorted (f : Id → Nat) (l : List Id) (i j : Id) : j ∈ insSorted f l i ↔ j = i ∨ j ∈ l := by
  induction l with
  | nil => simp [insSorted]
  | cons a t ih =>
    unfold insSorted
    split
    · simp [ih]; grind
    · simp

theorem nodup_insSorted (f : Id → Nat) (l : List Id) (i : Id) (hi : i ∉ l) (h : l.Nodup) :
    (insSorted f l i).Nodup := by
  induction l with
  | nil => simp [insSorted]
  | cons a t ih =>
    unfold insSorted
    have hnd := List.nodup_cons.1 h
    split
    · refine List.nodup_cons.2 ⟨?_, ih (by grind) hnd.2⟩
      rw [mem_insSorted]; grind
    · exact List.nodup_cons.2 ⟨hi, h⟩

theorem sorted_insSorted (f : Id → Nat) (l : List Id) (i : Id)
    (h : l.Pairwise (fun a b => f b ≤ f a)) : (insSorted f l i).Pairwise (fun a b => f b ≤ f a) := by
  induction l with
  | nil => simp [insSorted]
  | cons a t ih =>
    unfold insSorted
    have hp := List.pairwise_cons.1 h
    split
    · rename_i hlt
      refine List.pairwise_cons.2 ⟨?_, ih hp.2⟩
      intro b hb
      rcases (mem_insSorted f t i b).1 hb with e | e
      · subst e; omega
      · exact hp.1 b e
    · rename_i hnlt
      refine List.pairwise_cons.2 ⟨?_, h⟩
      intro b hb
      rcases List.mem_cons.1 hb with e | e
      · subst e; omega
      · have := hp.1 b e; omega

/-! ### stampIns -/

theorem mem_stampIns (v : Variant) (f : Id → Nat) (l : List Id) (i j : Id) :
    j ∈ stampIns v f l i ↔ j = i ∨ j ∈ l := by
  unfold stampIns
  split
  · exact mem_insSorted f l i j
  · simp

theorem stampIns_sorted {v : Variant} (hv : v.actSorted = true) (f : Id → Nat) (l : List Id) (i : Id) :
    stampIns v f l i = insSorted f l i := by
  simp [stampIns, hv]

/-! ### MHD_update_last_activity_ -/

theorem updateLastActivity_conns (v : Variant) (d : Daemon) (i : Id) : (updateLastActivity v d i).conns = d.conns := by
  unfold updateLastActivity Daemon.remNormal
  dsimp only
  split; rfl
  split; rfl
  split; rfl
  split <;> rfl

theorem inv_updateLastActivity {v : Variant} (hv : v.actSorted = true) {d : Daemon} (h : Inv d) (i : Id)
    (hi : i ∈ d.conns) : Inv (updateLastActivity v d i) := by
  by_cases h0 : (d.c i).tmo = 0
  · simp [updateLastActivity, h0]; exact h
  have hs : (d.c i).suspended = false := h.connsS i hi
  by_cases ht : (d.c i).tmo = d.cfg.dtmo
  · have hin : i ∈ d.normal := mem_normal_of_conns h hi ht
    have hnm : i ∉ d.manual := fun hm => h.manualT i hm ht
    have hd0 : d.cfg.dtmo ≠ 0 := ht ▸ h0
    have e : updateLastActivity v d i =
        { (d.set i { (d.c i) with la := d.now }) with
            normal := insSorted (d.set i { (d.c i) with la := d.now }).la (d.normal.erase i) i } := by
      simp [updateLastActivity, Daemon.remNormal, hd0, hs, ht, hin, stampIns, hv]
      rfl
    rw [e]
    have hne := List.Nodup.not_mem_erase (a := i) h.ndNormal
    apply inv_retime h i hi
    case hnormal =>
      simp only [set_c, if_true, ht]
      refine ⟨fun j => mem_insSorted _ _ _ _, nodup_insSorted _ _ _ hne (List.Nodup.erase i h.ndNormal), ?_⟩
      intro hd
      apply sorted_insSorted
      refine sorted_congr ?_ (List.Pairwise.sublist List.erase_sublist (h.sorted hd))
      intro a ha
      have hai : a ≠ i := fun e => hne (e ▸ ha)
      simp [hai]
    case hmanual => simp [ht, List.erase_of_not_mem hnm]
    case hnde => exact h.ndEready
    case hnep => exact h.nonEpoll
    case hrdy => intro j hj; right; exact hj
    case hc => intro j hj; simp [hj]
    case hxs => simp [hs]
    case hxl => simp
    case hxt => simp only [set_c, if_true]; exact h.tmoB i
    all_goals rfl
  · have hnn : i ∉ d.normal := fun hm => ht (h.normalT i hm)
    have hmm : i ∈ d.manual := mem_manual_of_conns h hi ht
    have e : updateLastActivity v d i = d.set i { (d.c i) with la := d.now } := by
      simp [updateLastActivity, h0, hs, ht]
    rw [e]
    apply inv_retime h i hi
    case hnormal => simp [ht, List.erase_of_not_mem hnn]
    case hmanual =>
      simp only [set_c, if_true, ht, if_false, set_manual]
      refine ⟨?_, h.ndManual⟩
      intro j; have := List.Nodup.mem_erase_iff (a := j) (b := i) h.ndManual; grind
    case hnde => exact h.ndEready
    case hnep => exact h.nonEpoll
    case hrdy => intro j hj; right; exact hj
    case hc => intro j hj; simp [hj]
    case hxs => simp [hs]
    case hxl => simp
    case hxt => simp only [set_c, if_true]; exact h.tmoB i
    all_goals rfl


/-! ### frames: what an operation on connection `i` leaves alone -/

/-- everything about connections other than `i` that later steps rely on is unchanged -/
def Others (i : Id) (d d' : Daemon) : Prop :=
  d'.used = d.used ∧ d'.newL = d.newL ∧ d'.cfg = d.cfg ∧ (d'.now = d.now ∧ d'.back = d.back) ∧
  ∀ j, j ≠ i → (j ∈ d'.conns ↔ j ∈ d.conns) ∧ (j ∈ d'.susp ↔ j ∈ d.susp) ∧ (j ∈ d'.cleanup ↔ j ∈ d.cleanup) ∧
    d'.c j = d.c j

theorem Others.refl (i : Id) (d : Daemon) : Others i d d := by
  refine ⟨rfl, rfl, rfl, ⟨rfl, rfl⟩, ?_⟩; intro j _; simp

theorem Others.trans {i : Id} {a b c : Daemon} (h1 : Others i a b) (h2 : Others i b c) : Others i a c := by
  obtain ⟨a1, a2, a3, a4, a5⟩ := h1
  obtain ⟨b1, b2, b3, b4, b5⟩ := h2
  refine ⟨by rw [b1, a1], by rw [b2, a2], by rw [b3, a3], ⟨by rw [b4.1, a4.1], by rw [b4.2, a4.2]⟩, ?_⟩
  intro j hj
  have x := a5 j hj; have y := b5 j hj
  refine ⟨by rw [y.1, x.1], by rw [y.2.1, x.2.1], by rw [y.2.2.1, x.2.2.1], by rw [y.2.2.2, x.2.2.2]⟩

theorem others_set (i : Id) (d : Daemon) (x : Conn) : Others i d (d.set i x) := by
  refine ⟨rfl, rfl, rfl, ⟨rfl, rfl⟩, ?_⟩; intro j hj; simp [hj]

theorem mem_erase_ne {l : List Id} {i j : Id} (hj : j ≠ i) : j ∈ l.erase i ↔ j ∈ l :=
  List.mem_erase_of_ne hj

theorem others_updateLastActivity (v : Variant) (d : Daemon) (i : Id) : Others i d (updateLastActivity v d i) := by
  unfold updateLastActivity Daemon.remNormal
  dsimp only
  split; exact Others.refl i d
  split; exact Others.refl i d
  split; exact others_set i d _
  split
  · refine ⟨rfl, rfl, rfl, ⟨rfl, rfl⟩, ?_⟩; intro j hj; simp [hj]
  · refine ⟨rfl, rfl, rfl, ⟨rfl, rfl⟩, ?_⟩; intro j hj; simp [hj]

/-! ### MHD_set_connection_option -/

theorem inv_setTimeout {v : Variant} (hv : Fixed v) {d : Daemon} (h : Inv d) (i : Id) (s : Nat)
    (hst : i ∈ d.conns ∨ i ∈ d.susp) (hsb : s ≤ 4000000) : Inv (setTimeout v d i s) := by
  obtain ⟨v1, v2, _, _, _⟩ := hv
  have hT : s * msPerSec ≤ tmoMax := by simp only [tmoMax]; exact Nat.mul_le_mul_right _ hsb
  have hla : (if (d.c i).tmo = 0 then d.now else (d.c i).la) ≤ d.now + d.back := by
    split; exact Nat.le_add_right _ _; exact h.laLe i
  rcases hst with hi | hi
  · -- a live connection: taken out of its list, re-timed, put on the matching list
    have hs : (d.c i).suspended = false := h.connsS i hi
    have hnde := h.ndEready
    by_cases ht : (d.c i).tmo = d.cfg.dtmo
    · have hin : i ∈ d.normal := mem_normal_of_conns h hi ht
      have hnm : i ∉ d.manual := fun hm => h.manualT i hm ht
      have hne := List.Nodup.not_mem_erase (a := i) h.ndNormal
      by_cases hn : s * msPerSec = d.cfg.dtmo
      · apply inv_retime h i hi
        case hnormal =>
          simp only [setTimeout, hs, hn, v1, if_true, set_c, Daemon.remTimeout, ht, set_cfg,
            Daemon.remNormal, set_normal, hin]
          refine ⟨?_, ?_, ?_⟩
          · intro j; rw [mem_insSorted]
          · exact nodup_insSorted _ _ _ hne (List.Nodup.erase i h.ndNormal)
          · intro hd
            apply sorted_insSorted
            refine sorted_congr ?_ (List.Pairwise.sublist List.erase_sublist (h.sorted hd))
            intro a ha
            have hai : a ≠ i := fun e => hne (e ▸ ha)
            simp [hai]
        case hmanual =>
          simp [setTimeout, hs, hn, Daemon.remTimeout, ht, Daemon.remNormal, hin, List.erase_of_not_mem hnm]
        case hnde => simpa [setTimeout, hs, hn, Daemon.remTimeout, ht, Daemon.remNormal, hin] using hnde
        case hnep => simpa [setTimeout, hs, hn, Daemon.remTimeout, ht, Daemon.remNormal, hin] using h.nonEpoll
        case hrdy =>
          intro j hj; right
          simpa [setTimeout, hs, hn, Daemon.remTimeout, ht, Daemon.remNormal, hin] using hj
        case hc => intro j hj; simp [setTimeout, hs, hn, Daemon.remTimeout, ht, Daemon.remNormal, hin, hj]
        case hxs => simp [setTimeout, hs, hn, Daemon.remTimeout, ht, Daemon.remNormal, hin]
        case hxl => simpa [setTimeout, hs, hn, Daemon.remTimeout, ht, Daemon.remNormal, hin] using hla
        case hxt => simpa [setTimeout, hs, hn, Daemon.remTimeout, ht, Daemon.remNormal, hin] using h.dtmoB
        all_goals simp [setTimeout, hs, hn, Daemon.remTimeout, ht, Daemon.remNormal, hin]
      · apply inv_retime h i hi
        case hnormal => simp [setTimeout, hs, hn, Daemon.remTimeout, ht, Daemon.remNormal, hin]
        case hmanual =>
          simp only [setTimeout, hs, hn, if_true, if_false, set_c, Daemon.remTimeout, ht, set_cfg,
            Daemon.remNormal, set_normal, hin, set_manual, List.erase_of_not_mem hnm]
          exact ⟨fun j => by simp, List.nodup_cons.2 ⟨hnm, h.ndManual⟩⟩
        case hnde => simpa [setTimeout, hs, hn, Daemon.remTimeout, ht, Daemon.remNormal, hin] using hnde
        case hnep => simpa [setTimeout, hs, hn, Daemon.remTimeout, ht, Daemon.remNormal, hin] using h.nonEpoll
        case hrdy =>
          intro j hj; right
          simpa [setTimeout, hs, hn, Daemon.remTimeout, ht, Daemon.remNormal, hin] using hj
        case hc => intro j hj; simp [setTimeout, hs, hn, Daemon.remTimeout, ht, Daemon.remNormal, hin, hj]
        case hxs => simp [setTimeout, hs, hn, Daemon.remTimeout, ht, Daemon.remNormal, hin]
        case hxl => simpa [setTimeout, hs, hn, Daemon.remTimeout, ht, Daemon.remNormal, hin] using hla
        case hxt => simpa [setTimeout, hs, hn, Daemon.remTimeout, ht, Daemon.remNormal, hin] using hT
        all_goals simp [setTimeout, hs, hn, Daemon.remTimeout, ht, Daemon.remNormal, hin]
    · have hnn : i ∉ d.normal := fun hm => ht (h.normalT i hm)
      have hmm : i ∈ d.manual := mem_manual_of_conns h hi ht
      have hne := List.Nodup.not_mem_erase (a := i) h.ndManual
      by_cases hn : s * msPerSec = d.cfg.dtmo
      · apply inv_retime h i hi
        case hnormal =>
          simp only [setTimeout, hs, hn, v1, if_true, set_c, Daemon.remTimeout, ht, if_false, set_cfg,
            Daemon.remManual, set_normal, hmm, List.erase_of_not_mem hnn]
          refine ⟨?_, ?_, ?_⟩
          · intro j; rw [mem_insSorted]
          · exact nodup_insSorted _ _ _ hnn h.ndNormal
          · intro hd
            apply sorted_insSorted
            refine sorted_congr ?_ (h.sorted hd)
            intro a ha
            have hai : a ≠ i := fun e => hnn (e ▸ ha)
            simp [hai]
        case hmanual => simp [setTimeout, hs, hn, Daemon.remTimeout, ht, Daemon.remManual, hmm]
        case hnde => simpa [setTimeout, hs, hn, Daemon.remTimeout, ht, Daemon.remManual, hmm] using hnde
        case hnep => simpa [setTimeout, hs, hn, Daemon.remTimeout, ht, Daemon.remManual, hmm] using h.nonEpoll
        case hrdy =>
          intro j hj; right
          simpa [setTimeout, hs, hn, Daemon.remTimeout, ht, Daemon.remManual, hmm] using hj
        case hc => intro j hj; simp [setTimeout, hs, hn, Daemon.remTimeout, ht, Daemon.remManual, hmm, hj]
        case hxs => simp [setTimeout, hs, hn, Daemon.remTimeout, ht, Daemon.remManual, hmm]
        case hxl => simpa [setTimeout, hs, hn, Daemon.remTimeout, ht, Daemon.remManual, hmm] using hla
        case hxt => simpa [setTimeout, hs, hn, Daemon.remTimeout, ht, Daemon.remManual, hmm] using h.dtmoB
        all_goals simp [setTimeout, hs, hn, Daemon.remTimeout, ht, Daemon.remManual, hmm]
      · apply inv_retime h i hi
        case hnormal =>
          simp [setTimeout, hs, hn, Daemon.remTimeout, ht, Daemon.remManual, hmm, List.erase_of_not_mem hnn]
        case hmanual =>
          simp only [setTimeout, hs, hn, if_true, if_false, set_c, Daemon.remTimeout, ht, set_cfg,
            Daemon.remManual, set_normal, hmm, set_manual]
          exact ⟨fun j => by simp, List.nodup_cons.2 ⟨hne, List.Nodup.erase i h.ndManual⟩⟩
        case hnde => simpa [setTimeout, hs, hn, Daemon.remTimeout, ht, Daemon.remManual, hmm] using hnde
        case hnep => simpa [setTimeout, hs, hn, Daemon.remTimeout, ht, Daemon.remManual, hmm] using h.nonEpoll
        case hrdy =>
          intro j hj; right
          simpa [setTimeout, hs, hn, Daemon.remTimeout, ht, Daemon.remManual, hmm] using hj
        case hc => intro j hj; simp [setTimeout, hs, hn, Daemon.remTimeout, ht, Daemon.remManual, hmm, hj]
        case hxs => simp [setTimeout, hs, hn, Daemon.remTimeout, ht, Daemon.remManual, hmm]
        case hxl => simpa [setTimeout, hs, hn, Daemon.remTimeout, ht, Daemon.remManual, hmm] using hla
        case hxt => simpa [setTimeout, hs, hn, Daemon.remTimeout, ht, Daemon.remManual, hmm] using hT
        all_goals simp [setTimeout, hs, hn, Daemon.remTimeout, ht, Daemon.remManual, hmm]
  · -- a suspended connection is in no timeout list: only its record changes
    have hs : (d.c i).suspended = true := h.suspS i hi
    have hnc : i ∉ d.conns := fun hc => by have := h.connsS i hc; simp [hs] at this
    have hnn : i ∉ d.newL := fun hc => (h.disjNew i hc).2.1 hi
    apply inv_offlist h i hnc hnn
    case hnde => simpa [setTimeout, hs, v2] using h.ndEready
    case hnep => simpa [setTimeout, hs, v2] using h.nonEpoll
    case hrdy => intro j hj; simpa [setTimeout, hs, v2] using hj
    case hc => intro j hj; simp [setTimeout, hs, v2, hj]
    case hxs => left; simp [setTimeout, hs, v2]
    case hxl => simpa [setTimeout, hs, v2] using hla
    case hxt => simpa [setTimeout, hs, v2] using hT
    all_goals simp [setTimeout, hs, v2]


theorem others_setTimeout (v : Variant) (d : Daemon) (i : Id) (s : Nat) : Others i d (setTimeout v d i s) := by
  unfold setTimeout Daemon.remTimeout Daemon.remNormal Daemon.remManual
  dsimp only
  repeat' split
  all_goals (refine ⟨rfl, rfl, rfl, ⟨rfl, rfl⟩, ?_⟩; intro j hj; simp [hj])

/-! ### internal_suspend_connection_ -/

theorem others_internalSuspend (d : Daemon) (i : Id) : Others i d (internalSuspend d i) := by
  unfold internalSuspend Daemon.remTimeout Daemon.remNormal Daemon.remManual Daemon.remConns
  dsimp only
  repeat' split
  all_goals (refine ⟨rfl, rfl, rfl, ⟨rfl, rfl⟩, ?_⟩; intro j hj; simp [hj, mem_erase_ne hj])

theorem inv_internalSuspend {d : Daemon} (h : Inv d) (i : Id) (hi : i ∈ d.conns) :
    Inv (internalSuspend d i) := by
  by_cases hr : (d.c i).resuming = true
  · simp only [internalSuspend, hr, if_true]
    exact inv_set_iness h i _ rfl rfl rfl
  have hs : (d.c i).suspended = false := h.connsS i hi
  have key : ∀ (l : List Id), i ∉ l → l.erase i = l := fun l hl => List.erase_of_not_mem hl
  by_cases he : d.cfg.epoll = true
  · by_cases ht : (d.c i).tmo = d.cfg.dtmo
    · have hin : i ∈ d.normal := mem_normal_of_conns h hi ht
      have hnm : i ∉ d.manual := fun hm => h.manualT i hm ht
      apply inv_deactivate h i hi true
      case hnde =>
        simp [internalSuspend, hr, Daemon.remTimeout, ht, Daemon.remNormal, hin, Daemon.remConns, hi, he]
        exact nodup_without i h.ndEready
      case hnep => simp [internalSuspend, hr, Daemon.remTimeout, ht, Daemon.remNormal, hin, Daemon.remConns, hi, he]
      case hrdy =>
        intro j hj
        simp [internalSuspend, hr, Daemon.remTimeout, ht, Daemon.remNormal, hin, Daemon.remConns, hi, he] at hj
        grind
      case hc =>
        intro j hj
        simp [internalSuspend, hr, Daemon.remTimeout, ht, Daemon.remNormal, hin, Daemon.remConns, hi, he, hj]
      all_goals
        simp [internalSuspend, hr, Daemon.remTimeout, ht, Daemon.remNormal, hin, Daemon.remConns, hi, he, key _ hnm]
    · have hnn : i ∉ d.normal := fun hm => ht (h.normalT i hm)
      have hmm : i ∈ d.manual := mem_manual_of_conns h hi ht
      apply inv_deactivate h i hi true
      case hnde =>
        simp [internalSuspend, hr, Daemon.remTimeout, ht, Daemon.remManual, hmm, Daemon.remConns, hi, he]
        exact nodup_without i h.ndEready
      case hnep => simp [internalSuspend, hr, Daemon.remTimeout, ht, Daemon.remManual, hmm, Daemon.remConns, hi, he]
      case hrdy =>
        intro j hj
        simp [internalSuspend, hr, Daemon.remTimeout, ht, Daemon.remManual, hmm, Daemon.remConns, hi, he] at hj
        grind
      case hc =>
        intro j hj
        simp [internalSuspend, hr, Daemon.remTimeout, ht, Daemon.remManual, hmm, Daemon.remConns, hi, he, hj]
      all_goals
        simp [internalSuspend, hr, Daemon.remTimeout, ht, Daemon.remManual, hmm, Daemon.remConns, hi, he, key _ hnn]
  · have he' : d.cfg.epoll = false := by simpa using he
    obtain ⟨e1, e2⟩ := h.nonEpoll he'
    by_cases ht : (d.c i).tmo = d.cfg.dtmo
    · have hin : i ∈ d.normal := mem_normal_of_conns h hi ht
      have hnm : i ∉ d.manual := fun hm => h.manualT i hm ht
      apply inv_deactivate h i hi true
      case hnde =>
        simp [internalSuspend, hr, Daemon.remTimeout, ht, Daemon.remNormal, hin, Daemon.remConns, hi, he', e1]
      case hnep => simp [internalSuspend, hr, Daemon.remTimeout, ht, Daemon.remNormal, hin, Daemon.remConns, hi, he', e1, e2]
      case hrdy =>
        intro j hj
        simp [internalSuspend, hr, Daemon.remTimeout, ht, Daemon.remNormal, hin, Daemon.remConns, hi, he', e1, e2] at hj
      case hc =>
        intro j hj
        simp [internalSuspend, hr, Daemon.remTimeout, ht, Daemon.remNormal, hin, Daemon.remConns, hi, he', hj]
      all_goals
        simp [internalSuspend, hr, Daemon.remTimeout, ht, Daemon.remNormal, hin, Daemon.remConns, hi, he', key _ hnm]
    · have hnn : i ∉ d.normal := fun hm => ht (h.normalT i hm)
      have hmm : i ∈ d.manual := mem_manual_of_conns h hi ht
      apply inv_deactivate h i hi true
      case hnde =>
        simp [internalSuspend, hr, Daemon.remTimeout, ht, Daemon.remManual, hmm, Daemon.remConns, hi, he', e1]
      case hnep => simp [internalSuspend, hr, Daemon.remTimeout, ht, Daemon.remManual, hmm, Daemon.remConns, hi, he', e1, e2]
      case hrdy =>
        intro j hj
        simp [internalSuspend, hr, Daemon.remTimeout, ht, Daemon.remManual, hmm, Daemon.remConns, hi, he', e1, e2] at hj
      case hc =>
        intro j hj
        simp [internalSuspend, hr, Daemon.remTimeout, ht, Daemon.remManual, hmm, Daemon.remConns, hi, he', hj]
      all_goals
        simp [internalSuspend, hr, Daemon.remTimeout, ht, Daemon.remManual, hmm, Daemon.remConns, hi, he', key _ hnn]


/-! ### cleanup_connection -/

theorem others_cleanupConnection (d : Daemon) (i : Id) : Others i d (cleanupConnection d i) := by
  unfold cleanupConnection Daemon.remTimeout Daemon.remNormal Daemon.remManual Daemon.remConns Daemon.remSusp
  dsimp only
  repeat' split
  all_goals first
    | exact Others.refl i d
    | (refine ⟨rfl, rfl, rfl, ⟨rfl, rfl⟩, ?_⟩; intro j hj; simp [hj, mem_erase_ne hj]; try grind)

theorem inv_cleanupConnection {d : Daemon} (h : Inv d) (i : Id) (hi : i ∈ d.conns ∨ i ∈ d.cleanup) :
    Inv (cleanupConnection d i) := by
  by_cases hcl : i ∈ d.cleanup
  · simp [cleanupConnection, hcl]; exact h
  have hi : i ∈ d.conns := by rcases hi with x | x; exact x; exact absurd x hcl
  have hs : (d.c i).suspended = false := h.connsS i hi
  have key : ∀ (l : List Id), i ∉ l → l.erase i = l := fun l hl => List.erase_of_not_mem hl
  by_cases ht : (d.c i).tmo = d.cfg.dtmo
  · have hin : i ∈ d.normal := mem_normal_of_conns h hi ht
    have hnm : i ∉ d.manual := fun hm => h.manualT i hm ht
    apply inv_deactivate h i hi false
    case hnde => simpa [cleanupConnection, hcl, hs, Daemon.remTimeout, ht, Daemon.remNormal, hin, Daemon.remConns, hi] using h.ndEready
    case hnep => simpa [cleanupConnection, hcl, hs, Daemon.remTimeout, ht, Daemon.remNormal, hin, Daemon.remConns, hi] using h.nonEpoll
    case hrdy =>
      intro j hj
      simp [cleanupConnection, hcl, hs, Daemon.remTimeout, ht, Daemon.remNormal, hin, Daemon.remConns, hi] at hj
      exact ⟨Or.inr rfl, hj⟩
    case hc =>
      intro j hj
      simp [cleanupConnection, hcl, hs, Daemon.remTimeout, ht, Daemon.remNormal, hin, Daemon.remConns, hi, hj]
    all_goals
      simp [cleanupConnection, hcl, hs, Daemon.remTimeout, ht, Daemon.remNormal, hin, Daemon.remConns, hi, key _ hnm]
  · have hnn : i ∉ d.normal := fun hm => ht (h.normalT i hm)
    have hmm : i ∈ d.manual := mem_manual_of_conns h hi ht
    apply inv_deactivate h i hi false
    case hnde => simpa [cleanupConnection, hcl, hs, Daemon.remTimeout, ht, Daemon.remManual, hmm, Daemon.remConns, hi] using h.ndEready
    case hnep => simpa [cleanupConnection, hcl, hs, Daemon.remTimeout, ht, Daemon.remManual, hmm, Daemon.remConns, hi] using h.nonEpoll
    case hrdy =>
      intro j hj
      simp [cleanupConnection, hcl, hs, Daemon.remTimeout, ht, Daemon.remManual, hmm, Daemon.remConns, hi] at hj
      exact ⟨Or.inr rfl, hj⟩
    case hc =>
      intro j hj
      simp [cleanupConnection, hcl, hs, Daemon.remTimeout, ht, Daemon.remManual, hmm, Daemon.remConns, hi, hj]
    all_goals
      simp [cleanupConnection, hcl, hs, Daemon.remTimeout, ht, Daemon.remManual, hmm, Daemon.remConns, hi, key _ hnn]

theorem cleanupConnection_mem {d : Daemon} (h : Inv d) (i : Id) (hi : i ∈ d.conns ∨ i ∈ d.cleanup) :
    i ∈ (cleanupConnection d i).cleanup ∧ i ∉ (cleanupConnection d i).conns := by
  by_cases hcl : i ∈ d.cleanup
  · simp [cleanupConnection, hcl]; exact (h.disjClean i hcl).1
  have hi : i ∈ d.conns := by rcases hi with x | x; exact x; exact absurd x hcl
  have hs : (d.c i).suspended = false := h.connsS i hi
  have hne := List.Nodup.not_mem_erase (a := i) h.ndConns
  by_cases ht : (d.c i).tmo = d.cfg.dtmo
  · have hin : i ∈ d.normal := mem_normal_of_conns h hi ht
    simp [cleanupConnection, hcl, hs, Daemon.remTimeout, ht, Daemon.remNormal, hin, Daemon.remConns, hi, hne]
  · have hmm : i ∈ d.manual := mem_manual_of_conns h hi ht
    simp [cleanupConnection, hcl, hs, Daemon.remTimeout, ht, Daemon.remManual, hmm, Daemon.remConns, hi, hne]

/-! ### resume_suspended_connections -/

theorem others_resumeOne (v : Variant) (d : Daemon) (i : Id) : Others i d (resumeOne v d i) := by
  unfold resumeOne Daemon.remSusp Daemon.insTimeout
  dsimp only
  repeat' split
  all_goals first
    | exact Others.refl i d
    | (refine ⟨rfl, rfl, rfl, ⟨rfl, rfl⟩, ?_⟩; intro j hj; simp [hj, mem_erase_ne hj])

theorem inv_resumeOne {v : Variant} (hv : v.actSorted = true) {d : Daemon} (h : Inv d) (i : Id) (hi : i ∈ d.susp) :
    Inv (resumeOne v d i) := by
  by_cases hr : (d.c i).resuming = false
  · simp [resumeOne, hr]; exact h
  have hs : (d.c i).suspended = true := h.suspS i hi
  have hnc : i ∉ d.conns := fun hc => by have := h.connsS i hc; simp [hs] at this
  have hnn : i ∉ d.newL := fun hc => (h.disjNew i hc).2.1 hi
  have hncl : i ∉ d.cleanup := fun hc => (h.disjClean i hc).2 hi
  have hu : i ∈ d.used := h.usedAll i (Or.inr (Or.inr (Or.inl hi)))
  have hin : i ∉ d.normal := fun hm => hnc ((h.connsIff i).2 (Or.inl hm))
  have hne : i ∉ d.eready := fun he => by rcases h.ready i (Or.inl he) with x | x; exact hnc x; exact hncl x
  have hla : (if (d.c i).tmo = 0 then (d.c i).la else d.now) ≤ d.now + d.back := by
    split; exact h.laLe i; exact Nat.le_add_right _ _
  by_cases he : d.cfg.epoll = true
  · by_cases ht : (d.c i).tmo = d.cfg.dtmo
    · apply inv_activate h i hnc hncl hnn hu
      case hnde => simp [resumeOne, hr, Daemon.remSusp, hi, Daemon.insTimeout, he, ht]; exact ⟨hne, h.ndEready⟩
      case hnep => simp [resumeOne, hr, Daemon.remSusp, hi, Daemon.insTimeout, he, ht]
      case hrdy =>
        intro j hj; simp [resumeOne, hr, Daemon.remSusp, hi, Daemon.insTimeout, he, ht] at hj; grind
      case hc => intro j hj; simp [resumeOne, hr, Daemon.remSusp, hi, Daemon.insTimeout, he, ht, hj]
      case hxl => simpa [resumeOne, hr, Daemon.remSusp, hi, Daemon.insTimeout, he, ht] using hla
      case hxt => simpa [resumeOne, hr, Daemon.remSusp, hi, Daemon.insTimeout, he, ht] using h.dtmoB
      case hnormal =>
        have e1 : ((resumeOne v d i).c i).tmo = d.cfg.dtmo := by
          simp [resumeOne, hr, Daemon.remSusp, hi, Daemon.insTimeout, he, ht]
        have e2 : (resumeOne v d i).normal = insSorted (resumeOne v d i).la d.normal i := by
          simp [resumeOne, hr, Daemon.remSusp, hi, Daemon.insTimeout, he, ht, stampIns, hv]
          rfl
        rw [if_pos e1, e2]
        refine ⟨fun j => mem_insSorted _ _ _ _, nodup_insSorted _ _ _ hin h.ndNormal, fun hd => ?_⟩
        apply sorted_insSorted
        refine sorted_congr ?_ (h.sorted hd)
        intro a ha
        have hai : a ≠ i := fun e => hin (e ▸ ha)
        simp [resumeOne, hr, Daemon.remSusp, hi, Daemon.insTimeout, he, ht, hai]
      all_goals simp [resumeOne, hr, Daemon.remSusp, hi, Daemon.insTimeout, he, ht]
    · apply inv_activate h i hnc hncl hnn hu
      case hnde => simp [resumeOne, hr, Daemon.remSusp, hi, Daemon.insTimeout, he, ht]; exact ⟨hne, h.ndEready⟩
      case hnep => simp [resumeOne, hr, Daemon.remSusp, hi, Daemon.insTimeout, he, ht]
      case hrdy =>
        intro j hj; simp [resumeOne, hr, Daemon.remSusp, hi, Daemon.insTimeout, he, ht] at hj; grind
      case hc => intro j hj; simp [resumeOne, hr, Daemon.remSusp, hi, Daemon.insTimeout, he, ht, hj]
      case hxl => simpa [resumeOne, hr, Daemon.remSusp, hi, Daemon.insTimeout, he, ht] using hla
      case hxt => simpa [resumeOne, hr, Daemon.remSusp, hi, Daemon.insTimeout, he, ht] using h.tmoB i
      all_goals simp [resumeOne, hr, Daemon.remSusp, hi, Daemon.insTimeout, he, ht]
  · have he' : d.cfg.epoll = false := by simpa using he
    by_cases ht : (d.c i).tmo = d.cfg.dtmo
    · apply inv_activate h i hnc hncl hnn hu
      case hnde => simpa [resumeOne, hr, Daemon.remSusp, hi, Daemon.insTimeout, he', ht] using h.ndEready
      case hnep => simpa [resumeOne, hr, Daemon.remSusp, hi, Daemon.insTimeout, he', ht] using h.nonEpoll
      case hrdy =>
        intro j hj; simp [resumeOne, hr, Daemon.remSusp, hi, Daemon.insTimeout, he', ht] at hj; grind
      case hc => intro j hj; simp [resumeOne, hr, Daemon.remSusp, hi, Daemon.insTimeout, he', ht, hj]
      case hxl => simpa [resumeOne, hr, Daemon.remSusp, hi, Daemon.insTimeout, he', ht] using hla
      case hxt => simpa [resumeOne, hr, Daemon.remSusp, hi, Daemon.insTimeout, he', ht] using h.dtmoB
      case hnormal =>
        have e1 : ((resumeOne v d i).c i).tmo = d.cfg.dtmo := by
          simp [resumeOne, hr, Daemon.remSusp, hi, Daemon.insTimeout, he', ht]
        have e2 : (resumeOne v d i).normal = insSorted (resumeOne v d i).la d.normal i := by
          simp [resumeOne, hr, Daemon.remSusp, hi, Daemon.insTimeout, he', ht, stampIns, hv]
          rfl
        rw [if_pos e1, e2]
        refine ⟨fun j => mem_insSorted _ _ _ _, nodup_insSorted _ _ _ hin h.ndNormal, fun hd => ?_⟩
        apply sorted_insSorted
        refine sorted_congr ?_ (h.sorted hd)
        intro a ha
        have hai : a ≠ i := fun e => hin (e ▸ ha)
        simp [resumeOne, hr, Daemon.remSusp, hi, Daemon.insTimeout, he', ht, hai]
      all_goals simp [resumeOne, hr, Daemon.remSusp, hi, Daemon.insTimeout, he', ht]
    · apply inv_activate h i hnc hncl hnn hu
      case hnde => simpa [resumeOne, hr, Daemon.remSusp, hi, Daemon.insTimeout, he', ht] using h.ndEready
      case hnep => simpa [resumeOne, hr, Daemon.remSusp, hi, Daemon.insTimeout, he', ht] using h.nonEpoll
      case hrdy =>
        intro j hj; simp [resumeOne, hr, Daemon.remSusp, hi, Daemon.insTimeout, he', ht] at hj; grind
      case hc => intro j hj; simp [resumeOne, hr, Daemon.remSusp, hi, Daemon.insTimeout, he', ht, hj]
      case hxl => simpa [resumeOne, hr, Daemon.remSusp, hi, Daemon.insTimeout, he', ht] using hla
      case hxt => simpa [resumeOne, hr, Daemon.remSusp, hi, Daemon.insTimeout, he', ht] using h.tmoB i
      all_goals simp [resumeOne, hr, Daemon.remSusp, hi, Daemon.insTimeout, he', ht]


/-! ### new_connection_process_ -/

theorem others_processOneNew (v : Variant) (d : Daemon) (i : Id) : Others i d (processOneNew v d i) := by
  unfold processOneNew
  dsimp only
  repeat' split
  all_goals (refine ⟨rfl, rfl, rfl, ⟨rfl, rfl⟩, ?_⟩; intro j hj; simp [hj])

/-- what is known about a connection waiting in the queue of new connections -/
def Fresh (d : Daemon) (i : Id) : Prop :=
  i ∉ d.conns ∧ i ∉ d.susp ∧ i ∉ d.cleanup ∧ i ∉ d.newL ∧ i ∈ d.used ∧
    (d.c i).tmo = d.cfg.dtmo ∧ (d.c i).suspended = false

theorem inv_processOneNew {v : Variant} (hv : Fixed v) {d : Daemon} (h : Inv d) (i : Id) (hf : Fresh d i) :
    Inv (processOneNew v d i) := by
  obtain ⟨_, _, v3, _, v5⟩ := hv
  obtain ⟨hnc, hns, hncl, hnn, hu, ht, hs⟩ := hf
  have hin : i ∉ d.normal := fun hm => hnc ((h.connsIff i).2 (Or.inl hm))
  have hne : i ∉ d.eready := fun he => by rcases h.ready i (Or.inl he) with x | x; exact hnc x; exact hncl x
  have hla : (if (d.c i).tmo = 0 then (d.c i).la else d.now) ≤ d.now + d.back := by
    split; exact h.laLe i; exact Nat.le_add_right _ _
  have hse : d.susp.erase i = d.susp := List.erase_of_not_mem hns
  by_cases he : d.cfg.epoll = true
  · apply inv_activate h i hnc hncl hnn hu
    case hnde => simpa [processOneNew, he] using h.ndEready
    case hnep => simp [processOneNew, he]
    case hrdy => intro j hj; simp [processOneNew, he] at hj; grind
    case hc => intro j hj; simp [processOneNew, he, hj]
    case hxl => simpa [processOneNew, he, v3, ht] using hla
    case hxt => simpa [processOneNew, he, ht] using h.dtmoB
    case hnormal =>
      have e1 : ((processOneNew v d i).c i).tmo = d.cfg.dtmo := by simp [processOneNew, he, ht]
      have e2 : (processOneNew v d i).normal = insSorted (processOneNew v d i).la d.normal i := by
        simp [processOneNew, he, stampIns, v5]
        rfl
      rw [if_pos e1, e2]
      refine ⟨fun j => mem_insSorted _ _ _ _, nodup_insSorted _ _ _ hin h.ndNormal, fun hd => ?_⟩
      apply sorted_insSorted
      refine sorted_congr ?_ (h.sorted hd)
      intro a ha
      have hai : a ≠ i := fun e => hin (e ▸ ha)
      simp [processOneNew, he, hai]
    case hxs => simp [processOneNew, he, hs]
    all_goals simp [processOneNew, he, ht, hse]
  · have he' : d.cfg.epoll = false := by simpa using he
    apply inv_activate h i hnc hncl hnn hu
    case hnde => simpa [processOneNew, he'] using h.ndEready
    case hnep => simpa [processOneNew, he'] using h.nonEpoll
    case hrdy => intro j hj; simp [processOneNew, he'] at hj; grind
    case hc => intro j hj; simp [processOneNew, he', hj]
    case hxl => simpa [processOneNew, he', v3, ht] using hla
    case hxt => simpa [processOneNew, he', ht] using h.dtmoB
    case hnormal =>
      have e1 : ((processOneNew v d i).c i).tmo = d.cfg.dtmo := by simp [processOneNew, he', ht]
      have e2 : (processOneNew v d i).normal = insSorted (processOneNew v d i).la d.normal i := by
        simp [processOneNew, he', stampIns, v5]
        rfl
      rw [if_pos e1, e2]
      refine ⟨fun j => mem_insSorted _ _ _ _, nodup_insSorted _ _ _ hin h.ndNormal, fun hd => ?_⟩
      apply sorted_insSorted
      refine sorted_congr ?_ (h.sorted hd)
      intro a ha
      have hai : a ≠ i := fun e => hin (e ▸ ha)
      simp [processOneNew, he', hai]
    case hxs => simp [processOneNew, he', hs]
    all_goals simp [processOneNew, he', ht, hse]

/-! ### MHD_cleanup_connections -/

theorem others_freeOne (d : Daemon) (i : Id) : Others i d (freeOne d i) := by
  unfold freeOne
  refine ⟨rfl, rfl, rfl, ⟨rfl, rfl⟩, ?_⟩; intro j hj; simp [hj]

theorem inv_freeOne {d : Daemon} (h : Inv d) (i : Id) (hi : i ∈ d.cleanup) : Inv (freeOne d i) := by
  have hnc : i ∉ d.conns := (h.disjClean i hi).1
  have hns : i ∉ d.susp := (h.disjClean i hi).2
  have hnn : i ∉ d.newL := fun hc => (h.disjNew i hc).2.2 hi
  apply inv_offlist h i hnc hnn
  case hnde => simp [freeOne]; exact nodup_without i h.ndEready
  case hnep =>
    intro he; simp [freeOne] at he
    obtain ⟨e1, e2⟩ := h.nonEpoll he
    simp [freeOne, e1, e2, without]
  case hrdy => intro j hj; simp [freeOne] at hj; grind
  case hc => intro j hj; simp [freeOne, hj]
  case hxs => right; exact hns
  case hxl => simp [freeOne]
  case hxt => simp [freeOne]
  all_goals simp [freeOne]

theorem freeOne_not_ready (d : Daemon) (i : Id) : i ∉ (freeOne d i).eready ∧ i ∉ (freeOne d i).kq := by
  simp [freeOne]

/-! ### MHD_add_connection, the clock -/

theorem inv_arrive {d : Daemon} (h : Inv d) (i : Id) (hi : i ∉ d.used) : Inv (arrive d i) := by
  have a1 : i ∉ d.newL := fun x => hi (h.usedAll i (Or.inl x))
  have a2 : i ∉ d.conns := fun x => hi (h.usedAll i (Or.inr (Or.inl x)))
  have a3 : i ∉ d.susp := fun x => hi (h.usedAll i (Or.inr (Or.inr (Or.inl x))))
  have a4 : i ∉ d.cleanup := fun x => hi (h.usedAll i (Or.inr (Or.inr (Or.inr x))))
  have a5 : i ∉ d.normal := fun x => a2 ((h.connsIff i).2 (Or.inl x))
  have a6 : i ∉ d.manual := fun x => a2 ((h.connsIff i).2 (Or.inr x))
  constructor
  all_goals simp only [arrive, set_fault, set_conns, set_normal, set_manual, set_susp, set_newL, set_cleanup,
    set_used, set_eready, set_kq, set_cfg, set_now, set_c]
  case nofault => exact h.nofault
  case ndConns => exact h.ndConns
  case ndNormal => exact h.ndNormal
  case ndManual => exact h.ndManual
  case ndSusp => exact h.ndSusp
  case ndNew => exact List.nodup_cons.2 ⟨a1, h.ndNew⟩
  case ndClean => exact h.ndClean
  case ndEready => exact h.ndEready
  case nonEpoll => exact h.nonEpoll
  case dtmoB => exact h.dtmoB
  case ready => exact h.ready
  case connsIff => exact h.connsIff
  case sorted =>
    intro hd
    refine sorted_congr ?_ (h.sorted hd)
    intro a ha; have : a ≠ i := fun e => a5 (e ▸ ha); simp [this]
  all_goals
    intro j
    facts h j
    have hdb := h.dtmoB
    by_cases e : j = i
    · subst e; first | (simp; done) | (simp; grind) | grind
    · first | (simp [e]; done) | (simp [e]; grind) | grind

theorem inv_tick {d : Daemon} (h : Inv d) (ms : Nat) : Inv { d with now := d.now + ms, back := d.back - ms } := by
  constructor
  case laLe => intro j; have := h.laLe j; simp only; omega
  all_goals first
    | exact h.nofault | exact h.ndConns | exact h.ndNormal | exact h.ndManual | exact h.ndSusp
    | exact h.ndNew | exact h.ndClean | exact h.ndEready | exact h.connsIff | exact h.normalT | exact h.manualT
    | exact h.connsS | exact h.suspS | exact h.newT | exact h.disjNew | exact h.disjClean
    | exact h.usedAll | exact h.ready | exact h.nonEpoll | exact h.sorted | exact h.tmoB | exact h.dtmoB

/-- the clock steps back: the ghost displacement grows by the same amount -/
theorem inv_tickback {d : Daemon} (h : Inv d) (ms : Nat) (hms : ms ≤ d.now) :
    Inv { d with now := d.now - ms, back := d.back + ms } := by
  constructor
  case laLe => intro j; have := h.laLe j; simp only; omega
  all_goals first
    | exact h.nofault | exact h.ndConns | exact h.ndNormal | exact h.ndManual | exact h.ndSusp
    | exact h.ndNew | exact h.ndClean | exact h.ndEready | exact h.connsIff | exact h.normalT | exact h.manualT
    | exact h.connsS | exact h.suspS | exact h.newT | exact h.disjNew | exact h.disjClean
    | exact h.usedAll | exact h.ready | exact h.nonEpoll | exact h.sorted | exact h.tmoB | exact h.dtmoB

end Mhd.Tmo
