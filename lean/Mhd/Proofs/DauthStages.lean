/-
  C12 proofs: every clause of `expectedClass`, characterised (`…_iff`), and the fact that a
  failing clause never yields the class `ok` (`…_nook`).
-/
import Mhd.Proofs.DauthSem
namespace Mhd.Dauth
open Mhd.Auth Mhd.Gen.Auth Mhd.Gen.Dauth

theorem stageAlgoN_iff (call : Call) (x : Nat) (a : Algo) :
    stageAlgoN call x = .ok a ↔
      x ≠ algoInvalid ∧ x = (x &&& call.malgo3) ∧ (x &&& algoSession) = 0 ∧ baseAlgo x = some a := by
  unfold stageAlgoN
  by_cases h1 : x = algoInvalid
  · simp [h1]
  · by_cases h2 : x ≠ (x &&& call.malgo3)
    · simp [h1, h2]
    · by_cases h3 : (x &&& algoSession) ≠ 0
      · simp [h1, h2, h3]
      · simp only [ne_eq, Decidable.not_not] at h2 h3
        cases hb : baseAlgo x with
        | none => simp [h1, ← h2, h3]
        | some b => simp [h1, ← h2, h3]

theorem stageQopN_iff (call : Call) (q : Nat) :
    stageQopN call q = .ok () ↔ q ≠ qopInvalid ∧ q = (q &&& call.mqop) ∧ (q &&& qopAuthInt) = 0 := by
  unfold stageQopN
  by_cases h1 : q = qopInvalid
  · simp [h1]
  · by_cases h2 : q ≠ (q &&& call.mqop)
    · simp [h1, h2]
    · by_cases h3 : (q &&& qopAuthInt) ≠ 0
      · simp [h1, h2, h3]
      · simp only [ne_eq, Decidable.not_not] at h2 h3
        simp [h1, ← h2, h3]

theorem specRealm_iff (call : Call) (c : Cred) : specRealm call c = .ok () ↔ c.val kRealm = some call.realm := by
  unfold specRealm
  cases c.val kRealm with
  | none => simp [needV, bind, Except.bind]
  | some v =>
    by_cases h : v = call.realm <;> simp [needV, bind, Except.bind, h]

theorem specNc_iff (maxNc : Nat) (c : Cred) (nci : Nat) :
    specNc maxNc c = .ok nci ↔
      (c.qop = qopNone ∧ nci = 1) ∨
      (c.qop ≠ qopNone ∧ ∃ txt, c.val kNc = some txt ∧ txt ≠ [] ∧ Mhd.Nonce.parseNc txt = some nci ∧ nci ≠ 0 ∧
        (maxNc = 0 ∨ nci ≤ maxNc)) := by
  unfold specNc
  by_cases hq : c.qop ≠ qopNone
  · simp only [hq, if_true, ne_eq, false_and, not_false_eq_true, true_and, false_or]
    · cases hv : c.val kNc with
      | none => simp [needV, bind, Except.bind]
      | some txt =>
        simp only [needV, bind, Except.bind, Option.some.injEq, exists_eq_left']
        by_cases h0 : txt.length = 0
        · have : txt = [] := List.length_eq_zero_iff.mp h0
          simp [this]
        · have hne : txt ≠ [] := fun h => h0 (by simp [h])
          simp only [h0, if_false, hne, not_false_eq_true, true_and]
          cases hp : Mhd.Nonce.parseNc txt with
          | none => simp
          | some v =>
            by_cases hz : v = 0
            · simp [hz]
              intro h; omega
            · by_cases hm : maxNc ≠ 0 ∧ maxNc < v
              · simp [hz, hm]
                intro h; subst h; omega
              · simp only [hz, hm, if_false, Except.ok.injEq, Option.some.injEq]
                constructor
                · rintro rfl; exact ⟨rfl, hz, by omega⟩
                · rintro ⟨rfl, _, _⟩; rfl
  · simp only [ne_eq, Decidable.not_not] at hq
    simp [hq]
    exact eq_comm

theorem specNonce_iff (a : Algo) (now timeout : Nat) (c : Cred) (n : Bytes) (t : Nat) :
    specNonce a now timeout c = .ok (n, t) ↔
      c.val kNonce = some n ∧ n.length = a.stdLen ∧ Mhd.Nonce.getNonceTimestamp n n.length = .ts t ∧
      ¬ Mhd.Nonce.trim (Mhd.Nonce.sub64 now t) > (timeout * 1000) % 2 ^ Mhd.Gen.Nonce.timeoutBits := by
  unfold specNonce
  cases hv : c.val kNonce with
  | none => simp [needV, bind, Except.bind]
  | some m =>
    simp only [needV, bind, Except.bind, Option.some.injEq]
    by_cases hl : a.stdLen ≠ m.length
    · simp [hl]
      intro h; subst h; intro h2; exact absurd h2.symm hl
    · simp only [ne_eq, Decidable.not_not] at hl
      simp only [hl, ne_eq, not_true_eq_false, if_false]
      cases hg : Mhd.Nonce.getNonceTimestamp m m.length with
      | fault => simp; intro h; subst h; simp [hg]
      | invalid => simp; intro h; subst h; simp [hg]
      | ts t' =>
        simp only
        by_cases hs : Mhd.Nonce.trim (Mhd.Nonce.sub64 now t') > (timeout * 1000) % 2 ^ Mhd.Gen.Nonce.timeoutBits
        · simp [hs]
          intro h; subst h; intro _; simp [hg]; intro h; subst h; exact hs
        · simp only [hs, if_false, Except.ok.injEq, Prod.mk.injEq]
          constructor
          · rintro ⟨rfl, rfl⟩; exact ⟨rfl, rfl, hg, hs⟩
          · rintro ⟨rfl, _, h3, _⟩
            rw [hg] at h3; injection h3 with h3; exact ⟨rfl, h3⟩


theorem specUri_iff (cfg : Cfg) (r : Req) (c : Cred) (lv : LenView) (u : Bytes) :
    specUri cfg r c lv = .ok u ↔
      c.val kUri = some u ∧ noBuffer ((lv kUri).getD 0 + 1) = false ∧
      checkUriMatch cfg.strictUnescape u r.url r.args = true := by
  unfold specUri
  cases hv : c.val kUri with
  | none => simp [needV, bind, Except.bind]
  | some w =>
    cases hb : noBuffer ((lv kUri).getD 0 + 1) <;>
    cases hm : checkUriMatch cfg.strictUnescape w r.url r.args <;>
    simp [needV, bind, Except.bind, hb, hm]
    · intro h; subst h; simp [hm]
    · rintro rfl; exact hm

theorem specQopPart_iff (c : Cred) (mid : Bytes) :
    specQopPart c = .ok mid ↔
      (c.qop = qopNone ∧ mid = []) ∨
      (c.qop ≠ qopNone ∧ ∃ nc cn q, c.val kNc = some nc ∧ c.val kCnonce = some cn ∧ c.val kQop = some q ∧
        mid = nc ++ 58 :: (cn ++ 58 :: (q ++ [58]))) := by
  unfold specQopPart
  by_cases hq : c.qop ≠ qopNone
  · simp only [hq, if_true, ne_eq, false_and, not_false_eq_true, true_and, false_or]
    cases h1 : c.val kNc <;> cases h2 : c.val kCnonce <;> cases h3 : c.val kQop <;>
      simp [needV, bind, Except.bind]
    exact eq_comm
  · simp only [ne_eq, Decidable.not_not] at hq
    simp [hq]

theorem specBind_iff (cfg : Cfg) (a : Algo) (r : Req) (call : Call) (c : Cred) (t : Nat) :
    specBind cfg a r call c t = .ok () ↔
      (cfg.bindType ≠ bindNone → ∃ nn, calcNonce cfg r call.realm a t = some nn ∧ c.val kNonce = some nn) := by
  unfold specBind
  by_cases hb : cfg.bindType ≠ bindNone
  · simp only [hb, if_true, ne_eq, not_false_eq_true, forall_const]
    cases h1 : calcNonce cfg r call.realm a t with
    | none => simp
    | some nn =>
      cases h2 : c.val kNonce with
      | none => simp [needV, bind, Except.bind]
      | some n =>
        by_cases h : n = nn
        · simp [needV, bind, Except.bind, h]
        · simp [needV, bind, Except.bind, h]
  · simp [hb]

theorem specResponse_iff (a : Algo) (r : Req) (call : Call) (c : Cred) (uri : Bytes) :
    specResponse a r call c uri = .ok () ↔
      ∃ h1 resp bin nonce mid, ha1Hex a call = .ok h1 ∧ c.val kResponse = some resp ∧ resp.length ≤ a.size * 2 ∧
        hexToBin resp = some bin ∧ bin.length = a.size ∧ c.val kNonce = some nonce ∧ specQopPart c = .ok mid ∧
        bin = rfcResponse a h1 nonce mid uri r.method := by
  unfold specResponse
  cases e1 : ha1Hex a call with
  | error e => simp [bind, Except.bind]
  | ok h1 =>
    cases e2 : c.val kResponse with
    | none => simp [needV, bind, Except.bind]
    | some resp =>
      by_cases hl : a.size * 2 < resp.length
      · simp [needV, bind, Except.bind, hl]; intro _ h; omega
      · have hl' : resp.length ≤ a.size * 2 := by omega
        cases e3 : hexToBin resp with
        | none => simp [needV, bind, Except.bind, hl, e3]
        | some bin =>
          by_cases hb : bin.length = a.size
          · cases e4 : c.val kNonce with
            | none => simp [needV, bind, Except.bind, hl, e3, hb, e4]
            | some nonce =>
              cases e5 : specQopPart c with
              | error e => simp [needV, bind, Except.bind, hl, e3, hb, e4, e5]
              | ok mid =>
                by_cases he : bin = rfcResponse a h1 nonce mid uri r.method
                · simp [needV, bind, Except.bind, hl, e3, hb, e4, e5, hl']
                  intro h; rw [← h]; exact hb
                · simp [needV, bind, Except.bind, hl, e3, hb, e4, e5, he]
          · simp [needV, bind, Except.bind, hl, e3, hb]

/-- an `Except Res` computation never fails with the class `ok` -/
def NoOkErr {α : Type} (x : Except Res α) : Prop := ∀ e, x = .error e → e ≠ .ok

theorem NoOkErr.bind {α β : Type} {x : Except Res α} {f : α → Except Res β} (hx : NoOkErr x) (hf : ∀ a, NoOkErr (f a)) :
    NoOkErr (x >>= f) := by
  intro e h
  cases x with
  | error e' => simp [Bind.bind, Except.bind] at h; subst h; exact hx e' rfl
  | ok a => exact hf a e h

theorem noOk_ok {α : Type} (a : α) : NoOkErr (Except.ok a : Except Res α) := by intro e h; cases h
theorem noOk_err {α : Type} (r : Res) (h : r ≠ .ok) : NoOkErr (Except.error r : Except Res α) := by
  intro e he; cases he; exact h

macro "nook" : tactic => `(tactic| (intro e h; repeat' split at h; all_goals (first | (cases h; done) | (injection h with h; subst h; simp) | skip)))

theorem stageAlgoN_nook (call : Call) (x : Nat) : NoOkErr (stageAlgoN call x) := by unfold stageAlgoN; nook
theorem stageQopN_nook (call : Call) (x : Nat) : NoOkErr (stageQopN call x) := by unfold stageQopN; nook
theorem presUsername_nook (ds : Nat) (lv : LenView) (uh : Bool) : NoOkErr (presUsername ds lv uh) := by unfold presUsername; nook
theorem presRealm_nook (call : Call) (lv : LenView) (uh : Bool) : NoOkErr (presRealm call lv uh) := by unfold presRealm; nook
theorem presNcCnonce_nook (lv : LenView) (q : Nat) : NoOkErr (presNcCnonce lv q) := by unfold presNcCnonce; nook
theorem presUri_nook (lv : LenView) : NoOkErr (presUri lv) := by unfold presUri; nook
theorem presNonce_nook (a : Algo) (lv : LenView) : NoOkErr (presNonce a lv) := by unfold presNonce; nook
theorem presResponse_nook (ds : Nat) (lv : LenView) : NoOkErr (presResponse ds lv) := by unfold presResponse; nook
theorem needV_nook (o : Option Bytes) : NoOkErr (needV o) := by unfold needV; nook

theorem presenceV_nook (a : Algo) (call : Call) (lv : LenView) (q : Nat) (uh : Bool) : NoOkErr (presenceV a call lv q uh) := by
  unfold presenceV
  exact (presUsername_nook _ _ _).bind fun _ => (presRealm_nook _ _ _).bind fun _ => (presNcCnonce_nook _ _).bind fun _ =>
    (presUri_nook _).bind fun _ => (presNonce_nook _ _).bind fun _ => presResponse_nook _ _

theorem specRealm_nook (call : Call) (c : Cred) : NoOkErr (specRealm call c) := by
  unfold specRealm
  exact (needV_nook _).bind fun v => by nook

theorem specUsername_nook (a : Algo) (call : Call) (c : Cred) : NoOkErr (specUsername a call c) := by
  unfold specUsername
  split
  · split
    · nook
    · exact (needV_nook _).bind fun e => by nook
  · exact (needV_nook _).bind fun u => by nook

theorem specNc_nook (m : Nat) (c : Cred) : NoOkErr (specNc m c) := by
  unfold specNc
  split
  · exact (needV_nook _).bind fun u => by nook
  · exact noOk_ok _

theorem specNonce_nook (a : Algo) (now t : Nat) (c : Cred) : NoOkErr (specNonce a now t c) := by
  unfold specNonce
  exact (needV_nook _).bind fun u => by nook

theorem specPre_nook (now timeout maxNc : Nat) (call : Call) (c : Cred) (lv : LenView) :
    NoOkErr (specPre now timeout maxNc call c lv) := by
  unfold specPre
  exact (stageAlgoN_nook _ _).bind fun a => (stageQopN_nook _ _).bind fun _ => (presenceV_nook _ _ _ _ _).bind fun _ =>
    (specRealm_nook _ _).bind fun _ => (specUsername_nook _ _ _).bind fun _ => (specNc_nook _ _).bind fun _ =>
    (specNonce_nook _ _ _ _).bind fun _ => noOk_ok _

theorem specUri_nook (cfg : Cfg) (r : Req) (c : Cred) (lv : LenView) : NoOkErr (specUri cfg r c lv) := by
  unfold specUri
  exact (needV_nook _).bind fun u => by nook

theorem ha1Hex_nook (a : Algo) (call : Call) : NoOkErr (ha1Hex a call) := by unfold ha1Hex; nook

theorem specQopPart_nook (c : Cred) : NoOkErr (specQopPart c) := by
  unfold specQopPart
  split
  · exact (needV_nook _).bind fun _ => (needV_nook _).bind fun _ => (needV_nook _).bind fun _ => noOk_ok _
  · exact noOk_ok _

theorem specResponse_nook (a : Algo) (r : Req) (call : Call) (c : Cred) (uri : Bytes) : NoOkErr (specResponse a r call c uri) := by
  unfold specResponse
  refine (ha1Hex_nook _ _).bind fun h1 => (needV_nook _).bind fun resp => ?_
  split
  · exact noOk_err _ (by simp)
  · split
    · exact noOk_err _ (by simp)
    · split
      · exact noOk_err _ (by simp)
      · exact (needV_nook _).bind fun _ => (specQopPart_nook _).bind fun _ => by nook

theorem specBind_nook (cfg : Cfg) (a : Algo) (r : Req) (call : Call) (c : Cred) (t : Nat) : NoOkErr (specBind cfg a r call c t) := by
  unfold specBind
  split
  · split
    · exact noOk_err _ (by simp)
    · exact (needV_nook _).bind fun _ => by nook
  · exact noOk_ok _

end Mhd.Dauth
