import Mhd.Proofs.ReplyMainLemmas
set_option linter.unusedSimpArgs false
set_option linter.unusedVariables false
namespace Mhd.Reply
open Mhd.ReplyStr Mhd.Resp
open Mhd.Http (FieldOK NameOK NoCRLF normField ChunkOK chunkBytes clsOf tesOf connsOf ciEq lower isOWS Framing)
open Mhd.Gen.Reply (sizeUnknown maxChunk)

/-- the request as the grammar sees it -/
def reqOf (c : Conn) : Mhd.Http.Req := ⟨c.mthd == .head, ver11Compat c.ver⟩

/-- the body bytes the application supplies -/
def appBody : BodySrc → Bytes
  | .buffer d => d
  | .callback ps _ => ps.flatten

/-- the application keeps its side of the content contract -/
def SrcLegal (r : Resp) (wb : Nat) : BodySrc → Prop
  | .buffer data => data.length = r.totalSize ∧ r.totalSize ≠ sizeUnknown
  | .callback pieces ending => ending = .eos ∧ (∀ p ∈ pieces, p ≠ [] ∧ p.length ≤ chunkLimit wb) ∧
      (r.totalSize ≠ sizeUnknown → sumLen pieces = r.totalSize) ∧
      (r.totalSize = sizeUnknown → sumLen pieces < sizeUnknown)

/-- no body may be sent: 1xx, 204, HEAD, 304 -/
def NoBody (c : Conn) (code : Nat) : Prop := (code < 200 ∨ code = 204) ∨ c.mthd = .head ∨ code = 304

instance (c : Conn) (code : Nat) : Decidable (NoBody c code) := by unfold NoBody; infer_instance

/-- the header block that is produced when the buffer is large enough -/
def headBytes (c : Conn) (r : Resp) (rcode : Nat) (icy : Bool) (date : Option Bytes) : Bytes :=
  let ka := (setupReplyProperties c r rcode).1
  let props := (setupReplyProperties c r rcode).2
  ((headSegs c r rcode icy date ka props).map (·.piece)).flatten

theorem buildHeader_eq (c : Conn) (r : Resp) (rcode : Nat) (icy : Bool) (date : Option Bytes) (bs : Nat) (h : Bytes)
    (hh : (buildHeaderResponse c r rcode icy date bs).2.2 = some h) :
    (buildHeaderResponse c r rcode icy date bs).1 = (setupReplyProperties c r rcode).1 ∧
    (buildHeaderResponse c r rcode icy date bs).2.1 = (setupReplyProperties c r rcode).2 ∧
    h = headBytes c r rcode icy date := by
  unfold buildHeaderResponse at hh ⊢
  rcases hs : setupReplyProperties c r rcode with ⟨ka, props⟩
  simp only [hs] at hh ⊢
  refine ⟨by first | rfl | trivial, by first | rfl | trivial, ?_⟩
  split at hh
  · simp at hh
  · have := runSegs_eq bs _ _ _ hh
    simp at this
    unfold headBytes
    rw [hs]; exact this

theorem noBody_iff (c : Conn) (code : Nat) :
    (isReplyBodyNeeded c.mthd code == .send) = false ↔ NoBody c code := by
  obtain ⟨_, h2⟩ := bodyNeeded_cases c.mthd code
  unfold NoBody
  constructor
  · intro h
    by_cases hn : ((code < 200 ∨ code = 204) ∨ c.mthd = .head ∨ code = 304)
    · exact hn
    · have := h2.2 hn; simp [this] at h
  · intro h
    cases hx : (isReplyBodyNeeded c.mthd code == .send) with
    | false => rfl
    | true => have hx' : isReplyBodyNeeded c.mthd code = .send := by simpa using hx
              exact absurd h (h2.1 hx')

/-! ### the header block parses back -/

theorem reasons_ok : ∀ p ∈ Mhd.Gen.Reply.reasons, (!p.2.isEmpty && p.2.all fun b => b != 13 && b != 10) = true := by
  decide

theorem reasonPhrase_ok (code : Nat) : reasonPhrase code ≠ [] ∧ NoCRLF (reasonPhrase code) := by
  unfold reasonPhrase
  split
  · rename_i p hp
    have hm := List.mem_of_find?_eq_some hp
    have := reasons_ok p hm
    simp only [Bool.and_eq_true, Bool.not_eq_true', List.all_eq_true, bne_iff_ne, ne_eq] at this
    constructor
    · intro hh; rw [hh] at this; simp at this
    · intro b hb; exact this.2 b hb
  · constructor
    · decide
    · exact noCRLF_const _ (by decide)

theorem versionStr_ok (r : Resp) (icy : Bool) : Mhd.Http.okVersion (versionStr r icy) = true := by
  unfold versionStr
  cases icy <;> cases r.flags.http10Server <;> decide

theorem head_parse (c : Conn) (r : Resp) (code : Nat) (icy : Bool) (date : Option Bytes) (body : Bytes)
    (hinv : Inv r) (hdate : ∀ d, date = some d → NoCRLF d) (hsz : r.totalSize < 2 ^ 64)
    (h100 : 100 ≤ code) (h999 : code ≤ 999) :
    Mhd.Http.parseReply (reqOf c) (headBytes c r code icy date ++ body) =
      Mhd.Http.frameReply (reqOf c) (versionStr r icy) code (reasonPhrase code)
        (((allFields c r date (setupReplyProperties c r code).1 (setupReplyProperties c r code).2).map toHttp).map normField)
        body := by
  obtain ⟨d1, d2, d3, hcd, hd1, hd2, hd3, hd0, hval⟩ := Mhd.ReplyNum.codeDigits_spec code h100 h999
  have hcd' : codeDigits code = [d1, d2, d3] := by unfold codeDigits; rw [hcd]; rfl
  obtain ⟨hr1, hr2⟩ := reasonPhrase_ok code
  have hf := allFields_fieldOK c r date (setupReplyProperties c r code).1 (setupReplyProperties c r code).2 hinv hdate hsz
  have := Mhd.Http.parseReply_render (reqOf c) (versionStr r icy) d1 d2 d3 (reasonPhrase code) _ body
    (versionStr_ok r icy) hd1 hd2 hd3 hd0 hr1 hr2 hf
  rw [hval] at this
  rw [← this]
  unfold headBytes
  simp only
  rw [headSegs_pieces, hcd']
  simp [List.append_assoc]

/-! ### the complete reply -/

/-- what the parser must find -/
def expectedFraming (c : Conn) (r : Resp) (code : Nat) : Framing :=
  if NoBody c code then .none
  else if (setupReplyProperties c r code).2.chunked then .chunked
  else if r.totalSize ≠ sizeUnknown then .length r.totalSize
  else .close

theorem reqOf_head (c : Conn) : (reqOf c).head = true ↔ c.mthd = .head := by simp [reqOf]

theorem noBody_req (c : Conn) (code : Nat) :
    ((code < 200 ∨ code = 204) ∨ (reqOf c).head = true ∨ code = 304) ↔ NoBody c code := by
  unfold NoBody; rw [reqOf_head]

theorem normalBody_buffer (total : Nat) (data : Bytes) (hd : data.length = total) :
    normalBody total (.buffer data) 0 = ⟨data, true⟩ := by
  unfold normalBody
  by_cases h0 : total = 0
  · have : data = [] := List.length_eq_zero_iff.1 (by omega)
    simp [h0, this]
  · have h0' : (total == 0) = false := by simpa using h0
    have h1 : (0 == total) = false := by
      cases hx : (0 == total) with
      | false => rfl
      | true => have : 0 = total := by simpa using hx
                omega
    have h2 : 0 < total := by omega
    simp [h0', h1, h2]

theorem sumLen_zero (ps : List Bytes) (h : ∀ p ∈ ps, p ≠ []) (hs : sumLen ps = 0) : ps = [] := by
  cases ps with
  | nil => rfl
  | cons p t =>
    have hp := h p (by simp)
    have : 0 < p.length := by
      cases p with
      | nil => exact absurd rfl hp
      | cons _ _ => simp
    simp only [sumLen, List.map_cons, List.sum_cons] at hs; omega

theorem normalBody_callback (total : Nat) (pieces : List Bytes) (hp : ∀ p ∈ pieces, p ≠ [])
    (hk : total ≠ sizeUnknown → sumLen pieces = total) (hu : total = sizeUnknown → sumLen pieces < sizeUnknown) :
    normalBody total (.callback pieces .eos) 0 = ⟨pieces.flatten, true⟩ := by
  unfold normalBody
  by_cases h0 : total = 0
  · have hne : total ≠ sizeUnknown := by rw [h0]; decide
    have := sumLen_zero pieces hp (by rw [hk hne, h0])
    simp [h0, this]
  · have h0' : (total == 0) = false := by simpa using h0
    obtain ⟨i1, i2⟩ := normalCallback_spec total pieces 0 [] hp (by simpa using hk) (by simpa using hu)
    simp only [h0', Bool.false_eq_true, if_false]
    by_cases ht : total = sizeUnknown
    · cases hc : (normalCallbackBody total pieces 0 []).complete with
      | true =>
        simp only [hc, if_true]
        have : normalCallbackBody total pieces 0 [] = ⟨pieces.flatten, true⟩ := by
          cases hx : normalCallbackBody total pieces 0 [] with
          | mk b cpl => rw [hx] at i1 hc; simp at i1 hc; simp [i1, hc]
        exact this
      | false =>
        simp only [hc, Bool.false_eq_true, if_false]
        subst ht
        simp [i1]
    · have := i2 ht
      simp only [this, if_true]
      cases hx : normalCallbackBody total pieces 0 [] with
      | mk b cpl => rw [hx] at i1 this; simp at i1 this; simp [i1, this]

theorem queue_pretend (c : Conn) (st : CState) (allow : Bool) (code0 : Nat) (r : Resp) (q : Queued)
    (hq : queueResponse c st false false allow code0 r = some q) (hnb : ¬ NoBody c q.code) :
    q.bodyPretendSent = false := by
  unfold queueResponse at hq
  simp only at hq
  generalize hcode : codeOf code0 = code at hq
  obtain ⟨_, hq⟩ := ite_none_some hq
  obtain ⟨_, hq⟩ := ite_none_some hq
  obtain ⟨_, hq⟩ := ite_none_some hq
  obtain ⟨_, hq⟩ := ite_none_some hq
  obtain ⟨_, hq⟩ := ite_none_some hq
  obtain ⟨_, hq⟩ := ite_none_some hq
  obtain ⟨_, hq⟩ := ite_none_some hq
  obtain ⟨_, hq⟩ := ite_none_some hq
  obtain ⟨_, hq⟩ := ite_none_some hq
  obtain ⟨_, hq⟩ := ite_none_some hq
  obtain ⟨_, hq⟩ := ite_none_some hq
  obtain ⟨_, hq⟩ := ite_none_some hq
  obtain ⟨_, hq⟩ := ite_none_some hq
  obtain ⟨_, hq⟩ := ite_none_some hq
  simp at hq
  subst hq
  simp only at hnb ⊢
  unfold NoBody at hnb
  have n1 : ¬ code < 200 := fun h => hnb (Or.inl (Or.inl h))
  have n2 : ¬ code = 204 := fun h => hnb (Or.inl (Or.inr h))
  have n3 : ¬ c.mthd = .head := fun h => hnb (Or.inr (Or.inl h))
  have n4 : ¬ code = 304 := fun h => hnb (Or.inr (Or.inr h))
  clear hnb
  have a1 : (c.mthd == Mthd.head) = false := by simpa using n3
  have a2 : decide ((code : Int) < Mhd.Gen.Reply.httpOk) = false := by
    have : ¬ ((code : Int) < Mhd.Gen.Reply.httpOk) := by simp only [Mhd.Gen.Reply.httpOk]; omega
    simp [this]
  have a3 : ((code : Int) == Mhd.Gen.Reply.httpNoContent) = false := by
    have : ¬ ((code : Int) = Mhd.Gen.Reply.httpNoContent) := by simp only [Mhd.Gen.Reply.httpNoContent]; omega
    simp [this]
  have a4 : ((code : Int) == Mhd.Gen.Reply.httpNotModified) = false := by
    have : ¬ ((code : Int) = Mhd.Gen.Reply.httpNotModified) := by simp only [Mhd.Gen.Reply.httpNotModified]; omega
    simp [this]
  simp [a1, a2, a3, a4]

/-- MAIN LEMMA: a completely sent reply parses, with the head, framing, body and trailers the model intends -/
theorem reply_parses (c : Conn) (r : Resp) (st : CState) (allow : Bool) (code0 : Nat) (q : Queued) (src : BodySrc)
    (date : Option Bytes) (wb : Nat)
    (hinv : Inv r) (hq : queueResponse c st false false allow code0 r = some q)
    (hdate : ∀ d, date = some d → NoCRLF d) (hsz : r.totalSize < 2 ^ 64)
    (hsrc : SrcLegal r wb src) (hwb : 128 ≤ wb)
    (hcomp : (sendReply c r q src date wb (startPosAfterQueue q r 0)).complete = true) :
    Mhd.Http.parseReply (reqOf c) (sendReply c r q src date wb (startPosAfterQueue q r 0)).wire =
      some ⟨versionStr r q.icy, q.code, reasonPhrase q.code,
            ((allFields c r date (setupReplyProperties c r q.code).1 (setupReplyProperties c r q.code).2).map toHttp).map normField,
            expectedFraming c r q.code,
            if NoBody c q.code then [] else appBody src,
            if ¬ NoBody c q.code ∧ (setupReplyProperties c r q.code).2.chunked = true
              then ((footerFields r.hdrs).map toHttp).map normField else []⟩ := by
  obtain ⟨h100, h999, hho, hupg, _⟩ := queue_facts c st allow code0 r q hq
  obtain ⟨s1, s2, s3, s4⟩ := setup_props c r q.code
  obtain ⟨fc1, fc2, fc3⟩ := field_counts c r date q.code hinv
  -- the header block
  cases hb : (buildHeaderResponse c r q.code q.icy date wb).2.2 with
  | none =>
    exfalso
    unfold sendReply at hcomp
    rcases hx : buildHeaderResponse c r q.code q.icy date wb with ⟨ka, props, hdr⟩
    rw [hx] at hb hcomp
    simp at hb; subst hb
    simp at hcomp
  | some h =>
    obtain ⟨e1, e2, e3⟩ := buildHeader_eq c r q.code q.icy date wb h hb
    generalize hF : ((allFields c r date (setupReplyProperties c r q.code).1 (setupReplyProperties c r q.code).2).map toHttp).map normField = PF at *
    have hF' := hF
    -- field facts in the grammar's terms
    have lte : (tesOf PF).length = b2n (setupReplyProperties c r q.code).2.chunked := by
      rw [← hF, tesOf_len]; exact fc1
    have lco : (connsOf PF).length ≤ 1 := by rw [← hF, connsOf_len]; exact fc3
    have lcl := fc2
    rw [← clsOf_len, hF] at lcl
    have vcl : ∀ f ∈ clsOf PF, (Mhd.Http.parseDec f.value).isSome = true := by
      intro f hf
      rw [← hF, clsOf_bridge] at hf
      simp only [List.mem_map, List.mem_filter] at hf
      obtain ⟨g, ⟨g0, ⟨hg0, hg1⟩, rfl⟩, rfl⟩ := hf
      exact cl_values c r date _ _ hinv hsz g0 hg0 hg1
    have vte : ∀ f ∈ tesOf PF, ciEq f.value Mhd.Http.vChunked = true := by
      intro f hf
      rw [← hF, tesOf_bridge] at hf
      simp only [List.mem_map, List.mem_filter] at hf
      obtain ⟨g, ⟨g0, ⟨hg0, hg1⟩, rfl⟩, rfl⟩ := hf
      exact te_values c r date _ _ hinv g0 hg0 hg1
    have hsend : (setupReplyProperties c r q.code).2.sendReplyBody = true ↔ ¬ NoBody c q.code := by
      rw [s2]
      constructor
      · intro hh hn; rw [(noBody_iff c q.code).2 hn] at hh; cases hh
      · intro hn
        cases hx : (isReplyBodyNeeded c.mthd q.code == BodyUse.send) with
        | true => rfl
        | false => exact absurd ((noBody_iff c q.code).1 hx) hn
    have huse : (setupReplyProperties c r q.code).2.useReplyBodyHeaders = false ↔ (q.code < 200 ∨ q.code = 204) := by
      rw [s1]
      have := (bodyNeeded_cases c.mthd q.code).1
      constructor
      · intro hh; apply this.1; simpa using hh
      · intro hh; simp [this.2 hh]
    -- the wire image
    have hwire : (sendReply c r q src date wb (startPosAfterQueue q r 0)) =
        (if r.upgrade then ⟨h, (setupReplyProperties c r q.code).1, (setupReplyProperties c r q.code).2, true⟩
         else if ! (setupReplyProperties c r q.code).2.sendReplyBody then
           ⟨h, (setupReplyProperties c r q.code).1, (setupReplyProperties c r q.code).2, true⟩
         else
           let b := if (setupReplyProperties c r q.code).2.chunked then chunkedBody wb r src (startPosAfterQueue q r 0)
                    else normalBody r.totalSize src (startPosAfterQueue q r 0)
           ⟨h ++ b.bytes, (setupReplyProperties c r q.code).1, (setupReplyProperties c r q.code).2, b.complete⟩) := by
      unfold sendReply
      rcases hx : buildHeaderResponse c r q.code q.icy date wb with ⟨ka, props, hdr⟩
      rw [hx] at hb e1 e2
      simp only at hb e1 e2
      subst hb e1 e2
      rfl
    rw [hwire] at hcomp ⊢
    by_cases hnb : NoBody c q.code
    · -- no body: the wire is the header block
      have hns : (setupReplyProperties c r q.code).2.sendReplyBody = false := by
        cases hx : (setupReplyProperties c r q.code).2.sendReplyBody with
        | false => rfl
        | true => exact absurd hnb (hsend.1 hx)
      have hw : (if r.upgrade then (⟨h, (setupReplyProperties c r q.code).1, (setupReplyProperties c r q.code).2, true⟩ : ReplyOut)
           else if ! (setupReplyProperties c r q.code).2.sendReplyBody then
             ⟨h, (setupReplyProperties c r q.code).1, (setupReplyProperties c r q.code).2, true⟩
           else
             let b := if (setupReplyProperties c r q.code).2.chunked then chunkedBody wb r src (startPosAfterQueue q r 0)
                      else normalBody r.totalSize src (startPosAfterQueue q r 0)
             ⟨h ++ b.bytes, (setupReplyProperties c r q.code).1, (setupReplyProperties c r q.code).2, b.complete⟩).wire = h := by
        split
        · rfl
        · simp [hns]
      rw [hw, e3]
      have := head_parse c r q.code q.icy date [] hinv hdate hsz h100 h999
      simp only [List.append_nil] at this
      rw [this, hF]
      have hexp : expectedFraming c r q.code = .none := by simp [expectedFraming, hnb]
      rw [hexp]
      simp only [hnb, if_true, not_true_eq_false, false_and, if_false]
      apply Mhd.Http.frameReply_noBody
      · rw [lcl]; exact b2n_le_one _
      · rw [lte]; exact b2n_le_one _
      · exact lco
      · -- never both
        by_cases hch : (setupReplyProperties c r q.code).2.chunked = true
        · left
          have : (clsOf PF).length = 0 := by rw [lcl, hch]; simp [b2n]
          exact List.length_eq_zero_iff.1 this
        · right
          have hch' : (setupReplyProperties c r q.code).2.chunked = false := by simpa using hch
          have : (tesOf PF).length = 0 := by rw [lte, hch']; simp [b2n]
          exact List.length_eq_zero_iff.1 this
      · exact vcl
      · exact vte
      · intro hne
        have hch : (setupReplyProperties c r q.code).2.chunked = true := by
          cases hx : (setupReplyProperties c r q.code).2.chunked with
          | true => rfl
          | false => exfalso; apply hne; apply List.length_eq_zero_iff.1; rw [lte, hx]; simp [b2n]
        exact (s3 hch).2.1
      · intro hlow
        have hu := huse.2 hlow
        constructor
        · apply List.length_eq_zero_iff.1; rw [lcl, hu]; simp [b2n]
        · apply List.length_eq_zero_iff.1; rw [lte]
          cases hx : (setupReplyProperties c r q.code).2.chunked with
          | false => simp [b2n]
          | true => have := (s3 hx).1; rw [hu] at this; cases this
      · exact (noBody_req c q.code).2 hnb
    · -- a body is sent
      have hsb : (setupReplyProperties c r q.code).2.sendReplyBody = true := hsend.2 hnb
      have hub : (setupReplyProperties c r q.code).2.useReplyBodyHeaders = true := by
        cases hx : (setupReplyProperties c r q.code).2.useReplyBodyHeaders with
        | true => rfl
        | false => exfalso; apply hnb; left; exact huse.1 hx
      have hnu : r.upgrade = false := by
        cases hx : r.upgrade with
        | false => rfl
        | true => exfalso; apply hnb; left; left; have := hupg hx; omega
      have hnho : r.flags.headOnly = false := by
        cases hx : r.flags.headOnly with
        | false => rfl
        | true =>
          exfalso; apply hho hx
          have : (isReplyBodyNeeded c.mthd q.code == BodyUse.send) = true := by rw [← s2]; exact hsb
          simpa using this
      have hncl : r.fa.contentLength = false := by
        cases hx : r.fa.contentLength with
        | false => rfl
        | true => have := hinv.clHead hx; rw [hnho] at this; cases this
      have hsp : startPosAfterQueue q r 0 = 0 := by
        unfold startPosAfterQueue
        have : q.bodyPretendSent = false := queue_pretend c st allow code0 r q hq hnb
        simp [this]
      simp only [hnu, Bool.false_eq_true, if_false, hsb, Bool.not_true, hsp] at hcomp ⊢
      simp only [hnb, if_false, not_false_eq_true, true_and]
      by_cases hch : (setupReplyProperties c r q.code).2.chunked = true
      · -- chunked
        simp only [hch, if_true] at hcomp ⊢
        have hexp : expectedFraming c r q.code = .chunked := by simp [expectedFraming, hnb, hch]
        rw [hexp]
        obtain ⟨_, h11, _⟩ := s3 hch
        -- the chunks
        have hbody : ∃ cs, chunkedBody wb r src 0 = ⟨framesOf cs ++ 48 :: 13 :: 10 ::
              (Mhd.Http.renderFields ((footerFields r.hdrs).map toHttp) ++ [13, 10]), true⟩ ∧
            (cs.map (·.2)).flatten = appBody src ∧ ∀ c ∈ cs, ChunkOK c := by
          unfold chunkedBody at hcomp ⊢
          simp only at hcomp ⊢
          cases src with
          | buffer data =>
            obtain ⟨hdl, hkn⟩ := hsrc
            by_cases h0 : r.totalSize = 0
            · have hd0 : data = [] := List.length_eq_zero_iff.1 (by omega)
              have h0' : (r.totalSize == 0) = true := by simpa using h0
              simp only [h0', if_true, Bool.not_true, Bool.false_eq_true, if_false] at hcomp ⊢
              cases hf : buildFooter r wb with
              | none => rw [hf] at hcomp; simp at hcomp
              | some f =>
                refine ⟨[], ?_, by simp [appBody, hd0], by intro c hc; cases hc⟩
                rw [buildFooter_eq r wb f hf]; simp [framesOf]
            · have h0' : (r.totalSize == 0) = false := by simpa using h0
              obtain ⟨cs, c1, c2, c3⟩ := chunkedBuffer_spec wb r.totalSize data hdl hwb (data.length + 1) 0 []
                (by omega) (by omega)
              simp only [h0', Bool.false_eq_true, if_false, c1, Bool.not_true] at hcomp ⊢
              cases hf : buildFooter r wb with
              | none => rw [hf] at hcomp; simp at hcomp
              | some f =>
                refine ⟨cs, ?_, by simpa [appBody] using c2, c3⟩
                rw [buildFooter_eq r wb f hf]; simp
          | callback pieces ending =>
            obtain ⟨hend, hpc, hk, hu⟩ := hsrc
            subst hend
            by_cases h0 : r.totalSize = 0
            · have hne : r.totalSize ≠ sizeUnknown := by rw [h0]; decide
              have hp0 := sumLen_zero pieces (fun p hp => (hpc p hp).1) (by rw [hk hne, h0])
              have h0' : (r.totalSize == 0) = true := by simpa using h0
              simp only [h0', if_true, Bool.not_true, Bool.false_eq_true, if_false] at hcomp ⊢
              cases hf : buildFooter r wb with
              | none => rw [hf] at hcomp; simp at hcomp
              | some f =>
                refine ⟨[], ?_, by simp [appBody, hp0], by intro c hc; cases hc⟩
                rw [buildFooter_eq r wb f hf]; simp [framesOf]
            · have h0' : (r.totalSize == 0) = false := by simpa using h0
              obtain ⟨cs, c1, c2, c3⟩ := chunkedCallback_spec wb r.totalSize pieces 0 [] hpc
                (by simpa using hk) (by simpa using hu)
              simp only [h0', Bool.false_eq_true, if_false, c1, Bool.not_true] at hcomp ⊢
              cases hf : buildFooter r wb with
              | none => rw [hf] at hcomp; simp at hcomp
              | some f =>
                refine ⟨cs, ?_, by simp [appBody, ← c2], c3⟩
                rw [buildFooter_eq r wb f hf]; simp
        obtain ⟨cs, hcb, hcs1, hcs2⟩ := hbody
        rw [hcb]
        simp only
        rw [e3]
        have hp := head_parse c r q.code q.icy date
          (framesOf cs ++ 48 :: 13 :: 10 :: (Mhd.Http.renderFields ((footerFields r.hdrs).map toHttp) ++ [13, 10]))
          hinv hdate hsz h100 h999
        rw [hp, hF]
        have hfr := Mhd.Http.frameReply_chunked (reqOf c) (versionStr r q.icy) q.code (reasonPhrase q.code) PF cs
          ((footerFields r.hdrs).map toHttp)
          (by apply List.length_eq_zero_iff.1; rw [lcl, hch]; simp [b2n])
          (by rw [lte, hch]; simp [b2n]) lco vte h11
          (by intro hh; exact hnb ((noBody_req c q.code).1 hh)) hcs2 (footer_fieldOK r hinv)
        simp only [framesOf] at hfr ⊢
        rw [hfr, hcs1]
      · -- identity coding
        have hch' : (setupReplyProperties c r q.code).2.chunked = false := by simpa using hch
        simp only [hch', Bool.false_eq_true, if_false] at hcomp ⊢
        have hnbody : normalBody r.totalSize src 0 = ⟨appBody src, true⟩ := by
          cases src with
          | buffer data => exact normalBody_buffer _ _ hsrc.1
          | callback pieces ending =>
            obtain ⟨hend, hpc, hk, hu⟩ := hsrc
            subst hend
            exact normalBody_callback _ _ (fun p hp => (hpc p hp).1) hk hu
        rw [hnbody]
        simp only
        rw [e3]
        have hp := head_parse c r q.code q.icy date (appBody src) hinv hdate hsz h100 h999
        rw [hp, hF]
        have ltes : tesOf PF = [] := by apply List.length_eq_zero_iff.1; rw [lte, hch']; simp [b2n]
        by_cases hkn : r.totalSize = sizeUnknown
        · -- close-delimited
          have hexp : expectedFraming c r q.code = .close := by simp [expectedFraming, hnb, hch', hkn]
          rw [hexp]
          have hka := s4 hch' hub hkn
          have hac := close_in_fields c r date _ (setupReplyProperties c r q.code).2 hinv hka
          rw [hF] at hac
          have hsz' : (r.totalSize != sizeUnknown) = false := by simp [hkn]
          exact Mhd.Http.frameReply_close (reqOf c) _ _ _ PF _
            (by apply List.length_eq_zero_iff.1; rw [lcl, hncl, hsz']; simp [b2n])
            ltes lco hac (by intro hh; exact hnb ((noBody_req c q.code).1 hh))
        · -- Content-Length
          have hexp : expectedFraming c r q.code = .length r.totalSize := by simp [expectedFraming, hnb, hch', hkn]
          rw [hexp]
          have hsz' : (r.totalSize != sizeUnknown) = true := by simpa using hkn
          have lcl1 : (clsOf PF).length = 1 := by rw [lcl, hub, hch', hncl, hnho, hsz']; simp [b2n]
          -- the single Content-Length field is the automatic one
          have hmem : normField (toHttp ⟨sContentLength, sizeDigits r.totalSize⟩) ∈ clsOf PF := by
            rw [← hF, clsOf_bridge]
            apply List.mem_map_of_mem
            apply List.mem_map_of_mem
            rw [List.mem_filter]
            refine ⟨?_, nameIs_cl_cl⟩
            unfold allFields bodyFields
            simp [hub, hnho, hch', hsz', hncl]
          obtain ⟨f, hf1⟩ : ∃ f, clsOf PF = [f] := by
            match hx : clsOf PF, lcl1 with
            | [f], _ => exact ⟨f, rfl⟩
          have hfe : f = normField (toHttp ⟨sContentLength, sizeDigits r.totalSize⟩) := by
            rw [hf1] at hmem; simp at hmem; exact hmem.symm
          obtain ⟨z1, z2, z3⟩ := sizeDigits_ok r.totalSize hsz
          have hval : Mhd.Http.parseDec f.value = some r.totalSize := by
            rw [hfe]
            simp only [normField, toHttp]
            have hid := digits_isDigits _ z1 z2
            have hdw : (sizeDigits r.totalSize).dropWhile isOWS = sizeDigits r.totalSize := by
              cases hsd : sizeDigits r.totalSize with
              | nil => exact absurd hsd z1
              | cons b t =>
                have hb := hid.2 b (by rw [hsd]; simp)
                have h1 : b ≠ 32 := by intro hh; subst hh; simp at hb
                have h2 : b ≠ 9 := by intro hh; subst hh; simp at hb
                simp [List.dropWhile, isOWS, h1, h2]
            rw [hdw]
            unfold Mhd.Http.parseDec
            have : (sizeDigits r.totalSize).isEmpty = false := by
              cases hsd : sizeDigits r.totalSize with
              | nil => exact absurd hsd z1
              | cons _ _ => rfl
            simp [this, z2, z3]
          have hlen : (appBody src).length = r.totalSize := by
            cases src with
            | buffer data => exact hsrc.1
            | callback pieces ending =>
              obtain ⟨_, _, hk, _⟩ := hsrc
              have := hk hkn
              simp only [appBody, List.length_flatten]
              exact this
          exact Mhd.Http.frameReply_length (reqOf c) _ _ _ PF f r.totalSize _ hf1 ltes lco hval hlen
            (by intro hh; exact hnb ((noBody_req c q.code).1 hh))
end Mhd.Reply
